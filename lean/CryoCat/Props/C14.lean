import CryoCat.Lemmas.C14
import CryoCat.Lemmas.C14_Sym
import CryoCat.Lemmas.C14_Cube
import CryoCat.Lemmas.C14_Total
import Mathlib.Algebra.Field.Rat
import Mathlib.Tactic.NormNum
/-! C14 — property theorems (only theorems and non-vacuity examples). -/
namespace CryoCat.C14
variable {α : Type}

/-! ### translator obligations: the statements the model mirrors are the ones in the source today -/

theorem anchors_ok : Gen.C14.anchorsOk = true := by decide

/-- `rotate`: centre `shape // 2`; the matrix given to `affine_transform` is `T·M·T⁻¹` with `M = R.as_matrix().T` both for
`rotation_angles` and for `rotation=…, transpose_rotation=True` (and `R.as_matrix()` only for `transpose_rotation=False`);
Euler convention `"zxz"` in degrees, cubic splines -/
theorem rotate_source_documented :
    Gen.C14.rotCentre = ["np.asarray(input_map.shape)//2"] ∧
    Gen.C14.rotTranslationColumn = ["structure_center"] ∧
    Gen.C14.rotMatrixBranches = ["rotation.as_matrix().T", "rotation.as_matrix()", "rot.as_matrix().T"] ∧
    Gen.C14.rotIfTests = ["rotationisnotNone", "transpose_rotation", "rotation_anglesisnotNone", "output_nameisnotNone"] ∧
    Gen.C14.rotFromEuler = ["srot.from_euler(coord_space,rotation_angles,degrees=degrees)"] ∧
    Gen.C14.rotFinalMatrix = ["T@rot_matrix@np.linalg.inv(T)"] ∧
    Gen.C14.rotAffineCall = ["input=input_map", "matrix=final_matrix", "order=spline_order", "output=rot_struct"] ∧
    Gen.C14.rotSeqDefault = "zxz" ∧ Gen.C14.rotDegreesDefault = true ∧ Gen.C14.rotTransposeDefault = false ∧
    Gen.C14.rotSplineOrder = 3 := by repeat' constructor

/-- `get_start_end_indices`, statement by statement (mirrored by `startOf` and `clip1`) -/
theorem window_source_documented :
    Gen.C14.windowStatements =
      ["subvolume_shape=np.asarray(subvolume_shape)", "subvolume_half=subvolume_shape/2",
       "volume_start=np.floor(coord-subvolume_half).astype(int)", "volume_end=(volume_start+subvolume_shape).astype(int)",
       "volume_start_clip=np.minimum(np.maximum([0,0,0],volume_start),np.asarray(volume_shape))",
       "volume_end_clip=np.maximum(np.minimum(np.asarray(volume_shape),volume_end),[0,0,0])",
       "subvolume_start=volume_start_clip-volume_start", "subvolume_end=volume_end-volume_start",
       "subvolume_end=volume_end_clip-volume_end+subvolume_end",
       "subvolume_start=np.minimum(np.maximum([0,0,0],subvolume_start),subvolume_shape)",
       "subvolume_end=np.maximum(np.minimum(subvolume_shape,subvolume_end),[0,0,0])",
       "return (volume_start_clip,volume_end_clip,subvolume_start,subvolume_end)"] := by repeat' constructor

/-- `extract_subvolume` fills with the volume mean and copies `volume[vs:ve]` into `[ss:se]`; `crop` returns `map[vs:ve]` -/
theorem extract_source_documented :
    Gen.C14.extractItems =
      ["get_start_end_indices(coordinates,volume.shape,subvolume_shape)", "np.full(volume.shape,np.mean(volume))",
       "np.full(subvolume_shape,np.mean(volume))",
       "subvolume[vs[0]:ve[0],vs[1]:ve[1],vs[2]:ve[2]]=volume[vs[0]:ve[0],vs[1]:ve[1],vs[2]:ve[2]]",
       "subvolume[ss[0]:se[0],ss[1]:se[1],ss[2]:se[2]]=volume[vs[0]:ve[0],vs[1]:ve[1],vs[2]:ve[2]]"] ∧
    Gen.C14.cropItems =
      ["get_start_end_indices(crop_coord,input_map.shape,new_size)", "input_map[vs[0]:ve[0],vs[1]:ve[1],vs[2]:ve[2]]",
       "cryomask.get_correct_format(input_map.shape)//2", "cryomask.get_correct_format(crop_coord)"] := by repeat' constructor

/-- `place_object`: orientations from `get_rotations()`, complete positions minus 1, colours by position, the template
rotated with `transpose_rotation=True`, thresholded `> 0.1` to 1/0, stamped through `get_start_end_indices` -/
theorem place_source_documented :
    Gen.C14.placeRotations = ["motl.get_rotations()"] ∧
    Gen.C14.placeCoordinates = ["motl.get_coordinates()-1.0"] ∧
    Gen.C14.placeColors = ["motl.df[feature_to_color].to_numpy()"] ∧
    Gen.C14.placeObjectMap = ["rotate(input_object[i],rotation=rotations[i],transpose_rotation=True)",
       "rotate(input_object,rotation=rotations[i],transpose_rotation=True)", "np.where(object_map>0.1,1.0,0.0)"] ∧
    Gen.C14.placeIndexCall = ["get_start_end_indices(coord,object_container.shape,object_map.shape)"] ∧
    Gen.C14.placeObjectShape = ["object_map[os[0]:oe[0],os[1]:oe[1],os[2]:oe[2]]"] ∧
    Gen.C14.placeLoop = ["(i,coord) in enumerate(coordinates)"] ∧
    Gen.C14.placeAssignment = ["object_container[ls[0]:le[0],ls[1]:le[1],ls[2]:le[2]]=np.where(object_shape==1.0,colors[i],object_container[ls[0]:le[0],ls[1]:le[1],ls[2]:le[2]])"] ∧
    Gen.C14.placeThresholdCmp = "Gt" ∧ Gen.C14.placeOnOff = ["1.0", "0.0"] := by repeat' constructor

theorem place_threshold_documented : Gen.C14.placeThreshold = mkRat 1 10 := by decide

/-- `symmetrize_volume`: zeros, `+= rotate(vol, [0, 0, (k·360/n) % 360])` for k = 1..n, divided by n -/
theorem symmetrize_source_documented :
    Gen.C14.symStep = ["360/nfold"] ∧
    Gen.C14.symSum = ["np.zeros(vol.shape)", "np.add(rotated_sum,rotated_volume)"] ∧
    Gen.C14.symRotated = ["rotate(vol,rotation_angles=[0,0,inplane*inplane_step%360])"] ∧
    Gen.C14.symLoop = ["inplane in range(1,nfold+1)"] ∧
    Gen.C14.symOut = ["np.divide(rotated_sum,nfold)"] := by repeat' constructor

/-- the particle side of the convention: `get_rotations` and `shift_positions` build `from_euler("zxz", [phi, theta, psi],
degrees)` and *apply* it to reference offsets; complete position = `x + shift_x` -/
theorem motl_source_documented :
    Gen.C14.motlRotations = ["rot.from_euler('zxz',angles,degrees=True)"] ∧
    Gen.C14.motlAngleColumns = ["phi", "theta", "psi"] ∧
    Gen.C14.motlCoordinates = "self.df.loc[:,['x','y','z']].values+self.df.loc[:,['shift_x','shift_y','shift_z']].values" ∧
    Gen.C14.motlShiftPositions = ["np.array([[row['phi'],row['theta'],row['psi']]])",
       "rot.from_euler(seq='zxz',angles=euler_angles,degrees=True)", "orientations.apply(v)"] := by repeat' constructor

/-- **signature defaults the statement depends on** (every parameter, in order, with its default): `rotate` — `coord_space='zxz'`,
`transpose_rotation=False`, `degrees=True`, `spline_order=3`; `extract_subvolume` — `enforce_shape=False`; `crop` — `crop_coord=None`
(→ box centre); `pad` — `fill_value=None` (→ volume mean); `place_object` — `feature_to_color='object_id'` -/
theorem signatures_documented :
    Gen.C14.rotateSig =
      ["input_map",
       "rotation=None",
       "rotation_angles=None",
       "coord_space='zxz'",
       "transpose_rotation=False",
       "degrees=True",
       "spline_order=3",
       "output_name=None"] ∧
    Gen.C14.windowSig =
      ["coord",
       "volume_shape",
       "subvolume_shape"] ∧
    Gen.C14.extractSig =
      ["volume",
       "coordinates",
       "subvolume_shape",
       "enforce_shape=False",
       "output_file=None"] ∧
    Gen.C14.cropSig =
      ["input_map",
       "new_size",
       "output_file=None",
       "crop_coord=None"] ∧
    Gen.C14.padSig =
      ["input_volume",
       "new_size",
       "fill_value=None"] ∧
    Gen.C14.placeSig =
      ["input_object",
       "motl",
       "volume_shape=None",
       "volume=None",
       "feature_to_color='object_id'"] ∧
    Gen.C14.symSig =
      ["vol",
       "symmetry"] := by repeat' constructor

/-- `rotate`, every statement (nested blocks by `>`) -/
theorem rotate_body_documented :
    Gen.C14.rotateBody =
      ["input_map=read(input_map)",
       "T=np.eye(4)",
       "structure_center=np.asarray(input_map.shape)//2",
       "T[:3,-1]=structure_center",
       "rot_matrix=np.eye(4)",
       "if rotationisnotNone:",
       ">if transpose_rotation:",
       ">>rot_matrix[0:3,0:3]=rotation.as_matrix().T",
       ">else:",
       ">>rot_matrix[0:3,0:3]=rotation.as_matrix()",
       "else:",
       ">if rotation_anglesisnotNone:",
       ">>rot=srot.from_euler(coord_space,rotation_angles,degrees=degrees)",
       ">>rot_matrix[0:3,0:3]=rot.as_matrix().T",
       ">else:",
       ">>Raise:ValueError",
       "final_matrix=T@rot_matrix@np.linalg.inv(T)",
       "rot_struct=np.empty(input_map.shape)",
       "Expr:affine_transform(input=input_map,output=rot_struct,matrix=final_matrix,order=spline_order)",
       "if output_nameisnotNone:",
       ">Expr:write(rot_struct,output_name,data_type=np.single)",
       "return rot_struct"] := by repeat' constructor

/-- `get_start_end_indices`, every statement (no branch, no in-place update) -/
theorem window_body_documented :
    Gen.C14.windowBody =
      ["subvolume_shape=np.asarray(subvolume_shape)",
       "subvolume_half=subvolume_shape/2",
       "volume_start=np.floor(coord-subvolume_half).astype(int)",
       "volume_end=(volume_start+subvolume_shape).astype(int)",
       "volume_start_clip=np.minimum(np.maximum([0,0,0],volume_start),np.asarray(volume_shape))",
       "volume_end_clip=np.maximum(np.minimum(np.asarray(volume_shape),volume_end),[0,0,0])",
       "subvolume_start=volume_start_clip-volume_start",
       "subvolume_end=volume_end-volume_start",
       "subvolume_end=volume_end_clip-volume_end+subvolume_end",
       "subvolume_start=np.minimum(np.maximum([0,0,0],subvolume_start),subvolume_shape)",
       "subvolume_end=np.maximum(np.minimum(subvolume_shape,subvolume_end),[0,0,0])",
       "return (volume_start_clip,volume_end_clip,subvolume_start,subvolume_end)"] := by repeat' constructor

/-- `extract_subvolume`, both branches (`enforce_shape` and default) -/
theorem extract_body_documented :
    Gen.C14.extractBody =
      ["(vs,ve,ss,se)=get_start_end_indices(coordinates,volume.shape,subvolume_shape)",
       "if enforce_shapeisnotFalse:",
       ">subvolume=np.full(volume.shape,np.mean(volume))",
       ">subvolume[vs[0]:ve[0],vs[1]:ve[1],vs[2]:ve[2]]=volume[vs[0]:ve[0],vs[1]:ve[1],vs[2]:ve[2]]",
       "else:",
       ">subvolume=np.full(subvolume_shape,np.mean(volume))",
       ">subvolume[ss[0]:se[0],ss[1]:se[1],ss[2]:se[2]]=volume[vs[0]:ve[0],vs[1]:ve[1],vs[2]:ve[2]]",
       "if output_fileisnotNone:",
       ">Expr:write(subvolume,output_file,data_type=np.single)",
       "return subvolume"] := by repeat' constructor

/-- `crop`, incl. the default-centre branch -/
theorem crop_body_documented :
    Gen.C14.cropBody =
      ["input_map=read(input_map)",
       "new_size=cryomask.get_correct_format(new_size)",
       "if crop_coordisNone:",
       ">crop_coord=cryomask.get_correct_format(input_map.shape)//2",
       "else:",
       ">crop_coord=cryomask.get_correct_format(crop_coord)",
       "(vs,ve,_,_)=get_start_end_indices(crop_coord,input_map.shape,new_size)",
       "cropped_volume=input_map[vs[0]:ve[0],vs[1]:ve[1],vs[2]:ve[2]]",
       "if output_fileisnotNone:",
       ">Expr:write(cropped_volume,output_file,data_type=np.single)",
       "return cropped_volume"] := by repeat' constructor

/-- `pad`, the whole body (mirrored by `padStart`/`padF`) -/
theorem pad_body_documented :
    Gen.C14.padBody =
      ["volume=read(input_volume)",
       "if fill_valueisNone:",
       ">padded_volume=np.full(new_size,np.mean(volume))",
       "else:",
       ">padded_volume=np.full(new_size,fill_value)",
       "vol_size=volume.shape",
       "x_start=int(np.ceil((new_size[0]-vol_size[0])/2))",
       "y_start=int(np.ceil((new_size[1]-vol_size[1])/2))",
       "z_start=int(np.ceil((new_size[2]-vol_size[2])/2))",
       "x_end=int(x_start+vol_size[0])",
       "y_end=int(y_start+vol_size[1])",
       "z_end=int(z_start+vol_size[2])",
       "padded_volume[x_start:x_end,y_start:y_end,z_start:z_end]=volume",
       "return padded_volume"] := by repeat' constructor

/-- `place_object`, the whole body: nothing between rotation, thresholding, window and stamp -/
theorem place_body_documented :
    Gen.C14.placeBody =
      ["if notisinstance(input_object,list):",
       ">input_object=read(input_object)",
       "if volumeisnotNone:",
       ">object_container=read(volume)",
       "else:",
       ">if volume_shapeisnotNone:",
       ">>object_container=np.zeros(volume_shape)",
       "rotations=motl.get_rotations()",
       "coordinates=motl.get_coordinates()-1.0",
       "colors=motl.df[feature_to_color].to_numpy()",
       "for (i,coord) in enumerate(coordinates):",
       ">if isinstance(input_object,list):",
       ">>object_map=rotate(input_object[i],rotation=rotations[i],transpose_rotation=True)",
       ">else:",
       ">>object_map=rotate(input_object,rotation=rotations[i],transpose_rotation=True)",
       ">object_map=np.where(object_map>0.1,1.0,0.0)",
       ">(ls,le,os,oe)=get_start_end_indices(coord,object_container.shape,object_map.shape)",
       ">object_shape=object_map[os[0]:oe[0],os[1]:oe[1],os[2]:oe[2]]",
       ">object_container[ls[0]:le[0],ls[1]:le[1],ls[2]:le[2]]=np.where(object_shape==1.0,colors[i],object_container[ls[0]:le[0],ls[1]:le[1],ls[2]:le[2]])",
       "return object_container"] := by repeat' constructor

/-- `symmetrize_volume`, the whole body -/
theorem sym_body_documented :
    Gen.C14.symBody =
      ["if isinstance(symmetry,str):",
       ">nfold=int(re.findall('\\\\d+',symmetry)[-1])",
       "else:",
       ">if isinstance(symmetry,(int,float)):",
       ">>nfold=symmetry",
       ">else:",
       ">>Raise:ValueError",
       "inplane_step=360/nfold",
       "rotated_sum=np.zeros(vol.shape)",
       "for inplane in range(1,nfold+1):",
       ">rotated_volume=rotate(vol,rotation_angles=[0,0,inplane*inplane_step%360])",
       ">rotated_sum=np.add(rotated_sum,rotated_volume)",
       "sym_vol=np.divide(rotated_sum,nfold)",
       "return sym_vol"] := by repeat' constructor

/-! ### rotation: one active convention -/

/-- **Continuous coordinate law, any commutative ring (no trigonometry).** With the matrix `Rᵀ` that `rotate`
hands to `affine_transform` for orientation `R` (orthogonal), the output coordinate at offset `R v` from the
centre samples the input at offset `v`: density at `c + v` moves to `c + R v`. -/
theorem rotate_coordinate_active {K : Type} [CommRing K] (R : M3 K) (hR : R.Orth) (c v : V3 K) :
    srcCoord R.transpose c (c + R.apply v) = c + v := srcCoord_active_ring hR c v

/-- … and this is the orientation of a particle: for `R = zxz phi theta psi` (the matrix `Motl.get_rotations` /
`shift_positions` apply to reference offsets, `pos + R v`), the rotated map has at `c + R v` what the
reference has at `c + v`. -/
theorem rotate_coordinate_active_zxz {K : Type} [CommRing K] (cp sp ct st cs ss : K)
    (hp : cp*cp + sp*sp = 1) (ht : ct*ct + st*st = 1) (hs : cs*cs + ss*ss = 1) (c v : V3 K) :
    srcCoord (zxz cp sp ct st cs ss).transpose c (c + (zxz cp sp ct st cs ss).apply v) = c + v :=
  srcCoord_active_ring (zxz_orth cp sp ct st cs ss hp ht hs) c v

/-- resampling with the inverse rotation undoes the coordinate map exactly (what remains is interpolation error) -/
theorem rotate_coordinate_inverse {K : Type} [CommRing K] (R : M3 K) (hR : R.Orth) (c o : V3 K) :
    srcCoord R.transpose c (srcCoord R c o) = o := srcCoord_inverse_ring hR c o

/-- **Index law.** For every orthogonal integer matrix `R` (in particular the 24 cube rotations), every box
(odd, even, non-cubic) and every map: `out[c + R v] = in[c + v]` whenever `c + v` is a voxel of the box
(`c = ⌊N/2⌋`). -/
theorem rotate_index [OfNat α 0] (R : M3 Int) (hR : R.Orth) (s : Shape) (f : V3 Int → α) (v : V3 Int)
    (h : s.inBox (s.centre + v) = true) :
    rotateBy R s f (s.centre + R.apply v) = f (s.centre + v) := by
  have e := srcCoord_active_ring hR s.centre v
  unfold rotateBy rotateF
  simp only [e, h, if_true]

/-- outside the input the rotated map is the constant 0 -/
theorem rotate_outside [OfNat α 0] (R : M3 Int) (s : Shape) (f : V3 Int → α) (o : V3 Int)
    (h : s.inBox (srcCoord R.transpose s.centre o) = false) : rotateBy R s f o = 0 := by
  unfold rotateBy rotateF
  simp only [h]; rfl

/-- `rotate(map, rotation=R)` with the default `transpose_rotation=False` rotates by the INVERSE orientation:
it is `rotateBy Rᵀ`, so density at `c + v` moves to `c + Rᵀ v` (the documented meaning of the flag `place_object` sets) -/
theorem rotate_plain_is_inverse [OfNat α 0] (R : M3 Int) (hT : R.transpose.Orth) (s : Shape) (f : V3 Int → α) (v : V3 Int)
    (h : s.inBox (s.centre + v) = true) :
    rotatePlain R s f = rotateBy R.transpose s f ∧ rotatePlain R s f (s.centre + R.transpose.apply v) = f (s.centre + v) := by
  have e : rotatePlain R s f = rotateBy R.transpose s f := by
    unfold rotatePlain rotateBy; rw [M3.transpose_transpose]
  exact ⟨e, by rw [e]; exact rotate_index R.transpose hT s f v h⟩

/-- **Right-angle rotations permute voxels / rotating by the inverse restores.** `Rᵀ` is the inverse
orientation; wherever voxel `u` and its image `c + R (u - c)` are both in the box, rotating by `R` and then by
`R⁻¹` gives back the original voxel. -/
theorem rotate_inverse_restores [OfNat α 0] (R : M3 Int) (hR : R.Orth) (s : Shape) (f : V3 Int → α) (u : V3 Int)
    (hu : s.inBox u = true) (himg : s.inBox (srcCoord R s.centre u) = true) :
    rotateBy R.transpose s (rotateBy R s f) u = f u := by
  have e := srcCoord_inverse_ring hR s.centre u
  unfold rotateBy rotateF
  simp only [M3.transpose_transpose, himg, e, hu, if_true]

/-! ### the 24 cube rotations -/
theorem cube24_count : cube24.length = 24 := by decide
theorem cube24_nodup : cube24.Nodup := by decide
/-- each is a proper rotation: `RᵀR = 1`, `det R = 1` -/
theorem cube24_orth : ∀ R ∈ cube24, R.Orth := by unfold M3.Orth; decide
theorem cube24_det : ∀ R ∈ cube24, R.det = 1 := by decide
/-- … and so is the inverse of each (`R Rᵀ = 1`), the hypothesis of `rotate_plain_is_inverse` -/
theorem cube24_transpose_orth : ∀ R ∈ cube24, R.transpose.Orth := by unfold M3.Orth; decide
/-- they are exactly the particle orientations `zxz(phi, theta, psi)` with right-angle Euler angles -/
theorem cubeZxz_mem : ∀ a < 4, ∀ b < 4, ∀ c < 4, cubeZxz a b c ∈ cube24 := by decide
theorem cube24_from_zxz : ∀ R ∈ cube24, ∃ a < 4, ∃ b < 4, ∃ c < 4, R = cubeZxz a b c := by decide
/-- … and the list is complete: *every* proper orthogonal integer matrix (every rotation mapping the voxel grid to
itself) is one of the 24 — the exhaustive sweep over quarter-turn Euler triples misses no right-angle rotation -/
theorem cube24_complete (R : M3 Int) (hR : R.Orth) (hd : R.det = 1) : R ∈ cube24 := cube24_complete_aux R hR hd
theorem cubeZxz_periodic (a b c : Nat) : cubeZxz a b c = cubeZxz (a % 4) (b % 4) (c % 4) := by
  simp [cubeZxz, quarter]
/-- the inverse orientation is `zxz(-psi, -theta, -phi)` -/
theorem cube_inverse_angles : ∀ a < 4, ∀ b < 4, ∀ c < 4,
    (cubeZxz a b c).transpose = cubeZxz ((4 - c) % 4) ((4 - b) % 4) ((4 - a) % 4) := by decide

/-- the index law for the map rotated by right-angle Euler angles (what `rotate(map, rotation_angles=[90a, 90b, 90c])` is compared with) -/
theorem rotate_index_cube [OfNat α 0] (a b c : Nat) (s : Shape) (f : V3 Int → α) (v : V3 Int)
    (h : s.inBox (s.centre + v) = true) :
    rotateBy (cubeZxz a b c) s f (s.centre + (cubeZxz a b c).apply v) = f (s.centre + v) := by
  rw [cubeZxz_periodic]
  exact rotate_index _ (cube24_orth _ (cubeZxz_mem _ (Nat.mod_lt _ (by decide)) _ (Nat.mod_lt _ (by decide)) _ (Nat.mod_lt _ (by decide)))) s f v h

/-! ### windows -/

/-- `np.floor(coord - s/2)` is computed exactly: `start ≤ coord - s/2 < start + 1` for `coord = num/den` -/
theorem window_start_is_floor (num : Int) (den s : Nat) (hd : 0 < den) :
    2 * (den : Int) * startOf num den s ≤ 2 * num - s * den ∧ 2 * num - s * den < 2 * (den : Int) * (startOf num den s + 1) :=
  startOf_spec num den s hd

/-- even box `s = 2h`: the window starts `h` voxels below `⌊coord⌋`, so its voxel `h = ⌊s/2⌋` is voxel `⌊coord⌋` -/
theorem window_start_even (num : Int) (den h : Nat) (hd : 0 < den) : startOf num den (2 * h) = num / (den : Int) - h :=
  startOf_even num den h hd

/-- the slice assignment `sub[ss:se] = vol[vs:ve]` never raises: the two blocks always have equal extents -/
theorem window_blocks_agree (start : V3 Int) (V s : Shape) : (clip3 start V s).ok = true := clip3_ok start V s

/-- **Window.** For every volume, window shape and start (inside, partly outside, fully outside): the result
holds at `t` the volume voxel `start + t` if that exists, else the fill value. -/
theorem extract_spec (V s : Shape) (f : V3 Int → α) (start : V3 Int) (fill : α) :
    ∃ g, extractF V f start s fill = some g ∧
      ∀ t, s.inBox t = true → g t = if V.inBox (start + t) = true then f (start + t) else fill := by
  refine ⟨fun t => if (clip3 start V s).inSub t = true then f ((clip3 start V s).toVol t) else fill,
    by unfold extractF; simp only [clip3_ok, if_true], ?_⟩
  intro t ht
  by_cases h : V.inBox (start + t) = true
  · have h' := (clip3_inSub_iff start V s t ht).2 h
    simp only [h', h, if_true, clip3_toVol start V s t ht h']
  · have h' : (clip3 start V s).inSub t = false := by
      cases e : (clip3 start V s).inSub t with
      | false => rfl
      | true => exact absurd ((clip3_inSub_iff start V s t ht).1 e) h
    simp only [h', h]; rfl

/-- `extract_subvolume(volume, coord, shape)`: the window of `shape` voxels starting at `⌊coord - shape/2⌋`,
out-of-volume voxels set to the volume mean -/
theorem extractSubvolume_spec [OfNat α 0] [Add α] [Div α] (ofNat : Nat → α) (V s : Shape) (f : V3 Int → α) (num : V3 Int) (den : Nat) :
    ∃ g, extractSubvolume ofNat V f num den s = some g ∧
      ∀ t, s.inBox t = true → g t = if V.inBox (startOf3 num den s + t) = true then f (startOf3 num den s + t) else meanF ofNat V f :=
  extract_spec V s f (startOf3 num den s) (meanF ofNat V f)

/-- `crop` returns the window clipped to the volume; when the window is inside, it is the window itself -/
theorem crop_spec (V s : Shape) (f : V3 Int → α) (start : V3 Int)
    (hx : 0 ≤ start.x ∧ start.x + s.nx ≤ V.nx) (hy : 0 ≤ start.y ∧ start.y + s.ny ≤ V.ny) (hz : 0 ≤ start.z ∧ start.z + s.nz ≤ V.nz) :
    (cropF V f start s).1 = s ∧ ∀ t, (cropF V f start s).2 t = f (start + t) := by
  unfold cropF clip3
  simp only [clip1_inside _ _ _ hx.1 hx.2, clip1_inside _ _ _ hy.1 hy.2, clip1_inside _ _ _ hz.1 hz.2]
  refine ⟨?_, fun t => rfl⟩
  cases s; simp

/-- **`crop`, any window (inside, partly outside, fully outside): the window clipped to the volume.** The result has the
clipped extents; every voxel of it is the volume voxel `vs + t`, which lies in the volume and in the requested window;
and every volume voxel inside the requested window appears in the result (at `p - vs`). -/
theorem crop_spec_clipped (V s : Shape) (f : V3 Int → α) (start : V3 Int) :
    let c := clip3 start V s
    let vs : V3 Int := ⟨c.x.vs, c.y.vs, c.z.vs⟩
    (∀ t, (cropF V f start s).1.inBox t = true →
        (cropF V f start s).2 t = f (vs + t) ∧ V.inBox (vs + t) = true ∧ s.inBox (vs + t - start) = true) ∧
    (∀ p, V.inBox p = true → s.inBox (p - start) = true → (cropF V f start s).1.inBox (p - vs) = true) := by
  refine ⟨fun t ht => ⟨rfl, ?_⟩, fun p hp hw => ?_⟩
  · simp only [cropF, clip3, inBox_iff, v3_add_x, v3_add_y, v3_add_z, v3_sub_x, v3_sub_y, v3_sub_z] at ht ⊢
    simp only [clip1] at ht ⊢
    omega
  · simp only [cropF, clip3, inBox_iff, v3_sub_x, v3_sub_y, v3_sub_z] at hp hw ⊢
    simp only [clip1] at hp hw ⊢
    omega

/-- `crop(map, new_size)` with `crop_coord` omitted is the window centred on the box centre `shape // 2` -/
theorem crop_default_is_centre (V s : Shape) (f : V3 Int → α) :
    cropDefault V f s = cropF V f ⟨startOf (V.nx / 2 : Nat) 1 s.nx, startOf (V.ny / 2 : Nat) 1 s.ny, startOf (V.nz / 2 : Nat) 1 s.nz⟩ s := rfl

/-- `extract_subvolume(…, enforce_shape=True)`: the volume's own shape; a voxel keeps its value iff it lies in the
requested window, every other voxel is the fill value (the volume mean) -/
theorem extract_enforce_spec (V s : Shape) (f : V3 Int → α) (start : V3 Int) (fill : α) (p : V3 Int) (hp : V.inBox p = true) :
    extractEnforceF V f start s fill p = if s.inBox (p - start) = true then f p else fill := by
  unfold extractEnforceF
  by_cases h : s.inBox (p - start) = true
  · simp only [(clip3_inVol_iff start V s p hp).2 h, h, if_true]
  · have h' : (clip3 start V s).inVol p = false := by
      cases e : (clip3 start V s).inVol p with
      | false => rfl
      | true => exact absurd ((clip3_inVol_iff start V s p hp).1 e) h
    simp [h', h]

/-- `pad`: the volume sits at `start = ⌈(new - old)/2⌉` on every axis (so the padding before exceeds the padding
after by at most one voxel), every other voxel is the fill value; never raises when the new size is not smaller -/
theorem pad_spec (N V : Shape) (f : V3 Int → α) (fill : α) (h : V.nx ≤ N.nx ∧ V.ny ≤ N.ny ∧ V.nz ≤ N.nz) :
    ∃ g, padF N V f fill = some g ∧
      (∀ t, V.inBox t = true → N.inBox (⟨padStart N.nx V.nx, padStart N.ny V.ny, padStart N.nz V.nz⟩ + t) = true ∧
        g (⟨padStart N.nx V.nx, padStart N.ny V.ny, padStart N.nz V.nz⟩ + t) = f t) ∧
      (∀ p, V.inBox (p - ⟨padStart N.nx V.nx, padStart N.ny V.ny, padStart N.nz V.nz⟩) = false → g p = fill) ∧
      (∀ new old : Nat, old ≤ new → 0 ≤ padStart new old ∧
        ((new : Int) - old - padStart new old ≤ padStart new old) ∧ (padStart new old ≤ (new : Int) - old - padStart new old + 1)) := by
  refine ⟨_, by unfold padF; rw [if_pos h], fun t ht => ⟨?_, ?_⟩, fun p hp => ?_, fun new old hle => ?_⟩
  · obtain ⟨hx, hy, hz⟩ := h
    simp only [inBox_iff, v3_add_x, v3_add_y, v3_add_z, padStart] at ht ⊢
    omega
  · have e : (⟨padStart N.nx V.nx, padStart N.ny V.ny, padStart N.nz V.nz⟩ + t : V3 Int) - ⟨padStart N.nx V.nx, padStart N.ny V.ny, padStart N.nz V.nz⟩ = t :=
      v3_add_sub_cancel _ t
    simp only [e, ht, if_true]
  · simp only [hp]; rfl
  · unfold padStart; omega

/-! ### placement -/

/-- **One stamp.** Inside the container, a voxel takes the colour iff its template voxel `p - start` exists and is
on; everything else is untouched; the assignment never raises. -/
theorem stamp_spec (C os : Shape) (g : V3 Int → α) (st : Stamp α) :
    ∃ g', stampF C g os st = some g' ∧
      ∀ p, C.inBox p = true → g' p = if covers os st p = true then st.color else g p := stamp_spec_aux C os g st

/-- **The loop (any number of particles).** Every container voxel ends with the colour of the *last* particle whose
stamp covers it, or keeps its original value if none does. -/
theorem place_painter (C os : Shape) (g : V3 Int → α) (stamps : List (Stamp α)) :
    ∃ g', placeAll C g os stamps = some g' ∧
      ∀ p, C.inBox p = true →
        g' p = match stamps.reverse.find? (fun st => covers os st p) with
               | some st => st.color
               | none => g p := place_painter_aux C os stamps g

/-- 1-based → 0-based: the source subtracts exactly 1 -/
theorem place_offset_documented : Gen.C14.placeOffset = 1 := by decide

/-- even template `2a × 2b × 2c` at complete position `pos = num/den`: the stamp starts at `⌊pos⌋ - 1 - (a,b,c)`,
i.e. template voxel `⌊s/2⌋` lands on voxel `⌊pos - 1⌋` -/
theorem placeStart_even (num : V3 Int) (den : Nat) (hd : 0 < den) (a b c : Nat) :
    placeStart num den ⟨2 * a, 2 * b, 2 * c⟩ = ⟨num.x / (den : Int) - 1 - a, num.y / (den : Int) - 1 - b, num.z / (den : Int) - 1 - c⟩ := by
  have hne : (den : Int) ≠ 0 := by omega
  have key : ∀ n : Int, (n - 1 * (den : Int)) / (den : Int) = n / (den : Int) - 1 := by
    intro n
    have : n - 1 * (den : Int) = n + (-1) * (den : Int) := by ring
    rw [this, Int.add_mul_ediv_right _ _ hne]; ring
  unfold placeStart startOf3
  simp only [place_offset_documented, startOf_even _ _ _ hd, key]

/-- the stamp start for ANY template size (odd, even, mixed): `start = ⌊(pos - 1) - s/2⌋` exactly, per axis, for
`pos = num/den` — `2·den·start ≤ 2·(num - den) - s·den < 2·den·(start + 1)` -/
theorem placeStart_floor (num : V3 Int) (den : Nat) (hd : 0 < den) (os : Shape) :
    (2 * (den : Int) * (placeStart num den os).x ≤ 2 * (num.x - den) - os.nx * den ∧
      2 * (num.x - den) - os.nx * den < 2 * (den : Int) * ((placeStart num den os).x + 1)) ∧
    (2 * (den : Int) * (placeStart num den os).y ≤ 2 * (num.y - den) - os.ny * den ∧
      2 * (num.y - den) - os.ny * den < 2 * (den : Int) * ((placeStart num den os).y + 1)) ∧
    (2 * (den : Int) * (placeStart num den os).z ≤ 2 * (num.z - den) - os.nz * den ∧
      2 * (num.z - den) - os.nz * den < 2 * (den : Int) * ((placeStart num den os).z + 1)) := by
  unfold placeStart startOf3
  simp only [place_offset_documented, Int.one_mul]
  exact ⟨startOf_spec _ den os.nx hd, startOf_spec _ den os.ny hd, startOf_spec _ den os.nz hd⟩

/-- **Placement uses the particle's active orientation — any template shape** (odd, even, mixed parity, non-cubic).
A particle with orientation `R` (orthogonal integer matrix, e.g. any cube rotation `zxz(phi,theta,psi)`), complete
position `pos = num/den` and field value `col`; a template voxel at offset `v` from the template centre `⌊s/2⌋` that is
above the threshold: the container voxel `start + ⌊s/2⌋ + R v` receives `col`, where `start = ⌊pos - 1 - s/2⌋`
(`placeStart_floor`) — the template centre lands on `start + ⌊s/2⌋` and offsets are carried by the same `R v` by which
`shift_positions` carries a reference offset into the tomogram. -/
theorem place_active_any (C : Shape) (g : V3 Int → α) (os : Shape) (tmpl : V3 Int → Rat) (R : M3 Int) (hR : R.Orth)
    (num : V3 Int) (den : Nat) (col : α) (v : V3 Int)
    (hv : os.inBox (os.centre + v) = true)
    (hon : isOn (tmpl (os.centre + v)) = true)
    (hRv : os.inBox (os.centre + R.apply v) = true)
    (hC : C.inBox (placeStart num den os + (os.centre + R.apply v)) = true) :
    ∃ g', placeAll C g os [cubeStamp os tmpl R num den col] = some g' ∧
      g' (placeStart num den os + (os.centre + R.apply v)) = col := by
  obtain ⟨g', e, h⟩ := place_painter C os g [cubeStamp os tmpl R num den col]
  refine ⟨g', e, ?_⟩
  rw [h _ hC]
  have hsub : (placeStart num den os + (os.centre + R.apply v)) - (cubeStamp os tmpl R num den col).start
      = os.centre + R.apply v := v3_add_sub_cancel _ _
  have hcov : covers os (cubeStamp os tmpl R num den col) (placeStart num den os + (os.centre + R.apply v)) = true := by
    unfold covers
    rw [hsub, hRv, Bool.true_and]
    show isOn (rotateBy R _ tmpl _) = true
    rw [rotate_index R hR _ tmpl v hv]; exact hon
  simp only [List.reverse_cons, List.reverse_nil, List.nil_append, List.find?_cons, hcov]
  rfl

/-- **… even templates** (`2a × 2b × 2c`): the template centre lands on `⌊pos⌋ - 1`, so the container voxel at offset
`R v` from `⌊pos⌋ - 1` receives `col` (instance of `place_active_any` through `placeStart_even`). -/
theorem place_active (C : Shape) (g : V3 Int → α) (a b c : Nat) (tmpl : V3 Int → Rat) (R : M3 Int) (hR : R.Orth)
    (num : V3 Int) (den : Nat) (hd : 0 < den) (col : α) (v : V3 Int)
    (hv : (⟨2 * a, 2 * b, 2 * c⟩ : Shape).inBox ((⟨2 * a, 2 * b, 2 * c⟩ : Shape).centre + v) = true)
    (hon : isOn (tmpl ((⟨2 * a, 2 * b, 2 * c⟩ : Shape).centre + v)) = true)
    (hRv : (⟨2 * a, 2 * b, 2 * c⟩ : Shape).inBox ((⟨2 * a, 2 * b, 2 * c⟩ : Shape).centre + R.apply v) = true)
    (hC : C.inBox ((⟨num.x / (den : Int) - 1, num.y / (den : Int) - 1, num.z / (den : Int) - 1⟩ : V3 Int) + R.apply v) = true) :
    ∃ g', placeAll C g ⟨2 * a, 2 * b, 2 * c⟩ [cubeStamp ⟨2 * a, 2 * b, 2 * c⟩ tmpl R num den col] = some g' ∧
      g' ((⟨num.x / (den : Int) - 1, num.y / (den : Int) - 1, num.z / (den : Int) - 1⟩ : V3 Int) + R.apply v) = col := by
  have hpt : ((⟨num.x / (den : Int) - 1, num.y / (den : Int) - 1, num.z / (den : Int) - 1⟩ : V3 Int) + R.apply v)
      = placeStart num den ⟨2 * a, 2 * b, 2 * c⟩ + ((⟨2 * a, 2 * b, 2 * c⟩ : Shape).centre + R.apply v) := by
    rw [placeStart_even num den hd]
    ext <;> simp [Shape.centre, v3_add_x, v3_add_y, v3_add_z] <;> omega
  rw [hpt] at hC ⊢
  exact place_active_any C g ⟨2 * a, 2 * b, 2 * c⟩ tmpl R hR num den col v hv hon hRv hC

/-! ### symmetrisation -/
section sym
open Finset
variable {K : Type} [Field K] {X : Type}

/-- **`symmetrize_volume` returns the mean of the n rotated copies** (`rot k` = the map rotated by `k·360/n` about z) -/
theorem symmetrize_is_mean (n : Nat) (rot : Nat → X → K) (p : X) :
    symmetrizeF (fun m : Nat => (m : K)) n rot p = (∑ k ∈ range n, rot (k + 1) p) / (n : K) :=
  symmetrizeF_eq_sum n rot p

/-- **Invariance, every n.** If rotation by `360/n` acts exactly on voxels — `rot k` samples the map at
`σᵏ p` with `σⁿ = id` — the symmetrised map has the same value at `p` and at `σ p`: rotating it by `360/n`
returns it unchanged. -/
theorem symmetrize_invariant (n : Nat) (σ : X → X) (hσ : ∀ x, σ^[n] x = x) (f : X → K) (p : X) :
    symmetrizeF (fun m : Nat => (m : K)) n (fun k q => f (σ^[k] q)) (σ p)
      = symmetrizeF (fun m : Nat => (m : K)) n (fun k q => f (σ^[k] q)) p := by
  rw [symmetrize_is_mean, symmetrize_is_mean, sum_orbit_invariant σ n hσ f p]

/-- **Same total density, every n** (finite voxel set, `n` invertible in the number field) -/
theorem symmetrize_total [Fintype X] (n : Nat) (hn : (n : K) ≠ 0) (σ : X → X) (hσ : ∀ x, σ^[n] x = x) (f : X → K) :
    ∑ x, symmetrizeF (fun m : Nat => (m : K)) n (fun k q => f (σ^[k] q)) x = ∑ x, f x := by
  simp only [symmetrize_is_mean]
  exact sum_total_conserved σ n hn hσ f

/-- **The executable n ∈ {1, 2, 4} model is such an exact action**: the voxel map `σ` of the quarter-turn rotation
about z satisfies `σⁿ = id` on the whole grid, and `symmetrizeExact` samples the zero-continued map along `σ`. -/
theorem symExact_invariant (n : Nat) (hn : n * (4 / n) = 4) (s : Shape) (f : V3 Int → K) (p : V3 Int) :
    symmetrizeExact (fun m : Nat => (m : K)) n s f (srcCoord (rzQuarter (4 / n)).transpose s.centre p)
      = symmetrizeExact (fun m : Nat => (m : K)) n s f p := by
  have hrot : (fun k : Nat => rotateBy (rzQuarter (k * (4 / n))) s f)
      = fun k q => (fun q => if s.inBox q = true then f q else 0) ((srcCoord (rzQuarter (4 / n)).transpose s.centre)^[k] q) := by
    funext k q
    rw [rotateBy_zeroExt, srcCoord_rz_iter]
  have hσ : ∀ x, (srcCoord (rzQuarter (4 / n)).transpose s.centre)^[n] x = x := by
    intro x
    rw [← srcCoord_rz_iter, hn, rzQuarter_four, srcCoord_one]
  unfold symmetrizeExact
  rw [hrot]
  exact symmetrize_invariant (K := K) n (srcCoord (rzQuarter (4 / n)).transpose s.centre) hσ
    (fun q => if s.inBox q = true then f q else 0) p

/-- … hence rotating the symmetrised map by `360/n` with `rotate` gives it back wherever the sampled voxel is in the box -/
theorem symExact_rotate_invariant (n : Nat) (hn : n * (4 / n) = 4) (s : Shape) (f : V3 Int → K) (p : V3 Int)
    (hin : s.inBox (srcCoord (rzQuarter (4 / n)).transpose s.centre p) = true) :
    rotateBy (rzQuarter (4 / n)) s (symmetrizeExact (fun m : Nat => (m : K)) n s f) p
      = symmetrizeExact (fun m : Nat => (m : K)) n s f p := by
  rw [rotateBy_zeroExt]
  simp only [hin, if_true]
  exact symExact_invariant n hn s f p

/-- **Same total density — the executable n ∈ {1, 2, 4} model on a concrete box** (the instantiation of `symmetrize_total`
for a box; `voxels s` is the finite set of all voxel indices of the box, `mem_voxels`).  `n = 4` needs a square x–y
section; an even size needs the map to vanish on its plane `x = 0` (resp. `y = 0`), e.g. a map with zero faces — that plane
has no mirror image about the centre `⌊N/2⌋`; odd sizes need nothing. -/
theorem symExact_total (n : Nat) (hn : n * (4 / n) = 4) (hK : (n : K) ≠ 0) (s : Shape) (hsq : n = 4 → s.nx = s.ny)
    (f : V3 Int → K)
    (hface : ∀ p, s.inBox p = true → ((s.nx % 2 = 0 ∧ p.x = 0) ∨ (s.ny % 2 = 0 ∧ p.y = 0)) → f p = 0) :
    ∑ p ∈ voxels s, symmetrizeExact (fun m : Nat => (m : K)) n s f p = ∑ p ∈ voxels s, f p :=
  symExact_total_aux n hn hK s hsq f hface

/-- … in the model's own `np.sum` (`sumBox`, the left fold over the voxels in C order) -/
theorem symExact_total_sum (n : Nat) (hn : n * (4 / n) = 4) (hK : (n : K) ≠ 0) (s : Shape) (hsq : n = 4 → s.nx = s.ny)
    (f : V3 Int → K)
    (hface : ∀ p, s.inBox p = true → ((s.nx % 2 = 0 ∧ p.x = 0) ∨ (s.ny % 2 = 0 ∧ p.y = 0)) → f p = 0) :
    sumBox s (symmetrizeExact (fun m : Nat => (m : K)) n s f) = sumBox s f := by
  rw [sumBox_eq_sum, sumBox_eq_sum]; exact symExact_total n hn hK s hsq f hface

/-- the finite voxel set is exactly the box -/
theorem voxels_spec (s : Shape) (p : V3 Int) : p ∈ voxels s ↔ s.inBox p = true := mem_voxels s p
end sym

/-! ### driver plumbing: nested lists ↔ voxel functions -/

/-- what the driver prints for a model result `f` (`Vol.tab`) holds `f p` at every voxel `p` of the box, and reading a
request volume back (`Vol.getD`) returns the voxel that was written -/
theorem driver_plumbing (s : Shape) (f : V3 Int → α) (d : α) (p : V3 Int) (h : s.inBox p = true) :
    (Vol.tab s f).getD d p = f p := tab_getD s f d p h

/-! ### non-vacuity: every hypothesis above is met by concrete non-trivial inputs -/
section examples
/-- a cube rotation that is not the identity, is orthogonal, and moves the offset (1,0,0) to (0,0,1) -/
example : cubeZxz 1 1 0 ∈ cube24 ∧ (cubeZxz 1 1 0).Orth ∧ (cubeZxz 1 1 0).apply ⟨1, 0, 0⟩ = (⟨0, 0, 1⟩ : V3 Int) := by
  refine ⟨by decide, cube24_orth _ (by decide), by decide⟩
/-- `rotate_index` / `rotate_inverse_restores`: odd and even boxes with `c + v`, `c + R v` both inside -/
example : (⟨5, 6, 7⟩ : Shape).inBox ((⟨5, 6, 7⟩ : Shape).centre + ⟨1, -2, 2⟩) = true ∧
    (⟨5, 6, 7⟩ : Shape).inBox (srcCoord (cubeZxz 0 0 1) (⟨5, 6, 7⟩ : Shape).centre ⟨3, 1, 5⟩) = true := by decide
/-- the index law evaluated: a 5×6×7 map with voxel value `100x+10y+z`, rotated by 90° about z -/
example : rotateBy (cubeZxz 0 0 1) ⟨5, 6, 7⟩ (fun p : V3 Int => 100 * p.x + 10 * p.y + p.z) ⟨1, 4, 3⟩ = 343 := by decide
/-- over a commutative ring with a genuinely non-integer rotation: (c, s) = (3/5, 4/5) about z -/
example : (3/5 : Rat) * (3/5) + (4/5) * (4/5) = 1 := by norm_num
/-- windows: fully inside, partly outside, fully outside (volume 6, window 4), and a half-integer centre -/
example : clip1 1 6 4 = ⟨1, 5, 0, 4⟩ ∧ clip1 (-2) 6 4 = ⟨0, 2, 2, 4⟩ ∧ clip1 4 6 4 = ⟨4, 6, 0, 2⟩ ∧
    clip1 7 6 4 = ⟨6, 6, 0, 0⟩ ∧ clip1 (-9) 6 4 = ⟨0, 0, 4, 4⟩ ∧ startOf 7 2 4 = 1 ∧ startOf (-1) 2 4 = -3 := by decide
/-- `crop_spec`: a window inside the volume -/
example : (0 : Int) ≤ 1 ∧ (1 : Int) + (4 : Nat) ≤ (6 : Nat) := by decide
/-- `place_active`: template 4×4×4 with the voxel at offset (1,0,-1) on (value 1/8 > 1/10), particle at (5.25, 6, 7.5),
orientation `zxz(90°, 90°, 0°)`, container 12³ -/
example : (⟨2 * 2, 2 * 2, 2 * 2⟩ : Shape).inBox ((⟨2 * 2, 2 * 2, 2 * 2⟩ : Shape).centre + ⟨1, 0, -1⟩) = true ∧
    isOn ((fun p : V3 Int => if p = ⟨3, 2, 1⟩ then mkRat 1 8 else 0) ((⟨2 * 2, 2 * 2, 2 * 2⟩ : Shape).centre + ⟨1, 0, -1⟩)) = true ∧
    (⟨2 * 2, 2 * 2, 2 * 2⟩ : Shape).inBox ((⟨2 * 2, 2 * 2, 2 * 2⟩ : Shape).centre + (cubeZxz 1 1 0).apply ⟨1, 0, -1⟩) = true ∧
    (⟨12, 12, 12⟩ : Shape).inBox ((⟨(21 : Int) / ((4 : Nat) : Int) - 1, (24 : Int) / ((4 : Nat) : Int) - 1, (30 : Int) / ((4 : Nat) : Int) - 1⟩ : V3 Int)
      + (cubeZxz 1 1 0).apply ⟨1, 0, -1⟩) = true := by decide
/-- the painter's loop on two overlapping stamps: the later colour wins, untouched voxels keep the container value -/
example : (placeAll ⟨4, 4, 4⟩ (fun _ => (7 : Int)) ⟨2, 2, 2⟩
      [⟨fun _ => true, ⟨0, 0, 0⟩, 1⟩, ⟨fun t => decide (t.x = 0), ⟨1, 1, 1⟩, 2⟩]).map
      (fun g => [g ⟨0, 0, 0⟩, g ⟨1, 1, 1⟩, g ⟨2, 1, 1⟩, g ⟨3, 3, 3⟩]) = some [1, 2, 7, 7] := by decide
/-- an exact cyclic action with n = 3 that is not the identity (for `symmetrize_invariant` / `symmetrize_total`), over ℚ -/
example : (∀ x : Fin 3, (fun x => x + 1)^[3] x = x) ∧ ((3 : Nat) : Rat) ≠ 0 ∧ (fun x : Fin 3 => x + 1) 0 ≠ 0 := by
  refine ⟨by decide, by norm_num, by decide⟩
/-- n ∈ {1, 2, 4} meet `n * (4 / n) = 4`; the 4-fold voxel map on a 5×5×3 box moves voxel (4,2,1) to (2,0,1) -/
example : 1 * (4 / 1) = 4 ∧ 2 * (4 / 2) = 4 ∧ 4 * (4 / 4) = 4 ∧
    srcCoord (rzQuarter (4 / 4)).transpose (⟨5, 5, 3⟩ : Shape).centre ⟨4, 2, 1⟩ = (⟨2, 0, 1⟩ : V3 Int) := by decide
/-- `symExact_total`: a 4-fold symmetrisation of a 5×5×3 map (odd: no face condition) over ℚ, evaluated -/
example : ((4 : Nat) : Rat) ≠ 0 ∧ (4 = 4 → (⟨5, 5, 3⟩ : Shape).nx = (⟨5, 5, 3⟩ : Shape).ny) ∧
    (∀ p : V3 Int, (⟨5, 5, 3⟩ : Shape).inBox p = true →
      (((⟨5, 5, 3⟩ : Shape).nx % 2 = 0 ∧ p.x = 0) ∨ ((⟨5, 5, 3⟩ : Shape).ny % 2 = 0 ∧ p.y = 0)) → (fun q : V3 Int => ((q.x + 2 * q.y : Int) : Rat)) p = 0) := by
  refine ⟨by norm_num, fun _ => rfl, fun p _ h => ?_⟩
  rcases h with ⟨h, _⟩ | ⟨h, _⟩ <;> simp at h
/-- `place_active_any`: an odd 5×3×7 template, voxel at offset (1,0,-2) on, pose `zxz(0°, 0°, 90°)`, position (6.5, 7, 8.25), container 14³ -/
example : (⟨5, 3, 7⟩ : Shape).inBox ((⟨5, 3, 7⟩ : Shape).centre + ⟨1, 0, -2⟩) = true ∧
    (⟨5, 3, 7⟩ : Shape).inBox ((⟨5, 3, 7⟩ : Shape).centre + (cubeZxz 0 0 1).apply ⟨1, 0, -2⟩) = true ∧
    placeStart ⟨26, 28, 33⟩ 4 ⟨5, 3, 7⟩ = ⟨3, 4, 3⟩ ∧
    (⟨14, 14, 14⟩ : Shape).inBox (placeStart ⟨26, 28, 33⟩ 4 ⟨5, 3, 7⟩ + ((⟨5, 3, 7⟩ : Shape).centre + (cubeZxz 0 0 1).apply ⟨1, 0, -2⟩)) = true := by decide
/-- `crop_spec_clipped` / `extract_enforce_spec` / `pad_spec` evaluated: a window hanging over the upper x face; padding 5 → 8 -/
example : (cropF ⟨6, 6, 6⟩ (fun p : V3 Int => 100 * p.x + 10 * p.y + p.z) ⟨4, 1, 2⟩ ⟨4, 2, 2⟩).1 = ⟨2, 2, 2⟩ ∧
    (cropF ⟨6, 6, 6⟩ (fun p : V3 Int => 100 * p.x + 10 * p.y + p.z) ⟨4, 1, 2⟩ ⟨4, 2, 2⟩).2 ⟨1, 1, 0⟩ = 522 ∧
    extractEnforceF ⟨6, 6, 6⟩ (fun p : V3 Int => 100 * p.x + 10 * p.y + p.z) ⟨4, 1, 2⟩ ⟨4, 2, 2⟩ (-1) ⟨5, 2, 3⟩ = 523 ∧
    extractEnforceF ⟨6, 6, 6⟩ (fun p : V3 Int => 100 * p.x + 10 * p.y + p.z) ⟨4, 1, 2⟩ ⟨4, 2, 2⟩ (-1) ⟨3, 2, 3⟩ = -1 ∧
    padStart 8 5 = 2 ∧ padStart 8 6 = 1 ∧ padStart 5 5 = 0 := by decide
end examples

/-! ### regression witnesses (defect D14): the pre-repair angle `360 % (k·step)` is not the k-th multiple of the step -/
theorem old_symmetrize_angles_wrong :
    (List.range 4).map (fun k => 360 % ((k + 1) * (360 / 4))) ≠ (List.range 4).map (fun k => ((k + 1) * (360 / 4)) % 360) := by decide

end CryoCat.C14
