import CryoCat.Lemmas.C14
import CryoCat.Lemmas.C14_Sym
import CryoCat.Lemmas.C14_Cube
import CryoCat.Lemmas.C14_Total
import CryoCat.Lemmas.C14_Motl
import Mathlib.Algebra.Field.Rat
import Mathlib.Tactic.NormNum
/-! C14 — property theorems (only theorems and non-vacuity examples). -/
namespace CryoCat.C14
variable {α : Type}

/-! ### translator obligations: the statements the model mirrors are the ones in the source today -/

theorem anchors_ok : Gen.C14.anchorsOk = true := by decide

/-- `rotate`: centre `shape // 2`; the matrix given to `affine_transform` is `T·M·T⁻¹` with `M = R.as_matrix().T` both for
`rotation_angles` and for `rotation=…, transpose_rotation=True` (and `R.as_matrix()` only for `transpose_rotation=False`);
Euler convention `"zxz"` in degrees, cubic splines -/
theorem rotate_source_documented :
    Gen.C14.rotCentre = ["np.asarray(input_map.shape)//2"] ∧
    Gen.C14.rotTranslationColumn = ["structure_center"] ∧
    Gen.C14.rotMatrixBranches = ["rotation.as_matrix().T", "rotation.as_matrix()", "rot.as_matrix().T"] ∧
    Gen.C14.rotIfTests = ["rotationisnotNone", "transpose_rotation", "rotation_anglesisnotNone", "output_nameisnotNone"] ∧
    Gen.C14.rotFromEuler = ["srot.from_euler(coord_space,rotation_angles,degrees=degrees)"] ∧
    Gen.C14.rotFinalMatrix = ["T@rot_matrix@np.linalg.inv(T)"] ∧
    Gen.C14.rotAffineCall = ["input=input_map", "matrix=final_matrix", "order=spline_order", "output=rot_struct"] ∧
    Gen.C14.rotSeqDefault = "zxz" ∧ Gen.C14.rotDegreesDefault = true ∧ Gen.C14.rotTransposeDefault = false ∧
    Gen.C14.rotSplineOrder = 3 := by repeat' constructor

/-- `get_start_end_indices`, statement by statement (mirrored by `startOf` and `clip1`) -/
theorem window_source_documented :
    Gen.C14.windowStatements =
      ["subvolume_shape=np.asarray(subvolume_shape)", "subvolume_half=subvolume_shape/2",
       "volume_start=np.floor(coord-subvolume_half).astype(int)", "volume_end=(volume_start+subvolume_shape).astype(int)",
       "volume_start_clip=np.minimum(np.maximum([0,0,0],volume_start),np.asarray(volume_shape))",
       "volume_end_clip=np.maximum(np.minimum(np.asarray(volume_shape),volume_end),[0,0,0])",
       "subvolume_start=volume_start_clip-volume_start", "subvolume_end=volume_end-volume_start",
       "subvolume_end=volume_end_clip-volume_end+subvolume_end",
       "subvolume_start=np.minimum(np.maximum([0,0,0],subvolume_start),subvolume_shape)",
       "subvolume_end=np.maximum(np.minimum(subvolume_shape,subvolume_end),[0,0,0])",
       "return (volume_start_clip,volume_end_clip,subvolume_start,subvolume_end)"] := by repeat' constructor

/-- `extract_subvolume` fills with the volume mean and copies `volume[vs:ve]` into `[ss:se]`; `crop` returns `map[vs:ve]` -/
theorem extract_source_documented :
    Gen.C14.extractItems =
      ["get_start_end_indices(coordinates,volume.shape,subvolume_shape)", "np.full(volume.shape,np.mean(volume))",
       "np.full(subvolume_shape,np.mean(volume))",
       "subvolume[vs[0]:ve[0],vs[1]:ve[1],vs[2]:ve[2]]=volume[vs[0]:ve[0],vs[1]:ve[1],vs[2]:ve[2]]",
       "subvolume[ss[0]:se[0],ss[1]:se[1],ss[2]:se[2]]=volume[vs[0]:ve[0],vs[1]:ve[1],vs[2]:ve[2]]"] ∧
    Gen.C14.cropItems =
      ["get_start_end_indices(crop_coord,input_map.shape,new_size)", "input_map[vs[0]:ve[0],vs[1]:ve[1],vs[2]:ve[2]]",
       "cryomask.get_correct_format(input_map.shape)//2", "cryomask.get_correct_format(crop_coord)"] := by repeat' constructor

/-- `place_object`: orientations from `get_rotations()`, complete positions minus 1, colours by position, the template
rotated with `transpose_rotation=True`, thresholded `> 0.1` to 1/0, stamped through `get_start_end_indices` about the
position moved up by half a voxel on axes of odd template size (the repair of defect D33) -/
theorem place_source_documented :
    Gen.C14.placeRotations = ["motl.get_rotations()"] ∧
    Gen.C14.placeCoordinates = ["motl.get_coordinates()-1.0"] ∧
    Gen.C14.placeColors = ["motl.df[feature_to_color].to_numpy()"] ∧
    Gen.C14.placeObjectMap = ["rotate(input_object[i],rotation=rotations[i],transpose_rotation=True)",
       "rotate(input_object,rotation=rotations[i],transpose_rotation=True)", "np.where(object_map>0.1,1.0,0.0)"] ∧
    Gen.C14.placeCentreCoord = ["coord+np.asarray(object_map.shape)%2/2"] ∧
    Gen.C14.placeIndexCall = ["get_start_end_indices(centre_coord,object_container.shape,object_map.shape)"] ∧
    Gen.C14.placeObjectShape = ["object_map[os[0]:oe[0],os[1]:oe[1],os[2]:oe[2]]"] ∧
    Gen.C14.placeLoop = ["(i,coord) in enumerate(coordinates)"] ∧
    Gen.C14.placeAssignment = ["object_container[ls[0]:le[0],ls[1]:le[1],ls[2]:le[2]]=np.where(object_shape==1.0,colors[i],object_container[ls[0]:le[0],ls[1]:le[1],ls[2]:le[2]])"] ∧
    Gen.C14.placeThresholdCmp = "Gt" ∧ Gen.C14.placeOnOff = ["1.0", "0.0"] := by repeat' constructor

theorem place_threshold_documented : Gen.C14.placeThreshold = mkRat 1 10 := by decide

/-- `symmetrize_volume`: zeros, `+= rotate(vol, [0, 0, (k·360/n) % 360])` for k = 1..n, divided by n -/
theorem symmetrize_source_documented :
    Gen.C14.symStep = ["360/nfold"] ∧
    Gen.C14.symSum = ["np.zeros(vol.shape)", "np.add(rotated_sum,rotated_volume)"] ∧
    Gen.C14.symRotated = ["rotate(vol,rotation_angles=[0,0,inplane*inplane_step%360])"] ∧
    Gen.C14.symLoop = ["inplane in range(1,nfold+1)"] ∧
    Gen.C14.symOut = ["np.divide(rotated_sum,nfold)"] := by repeat' constructor

/-- the particle side of the convention: `get_rotations` and `shift_positions` build `from_euler("zxz", [phi, theta, psi],
degrees)` and *apply* it to reference offsets; complete position = `x + shift_x` -/
theorem motl_source_documented :
    Gen.C14.motlRotations = ["rot.from_euler('zxz',angles,degrees=True)"] ∧
    Gen.C14.motlAngleColumns = ["phi", "theta", "psi"] ∧
    Gen.C14.motlCoordinates = "self.df.loc[:,['x','y','z']].values+self.df.loc[:,['shift_x','shift_y','shift_z']].values" ∧
    Gen.C14.motlShiftPositions = ["np.array([[row['phi'],row['theta'],row['psi']]])",
       "rot.from_euler(seq='zxz',angles=euler_angles,degrees=True)", "orientations.apply(v)"] := by repeat' constructor

/-- **signature defaults the statement depends on** (every parameter, in order, with its default): `rotate` — `coord_space='zxz'`,
`transpose_rotation=False`, `degrees=True`, `spline_order=3`; `extract_subvolume` — `enforce_shape=False`; `crop` — `crop_coord=None`
(→ box centre); `pad` — `fill_value=None` (→ volume mean); `place_object` — `feature_to_color='object_id'` -/
theorem signatures_documented :
    Gen.C14.rotateSig =
      ["input_map",
       "rotation=None",
       "rotation_angles=None",
       "coord_space='zxz'",
       "transpose_rotation=False",
       "degrees=True",
       "spline_order=3",
       "output_name=None"] ∧
    Gen.C14.windowSig =
      ["coord",
       "volume_shape",
       "subvolume_shape"] ∧
    Gen.C14.extractSig =
      ["volume",
       "coordinates",
       "subvolume_shape",
       "enforce_shape=False",
       "output_file=None"] ∧
    Gen.C14.cropSig =
      ["input_map",
       "new_size",
       "output_file=None",
       "crop_coord=None"] ∧
    Gen.C14.padSig =
      ["input_volume",
       "new_size",
       "fill_value=None"] ∧
    Gen.C14.placeSig =
      ["input_object",
       "motl",
       "volume_shape=None",
       "volume=None",
       "feature_to_color='object_id'"] ∧
    Gen.C14.symSig =
      ["vol",
       "symmetry"] := by repeat' constructor

/-- `rotate`, every statement (nested blocks by `>`) -/
theorem rotate_body_documented :
    Gen.C14.rotateBody =
      ["input_map=read(input_map)",
       "T=np.eye(4)",
       "structure_center=np.asarray(input_map.shape)//2",
       "T[:3,-1]=structure_center",
       "rot_matrix=np.eye(4)",
       "if rotationisnotNone:",
       ">if transpose_rotation:",
       ">>rot_matrix[0:3,0:3]=rotation.as_matrix().T",
       ">else:",
       ">>rot_matrix[0:3,0:3]=rotation.as_matrix()",
       "else:",
       ">if rotation_anglesisnotNone:",
       ">>rot=srot.from_euler(coord_space,rotation_angles,degrees=degrees)",
       ">>rot_matrix[0:3,0:3]=rot.as_matrix().T",
       ">else:",
       ">>Raise:ValueError",
       "final_matrix=T@rot_matrix@np.linalg.inv(T)",
       "rot_struct=np.empty(input_map.shape)",
       "Expr:affine_transform(input=input_map,output=rot_struct,matrix=final_matrix,order=spline_order)",
       "if output_nameisnotNone:",
       ">Expr:write(rot_struct,output_name,data_type=np.single)",
       "return rot_struct"] := by repeat' constructor

/-- `get_start_end_indices`, every statement (no branch, no in-place update) -/
theorem window_body_documented :
    Gen.C14.windowBody =
      ["subvolume_shape=np.asarray(subvolume_shape)",
       "subvolume_half=subvolume_shape/2",
       "volume_start=np.floor(coord-subvolume_half).astype(int)",
       "volume_end=(volume_start+subvolume_shape).astype(int)",
       "volume_start_clip=np.minimum(np.maximum([0,0,0],volume_start),np.asarray(volume_shape))",
       "volume_end_clip=np.maximum(np.minimum(np.asarray(volume_shape),volume_end),[0,0,0])",
       "subvolume_start=volume_start_clip-volume_start",
       "subvolume_end=volume_end-volume_start",
       "subvolume_end=volume_end_clip-volume_end+subvolume_end",
       "subvolume_start=np.minimum(np.maximum([0,0,0],subvolume_start),subvolume_shape)",
       "subvolume_end=np.maximum(np.minimum(subvolume_shape,subvolume_end),[0,0,0])",
       "return (volume_start_clip,volume_end_clip,subvolume_start,subvolume_end)"] := by repeat' constructor

/-- `extract_subvolume`, both branches (`enforce_shape` and default) -/
theorem extract_body_documented :
    Gen.C14.extractBody =
      ["(vs,ve,ss,se)=get_start_end_indices(coordinates,volume.shape,subvolume_shape)",
       "if enforce_shapeisnotFalse:",
       ">subvolume=np.full(volume.shape,np.mean(volume))",
       ">subvolume[vs[0]:ve[0],vs[1]:ve[1],vs[2]:ve[2]]=volume[vs[0]:ve[0],vs[1]:ve[1],vs[2]:ve[2]]",
       "else:",
       ">subvolume=np.full(subvolume_shape,np.mean(volume))",
       ">subvolume[ss[0]:se[0],ss[1]:se[1],ss[2]:se[2]]=volume[vs[0]:ve[0],vs[1]:ve[1],vs[2]:ve[2]]",
       "if output_fileisnotNone:",
       ">Expr:write(subvolume,output_file,data_type=np.single)",
       "return subvolume"] := by repeat' constructor

/-- `crop`, incl. the default-centre branch -/
theorem crop_body_documented :
    Gen.C14.cropBody =
      ["input_map=read(input_map)",
       "new_size=cryomask.get_correct_format(new_size)",
       "if crop_coordisNone:",
       ">crop_coord=cryomask.get_correct_format(input_map.shape)//2",
       "else:",
       ">crop_coord=cryomask.get_correct_format(crop_coord)",
       "(vs,ve,_,_)=get_start_end_indices(crop_coord,input_map.shape,new_size)",
       "cropped_volume=input_map[vs[0]:ve[0],vs[1]:ve[1],vs[2]:ve[2]]",
       "if output_fileisnotNone:",
       ">Expr:write(cropped_volume,output_file,data_type=np.single)",
       "return cropped_volume"] := by repeat' constructor

/-- `pad`, the whole body (mirrored by `padStart`/`padF`) -/
theorem pad_body_documented :
    Gen.C14.padBody =
      ["volume=read(input_volume)",
       "if fill_valueisNone:",
       ">padded_volume=np.full(new_size,np.mean(volume))",
       "else:",
       ">padded_volume=np.full(new_size,fill_value)",
       "vol_size=volume.shape",
       "x_start=int(np.ceil((new_size[0]-vol_size[0])/2))",
       "y_start=int(np.ceil((new_size[1]-vol_size[1])/2))",
       "z_start=int(np.ceil((new_size[2]-vol_size[2])/2))",
       "x_end=int(x_start+vol_size[0])",
       "y_end=int(y_start+vol_size[1])",
       "z_end=int(z_start+vol_size[2])",
       "padded_volume[x_start:x_end,y_start:y_end,z_start:z_end]=volume",
       "return padded_volume"] := by repeat' constructor

/-- `place_object`, the whole body: nothing between rotation, thresholding, window and stamp -/
theorem place_body_documented :
    Gen.C14.placeBody =
      ["if notisinstance(input_object,list):",
       ">input_object=read(input_object)",
       "if volumeisnotNone:",
       ">object_container=read(volume)",
       "else:",
       ">if volume_shapeisnotNone:",
       ">>object_container=np.zeros(volume_shape)",
       "rotations=motl.get_rotations()",
       "coordinates=motl.get_coordinates()-1.0",
       "colors=motl.df[feature_to_color].to_numpy()",
       "for (i,coord) in enumerate(coordinates):",
       ">if isinstance(input_object,list):",
       ">>object_map=rotate(input_object[i],rotation=rotations[i],transpose_rotation=True)",
       ">else:",
       ">>object_map=rotate(input_object,rotation=rotations[i],transpose_rotation=True)",
       ">object_map=np.where(object_map>0.1,1.0,0.0)",
       ">centre_coord=coord+np.asarray(object_map.shape)%2/2",
       ">(ls,le,os,oe)=get_start_end_indices(centre_coord,object_container.shape,object_map.shape)",
       ">object_shape=object_map[os[0]:oe[0],os[1]:oe[1],os[2]:oe[2]]",
       ">object_container[ls[0]:le[0],ls[1]:le[1],ls[2]:le[2]]=np.where(object_shape==1.0,colors[i],object_container[ls[0]:le[0],ls[1]:le[1],ls[2]:le[2]])",
       "return object_container"] := by repeat' constructor

/-- `symmetrize_volume`, the whole body -/
theorem sym_body_documented :
    Gen.C14.symBody =
      ["if isinstance(symmetry,str):",
       ">nfold=int(re.findall('\\\\d+',symmetry)[-1])",
       "else:",
       ">if isinstance(symmetry,(int,float,np.integer,np.floating)):",
       ">>nfold=int(symmetry)",
       ">else:",
       ">>Raise:ValueError",
       "inplane_step=360/nfold",
       "rotated_sum=np.zeros(vol.shape)",
       "for inplane in range(1,nfold+1):",
       ">rotated_volume=rotate(vol,rotation_angles=[0,0,inplane*inplane_step%360])",
       ">rotated_sum=np.add(rotated_sum,rotated_volume)",
       "sym_vol=np.divide(rotated_sum,nfold)",
       "return sym_vol"] := by repeat' constructor

/-! ### rotation: one active convention -/

/-- **Continuous coordinate law, any commutative ring (no trigonometry).** With the matrix `Rᵀ` that `rotate`
hands to `affine_transform` for orientation `R` (orthogonal), the output coordinate at offset `R v` from the
centre samples the input at offset `v`: density at `c + v` moves to `c + R v`. -/
theorem rotate_coordinate_active {K : Type} [CommRing K] (R : M3 K) (hR : R.Orth) (c v : V3 K) :
    srcCoord R.transpose c (c + R.apply v) = c + v := srcCoord_active_ring hR c v

/-- … and this is the orientation of a particle: for `R = zxz phi theta psi` (the matrix `Motl.get_rotations` /
`shift_positions` apply to reference offsets, `pos + R v`), the rotated map has at `c + R v` what the
reference has at `c + v`. -/
theorem rotate_coordinate_active_zxz {K : Type} [CommRing K] (cp sp ct st cs ss : K)
    (hp : cp*cp + sp*sp = 1) (ht : ct*ct + st*st = 1) (hs : cs*cs + ss*ss = 1) (c v : V3 K) :
    srcCoord (zxz cp sp ct st cs ss).transpose c (c + (zxz cp sp ct st cs ss).apply v) = c + v :=
  srcCoord_active_ring (zxz_orth cp sp ct st cs ss hp ht hs) c v

/-- resampling with the inverse rotation undoes the coordinate map exactly (what remains is interpolation error) -/
theorem rotate_coordinate_inverse {K : Type} [CommRing K] (R : M3 K) (hR : R.Orth) (c o : V3 K) :
    srcCoord R.transpose c (srcCoord R c o) = o := srcCoord_inverse_ring hR c o

/-- **Index law.** For every orthogonal integer matrix `R` (in particular the 24 cube rotations), every box
(odd, even, non-cubic) and every map: `out[c + R v] = in[c + v]` whenever `c + v` is a voxel of the box
(`c = ⌊N/2⌋`). -/
theorem rotate_index [OfNat α 0] (R : M3 Int) (hR : R.Orth) (s : Shape) (f : V3 Int → α) (v : V3 Int)
    (h : s.inBox (s.centre + v) = true) :
    rotateBy R s f (s.centre + R.apply v) = f (s.centre + v) := by
  have e := srcCoord_active_ring hR s.centre v
  unfold rotateBy rotateF
  simp only [e, h, if_true]

/-- outside the input the rotated map is the constant 0 -/
theorem rotate_outside [OfNat α 0] (R : M3 Int) (s : Shape) (f : V3 Int → α) (o : V3 Int)
    (h : s.inBox (srcCoord R.transpose s.centre o) = false) : rotateBy R s f o = 0 := by
  unfold rotateBy rotateF
  simp only [h]; rfl

/-- `rotate(map, rotation=R)` with the default `transpose_rotation=False` rotates by the INVERSE orientation.  The first conjunct
only unfolds the two model definitions (`rotatePlain R = rotateBy Rᵀ`, an anchor for how the default is modelled); the content is
the second: density at `c + v` moves to `c + Rᵀ v` (the documented meaning of the flag `place_object` sets) -/
theorem rotate_plain_is_inverse [OfNat α 0] (R : M3 Int) (hT : R.transpose.Orth) (s : Shape) (f : V3 Int → α) (v : V3 Int)
    (h : s.inBox (s.centre + v) = true) :
    rotatePlain R s f = rotateBy R.transpose s f ∧ rotatePlain R s f (s.centre + R.transpose.apply v) = f (s.centre + v) := by
  have e : rotatePlain R s f = rotateBy R.transpose s f := by
    unfold rotatePlain rotateBy; rw [M3.transpose_transpose]
  exact ⟨e, by rw [e]; exact rotate_index R.transpose hT s f v h⟩

/-- **Right-angle rotations permute voxels / rotating by the inverse restores.** `Rᵀ` is the inverse
orientation; wherever voxel `u` and its image `c + R (u - c)` are both in the box, rotating by `R` and then by
`R⁻¹` gives back the original voxel. -/
theorem rotate_inverse_restores [OfNat α 0] (R : M3 Int) (hR : R.Orth) (s : Shape) (f : V3 Int → α) (u : V3 Int)
    (hu : s.inBox u = true) (himg : s.inBox (srcCoord R s.centre u) = true) :
    rotateBy R.transpose s (rotateBy R s f) u = f u := by
  have e := srcCoord_inverse_ring hR s.centre u
  unfold rotateBy rotateF
  simp only [M3.transpose_transpose, himg, e, hu, if_true]

/-! ### the 24 cube rotations -/
theorem cube24_count : cube24.length = 24 := by decide
theorem cube24_nodup : cube24.Nodup := by decide
/-- each is a proper rotation: `RᵀR = 1`, `det R = 1` -/
theorem cube24_orth : ∀ R ∈ cube24, R.Orth := by unfold M3.Orth; decide
theorem cube24_det : ∀ R ∈ cube24, R.det = 1 := by decide
/-- … and so is the inverse of each (`R Rᵀ = 1`), the hypothesis of `rotate_plain_is_inverse` -/
theorem cube24_transpose_orth : ∀ R ∈ cube24, R.transpose.Orth := by unfold M3.Orth; decide
/-- they are exactly the particle orientations `zxz(phi, theta, psi)` with right-angle Euler angles -/
theorem cubeZxz_mem : ∀ a < 4, ∀ b < 4, ∀ c < 4, cubeZxz a b c ∈ cube24 := by decide
theorem cube24_from_zxz : ∀ R ∈ cube24, ∃ a < 4, ∃ b < 4, ∃ c < 4, R = cubeZxz a b c := by decide
/-- … and the list is complete: *every* proper orthogonal integer matrix (every rotation mapping the voxel grid to
itself) is one of the 24 — the exhaustive sweep over quarter-turn Euler triples misses no right-angle rotation -/
theorem cube24_complete (R : M3 Int) (hR : R.Orth) (hd : R.det = 1) : R ∈ cube24 := cube24_complete_aux R hR hd
theorem cubeZxz_periodic (a b c : Nat) : cubeZxz a b c = cubeZxz (a % 4) (b % 4) (c % 4) := by
  simp [cubeZxz, quarter]
/-- the inverse orientation is `zxz(-psi, -theta, -phi)` -/
theorem cube_inverse_angles : ∀ a < 4, ∀ b < 4, ∀ c < 4,
    (cubeZxz a b c).transpose = cubeZxz ((4 - c) % 4) ((4 - b) % 4) ((4 - a) % 4) := by decide

/-- the index law for the map rotated by right-angle Euler angles (what `rotate(map, rotation_angles=[90a, 90b, 90c])` is compared with) -/
theorem rotate_index_cube [OfNat α 0] (a b c : Nat) (s : Shape) (f : V3 Int → α) (v : V3 Int)
    (h : s.inBox (s.centre + v) = true) :
    rotateBy (cubeZxz a b c) s f (s.centre + (cubeZxz a b c).apply v) = f (s.centre + v) := by
  rw [cubeZxz_periodic]
  exact rotate_index _ (cube24_orth _ (cubeZxz_mem _ (Nat.mod_lt _ (by decide)) _ (Nat.mod_lt _ (by decide)) _ (Nat.mod_lt _ (by decide)))) s f v h

/-! ### composition -/

/-- **One convention means a group action.** Rotating by `R₁` and then by `R₂` is rotating once by the product `R₂ · R₁`
(the orientation of a particle rotated twice), at every output voxel whose intermediate sample point lies in the box — any integer
matrices, any box, no orthogonality needed; where the intermediate point falls outside, the two-step result is 0 (`rotate_outside`). -/
theorem rotate_compose [OfNat α 0] (R₁ R₂ : M3 Int) (s : Shape) (f : V3 Int → α) (o : V3 Int)
    (h : s.inBox (srcCoord R₂.transpose s.centre o) = true) :
    rotateBy R₂ s (rotateBy R₁ s f) o = rotateBy (R₂ * R₁) s f o := by
  unfold rotateBy rotateF
  simp only [h, if_true, M3.transpose_mul, srcCoord_mul]

/-- the 24 cube rotations are closed under products and inverses (a group): all 576 products / 24 transposes, kernel-evaluated -/
theorem cube24_closed : ∀ R₁ ∈ cube24, ∀ R₂ ∈ cube24, R₂ * R₁ ∈ cube24 := by decide +kernel

theorem cube24_transpose_mem : ∀ R ∈ cube24, R.transpose ∈ cube24 := by decide +kernel

/-- two right-angle rotations in a row permute voxels like the single right-angle rotation `R₂ · R₁`: density at `c + v` ends at
`c + R₂ R₁ v` (when `c + v` and the intermediate `c + R₁ v` are voxels of the box) -/
theorem rotate_compose_cube [OfNat α 0] (R₁ R₂ : M3 Int) (h₁ : R₁ ∈ cube24) (h₂ : R₂ ∈ cube24) (s : Shape) (f : V3 Int → α)
    (v : V3 Int) (h : s.inBox (s.centre + v) = true) (h' : s.inBox (s.centre + R₁.apply v) = true) :
    R₂ * R₁ ∈ cube24 ∧ rotateBy R₂ s (rotateBy R₁ s f) (s.centre + (R₂ * R₁).apply v) = f (s.centre + v) := by
  refine ⟨cube24_closed R₁ h₁ R₂ h₂, ?_⟩
  have hO := M3.Orth.mul (cube24_orth R₂ h₂) (cube24_orth R₁ h₁)
  rw [rotate_compose, rotate_index (R₂ * R₁) hO s f v h]
  rw [M3.apply_mul, srcCoord_active_ring (cube24_orth R₂ h₂)]
  exact h'

/-! ### windows -/

/-- `np.floor(coord - s/2)` is computed exactly: `start ≤ coord - s/2 < start + 1` for `coord = num/den` -/
theorem window_start_is_floor (num : Int) (den s : Nat) (hd : 0 < den) :
    2 * (den : Int) * startOf num den s ≤ 2 * num - s * den ∧ 2 * num - s * den < 2 * (den : Int) * (startOf num den s + 1) :=
  startOf_spec num den s hd

/-- even box `s = 2h`: the window starts `h` voxels below `⌊coord⌋`, so its voxel `h = ⌊s/2⌋` is voxel `⌊coord⌋` -/
theorem window_start_even (num : Int) (den h : Nat) (hd : 0 < den) : startOf num den (2 * h) = num / (den : Int) - h :=
  startOf_even num den h hd

/-- the slice assignment `sub[ss:se] = vol[vs:ve]` never raises: the two blocks always have equal extents -/
theorem window_blocks_agree (start : V3 Int) (V s : Shape) : (clip3 start V s).ok = true := clip3_ok start V s

/-- **Window.** For every volume, window shape and start (inside, partly outside, fully outside): the result
holds at `t` the volume voxel `start + t` if that exists, else the fill value. -/
theorem extract_spec (V s : Shape) (f : V3 Int → α) (start : V3 Int) (fill : α) :
    ∃ g, extractF V f start s fill = some g ∧
      ∀ t, s.inBox t = true → g t = if V.inBox (start + t) = true then f (start + t) else fill := by
  refine ⟨fun t => if (clip3 start V s).inSub t = true then f ((clip3 start V s).toVol t) else fill,
    by unfold extractF; simp only [clip3_ok, if_true], ?_⟩
  intro t ht
  by_cases h : V.inBox (start + t) = true
  · have h' := (clip3_inSub_iff start V s t ht).2 h
    simp only [h', h, if_true, clip3_toVol start V s t ht h']
  · have h' : (clip3 start V s).inSub t = false := by
      cases e : (clip3 start V s).inSub t with
      | false => rfl
      | true => exact absurd ((clip3_inSub_iff start V s t ht).1 e) h
    simp only [h', h]; rfl

/-- `extract_subvolume(volume, coord, shape)`: the window of `shape` voxels starting at `⌊coord - shape/2⌋`,
out-of-volume voxels set to the volume mean -/
theorem extractSubvolume_spec [OfNat α 0] [Add α] [Div α] (ofNat : Nat → α) (V s : Shape) (f : V3 Int → α) (num : V3 Int) (den : Nat) :
    ∃ g, extractSubvolume ofNat V f num den s = some g ∧
      ∀ t, s.inBox t = true → g t = if V.inBox (startOf3 num den s + t) = true then f (startOf3 num den s + t) else meanF ofNat V f :=
  extract_spec V s f (startOf3 num den s) (meanF ofNat V f)

/-- `crop` returns the window clipped to the volume; when the window is inside, it is the window itself -/
theorem crop_spec (V s : Shape) (f : V3 Int → α) (start : V3 Int)
    (hx : 0 ≤ start.x ∧ start.x + s.nx ≤ V.nx) (hy : 0 ≤ start.y ∧ start.y + s.ny ≤ V.ny) (hz : 0 ≤ start.z ∧ start.z + s.nz ≤ V.nz) :
    (cropF V f start s).1 = s ∧ ∀ t, (cropF V f start s).2 t = f (start + t) := by
  unfold cropF clip3
  simp only [clip1_inside _ _ _ hx.1 hx.2, clip1_inside _ _ _ hy.1 hy.2, clip1_inside _ _ _ hz.1 hz.2]
  refine ⟨?_, fun t => rfl⟩
  cases s; simp

/-- **`crop`, any window (inside, partly outside, fully outside): the window clipped to the volume.** The result has the
clipped extents; every voxel of it is the volume voxel `vs + t`, which lies in the volume and in the requested window;
and every volume voxel inside the requested window appears in the result (at `p - vs`). -/
theorem crop_spec_clipped (V s : Shape) (f : V3 Int → α) (start : V3 Int) :
    let c := clip3 start V s
    let vs : V3 Int := ⟨c.x.vs, c.y.vs, c.z.vs⟩
    (∀ t, (cropF V f start s).1.inBox t = true →
        (cropF V f start s).2 t = f (vs + t) ∧ V.inBox (vs + t) = true ∧ s.inBox (vs + t - start) = true) ∧
    (∀ p, V.inBox p = true → s.inBox (p - start) = true → (cropF V f start s).1.inBox (p - vs) = true) := by
  refine ⟨fun t ht => ⟨rfl, ?_⟩, fun p hp hw => ?_⟩
  · simp only [cropF, clip3, inBox_iff, v3_add_x, v3_add_y, v3_add_z, v3_sub_x, v3_sub_y, v3_sub_z] at ht ⊢
    simp only [clip1] at ht ⊢
    omega
  · simp only [cropF, clip3, inBox_iff, v3_sub_x, v3_sub_y, v3_sub_z] at hp hw ⊢
    simp only [clip1] at hp hw ⊢
    omega

/-- anchor (holds by unfolding `cropDefault`, not a clause of the statement): `crop(map, new_size)` with `crop_coord` omitted is the
window about the box centre `shape // 2`; what that window contains is `crop_spec` / `crop_spec_clipped` -/
theorem crop_default_is_centre (V s : Shape) (f : V3 Int → α) :
    cropDefault V f s = cropF V f ⟨startOf (V.nx / 2 : Nat) 1 s.nx, startOf (V.ny / 2 : Nat) 1 s.ny, startOf (V.nz / 2 : Nat) 1 s.nz⟩ s := rfl

/-- `extract_subvolume(…, enforce_shape=True)`: the volume's own shape; a voxel keeps its value iff it lies in the
requested window, every other voxel is the fill value (the volume mean) -/
theorem extract_enforce_spec (V s : Shape) (f : V3 Int → α) (start : V3 Int) (fill : α) (p : V3 Int) (hp : V.inBox p = true) :
    extractEnforceF V f start s fill p = if s.inBox (p - start) = true then f p else fill := by
  unfold extractEnforceF
  by_cases h : s.inBox (p - start) = true
  · simp only [(clip3_inVol_iff start V s p hp).2 h, h, if_true]
  · have h' : (clip3 start V s).inVol p = false := by
      cases e : (clip3 start V s).inVol p with
      | false => rfl
      | true => exact absurd ((clip3_inVol_iff start V s p hp).1 e) h
    simp [h', h]

/-- `pad`: the volume sits at `start = ⌈(new - old)/2⌉` on every axis (so the padding before exceeds the padding
after by at most one voxel), every other voxel is the fill value; never raises when the new size is not smaller -/
theorem pad_spec (N V : Shape) (f : V3 Int → α) (fill : α) (h : V.nx ≤ N.nx ∧ V.ny ≤ N.ny ∧ V.nz ≤ N.nz) :
    ∃ g, padF N V f fill = some g ∧
      (∀ t, V.inBox t = true → N.inBox (⟨padStart N.nx V.nx, padStart N.ny V.ny, padStart N.nz V.nz⟩ + t) = true ∧
        g (⟨padStart N.nx V.nx, padStart N.ny V.ny, padStart N.nz V.nz⟩ + t) = f t) ∧
      (∀ p, V.inBox (p - ⟨padStart N.nx V.nx, padStart N.ny V.ny, padStart N.nz V.nz⟩) = false → g p = fill) ∧
      (∀ new old : Nat, old ≤ new → 0 ≤ padStart new old ∧
        ((new : Int) - old - padStart new old ≤ padStart new old) ∧ (padStart new old ≤ (new : Int) - old - padStart new old + 1)) := by
  refine ⟨_, by unfold padF; rw [if_pos h], fun t ht => ⟨?_, ?_⟩, fun p hp => ?_, fun new old hle => ?_⟩
  · obtain ⟨hx, hy, hz⟩ := h
    simp only [inBox_iff, v3_add_x, v3_add_y, v3_add_z, padStart] at ht ⊢
    omega
  · have e : (⟨padStart N.nx V.nx, padStart N.ny V.ny, padStart N.nz V.nz⟩ + t : V3 Int) - ⟨padStart N.nx V.nx, padStart N.ny V.ny, padStart N.nz V.nz⟩ = t :=
      v3_add_sub_cancel _ t
    simp only [e, ht, if_true]
  · simp only [hp]; rfl
  · unfold padStart; omega

/-! ### placement -/

/-- **One stamp.** Inside the container, a voxel takes the colour iff its template voxel `p - start` exists and is
on; everything else is untouched; the assignment never raises. -/
theorem stamp_spec (C os : Shape) (g : V3 Int → α) (st : Stamp α) :
    ∃ g', stampF C g os st = some g' ∧
      ∀ p, C.inBox p = true → g' p = if covers os st p = true then st.color else g p := stamp_spec_aux C os g st

/-- **The loop (any number of particles).** Every container voxel ends with the colour of the *last* particle whose
stamp covers it, or keeps its original value if none does. -/
theorem place_painter (C os : Shape) (g : V3 Int → α) (stamps : List (Stamp α)) :
    ∃ g', placeAll C g os stamps = some g' ∧
      ∀ p, C.inBox p = true →
        g' p = match stamps.reverse.find? (fun st => covers os st p) with
               | some st => st.color
               | none => g p := place_painter_aux C os stamps g

/-- 1-based → 0-based: the source subtracts exactly 1 -/
theorem place_offset_documented : Gen.C14.placeOffset = 1 := by decide

/-- **The stamp start meets the statement, every template size** (odd, even, mixed parity, non-cubic; every position): what
`place_object` computes — `⌊(pos − 1) + (s mod 2)/2 − s/2⌋` — is `⌊pos − 1⌋ − ⌊s/2⌋`: the template's centre voxel `⌊s/2⌋` (the voxel
`rotate` turns the template about) lands on the voxel that holds the 0-based complete position. -/
theorem placeStart_meets_statement (pos : V3 Rat) (os : Shape) : placeStartQ pos os = specStartQ pos os := by
  have key : ∀ (c : Rat) (s : Nat), startOfQ (c - ((Gen.C14.placeOffset : Int) : Rat) + ((s % 2 : Nat) : Rat) / 2) s
      = (c - 1).floor - ((s / 2 : Nat) : Int) := by
    intro c s; rw [placeOffset_cast, startOfQ_centred, ratFloor_eq]
  ext <;> simp only [placeStartQ, specStartQ, key]

/-- … for a position `num/den`: the start is `⌊num/den⌋ − 1 − ⌊s/2⌋` on every axis (integer division = floor) -/
theorem placeStart_centred (num : V3 Int) (den : Nat) (os : Shape) :
    placeStart num den os = ⟨num.x / (den : Int) - 1 - ((os.nx / 2 : Nat) : Int), num.y / (den : Int) - 1 - ((os.ny / 2 : Nat) : Int),
      num.z / (den : Int) - 1 - ((os.nz / 2 : Nat) : Int)⟩ := by
  have key : ∀ n : Int, (mkRat n den - 1).floor = n / (den : Int) - 1 := by
    intro n
    rw [ratFloor_eq, Int.floor_sub_one, Rat.mkRat_eq_div, Rat.floor_intCast_div_natCast]
  unfold placeStart
  rw [placeStart_meets_statement]
  ext <;> simp only [specStartQ, key]

/-- even template `2a × 2b × 2c` at complete position `pos = num/den`: the stamp starts at `⌊pos⌋ - 1 - (a,b,c)`,
i.e. template voxel `⌊s/2⌋` lands on voxel `⌊pos - 1⌋` (instance of `placeStart_centred`) -/
theorem placeStart_even (num : V3 Int) (den : Nat) (hd : 0 < den) (a b c : Nat) :
    placeStart num den ⟨2 * a, 2 * b, 2 * c⟩ = ⟨num.x / (den : Int) - 1 - a, num.y / (den : Int) - 1 - b, num.z / (den : Int) - 1 - c⟩ := by
  have _ := hd
  rw [placeStart_centred]
  have ha : (2 * a) / 2 = a := by omega
  have hb : (2 * b) / 2 = b := by omega
  have hc : (2 * c) / 2 = c := by omega
  simp only [ha, hb, hc]

/-- the stamp start for ANY template size (odd, even, mixed), as a floor: the template's centre voxel `m = start + ⌊s/2⌋`
satisfies `m ≤ pos − 1 < m + 1` per axis for `pos = num/den` — `den·m ≤ num − den < den·(m + 1)`.  (Before the repair of D33 the
statement here was `start = ⌊(pos − 1) − s/2⌋`, which for odd sizes is NOT this voxel: `old_place_start_odd_one_voxel_low`.) -/
theorem placeStart_floor (num : V3 Int) (den : Nat) (hd : 0 < den) (os : Shape) :
    ((den : Int) * ((placeStart num den os).x + ((os.nx / 2 : Nat) : Int)) ≤ num.x - den ∧
      num.x - den < (den : Int) * ((placeStart num den os).x + ((os.nx / 2 : Nat) : Int) + 1)) ∧
    ((den : Int) * ((placeStart num den os).y + ((os.ny / 2 : Nat) : Int)) ≤ num.y - den ∧
      num.y - den < (den : Int) * ((placeStart num den os).y + ((os.ny / 2 : Nat) : Int) + 1)) ∧
    ((den : Int) * ((placeStart num den os).z + ((os.nz / 2 : Nat) : Int)) ≤ num.z - den ∧
      num.z - den < (den : Int) * ((placeStart num den os).z + ((os.nz / 2 : Nat) : Int) + 1)) := by
  have hd' : (0 : Int) < (den : Int) := by exact_mod_cast hd
  have key : ∀ (n : Int) (h : Int), (den : Int) * (n / (den : Int) - 1 - h + h) ≤ n - den ∧ n - den < (den : Int) * (n / (den : Int) - 1 - h + h + 1) := by
    intro n h
    have e1 := Int.emod_add_mul_ediv n (den : Int)
    have e2 := Int.emod_nonneg n (ne_of_gt hd')
    have e3 := Int.emod_lt_of_pos n hd'
    constructor <;> nlinarith
  rw [placeStart_centred]
  exact ⟨key _ _, key _ _, key _ _⟩

/-- **Placement uses the particle's active orientation — any template shape** (odd, even, mixed parity, non-cubic).
A particle with orientation `R` (orthogonal integer matrix, e.g. any cube rotation `zxz(phi,theta,psi)`), complete
position `pos = num/den` and field value `col`; a template voxel at offset `v` from the template centre `⌊s/2⌋` that is
above the threshold: the container voxel `start + ⌊s/2⌋ + R v` receives `col`, where `start + ⌊s/2⌋ = ⌊pos - 1⌋`
(`placeStart_centred`, `placeStart_floor`) — the template centre lands on `start + ⌊s/2⌋` and offsets are carried by the same `R v` by which
`shift_positions` carries a reference offset into the tomogram. -/
theorem place_active_any (C : Shape) (g : V3 Int → α) (os : Shape) (tmpl : V3 Int → Rat) (R : M3 Int) (hR : R.Orth)
    (num : V3 Int) (den : Nat) (col : α) (v : V3 Int)
    (hv : os.inBox (os.centre + v) = true)
    (hon : isOn (tmpl (os.centre + v)) = true)
    (hRv : os.inBox (os.centre + R.apply v) = true)
    (hC : C.inBox (placeStart num den os + (os.centre + R.apply v)) = true) :
    ∃ g', placeAll C g os [cubeStamp os tmpl R num den col] = some g' ∧
      g' (placeStart num den os + (os.centre + R.apply v)) = col := by
  obtain ⟨g', e, h⟩ := place_painter C os g [cubeStamp os tmpl R num den col]
  refine ⟨g', e, ?_⟩
  rw [h _ hC]
  have hsub : (placeStart num den os + (os.centre + R.apply v)) - (cubeStamp os tmpl R num den col).start
      = os.centre + R.apply v := v3_add_sub_cancel _ _
  have hcov : covers os (cubeStamp os tmpl R num den col) (placeStart num den os + (os.centre + R.apply v)) = true := by
    unfold covers
    rw [hsub, hRv, Bool.true_and]
    show isOn (rotateBy R _ tmpl _) = true
    rw [rotate_index R hR _ tmpl v hv]; exact hon
  simp only [List.reverse_cons, List.reverse_nil, List.nil_append, List.find?_cons, hcov]
  rfl

/-- **… even templates** (`2a × 2b × 2c`): the template centre lands on `⌊pos⌋ - 1`, so the container voxel at offset
`R v` from `⌊pos⌋ - 1` receives `col` (instance of `place_active_any` through `placeStart_even`). -/
theorem place_active (C : Shape) (g : V3 Int → α) (a b c : Nat) (tmpl : V3 Int → Rat) (R : M3 Int) (hR : R.Orth)
    (num : V3 Int) (den : Nat) (hd : 0 < den) (col : α) (v : V3 Int)
    (hv : (⟨2 * a, 2 * b, 2 * c⟩ : Shape).inBox ((⟨2 * a, 2 * b, 2 * c⟩ : Shape).centre + v) = true)
    (hon : isOn (tmpl ((⟨2 * a, 2 * b, 2 * c⟩ : Shape).centre + v)) = true)
    (hRv : (⟨2 * a, 2 * b, 2 * c⟩ : Shape).inBox ((⟨2 * a, 2 * b, 2 * c⟩ : Shape).centre + R.apply v) = true)
    (hC : C.inBox ((⟨num.x / (den : Int) - 1, num.y / (den : Int) - 1, num.z / (den : Int) - 1⟩ : V3 Int) + R.apply v) = true) :
    ∃ g', placeAll C g ⟨2 * a, 2 * b, 2 * c⟩ [cubeStamp ⟨2 * a, 2 * b, 2 * c⟩ tmpl R num den col] = some g' ∧
      g' ((⟨num.x / (den : Int) - 1, num.y / (den : Int) - 1, num.z / (den : Int) - 1⟩ : V3 Int) + R.apply v) = col := by
  have hpt : ((⟨num.x / (den : Int) - 1, num.y / (den : Int) - 1, num.z / (den : Int) - 1⟩ : V3 Int) + R.apply v)
      = placeStart num den ⟨2 * a, 2 * b, 2 * c⟩ + ((⟨2 * a, 2 * b, 2 * c⟩ : Shape).centre + R.apply v) := by
    rw [placeStart_even num den hd]
    ext <;> simp [Shape.centre, v3_add_x, v3_add_y, v3_add_z] <;> omega
  rw [hpt] at hC ⊢
  exact place_active_any C g ⟨2 * a, 2 * b, 2 * c⟩ tmpl R hR num den col v hv hon hRv hC

/-! ### the particle list: accessors, `shift_positions`, and placement from the table rows -/

/-- `Motl.get_rotations`, `get_angles`, `get_coordinates` and `shift_positions`, every statement: the orientation is
`from_euler("zxz", [phi, theta, psi], degrees=True)` of the angle columns as they are NOW (no cache, nothing between the table
and the rotation), the complete position is `x + shift_x`, and `shift_coords` adds `orientation.apply(shift)` to the shift columns (of the row converted to floating point first, so that a table
with integer-typed columns can take the rotated offset: the repair of the pandas-3 TypeError found in round 5; no other statement) -/
theorem motl_bodies_documented :
    Gen.C14.motlRotationsBody =
      ["angles=self.get_angles(tomo_number)",
       "if angles.shape[0]==0:",
       ">return []",
       "rotations=rot.from_euler('zxz',angles,degrees=True)",
       "return rotations"] ∧
    Gen.C14.motlAnglesBody =
      ["if tomo_numberisNone:",
       ">angles=self.df.loc[:,['phi','theta','psi']].values",
       "else:",
       ">angles=self.df.loc[self.df.loc[:,'tomo_id']==tomo_number,['phi','theta','psi']].values",
       "return np.atleast_2d(angles)"] ∧
    Gen.C14.motlCoordsBody =
      ["if tomo_numberisNone:",
       ">coord=self.df.loc[:,['x','y','z']].values+self.df.loc[:,['shift_x','shift_y','shift_z']].values",
       "else:",
       ">coord=self.df.loc[self.df.loc[:,'tomo_id']==tomo_number,['x','y','z']].values+self.df.loc[self.df.loc[:,'tomo_id']==tomo_number,['shift_x','shift_y','shift_z']].values",
       "return coord"] ∧
    Gen.C14.motlShiftBody =
      ["def shift_coords(row):",
       ">row=row.astype(float)",
       ">v=np.array(shift)",
       ">euler_angles=np.array([[row['phi'],row['theta'],row['psi']]])",
       ">orientations=rot.from_euler(seq='zxz',angles=euler_angles,degrees=True)",
       ">rshifts=orientations.apply(v)",
       ">row['shift_x']=row['shift_x']+rshifts[0][0]",
       ">row['shift_y']=row['shift_y']+rshifts[0][1]",
       ">row['shift_z']=row['shift_z']+rshifts[0][2]",
       ">return row",
       "if inplace:",
       ">self.df=self.df.apply(shift_coords,axis=1).reset_index(drop=True)",
       "else:",
       ">new_motl=copy.deepcopy(self)",
       ">new_motl.df=new_motl.df.apply(shift_coords,axis=1).reset_index(drop=True)",
       ">return new_motl"] ∧
    Gen.C14.motlRotationsSig = ["self", "tomo_number=None"] ∧ Gen.C14.motlAnglesSig = ["self", "tomo_number=None"] ∧
    Gen.C14.motlCoordsSig = ["self", "tomo_number=None"] ∧ Gen.C14.motlShiftSig = ["self", "shift", "inplace=True"] := by
  repeat' constructor

/-- **`shift_positions` carries the offset by the particle's orientation, any angles.** Over any commutative ring and any
trigonometric service: the complete position of the shifted row is the old one plus `R v`, `R` = the row's `zxz(phi, theta, psi)`
— the same `R` by which `rotate` moves density (`rotate_coordinate_active_zxz`); angles (hence `R`) are unchanged. -/
theorem shift_moves_position {K : Type} [CommRing K] (cs : K → K × K) (v : V3 K) (p : Particle K) :
    rowCoords (shiftRow cs v p) = rowCoords p + (rowRotation cs p).apply v ∧
    rowRotation cs (shiftRow cs v p) = rowRotation cs p := by
  refine ⟨?_, rfl⟩
  ext <;> simp only [rowCoords, shiftRow, v3g_add_x, v3g_add_y, v3g_add_z] <;> ring

/-- … the exact form for right-angle Euler angles and an integer offset: `shiftRowCube` succeeds exactly when the three angles
are whole quarter turns, moves the complete position by `R v` (`R = rowCube`), and leaves orientation and every other field alone -/
theorem shift_moves_position_cube (v : V3 Int) (p : Particle Rat) (R : M3 Int) (hR : rowCube p = some R) :
    ∃ p', shiftRowCube v p = some p' ∧
      rowCoords p' = rowCoords p + ⟨((R.apply v).x : Rat), ((R.apply v).y : Rat), ((R.apply v).z : Rat)⟩ ∧
      rowCube p' = some R ∧
      ∀ f : CryoCat.Field, f ≠ .shift_x → f ≠ .shift_y → f ≠ .shift_z → p'.get f = p.get f := by
  refine ⟨_, by unfold shiftRowCube; rw [hR]; rfl, ?_, ?_, ?_⟩
  · ext <;> simp only [rowCoords, v3g_add_x, v3g_add_y, v3g_add_z] <;> ring
  · exact hR
  · intro f h1 h2 h3
    cases f <;> first | rfl | exact absurd rfl h1 | exact absurd rfl h2 | exact absurd rfl h3

/-- the template's centre voxel `m = start + ⌊s/2⌋` is the voxel holding the 0-based position: `m ≤ pos − 1 < m + 1` on every axis -/
theorem placeStartQ_floor (pos : V3 Rat) (os : Shape) :
    ((((placeStartQ pos os).x + ((os.nx / 2 : Nat) : Int) : Int) : Rat) ≤ pos.x - 1 ∧ pos.x - 1 < (((placeStartQ pos os).x + ((os.nx / 2 : Nat) : Int) : Int) : Rat) + 1) ∧
    ((((placeStartQ pos os).y + ((os.ny / 2 : Nat) : Int) : Int) : Rat) ≤ pos.y - 1 ∧ pos.y - 1 < (((placeStartQ pos os).y + ((os.ny / 2 : Nat) : Int) : Int) : Rat) + 1) ∧
    ((((placeStartQ pos os).z + ((os.nz / 2 : Nat) : Int) : Int) : Rat) ≤ pos.z - 1 ∧ pos.z - 1 < (((placeStartQ pos os).z + ((os.nz / 2 : Nat) : Int) : Int) : Rat) + 1) := by
  have key : ∀ (c : Rat) (h : Int), (((c.floor - h + h : Int)) : Rat) ≤ c ∧ c < (((c.floor - h + h : Int)) : Rat) + 1 := by
    intro c h
    rw [sub_add_cancel, ratFloor_eq]
    exact ⟨Int.floor_le _, Int.lt_floor_add_one _⟩
  rw [placeStart_meets_statement]
  exact ⟨key _ _, key _ _, key _ _⟩

/-- an integer offset `w` of the complete position moves the stamp start by exactly `w` (any template size) -/
theorem placeStartQ_add_int (pos : V3 Rat) (w : V3 Int) (os : Shape) :
    placeStartQ (pos + ⟨(w.x : Rat), (w.y : Rat), (w.z : Rat)⟩) os = placeStartQ pos os + w := by
  have key : ∀ (c : Rat) (k : Int) (o h : Rat) (s : Nat), startOfQ (c + (k : Rat) - o + h) s = startOfQ (c - o + h) s + k := by
    intro c k o h s
    rw [← startOfQ_add_int]; congr 1; ring
  ext <;> simp only [placeStartQ, v3g_add_x, v3g_add_y, v3g_add_z, key]

/-- **`shift_positions` then `place_object` (work list 3).** For a row with right-angle orientation `R` and an integer offset `v`
in the particle's frame: the stamp of the shifted row is the stamp of the original row — same rotated, thresholded mask, same
colour — moved by `R v` in the container. -/
theorem shift_moves_stamp (os : Shape) (tmpl : V3 Int → Rat) (feature : CryoCat.Field)
    (hf : feature ≠ .shift_x ∧ feature ≠ .shift_y ∧ feature ≠ .shift_z)
    (v : V3 Int) (p : Particle Rat) (R : M3 Int) (hR : rowCube p = some R) :
    ∃ p' st, shiftRowCube v p = some p' ∧ rowStamp os tmpl feature p = some st ∧
      rowStamp os tmpl feature p' = some ⟨st.mask, st.start + R.apply v, st.color⟩ := by
  obtain ⟨p', e, hc, hR', hg⟩ := shift_moves_position_cube v p R hR
  refine ⟨p', ⟨fun t => isOn (rotateBy R os tmpl t), placeStartQ (rowCoords p) os, p.get feature⟩, e, ?_, ?_⟩
  · unfold rowStamp; rw [hR]; rfl
  · unfold rowStamp; rw [hR', hc, placeStartQ_add_int, hg feature hf.1 hf.2.1 hf.2.2]; rfl

/-- **Placement from the table rows (any number of particles).** When every row has right-angle Euler angles, `placeMotl` is the
painter's loop `placeAll` (characterised by `place_painter`) over the rows' stamps in table order: orientation from the angle columns, position `x + shift - 1`, colour = the
row's value of the colouring field -/
theorem placeMotl_painter (C os : Shape) (g : V3 Int → Rat) (tmplOf : Nat → V3 Int → Rat) (feature : CryoCat.Field) (m : Motl Rat)
    (stamps : List (Stamp Rat)) (hs : (m.zipIdx.mapM fun pi => rowStamp os (tmplOf pi.2) feature pi.1) = some stamps) :
    placeMotl C g os tmplOf feature m = placeAll C g os stamps := by
  unfold placeMotl; rw [hs]; rfl

/-- **One particle, through the accessors.** A row with right-angle orientation `R`; a template voxel at offset `v` from the
template centre `⌊s/2⌋` above the threshold: the container voxel `start + ⌊s/2⌋ + R v` receives the row's value of the colouring
field; `start + ⌊s/2⌋` is the voxel holding `(x + shift_x) − 1` (`placeStart_meets_statement`, `placeStartQ_floor`). -/
theorem placeMotl_active (C : Shape) (g : V3 Int → Rat) (os : Shape) (tmpl : V3 Int → Rat) (feature : CryoCat.Field)
    (p : Particle Rat) (R : M3 Int) (hcube : rowCube p = some R) (hR : R.Orth) (v : V3 Int)
    (hv : os.inBox (os.centre + v) = true)
    (hon : isOn (tmpl (os.centre + v)) = true)
    (hRv : os.inBox (os.centre + R.apply v) = true)
    (hC : C.inBox (placeStartQ (rowCoords p) os + (os.centre + R.apply v)) = true) :
    ∃ g', placeMotl C g os (fun _ => tmpl) feature [p] = some g' ∧
      g' (placeStartQ (rowCoords p) os + (os.centre + R.apply v)) = p.get feature := by
  have hs : ([p].zipIdx.mapM fun pi => rowStamp os ((fun _ => tmpl) pi.2) feature pi.1)
      = some [⟨fun t => isOn (rotateBy R os tmpl t), placeStartQ (rowCoords p) os, p.get feature⟩] := by
    simp [rowStamp, hcube]
  obtain ⟨g', e, h⟩ := place_painter C os g [⟨fun t => isOn (rotateBy R os tmpl t), placeStartQ (rowCoords p) os, p.get feature⟩]
  refine ⟨g', by rw [placeMotl_painter C os g (fun _ => tmpl) feature [p] _ hs]; exact e, ?_⟩
  rw [h _ hC]
  have hsub : (placeStartQ (rowCoords p) os + (os.centre + R.apply v)) - placeStartQ (rowCoords p) os = os.centre + R.apply v :=
    v3_add_sub_cancel _ _
  have hcov : covers os (⟨fun t => isOn (rotateBy R os tmpl t), placeStartQ (rowCoords p) os, p.get feature⟩ : Stamp Rat)
      (placeStartQ (rowCoords p) os + (os.centre + R.apply v)) = true := by
    unfold covers
    simp only [hsub, hRv, Bool.true_and]
    rw [rotate_index R hR _ tmpl v hv]; exact hon
  simp only [List.reverse_cons, List.reverse_nil, List.nil_append, List.find?_cons, hcov]

/-! #### defect D33 (repaired): templates of odd size sat one voxel low -/

/-- **regression witness (defect D33).** The window start `place_object` used before the repair, `⌊pos − 1 − s/2⌋`, puts the centre
voxel of a template of odd size `2h+1` at a whole-number complete position `n` on 0-based voxel `n − 2` — one voxel below the voxel
`n − 1` the statement names and the repaired code (`placeStart_meets_statement`) uses -/
theorem old_place_start_odd_one_voxel_low (n : Int) (y z : Rat) (h ny nz : Nat) :
    (oldPlaceStartQ ⟨(n : Rat), y, z⟩ ⟨2 * h + 1, ny, nz⟩).x + (h : Int) = n - 2 ∧
    (placeStartQ ⟨(n : Rat), y, z⟩ ⟨2 * h + 1, ny, nz⟩).x + (h : Int) = n - 1 := by
  have hh : (2 * h + 1) / 2 = h := by omega
  have c1 : ((n : Rat) - 1) = ((n - 1 : Int) : Rat) := by push_cast; ring
  constructor
  · simp only [oldPlaceStartQ, c1]
    have := startOfQ_odd_int (n - 1) h
    omega
  · rw [placeStart_meets_statement]
    simp only [specStartQ, ratFloor_eq, hh, c1, Int.floor_intCast]; omega

/-- … the exact class of the old defect: on an axis of odd size the old start equals the statement's iff the fractional part of the
0-based position is at least 1/2, otherwise it is exactly one voxel lower (x axis shown) -/
theorem old_place_start_odd_cases (pos : V3 Rat) (h ny nz : Nat) :
    (oldPlaceStartQ pos ⟨2 * h + 1, ny, nz⟩).x =
      if ((⌊pos.x - 1⌋ : Int) : Rat) + 1 / 2 ≤ pos.x - 1 then (specStartQ pos ⟨2 * h + 1, ny, nz⟩).x
      else (specStartQ pos ⟨2 * h + 1, ny, nz⟩).x - 1 := by
  have hh : (2 * h + 1) / 2 = h := by omega
  have := startOfQ_odd_cases (pos.x - 1) h
  simp only [oldPlaceStartQ, specStartQ, ratFloor_eq, hh]
  split at this <;> rename_i hc <;> simp only [hc, if_true, if_false] <;> omega

/-- the repaired pipeline evaluated: a 5³ and a 4³ template with only the centre voxel on, one particle at (6, 6, 6) with object_id 7
in a 12³ container — both stamp voxel (5,5,5) = pos − 1 and leave (4,4,4) alone -/
theorem place_template_centred_on_position :
    (placeMotl ⟨12, 12, 12⟩ (fun _ => 0) ⟨5, 5, 5⟩ (fun _ t => if t = ⟨2, 2, 2⟩ then 1 else 0) .object_id
        [{ (default : Particle Rat) with x := 6, y := 6, z := 6, object_id := 7 }]).map
      (fun g => (g ⟨4, 4, 4⟩, g ⟨5, 5, 5⟩)) = some (0, 7) ∧
    (placeMotl ⟨12, 12, 12⟩ (fun _ => 0) ⟨4, 4, 4⟩ (fun _ t => if t = ⟨2, 2, 2⟩ then 1 else 0) .object_id
        [{ (default : Particle Rat) with x := 6, y := 6, z := 6, object_id := 7 }]).map
      (fun g => (g ⟨4, 4, 4⟩, g ⟨5, 5, 5⟩)) = some (0, 7) := by
  constructor <;> decide +kernel

/-! ### symmetrisation -/
section sym
open Finset
variable {K : Type} [_root_.Field K] {X : Type}

/-- **`symmetrize_volume` returns the mean of the n rotated copies** (`rot k` = the map rotated by `k·360/n` about z) -/
theorem symmetrize_is_mean (n : Nat) (rot : Nat → X → K) (p : X) :
    symmetrizeF (fun m : Nat => (m : K)) n rot p = (∑ k ∈ range n, rot (k + 1) p) / (n : K) :=
  symmetrizeF_eq_sum n rot p

/-- **Invariance under an exact cyclic action (any n in the abstract; met by `rotate` only for n ∈ {1, 2, 4}).** IF rotation by
`360/n` acts exactly on voxels — `rot k` samples the map at `σᵏ p` with `σⁿ = id` — the symmetrised map has the same value at `p`
and at `σ p`: rotating it by `360/n` returns it unchanged.  The real `rotate` satisfies the hypothesis only when `360/n` is a
multiple of 90° (`symExact_invariant` instantiates it there); for the other n of the quantifier (3, 5..12) an interpolating rotation
is not an exact action and invariance is validated on smooth blobs, not proved. -/
theorem symmetrize_invariant (n : Nat) (σ : X → X) (hσ : ∀ x, σ^[n] x = x) (f : X → K) (p : X) :
    symmetrizeF (fun m : Nat => (m : K)) n (fun k q => f (σ^[k] q)) (σ p)
      = symmetrizeF (fun m : Nat => (m : K)) n (fun k q => f (σ^[k] q)) p := by
  rw [symmetrize_is_mean, symmetrize_is_mean, sum_orbit_invariant σ n hσ f p]

/-- **Same total density under an exact cyclic action** (finite voxel set, `n` invertible in the number field; same scope as
`symmetrize_invariant`: the hypothesis `σⁿ = id` with `rot k = f ∘ σᵏ` is met by `rotate` for n ∈ {1, 2, 4} only —
`symExact_total` is that instance on a box) -/
theorem symmetrize_total [Fintype X] (n : Nat) (hn : (n : K) ≠ 0) (σ : X → X) (hσ : ∀ x, σ^[n] x = x) (f : X → K) :
    ∑ x, symmetrizeF (fun m : Nat => (m : K)) n (fun k q => f (σ^[k] q)) x = ∑ x, f x := by
  simp only [symmetrize_is_mean]
  exact sum_total_conserved σ n hn hσ f

/-- **The executable n ∈ {1, 2, 4} model is such an exact action**: the voxel map `σ` of the quarter-turn rotation
about z satisfies `σⁿ = id` on the whole grid, and `symmetrizeExact` samples the zero-continued map along `σ`. -/
theorem symExact_invariant (n : Nat) (hn : n * (4 / n) = 4) (s : Shape) (f : V3 Int → K) (p : V3 Int) :
    symmetrizeExact (fun m : Nat => (m : K)) n s f (srcCoord (rzQuarter (4 / n)).transpose s.centre p)
      = symmetrizeExact (fun m : Nat => (m : K)) n s f p := by
  have hrot : (fun k : Nat => rotateBy (rzQuarter (k * (4 / n))) s f)
      = fun k q => (fun q => if s.inBox q = true then f q else 0) ((srcCoord (rzQuarter (4 / n)).transpose s.centre)^[k] q) := by
    funext k q
    rw [rotateBy_zeroExt, srcCoord_rz_iter]
  have hσ : ∀ x, (srcCoord (rzQuarter (4 / n)).transpose s.centre)^[n] x = x := by
    intro x
    rw [← srcCoord_rz_iter, hn, rzQuarter_four, srcCoord_one]
  unfold symmetrizeExact
  rw [hrot]
  exact symmetrize_invariant (K := K) n (srcCoord (rzQuarter (4 / n)).transpose s.centre) hσ
    (fun q => if s.inBox q = true then f q else 0) p

/-- … hence rotating the symmetrised map by `360/n` with `rotate` gives it back wherever the sampled voxel is in the box -/
theorem symExact_rotate_invariant (n : Nat) (hn : n * (4 / n) = 4) (s : Shape) (f : V3 Int → K) (p : V3 Int)
    (hin : s.inBox (srcCoord (rzQuarter (4 / n)).transpose s.centre p) = true) :
    rotateBy (rzQuarter (4 / n)) s (symmetrizeExact (fun m : Nat => (m : K)) n s f) p
      = symmetrizeExact (fun m : Nat => (m : K)) n s f p := by
  rw [rotateBy_zeroExt]
  simp only [hin, if_true]
  exact symExact_invariant n hn s f p

/-- **Same total density — the executable n ∈ {1, 2, 4} model on a concrete box** (the instantiation of `symmetrize_total`
for a box; `voxels s` is the finite set of all voxel indices of the box, `mem_voxels`).  `n = 4` needs a square x–y
section; an even size needs the map to vanish on its plane `x = 0` (resp. `y = 0`), e.g. a map with zero faces — that plane
has no mirror image about the centre `⌊N/2⌋`; odd sizes need nothing. -/
theorem symExact_total (n : Nat) (hn : n * (4 / n) = 4) (hK : (n : K) ≠ 0) (s : Shape) (hsq : n = 4 → s.nx = s.ny)
    (f : V3 Int → K)
    (hface : ∀ p, s.inBox p = true → ((s.nx % 2 = 0 ∧ p.x = 0) ∨ (s.ny % 2 = 0 ∧ p.y = 0)) → f p = 0) :
    ∑ p ∈ voxels s, symmetrizeExact (fun m : Nat => (m : K)) n s f p = ∑ p ∈ voxels s, f p :=
  symExact_total_aux n hn hK s hsq f hface

/-- … in the model's own `np.sum` (`sumBox`, the left fold over the voxels in C order) -/
theorem symExact_total_sum (n : Nat) (hn : n * (4 / n) = 4) (hK : (n : K) ≠ 0) (s : Shape) (hsq : n = 4 → s.nx = s.ny)
    (f : V3 Int → K)
    (hface : ∀ p, s.inBox p = true → ((s.nx % 2 = 0 ∧ p.x = 0) ∨ (s.ny % 2 = 0 ∧ p.y = 0)) → f p = 0) :
    sumBox s (symmetrizeExact (fun m : Nat => (m : K)) n s f) = sumBox s f := by
  rw [sumBox_eq_sum, sumBox_eq_sum]; exact symExact_total n hn hK s hsq f hface

/-- the finite voxel set is exactly the box -/
theorem voxels_spec (s : Shape) (p : V3 Int) : p ∈ voxels s ↔ s.inBox p = true := mem_voxels s p
end sym

/-! ### driver plumbing: nested lists ↔ voxel functions -/

/-- what the driver prints for a model result `f` (`Vol.tab`) holds `f p` at every voxel `p` of the box, and reading a
request volume back (`Vol.getD`) returns the voxel that was written -/
theorem driver_plumbing (s : Shape) (f : V3 Int → α) (d : α) (p : V3 Int) (h : s.inBox p = true) :
    (Vol.tab s f).getD d p = f p := tab_getD s f d p h

/-! ### non-vacuity: every hypothesis above is met by concrete non-trivial inputs -/
section examples
/-- a cube rotation that is not the identity, is orthogonal, and moves the offset (1,0,0) to (0,0,1) -/
example : cubeZxz 1 1 0 ∈ cube24 ∧ (cubeZxz 1 1 0).Orth ∧ (cubeZxz 1 1 0).apply ⟨1, 0, 0⟩ = (⟨0, 0, 1⟩ : V3 Int) := by
  refine ⟨by decide, cube24_orth _ (by decide), by decide⟩
/-- `rotate_index` / `rotate_inverse_restores`: odd and even boxes with `c + v`, `c + R v` both inside -/
example : (⟨5, 6, 7⟩ : Shape).inBox ((⟨5, 6, 7⟩ : Shape).centre + ⟨1, -2, 2⟩) = true ∧
    (⟨5, 6, 7⟩ : Shape).inBox (srcCoord (cubeZxz 0 0 1) (⟨5, 6, 7⟩ : Shape).centre ⟨3, 1, 5⟩) = true := by decide
/-- the index law evaluated: a 5×6×7 map with voxel value `100x+10y+z`, rotated by 90° about z -/
example : rotateBy (cubeZxz 0 0 1) ⟨5, 6, 7⟩ (fun p : V3 Int => 100 * p.x + 10 * p.y + p.z) ⟨1, 4, 3⟩ = 343 := by decide
/-- over a commutative ring with a genuinely non-integer rotation: (c, s) = (3/5, 4/5) about z -/
example : (3/5 : Rat) * (3/5) + (4/5) * (4/5) = 1 := by norm_num
/-- windows: fully inside, partly outside, fully outside (volume 6, window 4), and a half-integer centre -/
example : clip1 1 6 4 = ⟨1, 5, 0, 4⟩ ∧ clip1 (-2) 6 4 = ⟨0, 2, 2, 4⟩ ∧ clip1 4 6 4 = ⟨4, 6, 0, 2⟩ ∧
    clip1 7 6 4 = ⟨6, 6, 0, 0⟩ ∧ clip1 (-9) 6 4 = ⟨0, 0, 4, 4⟩ ∧ startOf 7 2 4 = 1 ∧ startOf (-1) 2 4 = -3 := by decide
/-- `crop_spec`: a window inside the volume -/
example : (0 : Int) ≤ 1 ∧ (1 : Int) + (4 : Nat) ≤ (6 : Nat) := by decide
/-- `place_active`: template 4×4×4 with the voxel at offset (1,0,-1) on (value 1/8 > 1/10), particle at (5.25, 6, 7.5),
orientation `zxz(90°, 90°, 0°)`, container 12³ -/
example : (⟨2 * 2, 2 * 2, 2 * 2⟩ : Shape).inBox ((⟨2 * 2, 2 * 2, 2 * 2⟩ : Shape).centre + ⟨1, 0, -1⟩) = true ∧
    isOn ((fun p : V3 Int => if p = ⟨3, 2, 1⟩ then mkRat 1 8 else 0) ((⟨2 * 2, 2 * 2, 2 * 2⟩ : Shape).centre + ⟨1, 0, -1⟩)) = true ∧
    (⟨2 * 2, 2 * 2, 2 * 2⟩ : Shape).inBox ((⟨2 * 2, 2 * 2, 2 * 2⟩ : Shape).centre + (cubeZxz 1 1 0).apply ⟨1, 0, -1⟩) = true ∧
    (⟨12, 12, 12⟩ : Shape).inBox ((⟨(21 : Int) / ((4 : Nat) : Int) - 1, (24 : Int) / ((4 : Nat) : Int) - 1, (30 : Int) / ((4 : Nat) : Int) - 1⟩ : V3 Int)
      + (cubeZxz 1 1 0).apply ⟨1, 0, -1⟩) = true := by decide
/-- the painter's loop on two overlapping stamps: the later colour wins, untouched voxels keep the container value -/
example : (placeAll ⟨4, 4, 4⟩ (fun _ => (7 : Int)) ⟨2, 2, 2⟩
      [⟨fun _ => true, ⟨0, 0, 0⟩, 1⟩, ⟨fun t => decide (t.x = 0), ⟨1, 1, 1⟩, 2⟩]).map
      (fun g => [g ⟨0, 0, 0⟩, g ⟨1, 1, 1⟩, g ⟨2, 1, 1⟩, g ⟨3, 3, 3⟩]) = some [1, 2, 7, 7] := by decide
/-- `symmetrize_invariant` / `symmetrize_total` with the action they are used for: the voxel map of the 90° rotation about z on a
5×5×3 box is cyclic of order n = 4 on the whole grid and not the identity -/
example : (∀ x : V3 Int, (srcCoord (rzQuarter 1).transpose (⟨5, 5, 3⟩ : Shape).centre)^[4] x = x) ∧
    srcCoord (rzQuarter 1).transpose (⟨5, 5, 3⟩ : Shape).centre ⟨4, 2, 1⟩ ≠ (⟨4, 2, 1⟩ : V3 Int) ∧ ((4 : Nat) : Rat) ≠ 0 := by
  refine ⟨fun x => ?_, by decide, by norm_num⟩
  rw [← srcCoord_rz_iter, rzQuarter_four, srcCoord_one]
/-- … and an abstract exact cyclic action with n = 3 that is not the identity (no map rotation has this order exactly), over ℚ -/
example : (∀ x : Fin 3, (fun x => x + 1)^[3] x = x) ∧ ((3 : Nat) : Rat) ≠ 0 ∧ (fun x : Fin 3 => x + 1) 0 ≠ 0 := by
  refine ⟨by decide, by norm_num, by decide⟩
/-- n ∈ {1, 2, 4} meet `n * (4 / n) = 4`; the 4-fold voxel map on a 5×5×3 box moves voxel (4,2,1) to (2,0,1) -/
example : 1 * (4 / 1) = 4 ∧ 2 * (4 / 2) = 4 ∧ 4 * (4 / 4) = 4 ∧
    srcCoord (rzQuarter (4 / 4)).transpose (⟨5, 5, 3⟩ : Shape).centre ⟨4, 2, 1⟩ = (⟨2, 0, 1⟩ : V3 Int) := by decide
/-- `symExact_total`: a 4-fold symmetrisation of a 5×5×3 map (odd: no face condition) over ℚ, evaluated -/
example : ((4 : Nat) : Rat) ≠ 0 ∧ (4 = 4 → (⟨5, 5, 3⟩ : Shape).nx = (⟨5, 5, 3⟩ : Shape).ny) ∧
    (∀ p : V3 Int, (⟨5, 5, 3⟩ : Shape).inBox p = true →
      (((⟨5, 5, 3⟩ : Shape).nx % 2 = 0 ∧ p.x = 0) ∨ ((⟨5, 5, 3⟩ : Shape).ny % 2 = 0 ∧ p.y = 0)) → (fun q : V3 Int => ((q.x + 2 * q.y : Int) : Rat)) p = 0) := by
  refine ⟨by norm_num, fun _ => rfl, fun p _ h => ?_⟩
  rcases h with ⟨h, _⟩ | ⟨h, _⟩ <;> simp at h
/-- `place_active_any`: an odd 5×3×7 template, voxel at offset (1,0,-2) on, pose `zxz(0°, 0°, 90°)`, position (6.5, 7, 8.25), container 14³ -/
example : (⟨5, 3, 7⟩ : Shape).inBox ((⟨5, 3, 7⟩ : Shape).centre + ⟨1, 0, -2⟩) = true ∧
    (⟨5, 3, 7⟩ : Shape).inBox ((⟨5, 3, 7⟩ : Shape).centre + (cubeZxz 0 0 1).apply ⟨1, 0, -2⟩) = true ∧
    placeStart ⟨26, 28, 33⟩ 4 ⟨5, 3, 7⟩ = ⟨3, 5, 4⟩ ∧
    (⟨14, 14, 14⟩ : Shape).inBox (placeStart ⟨26, 28, 33⟩ 4 ⟨5, 3, 7⟩ + ((⟨5, 3, 7⟩ : Shape).centre + (cubeZxz 0 0 1).apply ⟨1, 0, -2⟩)) = true := by
  refine ⟨by decide, by decide, by decide +kernel, by decide +kernel⟩
/-- `shift_moves_stamp` / `placeMotl_active`: a row with angles (90°, −270°, 450°) — quarter turns of either sign, beyond one turn —
at (5.25, 6, 7.5) is a right-angle row with the orientation `zxz(1, 1, 1)`, and `object_id` is not a shift column -/
example : rowCube { (default : Particle Rat) with x := 5, shift_x := 1/4, y := 6, z := 7, shift_z := 1/2, phi := 90, theta := -270, psi := 450 }
      = some (cubeZxz 1 1 1) ∧
    (CryoCat.Field.object_id ≠ .shift_x ∧ CryoCat.Field.object_id ≠ .shift_y ∧ CryoCat.Field.object_id ≠ .shift_z) ∧
    quarterOf 45 = none ∧ quarterOf (1/2) = none := by
  refine ⟨by decide +kernel, ⟨by decide, by decide, by decide⟩, by decide +kernel, by decide +kernel⟩
/-- `crop_spec_clipped` / `extract_enforce_spec` / `pad_spec` evaluated: a window hanging over the upper x face; padding 5 → 8 -/
example : (cropF ⟨6, 6, 6⟩ (fun p : V3 Int => 100 * p.x + 10 * p.y + p.z) ⟨4, 1, 2⟩ ⟨4, 2, 2⟩).1 = ⟨2, 2, 2⟩ ∧
    (cropF ⟨6, 6, 6⟩ (fun p : V3 Int => 100 * p.x + 10 * p.y + p.z) ⟨4, 1, 2⟩ ⟨4, 2, 2⟩).2 ⟨1, 1, 0⟩ = 522 ∧
    extractEnforceF ⟨6, 6, 6⟩ (fun p : V3 Int => 100 * p.x + 10 * p.y + p.z) ⟨4, 1, 2⟩ ⟨4, 2, 2⟩ (-1) ⟨5, 2, 3⟩ = 523 ∧
    extractEnforceF ⟨6, 6, 6⟩ (fun p : V3 Int => 100 * p.x + 10 * p.y + p.z) ⟨4, 1, 2⟩ ⟨4, 2, 2⟩ (-1) ⟨3, 2, 3⟩ = -1 ∧
    padStart 8 5 = 2 ∧ padStart 8 6 = 1 ∧ padStart 5 5 = 0 := by decide
end examples

/-! ### regression witnesses (defect D14): the pre-repair angle `360 % (k·step)` is not the k-th multiple of the step -/
theorem old_symmetrize_angles_wrong :
    (List.range 4).map (fun k => 360 % ((k + 1) * (360 / 4))) ≠ (List.range 4).map (fun k => ((k + 1) * (360 / 4)) % 360) := by decide

end CryoCat.C14
