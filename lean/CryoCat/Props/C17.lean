import CryoCat.Lemmas.C17
import CryoCat.Lemmas.C17_Mdoc
import CryoCat.Lemmas.C17_ParseWF
import CryoCat.Lemmas.C17_ParseWF2
import CryoCat.Lemmas.C17_Table
import CryoCat.Model.C17_Load
import Mathlib.Tactic.Ring
import Mathlib.Algebra.Field.Basic
import CryoCat.Lemmas.C17_Ext
import CryoCat.Lemmas.C17_Code
import CryoCat.Lemmas.C17_Ties
import CryoCat.Lemmas.C17_Num
/-! C17 — property theorems (tilt-series metadata). Only theorems and non-vacuity examples. -/
namespace CryoCat.C17

/-! ### translator obligations: the constants re-extracted from the source are the documented ones -/

theorem anchors_ok : Gen.C17.anchorsOk = true := by decide

/-- `_read_mdoc` recognises `[ZValue` then `[FrameSet` -/
theorem section_prefixes_documented : Gen.C17.sectionPrefixes =
    [(['[', 'Z', 'V', 'a', 'l', 'u', 'e'], ['Z', 'V', 'a', 'l', 'u', 'e']),
     (['[', 'F', 'r', 'a', 'm', 'e', 'S', 'e', 't'], ['F', 'r', 'a', 'm', 'e', 'S', 'e', 't'])] := by decide

/-- `write` prints `key = value`, `[section = n]`, `[title]` -/
theorem write_formats_documented :
    Gen.C17.kvSep = [' ', '=', ' '] ∧ Gen.C17.secOpen = ['['] ∧ Gen.C17.secSep = [' ', '=', ' '] ∧ Gen.C17.secClose = [']'] ∧
    Gen.C17.titleOpen = ['['] ∧ Gen.C17.titleClose = [']'] := by decide

/-- `write(removed=False)` keeps exactly the rows whose flag is not set -/
theorem write_filter_documented : Gen.C17.writeKeepsWhenNotRemoved = true := by decide

/-- `write` does not print the cells pandas filled with NaN for images whose section lacked a key (fix C17-fix-1; before it the
file gained an invented `key = nan` line that was re-read as the TEXT "nan") -/
theorem write_skips_nan_documented : Gen.C17.writeSkipsNan = true := by decide

/-- `_parse_images` builds the one-row frame of every section with `dtype=object` (fix C17-fix-2): a key that first appears in a later
section keeps the type `_format_value` gave its value, as the keys of the first section always did (before the fix pandas inferred
float64 for such a column: `N = 8` was read as 8.0, and which section came first decided what a cell held) -/
theorem row_frames_object_documented : Gen.C17.rowFramesObjectTyped = true := by decide

/-- `sort_by_tilt` sorts ascending by the column the reader converts to float: "TiltAngle" -/
theorem sort_key_documented : Gen.C17.sortKey = ['T', 'i', 'l', 't', 'A', 'n', 'g', 'l', 'e'] ∧ Gen.C17.sortAscending = true ∧
    Gen.C17.tiltKey = Gen.C17.sortKey ∧ Gen.C17.removedKey = ['R', 'e', 'm', 'o', 'v', 'e', 'd'] := by decide

/-- mdoc dose = `ExposureDose` + `PriorRecordDose` -/
theorem dose_keys_documented : Gen.C17.exposureKey = ['E', 'x', 'p', 'o', 's', 'u', 'r', 'e', 'D', 'o', 's', 'e'] ∧
    Gen.C17.priorKey = ['P', 'r', 'i', 'o', 'r', 'R', 'e', 'c', 'o', 'r', 'd', 'D', 'o', 's', 'e'] ∧
    Gen.C17.doseIsExposurePlusPrior = true := by decide

/-- Å → µm is ×10⁻⁴ in both defocus readers, the mean divides by 2; `tlt_load` sorts by default -/
theorem defocus_constants_documented : Gen.C17.angToMicronGctf = 1 / 10000 ∧ Gen.C17.angToMicronCtffind = 1 / 10000 ∧
    Gen.C17.meanDivisor = 2 ∧ Gen.C17.tltSortsByDefault = true ∧ Gen.C17.emMinMax = true := by decide +kernel

/-- the STOPGAP wedge-list columns and their order (the `columns=[…]` list of the table), and WHAT is assigned to each column — a map
column ↦ value, listed here by column name: the order in which the code fills the columns is not observable and not pinned (moving
`wedge_list_df["cs"] = cs` above the voltage assignment is a harmless edit). Local variables are inlined by the translator: only
parameters and loader calls are named, so renaming a local does not change the value -/
theorem wedge_columns_documented : Gen.C17.wedgeColumns =
    ["tomo_num", "pixelsize", "tomo_x", "tomo_y", "tomo_z", "z_shift", "tilt_angle", "defocus", "exposure", "voltage", "amp_contrast", "cs"] ∧
    Gen.C17.wedgeAssignments = [
      ("['tomo_x','tomo_y','tomo_z']", "np.repeat(ioutils.dimensions_load(tomo_dim).values,ioutils.tlt_load(tlt_file).shape[0],axis=0)"),
      ("amp_contrast", "amp_contrast"), ("cs", "cs"),
      ("defocus", "ioutils.defocus_load(ctf_file,ctf_file_type)['defocus_mean'].values"), ("exposure", "ioutils.total_dose_load(dose_file)"),
      ("pixelsize", "pixel_size"), ("tilt_angle", "ioutils.tlt_load(tlt_file)"), ("tomo_num", "tomo_id"), ("voltage", "voltage"),
      ("z_shift", "ioutils.z_shift_load(z_shift).values[0][0]")] ∧
    Gen.C17.wedgeEmColumns = ["tomo_num", "min_angle", "max_angle"] := by decide

/-- both wedge-list functions write the STAR file from the COMPLETE table: the `if output_file is not None: Starfile.write([df], …)` block is
the last statement before `return df` and writes the very table that is returned (a write placed before the microscope constants are
assigned gives a file with NaN constants next to a correct return value) -/
theorem wedge_written_last_documented : Gen.C17.wedgeWrittenLast = true := by decide

/-- `Mdoc.write` opens with `open(out_path, "w")` and `_read_mdoc` with `open(file_path, "r")`: no `encoding=` / `errors=` argument that could
drop characters (µ, ü) between writing and re-reading -/
theorem mdoc_open_documented : Gen.C17.mdocOpenArgs = ["out_path,'w'", "file_path,'r'"] := by decide

/-! ### sorting by tilt changes only the order -/

/-- the table after `sort_by_tilt()` is a permutation of the table before -/
theorem sort_perm (m : Mdoc) : (sortByTilt false m).rows.Perm m.rows := by
  simp only [sortByTilt, sortRowsBy, Bool.false_and, Bool.false_eq_true, if_false]
  exact List.mergeSort_perm _ _

/-- `sort_by_tilt(reset_z_value=True)` assigns to the section-id column of the object, `self.imgs[self.section_id]` (fix 6061ac6; before
it the key was the literal "ZValue", which `resetKey` still records as the documented fallback) -/
theorem reset_key_documented : Gen.C17.resetKey = ['Z', 'V', 'a', 'l', 'u', 'e'] ∧ Gen.C17.resetUsesSectionId = true := by decide

/-- so the reset hits the section column of EVERY object, ZValue and FrameSet alike -/
theorem reset_hits_section (m : Mdoc) : resetHitsSection m = true := by
  simp [resetHitsSection, reset_key_documented.2]

/-- header entries, titles and the section id are untouched, in every case -/
theorem sort_keeps_info (m : Mdoc) (reset : Bool) :
    (sortByTilt reset m).info = m.info ∧ (sortByTilt reset m).titles = m.titles ∧ (sortByTilt reset m).sid = m.sid := by
  unfold sortByTilt resetForeign
  dsimp only
  split
  · split <;> exact ⟨rfl, rfl, rfl⟩
  · exact ⟨rfl, rfl, rfl⟩

/-- header entries, titles, section id and columns are untouched, with and without `reset_z_value`, for every object (the hypothesis the
hardening pass had to add while the source hard-coded the key "ZValue" is gone with fix 6061ac6: `reset_hits_section`) -/
theorem sort_keeps_header (m : Mdoc) (reset : Bool) :
    (sortByTilt reset m).info = m.info ∧ (sortByTilt reset m).titles = m.titles ∧
    (sortByTilt reset m).sid = m.sid ∧ (sortByTilt reset m).cols = m.cols := by
  have hc : (reset && !resetHitsSection m) = false := by simp [reset_hits_section m]
  simp only [sortByTilt, hc, Bool.false_eq_true, if_false, and_self]

/-- **regression witness of the behaviour before fix 6061ac6 (then open finding C17-K3)** — restated in round 5: the former version
carried the hypothesis `resetHitsSection m = false`, which `reset_hits_section` proves unsatisfiable for the repaired source (the theorem
was vacuous). It now speaks about `resetForeign`, the transcription of the OLD assignment `self.imgs["ZValue"] = range(n)`, applied to the
sorted table of ANY object without a data column of that name (e.g. every FrameSet mdoc): that assignment did NOT change "only the
order" — the table gains a column `ZValue`, every image gains one entry (which `write` prints as `ZValue = k` inside every section),
and the section values stay as they were. The repaired `sortByTilt true` never takes this path (`sort_keeps_header`); the revert of the
fix makes `reset_key_documented` fail. Non-vacuous: `fs₀` below meets the hypothesis. -/
theorem sort_reset_foreign_adds_entry (m : Mdoc) (hk : Gen.C17.resetKey ∉ m.cols) :
    (resetForeign { m with rows := (sortByTilt false m).rows }).cols = m.cols ++ [Gen.C17.resetKey] ∧
    (resetForeign { m with rows := (sortByTilt false m).rows }).cols ≠ m.cols ∧
    (resetForeign { m with rows := (sortByTilt false m).rows }).rows.map (·.z) = (sortByTilt false m).rows.map (·.z) ∧
    (resetForeign { m with rows := (sortByTilt false m).rows }).rows.map (fun r => r.cells.length)
      = (sortByTilt false m).rows.map (fun r => r.cells.length + 1) := by
  have hi : ¬ (List.idxOf Gen.C17.resetKey m.cols < m.cols.length) := by
    intro h; exact hk (List.idxOf_lt_length_iff.mp h)
  have hmap : ∀ (rows : List Row) (n : Nat),
      (List.map (fun p : Row × Nat => ({ p.1 with cells := p.1.cells ++ [Val.int (Nat.toDigits 10 p.2)] } : Row)) (rows.zipIdx n)).map (·.z) = rows.map (·.z) ∧
      (List.map (fun p : Row × Nat => ({ p.1 with cells := p.1.cells ++ [Val.int (Nat.toDigits 10 p.2)] } : Row)) (rows.zipIdx n)).map (fun r => r.cells.length)
        = rows.map (fun r => r.cells.length + 1) := by
    intro rows
    induction rows with
    | nil => intro n; exact ⟨rfl, rfl⟩
    | cons r rs ih => intro n; simp [List.zipIdx_cons, ih (n + 1)]
  simp only [resetForeign, hi, if_false]
  refine ⟨trivial, ?_, (hmap _ 0).1, (hmap _ 0).2⟩
  intro h
  have := congrArg List.length h
  simp at this

example : Gen.C17.resetKey ∉ ({ info := [], titles := [], sid := "FrameSet".toList, cols := ["TiltAngle".toList], rows := [] } : Mdoc).cols := by decide

/-- what the old assignment did, on a concrete FrameSet object, independent of the flag: `resetForeign` (the transcription of
`self.imgs["ZValue"] = range(n)`) appends a column and leaves the FrameSet values alone; the repaired `sortByTilt true` renumbers them -/
def fs₀ : Mdoc :=
  { info := [], titles := [], sid := "FrameSet".toList, cols := ["TiltAngle".toList],
    rows := [{ z := "0".toList, cells := [Val.tilt false "3".toList "0".toList], removed := false },
             { z := "0".toList, cells := [Val.tilt true "3".toList "0".toList], removed := false }] }
example : (resetForeign fs₀).cols = ["TiltAngle".toList, "ZValue".toList] ∧ (resetForeign fs₀).rows.map (·.z) = ["0".toList, "0".toList] := by decide
example : (sortByTilt true fs₀).cols = ["TiltAngle".toList] ∧ (sortByTilt true fs₀).sid = "FrameSet".toList :=
  ⟨(sort_keeps_header fs₀ true).2.2.2, (sort_keeps_header fs₀ true).2.2.1⟩
/-- (the old-source reading of the flag) -/
example : Gen.C17.resetUsesSectionId = false →
    resetHitsSection { info := [], titles := [], sid := "FrameSet".toList, cols := ["TiltAngle".toList], rows := [] } = false := by decide
example : resetHitsSection { info := [], titles := [], sid := "ZValue".toList, cols := ["TiltAngle".toList], rows := [] } = true := by decide

/-- … and it is ascending in the tilt angle -/
theorem sort_sorted (m : Mdoc) :
    (sortByTilt false m).rows.Pairwise
      (fun a b => Row.tiltAt (m.cols.idxOf Gen.C17.sortKey) a ≤ Row.tiltAt (m.cols.idxOf Gen.C17.sortKey) b) := by
  have h := List.pairwise_mergeSort
    (le := fun (a b : Row) => decide (Row.tiltAt (m.cols.idxOf Gen.C17.sortKey) a ≤ Row.tiltAt (m.cols.idxOf Gen.C17.sortKey) b))
    (fun a b c hab hbc => by
      simp only [decide_eq_true_eq] at *
      exact Rat.le_trans hab hbc)
    (fun a b => by
      simp only [Bool.or_eq_true, decide_eq_true_eq]
      exact Rat.le_total) m.rows
  simp only [sortByTilt, sortRowsBy, sort_key_documented.2.1, if_true, Bool.false_and, Bool.false_eq_true, if_false]
  exact h.imp (fun hab => by simpa using hab)

/-! ### equal tilt angles: every ascending arrangement is a correct result of the sort (round 5, item 1) -/

/-- **sorted_perm_unique_up_to_ties.** `DataFrame.sort_values` (quicksort) promises an ascending table, not the order of images with EQUAL
tilt angles, and the statement asks no more ("change only the order"). Let `rows'` be ANY rearrangement of the table that is ascending in
the tilt angle. Then, compared with the model's stable sort: (1) the sequence of tilt angles is the same; (2) for every angle, the
images carrying it are the same up to their order — and so is anything computed image by image from them (`f`: cells, dose, flag);
(3) if no two images share an angle, `rows'` IS the model's result. -/
theorem sorted_perm_unique_up_to_ties (m : Mdoc) (rows' : List Row) (hp : rows'.Perm m.rows)
    (hs : rows'.Pairwise (fun a b => Row.tiltAt (m.cols.idxOf Gen.C17.sortKey) a ≤ Row.tiltAt (m.cols.idxOf Gen.C17.sortKey) b)) :
    rows'.map (Row.tiltAt (m.cols.idxOf Gen.C17.sortKey)) = (sortByTilt false m).rows.map (Row.tiltAt (m.cols.idxOf Gen.C17.sortKey)) ∧
    (∀ (k : Rat) {β : Type} (f : Row → β),
      ((rows'.filter (fun r => Row.tiltAt (m.cols.idxOf Gen.C17.sortKey) r == k)).map f).Perm
        (((sortByTilt false m).rows.filter (fun r => Row.tiltAt (m.cols.idxOf Gen.C17.sortKey) r == k)).map f)) ∧
    ((∀ a ∈ m.rows, ∀ b ∈ m.rows, Row.tiltAt (m.cols.idxOf Gen.C17.sortKey) a = Row.tiltAt (m.cols.idxOf Gen.C17.sortKey) b → a = b) →
      rows' = (sortByTilt false m).rows) := by
  obtain ⟨h1, h2, h3⟩ := sorted_perm_unique_up_to_ties_gen (Row.tiltAt (m.cols.idxOf Gen.C17.sortKey)) rows' (sortByTilt false m).rows
    (hp.trans (sort_perm m).symm) hs (sort_sorted m)
  exact ⟨h1, fun k _ f => (h2 k).map f, fun hinj => h3 (fun a ha b hb => hinj a (hp.subset ha) b (hp.subset hb))⟩

/-- **the arrangement checker is sound and complete, and an accepted arrangement is a correct sort.** When the driver is told the
arrangement the implementation chose (`order`: for every row of the new table its position in the old one), `sortByTiltAs` accepts it
exactly when it names every position once and the rows in that order are ascending; the table it continues from is then a permutation of
the old one, ascending in the tilt angle — to which `sorted_perm_unique_up_to_ties` applies; header, titles, section id, columns untouched.
Third conjunct (round 7): with `reset_z_value=True` the accepted arrangement is renumbered 0, 1, … and nothing else in a row changes -/
theorem sort_as_spec (m : Mdoc) (o : List Nat) (reset : Bool) :
    ((sortByTiltAs (some o) reset m).isSome ↔
      (o.Perm (List.range m.rows.length) ∧
       (pick m.rows o).Pairwise (fun a b => Row.tiltAt (m.cols.idxOf Gen.C17.sortKey) a ≤ Row.tiltAt (m.cols.idxOf Gen.C17.sortKey) b))) ∧
    (∀ m', sortByTiltAs (some o) false m = some m' →
      m'.rows = pick m.rows o ∧ m'.rows.Perm m.rows ∧ m'.info = m.info ∧ m'.titles = m.titles ∧ m'.sid = m.sid ∧ m'.cols = m.cols) ∧
    (∀ m', sortByTiltAs (some o) true m = some m' →
      m'.rows = renumber (pick m.rows o) ∧ m'.rows.map (fun r => (r.cells, r.removed)) = (pick m.rows o).map (fun r => (r.cells, r.removed)) ∧
      (pick m.rows o).Perm m.rows ∧ m'.info = m.info ∧ m'.titles = m.titles ∧ m'.sid = m.sid ∧ m'.cols = m.cols) := by
  have hk : ∀ a b : Row, (keyLe (Row.tiltAt (m.cols.idxOf Gen.C17.sortKey)) Gen.C17.sortAscending a b = true) ↔
      Row.tiltAt (m.cols.idxOf Gen.C17.sortKey) a ≤ Row.tiltAt (m.cols.idxOf Gen.C17.sortKey) b := by
    intro a b; simp [keyLe, sort_key_documented.2.1]
  have hiff := arrangeOk_iff (Row.tiltAt (m.cols.idxOf Gen.C17.sortKey)) Gen.C17.sortAscending m.rows o
  constructor
  · simp only [sortByTiltAs]
    split
    · rename_i h
      simp only [Option.isSome_some, true_iff]
      exact ⟨(hiff.mp h).1, (hiff.mp h).2.imp (fun hab => (hk _ _).mp hab)⟩
    · rename_i h
      simp only [Option.isSome_none, Bool.false_eq_true, false_iff]
      intro hc
      exact h (hiff.mpr ⟨hc.1, hc.2.imp (fun hab => (hk _ _).mpr hab)⟩)
  refine ⟨?_, ?_⟩
  · intro m' hm
    simp only [sortByTiltAs] at hm
    split at hm
    · rename_i h
      simp only [finishSort, Bool.false_and, Bool.false_eq_true, if_false, Option.some.injEq] at hm
      subst hm
      exact ⟨rfl, pick_perm m.rows o (hiff.mp h).1, rfl, rfl, rfl, rfl⟩
    · cases hm
  · intro m' hm
    simp only [sortByTiltAs] at hm
    split at hm
    · rename_i h
      have hs := reset_hits_section m
      simp only [finishSort, hs, Bool.not_true, Bool.and_false, Bool.false_eq_true, if_false, if_true, Option.some.injEq] at hm
      subst hm
      refine ⟨rfl, ?_, pick_perm m.rows o (hiff.mp h).1, rfl, rfl, rfl, rfl⟩
      simp only [renumber, List.map_map]
      generalize pick m.rows o = rows
      have : ∀ n, List.map ((fun r : Row => (r.cells, r.removed)) ∘ fun p : Row × Nat => { p.1 with z := Nat.toDigits 10 p.2 }) (rows.zipIdx n)
          = List.map (fun r => (r.cells, r.removed)) rows := by
        induction rows with
        | nil => intro n; rfl
        | cons r rs ih => intro n; simp [List.zipIdx_cons, ih]
      exact this 0
    · cases hm

/-- without an arrangement `sortByTiltAs` is `sortByTilt`; and `finishSort` is what `sortByTilt` does after sorting -/
theorem sort_as_none (m : Mdoc) (reset : Bool) :
    sortByTiltAs none reset m = some (sortByTilt reset m) ∧
    sortByTilt reset m = finishSort reset m (sortRowsBy (Row.tiltAt (m.cols.idxOf Gen.C17.sortKey)) Gen.C17.sortAscending m.rows) := ⟨rfl, rfl⟩

/-- two images at 3° (one spelled `3.0`, one `3`): both arrangements are accepted, a descending one and a non-permutation are not -/
def tie₀ : Mdoc :=
  { info := [], titles := [], sid := "ZValue".toList, cols := ["TiltAngle".toList, "N".toList],
    rows := [{ z := "0".toList, cells := [Val.tilt false "3".toList "0".toList, Val.text "a".toList], removed := false },
             { z := "1".toList, cells := [Val.tilt true "3".toList "0".toList, Val.text "b".toList], removed := false },
             { z := "2".toList, cells := [Val.tilt false "3".toList "0".toList, Val.text "c".toList], removed := false }] }
example : (sortByTiltAs (some [1, 0, 2]) false tie₀).isSome = true ∧ (sortByTiltAs (some [1, 2, 0]) false tie₀).isSome = true ∧
    (sortByTiltAs (some [0, 1, 2]) false tie₀).isSome = false ∧ (sortByTiltAs (some [1, 1, 2]) false tie₀).isSome = false ∧
    hasTiltTies tie₀ = true := by decide +kernel
example : (sortByTiltAs (some [1, 2, 0]) false tie₀).map (fun m => m.rows.map (·.z)) = some ["1".toList, "2".toList, "0".toList] := by decide +kernel

/-- `reset_z_value=True` renumbers the section values and changes nothing else in a row, for every object (ZValue and FrameSet) -/
theorem sort_reset_cells (m : Mdoc) :
    (sortByTilt true m).rows.map (fun r => (r.cells, r.removed)) = (sortByTilt false m).rows.map (fun r => (r.cells, r.removed)) := by
  have hs := reset_hits_section m
  simp only [sortByTilt, hs, Bool.not_true, Bool.and_false, Bool.false_and, Bool.false_eq_true, if_false, renumber, if_true, List.map_map]
  generalize sortRowsBy _ _ _ = rows
  have : ∀ n, List.map ((fun r : Row => (r.cells, r.removed)) ∘ fun p : Row × Nat => { p.1 with z := Nat.toDigits 10 p.2 }) (rows.zipIdx n)
      = List.map (fun r => (r.cells, r.removed)) rows := by
    induction rows with
    | nil => intro n; rfl
    | cons r rs ih => intro n; simp [List.zipIdx_cons, ih]
  exact this 0

/-! ### removing images changes only the removed flag, at exactly the addressed rows -/

/-- **kept-index mapping**: the `j`-th candidate position is the position of the `j`-th kept image
(`kept_only=True`), resp. of the `j`-th image (`kept_only=False`), in the current table order -/
theorem kept_index_mapping (rows : List Row) (keptOnly : Bool) (j p : Nat)
    (h : (candidates keptOnly rows)[j]? = some p) :
    rows[p]? = (rows.filter (fun r => !keptOnly || !r.removed))[j]? ∧ (rows[p]?).isSome := by
  simp only [candidates, List.getElem?_map] at h
  cases hq : (rows.zipIdx.filter (fun q => !keptOnly || !q.1.removed))[j]? with
  | none => simp [hq] at h
  | some q =>
    simp [hq] at h
    have hmem : q ∈ rows.zipIdx.filter (fun q => !keptOnly || !q.1.removed) := List.mem_of_getElem? hq
    have hq2 : q ∈ rows.zipIdx := (List.mem_filter.1 hmem).1
    have hget : rows[q.2]? = some q.1 := List.mk_mem_zipIdx_iff_getElem?.1 (by cases q; exact hq2)
    have hmap : (rows.zipIdx.filter (fun q => !keptOnly || !q.1.removed)).map Prod.fst
        = rows.filter (fun r => !keptOnly || !r.removed) := by
      have := List.filter_map (f := Prod.fst) (p := fun r : Row => !keptOnly || !r.removed) (l := rows.zipIdx)
      rw [List.zipIdx_map_fst] at this
      rw [this]; rfl
    have : (rows.filter (fun r => !keptOnly || !r.removed))[j]? = some q.1 := by
      rw [← hmap, List.getElem?_map, hq]; rfl
    subst h
    rw [this, hget]; exact ⟨rfl, rfl⟩

/-- with `kept_only=False` the candidates are simply all positions -/
example : candidates false [⟨['0'], [], true⟩, ⟨['1'], [], false⟩] = [0, 1] := by decide
example : candidates true [⟨['0'], [], true⟩, ⟨['1'], [], false⟩, ⟨['2'], [], false⟩] = [1, 2] := by decide

/-- **only the flag changes**: header, columns, number and order of rows, section values and all
cells are as before; the flag of row `p` is set iff it was set or `p` is one of the addressed positions -/
theorem remove_flags_only (m m' : Mdoc) (idxs : List Int) (keptOnly : Bool) (h : removeImages idxs keptOnly m = some m') :
    m'.info = m.info ∧ m'.titles = m.titles ∧ m'.sid = m.sid ∧ m'.cols = m.cols ∧
    m'.rows.map (fun r => (r.z, r.cells)) = m.rows.map (fun r => (r.z, r.cells)) ∧
    ∃ ts, targets idxs keptOnly m.rows = some ts ∧
      ∀ (p : Nat) (r : Row), m.rows[p]? = some r → m'.rows[p]? = some { r with removed := r.removed || ts.contains p } := by
  unfold removeImages at h
  cases ht : targets idxs keptOnly m.rows with
  | none => simp [ht] at h
  | some ts =>
    simp only [ht, Option.some.injEq] at h
    subst h
    refine ⟨rfl, rfl, rfl, rfl, ?_, ts, rfl, ?_⟩
    · simp only [List.map_map]
      have : ∀ n, List.map ((fun r : Row => (r.z, r.cells)) ∘ fun p : Row × Nat => if ts.contains p.2 = true then { p.1 with removed := true } else p.1) (m.rows.zipIdx n)
          = List.map (fun r => (r.z, r.cells)) m.rows := by
        generalize m.rows = rows
        induction rows with
        | nil => intro n; rfl
        | cons r rs ih =>
          intro n
          simp only [List.zipIdx_cons, List.map_cons, ih, Function.comp]
          by_cases hc : n ∈ ts <;> simp [hc]
      exact this 0
    · intro p r hp
      simp only [List.getElem?_map, List.getElem?_zipIdx, hp, Option.map_some, Nat.zero_add]
      by_cases hc : p ∈ ts <;> simp [hc]

/-- every addressed position comes from the candidate list through Python indexing (negative
indices count from the end; an index out of range makes the call raise = `none`) -/
theorem targets_spec (rows : List Row) (idxs : List Int) (keptOnly : Bool) (ts : List Nat)
    (h : targets idxs keptOnly rows = some ts) :
    ts.length = idxs.length ∧ ∀ (n : Nat) (i : Int), idxs[n]? = some i →
      ∃ j p, pyIndex (candidates keptOnly rows).length i = some j ∧ (candidates keptOnly rows)[j]? = some p ∧ ts[n]? = some p := by
  obtain ⟨hlen, hget⟩ := mapM_some_spec _ idxs ts h
  refine ⟨hlen, ?_⟩
  intro n i hi
  obtain ⟨p, hp, hf⟩ := hget n i hi
  cases hj : pyIndex (candidates keptOnly rows).length i with
  | none => simp [hj] at hf
  | some j => exact ⟨j, p, rfl, by simpa [hj] using hf, hp⟩

example : pyIndex 5 (-1) = some 4 ∧ pyIndex 5 4 = some 4 ∧ pyIndex 5 5 = none ∧ pyIndex 5 (-6) = none := by decide

/-- **the written file omits exactly the removed images**: `write(removed=False)` prints what
`write(removed=True)` prints for the object restricted to its kept images -/
theorem write_omits_removed (m : Mdoc) : printMdoc false m = printMdoc true { m with rows := keptImages m } := by
  have h1 : ∀ r, written false r = !r.removed := fun r => by simp [written, write_filter_documented]
  have h2 : ∀ r, written true r = true := fun r => by simp [written]
  simp only [printMdoc, keptImages, List.filter_filter]
  congr 2

/-- (definitional anchor: unfolds `written true`; not a clause of the statement by itself) `write(removed=True)` prints every image -/
theorem write_all (m : Mdoc) : (m.rows.filter (written true)) = m.rows := by
  simp [written]

/-! ### loaders -/

/-- `tlt_load`: the returned angles are the file's numbers (a permutation) … -/
theorem tlt_perm {α : Type} (le : α → α → Bool) (s : Bool) (xs : List α) : (tltLoad le s xs).Perm xs := by
  unfold tltLoad; split
  · exact List.mergeSort_perm _ _
  · exact List.Perm.refl _

/-- … ascending (default `sort_angles=True`), for any total transitive order -/
theorem tlt_sorted {α : Type} (le : α → α → Bool) (htr : ∀ a b c, le a b = true → le b c = true → le a c = true)
    (htot : ∀ a b, (le a b || le b a) = true) (xs : List α) :
    (tltLoad le Gen.C17.tltSortsByDefault xs).Pairwise (fun a b => le a b = true) := by
  simp only [tltLoad, defocus_constants_documented.2.2.2.1, if_true]
  exact List.pairwise_mergeSort htr htot xs

/-- (definitional anchor, `rfl`: `doseLoad` IS the identity — that the real loader returns the file's numbers in file order is carried by
the correspondence run, clause `dose-values`, not by this line) dose files are returned in file order -/
theorem dose_file_order {α : Type} (xs : List α) : doseLoad xs = xs := rfl

/-- **defocus units and mean** over any field: with the factor 10⁻⁴ and divisor 2 the reader returns
U/10⁴, V/10⁴ and the mean (U+V)/2 of the converted values; angle and phase are passed through -/
theorem defocus_units {K : Type} [Field K] (u v a p : K) :
    (defocusRow ((1 : K) / 10000) 2 u v a p).defocus1 = u / 10000 ∧
    (defocusRow ((1 : K) / 10000) 2 u v a p).defocus2 = v / 10000 ∧
    (defocusRow ((1 : K) / 10000) 2 u v a p).astigmatism = a ∧
    (defocusRow ((1 : K) / 10000) 2 u v a p).phaseShift = p ∧
    (defocusRow ((1 : K) / 10000) 2 u v a p).defocusMean = (u / 10000 + v / 10000) / 2 ∧
    (defocusRow ((1 : K) / 10000) 2 u v a p).defocusMean = (u + v) / 2 / 10000 := by
  refine ⟨?_, ?_, rfl, rfl, ?_, ?_⟩ <;> simp only [defocusRow] <;> ring

/-- the readers apply `defocusRow` to every row, in order, with the source's constants -/
theorem gctf_rows {K : Type} [Field K] (f d : K) (rows : List (K × K × K × Option K)) (i : Nat) (r : K × K × K × Option K)
    (h : rows[i]? = some r) : (gctfRead f d rows)[i]? = some (defocusRow f d r.1 r.2.1 r.2.2.1 (r.2.2.2.getD 0)) := by
  simp [gctfRead, h]

theorem ctffind_rows {K : Type} [Field K] (f d : K) (rows : List (K × K × K × K)) (i : Nat) (r : K × K × K × K)
    (h : rows[i]? = some r) : (ctffindRead f d rows)[i]? = some (defocusRow f d r.1 r.2.1 r.2.2.1 r.2.2.2) := by
  simp [ctffindRead, h]

/-! ### wedge lists -/

/-- `create_wedge_list_sg`: one row per tilt; row `i` pairs the i-th tilt angle with the i-th defocus and
the i-th exposure (when given — and then there are exactly as many as tilts) and with the tomogram's
number, dimensions, z-shift, the pixel size and the microscope constants -/
theorem wedge_single_rows {α : Type} (c : Consts α) (t : Tomo α) (rows : List (WedgeRow α)) (h : wedgeSingle c t = some rows) :
    rows.length = t.tilts.length ∧
    (∀ d, t.defocus = some d → d.length = t.tilts.length) ∧ (∀ d, t.dose = some d → d.length = t.tilts.length) ∧
    ∀ (i : Nat) (tilt : α), t.tilts[i]? = some tilt →
      rows[i]? = some (mkWedgeRow c t tilt (optAt t.defocus i) (optAt t.dose i)) := by
  unfold wedgeSingle at h
  by_cases hc : consistent t = true
  · simp only [hc, if_true, Option.some.injEq] at h
    subst h
    refine ⟨by simp, ?_, ?_, ?_⟩
    · intro d hd
      simp only [consistent, hd, Bool.and_eq_true, beq_iff_eq] at hc
      exact hc.1
    · intro d hd
      simp only [consistent, hd, Bool.and_eq_true, beq_iff_eq] at hc
      exact hc.2
    · intro i tilt hi
      simp [List.getElem?_map, List.getElem?_zipIdx, hi]
  · simp [hc] at h

/-- a row of the single list carries a defocus / exposure value exactly when a CTF / dose input was given -/
theorem wedge_single_optional {α : Type} (t : Tomo α) (d : List α) (i : Nat) (hd : d.length = t.tilts.length) (hi : i < t.tilts.length) :
    optAt (some d) i = some (d[i]'(by omega)) := by
  simp [optAt, List.getElem?_eq_getElem (by omega : i < d.length)]

theorem wedgeBatch_cons {α : Type} (c : Consts α) (t : Tomo α) (ts : List (Tomo α)) :
    wedgeBatch c (t :: ts) = match wedgeSingle c t, wedgeBatch c ts with
      | some r, some rs => some (r ++ rs)
      | _, _ => none := by
  simp only [wedgeBatch, List.mapM_cons]
  cases wedgeSingle c t <;> cases List.mapM (wedgeSingle c) ts <;> simp

/-- **`create_wedge_list_sg_batch`: one row per tilt per tomogram**, tomogram blocks in processing order;
the `i`-th row of the `k`-th block is the single-tomogram row above -/
theorem wedge_rows {α : Type} (c : Consts α) :
    ∀ (ts : List (Tomo α)) (rows : List (WedgeRow α)), wedgeBatch c ts = some rows →
      rows.length = (ts.map (fun t => t.tilts.length)).sum ∧
      ∀ (k : Nat) (t : Tomo α) (i : Nat) (tilt : α), ts[k]? = some t → t.tilts[i]? = some tilt →
        rows[((ts.take k).map (fun t => t.tilts.length)).sum + i]? = some (mkWedgeRow c t tilt (optAt t.defocus i) (optAt t.dose i))
  | [], rows, h => by
    simp [wedgeBatch] at h; subst h; simp
  | t :: ts, rows, h => by
    rw [wedgeBatch_cons] at h
    cases hs : wedgeSingle c t with
    | none => simp [hs] at h
    | some r =>
      cases hb : wedgeBatch c ts with
      | none => simp [hs, hb] at h
      | some rs =>
        simp only [hs, hb, Option.some.injEq] at h
        subst h
        obtain ⟨hlen, _, _, hrow⟩ := wedge_single_rows c t r hs
        obtain ⟨ihlen, ihrow⟩ := wedge_rows c ts rs hb
        refine ⟨by simp [hlen, ihlen], ?_⟩
        intro k t' i tilt hk hi
        cases k with
        | zero =>
          simp at hk; subst hk
          have hi' : i < r.length := by
            rw [hlen]; exact (List.getElem?_eq_some_iff.1 hi).1
          simp only [List.take_zero, List.map_nil, List.sum_nil, Nat.zero_add]
          rw [List.getElem?_append_left hi']
          exact hrow i tilt hi
        | succ k =>
          simp at hk
          simp only [List.take_succ_cons, List.map_cons, List.sum_cons]
          rw [List.getElem?_append_right (by omega)]
          have : t.tilts.length + ((ts.take k).map (fun t => t.tilts.length)).sum + i - r.length
              = ((ts.take k).map (fun t => t.tilts.length)).sum + i := by omega
          rw [this]
          exact ihrow k t' i tilt hk hi

/-- the inconsistent case is refused (ValueError of `check_data_consistency`) -/
example : wedgeSingle (⟨1, 300, 7, 27⟩ : Consts Int) { id := 3, dimX := 1, dimY := 2, dimZ := 3, zShift := 0, tilts := [1, 2], defocus := some [5], dose := none } = none := by decide
example : (wedgeBatch (⟨1, 300, 7, 27⟩ : Consts Int)
    [{ id := 3, dimX := 1, dimY := 2, dimZ := 3, zShift := 0, tilts := [1, 2], defocus := some [5, 6], dose := none },
     { id := 9, dimX := 4, dimY := 5, dimZ := 6, zShift := 8, tilts := [7], defocus := some [1], dose := none }]).map (·.map (fun r => (r.tomoNum, r.tomoX, r.zShift, r.tiltAngle, r.defocus)))
    = some [(3, 1, 0, 1, some 5), (3, 1, 0, 2, some 6), (9, 4, 8, 7, some 1)] := by decide

/-- the returned columns: the documented list, without `defocus` / `exposure` when no such input was given -/
theorem wedge_header_full : wedgeHeader true true =
    ["tomo_num", "pixelsize", "tomo_x", "tomo_y", "tomo_z", "z_shift", "tilt_angle", "defocus", "exposure", "voltage", "amp_contrast", "cs"] ∧
    wedgeHeader false false = ["tomo_num", "pixelsize", "tomo_x", "tomo_y", "tomo_z", "z_shift", "tilt_angle", "voltage", "amp_contrast", "cs"] := by decide

/-- **EM wedge list**: per tomogram the minimum and the maximum tilt — members of the tilt list that bound all of it -/
theorem wedge_em_minmax {α : Type} (le : α → α → Bool) (htr : ∀ a b c, le a b = true → le b c = true → le a c = true)
    (htot : ∀ a b, (le a b || le b a) = true) (ts : List (Int × List α)) (out : List (Int × α × α)) (h : wedgeEm le ts = some out) :
    out.length = ts.length ∧ ∀ (k : Nat) (t : Int × List α), ts[k]? = some t →
      ∃ lo hi, out[k]? = some (t.1, lo, hi) ∧ lo ∈ t.2 ∧ hi ∈ t.2 ∧ ∀ x ∈ t.2, le lo x = true ∧ le x hi = true := by
  obtain ⟨hlen, hget⟩ := mapM_some_spec _ ts out h
  refine ⟨hlen, ?_⟩
  intro k t hk
  obtain ⟨b, hb, hf⟩ := hget k t hk
  cases hxs : t.2 with
  | nil => simp [hxs, minOf, maxOf] at hf
  | cons x xs =>
    simp only [hxs, minOf, maxOf, Option.some.injEq] at hf
    subst hf
    obtain ⟨m1, m2, m3⟩ := foldl_min_spec le htr htot xs x
    obtain ⟨n1, n2, n3⟩ := foldl_min_spec (fun a b => le b a) (fun a b c hab hbc => htr c b a hbc hab)
      (fun a b => by have := htot b a; simpa [Bool.or_comm] using this) xs x
    refine ⟨_, _, hb, ?_, ?_, ?_⟩
    · rcases m1 with h | h
      · rw [h]; exact List.mem_cons_self
      · exact List.mem_cons_of_mem _ h
    · rcases n1 with h | h
      · rw [h]; exact List.mem_cons_self
      · exact List.mem_cons_of_mem _ h
    · intro y hy
      rcases List.mem_cons.1 hy with h | h
      · subst h; exact ⟨m2, n2⟩
      · exact ⟨m3 y h, n3 y h⟩

example : wedgeEm (fun (a b : Int) => decide (a ≤ b)) [(7, [3, -5, 9]), (2, [4])] = some [(7, -5, 9), (2, 4, 4)] := by decide

/-! ### mdoc as a dose / tilt source -/

/-- `colIdx` finds the position of the named column -/
theorem colIdx_spec (m : Mdoc) (k : Str) (i : Nat) (h : colIdx m k = some i) : m.cols[i]? = some k := by
  unfold colIdx at h
  by_cases hlt : m.cols.idxOf k < m.cols.length
  · simp only [hlt, if_true, Option.some.injEq] at h
    subst h
    rw [List.getElem?_eq_getElem hlt]
    exact congrArg some (List.getElem_idxOf hlt)
  · simp [hlt] at h

/-- **mdoc dose = prior + exposure dose**, per image, in ascending-tilt order (the order `tlt_load` returns
the angles of the same file in): entry `i` is `ExposureDose + PriorRecordDose` of the `i`-th image of the
sorted table, both read as numbers -/
theorem mdoc_dose (m : Mdoc) (ds : List Rat) (h : mdocDose m = some ds) :
    ∃ e p, m.cols[e]? = some Gen.C17.exposureKey ∧ m.cols[p]? = some Gen.C17.priorKey ∧
      ds.length = m.rows.length ∧
      ∀ (i : Nat) (r : Row), (sortByTilt false m).rows[i]? = some r →
        ∃ a b, r.numAt e = some a ∧ r.numAt p = some b ∧ ds[i]? = some (a + b) := by
  unfold mdocDose at h
  cases he : colIdx m Gen.C17.exposureKey with
  | none => simp [he] at h
  | some e =>
    cases hp : colIdx m Gen.C17.priorKey with
    | none => simp [he, hp] at h
    | some p =>
      simp only [he, hp] at h
      obtain ⟨hlen, hget⟩ := mapM_some_spec _ _ ds h
      refine ⟨e, p, colIdx_spec m _ e he, colIdx_spec m _ p hp, ?_, ?_⟩
      · rw [hlen]; exact (sort_perm m).length_eq
      · intro i r hr
        obtain ⟨d, hd, hf⟩ := hget i r hr
        cases ha : r.numAt e with
        | none => simp [ha] at hf
        | some a =>
          cases hb : r.numAt p with
          | none => simp [ha, hb] at hf
          | some b =>
            simp only [ha, hb, dose_keys_documented.2.2, if_true, Option.some.injEq] at hf
            exact ⟨a, b, rfl, rfl, by rw [hd, hf]⟩

/-- `tlt_load(<mdoc>)`: the TiltAngle column, ascending -/
theorem mdoc_tilts_sorted (m : Mdoc) : (mdocTilts true m).Pairwise (· ≤ ·) ∧ (mdocTilts true m).Perm (mdocTilts false m) := by
  constructor
  · have h := List.pairwise_mergeSort (le := fun (a b : Rat) => decide (a ≤ b))
      (fun a b c hab hbc => by simp only [decide_eq_true_eq] at *; exact Rat.le_trans hab hbc)
      (fun a b => by simp only [Bool.or_eq_true, decide_eq_true_eq]; exact Rat.le_total)
      (m.rows.map (Row.tiltAt (m.cols.idxOf Gen.C17.tiltKey)))
    simp only [mdocTilts, if_true]
    exact h.imp (fun hab => by simpa using hab)
  · simp only [mdocTilts, if_true]
    exact List.mergeSort_perm _ _

/-! ### mdoc round trip -/

/-- **which values round trip**: an int, a text the reader itself would produce, and a float outside the
exponent-form class (`stableVal`) is typed back from its printed form as exactly itself -/
theorem stable_of_plain (v : Val) (h : stableVal v = true) : classify v.fmt = v := classify_fmt v h

/-- a TiltAngle cell (float64 column; negative angles pass through the text branch of `_format_value`) -/
theorem tilt_cell_roundtrip (v : Val) (h : stableTilt v = true) : toTilt (classify v.fmt) = some v := toTilt_classify_fmt v h

/-- **the class that does not round trip, exactly** (known finding C17-K1): every canonical float with
`x ≥ 1e16` or `0 < x < 1e-4` is written in exponent form and comes back as that text, not as a float -/
theorem unstable_class_reads_as_text (i f : Str) (hi : canonI i = true) (hf : canonF f = true) (he : expClass i f = true) :
    classify (Val.flt i f).fmt = .text (pyRepr i f) ∧ classify (Val.flt i f).fmt ≠ .flt i f := by
  have := exp_reads_as_text i f hi hf he
  exact ⟨this, by simp only [Val.fmt]; rw [this]; intro e; cases e⟩

/-- closed witness: `0.00001` is read as the float 1e-05, written as `1e-05`, re-read as the text `1e-05` -/
theorem small_float_not_stable :
    classify ['0', '.', '0', '0', '0', '0', '1'] = .flt ['0'] ['0', '0', '0', '0', '1'] ∧
    classify (classify ['0', '.', '0', '0', '0', '0', '1']).fmt = .text ['1', 'e', '-', '0', '5'] := by decide

/-- a written `key = value` line reads back as that key and that value -/
theorem kv_line_roundtrip (k : Str) (v : Val) (hk : goodKey k = true) (hv : stableVal v = true) :
    parseKV (printKV k v) = some (k, v) := parseKV_printKV k v hk hv

/-- **mdoc round trip and omission of removed images, in one statement.** For every well-formed Mdoc object
(any number of header entries, titles, columns and images; `WF` = keys, titles and values are what the reader
produces for files of the grammar, floats outside the exponent-form class) and both values of
`write(removed=…)`: reading the written lines gives the same header entries, titles, section id and
columns, and exactly the written images (all of them for `removed=True`, the kept ones for
`removed=False`) with equal section values and cells, in order, flags cleared. -/
theorem mdoc_roundtrip (m : Mdoc) (wr : Bool) (h : WF m) (hne : m.rows.filter (written wr) ≠ []) :
    parseMdoc (printMdoc wr m)
      = some { m with rows := (m.rows.filter (written wr)).map (fun r => { r with removed := false }) } := by
  unfold printMdoc
  exact parse_print m h _ (fun r hr => (List.mem_filter.1 hr).1) hne

/-- `write(removed=True)` then read: the same header entries and the same per-image table -/
theorem mdoc_roundtrip_all (m : Mdoc) (h : WF m) (hne : m.rows ≠ []) :
    parseMdoc (printMdoc true m) = some { m with rows := m.rows.map (fun r => { r with removed := false }) } := by
  have := mdoc_roundtrip m true h (by rw [write_all]; exact hne)
  rw [write_all] at this; exact this

/-- `write()` then read: exactly the kept images -/
theorem written_file_has_kept_images (m : Mdoc) (h : WF m) (hne : keptImages m ≠ []) :
    parseMdoc (printMdoc false m) = some { m with rows := (keptImages m).map (fun r => { r with removed := false }) } := by
  have hk : m.rows.filter (written false) = keptImages m := by
    simp only [keptImages]
    apply List.filter_congr
    intro r _; simp [written, write_filter_documented]
  have := mdoc_roundtrip m false h (by rw [hk]; exact hne)
  rw [hk] at this; exact this

/-- non-vacuity: a two-image object with a negative tilt, int / float / text cells, a header entry, a title
and one removed image is well-formed, and the theorem's conclusion is checked by evaluation on it -/
def m₀ : Mdoc :=
  { info := [("Voltage".toList, .int "300".toList), ("PixelSpacing".toList, .flt "1".toList "971".toList), ("ImageSize".toList, .text "4096 4096".toList)],
    titles := ["T = SerialEM: x".toList],
    sid := zvalue,
    cols := ["TiltAngle".toList, "Defocus".toList, "SubFramePath".toList, "Binning".toList],
    rows := [{ z := "0".toList, cells := [.tilt true "52".toList "0064".toList, .flt "2".toList "25".toList, .text "a_01.mrc".toList, .int "1".toList], removed := true },
             { z := "1".toList, cells := [.tilt false "3".toList "0".toList, .text "-1.5".toList, .text "X:\\f 2.tif".toList, .int "1".toList], removed := false }] }

example : WF m₀ := by
  constructor <;> decide

example : parseMdoc (printMdoc false m₀) = some { m₀ with rows := [{ (m₀.rows[1]!) with removed := false }] } := by decide

/-- **the property as stated, for a file cryoCAT has read**: if `lines` is read into `m` and `m` passes the
executable well-formedness test `wfb` (run by the driver on every generated file; it fails exactly when a value
is outside the stable class, e.g. a float of the exponent-form class), then writing `m` and reading the
result gives `m` again — same header entries, same per-image table -/
theorem read_write_read (lines : List Str) (m : Mdoc) (hp : parseMdoc lines = some m) (hw : wfb m = true) :
    parseMdoc (printMdoc true m) = some m := by
  obtain ⟨hne, hfresh⟩ := parse_rows_fresh lines m hp
  rw [mdoc_roundtrip_all m (wf_of_wfb m hw) hne]
  congr 1
  cases m with
  | mk info titles sid cols rows =>
    simp only [Mdoc.mk.injEq, true_and]
    simp only at hfresh
    have : ∀ rs : List Row, (∀ r ∈ rs, r.removed = false) → rs.map (fun r => { r with removed := false }) = rs := by
      intro rs h
      induction rs with
      | nil => rfl
      | cons r rs ih =>
        simp only [List.map_cons, ih (fun x hx => h x (by simp [hx]))]
        congr 1
        have := h r (by simp)
        cases r; simp_all
    exact this rows hfresh

example : wfb m₀ = true := by decide

/-! ### the mdoc loop closed: a class of *texts* on which reading, writing and reading again is the identity -/

/-- **parse_wf.** For every text of the class `textOk` — decided line by line, without running the reader: every
header title survives bracket stripping, every `key = value` line has a non-empty key that does not begin with '[' and a
value that is not a float of the exponent-form class (C17-K1; for `TiltAngle`: after the conversion to float) — whatever
`_read_mdoc` returns is a well-formed object. No per-case evaluation of `wfb` is needed any more. -/
theorem parse_wf (lines : List Str) (m : Mdoc) (hp : parseMdoc lines = some m) (hok : textOk lines = true) :
    wfb m = true ∧ WF m :=
  ⟨parse_wfb lines m hp hok, wf_of_wfb m (parse_wfb lines m hp hok)⟩

/-- **the class is exact**: for a text the reader accepts, membership in `textOk` is *equivalent* to the well-formedness of
the object read — no larger class of texts yields well-formed objects -/
theorem text_class_exact (lines : List Str) (m : Mdoc) (hp : parseMdoc lines = some m) : textOk lines = true ↔ wfb m = true :=
  ⟨parse_wfb lines m hp, textOk_of_wfb lines m hp⟩

/-- **read ∘ write ∘ read = read, unconditionally on the class**: an mdoc text of the class that cryoCAT can read at all is
read, written (all images) and re-read to the same header entries and the same per-image table -/
theorem read_write_read_text (lines : List Str) (m : Mdoc) (hp : parseMdoc lines = some m) (hok : textOk lines = true) :
    parseMdoc (printMdoc true m) = some m :=
  read_write_read lines m hp (parse_wfb lines m hp hok)

/-- … and the written text is a fixed point of write ∘ read: a second round trip reproduces the file character by character -/
theorem write_read_write_text (lines : List Str) (m : Mdoc) (hp : parseMdoc lines = some m) (hok : textOk lines = true) :
    (parseMdoc (printMdoc true m)).map (printMdoc true) = some (printMdoc true m) := by
  rw [read_write_read_text lines m hp hok]; rfl

/-- **the whole property for a text of the class, in one statement**: read it, apply any sequence of `sort_by_tilt` and
`remove_images` calls that does not raise, write with `removed=False`, read the result — the header entries, titles and
columns are those of the first read, and the table holds exactly the kept images of the final object (cells and section
values unchanged, flags cleared) -/
theorem text_ops_write_read (lines : List Str) (m m' : Mdoc) (ops : List Op) (hp : parseMdoc lines = some m)
    (hok : textOk lines = true) (ha : applyOps ops m = some m') (hne : keptImages m' ≠ []) :
    parseMdoc (printMdoc false m') = some { m' with rows := (keptImages m').map (fun r => { r with removed := false }) } :=
  written_file_has_kept_images m' (wf_applyOps ops m m' (parse_wf lines m hp hok).2 ha) hne

/-- a value line of the class is typed into a value that is stable, whatever the raw spelling (leading zeros, `.5`, `5.`,
blanks, negative numbers and other text) -/
theorem typed_value_stable (raw : Str) (hne : '=' ∉ raw) (hp : plainVal (classify raw) = true) :
    classify (classify raw).fmt = classify raw :=
  stable_of_plain _ (stableVal_classify raw hne hp)

/-- non-vacuity: a text with blanks around '=', leading zeros, a negative tilt, a title and a text value is in the class,
is read, and the theorem's conclusion holds on it by evaluation -/
def t₀ : List Str :=
  ["PixelSpacing = 1.9710".toList, "Voltage=300".toList, "Empty = ".toList, "".toList, "[T = SerialEM: x]".toList, "".toList,
   "[ZValue = 00]".toList, "TiltAngle = -052.0064".toList, "SubFramePath = X:\\f 1.tif".toList, "Dose  =  .5".toList, "".toList,
   "[ZValue = 1]".toList, "TiltAngle = 3".toList, "SubFramePath = a.tif".toList, "Dose = 7.".toList]

example : textOk t₀ = true := by decide
example : (parseMdoc t₀).isSome = true := by decide
example : (parseMdoc t₀).bind (fun m => parseMdoc (printMdoc true m)) = parseMdoc t₀ := by decide
/-- outside the class: a float of the exponent-form class, a key beginning with '[' -/
example : textOk ["[ZValue = 0]".toList, "TiltAngle = 1".toList, "Dose = 0.00001".toList] = false := by decide
example : textOk ["[ZValue = 0]".toList, "TiltAngle = 1".toList, " [ZValue = 2".toList] = false := by decide

/-! ### the wedge list through a STAR file (relative to the round-trip property C02 of the STAR layer) -/

/-- the STAR block name and column numbering the wedge list is written with; `wedge_list_sg_to_em` groups by `tomo_num` -/
theorem wedge_star_documented : Gen.C17.wedgeSpecifier = "data_stopgap_wedgelist" ∧ Gen.C17.wedgeNumberColumns = false ∧
    Gen.C17.sgToEmGroupAgg = ["tomo_num", "tilt_angle", "min", "max"] := by decide

/-- the columns of the written table: the documented list without `defocus` / `exposure` when no row carries one -/
theorem wedge_table_columns {α : Type} (rows : List (WedgeRow α)) (hne : rows ≠ []) :
    (sgTable rows).cols = wedgeHeader (rows.any (fun r => r.defocus.isSome)) (rows.any (fun r => r.exposure.isSome)) ∧
    (sgTable rows).rows.length = rows.length := ⟨sgTable_cols rows hne, by simp [sgTable]⟩

/-- **wedge_via_file.** For every STAR layer that round-trips well-formed tables (`q` = its number conversion), every
batch of tomograms with a CTF input for all or none and a dose input for all or none: the wedge list written by
`create_wedge_list_sg_batch(output_file=…)` has the documented columns (one table row per tilt per tomogram), and
`load_wedge_list_sg` of that file gives the same rows in the same order, every number through `q`, the tomogram number
unchanged. -/
theorem wedge_via_file {α β F : Type} (q : α → β) (write : String → StarTable α → F) (read : F → Option (StarTable β))
    (hstar : StarRoundTrip q write read) (c : Consts α) (ts : List (Tomo α)) (rows : List (WedgeRow α))
    (h : wedgeBatch c ts = some rows) (hne : rows ≠ []) (hasCtf hasDose : Bool)
    (huni : ∀ t ∈ ts, t.defocus.isSome = hasCtf ∧ t.dose.isSome = hasDose) :
    (sgTable rows).cols = wedgeHeader hasCtf hasDose ∧
    (read (write Gen.C17.wedgeSpecifier (sgTable rows))).bind loadSg = some (rows.map (WedgeRow.map q)) := by
  have hflags := wedgeBatch_flags c ts rows h
  have hd : ∀ r ∈ rows, r.defocus.isSome = hasCtf := fun r hr => by
    obtain ⟨t, ht, h1, _⟩ := hflags r hr; rw [h1]; exact (huni t ht).1
  have he : ∀ r ∈ rows, r.exposure.isSome = hasDose := fun r hr => by
    obtain ⟨t, ht, _, h2⟩ := hflags r hr; rw [h2]; exact (huni t ht).2
  constructor
  · rw [sgTable_cols rows hne]
    cases rows with
    | nil => exact absurd rfl hne
    | cons r rs =>
      have e1 : ((r :: rs).any fun r => r.defocus.isSome) = hasCtf := by
        cases hc : hasCtf with
        | true => simp only [List.any_eq_true]; exact ⟨r, by simp, by rw [hd r (by simp), hc]⟩
        | false =>
          rw [Bool.eq_false_iff]; intro ha
          simp only [List.any_eq_true] at ha
          obtain ⟨x, hx, hx2⟩ := ha
          rw [hd x hx, hc] at hx2; cases hx2
      have e2 : ((r :: rs).any fun r => r.exposure.isSome) = hasDose := by
        cases hc : hasDose with
        | true => simp only [List.any_eq_true]; exact ⟨r, by simp, by rw [he r (by simp), hc]⟩
        | false =>
          rw [Bool.eq_false_iff]; intro ha
          simp only [List.any_eq_true] at ha
          obtain ⟨x, hx, hx2⟩ := ha
          rw [he x hx, hc] at hx2; cases hx2
      rw [e1, e2]
  · rw [hstar _ _ (sgTable_starWF rows hne hasCtf hasDose hd he)]
    exact load_sgTable q rows

/-- the table is readable row by row also when some tomograms have no CTF / dose input (NaN cells), for any conversion `q` -/
theorem wedge_table_rows {α β : Type} (q : α → β) (rows : List (WedgeRow α)) :
    loadSg ((sgTable rows).mapCells q) = some (rows.map (WedgeRow.map q)) := load_sgTable q rows

/-- **sg_to_em grouping.** `wedge_list_sg_to_em` never fails on a wedge list and returns **one EM row per tomogram**:
the tomogram numbers strictly ascending (so duplicates — also interleaved ones — are merged), exactly the numbers that
occur in the list; each row's minimum and maximum are tilt angles of that tomogram's rows and bound all of them. -/
theorem sg_to_em_groups {α : Type} (le : α → α → Bool) (htr : ∀ a b c, le a b = true → le b c = true → le a c = true)
    (htot : ∀ a b, (le a b || le b a) = true) (rows : List (Int × α)) :
    ∃ out, sgToEm le rows = some out ∧
      (out.map (·.1)).Pairwise (· < ·) ∧ (∀ k, k ∈ out.map (·.1) ↔ k ∈ rows.map (·.1)) ∧
      ∀ e ∈ out, (e.1, e.2.1) ∈ rows ∧ (e.1, e.2.2) ∈ rows ∧ ∀ x, (e.1, x) ∈ rows → le e.2.1 x = true ∧ le x e.2.2 = true := by
  have hkeys := groupKeys_spec (rows.map (·.1))
  have hnonempty : ∀ t ∈ (groupKeys (rows.map (·.1))).map (fun k => (k, (rows.filter (fun r => r.1 == k)).map (·.2))), t.2 ≠ [] := by
    intro t ht
    obtain ⟨k, hk, rfl⟩ := List.mem_map.1 ht
    obtain ⟨r, hr, hrk⟩ := List.mem_map.1 ((hkeys.2 k).1 hk)
    intro he
    simp only [List.map_eq_nil_iff, List.filter_eq_nil_iff] at he
    exact he r hr (by simp [hrk])
  obtain ⟨out, ho⟩ := wedgeEm_some le _ hnonempty
  obtain ⟨hlen, hget⟩ := wedge_em_minmax le htr htot _ out ho
  have hfst : out.map (·.1) = groupKeys (rows.map (·.1)) := by
    apply List.ext_getElem?
    intro i
    simp only [List.getElem?_map]
    cases hk : (groupKeys (rows.map (·.1)))[i]? with
    | none =>
      have : out[i]? = none := by
        rw [List.getElem?_eq_none_iff] at hk ⊢
        simp only [List.length_map] at hlen; omega
      simp [this]
    | some k =>
      obtain ⟨lo, hi, hout, _⟩ := hget i (k, (rows.filter (fun r => r.1 == k)).map (·.2)) (by simp [List.getElem?_map, hk])
      simp [hout]
  refine ⟨out, ho, ?_, ?_, ?_⟩
  · rw [hfst]; exact hkeys.1
  · intro k; rw [hfst]; exact hkeys.2 k
  · intro e he
    obtain ⟨i, hi, hei⟩ := List.getElem_of_mem he
    have hi2 : i < (groupKeys (rows.map (·.1))).length := by simp only [List.length_map] at hlen; omega
    obtain ⟨lo, hi', hout, hlo, hhi, hb⟩ := hget i ((groupKeys (rows.map (·.1)))[i],
      (rows.filter (fun r => r.1 == (groupKeys (rows.map (·.1)))[i])).map (·.2)) (by simp [List.getElem?_map, hi2])
    rw [List.getElem?_eq_getElem hi, hei] at hout
    injection hout with hout
    subst hout
    simp only at hlo hhi hb ⊢
    have mem_grp : ∀ x, x ∈ (rows.filter (fun r => r.1 == (groupKeys (rows.map (·.1)))[i])).map (·.2) ↔ ((groupKeys (rows.map (·.1)))[i], x) ∈ rows := by
      intro x
      simp only [List.mem_map, List.mem_filter, beq_iff_eq]
      constructor
      · rintro ⟨r, ⟨hr, hk⟩, rfl⟩; rw [← hk]; exact hr
      · intro hx; exact ⟨_, ⟨hx, rfl⟩, rfl⟩
    exact ⟨(mem_grp lo).1 hlo, (mem_grp hi').1 hhi, fun x hx => hb x ((mem_grp x).2 hx)⟩

/-- the order hypotheses are met by `≤` on the integers (the driver uses `≤` on `Rat`): interleaved duplicates of 7 and 2 -/
example : ∃ out, sgToEm (fun (a b : Int) => decide (a ≤ b)) [(7, 3), (2, 4), (7, -5), (2, 1), (7, 9)] = some out ∧
    (out.map (·.1)).Pairwise (· < ·) :=
  let ⟨out, h1, h2, _⟩ := sg_to_em_groups (fun (a b : Int) => decide (a ≤ b))
    (fun a b c hab hbc => by simp only [decide_eq_true_eq] at *; omega)
    (fun a b => by simp only [Bool.or_eq_true, decide_eq_true_eq]; omega) [(7, 3), (2, 4), (7, -5), (2, 1), (7, 9)]
  ⟨out, h1, h2⟩

/-- **sg_to_em through the file**: converting the written wedge list gives, for every tomogram of the batch, the minimum and
maximum of its (converted) tilt angles — the grouping theorem applies to `rows.map (tomo_num, q tilt_angle)` -/
theorem sg_to_em_via_file {α β F : Type} (q : α → β) (write : String → StarTable α → F) (read : F → Option (StarTable β))
    (hstar : StarRoundTrip q write read) (le : β → β → Bool) (c : Consts α) (ts : List (Tomo α)) (rows : List (WedgeRow α))
    (h : wedgeBatch c ts = some rows) (hne : rows ≠ []) (hasCtf hasDose : Bool)
    (huni : ∀ t ∈ ts, t.defocus.isSome = hasCtf ∧ t.dose.isSome = hasDose) :
    (read (write Gen.C17.wedgeSpecifier (sgTable rows))).bind (sgToEmFile le)
      = sgToEm le (rows.map (fun r => (r.tomoNum, q r.tiltAngle))) := by
  have hv := (wedge_via_file q write read hstar c ts rows h hne hasCtf hasDose huni).2
  cases hr : read (write Gen.C17.wedgeSpecifier (sgTable rows)) with
  | none => rw [hr] at hv; cases hv
  | some t =>
    rw [hr] at hv
    simp only [Option.bind_some] at hv ⊢
    simp only [sgToEmFile, hv, Option.bind_some, List.map_map]
    rfl

/-! ### loaders: which reader an input is sent to -/

/-! ### loaders return the numbers in their files: the text → number step is inside the model (round 5, extension) -/

/-- **parse_print_decimal.** The driver receives the decimal TOKENS of the tilt / dose / gctf / ctffind4 files (and of the dimension,
z-shift and constant arguments) as text and turns them into exact rationals with `parseDecimal`. On the class of tokens the generators
write — an optional '-', a non-empty digit string, optionally '.' and a digit string (`printDecimal`) — the parser returns exactly the
rational `±i.f` those digits denote (`decVal`, the value the mdoc model computes with): the parser inverts the printer, for every sign
and all digit strings (leading / trailing zeros and integers included; `printDecimal` prints no bare `5.` or `.5` — those spellings, `+`
and exponents are read by the parser too, but only shown on the examples below, not covered by this theorem). The implementation's number is then required to be the
binary float NEAREST to this rational (float32 / float64), compared exactly by the harness (`_nearest`, probed against `float()` and
`numpy.float32` on every run) — the rounding itself is the one step left outside Lean. -/
theorem parse_print_decimal (neg : Bool) (i f : Str) (hi : allDigits i = true) (hf : ∀ c ∈ f, c.isDigit = true) :
    parseDecimal (printDecimal neg i f) = some (decVal neg i f) := parseDecimal_printDecimal neg i f hi hf

/-- non-vacuity and the forms beyond the printer's class that Python's `float()` reads as well: `+`, `.5`, `5.`, exponents; what is no
decimal literal is refused -/
example : parseDecimal "-12.50".toList = some (-25 / 2) ∧ parseDecimal "007".toList = some 7 ∧ parseDecimal "+.5e1".toList = some 5 ∧
    parseDecimal "5.".toList = some 5 ∧ parseDecimal "1e-3".toList = some (1 / 1000) ∧ parseDecimal "2.5E+2".toList = some 250 ∧
    parseDecimal ".".toList = none ∧ parseDecimal "nan".toList = none ∧ parseDecimal "1_0".toList = none ∧ parseDecimal "".toList = none ∧
    printDecimal true "12".toList "50".toList = "-12.50".toList ∧ decVal true "12".toList "50".toList = -25 / 2 := by decide +kernel

/-- the dispatch tables of `tlt_load`, `total_dose_load` and `defocus_load`, re-extracted from the source (`total_dose_load` takes a
tuple like a list since fix fb2f9e8: second entry of its type chain `(list, tuple)`) -/
theorem loader_dispatch_documented :
    Gen.C17.tltTypeChain = ["np.ndarray", "list", "str"] ∧
    Gen.C17.tltDispatch = [(['.', 'm', 'd', 'o', 'c'], "mdoc.Mdoc"), (['.', 'x', 'm', 'l'], "get_data_from_warp_xml")] ∧
    Gen.C17.tltDefault = "one_value_per_line_read" ∧
    Gen.C17.tltReturns = [("np.ndarray", "input_tlt"), ("list", "np.asarray(input_tlt)")] ∧ Gen.C17.tltSortsFilesOnly = true ∧
    Gen.C17.doseTypeChain = ["np.ndarray", "(list, tuple)", "str"] ∧
    Gen.C17.doseDispatch = [(['.', 'c', 's', 'v'], "pd.read_csv"), (['.', 'm', 'd', 'o', 'c'], "mdoc.Mdoc"), (['.', 'x', 'm', 'l'], "get_data_from_warp_xml")] ∧
    Gen.C17.doseDefault = "one_value_per_line_read" ∧
    Gen.C17.doseReturns = [("np.ndarray", "input_dose"), ("(list, tuple)", "np.asarray(input_dose)")] ∧ Gen.C17.doseSortsMdocByDefault = true ∧
    Gen.C17.defocusTypeChain = ["pd.DataFrame", "str"] ∧
    Gen.C17.defocusDispatch = [("gctf", "gctf_read"), ("ctffind4", "ctffind4_read"), ("warp", "warp_ctf_read")] ∧
    Gen.C17.defocusLowers = true ∧
    Gen.C17.defocusArrayColumns = ["defocus1", "defocus2", "astigmatism", "phase_shift", "defocus_mean"] := by decide

/-- `.mdoc` paths go to the mdoc reader, in both loaders -/
theorem mdoc_extension (path : List Char) (h : endsWith path ['.', 'm', 'd', 'o', 'c'] = true) :
    dispatch Gen.C17.tltDispatch Gen.C17.tltDefault path = "mdoc.Mdoc" ∧
    (endsWith path ['.', 'c', 's', 'v'] = false → dispatch Gen.C17.doseDispatch Gen.C17.doseDefault path = "mdoc.Mdoc") := by
  constructor
  · simp [dispatch, Gen.C17.tltDispatch, h]
  · intro h2; simp [dispatch, Gen.C17.doseDispatch, List.find?, h, h2]

/-- every other extension that is not `.xml` (resp. `.csv`) — `.tlt`, `.rawtlt`, `.txt`, none at all — goes to `one_value_per_line_read` -/
theorem default_extension (path : List Char) (h1 : endsWith path ['.', 'm', 'd', 'o', 'c'] = false) (h2 : endsWith path ['.', 'x', 'm', 'l'] = false) :
    dispatch Gen.C17.tltDispatch Gen.C17.tltDefault path = "one_value_per_line_read" ∧
    (endsWith path ['.', 'c', 's', 'v'] = false → dispatch Gen.C17.doseDispatch Gen.C17.doseDefault path = "one_value_per_line_read") := by
  constructor
  · simp [dispatch, Gen.C17.tltDispatch, Gen.C17.tltDefault, List.find?, h1, h2]
  · intro h3; simp [dispatch, Gen.C17.doseDispatch, Gen.C17.doseDefault, List.find?, h1, h2, h3]

example : dispatch Gen.C17.tltDispatch Gen.C17.tltDefault "TS_01/017.rawtlt".toList = "one_value_per_line_read" ∧
    dispatch Gen.C17.tltDispatch Gen.C17.tltDefault "a.tlt".toList = "one_value_per_line_read" ∧
    dispatch Gen.C17.tltDispatch Gen.C17.tltDefault "a.mdoc.txt".toList = "one_value_per_line_read" ∧
    dispatch Gen.C17.tltDispatch Gen.C17.tltDefault "TS_01.mrc.mdoc".toList = "mdoc.Mdoc" ∧
    dispatch Gen.C17.doseDispatch Gen.C17.doseDefault "dose.txt".toList = "one_value_per_line_read" := by decide

/-- (definitional anchor, four `rfl`s: restates the array / list branches of the MODEL `tltLoadIn`; that the real `tlt_load` returns arrays
and lists as given is carried by the translator obligation `loader_dispatch_documented` (tltReturns) and the correspondence clauses
`loader-values` / `tlt-array-input`) `tlt_load`: arrays and lists are returned as given — in the given order, not sorted — and an empty
one raises -/
theorem tlt_array_as_given {α : Type} (le : α → α → Bool) (s : Bool) (xs : List α) (hne : xs ≠ []) :
    tltLoadIn le s (.array xs) = some xs ∧ tltLoadIn le s (.list xs) = some xs ∧
    tltLoadIn le s (.array ([] : List α)) = none ∧ tltLoadIn le s (.list ([] : List α)) = none := by
  cases xs with
  | nil => exact absurd rfl hne
  | cons x xs => exact ⟨rfl, rfl, rfl, rfl⟩

/-- **`tlt_load(path)`**: whatever reader the extension selects, the result is a permutation of what that reader returns,
ascending when `sort_angles` (default) -/
theorem tlt_file_sorted {α : Type} (le : α → α → Bool) (htr : ∀ a b c, le a b = true → le b c = true → le a c = true)
    (htot : ∀ a b, (le a b || le b a) = true) (path : List Char) (v : FileViews α) (out : List α)
    (h : tltLoadIn le true (.file path v) = some out) :
    out.Pairwise (fun a b => le a b = true) ∧
    ∃ raw, readByExt Gen.C17.tltDispatch Gen.C17.tltDefault path v = some raw ∧ out.Perm raw := by
  simp only [tltLoadIn, loader_dispatch_documented.2.2.2.2.1, Bool.and_self] at h
  cases hr : readByExt Gen.C17.tltDispatch Gen.C17.tltDefault path v with
  | none => simp [hr] at h
  | some raw =>
    simp only [hr, Option.map_some, Option.some.injEq] at h
    subst h
    exact ⟨by simpa [tltLoad] using List.pairwise_mergeSort htr htot raw, raw, rfl, tlt_perm le true raw⟩

/-- an `.mdoc` path yields the mdoc's TiltAngle column, any other non-xml path the numbers of the file; an empty file raises -/
theorem tlt_file_reader {α : Type} (le : α → α → Bool) (s : Bool) (path : List Char) (v : FileViews α) :
    (endsWith path ['.', 'm', 'd', 'o', 'c'] = true → tltLoadIn le s (.file path v) = v.mdoc.map (tltLoad le s)) ∧
    (endsWith path ['.', 'm', 'd', 'o', 'c'] = false → endsWith path ['.', 'x', 'm', 'l'] = false →
      tltLoadIn le s (.file path v) = (oneValuePerLine v).map (tltLoad le s)) := by
  constructor
  · intro h
    simp [tltLoadIn, readByExt, (mdoc_extension path h).1, loader_dispatch_documented.2.2.2.2.1]
  · intro h1 h2
    simp [tltLoadIn, readByExt, (default_extension path h1 h2).1, loader_dispatch_documented.2.2.2.2.1]

/-- `total_dose_load`: (first two conjuncts: definitional anchors, `rfl`) arrays and lists as given; (proved from the regenerated dispatch
table) an `.mdoc` path yields the mdoc dose (prior + exposure, theorem `mdoc_dose`), any other path that is not `.csv` / `.xml` the numbers
of the file in file order -/
theorem dose_input_dispatch {α : Type} (xs : List α) (path : List Char) (v : FileViews α) :
    doseLoadIn (.array xs) = some xs ∧ doseLoadIn (.list xs) = some xs ∧
    (endsWith path ['.', 'c', 's', 'v'] = false → endsWith path ['.', 'm', 'd', 'o', 'c'] = true → doseLoadIn (.file path v) = v.mdoc) ∧
    (endsWith path ['.', 'c', 's', 'v'] = false → endsWith path ['.', 'm', 'd', 'o', 'c'] = false → endsWith path ['.', 'x', 'm', 'l'] = false →
      doseLoadIn (.file path v) = oneValuePerLine v) := by
  have hid : (doseLoad : List α → List α) = id := rfl
  refine ⟨rfl, rfl, ?_, ?_⟩
  · intro h0 h
    simp [doseLoadIn, readByExt, (mdoc_extension path h).2 h0, hid]
  · intro h0 h1 h2
    simp [doseLoadIn, readByExt, (default_extension path h1 h2).2 h0, hid]

/-- `defocus_load` (first conjunct: definitional anchor, `rfl`; the others are proved from the regenerated dispatch table): a DataFrame is
returned as is; an N×5 array becomes the five documented columns row by row (any other
width raises); a path is sent to the reader named by `file_type`, compared case-insensitively; an unknown type raises -/
theorem defocus_input_dispatch {K : Type} [_root_.Field K] (fG fC d : K) (rows : List (Defocus K))
    (g : Option (List (K × K × K × Option K))) (c : Option (List (K × K × K × K))) (ft : String) :
    defocusLoadIn fG fC d (.frame rows) = some rows ∧
    (asciiLower ft = "gctf" → defocusLoadIn fG fC d (.file ft g c) = g.map (gctfRead fG d)) ∧
    (asciiLower ft = "ctffind4" → defocusLoadIn fG fC d (.file ft g c) = c.map (ctffindRead fC d)) ∧
    (Gen.C17.defocusDispatch.lookup (asciiLower ft) = none → defocusLoadIn fG fC d (.file ft g c) = none) := by
  refine ⟨rfl, ?_, ?_, ?_⟩
  · intro h
    simp [defocusLoadIn, defocusReader, Gen.C17.defocusLowers, Gen.C17.defocusDispatch, h, List.lookup]
  · intro h
    simp [defocusLoadIn, defocusReader, Gen.C17.defocusLowers, Gen.C17.defocusDispatch, h, List.lookup]
  · intro h
    simp [defocusLoadIn, defocusReader, Gen.C17.defocusLowers, h]

theorem defocus_array_rows {K : Type} [_root_.Field K] (fG fC d : K) (rows : List (List K)) (out : List (Defocus K))
    (h : defocusLoadIn fG fC d (.array rows) = some out) :
    out.length = rows.length ∧ ∀ (i : Nat) (r : List K), rows[i]? = some r →
      ∃ o, out[i]? = some o ∧ r = [o.defocus1, o.defocus2, o.astigmatism, o.phaseShift, o.defocusMean] := by
  obtain ⟨hlen, hget⟩ := mapM_some_spec _ rows out h
  refine ⟨hlen, ?_⟩
  intro i r hr
  obtain ⟨o, ho, hf⟩ := hget i r hr
  refine ⟨o, ho, ?_⟩
  match r, hf with
  | [a, b, c, d', e], hf =>
    simp only [Option.some.injEq] at hf
    subst hf; rfl

example : asciiLower "GCTF" = "gctf" ∧ asciiLower "CtfFind4" = "ctffind4" ∧ defocusReader "relion" = none ∧
    defocusReader "Warp" = some "warp_ctf_read" := by decide

/-! ### hardening pass: defaults, pinned source shapes, the reader outside the strict model, code-level wedge lists -/

/-- float32 is the `data_type` default of `one_value_per_line_read` (pinned here; the oracle compares the loaders' numbers with the
numbers of the file within rel. 2e-6, whatever the float width) -/
theorem one_value_dtype_documented : Gen.C17.oneValueDtype = "np.float32" := by decide

/-- `gctf_read` selects its columns by an explicit NAME list (U, V, angle, phase shift — the order of the result, not of the
file) and scales positions 0 and 1 of that selection -/
theorem gctf_columns_documented : Gen.C17.gctfColumns = ["rlnDefocusU", "rlnDefocusV", "rlnDefocusAngle", "rlnPhaseShift"] ∧
    Gen.C17.gctfPhaseColumn = "rlnPhaseShift" ∧ Gen.C17.gctfScaleLo = 0 ∧ Gen.C17.gctfScaleHi = 2 := by decide

/-- `indices_load` builds a new array for the 1-based → 0-based shift (`x = x - 1`), counts from 1 by default -/
theorem indices_load_documented : Gen.C17.indicesShiftPure = true ∧ Gen.C17.indicesFrom1Default = true := by decide

/-- the signature defaults the statement's operations rely on: `write(removed=False, overwrite=False)`,
`remove_images(kept_only=True)`, `sort_by_tilt(reset_z_value=False)`, `Mdoc(section_id="ZValue")`,
`mdoc.remove_images(numbered_from_1=True)`, `defocus_load(file_type="gctf")`, and in both wedge-list functions
`ctf_file_type="gctf"`, `z_shift=0`, `voltage=300`, `amp_contrast=0.07`, `cs=2.7` -/
theorem defaults_documented : Gen.C17.writeRemovedDefault = false ∧ Gen.C17.writeOverwriteDefault = false ∧
    Gen.C17.removeKeptOnlyDefault = true ∧ Gen.C17.sortResetDefault = false ∧ Gen.C17.mdocSectionIdDefault = "ZValue" ∧
    Gen.C17.scriptFrom1Default = true ∧ Gen.C17.defocusFileTypeDefault = "gctf" ∧
    Gen.C17.sgDefaults = ("gctf", [0, 300, 7 / 100, 27 / 10]) ∧ Gen.C17.batchDefaults = ("gctf", [0, 300, 7 / 100, 27 / 10]) ∧
    Gen.C17.sgDropsNanColumnsByDefault = true ∧ Gen.C17.batchLooksUpByTomoId = true := by decide +kernel

/-- normalised whole-body dumps (docstring dropped, locals renamed to v0, v1, … in binding order, signature included) of the
functions that have branches the correspondence run never executes (`.xml` / `.csv` / warp / DateTime paths, index files) and of
the short helpers of `Mdoc`: an added, removed or edited statement changes the digest; renaming a local does not -/
theorem body_digests_documented : Gen.C17.bodyDigests = [("ioutils.py:tlt_load", "f1a813181975bb3b"), ("ioutils.py:total_dose_load", "c988f324f390f9a5"), ("ioutils.py:defocus_load", "ed98e8f108f7fc82"), ("ioutils.py:indices_load", "911e9762e0258c73"), ("ioutils.py:one_value_per_line_read", "9c168f21992844f6"), ("mdoc.py:Mdoc.__init__", "598807ac4017f061"), ("mdoc.py:Mdoc.remove_image", "bdad76b605305919"), ("mdoc.py:Mdoc.remove_images", "0054452332c8cb73"), ("mdoc.py:Mdoc.kept_images", "60ca13db7754f731"), ("mdoc.py:Mdoc.removed_images", "8c7ce118d7aefa10"), ("mdoc.py:Mdoc.get_image_feature", "748c3b4ab5eed2a2"), ("mdoc.py:remove_images", "3e0771a349297a93"), ("mdoc.py:sort_mdoc_by_tilt_angles", "907075bac05c704b"), ("mdoc.py:get_tilt_angles", "57ad7e985d7ec918"), ("ioutils.py:dimensions_load", "b22362e611223afd"), ("ioutils.py:z_shift_load", "4a1218ad96f3f2b0"), ("ioutils.py:imod_com_read", "6b54cdac51146903"), ("wedgeutils.py:check_data_consistency", "919fffe59226f242"), ("wedgeutils.py:load_wedge_list_sg", "e5c51b4fa75302c9")] := by decide

/-- **the extended reader is conservative**: every text the strict model `parseMdoc` reads is read by `parseMdocX` (which follows
the code on duplicate header keys and on every decimal / exponent TiltAngle spelling) into the same object — so all theorems
about `parseMdoc` speak about what the driver compares the implementation with -/
theorem parse_ext_conservative (lines : List Str) (m : Mdoc) (h : parseMdoc lines = some m) : parseMdocX lines = some m :=
  parseMdocX_extends lines m h

/-- **the theorems transfer to what the driver runs.** The driver reads with `parseMdocX`; on every text of the strict class (driver
field `strict = true`) `parseMdocX` IS `parseMdoc` (`parse_ext_conservative`), so for a text of the class `textOk` the round trip holds
for the driver's reader as well: read, written (all images), re-read with `parseMdocX` — the same object. OUTSIDE the strict class
(`strict = false`: a repeated header key, a `float()`-only tilt spelling such as `+5` / `5e0`, the same keys in another order in a later
section) no round-trip THEOREM applies: there the round trip is judged on the implementation alone (spec clause `mdoc-roundtrip`) and
the model is compared by execution (corr); the theorems about operations (`sort_perm`, `sorted_perm_unique_up_to_ties`,
`remove_flags_only`, `write_omits_removed`, `kept_index_mapping`, `mdoc_dose`) speak about ANY object and hold there unchanged. -/
theorem read_write_read_text_driver (lines : List Str) (m : Mdoc) (hp : parseMdocX lines = some m) (hs : (parseMdoc lines).isSome = true)
    (hok : textOk lines = true) : parseMdocX (printMdoc true m) = some m := by
  cases hq : parseMdoc lines with
  | none => rw [hq] at hs; cases hs
  | some m' =>
    have := parse_ext_conservative lines m' hq
    rw [hp] at this
    injection this with this
    subst this
    exact parse_ext_conservative _ _ (read_write_read_text lines m hq hok)

/-- **witness of the open finding C17-K1 at the level of a whole file**: a two-line image whose `Dose = 0.00001` is read as a float, written as
`1e-05`, and the written file re-reads to ANOTHER object (the cell is now text) -/
theorem k1_roundtrip_counterexample :
    ∃ lines m, parseMdoc lines = some m ∧ parseMdoc (printMdoc true m) ≠ some m ∧ (parseMdoc (printMdoc true m)).isSome = true :=
  ⟨["[ZValue = 0]".toList, "TiltAngle = 1".toList, "Dose = 0.00001".toList], _, rfl, by decide, by decide⟩

/-- **witness of the open finding C17-K4**: when every image is removed, `write()` (removed=False) prints the header entries and titles
and NO section; as soon as none of these lines begins with `[ZValue` / `[FrameSet` (true of every header entry, and of every title that
is not itself spelled like a section), the reader finds no section and refuses the file — strict and extended reader alike. So the file
cryoCAT wrote does not re-read to "the same header entries and the same (empty) per-image table". -/
theorem all_removed_unreadable (m : Mdoc) (hk : keptImages m = [])
    (hi : ∀ kv ∈ m.info, secStart (printKV kv.1 kv.2) = none) (ht : ∀ t ∈ m.titles, secStart (printTitle t) = none) :
    parseMdoc (printMdoc false m) = none ∧ parseMdocX (printMdoc false m) = none := by
  have hf : m.rows.filter (written false) = [] := by
    have : m.rows.filter (written false) = keptImages m := by
      simp only [keptImages]
      apply List.filter_congr
      intro r _; simp [written, write_filter_documented]
    rw [this, hk]
  have hall : ∀ l ∈ printMdoc false m, (secStart l).isNone = true := by
    intro l hl
    simp only [printMdoc, hf, List.flatMap_nil, List.append_nil, List.mem_append, List.mem_map, List.mem_flatMap, List.mem_cons,
      List.not_mem_nil, or_false] at hl
    rcases hl with (⟨kv, hkv, rfl⟩ | rfl) | ⟨t, htm, (rfl | rfl)⟩
    · rw [hi kv hkv]; rfl
    · decide
    · rw [ht t htm]; rfl
    · decide
  have hdw : ∀ (ls : List Str), (∀ l ∈ ls, (secStart l).isNone = true) → ls.dropWhile (fun l => (secStart l).isNone) = [] := by
    intro ls
    induction ls with
    | nil => intro _; rfl
    | cons a t ih =>
      intro h
      rw [List.dropWhile_cons, if_pos (h a (by simp))]
      exact ih (fun l hl => h l (by simp [hl]))
  have hd : (printMdoc false m).dropWhile (fun l => (secStart l).isNone) = [] := hdw _ hall
  constructor
  · simp only [parseMdoc, hd]
  · simp only [parseMdocX, hd]

/-- non-vacuity: `m₀` with both images removed meets the hypotheses; evaluated: the written text has no section line and is refused -/
example : keptImages { m₀ with rows := m₀.rows.map (fun r => { r with removed := true }) } = [] ∧
    parseMdoc (printMdoc false { m₀ with rows := m₀.rows.map (fun r => { r with removed := true }) }) = none := by decide

/-- what the extension adds: a repeated header key (dict overwrite: first position, last value), `+5` and `1e-05` tilts -/
example : (parseMdocX ["A = 1".toList, "B = 2".toList, "A = 3".toList, "[ZValue = 0]".toList, "TiltAngle = +5".toList]).map (fun m => (m.info, m.rows)) =
    some ([("A".toList, Val.int "3".toList), ("B".toList, Val.int "2".toList)], [⟨"0".toList, [Val.tilt false "5".toList "0".toList], false⟩]) := by decide
example : parseMdoc ["A = 1".toList, "A = 3".toList, "[ZValue = 0]".toList, "TiltAngle = 5".toList] = none := by decide
example : toTiltX (classify "1e-05".toList) = some (Val.tilt false "0".toList "00001".toList) ∧
    toTiltX (classify "-2.50E+1".toList) = some (Val.tilt true "25".toList "0".toList) ∧ toTilt (classify "1e-05".toList) = none := by decide
/-- a TiltAngle of the exponent-form class survives write + re-read in the extended reader (as it does in the code: the column
is converted with `astype(float)`), unlike any other cell of that class (C17-K1) -/
example : toTiltX (classify (Val.tilt false "0".toList "00001".toList).fmt) = some (Val.tilt false "0".toList "00001".toList) := by decide
/-- the named classes outside the quantifier, and a text the code refuses -/
example : whyNone ["[ZValue = 0]".toList, "TiltAngle = 1".toList, "X = 5".toList, "[ZValue = 1]".toList, "TiltAngle = 2".toList] = .diffKeys ∧
    whyNone ["[ZValue = 0]".toList, "TiltAngle = 1".toList, "[T = 5]".toList] = .bracketInSection ∧
    whyNone ["[ZValue = 0]".toList, "TiltAngle = 1".toList, "X = 1".toList, "X = 2".toList] = .dupKeyInSection ∧
    whyNone ["[ZValue = +3]".toList, "TiltAngle = 1".toList] = .secValueForm ∧
    whyNone ["[ZValue = 3]".toList, "TiltAngle = nan".toList] = .tiltForm ∧
    whyNone ["[ZValue = 3]".toList, "TiltAngle = abc".toList] = .raises ∧ whyNone ["A = 1".toList] = .raises := by decide

/-- `indices_load`: the j-th index is the j-th given index, minus one when the input counts from 1; as given otherwise. The result
is a function of the given list alone (the model has no state: using the same list for a second mdoc addresses the same
positions — the code keeps that promise only because it builds a new array, `indices_load_documented`) -/
theorem indices_load_spec (xs : List Int) (j : Nat) :
    (indicesLoad true xs)[j]? = xs[j]?.map (· - 1) ∧ indicesLoad false xs = xs := by
  simp [indicesLoad]

/-- the console-level `mdoc.remove_images(path, idx, numbered_from_1)` is `Mdoc.remove_images` on the shifted indices among the KEPT
images (so `remove_flags_only`, `kept_index_mapping`, `targets_spec` apply to it) -/
theorem remove_script_spec (f1 : Bool) (xs : List Int) (m : Mdoc) :
    removeImagesScript f1 xs m = removeImages (if f1 then xs.map (· - 1) else xs) true m := by
  simp [removeImagesScript, indicesLoad, defaults_documented.2.2.1]

/-- **gctf column order is irrelevant** (seeded change `gctf-column-order`): the code-level model of `gctf_read` — select by the
source's name list from a table whose columns are in FILE order, scale positions 0..1 of the selection — returns for every
file order the Å→µm-scaled U and V found by name, the angle, the phase shift, and the mean (`defocusRow`, about which
`defocus_units` speaks) -/
theorem gctf_column_order_irrelevant {K : Type} [_root_.Field K] (f d : K) (cols : List String) (row : List K) (u v a p : K)
    (hph : cols.contains "rlnPhaseShift" = true)
    (hu : (cols.zip row).lookup "rlnDefocusU" = some u) (hv : (cols.zip row).lookup "rlnDefocusV" = some v)
    (ha : (cols.zip row).lookup "rlnDefocusAngle" = some a) (hp : (cols.zip row).lookup "rlnPhaseShift" = some p) :
    gctfReadCode f d cols [row] = some [defocusRow f d u v a p] := gctf_code_row f d cols row u v a p hph hu hv ha hp

theorem gctf_without_phase_shift {K : Type} [_root_.Field K] (f d : K) (cols : List String) (row : List K) (u v a : K)
    (hph : cols.contains "rlnPhaseShift" = false)
    (hu : (cols.zip row).lookup "rlnDefocusU" = some u) (hv : (cols.zip row).lookup "rlnDefocusV" = some v)
    (ha : (cols.zip row).lookup "rlnDefocusAngle" = some a) :
    gctfReadCode f d cols [row] = some [defocusRow f d u v a 0] := gctf_code_row_nophase f d cols row u v a hph hu hv ha

/-- alphabetical column order (angle before U and V), an unrelated column in between -/
example : gctfReadCode (1 / 10000 : Rat) 2 ["rlnDefocusAngle", "rlnDefocusU", "rlnVoltage", "rlnDefocusV", "rlnPhaseShift"] [[45, 20000, 300, 30000, 1]]
    = some [{ defocus1 := 2, defocus2 := 3, astigmatism := 45, phaseShift := 1, defocusMean := 5 / 2 }] := by decide +kernel

/-- **`create_wedge_list_sg`, code = specification**: `np.repeat(dimensions.values, n, axis=0)` of the one-row dimension table and
`z_shift.values[0][0]` give every row that tomogram's dimensions and z-shift: the code-level list is `wedgeSingle` -/
theorem wedge_single_code_spec {α : Type} (c : Consts α) (id : Int) (x y z zs : α) (tilts : List α) (defocus dose : Option (List α)) :
    wedgeSingleCode c { id := id, dims := [[x, y, z]], zTable := [[zs]], tilts := tilts, defocus := defocus, dose := dose }
      = wedgeSingle c { id := id, dimX := x, dimY := y, dimZ := z, zShift := zs, tilts := tilts, defocus := defocus, dose := dose } :=
  wedge_single_code_eq c id x y z zs tilts defocus dose

/-- **`create_wedge_list_sg_batch`, code = specification**: the dimensions and the z-shift are looked up BY TOMOGRAM NUMBER (first
row of the table with that `tomo_id`, whatever the order or extent of the table — seeded change `wedge-zshift-pairing` pairs by
position instead), then the batch list is `wedgeBatch` of the tomograms these look-ups denote, to which `wedge_rows` applies -/
theorem wedge_batch_code_spec {α : Type} (c : Consts α) (b : BatchIn α) (ts : List (Tomo α)) (h : b.ids.mapM (batchTomo b) = some ts) :
    wedgeBatchCode c b = wedgeBatch c ts := wedge_batch_code_eq c b ts h

/-- a z-shift table listed in another order than the tomogram list, and covering more tomograms -/
example : wedgeBatchCode (⟨1, 300, 7, 27⟩ : Consts Int)
    { ids := [7, 2], dimTable := [(2, [10, 20, 30]), (7, [11, 21, 31])], zTable := [(5, 55), (2, 22), (7, 77)],
      files := [(7, ([1, 2], none, none)), (2, ([3], none, none))] }
    = some [⟨7, 1, 11, 21, 31, 77, 1, none, none, 300, 7, 27⟩, ⟨7, 1, 11, 21, 31, 77, 2, none, none, 300, 7, 27⟩,
            ⟨2, 1, 10, 20, 30, 22, 3, none, none, 300, 7, 27⟩] := by decide

end CryoCat.C17
