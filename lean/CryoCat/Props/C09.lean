import CryoCat.Lemmas.C09
import Mathlib.Algebra.Order.Ring.Defs
import Mathlib.Tactic.Linarith
import Mathlib.Data.Rat.Floor
/-! C09 — spatial filters keep exactly the particles that lie inside.

Property theorems about the executable model `Model/C09.lean` (the very definitions the driver runs)
and non-vacuity examples. `KeepsExactly P l out` (Lemmas/C09) says: `out` is `l` filtered by a test
that agrees with `P` on `l` — same order, same multiplicities, every survivor literally an element of
the input ("survivors are never altered"). -/
set_option linter.unusedSectionVars false
set_option linter.unusedSimpArgs false
namespace CryoCat.C09

/-! ## translator obligations: what the source says today is what is documented here -/

theorem anchors_ok : Gen.C09.anchorsOk = true := by decide

/-- upper faces are tested with `<`, and `boundary = ceil(box_size / 2)` -/
theorem oob_upper_documented :
    Gen.C09.oobCfg.upper = .lt ∧ Gen.C09.oobCfg.rounding = .ceil ∧ Gen.C09.oobCfg.divisor = 2 := by decide

/-- the lower-face conjunct is either the recorded vacuous `all(c_min) >= 0` (open finding C09-K1) or
an element-wise `>= 0` (a repair); anything else breaks this theorem -/
theorem oob_lower_recorded :
    Gen.C09.oobCfg.lower = .vacuousAll ∨ Gen.C09.oobCfg.lower = .elementwise .ge := by decide

theorem oob_code_cfg : Gen.C09.oobCfg = oobCfgAsIs ∨ Gen.C09.oobCfg = oobCfgDoc := by decide

/-- `trimvol = start - 1`, dropped when `< 1` or `> tdim` -/
theorem trim_cfg_documented : Gen.C09.trimCfg = trimCfgDoc := by decide

/-- inside the mask volume when `0 <= idx < shape`, removed when the voxel `== 0` -/
theorem mask_cfg_documented : Gen.C09.maskCfg = maskCfgDoc := by decide

/-- the subtomo ids are carried through the bounds filter (repair a0240b0 is in place) -/
theorem mask_ids_through_filter : Gen.C09.maskIdsThroughFilter = true := by decide

theorem points_ball_query_per_tomogram : Gen.C09.pointsBallQueryPerTomogram = true := by decide

/-- the complete position is `x + shift_x, y + shift_y, z + shift_z` -/
theorem coord_columns_documented :
    Gen.C09.coordColumns = ["x", "y", "z"] ∧ Gen.C09.shiftColumns = ["shift_x", "shift_y", "shift_z"] := by decide

/-- an N×4 dimensions table is read as tomo_id, x, y, z -/
theorem dim_columns_documented : Gen.C09.dimColumns = ["tomo_id", "x", "y", "z"] := by decide

section generic
variable {α : Type} [Add α] [Sub α] [Mul α] [LT α] [LE α] [DecidableLT α] [DecidableLE α] [DecidableEq α]
  [NatCast α] [OfNat α 0]

/-! ## the model of today's source is one of the models the theorems are about -/

/-- today's `remove_out_of_bounds_particles` is `oobAsIs` (finding C09-K1) or, once repaired, `oob` -/
theorem oobCode_is (dims : List (Dim α)) (bt : BType) (box : Option Nat) (l : Motl α) :
    oobCode dims bt box l = oobAsIs dims bt box l ∨ oobCode dims bt box l = oob dims bt box l := by
  rcases oob_code_cfg with h | h
  · left; unfold oobCode oobAsIs; rw [h]
  · right; unfold oobCode oob; rw [h]

theorem trimCode_eq (s e : V3 α) (l : Motl α) : trimCode s e l = trim s e l := by
  unfold trimCode trim; rw [trim_cfg_documented]

theorem cleanMaskCode_eq (tr : α → Int) (tomos : List α) (arg : MaskArg) (l : Motl α) :
    cleanMaskCode tr tomos arg l = cleanMask tr tomos arg l := by
  unfold cleanMaskCode cleanMask; rw [mask_cfg_documented]

/-! ## remove_out_of_bounds_particles -/

/-- `lookupDim` returns the FIRST row of the table that belongs to the tomogram -/
theorem lookupDim_some (dims : List (Dim α)) (t : α) (d : Dim α) (h : lookupDim dims t = some d) :
    d ∈ dims ∧ d.tomo = t := by
  unfold lookupDim at h
  exact ⟨List.mem_of_find?_eq_some h, by simpa using List.find?_some h⟩

theorem lookupDim_none (dims : List (Dim α)) (t : α) : lookupDim dims t = none ↔ ∀ d ∈ dims, d.tomo ≠ t := by
  unfold lookupDim
  simp [List.find?_eq_none]

/-- `boundary` is `0` for "center" and `⌈box/2⌉` for "whole" with a positive box size; everything
else is refused -/
theorem boundary_spec (bt : BType) (box : Option Nat) (bn : Nat) :
    boundaryWith oobCfgDoc bt box = .ok bn ↔
      (bt = .center ∧ bn = 0) ∨ (bt = .whole ∧ ∃ n, box = some n ∧ 0 < n ∧ n ≤ 2 * bn ∧ 2 * bn ≤ n + 1) := by
  rcases bt with _ | _ | _ <;> rcases box with _ | _ | n <;>
    simp [boundaryWith, oobCfgDoc, Rounding.div] <;> omega

/-- **The statement for one particle.** The complete position (`b = 0`) — or the box of half-width `b`
around it — lies inside the dimensions of the particle's OWN tomogram, on the lower as well as on the
upper side (the code's convention: lower faces closed `0 ≤ c - b`, upper faces open `c + b < dim`). -/
def InsideOwnTomogram (dims : List (Dim α)) (b : α) (p : Particle α) : Prop :=
  ∃ d, lookupDim dims p.tomo_id = some d ∧
    ((0 : α) ≤ (pos p).x - b ∧ (0 : α) ≤ (pos p).y - b ∧ (0 : α) ≤ (pos p).z - b) ∧
    ((pos p).x + b < d.x ∧ (pos p).y + b < d.y ∧ (pos p).z + b < d.z)

/-- the same with the lower faces left out: what the unrepaired code tests -/
def BelowUpperFaces (dims : List (Dim α)) (b : α) (p : Particle α) : Prop :=
  ∃ d, lookupDim dims p.tomo_id = some d ∧
    ((pos p).x + b < d.x ∧ (pos p).y + b < d.y ∧ (pos p).z + b < d.z)

theorem oobKeep_doc_iff (dims : List (Dim α)) (b : α) (p : Particle α) :
    oobKeep oobCfgDoc dims b p = true ↔ InsideOwnTomogram dims b p := by
  unfold oobKeep InsideOwnTomogram
  cases h : lookupDim dims p.tomo_id with
  | none => simp
  | some d => simp [lowerOk, upperOk, oobCfgDoc, Cmp.eval, and_assoc]

theorem oobKeep_asis_iff (dims : List (Dim α)) (b : α) (p : Particle α) :
    oobKeep oobCfgAsIs dims b p = true ↔ BelowUpperFaces dims b p := by
  unfold oobKeep BelowUpperFaces
  cases h : lookupDim dims p.tomo_id with
  | none => simp
  | some d => simp [lowerOk, upperOk, oobCfgAsIs, Cmp.eval, and_assoc]

/-- **Out-of-bounds removal keeps exactly the particles that lie inside** (for every particle list,
every dimension table, both boundary types, every box size): whenever the call is not refused, the
result is the input filtered by `InsideOwnTomogram` — order and multiplicities preserved, every
survivor an unaltered input row. -/
theorem oob_spec (dims : List (Dim α)) (bt : BType) (box : Option Nat) (l out : Motl α)
    (h : oob dims bt box l = .ok out) :
    ∃ bn, boundaryWith oobCfgDoc bt box = .ok bn ∧ KeepsExactly (InsideOwnTomogram dims (bn : α)) l out := by
  unfold oob oobWith at h
  cases hb : boundaryWith oobCfgDoc bt box with
  | error e => rw [hb] at h; simp at h
  | ok bn =>
    rw [hb] at h
    simp only at h
    split at h
    · injection h with h
      exact ⟨bn, rfl, oobKeep oobCfgDoc dims (bn : α), h.symm, fun p _ => oobKeep_doc_iff dims _ p⟩
    · simp at h

/-- membership form of `oob_spec` -/
theorem oob_mem_iff (dims : List (Dim α)) (bt : BType) (box : Option Nat) (l out : Motl α)
    (h : oob dims bt box l = .ok out) (p : Particle α) :
    p ∈ out ↔ p ∈ l ∧ ∃ bn, boundaryWith oobCfgDoc bt box = .ok bn ∧ InsideOwnTomogram dims (bn : α) p := by
  obtain ⟨bn, hb, hk⟩ := oob_spec dims bt box l out h
  rw [hk.mem_iff]
  constructor
  · rintro ⟨h1, h2⟩; exact ⟨h1, bn, hb, h2⟩
  · rintro ⟨h1, bn', hb', h2⟩
    rw [hb] at hb'; injection hb' with hb'; subst hb'
    exact ⟨h1, h2⟩

/-- survivors are never altered and stay in order -/
theorem oob_sublist (dims : List (Dim α)) (bt : BType) (box : Option Nat) (l out : Motl α)
    (h : oob dims bt box l = .ok out) : out.Sublist l := by
  obtain ⟨_, _, hk⟩ := oob_spec dims bt box l out h
  exact hk.sublist

/-- **What is refused, and nothing else**: an unknown boundary type, "whole" without a positive box
size, or a particle whose tomogram has no dimensions. -/
theorem oob_rejects_iff (dims : List (Dim α)) (bt : BType) (box : Option Nat) (l : Motl α) (e : OobErr) :
    oob dims bt box l = .error e ↔
      boundaryWith oobCfgDoc bt box = .error e ∨
      ((∃ bn, boundaryWith oobCfgDoc bt box = .ok bn) ∧ e = .noDimensions ∧ ∃ p ∈ l, lookupDim dims p.tomo_id = none) := by
  unfold oob oobWith
  cases hb : boundaryWith oobCfgDoc bt box with
  | error e' => simp
  | ok bn =>
    simp only [reduceCtorEq, false_or, Except.ok.injEq, exists_eq', true_and]
    split
    · rename_i hall
      simp only [reduceCtorEq, false_iff, not_and, not_exists]
      intro _ p hp hn
      have := List.all_eq_true.1 hall p hp
      rw [hn] at this; simp at this
    · rename_i hall
      simp only [Except.error.injEq]
      constructor
      · intro h
        refine ⟨h.symm, ?_⟩
        simp only [List.all_eq_true, not_forall] at hall
        obtain ⟨p, hp, hn⟩ := hall
        refine ⟨p, hp, ?_⟩
        cases hl : lookupDim dims p.tomo_id with
        | none => rfl
        | some d => rw [hl] at hn; simp at hn
      · rintro ⟨h, _⟩; exact h.symm

/-- the unrepaired code (finding C09-K1) keeps exactly the particles below the UPPER faces -/
theorem oobAsIs_spec (dims : List (Dim α)) (bt : BType) (box : Option Nat) (l out : Motl α)
    (h : oobAsIs dims bt box l = .ok out) :
    ∃ bn, boundaryWith oobCfgDoc bt box = .ok bn ∧ KeepsExactly (BelowUpperFaces dims (bn : α)) l out := by
  unfold oobAsIs oobWith at h
  have hbb : boundaryWith oobCfgAsIs bt box = boundaryWith oobCfgDoc bt box := rfl
  rw [hbb] at h
  cases hb : boundaryWith oobCfgDoc bt box with
  | error e => rw [hb] at h; simp at h
  | ok bn =>
    rw [hb] at h
    simp only at h
    split at h
    · injection h with h
      exact ⟨bn, rfl, oobKeep oobCfgAsIs dims (bn : α), h.symm, fun p _ => oobKeep_asis_iff dims _ p⟩
    · simp at h

/-- **Partial correctness of the unrepaired code (C09-K1).** If no particle of the list reaches below a
lower face, the unrepaired code computes exactly what the property demands. The hypothesis is the
class excluded by the open finding and is necessary (`oob_counterexample`). -/
theorem oob_partial (dims : List (Dim α)) (bt : BType) (box : Option Nat) (l : Motl α)
    (hlow : ∀ bn, boundaryWith oobCfgDoc bt box = .ok bn → ∀ p ∈ l,
      (0 : α) ≤ (pos p).x - (bn : α) ∧ (0 : α) ≤ (pos p).y - (bn : α) ∧ (0 : α) ≤ (pos p).z - (bn : α)) :
    oobAsIs dims bt box l = oob dims bt box l := by
  unfold oobAsIs oob oobWith
  have hbb : boundaryWith oobCfgAsIs bt box = boundaryWith oobCfgDoc bt box := rfl
  rw [hbb]
  cases hb : boundaryWith oobCfgDoc bt box with
  | error e => rfl
  | ok bn =>
    simp only
    split
    · congr 1
      apply List.filter_congr
      intro p hp
      have hl := hlow bn hb p hp
      unfold oobKeep
      cases lookupDim dims p.tomo_id with
      | none => rfl
      | some d => simp [lowerOk, oobCfgAsIs, oobCfgDoc, Cmp.eval, hl]
    · rfl

/-- the unrepaired code errs on one side only: it never removes a particle that lies inside (its
result contains the demanded one as a sublist) -/
theorem oobAsIs_keeps_more (dims : List (Dim α)) (bt : BType) (box : Option Nat) (l o₁ : Motl α)
    (h : oob dims bt box l = .ok o₁) : ∃ o₂, oobAsIs dims bt box l = .ok o₂ ∧ o₁.Sublist o₂ := by
  unfold oob oobWith at h
  unfold oobAsIs oobWith
  have hbb : boundaryWith oobCfgAsIs bt box = boundaryWith oobCfgDoc bt box := rfl
  rw [hbb]
  cases hb : boundaryWith oobCfgDoc bt box with
  | error e => rw [hb] at h; simp at h
  | ok bn =>
    rw [hb] at h
    simp only at h ⊢
    split at h
    · rename_i hall
      rw [if_pos hall]
      injection h with h
      refine ⟨_, rfl, ?_⟩
      have : o₁ = (l.filter (oobKeep oobCfgAsIs dims (bn : α))).filter (oobKeep oobCfgDoc dims (bn : α)) := by
        rw [← h, List.filter_filter]
        apply List.filter_congr
        intro p _
        cases hd : oobKeep oobCfgDoc dims (bn : α) p with
        | false => rfl
        | true =>
          have h1 := (oobKeep_doc_iff dims _ p).1 hd
          obtain ⟨d, hl, _, hu⟩ := h1
          have : oobKeep oobCfgAsIs dims (bn : α) p = true := (oobKeep_asis_iff dims _ p).2 ⟨d, hl, hu⟩
          simp [this]
      rw [this]
      exact List.filter_sublist
    · simp at h

end generic

/-- the particle of the pinned test `test_remove_out_of_bounds_particles` (third assertion): centre
(10,10,10) in a 100³ tomogram, box 40 — the box reaches to −10 -/
def k1Particle : Particle Int :=
  Particle.ofFn (fun f => match f with
    | .x => 10 | .y => 10 | .z => 10 | .tomo_id => 1 | .subtomo_id => 1 | _ => 0)

/-- a particle with a negative centre, boundary type "center" -/
def k1Negative : Particle Int :=
  Particle.ofFn (fun f => match f with
    | .x => -3 | .y => 10 | .z => 10 | .tomo_id => 1 | .subtomo_id => 2 | _ => 0)

/-- **Witness of the open finding C09-K1** (replayed against the real code from corpus/C09 on every
run): the unrepaired code keeps both particles, the property removes them; so the output of the
unrepaired code does NOT keep exactly the inside particles. -/
theorem oob_counterexample :
    (oobAsIs [⟨1, 100, 100, 100⟩] .whole (some 40) [k1Particle]).toOption = some [k1Particle] ∧
    (oob [⟨1, 100, 100, 100⟩] .whole (some 40) [k1Particle]).toOption = some [] ∧
    (oobAsIs [⟨1, 100, 100, 100⟩] .center none [k1Negative]).toOption = some [k1Negative] ∧
    (oob [⟨1, 100, 100, 100⟩] .center none [k1Negative]).toOption = some [] ∧
    ¬ KeepsExactly (InsideOwnTomogram [⟨1, 100, 100, 100⟩] ((20 : Nat) : Int)) [k1Particle] [k1Particle] := by
  refine ⟨by decide, by decide, by decide, by decide, ?_⟩
  intro h
  have := (h.mem_iff k1Particle).1 (List.mem_singleton.2 rfl)
  obtain ⟨_, d, hd, hlo, _⟩ := this
  revert hlo
  decide

/-! ## adapt_to_trimming — needs the order axioms (`¬ a < b ↔ b ≤ a`) -/

section ring
variable {R : Type} [CommRing R] [LinearOrder R] [IsStrictOrderedRing R]

/-- the extraction position lies inside the trim box `[start, end]` (1-based voxel coordinates of
the untrimmed volume, both ends included) -/
def InsideTrim (s e : V3 R) (p : Particle R) : Prop :=
  (s.x ≤ p.x ∧ p.x ≤ e.x) ∧ (s.y ≤ p.y ∧ p.y ≤ e.y) ∧ (s.z ≤ p.z ∧ p.z ≤ e.z)

/-- the documented coordinate offset: the origin of the trimmed volume, `start - 1` -/
def trimOffset (s : V3 R) : V3 R := ⟨s.x - 1, s.y - 1, s.z - 1⟩

theorem trimOrigin_doc (s : V3 R) : trimOrigin trimCfgDoc s = trimOffset s := by
  simp [trimOrigin, trimCfgDoc, trimOffset]

/-- **Trimming adaptation keeps exactly the particles inside the trimmed volume and re-expresses
x,y,z relative to it**: the result is the list of the particles whose extraction position lies in the
trim box (order, multiplicity preserved), each with `x,y,z` moved by `start - 1` and nothing else. -/
theorem trim_spec (s e : V3 R) (l : Motl R) :
    ∃ kept, KeepsExactly (InsideTrim s e) l kept ∧ trim s e l = kept.map (shiftXYZ (trimOffset s)) := by
  refine ⟨l.filter (fun p => !trimHighOut trimCfgDoc (trimDim trimCfgDoc s e) (shiftXYZ (trimOffset s) p) &&
            !trimLowOut trimCfgDoc (shiftXYZ (trimOffset s) p)), ⟨_, rfl, ?_⟩, ?_⟩
  · intro p _
    simp only [trimHighOut, trimLowOut, trimCfgDoc, Cmp.eval, trimDim, trimOrigin, shiftXYZ, trimOffset, InsideTrim,
      Bool.and_eq_true, Bool.not_eq_true', Bool.or_eq_false_iff, decide_eq_false_iff_not, not_lt, Nat.cast_one]
    have hx : ∀ u v : V3 R, (u - v).x = u.x - v.x := fun _ _ => rfl
    have hy : ∀ u v : V3 R, (u - v).y = u.y - v.y := fun _ _ => rfl
    have hz : ∀ u v : V3 R, (u - v).z = u.z - v.z := fun _ _ => rfl
    simp only [hx, hy, hz]
    constructor
    · rintro ⟨⟨⟨h1, h2⟩, h3⟩, ⟨h4, h5⟩, h6⟩
      refine ⟨⟨?_, ?_⟩, ⟨?_, ?_⟩, ⟨?_, ?_⟩⟩ <;> linarith
    · rintro ⟨⟨h1, h2⟩, ⟨h3, h4⟩, ⟨h5, h6⟩⟩
      refine ⟨⟨⟨?_, ?_⟩, ?_⟩, ⟨?_, ?_⟩, ?_⟩ <;> linarith
  · unfold trim trimWith
    rw [List.filter_filter, List.filter_map, trimOrigin_doc]
    rfl

/-- survivors are altered by the documented offset only: the 17 other fields are untouched -/
theorem shiftXYZ_other (o : V3 R) (p : Particle R) (f : Field) (hx : f ≠ .x) (hy : f ≠ .y) (hz : f ≠ .z) :
    (shiftXYZ o p).get f = p.get f := by
  cases f <;> first | rfl | exact absurd rfl hx | exact absurd rfl hy | exact absurd rfl hz

theorem shiftXYZ_xyz (o : V3 R) (p : Particle R) :
    (shiftXYZ o p).x = p.x - o.x ∧ (shiftXYZ o p).y = p.y - o.y ∧ (shiftXYZ o p).z = p.z - o.z := ⟨rfl, rfl, rfl⟩

/-- every survivor comes from an input particle inside the trim box, and its new coordinates are
valid 1-based coordinates of the trimmed volume: `1 ≤ x' ≤ end - start + 1` -/
theorem trim_survivor (s e : V3 R) (l : Motl R) (q : Particle R) (hq : q ∈ trim s e l) :
    ∃ p ∈ l, InsideTrim s e p ∧ q = shiftXYZ (trimOffset s) p ∧
      (1 ≤ q.x ∧ q.x ≤ e.x - s.x + 1) ∧ (1 ≤ q.y ∧ q.y ≤ e.y - s.y + 1) ∧ (1 ≤ q.z ∧ q.z ≤ e.z - s.z + 1) := by
  obtain ⟨kept, hk, ht⟩ := trim_spec s e l
  rw [ht, List.mem_map] at hq
  obtain ⟨p, hp, rfl⟩ := hq
  obtain ⟨hpl, hin⟩ := (hk.mem_iff p).1 hp
  refine ⟨p, hpl, hin, rfl, ?_⟩
  obtain ⟨⟨h1, h2⟩, ⟨h3, h4⟩, ⟨h5, h6⟩⟩ := hin
  simp only [shiftXYZ, trimOffset]
  refine ⟨⟨?_, ?_⟩, ⟨?_, ?_⟩, ⟨?_, ?_⟩⟩ <;> linarith

/-- nothing inside is lost -/
theorem trim_complete (s e : V3 R) (l : Motl R) (p : Particle R) (hp : p ∈ l) (hin : InsideTrim s e p) :
    shiftXYZ (trimOffset s) p ∈ trim s e l := by
  obtain ⟨kept, hk, ht⟩ := trim_spec s e l
  rw [ht]
  exact List.mem_map_of_mem ((hk.mem_iff p).2 ⟨hp, hin⟩)

/-- for a radius `r ≥ 0` the squared test of the model is the closed ball `d ≤ r` -/
theorem closed_ball_iff (d r : R) (hd : 0 ≤ d) (hr : 0 ≤ r) : d * d ≤ r * r ↔ d ≤ r := by
  constructor
  · intro h
    by_contra hlt
    have hlt' : r < d := not_le.1 hlt
    have : r * r < d * d := by nlinarith
    linarith
  · intro h; nlinarith

end ring

/-! ## clean_by_distance_to_points -/

section generic2
variable {α : Type} [Add α] [Sub α] [Mul α] [LT α] [LE α] [DecidableLT α] [DecidableLE α] [DecidableEq α]
  [NatCast α] [OfNat α 0]

/-- the complete position is within the radius (closed ball, `dist² ≤ r²`) of a reference point of
the SAME tomogram -/
def NearPoint (r : α) (pts : List (Pt α)) (p : Particle α) : Prop :=
  ∃ q ∈ pts, q.tomo = p.tomo_id ∧ dist2 (pos p) q.c ≤ r * r

theorem nearPoint_iff (r : α) (pts : List (Pt α)) (p : Particle α) :
    nearPoint r pts p = true ↔ NearPoint r pts p := by
  simp [nearPoint, NearPoint, inBall, List.any_eq_true]

/-- **Cleaning against reference points removes exactly the particles within the radius of a point
of the same tomogram**: the result is a permutation (the rows come out grouped by tomogram) of the
input filtered by `¬ NearPoint` — so multiplicities are exact and every survivor is an unaltered
input row. -/
theorem cleanPoints_perm (r : α) (pts : List (Pt α)) (l : Motl α) :
    ∃ kept, KeepsExactly (fun p => ¬ NearPoint r pts p) l kept ∧ (cleanPoints r pts l).Perm kept := by
  refine ⟨l.filter (fun p => !nearPoint r pts p), ⟨_, rfl, fun p _ => by show (!nearPoint r pts p) = true ↔ ¬ NearPoint r pts p; rw [← nearPoint_iff]; simp⟩, ?_⟩
  unfold cleanPoints
  have hcomm : ∀ t, (l.filter (fun p => decide (p.tomo_id = t))).filter (fun p => !nearPoint r pts p)
      = (l.filter (fun p => !nearPoint r pts p)).filter (fun p => decide (p.tomo_id = t)) := by
    intro t; rw [List.filter_filter, List.filter_filter]; apply List.filter_congr; intro x _; exact Bool.and_comm _ _
  simp only [hcomm]
  have hks : ∀ t, t ∈ uniques (l.map (·.tomo_id)) ↔ t ∈ l.map (·.tomo_id) := fun t => mem_uniques _ t
  refine (flatMap_groups_perm (fun p : Particle α => p.tomo_id) _ (nodup_uniques _) _).trans ?_
  apply List.Perm.of_eq
  rw [List.filter_eq_self]
  intro x hx
  simp only [decide_eq_true_eq, hks]
  exact List.mem_map_of_mem (List.mem_filter.1 hx).1

/-- membership form -/
theorem cleanPoints_mem_iff (r : α) (pts : List (Pt α)) (l : Motl α) (p : Particle α) :
    p ∈ cleanPoints r pts l ↔ p ∈ l ∧ ¬ NearPoint r pts p := by
  obtain ⟨kept, hk, hp⟩ := cleanPoints_perm r pts l
  rw [hp.mem_iff, hk.mem_iff]

/-- inside every tomogram the surviving rows keep their original order: the rows of tomogram `t` in
the result are the rows of tomogram `t` of the input, filtered -/
theorem cleanPoints_tomogram_order (r : α) (pts : List (Pt α)) (l : Motl α) (t : α) :
    (cleanPoints r pts l).filter (fun p => decide (p.tomo_id = t))
      = (l.filter (fun p => decide (p.tomo_id = t))).filter (fun p => !nearPoint r pts p) := by
  unfold cleanPoints
  have hcomm : ∀ t, (l.filter (fun p => decide (p.tomo_id = t))).filter (fun p => !nearPoint r pts p)
      = (l.filter (fun p => !nearPoint r pts p)).filter (fun p => decide (p.tomo_id = t)) := by
    intro t; rw [List.filter_filter, List.filter_filter]; apply List.filter_congr; intro x _; exact Bool.and_comm _ _
  simp only [hcomm]
  rw [filter_flatMap_groups (fun p : Particle α => p.tomo_id) _ (nodup_uniques _)]
  split
  · rfl
  · rename_i hn
    symm
    rw [List.filter_eq_nil_iff]
    intro p hp
    simp only [decide_eq_true_eq]
    intro hpt
    apply hn
    rw [mem_uniques, ← hpt]
    exact List.mem_map_of_mem (List.mem_filter.1 hp).1

/-- a list that lives in one tomogram is not even reordered -/
theorem cleanPoints_single_tomogram (r : α) (pts : List (Pt α)) (l : Motl α) (t : α)
    (h : ∀ p ∈ l, p.tomo_id = t) : KeepsExactly (fun p => ¬ NearPoint r pts p) l (cleanPoints r pts l) := by
  refine ⟨fun p => !nearPoint r pts p, ?_, fun p _ => by show (!nearPoint r pts p) = true ↔ ¬ NearPoint r pts p; rw [← nearPoint_iff]; simp⟩
  unfold cleanPoints
  cases l with
  | nil => rfl
  | cons a l =>
    have ha : a.tomo_id = t := h a (List.mem_cons_self ..)
    have hu : uniques ((a :: l).map (·.tomo_id)) = [t] := by
      have : ∀ l' : List (Particle α), (∀ p ∈ l', p.tomo_id = t) → (uniques (l'.map (·.tomo_id))).filter (fun b => !decide (b = t)) = [] := by
        intro l' hl'
        rw [List.filter_eq_nil_iff]
        intro b hb
        rw [mem_uniques, List.mem_map] at hb
        obtain ⟨p, hp, rfl⟩ := hb
        simp [hl' p hp]
      simp only [List.map_cons, uniques, ha]
      rw [this l (fun p hp => h p (List.mem_cons_of_mem _ hp))]
    rw [hu]
    simp only [List.flatMap_cons, List.flatMap_nil, List.append_nil]
    congr 1
    rw [List.filter_eq_self]
    intro p hp
    simp [h p hp]

/-! ## clean_by_tomo_mask -/

/-- the voxel index lies inside the mask volume: `0 ≤ idx < shape` on every axis -/
def InsideMask (m : Mask) (v : V3 Int) : Prop :=
  (0 ≤ v.x ∧ 0 ≤ v.y ∧ 0 ≤ v.z) ∧ (v.x < (m.sx : Int) ∧ v.y < (m.sy : Int) ∧ v.z < (m.sz : Int))

/-- the particle's voxel lies inside the mask volume of a mask listed for its tomogram and that
voxel is zero -/
def OnZeroVoxel (tr : α → Int) (tm : List (α × Mask)) (p : Particle α) : Prop :=
  ∃ tmk ∈ tm, p.tomo_id = tmk.1 ∧ InsideMask tmk.2 (voxel tr p) ∧
    tmk.2.val (voxel tr p).x.toNat (voxel tr p).y.toNat (voxel tr p).z.toNat = false

theorem maskHit_doc_iff (tr : α → Int) (m : Mask) (p : Particle α) :
    maskHit maskCfgDoc tr m p = true ↔
      InsideMask m (voxel tr p) ∧ m.val (voxel tr p).x.toNat (voxel tr p).y.toNat (voxel tr p).z.toNat = false := by
  unfold maskHit withinMask maskValue InsideMask
  cases m.val (voxel tr p).x.toNat (voxel tr p).y.toNat (voxel tr p).z.toNat <;>
    simp [maskCfgDoc, Cmp.eval, and_assoc]

theorem mem_maskRemoveIds (tr : α → Int) (tm : List (α × Mask)) (l : Motl α) (i : α) :
    i ∈ maskRemoveIds maskCfgDoc tr tm l ↔ ∃ p ∈ l, p.subtomo_id = i ∧ OnZeroVoxel tr tm p := by
  unfold maskRemoveIds OnZeroVoxel
  simp only [List.mem_flatMap, List.mem_map, List.mem_filter, decide_eq_true_eq, maskHit_doc_iff]
  constructor
  · rintro ⟨tmk, htm, p, ⟨⟨hp, ht⟩, hh⟩, rfl⟩
    exact ⟨p, hp, rfl, tmk, htm, ht, hh⟩
  · rintro ⟨p, hp, rfl, tmk, htm, ht, hh⟩
    exact ⟨tmk, htm, p, ⟨⟨hp, ht⟩, hh⟩, rfl⟩

/-- how the listed tomograms are paired with masks -/
theorem pairMasks_ok (tomos : List α) (arg : MaskArg) (tm : List (α × Mask)) (h : pairMasks tomos arg = .ok tm) :
    (∃ m, arg = .single m ∧ tm = tomos.map (fun t => (t, m))) ∨
    (∃ ms, arg = .perTomo ms ∧ tomos.length = ms.length ∧ tm = tomos.zip ms) := by
  cases arg with
  | single m => left; simp only [pairMasks, Except.ok.injEq] at h; exact ⟨m, rfl, h.symm⟩
  | perTomo ms =>
    right
    simp only [pairMasks] at h
    split at h
    · rename_i hl; injection h with h; exact ⟨ms, rfl, hl, h.symm⟩
    · simp at h

/-- **Cleaning by a tomogram mask removes exactly the particles inside the mask volume that sit on
zero voxels and keeps all others** — for every list whose subtomo ids are not repeated (the code
removes BY subtomo id; `cleanMask_needs_unique_ids` shows the hypothesis cannot be dropped), every
tomogram list, every mask shape and content, and any truncation `tr`. -/
theorem cleanMask_spec (tr : α → Int) (tomos : List α) (arg : MaskArg) (l out : Motl α)
    (hid : (l.map (·.subtomo_id)).Nodup) (h : cleanMask tr tomos arg l = .ok out) :
    ∃ tm, pairMasks tomos arg = .ok tm ∧ KeepsExactly (fun p => ¬ OnZeroVoxel tr tm p) l out := by
  unfold cleanMask cleanMaskWith at h
  cases hp : pairMasks tomos arg with
  | error e => rw [hp] at h; simp at h
  | ok tm =>
    rw [hp] at h
    injection h with h
    refine ⟨tm, rfl, _, h.symm, ?_⟩
    intro p hpl
    simp only [Bool.not_eq_true', ← Bool.not_eq_true, List.contains_iff_mem, mem_maskRemoveIds]
    constructor
    · intro hn hz; exact hn ⟨p, hpl, rfl, hz⟩
    · rintro hn ⟨p', hp', hidp, hz⟩
      have : p' = p := eq_of_nodup_map hid hp' hpl hidp
      exact hn (this ▸ hz)

/-- without the unique-id hypothesis the code still never removes a particle whose id differs from
the ids of all particles on zero voxels, and never keeps a particle on a zero voxel -/
theorem cleanMask_mem_iff (tr : α → Int) (tomos : List α) (arg : MaskArg) (l out : Motl α)
    (h : cleanMask tr tomos arg l = .ok out) (p : Particle α) :
    ∃ tm, pairMasks tomos arg = .ok tm ∧
      (p ∈ out ↔ p ∈ l ∧ ¬ ∃ p' ∈ l, p'.subtomo_id = p.subtomo_id ∧ OnZeroVoxel tr tm p') := by
  unfold cleanMask cleanMaskWith at h
  cases hp : pairMasks tomos arg with
  | error e => rw [hp] at h; simp at h
  | ok tm =>
    rw [hp] at h
    injection h with h
    refine ⟨tm, rfl, ?_⟩
    rw [← h, List.mem_filter]
    simp only [Bool.not_eq_true', ← Bool.not_eq_true, List.contains_iff_mem, mem_maskRemoveIds]

/-- the only refused call: a LIST of masks whose length differs from the tomogram list -/
theorem cleanMask_rejects_iff (tr : α → Int) (tomos : List α) (arg : MaskArg) (l : Motl α) (e : MaskErr) :
    cleanMask tr tomos arg l = .error e ↔ ∃ ms, arg = .perTomo ms ∧ tomos.length ≠ ms.length := by
  unfold cleanMask cleanMaskWith
  cases arg with
  | single m => simp [pairMasks]
  | perTomo ms =>
    simp only [pairMasks]
    by_cases hl : tomos.length = ms.length
    · simp [hl]
    · cases e; simp [hl]

end generic2

/-! ### the truncation the driver uses (`astype(int)`): toward zero -/

theorem truncRat_neg (q : Rat) : truncRat (-q) = - truncRat q := by
  unfold truncRat
  simp [Int.neg_tdiv]

theorem truncRat_of_nonneg (q : Rat) (h : 0 ≤ q) : truncRat q = ⌊q⌋ := by
  unfold truncRat
  rw [Rat.floor_def']
  exact Int.tdiv_eq_ediv_of_nonneg (Rat.num_nonneg.2 h)

/-- for `q ≥ 0` the voxel index is the integer part: `idx ≤ q < idx + 1` -/
theorem truncRat_nonneg_spec (q : Rat) (h : 0 ≤ q) : (truncRat q : Rat) ≤ q ∧ q < (truncRat q : Rat) + 1 := by
  rw [truncRat_of_nonneg q h]
  exact ⟨Int.floor_le q, Int.lt_floor_add_one q⟩

/-- for `q ≤ 0` it rounds UP (toward zero): `idx - 1 < q ≤ idx`; in particular every position in
`(-1, 0)` lands in voxel 0 -/
theorem truncRat_nonpos_spec (q : Rat) (h : q ≤ 0) : (truncRat q : Rat) - 1 < q ∧ q ≤ (truncRat q : Rat) := by
  have h' : 0 ≤ -q := by linarith
  obtain ⟨h1, h2⟩ := truncRat_nonneg_spec (-q) h'
  rw [truncRat_neg] at h1 h2
  push_cast at h1 h2
  constructor <;> linarith

/-! ### witnesses about the mask filter (concrete, `decide`) -/

/-- 4×4×4 mask with the single zero voxel (1,1,1) -/
def wMask : Mask := { sx := 4, sy := 4, sz := 4, val := fun x y z => !(x == 1 && y == 1 && z == 1) }
def wOnes : Mask := { sx := 4, sy := 4, sz := 4, val := fun _ _ _ => true }
def wP (tomo id x : Int) : Particle Int :=
  Particle.ofFn (fun f => match f with
    | .x => x | .y => 1 | .z => 1 | .tomo_id => tomo | .subtomo_id => id | _ => 0)

/-- the hypothesis of `cleanMask_spec` is necessary: with subtomo id 1 used in two tomograms, the
particle of tomogram 2 (all-ones mask) is removed together with the one of tomogram 1 -/
theorem cleanMask_needs_unique_ids :
    (cleanMask id [1, 2] (.perTomo [wMask, wOnes]) [wP 1 1 1, wP 2 1 1]).toOption = some [] ∧
    ¬ OnZeroVoxel id [((1 : Int), wMask), (2, wOnes)] (wP 2 1 1) := by
  refine ⟨by decide, ?_⟩
  rintro ⟨tmk, htm, ht, _, hv⟩
  simp only [List.mem_cons, List.not_mem_nil, or_false] at htm
  rcases htm with rfl | rfl
  · revert ht; decide
  · revert hv; decide

/-- **Regression witness of defect D11 (repaired by a0240b0).** One particle beyond the mask volume in
front of a particle on the zero voxel: the old code removes the WRONG particle (index into the
filtered array used as a row label), the repaired code removes the right one. -/
theorem cleanMask_old_misaligned :
    (cleanMaskOld id [1] (.perTomo [wMask]) [wP 1 1 9, wP 1 2 1, wP 1 3 2]).toOption = some [wP 1 2 1, wP 1 3 2] ∧
    (cleanMask id [1] (.perTomo [wMask]) [wP 1 1 9, wP 1 2 1, wP 1 3 2]).toOption = some [wP 1 1 9, wP 1 3 2] := by
  refine ⟨by decide, by decide⟩

/-! ## non-vacuity: the hypotheses of the theorems above are met by non-trivial inputs -/

/-- `oob_spec`: a call that is not refused, keeps one particle and removes one on each side -/
example : (oob [⟨(1 : Int), 100, 100, 100⟩, ⟨2, 48, 60, 70⟩] .whole (some 2)
    [wP 1 1 50, wP 2 2 47, wP 2 3 0, wP 1 4 4]).toOption = some [wP 1 1 50, wP 1 4 4] := by decide
/-- `oob_partial`: a list that meets the hypothesis (all lower faces respected) and still loses a particle -/
example : (oobAsIs [⟨(1 : Int), 100, 100, 100⟩] .center none [wP 1 1 50, wP 1 2 100]).toOption = some [wP 1 1 50] ∧
    ∀ p ∈ [wP 1 1 50, wP 1 2 100], (0 : Int) ≤ (pos p).x - ((0 : Nat) : Int) := by decide
/-- `oob_rejects_iff`: all three refusals occur -/
example : (oob [⟨(1 : Int), 100, 100, 100⟩] .other none [wP 1 1 50]).toOption = none ∧
    (oob [⟨(1 : Int), 100, 100, 100⟩] .whole (some 0) [wP 1 1 50]).toOption = none ∧
    (oob [⟨(1 : Int), 100, 100, 100⟩] .center none [wP 3 1 50]).toOption = none := by decide
/-- `trim_spec` at `Int`: start (3,1,1), end (7,10,10) keeps x = 3 and x = 7, drops 2 and 8 -/
example : trim (⟨3, 1, 1⟩ : V3 Int) ⟨7, 10, 10⟩ [wP 1 1 2, wP 1 2 3, wP 1 3 7, wP 1 4 8] = [wP 1 2 1, wP 1 3 5] := by decide
/-- `cleanPoints_perm`: two tomograms, a tie on the ball surface is removed, the foreign point removes nothing -/
example : cleanPoints (5 : Int) [⟨1, ⟨4, 5, 1⟩⟩, ⟨7, ⟨0, 1, 1⟩⟩] [wP 2 1 0, wP 1 2 1, wP 2 3 5, wP 1 4 9]
    = [wP 2 1 0, wP 2 3 5, wP 1 4 9] := by decide
/-- `cleanMask_spec`: unique ids, a listed and an unlisted tomogram, inside/outside/zero/non-zero voxels -/
example : (cleanMask id [1] (.single wMask) [wP 1 1 1, wP 1 2 2, wP 1 3 (-1), wP 1 4 4, wP 2 5 1]).toOption
    = some [wP 1 2 2, wP 1 3 (-1), wP 1 4 4, wP 2 5 1] ∧
    ([wP 1 1 1, wP 1 2 2, wP 1 3 (-1), wP 1 4 4, wP 2 5 1].map (·.subtomo_id)).Nodup := by decide

end CryoCat.C09
