import CryoCat.Lemmas.C09
import Mathlib.Algebra.Order.Ring.Defs
import Mathlib.Tactic.Linarith
import Mathlib.Data.Rat.Floor
/-! C09 — spatial filters keep exactly the particles that lie inside.

Property theorems about the executable model `Model/C09.lean` (the very definitions the driver runs)
and non-vacuity examples. `KeepsExactly P l out` (Lemmas/C09) says: `out` is `l` filtered by a test
that agrees with `P` on `l` — same order, same multiplicities, every survivor literally an element of
the input ("survivors are never altered"). -/
set_option linter.unusedSectionVars false
set_option linter.unusedSimpArgs false
namespace CryoCat.C09

/-! ## translator obligations: what the source says today is what is documented here -/

theorem anchors_ok : Gen.C09.anchorsOk = true := by decide

/-- upper faces are tested with `<`, and `boundary = ceil(box_size / 2)` -/
theorem oob_upper_documented :
    Gen.C09.oobCfg.upper = .lt ∧ Gen.C09.oobCfg.rounding = .ceil ∧ Gen.C09.oobCfg.divisor = 2 := by decide

/-- the lower-face conjunct is either the recorded vacuous `all(c_min) >= 0` (open finding C09-K1) or
an element-wise `>= 0` (a repair); anything else breaks this theorem -/
theorem oob_lower_recorded :
    Gen.C09.oobCfg.lower = .vacuousAll ∨ Gen.C09.oobCfg.lower = .elementwise .ge := by decide

theorem oob_code_cfg : Gen.C09.oobCfg = oobCfgAsIs ∨ Gen.C09.oobCfg = oobCfgDoc := by decide

/-- `trimvol = start - 1`, dropped when `< 1` or `> tdim` -/
theorem trim_cfg_documented : Gen.C09.trimCfg = trimCfgDoc := by decide

/-- inside the mask volume when `0 <= idx < shape`, removed when the voxel `== 0` -/
theorem mask_cfg_documented : Gen.C09.maskCfg = maskCfgDoc := by decide

/-- anchor (implied by `mask_skeleton_documented`, kept as a named fact for the regression of a0240b0): the subtomo ids are
carried through the same bounds filter as the coordinates -/
theorem mask_ids_through_filter : Gen.C09.maskIdsThroughFilter = some true := by decide

/-- `clean_by_tomo_mask` loads `tomo_list` with an effective `sort_angles = False` (`LOAD_TOMO_LIST` in the skeleton is
`ioutils.tlt_load(tomo_list, sort_angles=False)`): a list read from a FILE reaches the pairing with the masks in the order of
its lines. Before that repair the effective value was `tlt_load`'s default `True` (`cleanMask_sorted_file_counterexample`). -/
theorem mask_tomo_list_as_given : Gen.C09.maskTomoFileSorted = false := by decide

/-- a text FILE of tomogram numbers is read with a 64-bit reader (`READ_TOMO_FILE(tomo_list, EXACT_DTYPE)` in the skeleton is
`ioutils.one_value_per_line_read(tomo_list, data_type=np.float64)`), so every number arrives exactly. Before that repair the file went
through `tlt_load`, whose reader defaults to float32 (`cleanMask_float32_file_counterexample`). -/
theorem mask_tomo_file_exact : Gen.C09.maskTomoFileExact = true := by decide

/-- anchor: `tlt_load(input_tlt, sort_angles=True)` — whoever omits the keyword gets sorted values; the translator also checks
that every sorting call of `tlt_load` sits under `if sort_angles:` (anchor `tlt_load:nothing is sorted unless sort_angles holds`) -/
theorem tlt_load_sort_default_documented : Gen.C09.tltLoadSortDefault = true := by decide

/-- anchor: `cryomap.read` turns file order (z, y, x) into array index `[x, y, z]` -/
theorem read_transpose_documented : Gen.C09.readTransposeAxes = [2, 1, 0] := by decide

theorem points_ball_query_per_tomogram : Gen.C09.pointsBallQueryPerTomogram = true := by decide

/-- the complete position is `x + shift_x, y + shift_y, z + shift_z` -/
theorem coord_columns_documented :
    Gen.C09.coordColumns = ["x", "y", "z"] ∧ Gen.C09.shiftColumns = ["shift_x", "shift_y", "shift_z"] := by decide

/-- an N×4 dimensions table is read as tomo_id, x, y, z -/
theorem dim_columns_documented : Gen.C09.dimColumns = ["tomo_id", "x", "y", "z"] := by decide


/-- `cryomap.binarize`: a mask voxel is non-zero iff `value > 0.5` -/
theorem binarize_documented : Gen.C09.binarizeCfg = binarizeCfgDoc := by decide

/-! ### signature defaults the statement depends on (the harness omits these keywords in a share of its calls).
These `…_documented` equalities — like the skeleton equalities below — are TRANSLATOR ANCHORS: they tie the text of today's
source to the model; none of them is a clause of the property. -/

/-- `remove_out_of_bounds_particles(dimensions, boundary_type="center", box_size=None)` -/
theorem oob_defaults_documented :
    Gen.C09.oobDefaults = [("boundary_type", "'center'"), ("box_size", "None")] := by decide

/-- `clean_by_distance_to_points(points, radius_in_voxels, feature_id="tomo_id", inplace=True, output_file=None)`:
grouping is by tomogram and the list itself is cleaned unless asked otherwise -/
theorem points_defaults_documented :
    Gen.C09.pointsDefaults = [("feature_id", "'tomo_id'"), ("inplace", "True"), ("output_file", "None")] := by decide

/-- `clean_by_tomo_mask(tomo_list, tomo_masks, inplace=True, output_file=None)` -/
theorem mask_defaults_documented :
    Gen.C09.maskDefaults = [("inplace", "True"), ("output_file", "None")] := by decide

theorem binarize_defaults_documented : Gen.C09.binarizeDefaults = [("threshold", "0.5")] := by decide

theorem dims_load_defaults_documented : Gen.C09.dimsLoadDefaults = [("tomo_idx", "None")] := by decide

theorem tlt_load_defaults_documented : Gen.C09.tltLoadDefaults = [("sort_angles", "True")] := by decide

/-- a mask given as a file path goes through `cryomap.read(path)` with these defaults (`binarize` passes nothing else) -/
theorem read_defaults_documented : Gen.C09.readDefaults = [("transpose", "True"), ("data_type", "None")] := by decide

/-! ### body skeletons (translator anchors, not clauses of the property): everything of the anchored functions that is not one of
the operators above. Locals are renamed `v1, v2, …` in order of first binding and a local that is never read prints as `_` (a
renamed local changes nothing here); docstrings and type annotations are dropped; the text of exception messages is `MSG` (the
exception TYPE stays) and `print`/log calls are `LOG()`; `(X).all(axis=k)` is written `np.all(X, axis=k)`; the extracted
operators/constants appear as named holes. An added, removed, reordered or edited statement breaks the `rfl`. -/

/-- `remove_out_of_bounds_particles`: dimensions through `ioutils.dimensions_load`, refusals, complete positions, per row the
FIRST dimension row of the row's own tomogram, `c ∓ boundary` on `x..z`, one conjunction of the lower test and three upper tests
(axis i against column x/y/z), survivors by `iloc` in order -/
theorem oob_skeleton_documented : Gen.C09.oobSkeleton = [
  "def(self, dimensions, boundary_type='center', box_size=None)",
  "v1 = ioutils.dimensions_load(dimensions)",
  "_ = len(self.df)",
  "if boundary_type == 'whole':",
  "    if box_size:",
  "        v2 = HALF_BOX(box_size)",
  "    else:",
  "        raise UserInputError(MSG)",
  "elif boundary_type == 'center':",
  "    v2 = 0",
  "else:",
  "    raise UserInputError(MSG)",
  "v3 = self.get_coordinates()",
  "v4 = pd.DataFrame({'x': v3[:, 0], 'y': v3[:, 1], 'z': v3[:, 2], 'tomo_id': self.df['tomo_id'].values})",
  "v5 = []",
  "for v6, v7 in v4.iterrows():",
  "    v8 = v7['tomo_id']",
  "    v9 = v1.loc[v1['tomo_id'] == v8, 'x':'z'].reset_index(drop=True)",
  "    v10 = [v11 - v2 for v11 in v7['x':'z']]",
  "    v12 = [v11 + v2 for v11 in v7['x':'z']]",
  "    if LOWER_FACES_OK(v10) and CMP_UPPER(v12[0], v9['x'][0]) and CMP_UPPER(v12[1], v9['y'][0]) and CMP_UPPER(v12[2], v9['z'][0]):",
  "        v5.append(v6)",
  "self.df = self.df.iloc[v5].reset_index(drop=True)",
  "LOG()",
  "LOG()"] := rfl

/-- `adapt_to_trimming`: `start - OFFSET` is a NEW array (the caller's array is not touched), `tdim = end - that`, x,y,z shifted for
every row, then the two negated any-axis filters -/
theorem trim_skeleton_documented : Gen.C09.trimSkeleton = [
  "def(self, trim_coord_start, trim_coord_end)",
  "v1 = np.asarray(trim_coord_start) - OFFSET",
  "v2 = np.asarray(trim_coord_end) - v1",
  "self.df[['x', 'y', 'z']] = self.df[['x', 'y', 'z']] - np.tile(v1, (self.df.shape[0], 1))",
  "self.df = self.df.loc[~(CMP_LOW(self.df['x'], LOW_BOUND) | CMP_LOW(self.df['y'], LOW_BOUND) | CMP_LOW(self.df['z'], LOW_BOUND)), :]",
  "self.df = self.df.loc[~(CMP_HIGH(self.df['x'], v2[0]) | CMP_HIGH(self.df['y'], v2[1]) | CMP_HIGH(self.df['z'], v2[2])), :]"] := rfl

/-- `clean_by_tomo_mask`: list-length check, binarisation, per listed tomogram the subset of the ORIGINAL list, truncated complete
positions, the bounds mask applied to coordinates AND ids alike, voxel lookup `[x, y, z]`, rows dropped from the copy -/
theorem mask_skeleton_documented : Gen.C09.maskSkeleton = [
  "def(self, tomo_list, tomo_masks, inplace=True, output_file=None)",
  "if not isinstance(tomo_list, (str, list, np.ndarray)):",
  "    tomo_list = np.atleast_1d(np.asarray(tomo_list))",
  "if isinstance(tomo_list, str) and (not tomo_list.endswith(('.mdoc', '.xml'))):",
  "    v1 = READ_TOMO_FILE(tomo_list, EXACT_DTYPE)",
  "else:",
  "    v1 = LOAD_TOMO_LIST(tomo_list)",
  "v2 = True",
  "if isinstance(tomo_masks, list):",
  "    if len(v1) != len(tomo_masks):",
  "        raise ValueError(MSG)",
  "else:",
  "    v3 = cryomap.binarize(tomo_masks)",
  "    v2 = False",
  "v4 = Motl.load(self)",
  "for v5, v6 in enumerate(v1):",
  "    v7 = self.get_motl_subset(v6, reset_index=True)",
  "    v8 = v7.get_coordinates().astype(int)",
  "    if v2:",
  "        v3 = cryomap.binarize(tomo_masks[v5])",
  "    v9 = np.all(CMP_IDX_LOW(v8, 0), axis=1) & CMP_IDX_HIGH(v8[:, 0], v3.shape[0]) & CMP_IDX_HIGH(v8[:, 1], v3.shape[1]) & CMP_IDX_HIGH(v8[:, 2], v3.shape[2])",
  "    v8 = v8[v9]",
  "    v10 = v7.df['subtomo_id'].values[v9]",
  "    v11 = v3[v8[:, 0], v8[:, 1], v8[:, 2]]",
  "    v12 = np.where(CMP_VOXEL(v11, 0))[0]",
  "    v13 = v10[v12]",
  "    DROP_ROWS(v4, v6, v13)",
  "    LOG()",
  "v4.df.reset_index(inplace=True, drop=True)",
  "if output_file is not None:",
  "    v4.write_out(output_file)",
  "if inplace:",
  "    self.df = v4.df",
  "else:",
  "    return v4"] := rfl

/-- `clean_by_distance_to_points`: per value of `feature_id` a KD-tree of the particles' complete positions, one closed-ball query
per reference point of that tomogram with `r = radius_in_voxels`, hit rows dropped by position, groups concatenated -/
theorem points_skeleton_documented : Gen.C09.pointsSkeleton = [
  "def(self, points, radius_in_voxels, feature_id='tomo_id', inplace=True, output_file=None)",
  "v1 = self.get_unique_values(feature_id)",
  "v2 = pd.DataFrame()",
  "for v3 in v1:",
  "    v4 = self.get_motl_subset(v3, feature_id=feature_id, reset_index=True)",
  "    v5 = v4.get_coordinates()",
  "    v6 = points.loc[points[feature_id] == v3, ['x', 'y', 'z']].values",
  "    v7 = KDTree(v5)",
  "    v8 = set()",
  "    for v9 in v6:",
  "        v10 = v7.query_ball_point(v9, r=radius_in_voxels)",
  "        v8.update(v10)",
  "    v8 = sorted(v8)",
  "    v11 = v4.df.drop(index=v8)",
  "    v2 = pd.concat([v2, v11], ignore_index=True)",
  "v2.reset_index(drop=True, inplace=True)",
  "v12 = Motl(v2)",
  "if output_file:",
  "    v12.write_out(output_file)",
  "LOG()",
  "if inplace:",
  "    self.df = v2",
  "else:",
  "    return v12"] := rfl

/-- `get_coordinates`: `x,y,z + shift_x,shift_y,shift_z` -/
theorem coords_skeleton_documented : Gen.C09.coordsSkeleton = [
  "def(self, tomo_number=None)",
  "if tomo_number is None:",
  "    v1 = self.df.loc[:, ['x', 'y', 'z']].values + self.df.loc[:, ['shift_x', 'shift_y', 'shift_z']].values",
  "else:",
  "    v1 = self.df.loc[self.df.loc[:, 'tomo_id'] == tomo_number, ['x', 'y', 'z']].values + self.df.loc[self.df.loc[:, 'tomo_id'] == tomo_number, ['shift_x', 'shift_y', 'shift_z']].values",
  "return v1"] := rfl

/-- `ioutils.dimensions_load`: DataFrame as is, `.com` file, text file (`\\s+` separated, no header, float), every other
input through `np.asarray` (list, nested list, tuple, ndarray; 1-D reshaped to one row); 1×3 → x,y,z, N×4 → tomo_id,x,y,z, anything
else refused -/
theorem dims_load_skeleton_documented : Gen.C09.dimsLoadSkeleton = [
  "def(input_dims, tomo_idx=None)",
  "if isinstance(input_dims, pd.DataFrame):",
  "    v1 = input_dims",
  "elif isinstance(input_dims, str):",
  "    if input_dims.endswith('.com'):",
  "        v2 = imod_com_read(input_dims)",
  "        v1 = np.zeros((1, 3))",
  "        v1[0, 0:2] = v2['FULLIMAGE']",
  "        v1[0, 2] = v2['THICKNESS'][0]",
  "        v1 = pd.DataFrame(v1)",
  "    elif os.path.isfile(input_dims):",
  "        v1 = pd.read_csv(input_dims, sep='\\\\s+', header=None, dtype=float)",
  "    else:",
  "        raise ValueError(MSG)",
  "else:",
  "    input_dims = np.asarray(input_dims)",
  "    if input_dims.ndim == 1:",
  "        input_dims = np.reshape(input_dims, (1, input_dims.shape[0]))",
  "    v1 = pd.DataFrame(input_dims)",
  "if v1.shape == (1, 3):",
  "    v1.columns = ['x', 'y', 'z']",
  "elif v1.shape[1] == 4:",
  "    v1.columns = ['tomo_id', 'x', 'y', 'z']",
  "else:",
  "    raise ValueError(MSG)",
  "if tomo_idx is not None:",
  "    v3 = tlt_load(tomo_idx).astype(int)",
  "    if 'tomo_id' not in v1.columns:",
  "        v4 = np.repeat(v1[['x', 'y', 'z']].values, len(v3), axis=0)",
  "        v1 = pd.DataFrame(v4, columns=['x', 'y', 'z'])",
  "        v1['tomo_id'] = v3",
  "return v1"] := rfl

/-- `cryomap.binarize`: `read`, one comparison with the threshold, 0/1 integers -/
theorem binarize_skeleton_documented : Gen.C09.binarizeSkeleton = [
  "def(input_map, threshold=0.5)",
  "input_map = read(input_map)",
  "v1 = CMP_BIN(input_map, threshold).astype(int)",
  "return v1"] := rfl

/-! helper bodies the four filters run through (translator anchors; pinned since round 7) -/

/-- `Motl.get_motl_subset`: for every listed value, in list order, the rows whose feature EQUALS it (`==`, no tolerance), copied and
concatenated — no row dropped, none merged; index reset on request -/
theorem subset_skeleton_documented : Gen.C09.subsetSkeleton = [
  "def(self, feature_values, feature_id='tomo_id', return_df=False, reset_index=True)",
  "feature_values = np.atleast_1d(np.asarray(feature_values))",
  "v1 = Motl.create_empty_motl_df()",
  "for v2 in feature_values:",
  "    v3 = self.df.loc[self.df[feature_id] == v2].copy()",
  "    v1 = pd.concat([v1, v3])",
  "if reset_index:",
  "    v1 = v1.reset_index(drop=True)",
  "if return_df:",
  "    return v1",
  "else:",
  "    return Motl(motl_df=v1)"] := rfl

/-- `Motl.get_unique_values`: `Series.unique()` — order of first appearance -/
theorem unique_values_skeleton_documented : Gen.C09.uniqueValuesSkeleton = [
  "def(self, feature_id)",
  "return self.df.loc[:, feature_id].unique()"] := rfl

/-- `Motl.load`: a Motl instance becomes a NEW EmMotl holding a copy of its frame -/
theorem motl_load_skeleton_documented : Gen.C09.motlLoadSkeleton = [
  "def(cls, input_motl, motl_type='emmotl')",
  "if isinstance(input_motl, Motl):",
  "    return copy.deepcopy(input_motl)",
  "if motl_type == 'emmotl':",
  "    return EmMotl(input_motl)",
  "elif motl_type == 'relion':",
  "    return RelionMotl(input_motl)",
  "elif motl_type == 'stopgap':",
  "    return StopgapMotl(input_motl)",
  "elif motl_type == 'dynamo':",
  "    return DynamoMotl(input_motl)",
  "else:",
  "    raise UserInputError(MSG)"] := rfl

/-- `ioutils.tlt_load`: ndarray as given, list through `np.asarray`, file values sorted only under `if sort_angles:` -/
theorem tlt_load_skeleton_documented : Gen.C09.tltLoadSkeleton = [
  "def(input_tlt, sort_angles=True)",
  "if isinstance(input_tlt, np.ndarray):",
  "    if input_tlt.size == 0:",
  "        raise ValueError(MSG)",
  "    else:",
  "        return input_tlt",
  "elif isinstance(input_tlt, list):",
  "    if len(input_tlt) == 0:",
  "        raise ValueError(MSG)",
  "    else:",
  "        return np.asarray(input_tlt)",
  "elif isinstance(input_tlt, str):",
  "    if input_tlt.endswith('.mdoc'):",
  "        v1 = mdoc.Mdoc(input_tlt)",
  "        v2 = v1.get_image_feature('TiltAngle').values",
  "    elif input_tlt.endswith('.xml'):",
  "        v2 = get_data_from_warp_xml(input_tlt, 'Angles', node_level=1)",
  "    else:",
  "        v2 = one_value_per_line_read(input_tlt)",
  "    if sort_angles:",
  "        v2 = np.sort(v2)",
  "    return v2",
  "else:",
  "    raise ValueError(MSG)"] := rfl

/-- `ioutils.one_value_per_line_read`: first column of a whitespace-separated file, read with dtype `data_type` (default float32) -/
theorem one_value_per_line_skeleton_documented : Gen.C09.oneValuePerLineSkeleton = [
  "def(file_path, data_type=np.float32)",
  "if not os.path.isfile(file_path):",
  "    raise ValueError(MSG)",
  "try:",
  "    v1 = pd.read_csv(file_path, header=None, dtype=data_type, sep='\\\\s+')",
  "    if v1.empty:",
  "        raise ValueError(MSG)",
  "except pd.errors.EmptyDataError:",
  "    raise ValueError(MSG)",
  "return v1.iloc[:, 0].values"] := rfl

/-- `cryomap.read`: file data transposed `(2, 1, 0)` iff `transpose` (default), arrays copied as given -/
theorem read_skeleton_documented : Gen.C09.readSkeleton = [
  "def(input_map, transpose=True, data_type=None)",
  "if isinstance(input_map, str):",
  "",
  "    def valid_mrc(filename):",
  "        v1 = '\\\\.(mrc|ali|rec|st)(\\\\.\\\\d+)?$'",
  "        return bool(re.search(v1, filename))",
  "    if valid_mrc(input_map):",
  "        v2 = mrcfile.open(input_map).data",
  "    elif input_map.endswith('.em'):",
  "        v2 = emfile.read(input_map)[1]",
  "    else:",
  "        raise ValueError(MSG)",
  "    if transpose:",
  "        v2 = v2.transpose(2, 1, 0)",
  "elif isinstance(input_map, np.ndarray):",
  "    v2 = np.array(input_map)",
  "else:",
  "    raise ValueError(MSG)",
  "v2 = np.array(v2, copy=True)",
  "if data_type is not None:",
  "    v2 = v2.astype(data_type)",
  "return v2"] := rfl

section generic
variable {α : Type} [Add α] [Sub α] [Mul α] [LT α] [LE α] [DecidableLT α] [DecidableLE α] [DecidableEq α]
  [NatCast α] [OfNat α 0]

/-! ## the model of today's source is one of the models the theorems are about -/

/-- today's `remove_out_of_bounds_particles` is `oobAsIs` (finding C09-K1) or, once repaired, `oob` -/
theorem oobCode_is (dims : List (Dim α)) (bt : BType) (box : Option Nat) (l : Motl α) :
    oobCode dims bt box l = oobAsIs dims bt box l ∨ oobCode dims bt box l = oob dims bt box l := by
  rcases oob_code_cfg with h | h
  · left; unfold oobCode oobAsIs; rw [h]
  · right; unfold oobCode oob; rw [h]

theorem trimCode_eq (s e : V3 α) (l : Motl α) : trimCode s e l = trim s e l := by
  unfold trimCode trim; rw [trim_cfg_documented]

theorem cleanMaskCode_eq (tr : α → Int) (tomos : List α) (arg : MaskArg) (l : Motl α) :
    cleanMaskCode tr tomos arg l = cleanMask tr tomos arg l := by
  unfold cleanMaskCode cleanMask; rw [mask_cfg_documented]

/-- `tlt_load(·, sort_angles=False)` hands back the caller's values in the caller's order, whatever the form of the argument -/
theorem tltLoad_false (ta : TomoArg α) : tltLoad false ta = ta.values := by cases ta <;> rfl

/-- a list / tuple / ndarray / single number is never sorted, whatever `sort_angles` says -/
theorem tltLoad_asGiven (s : Bool) (l : List α) : tltLoad s (.asGiven l) = l := rfl

/-- only a FILE is affected by `sort_angles` -/
theorem tltLoad_fromFile (s : Bool) (l : List α) : tltLoad s (.fromFile l) = if s then sortAsc l else l := rfl

/-- the documented mask filter from the argument as handed over = the loop on the list AS GIVEN -/
theorem cleanMaskArg_eq (tr : α → Int) (ta : TomoArg α) (arg : MaskArg) (l : Motl α) :
    cleanMaskArg tr ta arg l = cleanMask tr ta.values arg l := by
  unfold cleanMaskArg cleanMaskArgWith cleanMask; rw [tltLoad_false]

/-- **today's `clean_by_tomo_mask`, whatever the form of `tomo_list` (in memory or a file), is the model the theorems are about,
run on the caller's list in the caller's order** -/
theorem cleanMaskArgCode_eq (tr : α → Int) (ta : TomoArg α) (arg : MaskArg) (l : Motl α) :
    cleanMaskArgCode tr ta arg l = cleanMask tr ta.values arg l := by
  unfold cleanMaskArgCode cleanMaskArgWith cleanMask; rw [mask_cfg_documented, mask_tomo_list_as_given, tltLoad_false]

theorem readWith_id (ta : TomoArg α) : ta.readWith id = ta := by cases ta <;> simp [TomoArg.readWith]

/-- **today's `clean_by_tomo_mask` INCLUDING the reader of a tomogram file** is the documented loop on the caller's numbers in the
caller's order: no sorting (`mask_tomo_list_as_given`), no rounding (`mask_tomo_file_exact`), whatever `rd32` a 32-bit reader would be -/
theorem cleanMaskFileCode_eq (rd32 : α → α) (tr : α → Int) (ta : TomoArg α) (arg : MaskArg) (l : Motl α) :
    cleanMaskFileCode rd32 tr ta arg l = cleanMask tr ta.values arg l := by
  unfold cleanMaskFileCode
  rw [mask_tomo_file_exact, if_pos rfl, readWith_id, cleanMaskArgCode_eq]

/-! ## remove_out_of_bounds_particles -/

/-- `lookupDim` returns the FIRST row of the table that belongs to the tomogram -/
theorem lookupDim_some (dims : List (Dim α)) (t : α) (d : Dim α) (h : lookupDim dims t = some d) :
    d ∈ dims ∧ d.tomo = t := by
  unfold lookupDim at h
  exact ⟨List.mem_of_find?_eq_some h, by simpa using List.find?_some h⟩

theorem lookupDim_none (dims : List (Dim α)) (t : α) : lookupDim dims t = none ↔ ∀ d ∈ dims, d.tomo ≠ t := by
  unfold lookupDim
  simp [List.find?_eq_none]

/-- `boundary` is `0` for "center" and `⌈box/2⌉` for "whole" with a positive box size; everything
else is refused -/
theorem boundary_spec (bt : BType) (box : Option Nat) (bn : Nat) :
    boundaryWith oobCfgDoc bt box = .ok bn ↔
      (bt = .center ∧ bn = 0) ∨ (bt = .whole ∧ ∃ n, box = some n ∧ 0 < n ∧ n ≤ 2 * bn ∧ 2 * bn ≤ n + 1) := by
  rcases bt with _ | _ | _ <;> rcases box with _ | _ | n <;>
    simp [boundaryWith, oobCfgDoc, Rounding.div] <;> omega

/-- **The statement for one particle.** The complete position (`b = 0`) — or the box of half-width `b`
around it — lies inside the dimensions of the particle's OWN tomogram, on the lower as well as on the
upper side (the code's convention: lower faces closed `0 ≤ c - b`, upper faces open `c + b < dim`). -/
def InsideOwnTomogram (dims : List (Dim α)) (b : α) (p : Particle α) : Prop :=
  ∃ d, lookupDim dims p.tomo_id = some d ∧
    ((0 : α) ≤ (pos p).x - b ∧ (0 : α) ≤ (pos p).y - b ∧ (0 : α) ≤ (pos p).z - b) ∧
    ((pos p).x + b < d.x ∧ (pos p).y + b < d.y ∧ (pos p).z + b < d.z)

/-- the same with the lower faces left out: what the unrepaired code tests -/
def BelowUpperFaces (dims : List (Dim α)) (b : α) (p : Particle α) : Prop :=
  ∃ d, lookupDim dims p.tomo_id = some d ∧
    ((pos p).x + b < d.x ∧ (pos p).y + b < d.y ∧ (pos p).z + b < d.z)

theorem oobKeep_doc_iff (dims : List (Dim α)) (b : α) (p : Particle α) :
    oobKeep oobCfgDoc dims b p = true ↔ InsideOwnTomogram dims b p := by
  unfold oobKeep InsideOwnTomogram
  cases h : lookupDim dims p.tomo_id with
  | none => simp
  | some d => simp [lowerOk, upperOk, oobCfgDoc, Cmp.eval, and_assoc]

theorem oobKeep_asis_iff (dims : List (Dim α)) (b : α) (p : Particle α) :
    oobKeep oobCfgAsIs dims b p = true ↔ BelowUpperFaces dims b p := by
  unfold oobKeep BelowUpperFaces
  cases h : lookupDim dims p.tomo_id with
  | none => simp
  | some d => simp [lowerOk, upperOk, oobCfgAsIs, Cmp.eval, and_assoc]

/-- **Out-of-bounds removal keeps exactly the particles that lie inside** (for every particle list,
every dimension table, both boundary types, every box size): whenever the call is not refused, the
result is the input filtered by `InsideOwnTomogram` — order and multiplicities preserved, every
survivor an unaltered input row. -/
theorem oob_spec (dims : List (Dim α)) (bt : BType) (box : Option Nat) (l out : Motl α)
    (h : oob dims bt box l = .ok out) :
    ∃ bn, boundaryWith oobCfgDoc bt box = .ok bn ∧ KeepsExactly (InsideOwnTomogram dims (bn : α)) l out := by
  unfold oob oobWith at h
  cases hb : boundaryWith oobCfgDoc bt box with
  | error e => rw [hb] at h; simp at h
  | ok bn =>
    rw [hb] at h
    simp only at h
    split at h
    · injection h with h
      exact ⟨bn, rfl, oobKeep oobCfgDoc dims (bn : α), h.symm, fun p _ => oobKeep_doc_iff dims _ p⟩
    · simp at h

/-- membership form of `oob_spec` -/
theorem oob_mem_iff (dims : List (Dim α)) (bt : BType) (box : Option Nat) (l out : Motl α)
    (h : oob dims bt box l = .ok out) (p : Particle α) :
    p ∈ out ↔ p ∈ l ∧ ∃ bn, boundaryWith oobCfgDoc bt box = .ok bn ∧ InsideOwnTomogram dims (bn : α) p := by
  obtain ⟨bn, hb, hk⟩ := oob_spec dims bt box l out h
  rw [hk.mem_iff]
  constructor
  · rintro ⟨h1, h2⟩; exact ⟨h1, bn, hb, h2⟩
  · rintro ⟨h1, bn', hb', h2⟩
    rw [hb] at hb'; injection hb' with hb'; subst hb'
    exact ⟨h1, h2⟩

/-- survivors are never altered and stay in order -/
theorem oob_sublist (dims : List (Dim α)) (bt : BType) (box : Option Nat) (l out : Motl α)
    (h : oob dims bt box l = .ok out) : out.Sublist l := by
  obtain ⟨_, _, hk⟩ := oob_spec dims bt box l out h
  exact hk.sublist

/-- **What is refused, and nothing else**: an unknown boundary type, "whole" without a positive box
size, or a particle whose tomogram has no dimensions. -/
theorem oob_rejects_iff (dims : List (Dim α)) (bt : BType) (box : Option Nat) (l : Motl α) (e : OobErr) :
    oob dims bt box l = .error e ↔
      boundaryWith oobCfgDoc bt box = .error e ∨
      ((∃ bn, boundaryWith oobCfgDoc bt box = .ok bn) ∧ e = .noDimensions ∧ ∃ p ∈ l, lookupDim dims p.tomo_id = none) := by
  unfold oob oobWith
  cases hb : boundaryWith oobCfgDoc bt box with
  | error e' => simp
  | ok bn =>
    simp only [reduceCtorEq, false_or, Except.ok.injEq, exists_eq', true_and]
    split
    · rename_i hall
      simp only [reduceCtorEq, false_iff, not_and, not_exists]
      intro _ p hp hn
      have := List.all_eq_true.1 hall p hp
      rw [hn] at this; simp at this
    · rename_i hall
      simp only [Except.error.injEq]
      constructor
      · intro h
        refine ⟨h.symm, ?_⟩
        simp only [List.all_eq_true, not_forall] at hall
        obtain ⟨p, hp, hn⟩ := hall
        refine ⟨p, hp, ?_⟩
        cases hl : lookupDim dims p.tomo_id with
        | none => rfl
        | some d => rw [hl] at hn; simp at hn
      · rintro ⟨h, _⟩; exact h.symm

/-- the unrepaired code (finding C09-K1) keeps exactly the particles below the UPPER faces -/
theorem oobAsIs_spec (dims : List (Dim α)) (bt : BType) (box : Option Nat) (l out : Motl α)
    (h : oobAsIs dims bt box l = .ok out) :
    ∃ bn, boundaryWith oobCfgDoc bt box = .ok bn ∧ KeepsExactly (BelowUpperFaces dims (bn : α)) l out := by
  unfold oobAsIs oobWith at h
  have hbb : boundaryWith oobCfgAsIs bt box = boundaryWith oobCfgDoc bt box := rfl
  rw [hbb] at h
  cases hb : boundaryWith oobCfgDoc bt box with
  | error e => rw [hb] at h; simp at h
  | ok bn =>
    rw [hb] at h
    simp only at h
    split at h
    · injection h with h
      exact ⟨bn, rfl, oobKeep oobCfgAsIs dims (bn : α), h.symm, fun p _ => oobKeep_asis_iff dims _ p⟩
    · simp at h

/-- **Partial correctness of the unrepaired code (C09-K1).** If no particle of the list reaches below a
lower face, the unrepaired code computes exactly what the property demands. The hypothesis is the
class excluded by the open finding and is necessary (`oob_counterexample`). -/
theorem oob_partial (dims : List (Dim α)) (bt : BType) (box : Option Nat) (l : Motl α)
    (hlow : ∀ bn, boundaryWith oobCfgDoc bt box = .ok bn → ∀ p ∈ l,
      (0 : α) ≤ (pos p).x - (bn : α) ∧ (0 : α) ≤ (pos p).y - (bn : α) ∧ (0 : α) ≤ (pos p).z - (bn : α)) :
    oobAsIs dims bt box l = oob dims bt box l := by
  unfold oobAsIs oob oobWith
  have hbb : boundaryWith oobCfgAsIs bt box = boundaryWith oobCfgDoc bt box := rfl
  rw [hbb]
  cases hb : boundaryWith oobCfgDoc bt box with
  | error e => rfl
  | ok bn =>
    simp only
    split
    · congr 1
      apply List.filter_congr
      intro p hp
      have hl := hlow bn hb p hp
      unfold oobKeep
      cases lookupDim dims p.tomo_id with
      | none => rfl
      | some d => simp [lowerOk, oobCfgAsIs, oobCfgDoc, Cmp.eval, hl]
    · rfl

/-- the unrepaired code errs on one side only: it never removes a particle that lies inside (its
result contains the demanded one as a sublist) -/
theorem oobAsIs_keeps_more (dims : List (Dim α)) (bt : BType) (box : Option Nat) (l o₁ : Motl α)
    (h : oob dims bt box l = .ok o₁) : ∃ o₂, oobAsIs dims bt box l = .ok o₂ ∧ o₁.Sublist o₂ := by
  unfold oob oobWith at h
  unfold oobAsIs oobWith
  have hbb : boundaryWith oobCfgAsIs bt box = boundaryWith oobCfgDoc bt box := rfl
  rw [hbb]
  cases hb : boundaryWith oobCfgDoc bt box with
  | error e => rw [hb] at h; simp at h
  | ok bn =>
    rw [hb] at h
    simp only at h ⊢
    split at h
    · rename_i hall
      rw [if_pos hall]
      injection h with h
      refine ⟨_, rfl, ?_⟩
      have : o₁ = (l.filter (oobKeep oobCfgAsIs dims (bn : α))).filter (oobKeep oobCfgDoc dims (bn : α)) := by
        rw [← h, List.filter_filter]
        apply List.filter_congr
        intro p _
        cases hd : oobKeep oobCfgDoc dims (bn : α) p with
        | false => rfl
        | true =>
          have h1 := (oobKeep_doc_iff dims _ p).1 hd
          obtain ⟨d, hl, _, hu⟩ := h1
          have : oobKeep oobCfgAsIs dims (bn : α) p = true := (oobKeep_asis_iff dims _ p).2 ⟨d, hl, hu⟩
          simp [this]
      rw [this]
      exact List.filter_sublist
    · simp at h

end generic

/-- the particle of the pinned test `test_remove_out_of_bounds_particles` (third assertion): centre
(10,10,10) in a 100³ tomogram, box 40 — the box reaches to −10 -/
def k1Particle : Particle Int :=
  Particle.ofFn (fun f => match f with
    | .x => 10 | .y => 10 | .z => 10 | .tomo_id => 1 | .subtomo_id => 1 | _ => 0)

/-- a particle with a negative centre, boundary type "center" -/
def k1Negative : Particle Int :=
  Particle.ofFn (fun f => match f with
    | .x => -3 | .y => 10 | .z => 10 | .tomo_id => 1 | .subtomo_id => 2 | _ => 0)

/-- **Witness of the open finding C09-K1** (replayed against the real code from corpus/C09 on every
run): the unrepaired code keeps both particles, the property removes them; so the output of the
unrepaired code does NOT keep exactly the inside particles. -/
theorem oob_counterexample :
    (oobAsIs [⟨1, 100, 100, 100⟩] .whole (some 40) [k1Particle]).toOption = some [k1Particle] ∧
    (oob [⟨1, 100, 100, 100⟩] .whole (some 40) [k1Particle]).toOption = some [] ∧
    (oobAsIs [⟨1, 100, 100, 100⟩] .center none [k1Negative]).toOption = some [k1Negative] ∧
    (oob [⟨1, 100, 100, 100⟩] .center none [k1Negative]).toOption = some [] ∧
    ¬ KeepsExactly (InsideOwnTomogram [⟨1, 100, 100, 100⟩] ((20 : Nat) : Int)) [k1Particle] [k1Particle] := by
  refine ⟨by decide, by decide, by decide, by decide, ?_⟩
  intro h
  have := (h.mem_iff k1Particle).1 (List.mem_singleton.2 rfl)
  obtain ⟨_, d, hd, hlo, _⟩ := this
  revert hlo
  decide

/-! ## adapt_to_trimming — needs the order axioms (`¬ a < b ↔ b ≤ a`) -/

section ring
variable {R : Type} [CommRing R] [LinearOrder R] [IsStrictOrderedRing R]

/-- the extraction position lies inside the trim box `[start, end]` (1-based voxel coordinates of
the untrimmed volume, both ends included) -/
def InsideTrim (s e : V3 R) (p : Particle R) : Prop :=
  (s.x ≤ p.x ∧ p.x ≤ e.x) ∧ (s.y ≤ p.y ∧ p.y ≤ e.y) ∧ (s.z ≤ p.z ∧ p.z ≤ e.z)

/-- the documented coordinate offset: the origin of the trimmed volume, `start - 1` -/
def trimOffset (s : V3 R) : V3 R := ⟨s.x - 1, s.y - 1, s.z - 1⟩

theorem trimOrigin_doc (s : V3 R) : trimOrigin trimCfgDoc s = trimOffset s := by
  simp [trimOrigin, trimCfgDoc, trimOffset]

/-- **Trimming adaptation keeps exactly the particles inside the trimmed volume and re-expresses
x,y,z relative to it**: the result is the list of the particles whose extraction position lies in the
trim box (order, multiplicity preserved), each with `x,y,z` moved by `start - 1` and nothing else. -/
theorem trim_spec (s e : V3 R) (l : Motl R) :
    ∃ kept, KeepsExactly (InsideTrim s e) l kept ∧ trim s e l = kept.map (shiftXYZ (trimOffset s)) := by
  refine ⟨l.filter (fun p => !trimHighOut trimCfgDoc (trimDim trimCfgDoc s e) (shiftXYZ (trimOffset s) p) &&
            !trimLowOut trimCfgDoc (shiftXYZ (trimOffset s) p)), ⟨_, rfl, ?_⟩, ?_⟩
  · intro p _
    simp only [trimHighOut, trimLowOut, trimCfgDoc, Cmp.eval, trimDim, trimOrigin, shiftXYZ, trimOffset, InsideTrim,
      Bool.and_eq_true, Bool.not_eq_true', Bool.or_eq_false_iff, decide_eq_false_iff_not, not_lt, Nat.cast_one]
    have hx : ∀ u v : V3 R, (u - v).x = u.x - v.x := fun _ _ => rfl
    have hy : ∀ u v : V3 R, (u - v).y = u.y - v.y := fun _ _ => rfl
    have hz : ∀ u v : V3 R, (u - v).z = u.z - v.z := fun _ _ => rfl
    simp only [hx, hy, hz]
    constructor
    · rintro ⟨⟨⟨h1, h2⟩, h3⟩, ⟨h4, h5⟩, h6⟩
      refine ⟨⟨?_, ?_⟩, ⟨?_, ?_⟩, ⟨?_, ?_⟩⟩ <;> linarith
    · rintro ⟨⟨h1, h2⟩, ⟨h3, h4⟩, ⟨h5, h6⟩⟩
      refine ⟨⟨⟨?_, ?_⟩, ?_⟩, ⟨?_, ?_⟩, ?_⟩ <;> linarith
  · unfold trim trimWith
    rw [List.filter_filter, List.filter_map, trimOrigin_doc]
    rfl

/-- survivors are altered by the documented offset only: the 17 other fields are untouched -/
theorem shiftXYZ_other (o : V3 R) (p : Particle R) (f : Field) (hx : f ≠ .x) (hy : f ≠ .y) (hz : f ≠ .z) :
    (shiftXYZ o p).get f = p.get f := by
  cases f <;> first | rfl | exact absurd rfl hx | exact absurd rfl hy | exact absurd rfl hz

/-- anchor (definitional restatement of `shiftXYZ`, not a clause of its own): the three moved fields -/
theorem shiftXYZ_xyz (o : V3 R) (p : Particle R) :
    (shiftXYZ o p).x = p.x - o.x ∧ (shiftXYZ o p).y = p.y - o.y ∧ (shiftXYZ o p).z = p.z - o.z := ⟨rfl, rfl, rfl⟩

/-- every survivor comes from an input particle inside the trim box, and its new coordinates are
valid 1-based coordinates of the trimmed volume: `1 ≤ x' ≤ end - start + 1` -/
theorem trim_survivor (s e : V3 R) (l : Motl R) (q : Particle R) (hq : q ∈ trim s e l) :
    ∃ p ∈ l, InsideTrim s e p ∧ q = shiftXYZ (trimOffset s) p ∧
      (1 ≤ q.x ∧ q.x ≤ e.x - s.x + 1) ∧ (1 ≤ q.y ∧ q.y ≤ e.y - s.y + 1) ∧ (1 ≤ q.z ∧ q.z ≤ e.z - s.z + 1) := by
  obtain ⟨kept, hk, ht⟩ := trim_spec s e l
  rw [ht, List.mem_map] at hq
  obtain ⟨p, hp, rfl⟩ := hq
  obtain ⟨hpl, hin⟩ := (hk.mem_iff p).1 hp
  refine ⟨p, hpl, hin, rfl, ?_⟩
  obtain ⟨⟨h1, h2⟩, ⟨h3, h4⟩, ⟨h5, h6⟩⟩ := hin
  simp only [shiftXYZ, trimOffset]
  refine ⟨⟨?_, ?_⟩, ⟨?_, ?_⟩, ⟨?_, ?_⟩⟩ <;> linarith

/-- nothing inside is lost -/
theorem trim_complete (s e : V3 R) (l : Motl R) (p : Particle R) (hp : p ∈ l) (hin : InsideTrim s e p) :
    shiftXYZ (trimOffset s) p ∈ trim s e l := by
  obtain ⟨kept, hk, ht⟩ := trim_spec s e l
  rw [ht]
  exact List.mem_map_of_mem ((hk.mem_iff p).2 ⟨hp, hin⟩)

/-- for `d, r ≥ 0`: `d² ≤ r² ↔ d ≤ r` (arithmetic lemma; `inBall_iff_dist_le` connects it to the model) -/
theorem closed_ball_iff (d r : R) (hd : 0 ≤ d) (hr : 0 ≤ r) : d * d ≤ r * r ↔ d ≤ r := by
  constructor
  · intro h
    by_contra hlt
    have hlt' : r < d := not_le.1 hlt
    have : r * r < d * d := by nlinarith
    linarith
  · intro h; nlinarith

/-- **"within the radius" is the closed Euclidean ball.** The model tests `dist2 c q ≤ r * r` (no square root); for a radius
`r ≥ 0` and `d` THE Euclidean distance of `c` and `q` (the non-negative number whose square is `dist2 c q`) that is `d ≤ r`. -/
theorem inBall_iff_dist_le (r d : R) (q c : V3 R) (hr : 0 ≤ r) (hd : 0 ≤ d) (hdd : d * d = dist2 c q) :
    inBall r q c = true ↔ d ≤ r := by
  unfold inBall
  rw [decide_eq_true_eq, ← hdd]
  exact closed_ball_iff d r hd hr

/-- **What the model (and scipy, probed by the harness) does for a NEGATIVE radius:** only `r²` enters, so `-r` selects the same
particles as `r`. The property speaks of radii `r ≥ 0`; a negative radius is outside its quantifier and is never generated. -/
theorem inBall_neg (r : R) (q c : V3 R) : inBall (-r) q c = inBall r q c := by
  unfold inBall; rw [neg_mul_neg]

theorem nearPoint_neg (r : R) (pts : List (Pt R)) (p : Particle R) : nearPoint (-r) pts p = nearPoint r pts p := by
  unfold nearPoint; simp only [inBall_neg]

/-- radius `0`: exactly the particles sitting ON a reference point of their tomogram are "within the radius" -/
theorem inBall_zero_iff (q c : V3 R) : inBall (0 : R) q c = true ↔ c = q := by
  unfold inBall dist2
  rw [decide_eq_true_eq, mul_zero]
  constructor
  · intro h
    have hx : (c.x - q.x) * (c.x - q.x) ≥ 0 := mul_self_nonneg _
    have hy : (c.y - q.y) * (c.y - q.y) ≥ 0 := mul_self_nonneg _
    have hz : (c.z - q.z) * (c.z - q.z) ≥ 0 := mul_self_nonneg _
    have h1 : (c.x - q.x) * (c.x - q.x) = 0 := by linarith
    have h2 : (c.y - q.y) * (c.y - q.y) = 0 := by linarith
    have h3 : (c.z - q.z) * (c.z - q.z) = 0 := by linarith
    have e1 := sub_eq_zero.1 (mul_self_eq_zero.1 h1)
    have e2 := sub_eq_zero.1 (mul_self_eq_zero.1 h2)
    have e3 := sub_eq_zero.1 (mul_self_eq_zero.1 h3)
    cases c; cases q; simp_all
  · rintro rfl; simp

/-! ### `np.sort` of a tomogram list read from a file (what `tlt_load` does when `sort_angles` holds) -/

theorem insertAsc_perm (a : R) (l : List R) : (insertAsc a l).Perm (a :: l) := by
  induction l with
  | nil => exact List.Perm.refl _
  | cons b l ih =>
    unfold insertAsc
    split
    · exact List.Perm.refl _
    · exact (List.Perm.cons b ih).trans (List.Perm.swap a b l)

/-- sorting only permutes the list … -/
theorem sortAsc_perm (l : List R) : (sortAsc l).Perm l := by
  induction l with
  | nil => exact List.Perm.refl _
  | cons a l ih => exact (insertAsc_perm a (sortAsc l)).trans (List.Perm.cons a ih)

theorem insertAsc_eq_cons (a : R) (l : List R) (h : ∀ b ∈ l, a ≤ b) : insertAsc a l = a :: l := by
  cases l with
  | nil => rfl
  | cons b l => unfold insertAsc; rw [if_pos (h b (List.mem_cons_self ..))]

/-- … and leaves an ascending list alone: on a file whose lines are already ascending the unrepaired code was right -/
theorem sortAsc_eq_self (l : List R) (h : l.Pairwise (· ≤ ·)) : sortAsc l = l := by
  induction l with
  | nil => rfl
  | cons a l ih =>
    rw [List.pairwise_cons] at h
    show insertAsc a (sortAsc l) = a :: l
    rw [ih h.2, insertAsc_eq_cons a l h.1]

/-- **Partial correctness of the code before the `sort_angles=False` repair**: for a list in memory always, for a file whenever
its lines are ascending, it computed the same as the repaired code. The hypothesis is necessary:
`cleanMask_sorted_file_counterexample`. -/
theorem cleanMaskArgSorted_eq_of_ascending (tr : R → Int) (ta : TomoArg R) (arg : MaskArg) (l : Motl R)
    (h : ∀ vs, ta = .fromFile vs → vs.Pairwise (· ≤ ·)) :
    cleanMaskArgSorted tr ta arg l = cleanMaskArg tr ta arg l := by
  unfold cleanMaskArgSorted cleanMaskArg cleanMaskArgWith
  cases ta with
  | asGiven vs => rfl
  | fromFile vs => rw [tltLoad_fromFile, tltLoad_fromFile, if_pos rfl, sortAsc_eq_self vs (h vs rfl)]; rfl

end ring

/-! ## clean_by_distance_to_points -/

section generic2
variable {α : Type} [Add α] [Sub α] [Mul α] [LT α] [LE α] [DecidableLT α] [DecidableLE α] [DecidableEq α]
  [NatCast α] [OfNat α 0]

/-- the complete position is within the radius (closed ball, `dist² ≤ r²`) of a reference point of
the SAME tomogram -/
def NearPoint (r : α) (pts : List (Pt α)) (p : Particle α) : Prop :=
  ∃ q ∈ pts, q.tomo = p.tomo_id ∧ dist2 (pos p) q.c ≤ r * r

theorem nearPoint_iff (r : α) (pts : List (Pt α)) (p : Particle α) :
    nearPoint r pts p = true ↔ NearPoint r pts p := by
  simp [nearPoint, NearPoint, inBall, List.any_eq_true]

/-- **Cleaning against reference points removes exactly the particles within the radius of a point
of the same tomogram**: the result is a permutation (the rows come out grouped by tomogram) of the
input filtered by `¬ NearPoint` — so multiplicities are exact and every survivor is an unaltered
input row. -/
theorem cleanPoints_perm (r : α) (pts : List (Pt α)) (l : Motl α) :
    ∃ kept, KeepsExactly (fun p => ¬ NearPoint r pts p) l kept ∧ (cleanPoints r pts l).Perm kept := by
  refine ⟨l.filter (fun p => !nearPoint r pts p), ⟨_, rfl, fun p _ => by show (!nearPoint r pts p) = true ↔ ¬ NearPoint r pts p; rw [← nearPoint_iff]; simp⟩, ?_⟩
  unfold cleanPoints
  have hcomm : ∀ t, (l.filter (fun p => decide (p.tomo_id = t))).filter (fun p => !nearPoint r pts p)
      = (l.filter (fun p => !nearPoint r pts p)).filter (fun p => decide (p.tomo_id = t)) := by
    intro t; rw [List.filter_filter, List.filter_filter]; apply List.filter_congr; intro x _; exact Bool.and_comm _ _
  simp only [hcomm]
  have hks : ∀ t, t ∈ uniques (l.map (·.tomo_id)) ↔ t ∈ l.map (·.tomo_id) := fun t => mem_uniques _ t
  refine (flatMap_groups_perm (fun p : Particle α => p.tomo_id) _ (nodup_uniques _) _).trans ?_
  apply List.Perm.of_eq
  rw [List.filter_eq_self]
  intro x hx
  simp only [decide_eq_true_eq, hks]
  exact List.mem_map_of_mem (List.mem_filter.1 hx).1

/-- **The driver's `spec` for the reference-point clause is the statement itself**: the input without the particles within the
radius of a point of their own tomogram — order and multiplicities of the input, every survivor an unaltered row. -/
theorem cleanPointsStmt_spec (r : α) (pts : List (Pt α)) (l : Motl α) :
    KeepsExactly (fun p => ¬ NearPoint r pts p) l (cleanPointsStmt r pts l) :=
  ⟨_, rfl, fun p _ => by show (!nearPoint r pts p) = true ↔ ¬ NearPoint r pts p; rw [← nearPoint_iff]; simp⟩

/-- the code (per-tomogram loop, groups concatenated) returns a permutation of the statement's list -/
theorem cleanPoints_perm_stmt (r : α) (pts : List (Pt α)) (l : Motl α) :
    (cleanPoints r pts l).Perm (cleanPointsStmt r pts l) := by
  obtain ⟨kept, hk, hp⟩ := cleanPoints_perm r pts l
  rw [(cleanPointsStmt_spec r pts l).unique hk]; exact hp

/-- membership form -/
theorem cleanPoints_mem_iff (r : α) (pts : List (Pt α)) (l : Motl α) (p : Particle α) :
    p ∈ cleanPoints r pts l ↔ p ∈ l ∧ ¬ NearPoint r pts p := by
  obtain ⟨kept, hk, hp⟩ := cleanPoints_perm r pts l
  rw [hp.mem_iff, hk.mem_iff]

/-- inside every tomogram the surviving rows keep their original order: the rows of tomogram `t` in
the result are the rows of tomogram `t` of the input, filtered -/
theorem cleanPoints_tomogram_order (r : α) (pts : List (Pt α)) (l : Motl α) (t : α) :
    (cleanPoints r pts l).filter (fun p => decide (p.tomo_id = t))
      = (l.filter (fun p => decide (p.tomo_id = t))).filter (fun p => !nearPoint r pts p) := by
  unfold cleanPoints
  have hcomm : ∀ t, (l.filter (fun p => decide (p.tomo_id = t))).filter (fun p => !nearPoint r pts p)
      = (l.filter (fun p => !nearPoint r pts p)).filter (fun p => decide (p.tomo_id = t)) := by
    intro t; rw [List.filter_filter, List.filter_filter]; apply List.filter_congr; intro x _; exact Bool.and_comm _ _
  simp only [hcomm]
  rw [filter_flatMap_groups (fun p : Particle α => p.tomo_id) _ (nodup_uniques _)]
  split
  · rfl
  · rename_i hn
    symm
    rw [List.filter_eq_nil_iff]
    intro p hp
    simp only [decide_eq_true_eq]
    intro hpt
    apply hn
    rw [mem_uniques, ← hpt]
    exact List.mem_map_of_mem (List.mem_filter.1 hp).1

/-- code and statement agree tomogram by tomogram, order included — this (not the order of the groups) is what the harness
compares for the reference-point filter -/
theorem cleanPoints_tomogram_order_stmt (r : α) (pts : List (Pt α)) (l : Motl α) (t : α) :
    (cleanPoints r pts l).filter (fun p => decide (p.tomo_id = t))
      = (cleanPointsStmt r pts l).filter (fun p => decide (p.tomo_id = t)) := by
  rw [cleanPoints_tomogram_order]
  unfold cleanPointsStmt
  rw [List.filter_filter, List.filter_filter]
  apply List.filter_congr; intro x _; exact Bool.and_comm _ _

/-- a list that lives in one tomogram is not even reordered -/
theorem cleanPoints_single_tomogram (r : α) (pts : List (Pt α)) (l : Motl α) (t : α)
    (h : ∀ p ∈ l, p.tomo_id = t) : KeepsExactly (fun p => ¬ NearPoint r pts p) l (cleanPoints r pts l) := by
  refine ⟨fun p => !nearPoint r pts p, ?_, fun p _ => by show (!nearPoint r pts p) = true ↔ ¬ NearPoint r pts p; rw [← nearPoint_iff]; simp⟩
  unfold cleanPoints
  cases l with
  | nil => rfl
  | cons a l =>
    have ha : a.tomo_id = t := h a (List.mem_cons_self ..)
    have hu : uniques ((a :: l).map (·.tomo_id)) = [t] := by
      have : ∀ l' : List (Particle α), (∀ p ∈ l', p.tomo_id = t) → (uniques (l'.map (·.tomo_id))).filter (fun b => !decide (b = t)) = [] := by
        intro l' hl'
        rw [List.filter_eq_nil_iff]
        intro b hb
        rw [mem_uniques, List.mem_map] at hb
        obtain ⟨p, hp, rfl⟩ := hb
        simp [hl' p hp]
      simp only [List.map_cons, uniques, ha]
      rw [this l (fun p hp => h p (List.mem_cons_of_mem _ hp))]
    rw [hu]
    simp only [List.flatMap_cons, List.flatMap_nil, List.append_nil]
    congr 1
    rw [List.filter_eq_self]
    intro p hp
    simp [h p hp]

/-! ## clean_by_tomo_mask -/

/-- the voxel index lies inside the mask volume: `0 ≤ idx < shape` on every axis -/
def InsideMask (m : Mask) (v : V3 Int) : Prop :=
  (0 ≤ v.x ∧ 0 ≤ v.y ∧ 0 ≤ v.z) ∧ (v.x < (m.sx : Int) ∧ v.y < (m.sy : Int) ∧ v.z < (m.sz : Int))

/-- the particle's voxel lies inside the mask volume of a mask listed for its tomogram and that
voxel is zero -/
def OnZeroVoxel (tr : α → Int) (tm : List (α × Mask)) (p : Particle α) : Prop :=
  ∃ tmk ∈ tm, p.tomo_id = tmk.1 ∧ InsideMask tmk.2 (voxel tr p) ∧
    tmk.2.val (voxel tr p).x.toNat (voxel tr p).y.toNat (voxel tr p).z.toNat = false

theorem maskHit_doc_iff (tr : α → Int) (m : Mask) (p : Particle α) :
    maskHit maskCfgDoc tr m p = true ↔
      InsideMask m (voxel tr p) ∧ m.val (voxel tr p).x.toNat (voxel tr p).y.toNat (voxel tr p).z.toNat = false := by
  unfold maskHit withinMask maskValue InsideMask
  cases m.val (voxel tr p).x.toNat (voxel tr p).y.toNat (voxel tr p).z.toNat <;>
    simp [maskCfgDoc, Cmp.eval, and_assoc]

/-- the ids collected for one listed tomogram: those of its particles inside the volume on a zero voxel -/
theorem mem_maskIdsOf (tr : α → Int) (l : Motl α) (tmk : α × Mask) (i : α) :
    i ∈ maskIdsOf maskCfgDoc tr l tmk ↔ ∃ p ∈ l, p.subtomo_id = i ∧ p.tomo_id = tmk.1 ∧ InsideMask tmk.2 (voxel tr p) ∧
      tmk.2.val (voxel tr p).x.toNat (voxel tr p).y.toNat (voxel tr p).z.toNat = false := by
  unfold maskIdsOf
  simp only [List.mem_map, List.mem_filter, decide_eq_true_eq, maskHit_doc_iff]
  constructor
  · rintro ⟨p, ⟨⟨hp, ht⟩, hh⟩, rfl⟩; exact ⟨p, hp, rfl, ht, hh⟩
  · rintro ⟨p, hp, rfl, ht, hh⟩; exact ⟨p, ⟨⟨hp, ht⟩, hh⟩, rfl⟩

theorem mem_maskRemoveIds (tr : α → Int) (tm : List (α × Mask)) (l : Motl α) (i : α) :
    i ∈ maskRemoveIds maskCfgDoc tr tm l ↔ ∃ p ∈ l, p.subtomo_id = i ∧ OnZeroVoxel tr tm p := by
  unfold maskRemoveIds OnZeroVoxel
  simp only [List.mem_flatMap, mem_maskIdsOf]
  constructor
  · rintro ⟨tmk, htm, p, hp, rfl, ht, hh⟩
    exact ⟨p, hp, rfl, tmk, htm, ht, hh⟩
  · rintro ⟨p, hp, rfl, tmk, htm, ht, hh⟩
    exact ⟨tmk, htm, p, hp, rfl, ht, hh⟩

/-- how the listed tomograms are paired with masks -/
theorem pairMasks_ok (tomos : List α) (arg : MaskArg) (tm : List (α × Mask)) (h : pairMasks tomos arg = .ok tm) :
    (∃ m, arg = .single m ∧ tm = tomos.map (fun t => (t, m))) ∨
    (∃ ms, arg = .perTomo ms ∧ tomos.length = ms.length ∧ tm = tomos.zip ms) := by
  cases arg with
  | single m => left; simp only [pairMasks, Except.ok.injEq] at h; exact ⟨m, rfl, h.symm⟩
  | perTomo ms =>
    right
    simp only [pairMasks] at h
    split at h
    · rename_i hl; injection h with h; exact ⟨ms, rfl, hl, h.symm⟩
    · simp at h

/-! ### the executable statement (`cleanMaskStmt`, the driver's `spec`) IS the statement -/

theorem insideMask_iff (m : Mask) (v : V3 Int) : insideMask m v = true ↔ InsideMask m v := by
  simp [insideMask, InsideMask, and_assoc]

theorem onZeroVoxel_iff (tr : α → Int) (tm : List (α × Mask)) (p : Particle α) :
    onZeroVoxel tr tm p = true ↔ OnZeroVoxel tr tm p := by
  unfold onZeroVoxel OnZeroVoxel
  simp only [List.any_eq_true, Bool.and_eq_true, decide_eq_true_eq, insideMask_iff, Bool.not_eq_true']

/-- **The driver's `spec` for the mask filter is the statement itself**, for EVERY list (no hypothesis on
ids): whenever the call is not refused, `cleanMaskStmt` keeps exactly the particles that are not on a zero
voxel of a mask listed for their own tomogram — order, multiplicities, every survivor an unaltered row. -/
theorem cleanMaskStmt_spec (tr : α → Int) (tomos : List α) (arg : MaskArg) (l out : Motl α)
    (h : cleanMaskStmt tr tomos arg l = .ok out) :
    ∃ tm, pairMasks tomos arg = .ok tm ∧ KeepsExactly (fun p => ¬ OnZeroVoxel tr tm p) l out := by
  unfold cleanMaskStmt at h
  cases hp : pairMasks tomos arg with
  | error e => rw [hp] at h; simp at h
  | ok tm =>
    rw [hp] at h
    injection h with h
    refine ⟨tm, rfl, _, h.symm, fun p _ => ?_⟩
    show (!onZeroVoxel tr tm p) = true ↔ ¬ OnZeroVoxel tr tm p
    rw [← onZeroVoxel_iff]; simp

/-! ### the code: a loop over the listed tomograms, rows dropped by (tomogram, subtomo id) -/

/-- a row is dropped in the iteration of the listed tomogram `tmk` iff it belongs to that tomogram and
some row of that tomogram with the same subtomo id sits on a zero voxel of its mask -/
theorem maskDrops_doc_iff (tr : α → Int) (l : Motl α) (tmk : α × Mask) (p : Particle α) :
    maskDrops maskCfgDoc tr l tmk p = true ↔
      p.tomo_id = tmk.1 ∧ ∃ p' ∈ l, p'.subtomo_id = p.subtomo_id ∧ p'.tomo_id = tmk.1 ∧ InsideMask tmk.2 (voxel tr p') ∧
        tmk.2.val (voxel tr p').x.toNat (voxel tr p').y.toNat (voxel tr p').z.toNat = false := by
  show (decide (p.tomo_id = tmk.1) && (maskIdsOf maskCfgDoc tr l tmk).contains p.subtomo_id) = true ↔ _
  simp only [Bool.and_eq_true, decide_eq_true_eq, List.contains_iff_mem, mem_maskIdsOf]

/-- the loop is one filter -/
theorem cleanMaskWith_eq_filter (cfg : MaskCfg) (tr : α → Int) (tomos : List α) (arg : MaskArg) (l : Motl α)
    (tm : List (α × Mask)) (hp : pairMasks tomos arg = .ok tm) :
    cleanMaskWith cfg tr tomos arg l = .ok (l.filter (fun p => tm.all (fun tmk => !maskDrops cfg tr l tmk p))) := by
  unfold cleanMaskWith
  rw [hp]
  have hstep : maskStep cfg tr l = fun acc tmk => acc.filter (fun p => !maskDrops cfg tr l tmk p) := rfl
  simp only [hstep, foldl_filter_eq]

/-- survives the whole loop iff no row OF THE SAME TOMOGRAM with the same subtomo id sits on a zero voxel -/
theorem maskKeep_doc_iff (tr : α → Int) (tm : List (α × Mask)) (l : Motl α) (p : Particle α) :
    tm.all (fun tmk => !maskDrops maskCfgDoc tr l tmk p) = true ↔
      ¬ ∃ p' ∈ l, p'.tomo_id = p.tomo_id ∧ p'.subtomo_id = p.subtomo_id ∧ OnZeroVoxel tr tm p' := by
  simp only [List.all_eq_true, Bool.not_eq_true', ← Bool.not_eq_true, maskDrops_doc_iff, OnZeroVoxel]
  constructor
  · rintro h ⟨p', hp', ht, hi, tmk, htm, ht', hin, hv⟩
    exact h tmk htm ⟨ht ▸ ht', p', hp', hi, ht', hin, hv⟩
  · rintro h tmk htm ⟨ht, p', hp', hi, ht', hin, hv⟩
    exact h ⟨p', hp', ht'.trans ht.symm, hi, tmk, htm, ht', hin, hv⟩

/-- **What the code computes, for every list** (no hypothesis): a row survives iff no row of the same
tomogram carrying the same subtomo id sits on a zero voxel. A row of ANOTHER tomogram with the same id
does not matter any more (it did up to commit 0eff65b: `cleanMaskById_mem_iff`). -/
theorem cleanMask_mem_iff (tr : α → Int) (tomos : List α) (arg : MaskArg) (l out : Motl α)
    (h : cleanMask tr tomos arg l = .ok out) (p : Particle α) :
    ∃ tm, pairMasks tomos arg = .ok tm ∧
      (p ∈ out ↔ p ∈ l ∧ ¬ ∃ p' ∈ l, p'.tomo_id = p.tomo_id ∧ p'.subtomo_id = p.subtomo_id ∧ OnZeroVoxel tr tm p') := by
  cases hp : pairMasks tomos arg with
  | error e => unfold cleanMask cleanMaskWith at h; rw [hp] at h; simp at h
  | ok tm =>
    unfold cleanMask at h
    rw [cleanMaskWith_eq_filter _ tr tomos arg l tm hp] at h
    injection h with h
    refine ⟨tm, rfl, ?_⟩
    rw [← h, List.mem_filter, maskKeep_doc_iff]

/-- **Exactly what the mask filter needs of the list**: two rows of one tomogram that carry the same
subtomo id are either both on a zero voxel or both not (then removing "by id within the tomogram" removes
the right rows). Nothing is asked across tomograms. -/
def MaskWellFormed (tr : α → Int) (tm : List (α × Mask)) (l : Motl α) : Prop :=
  ∀ p ∈ l, ∀ p' ∈ l, p'.tomo_id = p.tomo_id → p'.subtomo_id = p.subtomo_id → OnZeroVoxel tr tm p' → OnZeroVoxel tr tm p

/-- the usual way to meet it: inside a tomogram a subtomo id names one row (a row repeated verbatim is
allowed; the same id in DIFFERENT tomograms is allowed) -/
def UniqueIdsWithinTomograms (l : Motl α) : Prop :=
  ∀ p ∈ l, ∀ p' ∈ l, p'.tomo_id = p.tomo_id → p'.subtomo_id = p.subtomo_id → p' = p

theorem maskWellFormed_of_unique (tr : α → Int) (tm : List (α × Mask)) (l : Motl α)
    (h : UniqueIdsWithinTomograms l) : MaskWellFormed tr tm l := by
  intro p hp p' hp' ht hi hz
  rw [← h p hp p' hp' ht hi]; exact hz

theorem unique_of_nodup_keys (l : Motl α) (h : (l.map (fun p => (p.tomo_id, p.subtomo_id))).Nodup) :
    UniqueIdsWithinTomograms l := by
  intro p hp p' hp' ht hi
  exact eq_of_nodup_map h hp' hp (by simp [ht, hi])

/-- **Cleaning by a tomogram mask removes exactly the particles inside the mask volume that sit on zero
voxels and keeps all others — if and only if the list is `MaskWellFormed`.** So the hypothesis is not only
sufficient but exactly what is needed: for every tomogram list, mask shape and content, truncation `tr`. -/
theorem cleanMask_spec_iff (tr : α → Int) (tomos : List α) (arg : MaskArg) (l out : Motl α) (tm : List (α × Mask))
    (hp : pairMasks tomos arg = .ok tm) (h : cleanMask tr tomos arg l = .ok out) :
    KeepsExactly (fun p => ¬ OnZeroVoxel tr tm p) l out ↔ MaskWellFormed tr tm l := by
  unfold cleanMask at h
  rw [cleanMaskWith_eq_filter _ tr tomos arg l tm hp] at h
  injection h with h
  constructor
  · intro hk p hpl p' hpl' ht hi hz
    by_contra hn
    have hin : p ∈ out := (hk.mem_iff p).2 ⟨hpl, hn⟩
    rw [← h, List.mem_filter, maskKeep_doc_iff] at hin
    exact hin.2 ⟨p', hpl', ht, hi, hz⟩
  · intro hwf
    refine ⟨_, h.symm, fun p hpl => ?_⟩
    rw [maskKeep_doc_iff]
    constructor
    · intro hn hz; exact hn ⟨p, hpl, rfl, rfl, hz⟩
    · rintro hn ⟨p', hpl', ht, hi, hz⟩; exact hn (hwf p hpl p' hpl' ht hi hz)

/-- **Cleaning by a tomogram mask removes exactly the particles inside the mask volume that sit on zero
voxels and keeps all others** — for every list in which a subtomo id is not repeated INSIDE a tomogram
(ids may repeat across tomograms since 0eff65b; `cleanMask_needs_unique_ids_within_tomogram` shows that the
remaining hypothesis cannot be dropped), every tomogram list, every mask shape and content, any truncation. -/
theorem cleanMask_spec (tr : α → Int) (tomos : List α) (arg : MaskArg) (l out : Motl α)
    (hid : UniqueIdsWithinTomograms l) (h : cleanMask tr tomos arg l = .ok out) :
    ∃ tm, pairMasks tomos arg = .ok tm ∧ KeepsExactly (fun p => ¬ OnZeroVoxel tr tm p) l out := by
  cases hp : pairMasks tomos arg with
  | error e => unfold cleanMask cleanMaskWith at h; rw [hp] at h; simp at h
  | ok tm => exact ⟨tm, rfl, (cleanMask_spec_iff tr tomos arg l out tm hp h).2 (maskWellFormed_of_unique tr tm l hid)⟩

/-- the same with the hypothesis as a list property: the (tomogram, subtomo id) pairs are distinct -/
theorem cleanMask_spec_of_nodup_keys (tr : α → Int) (tomos : List α) (arg : MaskArg) (l out : Motl α)
    (hid : (l.map (fun p => (p.tomo_id, p.subtomo_id))).Nodup) (h : cleanMask tr tomos arg l = .ok out) :
    ∃ tm, pairMasks tomos arg = .ok tm ∧ KeepsExactly (fun p => ¬ OnZeroVoxel tr tm p) l out :=
  cleanMask_spec tr tomos arg l out (unique_of_nodup_keys l hid) h

/-- on a well-formed list the code computes the statement: same result, same refusals -/
theorem cleanMask_eq_stmt (tr : α → Int) (tomos : List α) (arg : MaskArg) (l : Motl α)
    (hwf : ∀ tm, pairMasks tomos arg = .ok tm → MaskWellFormed tr tm l) :
    cleanMask tr tomos arg l = cleanMaskStmt tr tomos arg l := by
  cases hp : pairMasks tomos arg with
  | error e => unfold cleanMask cleanMaskWith cleanMaskStmt; rw [hp]
  | ok tm =>
    cases hc : cleanMask tr tomos arg l with
    | error e => unfold cleanMask cleanMaskWith at hc; rw [hp] at hc; simp at hc
    | ok out =>
      cases hs : cleanMaskStmt tr tomos arg l with
      | error e => unfold cleanMaskStmt at hs; rw [hp] at hs; simp at hs
      | ok out' =>
        obtain ⟨tm', hp', hk'⟩ := cleanMaskStmt_spec tr tomos arg l out' hs
        rw [hp] at hp'; injection hp' with hp'; subst hp'
        have hk := (cleanMask_spec_iff tr tomos arg l out tm hp hc).2 (hwf tm hp)
        rw [hk.unique hk']

/-! ### regression: the code up to commit 0eff65b removed by subtomo id on the WHOLE list -/

/-- the loop-shaped model at scope `byId` is the former model: one filter by the ids collected over all
listed tomograms -/
theorem cleanMaskById_eq (tr : α → Int) (tomos : List α) (arg : MaskArg) (l : Motl α) (tm : List (α × Mask))
    (hp : pairMasks tomos arg = .ok tm) :
    cleanMaskById tr tomos arg l = .ok (l.filter (fun p => !(maskRemoveIds maskCfgDoc tr tm l).contains p.subtomo_id)) := by
  unfold cleanMaskById
  rw [cleanMaskWith_eq_filter _ tr tomos arg l tm hp]
  congr 1
  apply List.filter_congr
  intro p _
  rw [Bool.eq_iff_iff]
  have hd : ∀ tmk, maskDrops maskCfgById tr l tmk p = (maskIdsOf maskCfgDoc tr l tmk).contains p.subtomo_id := fun _ => rfl
  simp only [List.all_eq_true, Bool.not_eq_true', ← Bool.not_eq_true, hd, List.contains_iff_mem, maskRemoveIds,
    List.mem_flatMap, not_exists, not_and]

/-- the former `cleanMask_spec`: with removal by id, the statement needs ids that are unique in the WHOLE list -/
theorem cleanMaskById_spec (tr : α → Int) (tomos : List α) (arg : MaskArg) (l out : Motl α)
    (hid : (l.map (·.subtomo_id)).Nodup) (h : cleanMaskById tr tomos arg l = .ok out) :
    ∃ tm, pairMasks tomos arg = .ok tm ∧ KeepsExactly (fun p => ¬ OnZeroVoxel tr tm p) l out := by
  cases hp : pairMasks tomos arg with
  | error e => unfold cleanMaskById cleanMaskWith at h; rw [hp] at h; simp at h
  | ok tm =>
    rw [cleanMaskById_eq tr tomos arg l tm hp] at h
    injection h with h
    refine ⟨tm, rfl, _, h.symm, ?_⟩
    intro p hpl
    simp only [Bool.not_eq_true', ← Bool.not_eq_true, List.contains_iff_mem, mem_maskRemoveIds]
    constructor
    · intro hn hz; exact hn ⟨p, hpl, rfl, hz⟩
    · rintro hn ⟨p', hp', hidp, hz⟩
      have : p' = p := eq_of_nodup_map hid hp' hpl hidp
      exact hn (this ▸ hz)

/-- the former `cleanMask_mem_iff`: removal by id ignores the tomogram of the row that carries the id -/
theorem cleanMaskById_mem_iff (tr : α → Int) (tomos : List α) (arg : MaskArg) (l out : Motl α)
    (h : cleanMaskById tr tomos arg l = .ok out) (p : Particle α) :
    ∃ tm, pairMasks tomos arg = .ok tm ∧
      (p ∈ out ↔ p ∈ l ∧ ¬ ∃ p' ∈ l, p'.subtomo_id = p.subtomo_id ∧ OnZeroVoxel tr tm p') := by
  cases hp : pairMasks tomos arg with
  | error e => unfold cleanMaskById cleanMaskWith at h; rw [hp] at h; simp at h
  | ok tm =>
    rw [cleanMaskById_eq tr tomos arg l tm hp] at h
    injection h with h
    refine ⟨tm, rfl, ?_⟩
    rw [← h, List.mem_filter]
    simp only [Bool.not_eq_true', ← Bool.not_eq_true, List.contains_iff_mem, mem_maskRemoveIds]

/-- the only refused call: a LIST of masks whose length differs from the tomogram list -/
theorem cleanMask_rejects_iff (tr : α → Int) (tomos : List α) (arg : MaskArg) (l : Motl α) (e : MaskErr) :
    cleanMask tr tomos arg l = .error e ↔ ∃ ms, arg = .perTomo ms ∧ tomos.length ≠ ms.length := by
  unfold cleanMask cleanMaskWith
  cases arg with
  | single m => simp [pairMasks]
  | perTomo ms =>
    simp only [pairMasks]
    by_cases hl : tomos.length = ms.length
    · simp [hl]
    · cases e; simp [hl]

/-! ### the pairing: mask `i` belongs to entry `i` of the tomogram list AS GIVEN, for every form of `tomo_list` -/

/-- a list of masks is paired position by position: `(t, m)` is pair `i` iff `t` is entry `i` of the tomogram list and `m` is
mask `i` -/
theorem pairMasks_perTomo_getElem (tomos : List α) (ms : List Mask) (tm : List (α × Mask))
    (h : pairMasks tomos (.perTomo ms) = .ok tm) (i : Nat) (t : α) (m : Mask) :
    tm[i]? = some (t, m) ↔ tomos[i]? = some t ∧ ms[i]? = some m := by
  rcases pairMasks_ok tomos _ tm h with ⟨m', h1, _⟩ | ⟨ms', h1, _, h3⟩
  · cases h1
  · cases h1; subst h3
    exact List.getElem?_zip_eq_some

/-- **Pairing theorem for the whole call.** Whatever the form of `tomo_list` — list, tuple, array, single number or a FILE with
one number per line, sorted or not — today's code cleans with mask `i` exactly the tomogram that is entry `i` of the list as the
caller wrote it: its result is the documented loop on `ta.values`, hence (ids not repeated inside a tomogram) exactly the
particles not on a zero voxel of the mask listed AT THE SAME POSITION as their tomogram survive. -/
theorem cleanMaskArgCode_spec (tr : α → Int) (ta : TomoArg α) (arg : MaskArg) (l out : Motl α)
    (hid : UniqueIdsWithinTomograms l) (h : cleanMaskArgCode tr ta arg l = .ok out) :
    ∃ tm, pairMasks ta.values arg = .ok tm ∧ KeepsExactly (fun p => ¬ OnZeroVoxel tr tm p) l out := by
  rw [cleanMaskArgCode_eq] at h
  exact cleanMask_spec tr ta.values arg l out hid h

/-- on a well-formed list the code, from ANY form of `tomo_list`, computes the statement on the list as given -/
theorem cleanMaskArgCode_eq_stmt (tr : α → Int) (ta : TomoArg α) (arg : MaskArg) (l : Motl α)
    (hwf : ∀ tm, pairMasks ta.values arg = .ok tm → MaskWellFormed tr tm l) :
    cleanMaskArgCode tr ta arg l = cleanMaskStmt tr ta.values arg l := by
  rw [cleanMaskArgCode_eq]; exact cleanMask_eq_stmt tr ta.values arg l hwf

end generic2

/-! ### the truncation the driver uses (`astype(int)`): toward zero -/

theorem truncRat_neg (q : Rat) : truncRat (-q) = - truncRat q := by
  unfold truncRat
  simp [Int.neg_tdiv]

theorem truncRat_of_nonneg (q : Rat) (h : 0 ≤ q) : truncRat q = ⌊q⌋ := by
  unfold truncRat
  rw [Rat.floor_def']
  exact Int.tdiv_eq_ediv_of_nonneg (Rat.num_nonneg.2 h)

/-- for `q ≥ 0` the voxel index is the integer part: `idx ≤ q < idx + 1` -/
theorem truncRat_nonneg_spec (q : Rat) (h : 0 ≤ q) : (truncRat q : Rat) ≤ q ∧ q < (truncRat q : Rat) + 1 := by
  rw [truncRat_of_nonneg q h]
  exact ⟨Int.floor_le q, Int.lt_floor_add_one q⟩

/-- for `q ≤ 0` it rounds UP (toward zero): `idx - 1 < q ≤ idx`; in particular every position in
`(-1, 0)` lands in voxel 0 -/
theorem truncRat_nonpos_spec (q : Rat) (h : q ≤ 0) : (truncRat q : Rat) - 1 < q ∧ q ≤ (truncRat q : Rat) := by
  have h' : 0 ≤ -q := by linarith
  obtain ⟨h1, h2⟩ := truncRat_nonneg_spec (-q) h'
  rw [truncRat_neg] at h1 h2
  push_cast at h1 h2
  constructor <;> linarith

/-- **Convention: the voxel a particle sits on is the TRUNCATED complete position** (`get_coordinates().astype(int)`,
truncation toward zero). For `q ≥ 0` that is `⌊q⌋`; every position in the open interval `(-1, 0)` counts as
voxel `0` — so on the lower side "inside the mask volume" means `-1 < position`, not `0 ≤ position` —
and positions `≤ -1` have a negative index (outside). This is the code's convention; the statement's
"inside the mask volume" is read on this index (`InsideMask`), and RULE of the harness says so. -/
theorem voxel_truncation_convention (q : Rat) :
    (0 ≤ q → truncRat q = ⌊q⌋) ∧ (-1 < q → q < 0 → truncRat q = 0) ∧ (q ≤ -1 → truncRat q ≤ -1) := by
  refine ⟨truncRat_of_nonneg q, ?_, ?_⟩
  · intro h1 h2
    obtain ⟨ha, hb⟩ := truncRat_nonpos_spec q (le_of_lt h2)
    have h3 : (truncRat q : Rat) < 1 := by linarith
    have h4 : (-1 : Rat) < (truncRat q : Rat) := by linarith
    have h3' : truncRat q < 1 := by exact_mod_cast h3
    have h4' : -1 < truncRat q := by exact_mod_cast h4
    omega
  · intro h1
    obtain ⟨ha, _⟩ := truncRat_nonpos_spec q (by linarith)
    have h3 : (truncRat q : Rat) < 0 := by linarith
    have h3' : truncRat q < 0 := by exact_mod_cast h3
    omega

/-- the convention at work: a particle at x = -1/2 sits on voxel (0,1,1); if that voxel is zero it is removed,
a particle at x = -1 is outside the volume and kept -/
theorem mask_position_below_zero_counts_as_voxel_zero :
    let m : Mask := { sx := 4, sy := 4, sz := 4, val := fun x y z => !(x == 0 && y == 1 && z == 1) }
    let p (x : Rat) : Particle Rat := Particle.ofFn (fun f => match f with
      | .x => x | .y => 1 | .z => 1 | .tomo_id => 1 | .subtomo_id => 1 | _ => 0)
    onZeroVoxel truncRat [((1 : Rat), m)] (p (-1/2)) = true ∧ onZeroVoxel truncRat [((1 : Rat), m)] (p (-1)) = false := by
  decide +kernel

/-- `cryomap.binarize` at the documented operator and threshold: non-zero iff `value > 1/2` -/
theorem binarize_doc_iff (v : Rat) : binarizeWith binarizeCfgDoc v = true ↔ (1 / 2 : Rat) < v := by
  have h : mkRat 1 2 = (1 / 2 : Rat) := by norm_num [Rat.mkRat_eq_div]
  simp [binarizeWith, binarizeCfgDoc, Cmp.eval, h]

/-! ### witnesses about the mask filter (concrete, `decide`) -/

/-- 4×4×4 mask with the single zero voxel (1,1,1) -/
def wMask : Mask := { sx := 4, sy := 4, sz := 4, val := fun x y z => !(x == 1 && y == 1 && z == 1) }
def wOnes : Mask := { sx := 4, sy := 4, sz := 4, val := fun _ _ _ => true }
def wP (tomo id x : Int) : Particle Int :=
  Particle.ofFn (fun f => match f with
    | .x => x | .y => 1 | .z => 1 | .tomo_id => tomo | .subtomo_id => id | _ => 0)

/-- **Regression witness of the defect repaired by 0eff65b.** Subtomo id 1 is used in two tomograms: the code
that removed by id on the whole list (`cleanMaskById`) loses the particle of tomogram 2 (all-ones mask)
together with the one of tomogram 1; today's code keeps it, as the statement demands. -/
theorem cleanMask_needs_unique_ids :
    (cleanMaskById id [1, 2] (.perTomo [wMask, wOnes]) [wP 1 1 1, wP 2 1 1]).toOption = some [] ∧
    ¬ OnZeroVoxel id [((1 : Int), wMask), (2, wOnes)] (wP 2 1 1) ∧
    (cleanMask id [1, 2] (.perTomo [wMask, wOnes]) [wP 1 1 1, wP 2 1 1]).toOption = some [wP 2 1 1] ∧
    (cleanMaskStmt id [1, 2] (.perTomo [wMask, wOnes]) [wP 1 1 1, wP 2 1 1]).toOption = some [wP 2 1 1] := by
  refine ⟨by decide, ?_, by decide, by decide⟩
  rintro ⟨tmk, htm, ht, _, hv⟩
  simp only [List.mem_cons, List.not_mem_nil, or_false] at htm
  rcases htm with rfl | rfl
  · revert ht; decide
  · revert hv; decide

/-- **Witness of the open finding C09-K2** (and: the remaining hypothesis of `cleanMask_spec` is necessary). Two particles of ONE tomogram carry
subtomo id 1, the first on the zero voxel, the second on a non-zero voxel: the code removes both, the
statement keeps the second; the list is not `MaskWellFormed`, and it is not `UniqueIdsWithinTomograms`. -/
theorem cleanMask_needs_unique_ids_within_tomogram :
    (cleanMask id [1] (.perTomo [wMask]) [wP 1 1 1, wP 1 1 2]).toOption = some [] ∧
    (cleanMaskStmt id [1] (.perTomo [wMask]) [wP 1 1 1, wP 1 1 2]).toOption = some [wP 1 1 2] ∧
    ¬ OnZeroVoxel id [((1 : Int), wMask)] (wP 1 1 2) ∧
    ¬ MaskWellFormed id [((1 : Int), wMask)] [wP 1 1 1, wP 1 1 2] := by
  have hnz : ¬ OnZeroVoxel id [((1 : Int), wMask)] (wP 1 1 2) := by
    rw [← onZeroVoxel_iff]; decide
  refine ⟨by decide, by decide, hnz, ?_⟩
  intro hwf
  apply hnz
  apply hwf (wP 1 1 2) (by simp) (wP 1 1 1) (by simp) rfl rfl
  rw [← onZeroVoxel_iff]; decide

def wZeros : Mask := { sx := 4, sy := 4, sz := 4, val := fun _ _ _ => false }

/-- **Witness of the defect repaired by `tlt_load(tomo_list, sort_angles=False)`.** Tomograms `[7, 2]` with masks
`[all ones, all zeros]`, one particle in each at voxel (1,1,1). Handed over as a LIST the code keeps the particle of tomogram 7
(as the statement demands); the same two numbers as the lines of a FILE were sorted to `[2, 7]` by the unrepaired code and so
paired with the wrong masks: it removed the particle on the non-zero voxel and kept the one on the zero voxel. The repaired
model gives the statement for both forms. -/
theorem cleanMask_sorted_file_counterexample :
    (cleanMaskArgSorted id (.asGiven [7, 2]) (.perTomo [wOnes, wZeros]) [wP 7 1 1, wP 2 2 1]).toOption = some [wP 7 1 1] ∧
    (cleanMaskArgSorted id (.fromFile [7, 2]) (.perTomo [wOnes, wZeros]) [wP 7 1 1, wP 2 2 1]).toOption = some [wP 2 2 1] ∧
    (cleanMaskArg id (.fromFile [7, 2]) (.perTomo [wOnes, wZeros]) [wP 7 1 1, wP 2 2 1]).toOption = some [wP 7 1 1] ∧
    (cleanMaskStmt id (TomoArg.fromFile [7, 2]).values (.perTomo [wOnes, wZeros]) [wP 7 1 1, wP 2 2 1]).toOption = some [wP 7 1 1] := by
  refine ⟨by decide, by decide, by decide, by decide⟩

/-- float32 has no odd integers above 2^24: 20230115 (a date-style tomogram number) is stored as 20230116, 16777217 as 16777216;
numbers below 2^24 and representable neighbours are exact -/
theorem f32Int_examples :
    f32Int 20230115 = 20230116 ∧ f32Int 16777217 = 16777216 ∧ f32Int 16777215 = 16777215 ∧ f32Int 20230116 = 20230116 ∧
    f32Int 204 = 204 ∧ f32Int 999999999 = 1000000000 ∧ f32Int (-20230115) = -20230116 := by decide

/-- **Witness of the defect repaired by reading the tomogram FILE with a 64-bit reader.** One particle of tomogram 20230115 on a
zero voxel. With the number handed over in a list the code removes it (as the statement demands); read from a file through the float32
reader the listed tomogram became 20230116, matched no particle, and the particle was kept. -/
theorem cleanMask_float32_file_counterexample :
    (cleanMaskArg id ((TomoArg.fromFile [20230115]).readWith f32Int) (.perTomo [wZeros]) [wP 20230115 1 1]).toOption = some [wP 20230115 1 1] ∧
    (cleanMaskArg id ((TomoArg.asGiven [20230115]).readWith f32Int) (.perTomo [wZeros]) [wP 20230115 1 1]).toOption = some [] ∧
    (cleanMaskStmt id (TomoArg.fromFile [20230115]).values (.perTomo [wZeros]) [wP 20230115 1 1]).toOption = some [] := by
  refine ⟨by decide, by decide, by decide⟩

/-- **Regression witness of defect D11 (repaired by a0240b0).** One particle beyond the mask volume in
front of a particle on the zero voxel: the old code removes the WRONG particle (index into the
filtered array used as a row label), the repaired code removes the right one. -/
theorem cleanMask_old_misaligned :
    (cleanMaskOld id [1] (.perTomo [wMask]) [wP 1 1 9, wP 1 2 1, wP 1 3 2]).toOption = some [wP 1 2 1, wP 1 3 2] ∧
    (cleanMask id [1] (.perTomo [wMask]) [wP 1 1 9, wP 1 2 1, wP 1 3 2]).toOption = some [wP 1 1 9, wP 1 3 2] := by
  refine ⟨by decide, by decide⟩

/-! ## non-vacuity: the hypotheses of the theorems above are met by non-trivial inputs -/

/-- `oob_spec`: a call that is not refused, keeps one particle and removes one on each side -/
example : (oob [⟨(1 : Int), 100, 100, 100⟩, ⟨2, 48, 60, 70⟩] .whole (some 2)
    [wP 1 1 50, wP 2 2 47, wP 2 3 0, wP 1 4 4]).toOption = some [wP 1 1 50, wP 1 4 4] := by decide
/-- `oob_partial`: a list that meets the hypothesis (all lower faces respected) and still loses a particle -/
example : (oobAsIs [⟨(1 : Int), 100, 100, 100⟩] .center none [wP 1 1 50, wP 1 2 100]).toOption = some [wP 1 1 50] ∧
    ∀ p ∈ [wP 1 1 50, wP 1 2 100], (0 : Int) ≤ (pos p).x - ((0 : Nat) : Int) := by decide
/-- `oob_rejects_iff`: all three refusals occur -/
example : (oob [⟨(1 : Int), 100, 100, 100⟩] .other none [wP 1 1 50]).toOption = none ∧
    (oob [⟨(1 : Int), 100, 100, 100⟩] .whole (some 0) [wP 1 1 50]).toOption = none ∧
    (oob [⟨(1 : Int), 100, 100, 100⟩] .center none [wP 3 1 50]).toOption = none := by decide
/-- `trim_spec` at `Int`: start (3,1,1), end (7,10,10) keeps x = 3 and x = 7, drops 2 and 8 -/
example : trim (⟨3, 1, 1⟩ : V3 Int) ⟨7, 10, 10⟩ [wP 1 1 2, wP 1 2 3, wP 1 3 7, wP 1 4 8] = [wP 1 2 1, wP 1 3 5] := by decide
/-- `cleanPoints_perm`: two tomograms, a tie on the ball surface is removed, the foreign point removes nothing -/
example : cleanPoints (5 : Int) [⟨1, ⟨4, 5, 1⟩⟩, ⟨7, ⟨0, 1, 1⟩⟩] [wP 2 1 0, wP 1 2 1, wP 2 3 5, wP 1 4 9]
    = [wP 2 1 0, wP 2 3 5, wP 1 4 9] := by decide
/-- `cleanMaskArgSorted_eq_of_ascending`: an ascending file meets the hypothesis, `[7, 2]` does not -/
example : ([2, 7] : List Int).Pairwise (· ≤ ·) ∧ ¬ ([7, 2] : List Int).Pairwise (· ≤ ·) := by decide
/-- `inBall_iff_dist_le`: the 3-4-5 triple, `d = 5` is the Euclidean distance; radius 5 reaches it, radius 4 does not -/
example : (5 : Int) * 5 = dist2 (⟨3, 4, 0⟩ : V3 Int) ⟨0, 0, 0⟩ ∧ inBall (5 : Int) ⟨0, 0, 0⟩ ⟨3, 4, 0⟩ = true ∧
    inBall (4 : Int) ⟨0, 0, 0⟩ ⟨3, 4, 0⟩ = false := by decide
/-- `cleanMask_spec`: the SAME subtomo ids in two tomograms (each id once per tomogram): only the row of the masked
tomogram on the zero voxel goes -/
example : (cleanMask id [1] (.single wMask) [wP 1 1 1, wP 2 1 1, wP 1 2 2, wP 2 2 2]).toOption
    = some [wP 2 1 1, wP 1 2 2, wP 2 2 2] ∧
    ([wP 1 1 1, wP 2 1 1, wP 1 2 2, wP 2 2 2].map (fun p => (p.tomo_id, p.subtomo_id))).Nodup := by decide
/-- `cleanMask_spec_iff`: an id repeated INSIDE a tomogram on a well-formed list (both rows on the zero voxel) -/
example : (cleanMask id [1] (.single wMask) [wP 1 1 1, wP 1 1 1, wP 1 2 2]).toOption = some [wP 1 2 2] ∧
    (cleanMaskStmt id [1] (.single wMask) [wP 1 1 1, wP 1 1 1, wP 1 2 2]).toOption = some [wP 1 2 2] := by decide
/-- `cleanMask_spec`: unique ids, a listed and an unlisted tomogram, inside/outside/zero/non-zero voxels -/
example : (cleanMask id [1] (.single wMask) [wP 1 1 1, wP 1 2 2, wP 1 3 (-1), wP 1 4 4, wP 2 5 1]).toOption
    = some [wP 1 2 2, wP 1 3 (-1), wP 1 4 4, wP 2 5 1] ∧
    ([wP 1 1 1, wP 1 2 2, wP 1 3 (-1), wP 1 4 4, wP 2 5 1].map (·.subtomo_id)).Nodup := by decide

end CryoCat.C09
