import CryoCat.Gen.C20
import CryoCat.Lemmas.C20_Spec
import CryoCat.Lemmas.C20_Cap
import CryoCat.Lemmas.C20_Real
/-! C20 — membrane thickness pairs: one-to-one, forward, within range and cone.
Property theorems about the model `CryoCat.C20.measure` (Model/C20.lean), the verified checker
`CryoCat.C20.check`, and the translator obligations on `Gen/C20.lean`. Helper lemmas live in
`Lemmas/C20*.lean`. Number type: any linearly ordered field; the square root is a parameter. -/
set_option linter.unusedSectionVars false
namespace CryoCat.C20

/-! ### translator obligations (T): the anchored source is the documented one

`Gen/C20.lean` is regenerated from `cryocat/memthick.py` on every run. It holds DATA only: expression trees,
operators, and ordered statement lists of the canonical form of each function (parameters `a<i>` by position,
local variables `v<j>` by first binding, logging removed — so the lists do not depend on how locals are
called). The expected values below are written by hand; the Lean kernel compares them. -/

theorem anchors_ok : Gen.C20.anchorsOk = true := by decide

/-- the numba kernel and the CUDA kernel compute literally the same admissibility expressions as
`measure_thickness_cpu` (after inlining locals and renaming source/target/normal) -/
theorem sites_identical :
    Gen.C20.siteNumba = Gen.C20.siteCpu ∧ Gen.C20.siteCuda = Gen.C20.siteCpu := by decide

/-- the source's `dx*dx + dy*dy + dz*dz` is the model's squared distance — over every commutative ring -/
theorem site_dist2_eval {α : Type} [CommRing α] (ps pt n : V3 α) (m r : α) :
    Gen.C20.siteCpu.dist2.eval (envOf ps pt n m r) = d2 ps pt := by
  simp only [Gen.C20.siteCpu, Expr.eval, Env.get, envOf, d2, V3.dot, V3.sub_def, V3.sub]

/-- the source's `proj` is the model's projection on the source normal -/
theorem site_proj_eval {α : Type} [CommRing α] (ps pt n : V3 α) (m r : α) :
    Gen.C20.siteCpu.proj.eval (envOf ps pt n m r) = proj ps pt n := by
  simp only [Gen.C20.siteCpu, Expr.eval, Env.get, envOf, proj, V3.dot, V3.sub_def, V3.sub]

/-- the source's `lateral_dist_sq` is the model's squared lateral offset -/
theorem site_lat2_eval {α : Type} [CommRing α] (ps pt n : V3 α) (m r : α) :
    Gen.C20.siteCpu.lat2.eval (envOf ps pt n m r) = lat2 ps pt n := by
  simp only [Gen.C20.siteCpu, Expr.eval, Env.get, envOf, lat2, proj, V3.normSq, V3.dot, V3.smul, V3.sub_def, V3.sub]

/-- the right-hand side of the cone test is `max_angle_cos * proj * proj` -/
theorem site_coneRhs_eval {α : Type} [CommRing α] (ps pt n : V3 α) (m r : α) :
    Gen.C20.siteCpu.coneRhs.eval (envOf ps pt n m r) = m * proj ps pt n * proj ps pt n := by
  simp only [Gen.C20.siteCpu, Expr.eval, Env.get, envOf, proj, V3.dot, V3.sub_def, V3.sub]

/-- the decisions are `proj > 0` and `lateral_dist_sq < rhs` at all three sites -/
theorem site_operators :
    Gen.C20.siteCpu.projCmp = .gt ∧ Gen.C20.siteCpu.coneCmp = .lt := by decide

/-- distance pre-filter: closed-ball KD-tree query on the CPU path, `dist < max_thickness_voxels`
in the numba and CUDA kernels -/
theorem site_ball_tests :
    Gen.C20.siteCpuBall = .kdtreeClosedBall ∧ Gen.C20.siteNumbaBall = .cmp .lt ∧
    Gen.C20.siteCudaBall = .cmp .lt := by decide

/-- **what is recorded.** At each of the three sites the value stored as the distance of a match is the
square root of the same `dx*dx + dy*dy + dz*dz` that the distance test uses (not the projection, not
the lateral offset) -/
theorem stored_is_distance :
    Gen.C20.siteCpuStored = Gen.C20.siteCpu.dist2 ∧ Gen.C20.siteNumbaStored = Gen.C20.siteNumba.dist2 ∧
    Gen.C20.siteCudaStored = Gen.C20.siteCuda.dist2 := by decide

/-- the stored distance evaluates to the model's squared distance -/
theorem site_stored_eval {α : Type} [CommRing α] (ps pt n : V3 α) (m r : α) :
    Gen.C20.siteCudaStored.eval (envOf ps pt n m r) = d2 ps pt ∧
    Gen.C20.siteNumbaStored.eval (envOf ps pt n m r) = d2 ps pt ∧
    Gen.C20.siteCpuStored.eval (envOf ps pt n m r) = d2 ps pt := by
  refine ⟨?_, ?_, ?_⟩ <;>
  simp only [Gen.C20.siteCudaStored, Gen.C20.siteNumbaStored, Gen.C20.siteCpuStored, Expr.eval, Env.get, envOf, d2,
    V3.dot, V3.sub_def, V3.sub]

/-- **guard chains.** The `if` tests (and loops) that enclose the statement recording a match, from the
function body down, with roles substituted for names (`SRC`/`TGT` = index of the source / target point,
`P`/`M1`/`M2` = points and the source / target mask parameter, `R`/`M`/`CAP` = radius, cone multiplier, cap):
every test is the bare comparison — no `or`, no test moved into an `else`, the mask tests use the source
mask for the thread / row index and the target mask for the scanned index. -/
theorem guard_chains_documented :
    Gen.C20.siteCudaChain = [
      "if SRC < P.shape[0] and M1[SRC]",
      "for TGT in range(P.shape[0])",
      "if M2[TGT]",
      "if DIST < R",
      "if PROJ > 0",
      "if LAT2 < M * PROJ * PROJ",
      "if v3 < CAP"] ∧
    Gen.C20.siteNumbaChain = [
      "for SRC in prange(v0)",
      "unless not M1[SRC]",
      "for v6 in range(len(TI))",
      "if DIST < R",
      "if PROJ > 0",
      "if LAT2 < M * PROJ * PROJ",
      "if v5 < v1"] ∧
    Gen.C20.siteCpuChain = [
      "for (v13, v14) in enumerate(v11)",
      "for v19 in v14",
      "if PROJ > 0",
      "if LAT2 < M * PROJ * PROJ"] :=
  ⟨rfl, rfl, rfl⟩

/-- **stores.** The block that records a match writes the distance `DIST` and the target index `TGT` into
the row of the source `SRC` and advances the per-source counter by one. -/
theorem stores_documented :
    Gen.C20.siteCudaStore = [
      "0|v14 = SRC * CAP + v3",
      "0|MD[v14] = DIST",
      "0|MI[v14] = TGT",
      "0|v3 += 1"] ∧
    Gen.C20.siteNumbaStore = [
      "0|MD[SRC, v5] = DIST",
      "0|MI[SRC, v5] = TGT",
      "0|v5 += 1"] ∧
    Gen.C20.siteCpuStore = [
      "0|v12.append((DIST, SRC, TGT))",
      "0|v18 += 1",
      "0|if v18 >= CAP:",
      "1|break"] :=
  ⟨rfl, rfl, rfl⟩

/-- the cone multiplier is `tan(radians(max_angle_degrees))²`: on the CPU path the scalar used by the cone
test, on the GPU path the value passed in the kernel's 9th parameter position (`max_angle_cos`); the
launch statement passes points, normals, SOURCE mask, TARGET mask, the three output buffers, radius,
multiplier and cap in exactly the kernel's parameter order (third conjunct: statement 13 of `gpu_flow_shape`
repeated here as the anchor of the argument ORDER — a restatement, not an additional fact) -/
theorem multiplier_is_tan_squared :
    Gen.C20.multCpu = .sq (.tan (.radians .deg)) ∧ Gen.C20.multGpu = .sq (.tan (.radians .deg)) ∧
    Gen.C20.bodyMeasureGpu[13]? = some
      "0|find_all_possible_matches_kernel[v10, v9](cuda.to_device(a0.astype(np.float32)), cuda.to_device(a1.astype(np.float32)), cuda.to_device(v0.astype(np.int32)), cuda.to_device(v1.astype(np.int32)), v6, v7, v8, v4, v3, v5)" :=
  ⟨by decide, by decide, rfl⟩

/-- **the anchored multiplier expressions, evaluated**: with any implementation `T` of `radians` / `tan` / `cos` /
`sin`, both extracted expressions evaluate to `tan(radians(deg))²`, which is the cone multiplier `(i.params strict).m`
of every model input whose `tanT` is `tan(radians(deg))` — the driver's `tanOfDeg` is this `T.tan (T.radians deg)` at
`Float` (`Drv.C20.floatTrig`), and it reports `multCpu.eval` / `multGpu.eval` beside the model's multiplier on every
case (compared bit for bit by the harness). What remains validated only: libm `tan` vs numpy's (probe, ≤ 4 ulp). -/
theorem multiplier_evaluates {α : Type} [Mul α] (T : Trig α) (deg : α) :
    Gen.C20.multCpu.eval T deg = some (T.tan (T.radians deg) * T.tan (T.radians deg)) ∧
    Gen.C20.multGpu.eval T deg = some (T.tan (T.radians deg) * T.tan (T.radians deg)) :=
  ⟨rfl, rfl⟩

theorem radius_is_max_over_voxel :
    Gen.C20.radiusCpu = "max_thickness_nm/voxel_size" ∧ Gen.C20.radiusGpu = "max_thickness_nm/voxel_size" := by
  decide

/-- `process_matches_cpu2cpu` / `process_matches_gpu2cpu`, statement by statement: plain ascending
`list.sort()` (no key, no reverse) of `(dist, source, target)` tuples BEFORE the loop, first-come assignment
guarded by `s not in S and t not in T` with both sets initially empty, the three result arrays written at the
source index, both sets updated, scaling by `voxel_size` afterwards, the triple returned. -/
theorem assignment_loop_shape :
    Gen.C20.bodyCpu2Cpu = [
      "0|v0 = np.zeros(a1, dtype=np.float32)",
      "0|v1 = np.zeros(a1, dtype=np.bool_)",
      "0|v2 = np.zeros(a1, dtype=np.int32)",
      "0|a0.sort()",
      "0|v3 = set()",
      "0|v4 = set()",
      "0|for (v5, v6, v7) in a0:",
      "1|if v6 not in v3 and v7 not in v4:",
      "2|v0[v6] = v5",
      "2|v1[v6] = True",
      "2|v2[v6] = v7",
      "2|v3.add(v6)",
      "2|v4.add(v7)",
      "0|v0 = v0 * a2",
      "0|return (v0, v1, v2)"] ∧
    Gen.C20.bodyGpu2Cpu = [
      "0|v0 = np.zeros(a3, dtype=np.float32)",
      "0|v1 = np.zeros(a3, dtype=np.bool_)",
      "0|v2 = np.zeros(a3, dtype=np.int32)",
      "0|v3 = []",
      "0|for v4 in range(a3):",
      "1|v5 = a2[v4]",
      "1|for v6 in range(v5):",
      "2|v7 = v4 * a4 + v6",
      "2|v3.append((a0[v7], v4, a1[v7]))",
      "0|v3.sort()",
      "0|v8 = set()",
      "0|v9 = set()",
      "0|for (v10, v11, v12) in v3:",
      "1|if v11 not in v8 and v12 not in v9:",
      "2|v0[v11] = v10",
      "2|v1[v11] = True",
      "2|v2[v11] = v12",
      "2|v8.add(v11)",
      "2|v9.add(v12)",
      "0|v0 = v0 * a5",
      "0|return (v0, v1, v2)"] :=
  ⟨rfl, rfl⟩

/-- `measure_thickness_cpu`, statement by statement: direction `'2to1'` swaps the two masks, sources /
targets are the mask members (`np.where`), the KD-tree is built on the target points and queried with the
source points and the radius, neighbour `n` is mapped back through the SAME index array the tree was built
from, tuples are `(dist, source_idx, target_idx)`, at most `max_matches_per_point = 25` admissible
candidates are kept per source (`break` at `>=`, counted in KD-tree order), the flat list goes to
`process_matches_cpu2cpu` with the number of points and the voxel size. -/
theorem cpu_flow_shape :
    Gen.C20.bodyMeasureCpu = [
      "0|if a8 is not None:",
      "1|numba.set_num_threads(a8)",
      "0|if a7 == '2to1':",
      "1|v0, v1 = (a3, a2)",
      "0|else:",
      "1|v0, v1 = (a2, a3)",
      "0|v2 = len(a0)",
      "0|v3 = np.tan(np.radians(a6)) ** 2",
      "0|v4 = a5 / a4",
      "0|v5 = np.where(v1)[0]",
      "0|v6 = a0[v5]",
      "0|v7 = np.where(v0)[0]",
      "0|v8 = a0[v7]",
      "0|v9 = ScipyKDTree(v6)",
      "0|v10 = time.time()",
      "0|v11 = v9.query_ball_point(v8, v4)",
      "0|v12 = []",
      "0|for (v13, v14) in enumerate(v11):",
      "1|v15 = v7[v13]",
      "1|v16 = a1[v15]",
      "1|v17 = a0[v15]",
      "1|v18 = 0",
      "1|for v19 in v14:",
      "2|v20 = v5[v19]",
      "2|v21 = a0[v20]",
      "2|v22 = v21[0] - v17[0]",
      "2|v23 = v21[1] - v17[1]",
      "2|v24 = v21[2] - v17[2]",
      "2|v25 = np.sqrt(v22 * v22 + v23 * v23 + v24 * v24)",
      "2|v26 = v22 * v16[0] + v23 * v16[1] + v24 * v16[2]",
      "2|if v26 > 0:",
      "3|v27 = v22 - v26 * v16[0]",
      "3|v28 = v23 - v26 * v16[1]",
      "3|v29 = v24 - v26 * v16[2]",
      "3|v30 = v27 ** 2 + v28 ** 2 + v29 ** 2",
      "3|if v30 < v3 * v26 * v26:",
      "4|v12.append((v25, v15, v20))",
      "4|v18 += 1",
      "4|if v18 >= a10:",
      "5|break",
      "0|v31, v32, v33 = process_matches_cpu2cpu(v12, v2, a4)",
      "0|return (v31, v32, v33)"] ∧
    Gen.C20.capDefault = 25 :=
  ⟨rfl, by decide⟩

/-- `measure_thickness_gpu`, statement by statement (never executed on a GPU here; executed under numba's
CUDA simulator by the correspondence run): the `'2to1'` branch assigns (surface2, surface1) and the other
branch (surface1, surface2) to (source, target); multiplier, radius, cap 25; launch arguments in the kernel's
parameter order; the host copies go to `process_matches_gpu2cpu` with the same cap and the voxel size. -/
theorem gpu_flow_shape :
    Gen.C20.bodyMeasureGpu = [
      "0|if a7 == '2to1':",
      "1|v0, v1 = (a3, a2)",
      "0|else:",
      "1|v0, v1 = (a2, a3)",
      "0|v2 = len(a0)",
      "0|v3 = math.tan(math.radians(a6)) ** 2",
      "0|v4 = a5 / a4",
      "0|v5 = 25",
      "0|v6 = cuda.to_device(np.zeros(v2 * v5, dtype=np.float32))",
      "0|v7 = cuda.to_device(np.zeros(v2 * v5, dtype=np.int32))",
      "0|v8 = cuda.to_device(np.zeros(v2, dtype=np.int32))",
      "0|v9 = 256",
      "0|v10 = (v2 + v9 - 1) // v9",
      "0|find_all_possible_matches_kernel[v10, v9](cuda.to_device(a0.astype(np.float32)), cuda.to_device(a1.astype(np.float32)), cuda.to_device(v0.astype(np.int32)), cuda.to_device(v1.astype(np.int32)), v6, v7, v8, v4, v3, v5)",
      "0|v11 = v6.copy_to_host()",
      "0|v12 = v7.copy_to_host()",
      "0|v13 = v8.copy_to_host()",
      "0|v14, v15, v16 = process_matches_gpu2cpu(v11, v12, v13, v2, v5, a4)",
      "0|return (v14, v15, v16)"] ∧
    Gen.C20.capGpu = 25 :=
  ⟨rfl, by decide⟩

/-- the CUDA kernel and the numba kernel, statement by statement (whole bodies: an added statement, a
changed store or a re-nested test changes the list) -/
theorem kernel_bodies_documented :
    Gen.C20.bodyCudaKernel = [
      "0|v0 = cuda.grid(1)",
      "0|if v0 < a0.shape[0] and a2[v0]:",
      "1|v1 = a0[v0]",
      "1|v2 = a1[v0]",
      "1|v3 = 0",
      "1|for v4 in range(a0.shape[0]):",
      "2|if a3[v4]:",
      "3|v5 = a0[v4, 0] - v1[0]",
      "3|v6 = a0[v4, 1] - v1[1]",
      "3|v7 = a0[v4, 2] - v1[2]",
      "3|v8 = math.sqrt(v5 * v5 + v6 * v6 + v7 * v7)",
      "3|if v8 < a7:",
      "4|v9 = v5 * v2[0] + v6 * v2[1] + v7 * v2[2]",
      "4|if v9 > 0:",
      "5|v10 = v5 - v9 * v2[0]",
      "5|v11 = v6 - v9 * v2[1]",
      "5|v12 = v7 - v9 * v2[2]",
      "5|v13 = v10 ** 2 + v11 ** 2 + v12 ** 2",
      "5|if v13 < a8 * v9 * v9:",
      "6|if v3 < a9:",
      "7|v14 = v0 * a9 + v3",
      "7|a4[v14] = v8",
      "7|a5[v14] = v4",
      "7|v3 += 1",
      "1|a6[v0] = v3"] ∧
    Gen.C20.bodyNumbaKernel = [
      "0|v0 = len(a0)",
      "0|v1 = a7.shape[1]",
      "0|for v2 in prange(v0):",
      "1|if not a2[v2]:",
      "2|continue",
      "1|v3 = a0[v2]",
      "1|v4 = a1[v2]",
      "1|v5 = 0",
      "1|for v6 in range(len(a4)):",
      "2|v7 = a4[v6]",
      "2|v8 = a0[v7, 0] - v3[0]",
      "2|v9 = a0[v7, 1] - v3[1]",
      "2|v10 = a0[v7, 2] - v3[2]",
      "2|v11 = np.sqrt(v8 * v8 + v9 * v9 + v10 * v10)",
      "2|if v11 < a5:",
      "3|v12 = v8 * v4[0] + v9 * v4[1] + v10 * v4[2]",
      "3|if v12 > 0:",
      "4|v13 = v8 - v12 * v4[0]",
      "4|v14 = v9 - v12 * v4[1]",
      "4|v15 = v10 - v12 * v4[2]",
      "4|v16 = v13 ** 2 + v14 ** 2 + v15 ** 2",
      "4|if v16 < a6 * v12 * v12:",
      "5|if v5 < v1:",
      "6|a7[v2, v5] = v11",
      "6|a8[v2, v5] = v7",
      "6|v5 += 1",
      "1|a9[v2] = v5"] :=
  ⟨rfl, rfl⟩

/-- **signature defaults the statement depends on**: `max_thickness_nm = 8.0`, `max_angle_degrees = 5.0`
(CPU) / `3.0` (GPU), `direction = '1to2'`, `num_threads = None`, `logger = None`, `max_matches_per_point = 25`; the public
signature of `measure_membrane_thickness` (`max_thickness = 8.0`, `max_angle = 3.0`, `direction = '1to2'`, `use_gpu = True`).
Type annotations are not part of these lists. What the top-level function DOES with its parameters is pinned by
`top_dispatch_documented` / `top_flow_shape` below, not here. -/
theorem defaults_documented :
    Gen.C20.sigMeasureCpu = [
      "points",
      "normals",
      "surface1_mask",
      "surface2_mask",
      "voxel_size",
      "max_thickness_nm=8.0",
      "max_angle_degrees=5.0",
      "direction='1to2'",
      "num_threads=None",
      "logger=None",
      "max_matches_per_point=25"] ∧
    Gen.C20.sigMeasureGpu = [
      "points",
      "normals",
      "surface1_mask",
      "surface2_mask",
      "voxel_size",
      "max_thickness_nm=8.0",
      "max_angle_degrees=3.0",
      "direction='1to2'",
      "logger=None"] ∧
    Gen.C20.sigTop = [
      "segmentation_path",
      "input_csv",
      "output_csv=None",
      "output_dir=None",
      "max_thickness=8.0",
      "max_angle=3.0",
      "save_thickness_mrc=False",
      "direction='1to2'",
      "use_gpu=True",
      "num_cpu_threads=None",
      "logger=None"] :=
  ⟨rfl, rfl, rfl⟩

/-- **the top-level dispatch**, every argument written over `measure_membrane_thickness`'s own parameters (locals replaced
by their single definition): both implementations receive, in this order, the `x_voxel, y_voxel, z_voxel` columns of the
input CSV as points (NOT the `*_physical` columns), the `normal_*` columns, the `surface1` column as first and the
`surface2` column as second mask, the voxel size read from the segmentation's MRC header (second result of
`read_segmentation`), `max_thickness`, `max_angle`, `direction` and the logger by keyword; the CPU call also
`num_threads=num_cpu_threads`. The columns `thickness`, `valid_measurement`, `paired_point_idx` of the output CSV are the
first, second and third result of that call. -/
theorem top_dispatch_documented :
    Gen.C20.dispatch = [
      "measure_thickness_gpu(pd.read_csv(input_csv)[['x_voxel', 'y_voxel', 'z_voxel']].values, pd.read_csv(input_csv)[['normal_x', 'normal_y', 'normal_z']].values, pd.read_csv(input_csv)['surface1'].values.astype(bool), pd.read_csv(input_csv)['surface2'].values.astype(bool), voxel_size=read_segmentation(segmentation_path, logger=logger)[1], max_thickness_nm=max_thickness, max_angle_degrees=max_angle, direction=direction, logger=logger)",
      "measure_thickness_cpu(pd.read_csv(input_csv)[['x_voxel', 'y_voxel', 'z_voxel']].values, pd.read_csv(input_csv)[['normal_x', 'normal_y', 'normal_z']].values, pd.read_csv(input_csv)['surface1'].values.astype(bool), pd.read_csv(input_csv)['surface2'].values.astype(bool), voxel_size=read_segmentation(segmentation_path, logger=logger)[1], max_thickness_nm=max_thickness, max_angle_degrees=max_angle, direction=direction, num_threads=num_cpu_threads, logger=logger)"] ∧
    Gen.C20.columns = [
      "paired_point_idx = result[2] of measure_thickness_cpu / measure_thickness_gpu",
      "thickness = result[0] of measure_thickness_cpu / measure_thickness_gpu",
      "valid_measurement = result[1] of measure_thickness_cpu / measure_thickness_gpu"] :=
  ⟨rfl, rfl⟩

/-- `measure_membrane_thickness` and `read_segmentation`, statement by statement (logging removed): output paths, the voxel
size `mrc.voxel_size.x / 10` (Å → nm), the CSV columns, the GPU branch only when `use_gpu` and CUDA is available, the result
columns written after the call, nothing touching points / masks between reading them and the call. -/
theorem top_flow_shape :
    Gen.C20.bodyTop = [
      "0|if a3 is None:",
      "1|a3 = os.path.dirname(a1)",
      "0|os.makedirs(a3, exist_ok=True)",
      "0|if a2 is None:",
      "1|v0 = os.path.splitext(os.path.basename(a1))[0]",
      "1|v1 = '_2to1' if a7 == '2to1' else ''",
      "1|a2 = os.path.join(a3, f'{v0}_thickness{v1}.csv')",
      "0|if a10 is None:",
      "1|a10 = setup_logger(a3)",
      "0|v2 = os.path.splitext(os.path.basename(a2))[0]",
      "0|v3 = os.path.join(a3, f'{v2}_stats.log')",
      "0|v4, v5, v6 = read_segmentation(a0, logger=a10)",
      "0|if v4 is None:",
      "1|return (None, None)",
      "0|v7 = pd.read_csv(a1)",
      "0|v8 = v7[['x_voxel', 'y_voxel', 'z_voxel']].values",
      "0|v9 = v7[['normal_x', 'normal_y', 'normal_z']].values",
      "0|v10 = v7['surface1'].values.astype(bool)",
      "0|v11 = v7['surface2'].values.astype(bool)",
      "0|v12 = False",
      "0|if a8:",
      "1|try:",
      "2|import numba.cuda",
      "2|v12 = numba.cuda.is_available()",
      "1|except ImportError:",
      "2|pass",
      "0|v13 = time.time()",
      "0|if a8 and v12:",
      "1|v14, v15, v16 = measure_thickness_gpu(v8, v9, v10, v11, voxel_size=v5, max_thickness_nm=a4, max_angle_degrees=a5, direction=a7, logger=a10)",
      "0|else:",
      "1|v14, v15, v16 = measure_thickness_cpu(v8, v9, v10, v11, voxel_size=v5, max_thickness_nm=a4, max_angle_degrees=a5, direction=a7, num_threads=a9, logger=a10)",
      "0|v17 = time.time() - v13",
      "0|v18 = generate_matching_statistics(v14, v15, v16, v8, v10, v11, v5)",
      "0|save_matching_statistics(v18, v3, a10)",
      "0|v7['thickness'] = v14",
      "0|v7['valid_measurement'] = v15",
      "0|v7['paired_point_idx'] = v16",
      "0|v7.to_csv(a2, index=False)",
      "0|if a6:",
      "1|v19 = os.path.join(a3, f'{v2}_volume.mrc')",
      "1|v20 = generate_thickness_volume(v8, v14, v15, v4, v5, v16)",
      "1|save_thickness_volume(v20, v19, v5, v6)",
      "1|v21 = v20[~np.isnan(v20)]",
      "0|return (a2, v3)"] ∧
    Gen.C20.bodyReadSeg = [
      "0|try:",
      "1|with mrcfile.mmap(a0, mode='r', permissive=True) as v0:",
      "2|v1 = v0.data",
      "2|v2 = v0.voxel_size.x / 10",
      "2|v3 = (v0.header.origin.x / 10, v0.header.origin.y / 10, v0.header.origin.z / 10)",
      "1|return (v1, v2, v3)",
      "0|except Exception as v4:",
      "1|return (None, None, None)"] :=
  ⟨rfl, rfl⟩

/-- **nothing between the measurement and the CSV edits the result arrays.** `measure_membrane_thickness` hands
`thickness_results`, `valid_mask`, `point_pairs` (and points / masks) to `generate_matching_statistics` BEFORE it stores them
into the output columns (`top_flow_shape`), and to `generate_thickness_volume` afterwards. For these helpers (and the two
writers next to them) the translator lists every statement that may modify a parameter — or a local that may be a view of one —
in place: subscript / attribute stores, augmented assignments, `del`, `out=`, mutating methods, in-place numpy routines,
handing the array on to another non-builtin function. The list is empty: what is written to the CSV is what the measurement
returned. (A syntactic obligation: aliasing through containers or `globals()` is not tracked.) -/
theorem helpers_pure :
    Gen.C20.pureHelpers = ["generate_matching_statistics", "save_matching_statistics",
      "generate_thickness_volume", "save_thickness_volume"] ∧
    Gen.C20.helperWrites = [] :=
  ⟨rfl, rfl⟩

/-- **the other entry points** (`run_full_pipeline`, the command line `main` / `parse_arguments`): defaults
`max_thickness = 8.0`, `max_angle = 3.0`, `direction = '1to2'`, GPU unless `--use_cpu`; each of them hands ITS
`max_thickness`, `max_angle`, `direction`, `use_gpu`, `num_cpu_threads` to the parameter of the same name of
`measure_membrane_thickness` (no positional arguments, nothing swapped, nothing dropped). Anchored only — these two are
never executed by the correspondence run (they need a full segmentation). -/
theorem callers_documented :
    Gen.C20.callers = [
      "run_full_pipeline(max_thickness=8.0, max_angle=3.0, direction='1to2', use_gpu=True, num_cpu_threads=None)",
      "run_full_pipeline -> measure_membrane_thickness: max_thickness=max_thickness, max_angle=max_angle, direction=direction, use_gpu=use_gpu, num_cpu_threads=num_cpu_threads",
      "main -> run_full_pipeline: max_thickness=parse_arguments().max_thickness, max_angle=parse_arguments().max_angle, direction=parse_arguments().direction, use_gpu=not parse_arguments().use_cpu, num_cpu_threads=parse_arguments().cpu_threads",
      "main -> measure_membrane_thickness: max_thickness=parse_arguments().max_thickness, max_angle=parse_arguments().max_angle, direction=parse_arguments().direction, use_gpu=not parse_arguments().use_cpu, num_cpu_threads=parse_arguments().cpu_threads",
      "option --max_thickness: type=float, default=8.0",
      "option --max_angle: type=float, default=3.0",
      "option --direction: choices=['1to2', '2to1'], default='1to2'",
      "option --use_cpu: action='store_true'",
      "option --cpu_threads: type=int"] :=
  rfl

/-- **logging is optional**: the helper every pruned `log_msg(...)` statement of `measure_thickness_cpu`,
`measure_thickness_gpu` and `read_segmentation` calls falls back to `print` when no logger is given (`a9` / `a8` / `a1` is
the `logger` parameter, `x0` the message) — with the default `logger=None` nothing dereferences `None`. -/
theorem log_helpers_documented :
    Gen.C20.helpersMeasureCpu = ["lambda x0: a9.info(x0) if a9 else print(x0)"] ∧
    Gen.C20.helpersMeasureGpu = ["lambda x0: a8.info(x0) if a8 else print(x0)"] ∧
    Gen.C20.helpersReadSeg = ["lambda x0: a1.info(x0) if a1 else print(x0)"] :=
  ⟨rfl, rfl, rfl⟩

/-- the kernels and the two assignment loops are called positionally: arity, no defaults; decorators of all seven functions
(`@cuda.jit` / `@numba.njit(parallel=True)` on the two kernels, none elsewhere — a wrapper would change what the name is
bound to; the framework's `binding:` obligations check the same against harness/decorators.json) -/
theorem kernel_signatures_documented :
    Gen.C20.sigCudaKernel = ["a0", "a1", "a2", "a3", "a4", "a5", "a6", "a7", "a8", "a9"] ∧
    Gen.C20.decoCudaKernel = ["cuda.jit"] ∧
    Gen.C20.sigNumbaKernel = ["a0", "a1", "a2", "a3", "a4", "a5", "a6", "a7", "a8", "a9"] ∧
    Gen.C20.decoNumbaKernel = ["numba.njit(parallel=True)"] ∧
    Gen.C20.sigGpu2Cpu = ["a0", "a1", "a2", "a3", "a4", "a5"] ∧
    Gen.C20.sigCpu2Cpu = ["a0", "a1", "a2"] ∧
    Gen.C20.decoGpu2Cpu = [] ∧ Gen.C20.decoCpu2Cpu = [] ∧ Gen.C20.decoMeasureGpu = [] ∧
    Gen.C20.decoMeasureCpu = [] ∧ Gen.C20.decoTop = [] :=
  ⟨rfl, rfl, rfl, rfl, rfl, rfl, rfl, rfl, rfl, rfl, rfl⟩

/-! ### the property -/

section spec
variable {α : Type} [Field α] [LinearOrder α] [IsStrictOrderedRing α]

/-- **The statement.** `out` is the list of (source id, target id) pairs reported for input `i`.
* `admissible`: every pair joins a source-surface point to a target-surface point that is within the
  maximum thickness, ahead of the source along its normal and inside the cone (`Adm`);
* `oneToOne`: no source and no target occurs in two pairs;
* `greedy`: pairs are chosen by increasing distance — every admissible (source, target) pair shares
  its source or its target with a reported pair that is not farther apart. -/
structure Spec (sqrt : α → α) (i : Input α) (strict : Bool) (out : List (Nat × Nat)) : Prop where
  admissible : ∀ p ∈ out, ∃ a ∈ i.sources, ∃ b ∈ i.targets,
    a.idx = p.1 ∧ b.idx = p.2 ∧ Adm sqrt (i.params strict) a b
  oneToOne : out.Pairwise (fun x y => x.1 ≠ y.1 ∧ x.2 ≠ y.2)
  greedy : ∀ a ∈ i.sources, ∀ b ∈ i.targets, Adm sqrt (i.params strict) a b →
    ∃ a' ∈ i.sources, ∃ b' ∈ i.targets, (a'.idx, b'.idx) ∈ out ∧ Adm sqrt (i.params strict) a' b' ∧
      (a'.idx = a.idx ∨ b'.idx = b.idx) ∧ dist sqrt a'.p b'.p ≤ dist sqrt a.p b.p

/-- the pairs the model reports -/
def pairsOf (m : List (Cand α)) : List (Nat × Nat) := m.map (fun c => (c.s, c.t))

/-- every pair the model assigns is an admissible (source, target) pair and carries the Euclidean
distance of its two points; its thickness is that distance times the voxel size -/
theorem model_distance (sqrt : α → α) (i : Input α) (strict : Bool) :
    ∀ c ∈ measure sqrt i strict, ∃ a ∈ i.sources, ∃ b ∈ i.targets,
      a.idx = c.s ∧ b.idx = c.t ∧ Adm sqrt (i.params strict) a b ∧
      c.d = dist sqrt a.p b.p ∧ thickness i c = dist sqrt a.p b.p * i.voxel := by
  intro c hc
  have h1 := greedy_sub _ c hc
  rw [mem_sortCands] at h1
  obtain ⟨a, ha, b, hb, hadm, rfl⟩ := (mem_cands_iff sqrt _ _ _ c).1 h1
  exact ⟨a, ha, b, hb, rfl, rfl, hadm, rfl, rfl⟩

/-- the model's cone multiplier is the value of the source's multiplier expression (CPU and GPU path) -/
theorem params_multiplier_is_source_expression (T : Trig α) (deg : α) (i : Input α) (strict : Bool)
    (h : i.tanT = T.tan (T.radians deg)) :
    Gen.C20.multCpu.eval T deg = some (i.params strict).m ∧ Gen.C20.multGpu.eval T deg = some (i.params strict).m := by
  have := multiplier_evaluates T deg
  simp only [Input.params, h]
  exact this

/-- **Greedy with Python's tie-break.** Every candidate is assigned, or shares its source or target
with an assigned pair that precedes it in the order `(dist, source, target)`. -/
theorem model_lex (sqrt : α → α) (i : Input α) (strict : Bool) :
    ∀ c ∈ i.cands sqrt strict, ∃ x ∈ measure sqrt i strict,
      (x.s = c.s ∨ x.t = c.t) ∧ (x = c ∨ LexLe x c) := by
  intro c hc
  exact greedy_blocked LexLe _ (sortCands_pairwise _) c ((mem_sortCands _ c).2 hc)

/-- **Model theorem**: for every input (any number of points, any labelling, any parameters, either
direction, either ball test) the model's output satisfies the statement. -/
theorem model_spec (sqrt : α → α) (i : Input α) (strict : Bool) :
    Spec sqrt i strict (pairsOf (measure sqrt i strict)) := by
  refine ⟨?_, oneToOne_map_pairs (greedy_oneToOne _), ?_⟩
  · intro p hp
    obtain ⟨c, hc, rfl⟩ := List.mem_map.1 hp
    obtain ⟨a, ha, b, hb, e1, e2, hadm, _⟩ := model_distance sqrt i strict c hc
    exact ⟨a, ha, b, hb, e1, e2, hadm⟩
  · intro a ha b hb hadm
    have hc : (⟨dist sqrt a.p b.p, a.idx, b.idx⟩ : Cand α) ∈ i.cands sqrt strict :=
      (mem_cands_iff sqrt _ _ _ _).2 ⟨a, ha, b, hb, hadm, rfl⟩
    obtain ⟨x, hx, hshare, hle⟩ := model_lex sqrt i strict _ hc
    obtain ⟨a', ha', b', hb', e1, e2, hadm', ed, _⟩ := model_distance sqrt i strict x hx
    refine ⟨a', ha', b', hb', ?_, hadm', ?_, ?_⟩
    · rw [e1, e2]; exact List.mem_map.2 ⟨x, hx, rfl⟩
    · rw [e1, e2]; exact hshare
    · rw [← ed]
      rcases hle with rfl | h
      · exact le_refl _
      · exact h.d_le

/-- **Checker theorem**: whatever pairing the real code reports, if `check` accepts it then it
satisfies the statement. -/
theorem check_sound (sqrt : α → α) (i : Input α) (strict : Bool) (out : List (Nat × Nat))
    (h : check sqrt i strict out = true) : Spec sqrt i strict out := by
  simp only [check, Bool.and_eq_true] at h
  obtain ⟨⟨hA, hB⟩, hC⟩ := h
  refine ⟨?_, (oneToOneB_iff out).1 hB, ?_⟩
  · intro p hp
    simp only [checkAdm, List.all_eq_true, List.any_eq_true, Bool.and_eq_true, beq_iff_eq] at hA
    obtain ⟨c, hc, e1, e2⟩ := hA p hp
    obtain ⟨a, ha, b, hb, hadm, rfl⟩ := (mem_cands_iff sqrt _ _ _ c).1 hc
    exact ⟨a, ha, b, hb, e1, e2, hadm⟩
  · intro a ha b hb hadm
    have hc : (⟨dist sqrt a.p b.p, a.idx, b.idx⟩ : Cand α) ∈ i.cands sqrt strict :=
      (mem_cands_iff sqrt _ _ _ _).2 ⟨a, ha, b, hb, hadm, rfl⟩
    simp only [checkGreedy, List.all_eq_true, List.any_eq_true, Bool.and_eq_true, Bool.or_eq_true, beq_iff_eq,
      Bool.not_eq_true', decide_eq_false_iff_not, not_lt, List.mem_filter, List.contains_iff_mem] at hC
    obtain ⟨o, ⟨ho, hout⟩, hshare, hle⟩ := hC _ hc
    obtain ⟨a', ha', b', hb', hadm', rfl⟩ := (mem_cands_iff sqrt _ _ _ o).1 ho
    exact ⟨a', ha', b', hb', hout, hadm', hshare, hle⟩

/-- **Checker completeness**: every pairing that satisfies the statement is accepted — `check` never rejects a
correct output (no spurious `spec` finding can come from the checker). -/
theorem check_complete (sqrt : α → α) (i : Input α) (strict : Bool) (out : List (Nat × Nat))
    (h : Spec sqrt i strict out) : check sqrt i strict out = true := by
  simp only [check, Bool.and_eq_true]
  refine ⟨⟨?_, (oneToOneB_iff out).2 h.oneToOne⟩, ?_⟩
  · simp only [checkAdm, List.all_eq_true, List.any_eq_true, Bool.and_eq_true, beq_iff_eq]
    intro p hp
    obtain ⟨a, ha, b, hb, e1, e2, hadm⟩ := h.admissible p hp
    exact ⟨⟨dist sqrt a.p b.p, a.idx, b.idx⟩, (mem_cands_iff sqrt _ _ _ _).2 ⟨a, ha, b, hb, hadm, rfl⟩, e1, e2⟩
  · simp only [checkGreedy, List.all_eq_true, List.any_eq_true, Bool.and_eq_true, Bool.or_eq_true, beq_iff_eq,
      Bool.not_eq_true', decide_eq_false_iff_not, not_lt, List.mem_filter, List.contains_iff_mem]
    intro c hc
    obtain ⟨a, ha, b, hb, hadm, rfl⟩ := (mem_cands_iff sqrt _ _ _ c).1 hc
    obtain ⟨a', ha', b', hb', hin, hadm', hshare, hle⟩ := h.greedy a ha b hb hadm
    exact ⟨⟨dist sqrt a'.p b'.p, a'.idx, b'.idx⟩,
      ⟨(mem_cands_iff sqrt _ _ _ _).2 ⟨a', ha', b', hb', hadm', rfl⟩, hin⟩, hshare, hle⟩

/-- the checker decides the statement -/
theorem check_iff (sqrt : α → α) (i : Input α) (strict : Bool) (out : List (Nat × Nat)) :
    check sqrt i strict out = true ↔ Spec sqrt i strict out :=
  ⟨check_sound sqrt i strict out, check_complete sqrt i strict out⟩

/-! #### the candidate buffer of 25 slots per source ("fewer than 25 candidates per source point")

`candsCapped` models what the kernels store: per source the first `cap` admissible targets in scan order.
`Input.maxRow` is the largest number of admissible targets any source has. -/

/-- **capped = uncapped.** If no source has more admissible targets than the buffer has slots, the buffer holds
exactly the candidate list and the GPU-path model `measureCapped` IS `measure`. -/
theorem capped_eq_uncapped (sqrt : α → α) (i : Input α) (strict : Bool) (cap : Nat)
    (h : i.maxRow sqrt strict ≤ cap) :
    i.candsCapped sqrt strict cap = i.cands sqrt strict ∧
    measureCapped sqrt i strict cap = measure sqrt i strict := by
  have e : i.candsCapped sqrt strict cap = i.cands sqrt strict :=
    candsCapped_eq sqrt (i.params strict) cap i.sources i.targets
      (fun a ha => Nat.le_trans (row_le_maxRow sqrt i strict a ha) h)
  exact ⟨e, by unfold measureCapped measure; rw [e]⟩

/-- in the words of the quantifier: with fewer than 25 candidates per source the buffer size the source uses
(`Gen.C20.capGpu`, `Gen.C20.capDefault`, both pinned to 25 by `gpu_flow_shape` / `cpu_flow_shape`) changes nothing,
and the pairing satisfies the statement -/
theorem fewer_than_25_candidates (sqrt : α → α) (i : Input α) (strict : Bool)
    (h : i.maxRow sqrt strict < 25) :
    measureCapped sqrt i strict Gen.C20.capGpu = measure sqrt i strict ∧
    measureCapped sqrt i strict Gen.C20.capDefault = measure sqrt i strict ∧
    Spec sqrt i strict (pairsOf (measureCapped sqrt i strict Gen.C20.capGpu)) := by
  have e1 : Gen.C20.capGpu = 25 := by decide
  have e2 : Gen.C20.capDefault = 25 := by decide
  have hm := (capped_eq_uncapped sqrt i strict 25 (Nat.le_of_lt h)).2
  rw [e1, e2]
  exact ⟨hm, hm, by rw [hm]; exact model_spec sqrt i strict⟩

/-- **above the cap** (outside the quantifier) the per-pair clauses still hold for the capped model: every pair
is an admissible (source, target) pair and the pairing is one-to-one; only the greedy clause can be lost,
because the buffer drops candidates by scan order, not by distance. -/
theorem capped_pairs_sound (sqrt : α → α) (i : Input α) (strict : Bool) (cap : Nat) :
    (∀ p ∈ pairsOf (measureCapped sqrt i strict cap), ∃ a ∈ i.sources, ∃ b ∈ i.targets,
      a.idx = p.1 ∧ b.idx = p.2 ∧ Adm sqrt (i.params strict) a b) ∧
    (pairsOf (measureCapped sqrt i strict cap)).Pairwise (fun x y => x.1 ≠ y.1 ∧ x.2 ≠ y.2) := by
  refine ⟨?_, oneToOne_map_pairs (greedy_oneToOne _)⟩
  intro p hp
  obtain ⟨c, hc, rfl⟩ := List.mem_map.1 hp
  have h1 := greedy_sub _ c hc
  rw [mem_sortCands] at h1
  have h2 := candsCapped_sub sqrt (i.params strict) cap i.sources i.targets c h1
  obtain ⟨a, ha, b, hb, hadm, rfl⟩ := (mem_cands_iff sqrt _ _ _ c).1 h2
  exact ⟨a, ha, b, hb, rfl, rfl, hadm⟩

/-- **the order in which candidates are produced does not matter** (the CPU path appends them in KD-tree order,
which is not specified): any permutation of the candidate list is sorted into the same list, hence assigned the
same pairs. -/
theorem measure_order_independent (sqrt : α → α) (i : Input α) (strict : Bool) (cs : List (Cand α))
    (h : cs.Perm (i.cands sqrt strict)) : greedy (sortCands cs) = measure sqrt i strict := by
  unfold measure; rw [sortCands_perm h]

/-! #### clauses of the statement, derived from `Spec` (hence valid for the model *and* for every
implementation output the checker accepts) -/

/-- no admissible pair of two unmatched points is left over -/
theorem no_leftover {sqrt : α → α} {i : Input α} {strict : Bool} {out : List (Nat × Nat)}
    (hS : Spec sqrt i strict out) (a b : Pt α) (ha : a ∈ i.sources) (hb : b ∈ i.targets)
    (hadm : Adm sqrt (i.params strict) a b) :
    (∃ p ∈ out, p.1 = a.idx) ∨ (∃ p ∈ out, p.2 = b.idx) := by
  obtain ⟨a', _, b', _, hin, _, hshare, _⟩ := hS.greedy a ha b hb hadm
  rcases hshare with h | h
  · exact Or.inl ⟨_, hin, h⟩
  · exact Or.inr ⟨_, hin, h⟩

/-- no matched source has a closer admissible unmatched target (points carry distinct identifiers) -/
theorem no_closer {sqrt : α → α} {i : Input α} {strict : Bool} {out : List (Nat × Nat)}
    (hS : Spec sqrt i strict out) (hid : i.pts.Pairwise (fun x y => x.idx ≠ y.idx))
    (a b b' : Pt α) (ha : a ∈ i.sources) (hb : b ∈ i.targets) (hb' : b' ∈ i.targets)
    (hpair : (a.idx, b'.idx) ∈ out) (hadm : Adm sqrt (i.params strict) a b)
    (hfree : ∀ p ∈ out, p.2 ≠ b.idx) :
    dist sqrt a.p b'.p ≤ dist sqrt a.p b.p := by
  obtain ⟨a'', ha'', b'', hb'', hin, _, hshare, hle⟩ := hS.greedy a ha b hb hadm
  rcases hshare with h | h
  · have e := pair_unique_of_src hS.oneToOne hin hpair h
    have ea : a'' = a := pt_unique hid (List.mem_filter.1 ha'').1 (List.mem_filter.1 ha).1 h
    have eb : b'' = b' := pt_unique hid (List.mem_filter.1 hb'').1 (List.mem_filter.1 hb').1
      (congrArg Prod.snd e)
    rw [ea, eb] at hle; exact hle
  · exact absurd h (hfree _ hin)

/-- each source is paired with at most one target, and no target is used twice -/
theorem at_most_one {sqrt : α → α} {i : Input α} {strict : Bool} {out : List (Nat × Nat)}
    (hS : Spec sqrt i strict out) (p q : Nat × Nat) (hp : p ∈ out) (hq : q ∈ out) :
    (p.1 = q.1 → p = q) ∧ (p.2 = q.2 → p = q) :=
  ⟨pair_unique_of_src hS.oneToOne hp hq, pair_unique_of_tgt hS.oneToOne hp hq⟩

/-- a pair's thickness (distance × voxel size) does not exceed the maximum thickness, and the target
lies ahead of the source along the source normal -/
theorem within_range_and_forward {sqrt : α → α} {i : Input α} {strict : Bool} {out : List (Nat × Nat)}
    (hS : Spec sqrt i strict out) (hv : 0 < i.voxel) (p : Nat × Nat) (hp : p ∈ out) :
    ∃ a ∈ i.sources, ∃ b ∈ i.targets, a.idx = p.1 ∧ b.idx = p.2 ∧
      dist sqrt a.p b.p * i.voxel ≤ i.maxNm ∧ 0 < proj a.p b.p a.n := by
  obtain ⟨a, ha, b, hb, e1, e2, hball, hfwd, _⟩ := hS.admissible p hp
  refine ⟨a, ha, b, hb, e1, e2, thickness_le _ _ _ hv ?_, hfwd⟩
  have : (i.params strict).r = i.maxNm / i.voxel := rfl
  rw [this] at hball
  split at hball
  · exact le_of_lt hball
  · exact hball

/-- **Cone (exactly unit normals; for float normals with `n·n ≈ 1` see `in_cone_approx`).** `c`, `t` are the cosine and the tangent of `max_angle` (abstractly: `c > 0`,
`c²(1+t²) = 1`), `i.tanT = t`. For a unit source normal every reported pair satisfies
`proj > c · dist`: the angle between (target − source) and the normal is smaller than `max_angle`. -/
theorem in_cone {sqrt : α → α} {i : Input α} {strict : Bool} {out : List (Nat × Nat)}
    (hS : Spec sqrt i strict out) (c : α) (hc : 0 < c) (hct : c * c * (1 + i.tanT * i.tanT) = 1)
    (hsq0 : ∀ x, 0 ≤ sqrt x) (hsq : ∀ x, 0 ≤ x → sqrt x * sqrt x = x)
    (p : Nat × Nat) (hp : p ∈ out) :
    ∃ a ∈ i.sources, ∃ b ∈ i.targets, a.idx = p.1 ∧ b.idx = p.2 ∧
      (V3.dot a.n a.n = 1 → c * dist sqrt a.p b.p < proj a.p b.p a.n) := by
  obtain ⟨a, ha, b, hb, e1, e2, _, hfwd, hcone⟩ := hS.admissible p hp
  refine ⟨a, ha, b, hb, e1, e2, fun hn => ?_⟩
  have hd2 : 0 ≤ d2 a.p b.p := by
    simp only [d2, V3.dot]
    have h1 := mul_self_nonneg (b.p - a.p).x
    have h2 := mul_self_nonneg (b.p - a.p).y
    have h3 := mul_self_nonneg (b.p - a.p).z
    linarith
  exact (cone_iff_dist sqrt a.p b.p a.n c i.tanT hn hc hct (hsq0 _) (hsq _ hd2)).1 ⟨hfwd, hcone⟩

/-- **Cone, for a normal that is only approximately of unit length** (what float data gives: `in_cone` above asks for
`n·n = 1` EXACTLY, which noisy float normals do not satisfy — for them this is the applicable statement). If the source
normal satisfies `n·n ≥ 1 − ε`, every reported pair satisfies `proj > 0` and `c²·dist² < proj²·(1 + c²·ε)` where
`proj = (target − source)·n`: inside the cone up to a relative widening `c²·ε` of `proj²` (`ε = 0`: the exact cone of
`cone_iff`). No hypothesis on the square root. -/
theorem in_cone_approx {sqrt : α → α} {i : Input α} {strict : Bool} {out : List (Nat × Nat)}
    (hS : Spec sqrt i strict out) (c ε : α) (hc : 0 < c) (hct : c * c * (1 + i.tanT * i.tanT) = 1)
    (p : Nat × Nat) (hp : p ∈ out) :
    ∃ a ∈ i.sources, ∃ b ∈ i.targets, a.idx = p.1 ∧ b.idx = p.2 ∧ 0 < proj a.p b.p a.n ∧
      (1 - ε ≤ V3.dot a.n a.n →
        c * c * d2 a.p b.p < proj a.p b.p a.n * proj a.p b.p a.n * (1 + c * c * ε)) := by
  obtain ⟨a, ha, b, hb, e1, e2, _, hfwd, hcone⟩ := hS.admissible p hp
  refine ⟨a, ha, b, hb, e1, e2, hfwd, fun hn => ?_⟩
  have hm : (i.params strict).m = i.tanT * i.tanT := rfl
  rw [hm, lat2_general] at hcone
  have hP : 0 ≤ proj a.p b.p a.n * proj a.p b.p a.n := mul_self_nonneg _
  have hc2 : 0 < c * c := mul_pos hc hc
  have hle := mul_le_mul_of_nonneg_left (show 2 - V3.dot a.n a.n ≤ 1 + ε by linarith) hP
  have h2 : d2 a.p b.p < i.tanT * i.tanT * proj a.p b.p a.n * proj a.p b.p a.n
      + proj a.p b.p a.n * proj a.p b.p a.n * (1 + ε) := by linarith
  have h3 := mul_lt_mul_of_pos_left h2 hc2
  have e : c * c * (i.tanT * i.tanT * proj a.p b.p a.n * proj a.p b.p a.n
      + proj a.p b.p a.n * proj a.p b.p a.n * (1 + ε))
      = proj a.p b.p a.n * proj a.p b.p a.n * (1 + c * c * ε) := by
    linear_combination (proj a.p b.p a.n * proj a.p b.p a.n) * hct
  rw [e] at h3
  exact h3

/-- **Cone criterion of the admissibility test itself** (both directions): with multiplier `t²`, for
a unit normal, accepted ⇔ `proj > 0 ∧ proj² > c²·dist²` — i.e. strictly inside the cone of half-angle
`θ` with `cos θ = c`, `tan θ = t`; nothing outside the cone is accepted and nothing inside is refused. -/
theorem cone_iff (u v n : V3 α) (c t : α) (hn : V3.dot n n = 1) (hc : 0 < c) (hct : c * c * (1 + t * t) = 1) :
    inCone (t * t) u v n = true ↔ (0 < proj u v n ∧ c * c * d2 u v < proj u v n * proj u v n) := by
  rw [← cone_iff_sq u v n c t hn hc hct]
  simp [inCone]

/-! #### invariances -/

/-- **Rigid motion.** Moving all points by `x ↦ Q x + b` and all normals by `n ↦ Q n` with `Q`
orthogonal leaves the assigned pairs and their distances (hence thicknesses) unchanged. -/
theorem measure_move (sqrt : α → α) (i : Input α) (strict : Bool) (q : M3 α) (b : V3 α) (hq : q.Orth) :
    measure sqrt (i.move q b) strict = measure sqrt i strict := by
  unfold measure Input.cands
  congr 2
  have hs : (i.move q b).sources = i.sources.map (Pt.move q b) := by
    simp only [Input.sources, Input.move]
    exact filter_map_of_inv (Pt.move q b) _ (fun _ => rfl) _
  have ht : (i.move q b).targets = i.targets.map (Pt.move q b) := by
    simp only [Input.targets, Input.move]
    exact filter_map_of_inv (Pt.move q b) _ (fun _ => rfl) _
  rw [hs, ht]
  have hd : ∀ x y : Pt α, dist sqrt (Pt.move q b x).p (Pt.move q b y).p = dist sqrt x.p y.p := by
    intro x y; simp only [dist, Pt.move, d2_move hq]
  refine cands_map sqrt _ _ (Pt.move q b) _ _ (fun _ => rfl) hd ?_
  intro x y
  have : (i.move q b).params strict = i.params strict := rfl
  rw [this]
  unfold adm inCone
  rw [hd]
  simp only [Pt.move, proj_move hq, lat2_move hq]

/-- **Voxel size.** Expressing the same data with voxel size `k·v` (and the maximum thickness in the
same rescaled unit) gives the same pairs, and every thickness is multiplied by `k`. -/
theorem measure_rescale (sqrt : α → α) (i : Input α) (strict : Bool) (k : α) (hk : k ≠ 0) :
    measure sqrt (i.rescale k) strict = measure sqrt i strict ∧
    ∀ c, thickness (i.rescale k) c = k * thickness i c := by
  constructor
  · unfold measure Input.cands
    have : (i.rescale k).params strict = i.params strict := by
      simp only [Input.params, Input.rescale, rescale_radius k _ _ hk]
    rw [this]; rfl
  · intro c; simp only [thickness, Input.rescale]; ring

/-- **What "scales with the voxel size" means, and what it does not.** `measure_rescale` above is an invariance
under a change of UNIT: the same data expressed with another voxel size AND the maximum thickness expressed in the same
rescaled unit (weaker than an unconditional reading of the statement). At a FIXED physical maximum
`max_thickness_nm` the pairing is in general NOT invariant, because the search radius
`max_thickness_nm / voxel_size` changes with the voxel size. What holds then, exactly:
(1) `cands_at_larger_voxel_iff`: at voxel size `k·v`, `k ≥ 1`, the candidates are precisely the candidates at `v`
    whose distance passes the smaller radius `max_thickness_nm / (k·v)` — candidates are only removed, never added or
    changed (`cands_of_larger_voxel` is the inclusion);
(2) `thickness_at_other_voxel`: a pair kept by both runs has the same distance in voxels, so its thickness is
    multiplied by `k`; `thickness_scales` is the same fact for two arbitrary voxel sizes (a one-line ring identity
    about `thickness c = c.d · voxel`, recorded as such — not a theorem about the pairing).
The correspondence run executes the real code at a second voxel size with the same `max_thickness_nm`
(stream `kv`) and judges it as an input of its own. -/
theorem thickness_scales (i j : Input α) (c : Cand α) :
    thickness j c * i.voxel = thickness i c * j.voxel := by
  simp only [thickness]; ring

theorem thickness_at_other_voxel (i : Input α) (k : α) (c : Cand α) :
    thickness ({ i with voxel := k * i.voxel } : Input α) c = k * thickness i c := by
  simp only [thickness]; ring

theorem cands_of_larger_voxel (sqrt : α → α) (i : Input α) (strict : Bool) (k : α) (hk : 1 ≤ k)
    (hv : 0 < i.voxel) (hm : 0 ≤ i.maxNm) :
    ∀ c ∈ ({ i with voxel := k * i.voxel } : Input α).cands sqrt strict, c ∈ i.cands sqrt strict := by
  intro c hc
  unfold Input.cands at hc ⊢
  obtain ⟨a, ha, b, hb, hadm, rfl⟩ := (mem_cands_iff sqrt _ _ _ c).1 hc
  refine (mem_cands_iff sqrt _ _ _ _).2 ⟨a, ha, b, hb, ?_, rfl⟩
  have hr : ({ i with voxel := k * i.voxel } : Input α).params strict = { i.params strict with r := i.maxNm / (k * i.voxel) } := rfl
  have hle : i.maxNm / (k * i.voxel) ≤ i.maxNm / i.voxel := by
    apply div_le_div_of_nonneg_left hm hv
    calc i.voxel = 1 * i.voxel := (one_mul _).symm
      _ ≤ k * i.voxel := mul_le_mul_of_nonneg_right hk (le_of_lt hv)
  rw [hr] at hadm
  obtain ⟨h1, h2, h3⟩ := hadm
  refine ⟨?_, h2, h3⟩
  have hs : (i.params strict).strict = strict := rfl
  simp only [hs] at h1 ⊢
  have hrr : (i.params strict).r = i.maxNm / i.voxel := rfl
  rw [hrr]
  cases strict
  · simp only [Bool.false_eq_true, if_false] at h1 ⊢; exact le_trans h1 hle
  · simp only [if_true] at h1 ⊢; exact lt_of_lt_of_le h1 hle

/-- the candidate set at a larger voxel size and the same `max_thickness_nm`, exactly -/
theorem cands_at_larger_voxel_iff (sqrt : α → α) (i : Input α) (strict : Bool) (k : α) (hk : 1 ≤ k)
    (hv : 0 < i.voxel) (hm : 0 ≤ i.maxNm) (c : Cand α) :
    c ∈ ({ i with voxel := k * i.voxel } : Input α).cands sqrt strict ↔
      (c ∈ i.cands sqrt strict ∧
        (if strict then c.d < i.maxNm / (k * i.voxel) else c.d ≤ i.maxNm / (k * i.voxel))) := by
  constructor
  · intro hc
    refine ⟨cands_of_larger_voxel sqrt i strict k hk hv hm c hc, ?_⟩
    unfold Input.cands at hc
    obtain ⟨a, ha, b, hb, hadm, rfl⟩ := (mem_cands_iff sqrt _ _ _ c).1 hc
    exact hadm.1
  · rintro ⟨hc, hball⟩
    unfold Input.cands at hc ⊢
    obtain ⟨a, ha, b, hb, hadm, rfl⟩ := (mem_cands_iff sqrt _ _ _ c).1 hc
    exact (mem_cands_iff sqrt _ _ _ _).2 ⟨a, ha, b, hb, ⟨hball, hadm.2.1, hadm.2.2⟩, rfl⟩

/-- **Direction.** `'2to1'` is `'1to2'` with the roles of the two surfaces exchanged. -/
theorem direction_swap (sqrt : α → α) (i : Input α) (strict : Bool) :
    measure sqrt { i with rev := true } strict
      = measure sqrt { i.swapSurfaces with rev := false } strict := by
  unfold measure Input.cands
  congr 2
  have hs : ({ i.swapSurfaces with rev := false } : Input α).sources
      = (({ i with rev := true } : Input α).sources).map Pt.swap := by
    simp only [Input.sources, Input.swapSurfaces]
    exact filter_map_of_inv' Pt.swap _ _ (fun _ => rfl) _
  have ht : ({ i.swapSurfaces with rev := false } : Input α).targets
      = (({ i with rev := true } : Input α).targets).map Pt.swap := by
    simp only [Input.targets, Input.swapSurfaces]
    exact filter_map_of_inv' Pt.swap _ _ (fun _ => rfl) _
  rw [hs, ht]
  exact (cands_map sqrt _ _ Pt.swap _ _ (fun _ => rfl) (fun _ _ => rfl) (fun _ _ => rfl)).symm

end spec

/-- **Cone, over the reals** (hypothesis `n·n = 1` exact, as in `in_cone`; `in_cone_real_approx` drops it). With the real square root and `tanT = tan θ` for a half-angle
`0 < θ < π/2` (`max_angle` in radians), every reported pair whose source normal has length 1 satisfies
`cos θ · ‖target − source‖ < (target − source)·normal`: the angle between the connecting vector and
the normal is smaller than `θ`. -/
theorem in_cone_real {i : Input ℝ} {strict : Bool} {out : List (Nat × Nat)} (θ : ℝ) (h0 : 0 < θ) (h1 : θ < Real.pi / 2)
    (htan : i.tanT = Real.tan θ) (hS : Spec Real.sqrt i strict out) (p : Nat × Nat) (hp : p ∈ out) :
    ∃ a ∈ i.sources, ∃ b ∈ i.targets, a.idx = p.1 ∧ b.idx = p.2 ∧
      (V3.dot a.n a.n = 1 → Real.cos θ * dist Real.sqrt a.p b.p < proj a.p b.p a.n) := by
  obtain ⟨hc, hct⟩ := real_angle θ h0 h1
  exact in_cone hS (Real.cos θ) hc (by rw [htan]; exact hct) real_sqrt_nonneg real_sqrt_mul_self p hp

/-- the real instance of `in_cone_approx`: `tanT = tan θ`, `0 < θ < π/2`, normal with `n·n ≥ 1 − ε` -/
theorem in_cone_real_approx {i : Input ℝ} {strict : Bool} {out : List (Nat × Nat)} (θ ε : ℝ) (h0 : 0 < θ)
    (h1 : θ < Real.pi / 2) (htan : i.tanT = Real.tan θ) (hS : Spec Real.sqrt i strict out) (p : Nat × Nat) (hp : p ∈ out) :
    ∃ a ∈ i.sources, ∃ b ∈ i.targets, a.idx = p.1 ∧ b.idx = p.2 ∧ 0 < proj a.p b.p a.n ∧
      (1 - ε ≤ V3.dot a.n a.n → Real.cos θ * Real.cos θ * d2 a.p b.p
        < proj a.p b.p a.n * proj a.p b.p a.n * (1 + Real.cos θ * Real.cos θ * ε)) := by
  obtain ⟨hc, hct⟩ := real_angle θ h0 h1
  exact in_cone_approx hS (Real.cos θ) ε hc (by rw [htan]; exact hct) p hp

/-! ### regression witness (defect D17, repaired by `fix:` df49b17) -/

/-- With `cos θ` as multiplier (the code before the repair) the test accepts a target 38.7° off the
normal at a half-angle of 12.7° (`cos θ = 40/41`, `tan θ = 9/40`), which the cone criterion refuses. -/
theorem cone_counterexample :
    let u : V3 Rat := ⟨0, 0, 0⟩
    let v : V3 Rat := ⟨4/5, 0, 1⟩
    let n : V3 Rat := ⟨0, 0, 1⟩
    let c : Rat := 40/41
    let t : Rat := 9/40
    c * c * (1 + t * t) = 1 ∧ V3.dot n n = 1 ∧
    inCone c u v n = true ∧ inCone (t * t) u v n = false ∧
    ¬ (c * c * d2 u v < proj u v n * proj u v n) := by
  decide +kernel

/-! ### non-vacuity: the hypotheses used above are satisfiable by non-trivial data -/

/-- an orthogonal matrix that is not the identity -/
example : (rz (3/5 : Rat) (4/5)).Orth := rz_orth _ _ (by decide +kernel)
/-- an abstract angle: `cos = 4/5`, `tan = 3/4` -/
example : (0 : Rat) < 4/5 ∧ (4/5 : Rat) * (4/5) * (1 + (3/4) * (3/4)) = 1 := by decide +kernel
/-- a normal that is NOT of unit length but within `ε = 1/100` (hypothesis of `in_cone_approx`) -/
example : (1 : Rat) - 1/100 ≤ V3.dot (⟨3/5, 0, 399/500⟩ : V3 Rat) ⟨3/5, 0, 399/500⟩ := by decide +kernel
/-- a unit normal that is not an axis -/
example : V3.dot (⟨3/5, 0, 4/5⟩ : V3 Rat) ⟨3/5, 0, 4/5⟩ = 1 := by decide +kernel

/-- a concrete input on which the model assigns two pairs and refuses a third candidate: sources 0, 1;
targets 2, 3, 4 (integer distances 3, 5, 12 so that `sqrt` can be a table) -/
def exSqrt (x : Rat) : Rat := if x = 9 then 3 else if x = 16 then 4 else if x = 25 then 5 else if x = 144 then 12 else x
def exInput : Input Rat :=
  { pts := [⟨0, ⟨0,0,0⟩, ⟨0,0,1⟩, true, false⟩, ⟨1, ⟨10,0,0⟩, ⟨0,0,1⟩, true, false⟩,
            ⟨2, ⟨0,0,3⟩, ⟨0,0,-1⟩, false, true⟩, ⟨3, ⟨10,0,12⟩, ⟨0,0,-1⟩, false, true⟩,
            ⟨4, ⟨0,0,5⟩, ⟨0,0,-1⟩, false, true⟩],
    voxel := 2, maxNm := 30, tanT := 1/4, rev := false }
example : measure exSqrt exInput false = [⟨3, 0, 2⟩, ⟨12, 1, 3⟩] := by
  have h : exInput.cands exSqrt false = [⟨3, 0, 2⟩, ⟨5, 0, 4⟩, ⟨12, 1, 3⟩] := by decide +kernel
  unfold measure sortCands
  rw [h, List.mergeSort_of_pairwise (by decide +kernel)]
  decide +kernel
example : (exInput.cands exSqrt false).length = 3 := by decide +kernel
example : check exSqrt exInput false [(1, 3), (0, 2)] = true := by decide +kernel
example : check exSqrt exInput false [(0, 4), (1, 3)] = false := by decide +kernel
example : exInput.pts.Pairwise (fun x y => x.idx ≠ y.idx) := by decide
example : (0 : Rat) < exInput.voxel := by decide +kernel
/-- hypotheses of `cands_of_larger_voxel`, and the inclusion is strict on this input: at voxel size 4 (radius 7.5)
the pair at distance 12 is no candidate any more -/
example : (1 : Rat) ≤ 2 ∧ (0 : Rat) < exInput.voxel ∧ (0 : Rat) ≤ exInput.maxNm := by decide +kernel
example : (({ exInput with voxel := 2 * exInput.voxel } : Input Rat).cands exSqrt false).length = 2 := by decide +kernel

/-- hypotheses of `capped_eq_uncapped` / `fewer_than_25_candidates` on the example: at most 2 admissible targets per source -/
example : exInput.maxRow exSqrt false = 2 := by decide +kernel
example : exInput.candsCapped exSqrt false 25 = exInput.cands exSqrt false := by decide +kernel
/-- a permutation of the candidate list (hypothesis of `measure_order_independent`) that is not the list itself -/
example : ([⟨12, 1, 3⟩, ⟨3, 0, 2⟩, ⟨5, 0, 4⟩] : List (Cand Rat)).Perm (exInput.cands exSqrt false) := by
  have h : exInput.cands exSqrt false = [⟨3, 0, 2⟩, ⟨5, 0, 4⟩, ⟨12, 1, 3⟩] := by decide +kernel
  rw [h]; decide
/-- an output satisfying the statement (hypothesis of `check_complete`): the model's own, by `model_spec` -/
example : Spec exSqrt exInput false (pairsOf (measure exSqrt exInput false)) := model_spec _ _ _

/-! ### why the quantifier says "fewer than 25 candidates per source": witness above the cap -/

/-- one source, two admissible targets; the FARTHER one (distance 5) comes first in scan order -/
def capInput : Input Rat :=
  { pts := [⟨0, ⟨0,0,0⟩, ⟨0,0,1⟩, true, false⟩, ⟨1, ⟨0,0,5⟩, ⟨0,0,-1⟩, false, true⟩,
            ⟨2, ⟨0,0,3⟩, ⟨0,0,-1⟩, false, true⟩],
    voxel := 2, maxNm := 30, tanT := 1/4, rev := false }

/-- With a buffer of ONE slot per source (2 admissible targets > 1 slot) the capped model keeps the first target in
scan order, at distance 5, although the target at distance 3 is admissible and free: its output violates the greedy
clause of the statement. So above the cap the statement does not hold for the code as written — the quantifier's
"fewer than 25 candidates per source" is necessary, not a convenience. -/
theorem cap_counterexample :
    capInput.maxRow exSqrt false = 2 ∧
    measureCapped exSqrt capInput false 1 = [⟨5, 0, 1⟩] ∧
    ¬ Spec exSqrt capInput false (pairsOf (measureCapped exSqrt capInput false 1)) := by
  have h : capInput.candsCapped exSqrt false 1 = [⟨5, 0, 1⟩] := by decide +kernel
  have hm : measureCapped exSqrt capInput false 1 = [⟨5, 0, 1⟩] := by
    unfold measureCapped sortCands
    rw [h, List.mergeSort_of_pairwise (by simp)]
    decide +kernel
  refine ⟨by decide +kernel, hm, ?_⟩
  rw [hm]
  intro hS
  have hc := check_complete exSqrt capInput false _ hS
  revert hc
  decide +kernel

end CryoCat.C20
