import CryoCat.Lemmas.C07_Clean
import CryoCat.Lemmas.C07_Peaks
/-! C07 — score-ranked distance suppression keeps a separated, dominating set.
Only property theorems and non-vacuity examples; helper lemmas live in `Lemmas/C07*.lean`.

Distances are compared in squared form: "closer than d" is `dist² < d·d` (the same decision for the
`d > 0` of the property), "within the diameter D = dn/dd" is `dist²·dd² ≤ dn²`. -/
set_option linter.unusedSectionVars false
namespace CryoCat.C07
open CryoCat.Gen.C07

/-! ### translator obligations: the operators, directions, offsets and permutations of today's source -/

theorem anchors_ok : anchorsOk = true := by decide

/-- `dist < d_cut`; the processed particle is exempt; `argsort[::-1]` when greater is kept, `argsort`
when lower is kept; every group is selected by `feature_id` and measured on its own positions -/
theorem clean_operators_documented :
    cleanDistCmp = .lt ∧ cleanSelfExcluded = true ∧ cleanSortDescGreater = true ∧ cleanSortDescLower = false ∧
      cleanGroupsByFeature = true ∧ cleanPosFromGroup = true := by decide

/-- the keep mask of one group starts all-true, `if keep[j]` guards the step, `keep[close] = False` removes,
`iloc[keep]` selects the survivors in row order and the concatenation becomes `self.df` -/
theorem clean_keep_mask_documented : cleanKeepMask = true := by decide

/-- the signature defaults the statement relies on (the correspondence run omits these keywords in a share of the
calls): `metric_id="score"`, `keep_greater=True` (greater is better unless lower is asked for), no `dist_mask`;
`get_motl_subset(..., reset_index=True)`; `angles_order="zxz"`, `angles_numbering=0`, no cluster-size / particle-number
limit, no mask, symmetry c1, nothing written -/
theorem defaults_documented :
    cleanDefaults = [("metric_id", "'score'"), ("keep_greater", "True"), ("dist_mask", "None")] ∧
    subsetDefaults = [("feature_id", "'tomo_id'"), ("return_df", "False"), ("reset_index", "True")] ∧
    peakDefaults = [("object_id", "None"), ("scores_threshold", "None"), ("sigma_threshold", "None"),
      ("cluster_size", "None"), ("n_particles", "None"), ("output_path", "None"), ("output_type", "'emmotl'"),
      ("angles_order", "'zxz'"), ("symmetry", "'c1'"), ("angles_numbering", "0"), ("tomo_mask", "None")] ∧
    loadDefaults = [("angles_order", "'zxz'")] := by decide

/-! The whole bodies of the functions the statement runs through, as digests of their normalised dumps, ONE theorem per
function (a changed function breaks the theorem that carries its name; the Python-side anchor `body:<function>` names
the first differing normalised line, documented text and today's text). The dumps are printed below `end` in
`Gen/C07.lean`: statement kinds + expressions; local variables numbered in order of first binding, never-read names
written `_`, comprehension variables scoped; type annotations, docstrings and the text of exception / log messages
left out; runs of independent consecutive assignments in canonical order. Renaming a local variable, adding a type
hint, rewording a message or swapping two independent assignments leaves a digest unchanged; any added, removed or
altered statement — also in a branch the correspondence run never executes — changes it. -/

theorem body_clean_by_distance_documented : cleanByDistanceBody = ("53d5ed6a27a1f97f", 32) := by decide
theorem body_get_motl_subset_documented : getMotlSubsetBody = ("1c0cb3fa2e860f0e", 12) := by decide
theorem body_get_coordinates_documented : getCoordinatesBody = ("1c17071c5bf60581", 6) := by decide
theorem body_point_pairwise_dist_documented : pointPairwiseDistBody = ("36011e2af37cb2b5", 8) := by decide
theorem body_scores_extract_particles_documented : scoresExtractParticlesBody = ("8ac25e7ad974b1c1", 92) := by decide
theorem body_rot_angles_load_documented : rotAnglesLoadBody = ("1499f2ae2f25072c", 20) := by decide
/-- helpers every call runs through: `cryomap.read` (both maps), `Motl.__init__` / `check_df_correct_format` (the list
handed in), `Motl.fill` / `create_empty_motl_df` (the list handed out), `Motl.get_feature` (the group values) -/
theorem body_cryomap_read_documented : cryomapReadBody = ("f770242e19993a25", 23) := by decide
theorem body_motl_init_documented : motlInitBody = ("13cf635e919b2a4f", 8) := by decide
theorem body_check_df_correct_format_documented : checkDfCorrectFormatBody = ("07fa46686aea7fc9", 5) := by decide
theorem body_motl_fill_documented : motlFillBody = ("fdc56b41a00636ea", 14) := by decide
theorem body_get_feature_documented : getFeatureBody = ("44711fb3d9711d64", 7) := by decide
theorem body_create_empty_motl_df_documented : createEmptyMotlDfBody = ("37eec394ec18a7c9", 4) := by decide

/-- the six bodies anchored since the first hardening round, as one conjunction (kept under its earlier name) -/
theorem bodies_documented :
    cleanByDistanceBody = ("53d5ed6a27a1f97f", 32) ∧ getMotlSubsetBody = ("1c0cb3fa2e860f0e", 12) ∧
    getCoordinatesBody = ("1c17071c5bf60581", 6) ∧ pointPairwiseDistBody = ("36011e2af37cb2b5", 8) ∧
    scoresExtractParticlesBody = ("8ac25e7ad974b1c1", 92) ∧ rotAnglesLoadBody = ("1499f2ae2f25072c", 20) :=
  ⟨body_clean_by_distance_documented, body_get_motl_subset_documented, body_get_coordinates_documented,
    body_point_pairwise_dist_documented, body_scores_extract_particles_documented, body_rot_angles_load_documented⟩

/-- `cryomap.read`: an ndarray is copied as it is (`np.array(input_map)`, no dtype, the cast only under
`data_type is not None`, which `scores_extract_particles` never passes); a file is read by mrcfile / emfile and
transposed `(2, 1, 0)` (file axes section, row, column → array axes x, y, z) under the default `transpose=True` -/
theorem read_documented :
    readArrayBranchNoCast = true ∧ readFileTranspose = [2, 1, 0] ∧
      readDefaults = [("transpose", "True"), ("data_type", "None")] := by decide

/-- positions are `[x, y, z] + [shift_x, shift_y, shift_z]`; the distance is the Euclidean norm of the difference -/
theorem position_documented :
    coordColumns = ["x", "y", "z"] ∧ shiftColumns = ["shift_x", "shift_y", "shift_z"] ∧ distIsEuclidNorm = true := by
  decide

/-- `scores_map > threshold`; ball radius is `particle_diameter`; `<= score`; best first -/
theorem peak_operators_documented :
    peakThrCmp = .gt ∧ peakBallRadius = "particle_diameter" ∧ peakScoreCmp = .le ∧ peakSortDesc = true := by decide

/-- the threshold reaches the comparison as `np.float64(threshold)`: a float32 score map (every MRC file) is then
compared in double precision, which is exact for float32 and float64 scores alike — the premise under which the
model's exact comparison `thr < score` is what the code decides. (NumPy ≥ 2 rounds a Python-float threshold to
float32 next to a float32 array: a voxel at `np.float32(0.1)` was lost for the threshold `0.1`; defect found by
audit 3, repaired by C07-fix-1.) -/
theorem peak_threshold_double_documented : peakThrInDouble = true := by decide

/-- `x,y,z = rpos[:, 0..2] + 1`; `ang_idx = angles_map[rpos] - angles_numbering`; phi, theta, psi are
columns 0, 1, 2 of the loaded list and are filled into the motl under their own names, like the score -/
theorem peak_fill_documented :
    peakPosFill = [("x", 0, 1), ("y", 1, 1), ("z", 2, 1)] ∧ peakAngIdxCols = [0, 1, 2] ∧
      peakAngIdxSubtractsNumbering = true ∧ peakAngleCols = [("phi", 0), ("theta", 1), ("psi", 2)] ∧
      peakFillDirect = true := by decide

/-- `rot_angles_load`: a `zzx` list holds (phi, psi, theta): arrays are re-indexed `[0, 2, 1]`, files get the
column names phi, psi, theta and are read out as phi, theta, psi -/
theorem zzx_documented :
    zzxArrayPerm = [0, 2, 1] ∧ zzxFileNames = ["phi", "psi", "theta"] ∧ zxzFileNames = ["phi", "theta", "psi"] ∧
      fileSelect = ["phi", "theta", "psi"] := by decide

/-! ### the greedy rule, for every candidate type, every suppression relation and every processing order -/
section Greedy
variable {P : Type} (near : P → P → Bool)

theorem greedy_sublist (order : List P) : (suppress near order).Sublist order := suppress_sublist near order

/-- no kept item suppresses a later kept item (for a symmetric `near`: no two kept items are near) -/
theorem greedy_separated (order : List P) : (suppress near order).Pairwise (fun a b => near a b = false) :=
  suppress_separated near order

/-- for **every processing order** in which earlier candidates are related by `R` to later ones (e.g. sorted by
non-increasing score, however score ties are broken): every candidate is kept or is suppressed by a kept
candidate `R`-related to it -/
theorem greedy_dominated (R : P → P → Prop) (order : List P) (hR : order.Pairwise R) :
    ∀ c ∈ order, c ∈ suppress near order ∨ ∃ a ∈ suppress near order, near a c = true ∧ R a c :=
  suppress_dominated near R order hR

/-- the fold behind `suppress`, started from `kept`, appends a continuation none of whose items is suppressed -/
theorem suppress_fold_of_separated (kept l : List P) (h : (kept ++ l).Pairwise (fun a b => near a b = false)) :
    l.foldl (suppressStep near) kept = kept ++ l := by
  induction l generalizing kept with
  | nil => simp
  | cons c cs ih =>
    have hc : kept.any (fun a => near a c) = false := by
      rw [List.any_eq_false]
      intro a ha
      have := (List.pairwise_append.1 h).2.2 a ha c (List.mem_cons_self)
      simp [this]
    simp only [List.foldl_cons, suppressStep, hc, Bool.false_eq_true, if_false]
    rw [ih (kept ++ [c]) (by simpa using h)]
    simp

/-- a list in which no item suppresses a later one is returned unchanged -/
theorem greedy_fixed_of_separated (l : List P) (h : l.Pairwise (fun a b => near a b = false)) : suppress near l = l := by
  have := suppress_fold_of_separated near [] l (by simpa using h)
  simpa [suppress] using this

/-- **cleaning is idempotent**: suppressing the kept list again (in the order it was returned) removes nothing -/
theorem greedy_idempotent (order : List P) : suppress near (suppress near order) = suppress near order :=
  greedy_fixed_of_separated near _ (greedy_separated near order)

end Greedy

/-! ### distance cleaning -/
section Clean
variable {α : Type} [CommRing α] [LinearOrder α]

/-- within every group no two remaining particles are closer than d -/
def Separated (d : α) (out : List (Item α)) : Prop :=
  ∀ a ∈ out, ∀ b ∈ out, a.idx ≠ b.idx → a.grp = b.grp → ¬ dist2 a.pos b.pos < d * d

/-- equal or better score (lower, when lower is preferred) -/
def BetterEq (keepGreater : Bool) (a b : α) : Prop := if keepGreater then b ≤ a else a ≤ b

/-- every removed particle lies within d of a remaining particle of its own group with an equal or better score -/
def Dominated (d : α) (keepGreater : Bool) (items out : List (Item α)) : Prop :=
  ∀ r ∈ items, r ∉ out → ∃ k ∈ out, k.grp = r.grp ∧ dist2 k.pos r.pos < d * d ∧ BetterEq keepGreater k.score r.score

/-- the remaining particles of every group are input particles, unaltered, none twice, in row order -/
def Remaining (items out : List (Item α)) : Prop :=
  ∀ k, (out.filter (fun it => decide (it.grp = k))).Sublist items

/-- particles of different groups never affect each other: what remains of group `k` is exactly what cleaning
group `k` alone gives -/
def Independent (d : α) (keepGreater : Bool) (items : List (Item α)) : Prop :=
  ∀ k, (cleanItems d keepGreater items).filter (fun it => decide (it.grp = k)) =
    cleanItems d keepGreater (items.filter (fun it => decide (it.grp = k)))

variable (d : α) (kg : Bool) (items : List (Item α))

theorem clean_separated (hN : (items.map (·.idx)).Nodup) : Separated d (cleanItems d kg items) := by
  intro a ha b hb hne hg
  rw [mem_cleanItems] at ha hb
  rw [← hg] at hb
  have h := cleanGroup_separated d kg _ (nodup_filter_idx items hN _) a b ha hb hne
  simpa [closer] using h

theorem clean_dominated (hN : (items.map (·.idx)).Nodup) : Dominated d kg items (cleanItems d kg items) := by
  intro r hr hout
  have hrg : r ∈ items.filter (fun x => decide (x.grp = r.grp)) := by simp [hr]
  rcases cleanGroup_dominated d kg _ (nodup_filter_idx items hN _) r hrg with h | ⟨k, hk, hc, hs⟩
  · exact absurd ((mem_cleanItems d kg items r).2 h) hout
  · have hkg : k.grp = r.grp := by
      have := (cleanGroup_sublist d kg _).subset hk
      simpa using (List.mem_filter.1 this).2
    refine ⟨k, (mem_cleanItems d kg items k).2 (by rw [hkg]; exact hk), hkg, by simpa [closer] using hc, ?_⟩
    cases kg <;> simpa [betterEq, BetterEq] using hs

theorem clean_groups_independent : Independent d kg items := cleanItems_filter d kg items

theorem clean_remaining : Remaining items (cleanItems d kg items) := by
  intro k
  rw [cleanItems_filter]
  by_cases h0 : items.filter (fun it => decide (it.grp = k)) = []
  · rw [h0, cleanItems_nil]; exact List.nil_sublist _
  · rw [cleanItems_single d kg _ k h0 (by intro x hx; simpa using (List.mem_filter.1 hx).2)]
    exact (cleanGroup_sublist d kg _).trans List.filter_sublist

/-- **C07, cleaning clauses, for every particle list, grouping field, radius and score direction** (no
hypothesis: `itemsOf` numbers the rows itself) -/
theorem cleanByDistance_spec (feature : Field) (l : List (Particle α)) :
    Separated d (cleanByDistance d kg feature l) ∧
      Dominated d kg (itemsOf feature l) (cleanByDistance d kg feature l) ∧
      Remaining (itemsOf feature l) (cleanByDistance d kg feature l) ∧
      Independent d kg (itemsOf feature l) :=
  ⟨clean_separated d kg _ (itemsOf_nodup feature l), clean_dominated d kg _ (itemsOf_nodup feature l),
    clean_remaining d kg _, clean_groups_independent d kg _⟩

/-- the checker, for any closeness relation `rel`: every clause it tests, stated over `rel` -/
theorem checkCleanR_sound (rel : Item α → Item α → Bool) (out : List (Item α))
    (h : checkCleanR rel kg items out = true) :
    (∀ a ∈ out, a ∈ items) ∧ (out.map (·.idx)).Nodup ∧ Remaining items out ∧
      (∀ a ∈ out, ∀ b ∈ out, a.idx ≠ b.idx → a.grp = b.grp → rel a b = false) ∧
      (∀ r ∈ items, r ∉ out → ∃ k ∈ out, k.grp = r.grp ∧ rel k r = true ∧ BetterEq kg k.score r.score) := by
  unfold checkCleanR at h
  simp only [Bool.and_eq_true] at h
  obtain ⟨⟨⟨⟨h1, hn⟩, ho⟩, h2⟩, h3⟩ := h
  simp only [List.all_eq_true, List.contains_iff_mem, Bool.or_eq_true, beq_iff_eq, Bool.not_eq_eq_eq_not,
    Bool.not_true, decide_eq_false_iff_not, List.any_eq_true, decide_eq_true_eq, Bool.and_eq_true] at h1 h2 h3
  refine ⟨h1, nodupB_nodup _ hn, fun k => groupsInOrder_sublist items out ho k, ?_, ?_⟩
  · intro a ha b hb hne hg
    rcases h2 a ha b hb with (h | h) | h
    · exact absurd h hne
    · exact absurd hg h
    · exact h
  · intro r hr hout
    rcases h3 r hr with h | ⟨k, hk, ⟨hg, hc⟩, hs⟩
    · exact absurd h hout
    · refine ⟨k, hk, hg, hc, ?_⟩
      cases kg <;> simpa [betterEq, BetterEq] using hs

/-- the full checker is the order-free checker plus the in-order test -/
theorem checkCleanR_eq_core_and_order (rel : Item α → Item α → Bool) (out : List (Item α)) :
    checkCleanR rel kg items out = (checkCleanCoreR rel kg items out && groupsInOrder items out) := by
  unfold checkCleanR checkCleanCoreR
  ac_rfl

/-- the order-free checker (the one whose rejection is reported as a violation of the statement), for any
closeness relation `rel`: exactly the clauses the statement names, stated over `rel` -/
theorem checkCleanCoreR_iff (rel : Item α → Item α → Bool) (out : List (Item α)) :
    checkCleanCoreR rel kg items out = true ↔
      ((∀ a ∈ out, a ∈ items) ∧ (out.map (·.idx)).Nodup ∧
        (∀ a ∈ out, ∀ b ∈ out, a.idx ≠ b.idx → a.grp = b.grp → rel a b = false) ∧
        (∀ r ∈ items, r ∉ out → ∃ k ∈ out, k.grp = r.grp ∧ rel k r = true ∧ BetterEq kg k.score r.score)) := by
  unfold checkCleanCoreR
  simp only [Bool.and_eq_true, List.all_eq_true, List.contains_iff_mem, Bool.or_eq_true, beq_iff_eq,
    Bool.not_eq_eq_eq_not, Bool.not_true, decide_eq_false_iff_not, List.any_eq_true, decide_eq_true_eq]
  constructor
  · rintro ⟨⟨⟨h1, hn⟩, h2⟩, h3⟩
    refine ⟨h1, nodupB_nodup _ hn, ?_, ?_⟩
    · intro a ha b hb hne hg
      rcases h2 a ha b hb with (h | h) | h
      · exact absurd h hne
      · exact absurd hg h
      · exact h
    · intro r hr hout
      rcases h3 r hr with h | ⟨k, hk, ⟨hg, hc⟩, hs⟩
      · exact absurd h hout
      · refine ⟨k, hk, hg, hc, ?_⟩
        cases kg <;> simpa [betterEq, BetterEq] using hs
  · rintro ⟨h1, hn, h2, h3⟩
    refine ⟨⟨⟨h1, nodup_nodupB _ hn⟩, ?_⟩, ?_⟩
    · intro a ha b hb
      by_cases hi : a.idx = b.idx
      · exact Or.inl (Or.inl hi)
      · by_cases hg : a.grp = b.grp
        · exact Or.inr (h2 a ha b hb hi hg)
        · exact Or.inl (Or.inr hg)
    · intro r hr
      by_cases hout : r ∈ out
      · exact Or.inl hout
      · obtain ⟨k, hk, hg, hc, hs⟩ := h3 r hr hout
        refine Or.inr ⟨k, hk, ⟨hg, hc⟩, ?_⟩
        cases kg <;> simpa [betterEq, BetterEq] using hs

/-- **sound and complete against the clause Props**: the order-free checker accepts a claimed result exactly when
the remaining rows are input rows, none twice, `Separated` and `Dominated` — it can neither miss a violated
clause nor reject a result that meets the clauses -/
theorem checkCleanCore_iff (out : List (Item α)) :
    checkCleanCoreR (closer d) kg items out = true ↔
      ((∀ a ∈ out, a ∈ items) ∧ (out.map (·.idx)).Nodup ∧ Separated d out ∧ Dominated d kg items out) := by
  rw [checkCleanCoreR_iff]
  simp only [closer, decide_eq_false_iff_not, decide_eq_true_eq, Separated, Dominated]

/-- the same for the reading `dist ≤ d` of an exact-distance tie -/
theorem checkCleanCoreLe_iff (out : List (Item α)) :
    checkCleanCoreR (closerLe d) kg items out = true ↔
      ((∀ a ∈ out, a ∈ items) ∧ (out.map (·.idx)).Nodup ∧
        (∀ a ∈ out, ∀ b ∈ out, a.idx ≠ b.idx → a.grp = b.grp → ¬ dist2 a.pos b.pos ≤ d * d) ∧
        (∀ r ∈ items, r ∉ out → ∃ k ∈ out, k.grp = r.grp ∧ dist2 k.pos r.pos ≤ d * d ∧ BetterEq kg k.score r.score)) := by
  rw [checkCleanCoreR_iff]
  simp only [closerLe, decide_eq_false_iff_not, decide_eq_true_eq]

/-- the in-order test is exactly `Remaining` -/
theorem groupsInOrder_iff (out : List (Item α)) : groupsInOrder items out = true ↔ Remaining items out :=
  ⟨fun h k => groupsInOrder_sublist items out h k, fun h => groupsInOrder_of_sublist items out h⟩

/-- **the full checker accepts exactly the results that meet every clause and keep the row order** -/
theorem checkClean_iff (out : List (Item α)) :
    checkClean d kg items out = true ↔
      ((∀ a ∈ out, a ∈ items) ∧ (out.map (·.idx)).Nodup ∧ Separated d out ∧ Dominated d kg items out ∧
        Remaining items out) := by
  unfold checkClean
  rw [checkCleanR_eq_core_and_order, Bool.and_eq_true, checkCleanCore_iff, groupsInOrder_iff]
  constructor
  · rintro ⟨⟨h1, h2, h3, h4⟩, h5⟩; exact ⟨h1, h2, h3, h4, h5⟩
  · rintro ⟨h1, h2, h3, h4, h5⟩; exact ⟨⟨h1, h2, h3, h4⟩, h5⟩

/-- the model's own output has no row twice -/
theorem clean_nodup (hN : (items.map (·.idx)).Nodup) : ((cleanItems d kg items).map (·.idx)).Nodup := by
  have hI : items.Nodup := nodup_of_map_nodup _ _ hN
  have hsub : ∀ a ∈ cleanItems d kg items, a ∈ items := by
    intro a ha
    rw [mem_cleanItems] at ha
    exact (List.mem_filter.1 ((cleanGroup_sublist d kg _).subset ha)).1
  apply nodup_map_on _ _ (nodup_of_groups_sublist items _ hI (fun k => clean_remaining d kg items k))
  intro x hx y hy e
  exact eq_of_nodup_map (·.idx) items hN x y (hsub x hx) (hsub y hy) e

/-- **the checker cannot raise a false alarm on a correct cleaning**: the model's own output passes the full
checker (hence the order-free one), for every list with distinct row numbers -/
theorem checkClean_accepts_model (hN : (items.map (·.idx)).Nodup) :
    checkClean d kg items (cleanItems d kg items) = true := by
  rw [checkClean_iff]
  refine ⟨?_, clean_nodup d kg items hN, clean_separated d kg items hN, clean_dominated d kg items hN,
    clean_remaining d kg items⟩
  intro a ha
  rw [mem_cleanItems] at ha
  exact (List.mem_filter.1 ((cleanGroup_sublist d kg _).subset ha)).1

/-- … in particular for every particle list, grouping field, radius and score direction (no hypothesis) -/
theorem checkClean_accepts_cleanByDistance (feature : Field) (l : List (Particle α)) :
    checkClean d kg (itemsOf feature l) (cleanByDistance d kg feature l) = true ∧
      checkCleanCoreR (closer d) kg (itemsOf feature l) (cleanByDistance d kg feature l) = true := by
  have h := checkClean_accepts_model d kg (itemsOf feature l) (itemsOf_nodup feature l)
  refine ⟨h, ?_⟩
  unfold checkClean at h
  rw [checkCleanR_eq_core_and_order, Bool.and_eq_true] at h
  exact h.1

/-- **the checker run on the implementation's output is sound for every cleaning clause of the statement**:
remaining rows are input rows, none twice, in input order within each group (`Remaining`), separated, and
every removed row is dominated -/
theorem checkClean_sound (out : List (Item α)) (h : checkClean d kg items out = true) :
    (∀ a ∈ out, a ∈ items) ∧ Separated d out ∧ Dominated d kg items out ∧ Remaining items out ∧
      (out.map (·.idx)).Nodup := by
  obtain ⟨h1, hn, hr, h2, h3⟩ := checkCleanR_sound kg items (closer d) out h
  refine ⟨h1, ?_, ?_, hr, hn⟩
  · intro a ha b hb hne hg
    simpa [closer] using h2 a ha b hb hne hg
  · intro r hr' hout
    obtain ⟨k, hk, hg, hc, hs⟩ := h3 r hr' hout
    exact ⟨k, hk, hg, by simpa [closer] using hc, hs⟩

/-- a result holding the same row twice is rejected (the index test of the checker is not vacuous) -/
theorem checkClean_rejects_duplicate (rel : Item α → Item α → Bool) (a : Item α) (out : List (Item α)) (h : a ∈ out) :
    checkCleanR rel kg items (a :: out) = false := by
  have hn : nodupB ((a :: out).map (·.idx)) = false := by
    by_contra hc
    have := nodupB_nodup _ (by simpa using hc)
    exact (List.nodup_cons.1 this).1 (List.mem_map.2 ⟨a, h, rfl⟩)
  unfold checkCleanR
  rw [hn]; simp

/-- the other reading of an exact-distance tie (`dist ≤ d` counts as close): same clauses with `≤`.
A list holding a pair at distance exactly `d` is reported only when *both* checkers reject it -/
theorem checkCleanLe_sound (out : List (Item α)) (h : checkCleanLe d kg items out = true) :
    (∀ a ∈ out, a ∈ items) ∧ (out.map (·.idx)).Nodup ∧ Remaining items out ∧
      (∀ a ∈ out, ∀ b ∈ out, a.idx ≠ b.idx → a.grp = b.grp → ¬ dist2 a.pos b.pos ≤ d * d) ∧
      (∀ r ∈ items, r ∉ out → ∃ k ∈ out, k.grp = r.grp ∧ dist2 k.pos r.pos ≤ d * d ∧ BetterEq kg k.score r.score) := by
  obtain ⟨h1, hn, hr, h2, h3⟩ := checkCleanR_sound kg items (closerLe d) out h
  refine ⟨h1, hn, hr, ?_, ?_⟩
  · intro a ha b hb hne hg
    simpa [closerLe] using h2 a ha b hb hne hg
  · intro r hr' hout
    obtain ⟨k, hk, hg, hc, hs⟩ := h3 r hr' hout
    exact ⟨k, hk, hg, by simpa [closerLe] using hc, hs⟩

/-- without a pair of DIFFERENT rows of ONE group at distance exactly `d` the two readings are the same checker
(pairs of different groups, and a row with itself, may be at any distance — in particular `d = 0` is not excluded;
this is the hypothesis the generator guarantees: `_has_tie` looks inside each group only) -/
theorem checkClean_eq_checkCleanLe_of_no_tie (out : List (Item α))
    (hno : ∀ a ∈ items, ∀ b ∈ items, a ≠ b → a.grp = b.grp → dist2 a.pos b.pos ≠ d * d)
    (hsub : ∀ a ∈ out, a ∈ items) :
    checkClean d kg items out = checkCleanLe d kg items out := by
  have hrel : ∀ a ∈ items, ∀ b ∈ items, a ≠ b → a.grp = b.grp → closer d a b = closerLe d a b := by
    intro a ha b hb hne hg
    unfold closer closerLe
    rcases lt_trichotomy (dist2 a.pos b.pos) (d * d) with h | h | h
    · simp [h, le_of_lt h]
    · exact absurd h (hno a ha b hb hne hg)
    · simp [not_lt_of_gt h, not_le_of_gt h]
  have hS : (out.all fun a => out.all fun b => a.idx == b.idx || !decide (a.grp = b.grp) || !closer d a b) =
      (out.all fun a => out.all fun b => a.idx == b.idx || !decide (a.grp = b.grp) || !closerLe d a b) := by
    apply all_congr_mem; intro a ha
    apply all_congr_mem; intro b hb
    by_cases hi : a.idx = b.idx
    · simp [hi]
    · by_cases hg : a.grp = b.grp
      · have hne : a ≠ b := fun e => hi (by rw [e])
        rw [hrel a (hsub a ha) b (hsub b hb) hne hg]
      · simp [hg]
  have hD : (items.all fun r => out.contains r ||
        out.any fun k => decide (k.grp = r.grp) && closer d k r && betterEq kg k.score r.score) =
      (items.all fun r => out.contains r ||
        out.any fun k => decide (k.grp = r.grp) && closerLe d k r && betterEq kg k.score r.score) := by
    apply all_congr_mem; intro r hr
    by_cases hro : r ∈ out
    · have : out.contains r = true := by simpa using hro
      rw [this]; simp
    · congr 1
      apply any_congr_mem; intro k hk
      by_cases hg : k.grp = r.grp
      · have hne : k ≠ r := fun e => hro (e ▸ hk)
        rw [hrel k (hsub k hk) r hr hne hg]
      · simp [hg]
  simp only [checkClean, checkCleanLe, checkCleanR, hS, hD]

/-! #### groups never affect each other, as a statement about *any* claimed result -/

/-- the cleaning clauses for the rows of group `k` alone -/
def GroupSpec (k : α) (out : List (Item α)) : Prop :=
  (∀ a ∈ restrict k out, a ∈ restrict k items) ∧ Separated d (restrict k out) ∧
    Dominated d kg (restrict k items) (restrict k out)

/-- **the clauses decompose over the groups**: a result meets membership, separation and domination for the
whole list exactly when, for every group value `k`, the rows of group `k` that remain meet them for the list
consisting of group `k` alone. No row of another group enters the verdict on group `k` -/
theorem spec_iff_groups (out : List (Item α)) :
    ((∀ a ∈ out, a ∈ items) ∧ Separated d out ∧ Dominated d kg items out) ↔ ∀ k, GroupSpec d kg items k out := by
  constructor
  · rintro ⟨hm, hs, hd⟩ k
    refine ⟨?_, ?_, ?_⟩
    · intro a ha
      rw [mem_restrict] at ha ⊢
      exact ⟨hm a ha.1, ha.2⟩
    · intro a ha b hb
      exact hs a ((mem_restrict k out a).1 ha).1 b ((mem_restrict k out b).1 hb).1
    · intro r hr hout
      rw [mem_restrict] at hr
      have hro : r ∉ out := fun h => hout ((mem_restrict k out r).2 ⟨h, hr.2⟩)
      obtain ⟨c, hc, hg, hcl, hb⟩ := hd r hr.1 hro
      exact ⟨c, (mem_restrict k out c).2 ⟨hc, hg.trans hr.2⟩, hg, hcl, hb⟩
  · intro h
    refine ⟨?_, ?_, ?_⟩
    · intro a ha
      exact ((mem_restrict _ items a).1 ((h a.grp).1 a ((mem_restrict _ out a).2 ⟨ha, rfl⟩))).1
    · intro a ha b hb hne hg
      exact (h a.grp).2.1 a ((mem_restrict _ out a).2 ⟨ha, rfl⟩) b ((mem_restrict _ out b).2 ⟨hb, hg.symm⟩) hne hg
    · intro r hr hout
      have hro : r ∉ restrict r.grp out := fun hh => hout ((mem_restrict _ out r).1 hh).1
      obtain ⟨c, hc, hg, hcl, hb⟩ := (h r.grp).2.2 r ((mem_restrict _ items r).2 ⟨hr, rfl⟩) hro
      exact ⟨c, ((mem_restrict _ out c).1 hc).1, hg, hcl, hb⟩

/-- the per-group verdicts of the driver (`checkGroups`, the checker applied to each group's sub-list) are
sound: if every group passes, every group meets the clauses on its own, hence (by `spec_iff_groups`) so does
the whole list -/
theorem checkIndependent_sound (out : List (Item α)) (h : checkIndependent (closer d) kg items out = true) :
    (∀ k, GroupSpec d kg items k out) ∧ ∀ k, Remaining (restrict k items) (restrict k out) := by
  unfold checkIndependent checkGroups at h
  simp only [Bool.and_eq_true, List.all_eq_true, List.contains_iff_mem, List.mem_map, forall_exists_index, and_imp,
    forall_apply_eq_imp_iff₂] at h
  obtain ⟨hm, hg⟩ := h
  have key : ∀ k, k ∈ items.map (·.grp) → checkClean d kg (restrict k items) (restrict k out) = true := by
    intro k hk
    exact hg k ((mem_groupKeys _ k).2 hk)
  have hempty : ∀ k, k ∉ items.map (·.grp) → restrict k out = [] := by
    intro k hk
    unfold restrict
    rw [List.filter_eq_nil_iff]
    intro it hit
    simp only [decide_eq_true_eq]
    intro e; exact hk (List.mem_map.2 ⟨it, hm it hit, e⟩)
  have hempty' : ∀ k, k ∉ items.map (·.grp) → restrict k items = [] := by
    intro k hk
    unfold restrict
    rw [List.filter_eq_nil_iff]
    intro it hit
    simp only [decide_eq_true_eq]
    intro e; exact hk (List.mem_map.2 ⟨it, hit, e⟩)
  constructor
  · intro k
    by_cases hk : k ∈ items.map (·.grp)
    · obtain ⟨h1, h2, h3, _, _⟩ := checkClean_sound d kg (restrict k items) (restrict k out) (key k hk)
      exact ⟨h1, h2, h3⟩
    · unfold GroupSpec Separated Dominated
      rw [hempty k hk, hempty' k hk]
      refine ⟨?_, ?_, ?_⟩
      · intro a ha; cases ha
      · intro a ha; cases ha
      · intro r hr; cases hr
  · intro k
    by_cases hk : k ∈ items.map (·.grp)
    · exact (checkClean_sound d kg (restrict k items) (restrict k out) (key k hk)).2.2.2.1
    · rw [hempty k hk]; intro k'; simp [restrict]

/-- the clauses for the rows of group `k` alone, for any closeness relation (order-free) -/
def GroupSpecR (rel : Item α → Item α → Bool) (k : α) (out : List (Item α)) : Prop :=
  (∀ a ∈ restrict k out, a ∈ restrict k items) ∧ ((restrict k out).map (·.idx)).Nodup ∧
    (∀ a ∈ restrict k out, ∀ b ∈ restrict k out, a.idx ≠ b.idx → a.grp = b.grp → rel a b = false) ∧
    (∀ r ∈ restrict k items, r ∉ restrict k out →
      ∃ c ∈ restrict k out, c.grp = r.grp ∧ rel c r = true ∧ BetterEq kg c.score r.score)

/-- **the per-group verdicts of the order-free checker are sound for every closeness relation** (`<` and `≤`):
if every group passes on its own sub-list, every group meets the clauses on its own -/
theorem checkIndependentCore_sound (rel : Item α → Item α → Bool) (out : List (Item α))
    (h : checkIndependentCore rel kg items out = true) : ∀ k, GroupSpecR kg items rel k out := by
  unfold checkIndependentCore checkGroupsCore at h
  simp only [Bool.and_eq_true, List.all_eq_true, List.contains_iff_mem, List.mem_map, forall_exists_index, and_imp,
    forall_apply_eq_imp_iff₂] at h
  obtain ⟨hm, hg⟩ := h
  intro k
  by_cases hk : k ∈ items.map (·.grp)
  · exact (checkCleanCoreR_iff kg (restrict k items) rel (restrict k out)).1 (hg k ((mem_groupKeys _ k).2 hk))
  · have h1 : restrict k out = [] := by
      unfold restrict
      rw [List.filter_eq_nil_iff]
      intro it hit
      simp only [decide_eq_true_eq]
      intro e; exact hk (List.mem_map.2 ⟨it, hm it hit, e⟩)
    have h2 : restrict k items = [] := by
      unfold restrict
      rw [List.filter_eq_nil_iff]
      intro it hit
      simp only [decide_eq_true_eq]
      intro e; exact hk (List.mem_map.2 ⟨it, hit, e⟩)
    unfold GroupSpecR
    rw [h1, h2]
    refine ⟨?_, by simp, ?_, ?_⟩
    · intro a ha; cases ha
    · intro a ha; cases ha
    · intro r hr; cases hr

/-- **a result the order-free checker accepts passes in every group on its own** (for any closeness relation): the
`independent_core` answer of the driver can only be false when `ok_core` is false, so the judge needs no separate
`groups-affect-each-other` verdict -/
theorem checkIndependentCore_of_core (rel : Item α → Item α → Bool) (out : List (Item α))
    (h : checkCleanCoreR rel kg items out = true) : checkIndependentCore rel kg items out = true := by
  obtain ⟨h1, hn, h2, h3⟩ := (checkCleanCoreR_iff kg items rel out).1 h
  unfold checkIndependentCore checkGroupsCore
  simp only [Bool.and_eq_true, List.all_eq_true, List.contains_iff_mem, List.mem_map, forall_exists_index, and_imp,
    forall_apply_eq_imp_iff₂]
  refine ⟨h1, ?_⟩
  intro k _
  rw [checkCleanCoreR_iff]
  refine ⟨?_, ?_, ?_, ?_⟩
  · intro a ha
    rw [mem_restrict] at ha ⊢
    exact ⟨h1 a ha.1, ha.2⟩
  · exact List.Nodup.sublist (List.filter_sublist.map _) hn
  · intro a ha b hb
    exact h2 a ((mem_restrict k out a).1 ha).1 b ((mem_restrict k out b).1 hb).1
  · intro r hr hout
    rw [mem_restrict] at hr
    have hro : r ∉ out := fun hh => hout ((mem_restrict k out r).2 ⟨hh, hr.2⟩)
    obtain ⟨c, hc, hg, hcl, hb⟩ := h3 r hr.1 hro
    exact ⟨c, (mem_restrict k out c).2 ⟨hc, hg.trans hr.2⟩, hg, hcl, hb⟩

/-- the per-group verdict with the in-order test implies the order-free one -/
theorem checkIndependent_core (rel : Item α → Item α → Bool) (out : List (Item α))
    (h : checkIndependent rel kg items out = true) : checkIndependentCore rel kg items out = true := by
  unfold checkIndependent checkGroups at h
  unfold checkIndependentCore checkGroupsCore
  simp only [Bool.and_eq_true, List.all_eq_true, List.mem_map, forall_exists_index, and_imp,
    forall_apply_eq_imp_iff₂] at h ⊢
  refine ⟨h.1, ?_⟩
  intro k hk
  have := h.2 k hk
  rw [checkCleanR_eq_core_and_order, Bool.and_eq_true] at this
  exact this.1

/-- **`independent_core_le` of the driver is sound** (the verdict the judge uses for lists holding an
exact-distance tie): if every group passes the `≤`-reading on its own sub-list, then in every group, on its own,
no two remaining rows are within `d` (closed) and every removed row is within `d` (closed) of a remaining row of
the group with an equal or better score -/
theorem checkIndependentCoreLe_sound (out : List (Item α)) (h : checkIndependentCore (closerLe d) kg items out = true) :
    ∀ k, (∀ a ∈ restrict k out, a ∈ restrict k items) ∧
      (∀ a ∈ restrict k out, ∀ b ∈ restrict k out, a.idx ≠ b.idx → a.grp = b.grp → ¬ dist2 a.pos b.pos ≤ d * d) ∧
      (∀ r ∈ restrict k items, r ∉ restrict k out →
        ∃ c ∈ restrict k out, c.grp = r.grp ∧ dist2 c.pos r.pos ≤ d * d ∧ BetterEq kg c.score r.score) := by
  intro k
  obtain ⟨h1, _, h2, h3⟩ := checkIndependentCore_sound kg items (closerLe d) out h k
  refine ⟨h1, ?_, ?_⟩
  · intro a ha b hb hne hg
    simpa [closerLe] using h2 a ha b hb hne hg
  · intro r hr hout
    obtain ⟨c, hc, hg, hcl, hs⟩ := h3 r hr hout
    exact ⟨c, hc, hg, by simpa [closerLe] using hcl, hs⟩

/-- the same from the per-group verdict that also tests the row order (`checkIndependent (closerLe d)`, the
`independent_le` answer of the driver before round 5) -/
theorem checkIndependentLe_sound (out : List (Item α)) (h : checkIndependent (closerLe d) kg items out = true) :
    ∀ k, (∀ a ∈ restrict k out, a ∈ restrict k items) ∧
      (∀ a ∈ restrict k out, ∀ b ∈ restrict k out, a.idx ≠ b.idx → a.grp = b.grp → ¬ dist2 a.pos b.pos ≤ d * d) ∧
      (∀ r ∈ restrict k items, r ∉ restrict k out →
        ∃ c ∈ restrict k out, c.grp = r.grp ∧ dist2 c.pos r.pos ≤ d * d ∧ BetterEq kg c.score r.score) :=
  checkIndependentCoreLe_sound d kg items out (checkIndependent_core kg items _ out h)

/-- the order-free per-group verdict under the statement's reading gives `GroupSpec` for every group, hence (by
`spec_iff_groups`) the clauses for the whole list: this is the `independent_core` answer of the driver -/
theorem checkIndependentCore_spec (out : List (Item α)) (h : checkIndependentCore (closer d) kg items out = true) :
    (∀ k, GroupSpec d kg items k out) ∧
      ((∀ a ∈ out, a ∈ items) ∧ Separated d out ∧ Dominated d kg items out) := by
  have hk : ∀ k, GroupSpec d kg items k out := by
    intro k
    obtain ⟨h1, _, h2, h3⟩ := checkIndependentCore_sound kg items (closer d) out h k
    refine ⟨h1, ?_, ?_⟩
    · intro a ha b hb hne hg
      simpa [closer] using h2 a ha b hb hne hg
    · intro r hr hout
      obtain ⟨c, hc, hg, hcl, hs⟩ := h3 r hr hout
      exact ⟨c, hc, hg, by simpa [closer] using hcl, hs⟩
  exact ⟨hk, (spec_iff_groups d kg items out).2 hk⟩

/-- a single-group list is cleaned by one greedy pass -/
theorem clean_single_group (k : α) (hne : items ≠ []) (h : ∀ it ∈ items, it.grp = k) :
    cleanItems d kg items = cleanGroup d kg items := cleanItems_single d kg items k hne h

end Clean

/-! ### peak extraction -/
section Peaks
variable {α : Type} [LinearOrder α]

/-- the peak sits on a voxel above the threshold and carries its score, its 1-based position and the Euler
angles of the angle-list row its angle-map entry points to (a `zzx` list holds phi, psi, theta) -/
def PeakCarries (thr : α) (vs : List (Vox α)) (al : List (α × α × α)) (nb : Int) (ord : AngOrder) (p : Peak α) : Prop :=
  ∃ v ∈ vs, thr < v.score ∧ p.x = v.x + 1 ∧ p.y = v.y + 1 ∧ p.z = v.z + 1 ∧ p.score = v.score ∧
    0 ≤ v.ang - nb ∧
    al[(v.ang - nb).toNat]? = some (listedAngles ord p)

/-- extracted peaks are farther apart than the diameter `dn/dd` -/
def PeaksFar (dn dd : Nat) (out : List (Peak α)) : Prop :=
  ∀ p ∈ out, ∀ q ∈ out, ¬ (p.x = q.x ∧ p.y = q.y ∧ p.z = q.z) →
    (dn : Int) * dn < vd2 p.x p.y p.z q.x q.y q.z * ((dd : Int) * dd)

/-- every voxel above the threshold is within the diameter of a peak with an equal or higher score -/
def PeaksCover (thr : α) (dn dd : Nat) (vs : List (Vox α)) (out : List (Peak α)) : Prop :=
  ∀ v ∈ vs, thr < v.score → ∃ p ∈ out,
    vd2 p.x p.y p.z (v.x + 1) (v.y + 1) (v.z + 1) * ((dd : Int) * dd) ≤ (dn : Int) * dn ∧ v.score ≤ p.score

variable (thr : α) (dn dd : Nat) (vs : List (Vox α)) (al : List (α × α × α)) (nb : Int) (ord : AngOrder)

theorem peaks_carry (out : List (Peak α)) (h : extractFrom thr dn dd vs al nb ord = .peaks out) :
    ∀ p ∈ out, PeakCarries thr vs al nb ord p := by
  obtain ⟨ho, _⟩ := extractFrom_peaks thr dn dd vs al nb ord out h
  intro p hp
  rw [ho, List.mem_filterMap] at hp
  obtain ⟨v, hv, hpv⟩ := hp
  obtain ⟨hvs, ht⟩ := keptVoxels_sub thr dn dd vs v hv
  obtain ⟨hx, hy, hz, hs, h0, hrow⟩ := peakOf_some al nb ord v p hpv
  exact ⟨v, hvs, ht, hx, hy, hz, hs, h0, hrow⟩

theorem peaks_above_threshold (out : List (Peak α)) (h : extractFrom thr dn dd vs al nb ord = .peaks out) :
    ∀ p ∈ out, thr < p.score := by
  intro p hp
  obtain ⟨v, _, ht, _, _, _, hs, _⟩ := peaks_carry thr dn dd vs al nb ord out h p hp
  rw [hs]; exact ht

/-- in list order: any two *entries* of the peak table are farther apart than the diameter (so no voxel is
extracted twice either) -/
theorem peaks_separated (out : List (Peak α)) (h : extractFrom thr dn dd vs al nb ord = .peaks out) :
    out.Pairwise (fun p q => (dn : Int) * dn < vd2 p.x p.y p.z q.x q.y q.z * ((dd : Int) * dd)) := by
  obtain ⟨ho, _⟩ := extractFrom_peaks thr dn dd vs al nb ord out h
  rw [ho]
  have H : ∀ v w : Vox α, inBall dn dd v w = false → ∀ p, peakOf (loadAngles ord al) nb v = some p →
      ∀ q, peakOf (loadAngles ord al) nb w = some q →
      (dn : Int) * dn < vd2 p.x p.y p.z q.x q.y q.z * ((dd : Int) * dd) := by
    intro v w hvw p hp q hq
    obtain ⟨hx, hy, hz, _⟩ := peakOf_some al nb ord v p hp
    obtain ⟨hx', hy', hz', _⟩ := peakOf_some al nb ord w q hq
    rw [hx, hy, hz, hx', hy', hz', vd2_succ]
    unfold inBall at hvw
    simpa only [decide_eq_false_iff_not, Int.not_le] using hvw
  exact List.Pairwise.filterMap _ H (keptVoxels_separated thr dn dd vs)

theorem peaks_far (out : List (Peak α)) (h : extractFrom thr dn dd vs al nb ord = .peaks out) : PeaksFar dn dd out := by
  intro p hp q hq hne
  have hpw := peaks_separated thr dn dd vs al nb ord out h
  have hpq : p ≠ q := by
    intro e; apply hne; rw [e]; exact ⟨rfl, rfl, rfl⟩
  have hsym : ∀ a b : Peak α, (dn : Int) * dn < vd2 a.x a.y a.z b.x b.y b.z * ((dd : Int) * dd) →
      (dn : Int) * dn < vd2 b.x b.y b.z a.x a.y a.z * ((dd : Int) * dd) := by
    intro a b hab; rw [vd2_comm]; exact hab
  exact pairwise_forall_ne _ hsym out hpw p q hp hq hpq

theorem peaks_cover (out : List (Peak α)) (h : extractFrom thr dn dd vs al nb ord = .peaks out) :
    PeaksCover thr dn dd vs out := by
  obtain ⟨ho, hall⟩ := extractFrom_peaks thr dn dd vs al nb ord out h
  intro v hv ht
  obtain ⟨w, hw, hb, hs⟩ := keptVoxels_dominate thr dn dd vs v hv ht
  obtain ⟨p, hp⟩ := hall w hw
  obtain ⟨hx, hy, hz, hsc, _⟩ := peakOf_some al nb ord w p hp
  refine ⟨p, by rw [ho, List.mem_filterMap]; exact ⟨w, hw, hp⟩, ?_, by rw [hsc]; exact hs⟩
  rw [hx, hy, hz, vd2_succ]
  unfold inBall at hb
  simpa only [decide_eq_true_eq] using hb

/-- an angle-map entry below the numbering (e.g. 0 with numbering 1) points to no row of the angle list: the model
has no peak for such a voxel (numpy would wrap the negative index to the end of the list; such maps are outside
the quantifier and are never generated) -/
theorem peakOf_below_numbering (rows : List (List α)) (v : Vox α) (h : v.ang < nb) : peakOf rows nb v = none := by
  unfold peakOf
  have : v.ang - nb < 0 := by omega
  simp [this]

/-- `None` is returned exactly when no voxel exceeds the threshold -/
theorem peaks_none_iff : extractFrom thr dn dd vs al nb ord = .empty ↔ ∀ v ∈ vs, ¬ thr < v.score :=
  extractFrom_empty thr dn dd vs al nb ord

/-- **C07, peak clauses, on maps given as flat C-order arrays of any size**: every extracted peak `p` reads
score and angle index from the voxel `(p.x-1, p.y-1, p.z-1)` of the two maps -/
theorem extractPeaks_reads_maps (ny nz : Nat) (scores : List α) (angles : List Int) (out : List (Peak α))
    (h : extractPeaks thr dn dd ny nz scores angles al nb ord = .peaks out) :
    ∀ p ∈ out, 1 ≤ p.x ∧ 1 ≤ p.y ∧ 1 ≤ p.z ∧ thr < p.score ∧
      scores[flatIdx ny nz (p.x - 1) (p.y - 1) (p.z - 1)]? = some p.score ∧
      ∃ a : Int, angles[flatIdx ny nz (p.x - 1) (p.y - 1) (p.z - 1)]? = some a ∧ 0 ≤ a - nb ∧
        al[(a - nb).toNat]? = some (listedAngles ord p) := by
  intro p hp
  obtain ⟨v, hv, ht, hx, hy, hz, hs, h0, hrow⟩ := peaks_carry thr dn dd _ al nb ord out h p hp
  obtain ⟨h1, h2⟩ := voxels_lookup ny nz scores angles v hv
  rw [hx, hy, hz, hs]
  simp only [Nat.add_sub_cancel]
  exact ⟨by omega, by omega, by omega, ht, h1, v.ang, h2, h0, hrow⟩

/-- … and every array entry above the threshold is covered by a peak (flat-array form of `peaks_cover`) -/
theorem extractPeaks_covers_map (ny nz : Nat) (scores : List α) (angles : List Int) (out : List (Peak α))
    (hlen : angles.length = scores.length)
    (h : extractPeaks thr dn dd ny nz scores angles al nb ord = .peaks out) :
    ∀ i (hi : i < scores.length), thr < scores[i] → ∃ p ∈ out, scores[i] ≤ p.score ∧
      vd2 p.x p.y p.z (i / (ny * nz) + 1) ((i / nz) % ny + 1) (i % nz + 1) * ((dd : Int) * dd) ≤ (dn : Int) * dn := by
  intro i hi ht
  have hi' : i < angles.length := by omega
  have hv : (⟨i / (ny * nz), (i / nz) % ny, i % nz, scores[i], angles[i]⟩ : Vox α) ∈ voxels ny nz scores angles := by
    rw [mem_voxels]
    exact ⟨i, by simp [hi], by simp [hi'], rfl, rfl, rfl⟩
  obtain ⟨p, hp, hd, hs⟩ := peaks_cover thr dn dd _ al nb ord out h _ hv ht
  exact ⟨p, hp, hs, hd⟩

/-- any two entries of the peak table (in list order) are farther apart than the diameter — the conclusion of
`peaks_separated`; a table holding two rows at one position does not satisfy it -/
def PeaksPairwiseFar (dn dd : Nat) (out : List (Peak α)) : Prop :=
  out.Pairwise (fun p q => (dn : Int) * dn < vd2 p.x p.y p.z q.x q.y q.z * ((dd : Int) * dd))

theorem PeaksPairwiseFar.far (out : List (Peak α)) (h : PeaksPairwiseFar dn dd out) : PeaksFar dn dd out := by
  intro p hp q hq hne
  have hpq : p ≠ q := by
    intro e; apply hne; rw [e]; exact ⟨rfl, rfl, rfl⟩
  have hsym : ∀ a b : Peak α, (dn : Int) * dn < vd2 a.x a.y a.z b.x b.y b.z * ((dd : Int) * dd) →
      (dn : Int) * dn < vd2 b.x b.y b.z a.x a.y a.z * ((dd : Int) * dd) := by
    intro a b hab; rw [vd2_comm]; exact hab
  exact pairwise_forall_ne _ hsym out h p q hp hq hpq

/-- **the checker run on the implementation's peak table is sound and complete against the clause Props**: it
accepts a table exactly when every row carries its voxel's data, any two ROWS (also two rows at one position)
are farther apart than the diameter, and every supra-threshold voxel is covered -/
theorem checkPeaks_iff (out : List (Peak α)) :
    checkPeaks thr dn dd vs al nb ord out = true ↔
      ((∀ p ∈ out, PeakCarries thr vs al nb ord p) ∧ PeaksPairwiseFar dn dd out ∧ PeaksCover thr dn dd vs out) := by
  unfold checkPeaks carryOk coverOk
  simp only [Bool.and_eq_true, farPairs_iff, List.all_eq_true, List.any_eq_true, Bool.or_eq_true, decide_eq_true_eq,
    Bool.not_eq_eq_eq_not, Bool.not_true, decide_eq_false_iff_not]
  constructor
  · rintro ⟨⟨h1, h2⟩, h3⟩
    refine ⟨?_, h2, ?_⟩
    · intro p hp
      obtain ⟨v, hv, ⟨⟨ht, hx, hy, hz, hs⟩, h0⟩, hrow⟩ := h1 p hp
      exact ⟨v, hv, ht, hx, hy, hz, hs, h0, hrow⟩
    · intro v hv ht
      rcases h3 v hv with h | h
      · exact absurd ht h
      · exact h
  · rintro ⟨h1, h2, h3⟩
    refine ⟨⟨?_, h2⟩, ?_⟩
    · intro p hp
      obtain ⟨v, hv, ht, hx, hy, hz, hs, h0, hrow⟩ := h1 p hp
      exact ⟨v, hv, ⟨⟨ht, hx, hy, hz, hs⟩, h0⟩, hrow⟩
    · intro v hv
      by_cases ht : thr < v.score
      · exact Or.inr (h3 v hv ht)
      · exact Or.inl ht

/-- soundness in the earlier form (`PeaksFar` follows from the pairwise form) -/
theorem checkPeaks_sound (out : List (Peak α)) (h : checkPeaks thr dn dd vs al nb ord out = true) :
    (∀ p ∈ out, PeakCarries thr vs al nb ord p) ∧ PeaksFar dn dd out ∧ PeaksCover thr dn dd vs out ∧
      PeaksPairwiseFar dn dd out := by
  obtain ⟨h1, h2, h3⟩ := (checkPeaks_iff thr dn dd vs al nb ord out).1 h
  exact ⟨h1, PeaksPairwiseFar.far dn dd out h2, h3, h2⟩

/-- a table holding the same row twice is rejected, whatever the diameter -/
theorem checkPeaks_rejects_duplicate (p : Peak α) (out : List (Peak α)) (hp : p ∈ out) :
    checkPeaks thr dn dd vs al nb ord (p :: out) = false := by
  by_contra hc
  have h := ((checkPeaks_iff thr dn dd vs al nb ord (p :: out)).1 (by simpa using hc)).2.1
  unfold PeaksPairwiseFar at h
  rw [List.pairwise_cons] at h
  have := h.1 p hp
  rw [vd2_self] at this
  have h0 : (0 : Int) ≤ (dn : Int) * dn := Int.mul_nonneg (Int.natCast_nonneg _) (Int.natCast_nonneg _)
  omega

/-- **the checker cannot raise a false alarm on a correct extraction**: the model's own peak table passes -/
theorem checkPeaks_accepts_model (out : List (Peak α)) (h : extractFrom thr dn dd vs al nb ord = .peaks out) :
    checkPeaks thr dn dd vs al nb ord out = true :=
  (checkPeaks_iff thr dn dd vs al nb ord out).2
    ⟨peaks_carry thr dn dd vs al nb ord out h, peaks_separated thr dn dd vs al nb ord out h,
      peaks_cover thr dn dd vs al nb ord out h⟩

end Peaks

/-! ### non-vacuity: concrete inputs meeting the hypotheses -/

/-- three particles of one group on a line, radius 2: the middle one (best score) removes both neighbours -/
example : checkClean (2 : Int) true
    [⟨0, 1, 5, ⟨0, 0, 0⟩⟩, ⟨1, 1, 9, ⟨1, 0, 0⟩⟩, ⟨2, 1, 7, ⟨2, 0, 0⟩⟩, ⟨3, 2, 1, ⟨1, 0, 0⟩⟩]
    [⟨1, 1, 9, ⟨1, 0, 0⟩⟩, ⟨3, 2, 1, ⟨1, 0, 0⟩⟩] = true := by decide

example : (([⟨0, 1, 5, ⟨0, 0, 0⟩⟩, ⟨1, 1, 9, ⟨1, 0, 0⟩⟩] : List (Item Int)).map (·.idx)).Nodup := by decide

/-- the same row twice is rejected; rows of a group out of input order are rejected -/
example : checkClean (2 : Int) true [⟨0, 1, 5, ⟨0, 0, 0⟩⟩, ⟨1, 1, 9, ⟨9, 0, 0⟩⟩]
    [⟨0, 1, 5, ⟨0, 0, 0⟩⟩, ⟨0, 1, 5, ⟨0, 0, 0⟩⟩, ⟨1, 1, 9, ⟨9, 0, 0⟩⟩] = false := by decide
example : checkClean (2 : Int) true [⟨0, 1, 5, ⟨0, 0, 0⟩⟩, ⟨1, 1, 9, ⟨9, 0, 0⟩⟩]
    [⟨1, 1, 9, ⟨9, 0, 0⟩⟩, ⟨0, 1, 5, ⟨0, 0, 0⟩⟩] = false := by decide
example : checkClean (2 : Int) true [⟨0, 1, 5, ⟨0, 0, 0⟩⟩, ⟨1, 1, 9, ⟨9, 0, 0⟩⟩]
    [⟨0, 1, 5, ⟨0, 0, 0⟩⟩, ⟨1, 1, 9, ⟨9, 0, 0⟩⟩] = true := by decide

/-- a pair at distance exactly d = 2: keeping both is right under `<`, keeping only the better one is right under
`≤`; removing the better one is wrong under both readings (only that is reported) -/
example : checkClean (2 : Int) true [⟨0, 1, 5, ⟨0, 0, 0⟩⟩, ⟨1, 1, 9, ⟨2, 0, 0⟩⟩]
    [⟨0, 1, 5, ⟨0, 0, 0⟩⟩, ⟨1, 1, 9, ⟨2, 0, 0⟩⟩] = true := by decide
example : checkCleanLe (2 : Int) true [⟨0, 1, 5, ⟨0, 0, 0⟩⟩, ⟨1, 1, 9, ⟨2, 0, 0⟩⟩] [⟨1, 1, 9, ⟨2, 0, 0⟩⟩] = true := by decide
example : checkClean (2 : Int) true [⟨0, 1, 5, ⟨0, 0, 0⟩⟩, ⟨1, 1, 9, ⟨2, 0, 0⟩⟩] [⟨0, 1, 5, ⟨0, 0, 0⟩⟩] = false ∧
    checkCleanLe (2 : Int) true [⟨0, 1, 5, ⟨0, 0, 0⟩⟩, ⟨1, 1, 9, ⟨2, 0, 0⟩⟩] [⟨0, 1, 5, ⟨0, 0, 0⟩⟩] = false := by decide

/-- the hypothesis of `checkClean_eq_checkCleanLe_of_no_tie` is met by a list that holds a pair of DIFFERENT groups at
distance exactly d = 2 (rows 0 and 2) and no such pair inside a group -/
example : ∀ a ∈ ([⟨0, 1, 5, ⟨0, 0, 0⟩⟩, ⟨1, 1, 9, ⟨1, 0, 0⟩⟩, ⟨2, 2, 7, ⟨2, 0, 0⟩⟩] : List (Item Int)),
    ∀ b ∈ ([⟨0, 1, 5, ⟨0, 0, 0⟩⟩, ⟨1, 1, 9, ⟨1, 0, 0⟩⟩, ⟨2, 2, 7, ⟨2, 0, 0⟩⟩] : List (Item Int)),
    a ≠ b → a.grp = b.grp → dist2 a.pos b.pos ≠ 2 * 2 := by decide

/-- survivors in another order: the order-free checker (spec verdict) accepts, the full checker does not (corr) -/
example : checkCleanCoreR (closer (2 : Int)) true [⟨0, 1, 5, ⟨0, 0, 0⟩⟩, ⟨1, 1, 9, ⟨9, 0, 0⟩⟩]
    [⟨1, 1, 9, ⟨9, 0, 0⟩⟩, ⟨0, 1, 5, ⟨0, 0, 0⟩⟩] = true := by decide

/-- per-group verdicts (the checker applied to a group's own sub-list): group 2 lost its best particle -/
example : checkClean (2 : Int) true
    (restrict 2 [⟨0, 1, 5, ⟨0, 0, 0⟩⟩, ⟨1, 2, 9, ⟨1, 0, 0⟩⟩, ⟨2, 2, 3, ⟨5, 0, 0⟩⟩])
    (restrict 2 [⟨0, 1, 5, ⟨0, 0, 0⟩⟩, ⟨2, 2, 3, ⟨5, 0, 0⟩⟩]) = false ∧
  checkClean (2 : Int) true
    (restrict 1 [⟨0, 1, 5, ⟨0, 0, 0⟩⟩, ⟨1, 2, 9, ⟨1, 0, 0⟩⟩, ⟨2, 2, 3, ⟨5, 0, 0⟩⟩])
    (restrict 1 [⟨0, 1, 5, ⟨0, 0, 0⟩⟩, ⟨2, 2, 3, ⟨5, 0, 0⟩⟩]) = true := by decide

/-- a processing order that is non-increasing in score, with a tie -/
example : ([(9, 0), (7, 1), (7, 2), (5, 3)] : List (Int × Nat)).Pairwise (fun a b => b.1 ≤ a.1) := by decide

/-- a 1×1×3 map, threshold 0, diameter 1: the two end voxels are extracted, the middle one is covered -/
example : checkPeaks (0 : Int) 1 1 [⟨0, 0, 0, 5, 1⟩, ⟨0, 0, 1, 3, 0⟩, ⟨0, 0, 2, 4, 1⟩] [(10, 20, 30), (40, 50, 60)] 0 .zzx
    [⟨1, 1, 1, 5, 40, 60, 50⟩, ⟨1, 1, 3, 4, 40, 60, 50⟩] = true := by decide

/-- two identical rows (the driver test of audit 2) are rejected -/
example : checkPeaks (0 : Int) 1 1 [⟨0, 0, 0, 5, 1⟩, ⟨0, 0, 1, 3, 0⟩, ⟨0, 0, 2, 4, 1⟩] [(10, 20, 30), (40, 50, 60)] 0 .zzx
    [⟨1, 1, 1, 5, 40, 60, 50⟩, ⟨1, 1, 1, 5, 40, 60, 50⟩, ⟨1, 1, 3, 4, 40, 60, 50⟩] = false := by decide

/-- the hypothesis `extractFrom … = .peaks out` of the peak theorems is met by the same map (voxels listed best
first, so that the sort is the identity and the kernel can evaluate the rest) -/
example : extractFrom (0 : Int) 1 1 [⟨0, 0, 0, 5, 1⟩, ⟨0, 0, 2, 4, 1⟩, ⟨0, 0, 1, 3, 0⟩] [(10, 20, 30), (40, 50, 60)] 0 .zzx
    = .peaks [⟨1, 1, 1, 5, 40, 60, 50⟩, ⟨1, 1, 3, 4, 40, 60, 50⟩] := by
  have ho : peakOrder (supra (0 : Int) [⟨0, 0, 0, 5, 1⟩, ⟨0, 0, 2, 4, 1⟩, ⟨0, 0, 1, 3, 0⟩])
      = [⟨0, 0, 0, 5, 1⟩, ⟨0, 0, 2, 4, 1⟩, ⟨0, 0, 1, 3, 0⟩] := by
    have hs : supra (0 : Int) [⟨0, 0, 0, 5, 1⟩, ⟨0, 0, 2, 4, 1⟩, ⟨0, 0, 1, 3, 0⟩]
        = [⟨0, 0, 0, 5, 1⟩, ⟨0, 0, 2, 4, 1⟩, ⟨0, 0, 1, 3, 0⟩] := by decide
    rw [hs]; simp only [peakOrder, peakSortDesc, if_true]
    exact List.mergeSort_of_pairwise (by decide)
  unfold extractFrom keptVoxels
  rw [ho]
  decide

/-- **Regression witness (defect D19, repaired by 98eff89).** An array angle list in `zzx` order that is *not*
re-indexed (what `rot_angles_load` did before the repair: theta and psi swapped) fails the carry clause. -/
theorem zzx_list_unpermuted_counterexample :
    checkPeaks (0 : Int) 1 1 [⟨0, 0, 0, 5, 0⟩] [(10, 20, 30)] 0 .zzx [⟨1, 1, 1, 5, 10, 20, 30⟩] = false ∧
    checkPeaks (0 : Int) 1 1 [⟨0, 0, 0, 5, 0⟩] [(10, 20, 30)] 0 .zzx [⟨1, 1, 1, 5, 10, 30, 20⟩] = true := by decide

/-- the greedy pass itself on the three-particle line (already in processing order: best first) -/
example : suppress (nearClean (2 : Int)) [⟨1, 1, 9, ⟨1, 0, 0⟩⟩, ⟨2, 1, 7, ⟨2, 0, 0⟩⟩, ⟨0, 1, 5, ⟨0, 0, 0⟩⟩]
    = [⟨1, 1, 9, ⟨1, 0, 0⟩⟩] := by decide

end CryoCat.C07
