import CryoCat.Lemmas.C07_Clean
import CryoCat.Lemmas.C07_Peaks
/-! C07 — score-ranked distance suppression keeps a separated, dominating set.
Only property theorems and non-vacuity examples; helper lemmas live in `Lemmas/C07*.lean`.

Distances are compared in squared form: "closer than d" is `dist² < d·d` (the same decision for the
`d > 0` of the property), "within the diameter D = dn/dd" is `dist²·dd² ≤ dn²`. -/
set_option linter.unusedSectionVars false
namespace CryoCat.C07
open CryoCat.Gen.C07

/-! ### translator obligations: the operators, directions, offsets and permutations of today's source -/

theorem anchors_ok : anchorsOk = true := by decide

/-- `dist < d_cut`; the processed particle is exempt; `argsort[::-1]` when greater is kept, `argsort`
when lower is kept; every group is selected by `feature_id` and measured on its own positions -/
theorem clean_operators_documented :
    cleanDistCmp = .lt ∧ cleanSelfExcluded = true ∧ cleanSortDescGreater = true ∧ cleanSortDescLower = false ∧
      cleanGroupsByFeature = true ∧ cleanPosFromGroup = true := by decide

/-- positions are `[x, y, z] + [shift_x, shift_y, shift_z]`; the distance is the Euclidean norm of the difference -/
theorem position_documented :
    coordColumns = ["x", "y", "z"] ∧ shiftColumns = ["shift_x", "shift_y", "shift_z"] ∧ distIsEuclidNorm = true := by
  decide

/-- `scores_map > threshold`; ball radius is `particle_diameter`; `<= score`; best first -/
theorem peak_operators_documented :
    peakThrCmp = .gt ∧ peakBallRadius = "particle_diameter" ∧ peakScoreCmp = .le ∧ peakSortDesc = true := by decide

/-- `x,y,z = rpos[:, 0..2] + 1`; `ang_idx = angles_map[rpos] - angles_numbering`; phi, theta, psi are
columns 0, 1, 2 of the loaded list and are filled into the motl under their own names, like the score -/
theorem peak_fill_documented :
    peakPosFill = [("x", 0, 1), ("y", 1, 1), ("z", 2, 1)] ∧ peakAngIdxCols = [0, 1, 2] ∧
      peakAngIdxSubtractsNumbering = true ∧ peakAngleCols = [("phi", 0), ("theta", 1), ("psi", 2)] ∧
      peakFillDirect = true := by decide

/-- `rot_angles_load`: a `zzx` list holds (phi, psi, theta): arrays are re-indexed `[0, 2, 1]`, files get the
column names phi, psi, theta and are read out as phi, theta, psi -/
theorem zzx_documented :
    zzxArrayPerm = [0, 2, 1] ∧ zzxFileNames = ["phi", "psi", "theta"] ∧ zxzFileNames = ["phi", "theta", "psi"] ∧
      fileSelect = ["phi", "theta", "psi"] := by decide

/-! ### the greedy rule, for every candidate type, every suppression relation and every processing order -/
section Greedy
variable {P : Type} (near : P → P → Bool)

theorem greedy_sublist (order : List P) : (suppress near order).Sublist order := suppress_sublist near order

/-- no kept item suppresses a later kept item (for a symmetric `near`: no two kept items are near) -/
theorem greedy_separated (order : List P) : (suppress near order).Pairwise (fun a b => near a b = false) :=
  suppress_separated near order

/-- for **every processing order** in which earlier candidates are related by `R` to later ones (e.g. sorted by
non-increasing score, however score ties are broken): every candidate is kept or is suppressed by a kept
candidate `R`-related to it -/
theorem greedy_dominated (R : P → P → Prop) (order : List P) (hR : order.Pairwise R) :
    ∀ c ∈ order, c ∈ suppress near order ∨ ∃ a ∈ suppress near order, near a c = true ∧ R a c :=
  suppress_dominated near R order hR

end Greedy

/-! ### distance cleaning -/
section Clean
variable {α : Type} [CommRing α] [LinearOrder α]

/-- within every group no two remaining particles are closer than d -/
def Separated (d : α) (out : List (Item α)) : Prop :=
  ∀ a ∈ out, ∀ b ∈ out, a.idx ≠ b.idx → a.grp = b.grp → ¬ dist2 a.pos b.pos < d * d

/-- equal or better score (lower, when lower is preferred) -/
def BetterEq (keepGreater : Bool) (a b : α) : Prop := if keepGreater then b ≤ a else a ≤ b

/-- every removed particle lies within d of a remaining particle of its own group with an equal or better score -/
def Dominated (d : α) (keepGreater : Bool) (items out : List (Item α)) : Prop :=
  ∀ r ∈ items, r ∉ out → ∃ k ∈ out, k.grp = r.grp ∧ dist2 k.pos r.pos < d * d ∧ BetterEq keepGreater k.score r.score

/-- the remaining particles of every group are input particles, unaltered, none twice, in row order -/
def Remaining (items out : List (Item α)) : Prop :=
  ∀ k, (out.filter (fun it => decide (it.grp = k))).Sublist items

/-- particles of different groups never affect each other: what remains of group `k` is exactly what cleaning
group `k` alone gives -/
def Independent (d : α) (keepGreater : Bool) (items : List (Item α)) : Prop :=
  ∀ k, (cleanItems d keepGreater items).filter (fun it => decide (it.grp = k)) =
    cleanItems d keepGreater (items.filter (fun it => decide (it.grp = k)))

variable (d : α) (kg : Bool) (items : List (Item α))

theorem clean_separated (hN : (items.map (·.idx)).Nodup) : Separated d (cleanItems d kg items) := by
  intro a ha b hb hne hg
  rw [mem_cleanItems] at ha hb
  rw [← hg] at hb
  have h := cleanGroup_separated d kg _ (nodup_filter_idx items hN _) a b ha hb hne
  simpa [closer] using h

theorem clean_dominated (hN : (items.map (·.idx)).Nodup) : Dominated d kg items (cleanItems d kg items) := by
  intro r hr hout
  have hrg : r ∈ items.filter (fun x => decide (x.grp = r.grp)) := by simp [hr]
  rcases cleanGroup_dominated d kg _ (nodup_filter_idx items hN _) r hrg with h | ⟨k, hk, hc, hs⟩
  · exact absurd ((mem_cleanItems d kg items r).2 h) hout
  · have hkg : k.grp = r.grp := by
      have := (cleanGroup_sublist d kg _).subset hk
      simpa using (List.mem_filter.1 this).2
    refine ⟨k, (mem_cleanItems d kg items k).2 (by rw [hkg]; exact hk), hkg, by simpa [closer] using hc, ?_⟩
    cases kg <;> simpa [betterEq, BetterEq] using hs

theorem clean_groups_independent : Independent d kg items := cleanItems_filter d kg items

theorem clean_remaining : Remaining items (cleanItems d kg items) := by
  intro k
  rw [cleanItems_filter]
  by_cases h0 : items.filter (fun it => decide (it.grp = k)) = []
  · rw [h0, cleanItems_nil]; exact List.nil_sublist _
  · rw [cleanItems_single d kg _ k h0 (by intro x hx; simpa using (List.mem_filter.1 hx).2)]
    exact (cleanGroup_sublist d kg _).trans List.filter_sublist

/-- **C07, cleaning clauses, for every particle list, grouping field, radius and score direction** (no
hypothesis: `itemsOf` numbers the rows itself) -/
theorem cleanByDistance_spec (feature : Field) (l : List (Particle α)) :
    Separated d (cleanByDistance d kg feature l) ∧
      Dominated d kg (itemsOf feature l) (cleanByDistance d kg feature l) ∧
      Remaining (itemsOf feature l) (cleanByDistance d kg feature l) ∧
      Independent d kg (itemsOf feature l) :=
  ⟨clean_separated d kg _ (itemsOf_nodup feature l), clean_dominated d kg _ (itemsOf_nodup feature l),
    clean_remaining d kg _, clean_groups_independent d kg _⟩

/-- the checker run on the implementation's output is sound for the clauses it tests -/
theorem checkClean_sound (out : List (Item α)) (h : checkClean d kg items out = true) :
    (∀ a ∈ out, a ∈ items) ∧ Separated d out ∧ Dominated d kg items out := by
  unfold checkClean at h
  simp only [Bool.and_eq_true, List.all_eq_true, List.contains_iff_mem, Bool.or_eq_true, beq_iff_eq, Bool.not_eq_eq_eq_not,
    Bool.not_true, decide_eq_false_iff_not, List.any_eq_true, decide_eq_true_eq] at h
  obtain ⟨⟨h1, h2⟩, h3⟩ := h
  refine ⟨h1, ?_, ?_⟩
  · intro a ha b hb hne hg
    rcases h2 a ha b hb with (h | h) | h
    · exact absurd h hne
    · exact absurd hg h
    · simpa [closer] using h
  · intro r hr hout
    rcases h3 r hr with h | ⟨k, hk, ⟨hg, hc⟩, hs⟩
    · exact absurd h hout
    · refine ⟨k, hk, hg, by simpa [closer] using hc, ?_⟩
      cases kg <;> simpa [betterEq, BetterEq] using hs

/-- a single-group list is cleaned by one greedy pass -/
theorem clean_single_group (k : α) (hne : items ≠ []) (h : ∀ it ∈ items, it.grp = k) :
    cleanItems d kg items = cleanGroup d kg items := cleanItems_single d kg items k hne h

end Clean

/-! ### peak extraction -/
section Peaks
variable {α : Type} [LinearOrder α]

/-- the peak sits on a voxel above the threshold and carries its score, its 1-based position and the Euler
angles of the angle-list row its angle-map entry points to (a `zzx` list holds phi, psi, theta) -/
def PeakCarries (thr : α) (vs : List (Vox α)) (al : List (α × α × α)) (nb : Int) (ord : AngOrder) (p : Peak α) : Prop :=
  ∃ v ∈ vs, thr < v.score ∧ p.x = v.x + 1 ∧ p.y = v.y + 1 ∧ p.z = v.z + 1 ∧ p.score = v.score ∧
    0 ≤ v.ang - nb ∧
    al[(v.ang - nb).toNat]? = some (listedAngles ord p)

/-- extracted peaks are farther apart than the diameter `dn/dd` -/
def PeaksFar (dn dd : Nat) (out : List (Peak α)) : Prop :=
  ∀ p ∈ out, ∀ q ∈ out, ¬ (p.x = q.x ∧ p.y = q.y ∧ p.z = q.z) →
    (dn : Int) * dn < vd2 p.x p.y p.z q.x q.y q.z * ((dd : Int) * dd)

/-- every voxel above the threshold is within the diameter of a peak with an equal or higher score -/
def PeaksCover (thr : α) (dn dd : Nat) (vs : List (Vox α)) (out : List (Peak α)) : Prop :=
  ∀ v ∈ vs, thr < v.score → ∃ p ∈ out,
    vd2 p.x p.y p.z (v.x + 1) (v.y + 1) (v.z + 1) * ((dd : Int) * dd) ≤ (dn : Int) * dn ∧ v.score ≤ p.score

variable (thr : α) (dn dd : Nat) (vs : List (Vox α)) (al : List (α × α × α)) (nb : Int) (ord : AngOrder)

theorem peaks_carry (out : List (Peak α)) (h : extractFrom thr dn dd vs al nb ord = .peaks out) :
    ∀ p ∈ out, PeakCarries thr vs al nb ord p := by
  obtain ⟨ho, _⟩ := extractFrom_peaks thr dn dd vs al nb ord out h
  intro p hp
  rw [ho, List.mem_filterMap] at hp
  obtain ⟨v, hv, hpv⟩ := hp
  obtain ⟨hvs, ht⟩ := keptVoxels_sub thr dn dd vs v hv
  obtain ⟨hx, hy, hz, hs, h0, hrow⟩ := peakOf_some al nb ord v p hpv
  exact ⟨v, hvs, ht, hx, hy, hz, hs, h0, hrow⟩

theorem peaks_above_threshold (out : List (Peak α)) (h : extractFrom thr dn dd vs al nb ord = .peaks out) :
    ∀ p ∈ out, thr < p.score := by
  intro p hp
  obtain ⟨v, _, ht, _, _, _, hs, _⟩ := peaks_carry thr dn dd vs al nb ord out h p hp
  rw [hs]; exact ht

/-- in list order: any two *entries* of the peak table are farther apart than the diameter (so no voxel is
extracted twice either) -/
theorem peaks_separated (out : List (Peak α)) (h : extractFrom thr dn dd vs al nb ord = .peaks out) :
    out.Pairwise (fun p q => (dn : Int) * dn < vd2 p.x p.y p.z q.x q.y q.z * ((dd : Int) * dd)) := by
  obtain ⟨ho, _⟩ := extractFrom_peaks thr dn dd vs al nb ord out h
  rw [ho]
  have H : ∀ v w : Vox α, inBall dn dd v w = false → ∀ p, peakOf (loadAngles ord al) nb v = some p →
      ∀ q, peakOf (loadAngles ord al) nb w = some q →
      (dn : Int) * dn < vd2 p.x p.y p.z q.x q.y q.z * ((dd : Int) * dd) := by
    intro v w hvw p hp q hq
    obtain ⟨hx, hy, hz, _⟩ := peakOf_some al nb ord v p hp
    obtain ⟨hx', hy', hz', _⟩ := peakOf_some al nb ord w q hq
    rw [hx, hy, hz, hx', hy', hz', vd2_succ]
    unfold inBall at hvw
    simpa only [decide_eq_false_iff_not, Int.not_le] using hvw
  exact List.Pairwise.filterMap _ H (keptVoxels_separated thr dn dd vs)

theorem peaks_far (out : List (Peak α)) (h : extractFrom thr dn dd vs al nb ord = .peaks out) : PeaksFar dn dd out := by
  intro p hp q hq hne
  have hpw := peaks_separated thr dn dd vs al nb ord out h
  have hpq : p ≠ q := by
    intro e; apply hne; rw [e]; exact ⟨rfl, rfl, rfl⟩
  have hsym : ∀ a b : Peak α, (dn : Int) * dn < vd2 a.x a.y a.z b.x b.y b.z * ((dd : Int) * dd) →
      (dn : Int) * dn < vd2 b.x b.y b.z a.x a.y a.z * ((dd : Int) * dd) := by
    intro a b hab; rw [vd2_comm]; exact hab
  exact pairwise_forall_ne _ hsym out hpw p q hp hq hpq

theorem peaks_cover (out : List (Peak α)) (h : extractFrom thr dn dd vs al nb ord = .peaks out) :
    PeaksCover thr dn dd vs out := by
  obtain ⟨ho, hall⟩ := extractFrom_peaks thr dn dd vs al nb ord out h
  intro v hv ht
  obtain ⟨w, hw, hb, hs⟩ := keptVoxels_dominate thr dn dd vs v hv ht
  obtain ⟨p, hp⟩ := hall w hw
  obtain ⟨hx, hy, hz, hsc, _⟩ := peakOf_some al nb ord w p hp
  refine ⟨p, by rw [ho, List.mem_filterMap]; exact ⟨w, hw, hp⟩, ?_, by rw [hsc]; exact hs⟩
  rw [hx, hy, hz, vd2_succ]
  unfold inBall at hb
  simpa only [decide_eq_true_eq] using hb

/-- `None` is returned exactly when no voxel exceeds the threshold -/
theorem peaks_none_iff : extractFrom thr dn dd vs al nb ord = .empty ↔ ∀ v ∈ vs, ¬ thr < v.score :=
  extractFrom_empty thr dn dd vs al nb ord

/-- **C07, peak clauses, on maps given as flat C-order arrays of any size**: every extracted peak `p` reads
score and angle index from the voxel `(p.x-1, p.y-1, p.z-1)` of the two maps -/
theorem extractPeaks_reads_maps (ny nz : Nat) (scores : List α) (angles : List Int) (out : List (Peak α))
    (h : extractPeaks thr dn dd ny nz scores angles al nb ord = .peaks out) :
    ∀ p ∈ out, 1 ≤ p.x ∧ 1 ≤ p.y ∧ 1 ≤ p.z ∧ thr < p.score ∧
      scores[flatIdx ny nz (p.x - 1) (p.y - 1) (p.z - 1)]? = some p.score ∧
      ∃ a : Int, angles[flatIdx ny nz (p.x - 1) (p.y - 1) (p.z - 1)]? = some a ∧ 0 ≤ a - nb ∧
        al[(a - nb).toNat]? = some (listedAngles ord p) := by
  intro p hp
  obtain ⟨v, hv, ht, hx, hy, hz, hs, h0, hrow⟩ := peaks_carry thr dn dd _ al nb ord out h p hp
  obtain ⟨h1, h2⟩ := voxels_lookup ny nz scores angles v hv
  rw [hx, hy, hz, hs]
  simp only [Nat.add_sub_cancel]
  exact ⟨by omega, by omega, by omega, ht, h1, v.ang, h2, h0, hrow⟩

/-- … and every array entry above the threshold is covered by a peak (flat-array form of `peaks_cover`) -/
theorem extractPeaks_covers_map (ny nz : Nat) (scores : List α) (angles : List Int) (out : List (Peak α))
    (hlen : angles.length = scores.length)
    (h : extractPeaks thr dn dd ny nz scores angles al nb ord = .peaks out) :
    ∀ i (hi : i < scores.length), thr < scores[i] → ∃ p ∈ out, scores[i] ≤ p.score ∧
      vd2 p.x p.y p.z (i / (ny * nz) + 1) ((i / nz) % ny + 1) (i % nz + 1) * ((dd : Int) * dd) ≤ (dn : Int) * dn := by
  intro i hi ht
  have hi' : i < angles.length := by omega
  have hv : (⟨i / (ny * nz), (i / nz) % ny, i % nz, scores[i], angles[i]⟩ : Vox α) ∈ voxels ny nz scores angles := by
    rw [mem_voxels]
    exact ⟨i, by simp [hi], by simp [hi'], rfl, rfl, rfl⟩
  obtain ⟨p, hp, hd, hs⟩ := peaks_cover thr dn dd _ al nb ord out h _ hv ht
  exact ⟨p, hp, hs, hd⟩

/-- the checker run on the implementation's peak table is sound -/
theorem checkPeaks_sound (out : List (Peak α)) (h : checkPeaks thr dn dd vs al nb ord out = true) :
    (∀ p ∈ out, PeakCarries thr vs al nb ord p) ∧ PeaksFar dn dd out ∧ PeaksCover thr dn dd vs out := by
  unfold checkPeaks carryOk farOk coverOk at h
  simp only [Bool.and_eq_true, List.all_eq_true, List.any_eq_true, Bool.or_eq_true, decide_eq_true_eq,
    Bool.not_eq_eq_eq_not, Bool.not_true, decide_eq_false_iff_not] at h
  obtain ⟨⟨h1, h2⟩, h3⟩ := h
  refine ⟨?_, ?_, ?_⟩
  · intro p hp
    obtain ⟨v, hv, ⟨⟨ht, hx, hy, hz, hs⟩, h0⟩, hrow⟩ := h1 p hp
    exact ⟨v, hv, ht, hx, hy, hz, hs, h0, hrow⟩
  · intro p hp q hq hne
    rcases h2 p hp q hq with h | h
    · exact absurd h hne
    · exact h
  · intro v hv ht
    rcases h3 v hv with h | h
    · exact absurd ht h
    · exact h

end Peaks

/-! ### non-vacuity: concrete inputs meeting the hypotheses -/

/-- three particles of one group on a line, radius 2: the middle one (best score) removes both neighbours -/
example : checkClean (2 : Int) true
    [⟨0, 1, 5, ⟨0, 0, 0⟩⟩, ⟨1, 1, 9, ⟨1, 0, 0⟩⟩, ⟨2, 1, 7, ⟨2, 0, 0⟩⟩, ⟨3, 2, 1, ⟨1, 0, 0⟩⟩]
    [⟨1, 1, 9, ⟨1, 0, 0⟩⟩, ⟨3, 2, 1, ⟨1, 0, 0⟩⟩] = true := by decide

example : (([⟨0, 1, 5, ⟨0, 0, 0⟩⟩, ⟨1, 1, 9, ⟨1, 0, 0⟩⟩] : List (Item Int)).map (·.idx)).Nodup := by decide

/-- a processing order that is non-increasing in score, with a tie -/
example : ([(9, 0), (7, 1), (7, 2), (5, 3)] : List (Int × Nat)).Pairwise (fun a b => b.1 ≤ a.1) := by decide

/-- a 1×1×3 map, threshold 0, diameter 1: the two end voxels are extracted, the middle one is covered -/
example : checkPeaks (0 : Int) 1 1 [⟨0, 0, 0, 5, 1⟩, ⟨0, 0, 1, 3, 0⟩, ⟨0, 0, 2, 4, 1⟩] [(10, 20, 30), (40, 50, 60)] 0 .zzx
    [⟨1, 1, 1, 5, 40, 60, 50⟩, ⟨1, 1, 3, 4, 40, 60, 50⟩] = true := by decide

/-- the hypothesis `extractFrom … = .peaks out` of the peak theorems is met by the same map (voxels listed best
first, so that the sort is the identity and the kernel can evaluate the rest) -/
example : extractFrom (0 : Int) 1 1 [⟨0, 0, 0, 5, 1⟩, ⟨0, 0, 2, 4, 1⟩, ⟨0, 0, 1, 3, 0⟩] [(10, 20, 30), (40, 50, 60)] 0 .zzx
    = .peaks [⟨1, 1, 1, 5, 40, 60, 50⟩, ⟨1, 1, 3, 4, 40, 60, 50⟩] := by
  have ho : peakOrder (supra (0 : Int) [⟨0, 0, 0, 5, 1⟩, ⟨0, 0, 2, 4, 1⟩, ⟨0, 0, 1, 3, 0⟩])
      = [⟨0, 0, 0, 5, 1⟩, ⟨0, 0, 2, 4, 1⟩, ⟨0, 0, 1, 3, 0⟩] := by
    have hs : supra (0 : Int) [⟨0, 0, 0, 5, 1⟩, ⟨0, 0, 2, 4, 1⟩, ⟨0, 0, 1, 3, 0⟩]
        = [⟨0, 0, 0, 5, 1⟩, ⟨0, 0, 2, 4, 1⟩, ⟨0, 0, 1, 3, 0⟩] := by decide
    rw [hs]; simp only [peakOrder, peakSortDesc, if_true]
    exact List.mergeSort_of_pairwise (by decide)
  unfold extractFrom keptVoxels
  rw [ho]
  decide

/-- **Regression witness (defect D19, repaired by 98eff89).** An array angle list in `zzx` order that is *not*
re-indexed (what `rot_angles_load` did before the repair: theta and psi swapped) fails the carry clause. -/
theorem zzx_list_unpermuted_counterexample :
    checkPeaks (0 : Int) 1 1 [⟨0, 0, 0, 5, 0⟩] [(10, 20, 30)] 0 .zzx [⟨1, 1, 1, 5, 10, 20, 30⟩] = false ∧
    checkPeaks (0 : Int) 1 1 [⟨0, 0, 0, 5, 0⟩] [(10, 20, 30)] 0 .zzx [⟨1, 1, 1, 5, 10, 30, 20⟩] = true := by decide

/-- the greedy pass itself on the three-particle line (already in processing order: best first) -/
example : suppress (nearClean (2 : Int)) [⟨1, 1, 9, ⟨1, 0, 0⟩⟩, ⟨2, 1, 7, ⟨2, 0, 0⟩⟩, ⟨0, 1, 5, ⟨0, 0, 0⟩⟩]
    = [⟨1, 1, 9, ⟨1, 0, 0⟩⟩] := by decide

end CryoCat.C07
