import CryoCat.Model.C01
/-! C01 — property theorems (only theorems and non-vacuity examples; helper lemmas are local). -/
namespace CryoCat.C01
variable {α β : Type}

/-! ### translator obligations -/

theorem anchors_ok : Gen.C01.anchorsOk = true := by decide

/-- the source's `Motl.motl_columns` is the documented TOM/AV3 order score, geom1, …, class -/
theorem em_field_order : genColumns = Field.all := by decide

theorem read_expects_20 : Gen.C01.readExpectedColumns = 20 := by decide

/-- the writer selects the columns by name before `to_numpy()` -/
theorem writer_selects_by_name : Gen.C01.writeSelectsCanonical = true := by decide

/-- the writer replaces missing values by 0 itself (`fillna(0.0)` on what it writes), … -/
theorem writer_fills_missing : Gen.C01.writeFillsMissingWithZero = true := by decide

/-- … and casts to single precision (`astype(np.single)`) -/
theorem writer_casts_single : Gen.C01.writeCastsSingle = true := by decide

/-! ### helper lemmas -/

private theorem rowsOf_flatMap (n : Nat) (g : List α → List β) (rows : List (List α))
    (hg : ∀ r ∈ rows, (g r).length = n) : rowsOf n rows.length (rows.flatMap g) = rows.map g := by
  induction rows with
  | nil => rfl
  | cons r rs ih =>
    have h1 : (g r).length = n := hg r (by simp)
    have ih' := ih (fun r hr => hg r (by simp [hr]))
    subst h1
    simp only [List.length_cons, List.flatMap_cons, rowsOf, List.map_cons]
    rw [List.take_left' rfl, List.drop_left' rfl, ih']

private theorem lookup_zip_map [BEq γ] [LawfulBEq γ] (l : List γ) (g : γ → β) (f : γ) (hf : f ∈ l) :
    ((l.zip (l.map g)).lookup f) = some (g f) := by
  induction l with
  | nil => cases hf
  | cons a l ih =>
    simp only [List.map_cons, List.zip_cons_cons, List.lookup_cons]
    by_cases h : f = a
    · subst h; simp
    · have : (f == a) = false := by simpa using h
      rw [this]
      exact ih (by simpa [h] using hf)

private theorem mem_of_lookup [BEq γ] [LawfulBEq γ] (l : List (γ × β)) (k : γ) (v : β)
    (h : l.lookup k = some v) : (k, v) ∈ l := by
  induction l with
  | nil => simp at h
  | cons a l ih =>
    obtain ⟨a1, a2⟩ := a
    simp only [List.lookup_cons] at h
    by_cases hk : k = a1
    · subst hk; simp at h; subst h; simp
    · have : (k == a1) = false := by simpa using hk
      rw [this] at h
      exact List.mem_cons_of_mem _ (ih h)

private theorem lookup_of_mem [BEq γ] [LawfulBEq γ] (l : List (γ × β)) (k : γ) (v : β)
    (hn : (l.map Prod.fst).Nodup) (h : (k, v) ∈ l) : l.lookup k = some v := by
  induction l with
  | nil => cases h
  | cons a l ih =>
    obtain ⟨a1, a2⟩ := a
    simp only [List.map_cons, List.nodup_cons] at hn
    simp only [List.lookup_cons]
    rcases List.mem_cons.1 h with h1 | h2
    · cases h1; simp
    · have hk : k ≠ a1 := by
        intro e; subst e
        exact hn.1 (List.mem_map.2 ⟨(k, v), h2, rfl⟩)
      have : (k == a1) = false := by simpa using hk
      rw [this]; exact ih hn.2 h2

/-! ### the property -/

/-- **Round trip, any column order.** For every header `cols` (in particular every permutation of
the 20 names — `cols` is not constrained at all here), every N ≥ 1 and every cell values, reading
the written file gives the canonical header and, per particle and in the same order, the 20 named
values converted by `conv` (= NaN→0 then single-precision rounding). -/
theorem em_roundtrip (conv : α → β) (d : α) (t : Table α) (hN : t.rows ≠ []) :
    readEm (writeEm conv d t)
      = some { cols := Field.all,
               rows := t.rows.map (fun r => Field.all.map (fun f => conv (cell d t.cols r f))) } := by
  have hlen : t.rows.length ≠ 0 := by simpa using hN
  simp only [readEm, writeEm, em_field_order, Field.all_length, read_expects_20]
  simp only [hlen, if_false, ne_eq, not_true_eq_false]
  rw [rowsOf_flatMap]
  intro r _; simp [Field.all_length]

/-- after loading, the field *named* `f` of particle `i` is the conversion of the field named `f`
of particle `i` of the original table -/
theorem em_roundtrip_named (conv : α → β) (d : α) (d' : β) (t : Table α) (hN : t.rows ≠ []) :
    (readEm (writeEm conv d t)).map (particles d')
      = some (t.rows.map (fun r => Particle.ofFn (fun f => conv (cell d t.cols r f)))) := by
  rw [em_roundtrip conv d t hN]
  simp only [Option.map_some, particles, List.map_map]
  congr 1

/-- **Missing values read back as 0, everything else as its single-precision rounding.** With the writer's
conversion `conv isNaN r32 0` the named field of the loaded particle is `r32 0` where the table had a hole and
`r32 v` otherwise — whatever `r32` is (the driver instantiates it with IEEE `Float.toFloat32`). -/
theorem conv_missing (isNaN : α → Bool) (r32 : α → β) (zero v : α) (h : isNaN v = true) :
    conv isNaN r32 zero v = r32 zero := by simp [conv, h]

theorem conv_present (isNaN : α → Bool) (r32 : α → β) (zero v : α) (h : isNaN v = false) :
    conv isNaN r32 zero v = r32 v := by simp [conv, h]

theorem em_roundtrip_values (isNaN : α → Bool) (r32 : α → β) (zero : α) (d' : β) (t : Table α) (hN : t.rows ≠ []) :
    (readEm (writeEm (conv isNaN r32 zero) zero t)).map (particles d')
      = some (t.rows.map (fun r => Particle.ofFn (fun f =>
          if isNaN (cell zero t.cols r f) then r32 zero else r32 (cell zero t.cols r f)))) := by
  rw [em_roundtrip_named _ _ d' t hN]; rfl

/-- by-name access on an accepted header is positional access at the column's position: for a header that
is a permutation of the 20 names and a row of 20 cells, `cell` returns the cell stored under that name and
never the default (the real code raises `KeyError` only for headers the constructor has already refused) -/
theorem cell_of_accepted (d : α) (cols : List Field) (r : List α) (f : Field)
    (hc : accepted cols = true) (hr : r.length = cols.length) :
    ∃ i, ∃ (h : i < r.length), cols[i]? = some f ∧ cell d cols r f = r[i] := by
  have hp : cols.Perm Field.all := by simpa [accepted, em_field_order, List.isPerm_iff] using hc
  have hmem : f ∈ cols := hp.mem_iff.2 (Field.mem_all f)
  have hnd : cols.Nodup := hp.nodup_iff.2 Field.all_nodup
  obtain ⟨i, hi, hfi⟩ := List.getElem_of_mem hmem
  refine ⟨i, by omega, by simp [hfi, List.getElem?_eq_getElem hi], ?_⟩
  have hm : (f, r[i]'(by omega)) ∈ cols.zip r := by
    rw [List.mem_iff_getElem]
    refine ⟨i, by simp; omega, by simp [hfi]⟩
  have hfst : (cols.zip r).map Prod.fst = cols := by rw [List.map_fst_zip]; omega
  simp [cell, lookup_of_mem _ _ _ (by rw [hfst]; exact hnd) hm]

/-- reading a canonical row by name returns the value written for that name -/
theorem cell_canonical (d : β) (g : Field → β) (f : Field) : cell d Field.all (Field.all.map g) f = g f := by
  simp [cell, lookup_zip_map Field.all g f (Field.mem_all f)]

/-- **Column order is irrelevant.** Two tables that hold the same named values (e.g. one is a
column permutation of the other) give byte-identical files. -/
theorem em_write_perm_invariant (d : α) (cols cols' : List Field) (r r' : List α)
    (hn : cols.Nodup) (hl : cols.length = r.length) (hl' : cols'.length = r'.length)
    (hp : (cols'.zip r').Perm (cols.zip r)) (f : Field) :
    cell d cols' r' f = cell d cols r f := by
  have hfst : ((cols.zip r).map Prod.fst) = cols := by
    rw [List.map_fst_zip]; omega
  have hfst' : ((cols'.zip r').map Prod.fst) = cols' := by
    rw [List.map_fst_zip]; omega
  have hn' : cols'.Nodup := by
    have := (hp.map Prod.fst).nodup_iff
    rw [hfst, hfst'] at this; exact this.2 hn
  unfold cell
  cases h : (cols.zip r).lookup f with
  | some v =>
    have hm := mem_of_lookup _ _ _ h
    have hm' := hp.mem_iff.2 hm
    rw [lookup_of_mem _ _ _ (by rw [hfst']; exact hn') hm']
  | none =>
    cases h' : (cols'.zip r').lookup f with
    | none => rfl
    | some v =>
      have hm := hp.mem_iff.1 (mem_of_lookup _ _ _ h')
      rw [lookup_of_mem _ _ _ (by rw [hfst]; exact hn) hm] at h
      cases h

private theorem flatMap_congr_idx (g g' : List α → List β) :
    ∀ (rs rs' : List (List α)), rs'.length = rs.length →
      (∀ i (h1 : i < rs.length) (h2 : i < rs'.length), g' rs'[i] = g rs[i]) → rs'.flatMap g' = rs.flatMap g
  | [], [], _, _ => rfl
  | [], _ :: _, hl, _ => by simp at hl
  | _ :: _, [], hl, _ => by simp at hl
  | r :: rs, r' :: rs', hl, h => by
    simp only [List.flatMap_cons]
    have h0 : g' r' = g r := h 0 (by simp) (by simp)
    rw [h0]
    rw [flatMap_congr_idx g g' rs rs' (by simpa using hl)
      (fun i h1 h2 => h (i + 1) (by simpa using h1) (by simpa using h2))]

/-- file-level form: two tables with the same number of rows whose i-th rows hold the same named values
(e.g. one is a column permutation of the other) give the **same file** -/
theorem em_write_same_named (cv : α → β) (d : α) (t t' : Table α) (hl : t'.rows.length = t.rows.length)
    (h : ∀ i (h1 : i < t.rows.length) (h2 : i < t'.rows.length) f,
      cell d t'.cols t'.rows[i] f = cell d t.cols t.rows[i] f) :
    writeEm cv d t' = writeEm cv d t := by
  simp only [writeEm, hl]
  congr 1
  apply flatMap_congr_idx _ _ _ _ hl
  intro i h1 h2
  apply List.map_congr_left
  intro f _
  rw [h i h1 h2 f]

/-- **Layout on disk**: dims 20 × N × 1 (x fastest), payload 20·N, the 20 fields of one particle
contiguous in the documented order. -/
theorem em_layout (conv : α → β) (d : α) (t : Table α) :
    (writeEm conv d t).dimX = 20 ∧ (writeEm conv d t).dimY = t.rows.length ∧
    (writeEm conv d t).dimZ = 1 ∧ (writeEm conv d t).data.length = 20 * t.rows.length := by
  refine ⟨by simp [writeEm, em_field_order, Field.all_length], rfl, rfl, ?_⟩
  simp only [writeEm, em_field_order]
  induction t.rows with
  | nil => rfl
  | cons r rs ih => simp only [List.flatMap_cons, List.length_append, List.length_map, Field.all_length, List.length_cons, ih]; omega

theorem em_offset (conv : α → β) (d : α) (t : Table α) (i : Nat) (hi : i < t.rows.length) (f : Field) :
    (writeEm conv d t).data[20 * i + f.idx]? = some (conv (cell d t.cols (t.rows[i]) f)) := by
  simp only [writeEm, em_field_order]
  generalize t.rows = rows at *
  induction rows generalizing i with
  | nil => simp at hi
  | cons r rs ih =>
    cases i with
    | zero =>
      simp only [List.flatMap_cons, Nat.mul_zero, Nat.zero_add, List.getElem_cons_zero]
      rw [List.getElem?_append_left (by simp [Field.all_length]; cases f <;> decide)]
      cases f <;> rfl
    | succ i =>
      simp only [List.flatMap_cons, List.getElem_cons_succ]
      rw [List.getElem?_append_right (by simp [Field.all_length]; omega)]
      have : 20 * (i + 1) + f.idx - (List.map (fun f => conv (cell d t.cols r f)) Field.all).length = 20 * i + f.idx := by
        simp [Field.all_length]; omega
      rw [this]
      exact ih i (by simpa using hi)

/-- the constructor accepts every permutation of the 20 names and nothing else -/
theorem accepted_iff (cols : List Field) : accepted cols = true ↔ cols.Perm Field.all := by
  simp [accepted, em_field_order, List.isPerm_iff]

/-- **Regression witness (defect D01).** The writer that emits cells in *table* order (the code
before the repair) does not satisfy the round trip once two columns are swapped. -/
theorem em_scrambles_without_reindex :
    let cols := [Field.geom1, Field.score] ++ Field.all.drop 2
    let t : Table Nat := { cols := cols, rows := [List.range 20] }
    writeEmAsIs id t ≠ writeEm id 0 t := by decide

/-! ### non-vacuity -/
example : accepted ([Field.geom1, Field.score] ++ Field.all.drop 2) = true := by decide
example : (readEm (writeEm (fun (v : Nat) => v + 1) 0
    ({ cols := [Field.geom1, Field.score] ++ Field.all.drop 2, rows := [List.range 20, List.range 20] } : Table Nat))).isSome = true := by decide

end CryoCat.C01
