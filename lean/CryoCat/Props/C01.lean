import CryoCat.Model.C01
import CryoCat.Lemmas.C01
/-! C01 — property theorems (only theorems and non-vacuity examples; list helper lemmas are local, byte helper lemmas in `Lemmas/C01`). -/
namespace CryoCat.C01
variable {α β : Type}

/-! ### translator obligations -/

theorem anchors_ok : Gen.C01.anchorsOk = true := by decide

/-- the source's `Motl.motl_columns` is the documented TOM/AV3 order score, geom1, …, class -/
theorem em_field_order : genColumns = Field.all := by decide

theorem read_expects_20 : Gen.C01.readExpectedColumns = 20 := by decide

/-- the array the source hands to `emfile.write` is indexed with `[…motl_columns]` (read off the data-flow
expression of `EmMotl.write_out` by the translator); the model's writer `writeGen` branches on this flag -/
theorem writer_selects_by_name : Gen.C01.writeSelectsCanonical = true := by decide

/-- the literal of the `.fillna(·)` on what is written is 0 (`writeGen` fills with whatever literal the source has) -/
theorem writer_fills_missing : Gen.C01.writeFill = some 0 := by decide

/-- the array is cast to single precision (`writeGen` stores float64 / data-type 9 otherwise) -/
theorem writer_casts_single : Gen.C01.writeCastsSingle = true := by decide

/-- `Motl.write_out`: `motl_type` defaults to `"emmotl"`, is compared case-insensitively, and the EM branch is
`EmMotl(self.df).write_out(output_path)`; `Motl.load`: default `"emmotl"`, compared as given, EM branch
`return EmMotl(input_motl)` (regenerated from the two dispatchers on every run) -/
theorem dispatch_documented :
    Gen.C01.motlWriteOutDefault = "emmotl" ∧ Gen.C01.motlWriteOutLowers = true ∧ Gen.C01.motlWriteOutEmBranch = true ∧
    Gen.C01.motlLoadDefault = "emmotl" ∧ Gen.C01.motlLoadLowers = false ∧ Gen.C01.motlLoadEmBranch = true := by decide

/-! ### helper lemmas -/

private theorem rowsOf_flatMap (n : Nat) (g : List α → List β) (rows : List (List α))
    (hg : ∀ r ∈ rows, (g r).length = n) : rowsOf n rows.length (rows.flatMap g) = rows.map g := by
  induction rows with
  | nil => rfl
  | cons r rs ih =>
    have h1 : (g r).length = n := hg r (by simp)
    have ih' := ih (fun r hr => hg r (by simp [hr]))
    subst h1
    simp only [List.length_cons, List.flatMap_cons, rowsOf, List.map_cons]
    rw [List.take_left' rfl, List.drop_left' rfl, ih']

private theorem lookup_zip_map [BEq γ] [LawfulBEq γ] (l : List γ) (g : γ → β) (f : γ) (hf : f ∈ l) :
    ((l.zip (l.map g)).lookup f) = some (g f) := by
  induction l with
  | nil => cases hf
  | cons a l ih =>
    simp only [List.map_cons, List.zip_cons_cons, List.lookup_cons]
    by_cases h : f = a
    · subst h; simp
    · have : (f == a) = false := by simpa using h
      rw [this]
      exact ih (by simpa [h] using hf)

private theorem mem_of_lookup [BEq γ] [LawfulBEq γ] (l : List (γ × β)) (k : γ) (v : β)
    (h : l.lookup k = some v) : (k, v) ∈ l := by
  induction l with
  | nil => simp at h
  | cons a l ih =>
    obtain ⟨a1, a2⟩ := a
    simp only [List.lookup_cons] at h
    by_cases hk : k = a1
    · subst hk; simp at h; subst h; simp
    · have : (k == a1) = false := by simpa using hk
      rw [this] at h
      exact List.mem_cons_of_mem _ (ih h)

private theorem lookup_of_mem [BEq γ] [LawfulBEq γ] (l : List (γ × β)) (k : γ) (v : β)
    (hn : (l.map Prod.fst).Nodup) (h : (k, v) ∈ l) : l.lookup k = some v := by
  induction l with
  | nil => cases h
  | cons a l ih =>
    obtain ⟨a1, a2⟩ := a
    simp only [List.map_cons, List.nodup_cons] at hn
    simp only [List.lookup_cons]
    rcases List.mem_cons.1 h with h1 | h2
    · cases h1; simp
    · have hk : k ≠ a1 := by
        intro e; subst e
        exact hn.1 (List.mem_map.2 ⟨(k, v), h2, rfl⟩)
      have : (k == a1) = false := by simpa using hk
      rw [this]; exact ih hn.2 h2

/-! ### the property -/

/-- **Round trip, any column order.** For every header `cols` (in particular every permutation of
the 20 names — `cols` is not constrained at all here), every N ≥ 1 and every cell values, reading
the written file gives the canonical header and, per particle and in the same order, the 20 named
values converted by `conv` (= NaN→0 then single-precision rounding). -/
theorem em_roundtrip (conv : α → β) (d : α) (t : Table α) (hN : t.rows ≠ []) :
    readEm (writeEm conv d t)
      = some { cols := Field.all,
               rows := t.rows.map (fun r => Field.all.map (fun f => conv (cell d t.cols r f))) } := by
  have hlen : t.rows.length ≠ 0 := by simpa using hN
  simp only [readEm, writeEm, em_field_order, Field.all_length, read_expects_20]
  simp only [hlen, if_false, ne_eq, not_true_eq_false]
  rw [rowsOf_flatMap]
  intro r _; simp [Field.all_length]

/-- after loading, the field *named* `f` of particle `i` is the conversion of the field named `f`
of particle `i` of the original table -/
theorem em_roundtrip_named (conv : α → β) (d : α) (d' : β) (t : Table α) (hN : t.rows ≠ []) :
    (readEm (writeEm conv d t)).map (particles d')
      = some (t.rows.map (fun r => Particle.ofFn (fun f => conv (cell d t.cols r f)))) := by
  rw [em_roundtrip conv d t hN]
  simp only [Option.map_some, particles, List.map_map]
  congr 1

/-- unfolding lemma of `conv` (an anchor for readers, not a clause of the property): on a missing value it is `r32 zero` -/
theorem conv_missing (isNaN : α → Bool) (r32 : α → β) (zero v : α) (h : isNaN v = true) :
    conv isNaN r32 zero v = r32 zero := by simp [conv, h]

/-- unfolding lemma of `conv`: on a present value it is `r32 v` -/
theorem conv_present (isNaN : α → Bool) (r32 : α → β) (zero v : α) (h : isNaN v = false) :
    conv isNaN r32 zero v = r32 v := by simp [conv, h]

/-- **Missing values read back as 0, everything else as its single-precision rounding** — `em_roundtrip_named`
with the writer's conversion `conv isNaN r32 zero` spelled out (a restatement: the proof is a rewrite and `rfl`):
the named field of the loaded particle is `r32 zero` where the table had a hole and `r32 v` otherwise, whatever
`r32` is (the driver instantiates it with IEEE `Float.toFloat32`; that numpy's cast is the same function is an
assumption compared bit for bit on every run, not a theorem). -/
theorem em_roundtrip_values (isNaN : α → Bool) (r32 : α → β) (zero : α) (d' : β) (t : Table α) (hN : t.rows ≠ []) :
    (readEm (writeEm (conv isNaN r32 zero) zero t)).map (particles d')
      = some (t.rows.map (fun r => Particle.ofFn (fun f =>
          if isNaN (cell zero t.cols r f) then r32 zero else r32 (cell zero t.cols r f)))) := by
  rw [em_roundtrip_named _ _ d' t hN]; rfl

/-- by-name access on an accepted header is positional access at the column's position: for a header that
is a permutation of the 20 names and a row of 20 cells, `cell` returns the cell stored under that name and
never the default (the real code raises `KeyError` only for headers the constructor has already refused) -/
theorem cell_of_accepted (d : α) (cols : List Field) (r : List α) (f : Field)
    (hc : accepted cols = true) (hr : r.length = cols.length) :
    ∃ i, ∃ (h : i < r.length), cols[i]? = some f ∧ cell d cols r f = r[i] := by
  have hp : cols.Perm Field.all := by simpa [accepted, em_field_order, List.isPerm_iff] using hc
  have hmem : f ∈ cols := hp.mem_iff.2 (Field.mem_all f)
  have hnd : cols.Nodup := hp.nodup_iff.2 Field.all_nodup
  obtain ⟨i, hi, hfi⟩ := List.getElem_of_mem hmem
  refine ⟨i, by omega, by simp [hfi, List.getElem?_eq_getElem hi], ?_⟩
  have hm : (f, r[i]'(by omega)) ∈ cols.zip r := by
    rw [List.mem_iff_getElem]
    refine ⟨i, by simp; omega, by simp [hfi]⟩
  have hfst : (cols.zip r).map Prod.fst = cols := by rw [List.map_fst_zip]; omega
  simp [cell, lookup_of_mem _ _ _ (by rw [hfst]; exact hnd) hm]

/-- reading a canonical row by name returns the value written for that name -/
theorem cell_canonical (d : β) (g : Field → β) (f : Field) : cell d Field.all (Field.all.map g) f = g f := by
  simp [cell, lookup_zip_map Field.all g f (Field.mem_all f)]

/-- **Column order is irrelevant (cell level).** Two rows that hold the same named values under their headers
(e.g. one is a column permutation of the other; the first header without repeated names) give the same by-name
cell for every field. The file-level consequence is `em_write_same_named`. -/
theorem em_write_perm_invariant (d : α) (cols cols' : List Field) (r r' : List α)
    (hn : cols.Nodup) (hl : cols.length = r.length) (hl' : cols'.length = r'.length)
    (hp : (cols'.zip r').Perm (cols.zip r)) (f : Field) :
    cell d cols' r' f = cell d cols r f := by
  have hfst : ((cols.zip r).map Prod.fst) = cols := by
    rw [List.map_fst_zip]; omega
  have hfst' : ((cols'.zip r').map Prod.fst) = cols' := by
    rw [List.map_fst_zip]; omega
  have hn' : cols'.Nodup := by
    have := (hp.map Prod.fst).nodup_iff
    rw [hfst, hfst'] at this; exact this.2 hn
  unfold cell
  cases h : (cols.zip r).lookup f with
  | some v =>
    have hm := mem_of_lookup _ _ _ h
    have hm' := hp.mem_iff.2 hm
    rw [lookup_of_mem _ _ _ (by rw [hfst']; exact hn') hm']
  | none =>
    cases h' : (cols'.zip r').lookup f with
    | none => rfl
    | some v =>
      have hm := hp.mem_iff.1 (mem_of_lookup _ _ _ h')
      rw [lookup_of_mem _ _ _ (by rw [hfst]; exact hn) hm] at h
      cases h

private theorem flatMap_congr_idx (g g' : List α → List β) :
    ∀ (rs rs' : List (List α)), rs'.length = rs.length →
      (∀ i (h1 : i < rs.length) (h2 : i < rs'.length), g' rs'[i] = g rs[i]) → rs'.flatMap g' = rs.flatMap g
  | [], [], _, _ => rfl
  | [], _ :: _, hl, _ => by simp at hl
  | _ :: _, [], hl, _ => by simp at hl
  | r :: rs, r' :: rs', hl, h => by
    simp only [List.flatMap_cons]
    have h0 : g' r' = g r := h 0 (by simp) (by simp)
    rw [h0]
    rw [flatMap_congr_idx g g' rs rs' (by simpa using hl)
      (fun i h1 h2 => h (i + 1) (by simpa using h1) (by simpa using h2))]

/-- file-level form: two tables with the same number of rows whose i-th rows hold the same named values
(e.g. one is a column permutation of the other) give the **same file** (same extents and cells, hence the same bytes
under `encodeEm`) -/
theorem em_write_same_named (cv : α → β) (d : α) (t t' : Table α) (hl : t'.rows.length = t.rows.length)
    (h : ∀ i (h1 : i < t.rows.length) (h2 : i < t'.rows.length) f,
      cell d t'.cols t'.rows[i] f = cell d t.cols t.rows[i] f) :
    writeEm cv d t' = writeEm cv d t := by
  simp only [writeEm, hl]
  congr 1
  apply flatMap_congr_idx _ _ _ _ hl
  intro i h1 h2
  apply List.map_congr_left
  intro f _
  rw [h i h1 h2 f]

/-- **Layout of the array**: extents 20 × N × 1 (x fastest) and 20·N cells; that the 20 fields of particle `i` sit
contiguously at `20·i + field index` in the documented order is `em_offset`, the bytes are `writeGen_bytes_decode`. -/
theorem em_layout (conv : α → β) (d : α) (t : Table α) :
    (writeEm conv d t).dimX = 20 ∧ (writeEm conv d t).dimY = t.rows.length ∧
    (writeEm conv d t).dimZ = 1 ∧ (writeEm conv d t).data.length = 20 * t.rows.length := by
  refine ⟨by simp [writeEm, em_field_order, Field.all_length], rfl, rfl, ?_⟩
  simp only [writeEm, em_field_order]
  induction t.rows with
  | nil => rfl
  | cons r rs ih => simp only [List.flatMap_cons, List.length_append, List.length_map, Field.all_length, List.length_cons, ih]; omega

theorem em_offset (conv : α → β) (d : α) (t : Table α) (i : Nat) (hi : i < t.rows.length) (f : Field) :
    (writeEm conv d t).data[20 * i + f.idx]? = some (conv (cell d t.cols (t.rows[i]) f)) := by
  simp only [writeEm, em_field_order]
  generalize t.rows = rows at *
  induction rows generalizing i with
  | nil => simp at hi
  | cons r rs ih =>
    cases i with
    | zero =>
      simp only [List.flatMap_cons, Nat.mul_zero, Nat.zero_add, List.getElem_cons_zero]
      rw [List.getElem?_append_left (by simp [Field.all_length]; cases f <;> decide)]
      cases f <;> rfl
    | succ i =>
      simp only [List.flatMap_cons, List.getElem_cons_succ]
      rw [List.getElem?_append_right (by simp [Field.all_length]; omega)]
      have : 20 * (i + 1) + f.idx - (List.map (fun f => conv (cell d t.cols r f)) Field.all).length = 20 * i + f.idx := by
        simp [Field.all_length]; omega
      rw [this]
      exact ih i (by simpa using hi)

/-- the model's constructor check (`sorted(cols) == sorted(motl_columns)`) accepts every permutation of the 20 names
and nothing else; the real constructor is compared with it on well-formed and malformed headers in the correspondence run -/
theorem accepted_iff (cols : List Field) : accepted cols = true ↔ cols.Perm Field.all := by
  simp [accepted, em_field_order, List.isPerm_iff]

/-- **Regression witness (defect D01).** The writer that emits cells in *table* order (the code
before the repair) does not satisfy the round trip once two columns are swapped. -/
theorem em_scrambles_without_reindex :
    let cols := [Field.geom1, Field.score] ++ Field.all.drop 2
    let t : Table Nat := { cols := cols, rows := [List.range 20] }
    writeEmAsIs id t ≠ writeEm id 0 t := by decide

/-! ### the writer of the source (a function of the translated facts) -/

/-- **The source's writer is the documented writer.** `writeGen` is `writeSrc` at the three facts the translator
regenerates from `EmMotl.write_out` on every run; with today's facts it computes exactly `writeEm` with the
property's cell conversion. Editing the source (`.fillna(1.0)`, dropping `[Motl.motl_columns]` or the cast) changes
what `writeGen` computes and this proof no longer goes through. -/
theorem writeGen_eq_writeEm (o : NumOps α) (t : Table α) :
    writeGen o t = writeEm (specCell o) (o.ofInt 0) t := by
  -- the regenerated values are unfolded here (not taken from the three flag theorems above), so this proof
  -- itself stops checking when the source's facts change
  unfold writeGen
  simp only [Gen.C01.writeSelectsCanonical, Gen.C01.writeFill, Gen.C01.writeCastsSingle,
    writeSrc, writeEm, if_true, List.map_map]
  have hrow : (fun r => List.map ((fun v => o.store true (fillCell o (some 0) v)) ∘ fun f => cell (o.ofInt 0) t.cols r f) genColumns)
      = (fun r => List.map (fun f => specCell o (cell (o.ofInt 0) t.cols r f)) genColumns) := by
    funext r
    apply List.map_congr_left
    intro f _
    simp only [Function.comp, NumOps.store, fillCell, specCell, conv, if_true]
    split <;> rfl
  rw [hrow]

/-- **Round trip of the source's writer, any column order, N ≥ 1**: reading what `writeGen` wrote gives the
canonical header and per particle, in order, the 20 named values: float32 of 0 where the table had a hole, float32 of
the value otherwise -/
theorem em_roundtrip_gen (o : NumOps α) (t : Table α) (hN : t.rows ≠ []) :
    readEm (writeGen o t)
      = some { cols := Field.all,
               rows := t.rows.map (fun r => Field.all.map (fun f =>
                 if o.isNaN (cell (o.ofInt 0) t.cols r f) then Stored.f32 (o.bits32 (o.ofInt 0))
                 else Stored.f32 (o.bits32 (cell (o.ofInt 0) t.cols r f)))) } := by
  rw [writeGen_eq_writeEm, em_roundtrip _ _ t hN]; rfl

/-- the file `writeGen` describes: float32 (data-type 5), 20 × N × 1 -/
theorem em_layout_gen (o : NumOps α) (t : Table α) :
    (writeGen o t).dtype = 5 ∧ (writeGen o t).dimX = 20 ∧ (writeGen o t).dimY = t.rows.length ∧
    (writeGen o t).dimZ = 1 ∧ (writeGen o t).data.length = 20 * t.rows.length := by
  rw [writeGen_eq_writeEm]
  exact ⟨rfl, em_layout _ _ t⟩

/-- the model's writer really depends on each translated fact (witnesses on a toy number type, `none` = missing):
another fill literal, … -/
theorem writer_fill_matters :
    let t : Table (Option Nat) := { cols := Field.all, rows := [(List.range 19).map some ++ [none]] }
    writeSrc true (some 1) true toyOps t ≠ writeSrc true (some 0) true toyOps t
    ∧ writeSrc true none true toyOps t ≠ writeSrc true (some 0) true toyOps t := by decide

/-- … no cast (float64 cells, data-type 9), … -/
theorem writer_cast_matters :
    let t : Table (Option Nat) := { cols := Field.all, rows := [(List.range 20).map some] }
    writeSrc true (some 0) false toyOps t ≠ writeSrc true (some 0) true toyOps t := by decide

/-- … or table order instead of selection by name (defect D01 again, now in the writer the driver runs) -/
theorem writer_selection_matters :
    let t : Table (Option Nat) := { cols := [Field.geom1, Field.score] ++ Field.all.drop 2, rows := [(List.range 20).map some] }
    writeSrc false (some 0) true toyOps t ≠ writeSrc true (some 0) true toyOps t := by decide

/-- **Both paths of the quantifier write with the same writer**: `Motl.write_out(p)` (type omitted),
`Motl.write_out(p, 'emmotl')` and the case variants the `.lower()` admits all are `EmMotl(self.df).write_out(p)`,
i.e. `writeGen` — computed from the regenerated dispatch facts -/
theorem motl_write_out_em (o : NumOps α) (t : Table α) (ty : Option String)
    (h : ty = none ∨ ty = some "emmotl" ∨ ty = some "EMMOTL" ∨ ty = some "EmMotl") :
    motlWriteOut ty o t = some (writeGen o t) := by
  have hc : ∀ s : Option String, (s = none ∨ s = some "emmotl" ∨ s = some "EMMOTL" ∨ s = some "EmMotl") →
      (typeIs Gen.C01.motlWriteOutLowers (s.getD Gen.C01.motlWriteOutDefault) && Gen.C01.motlWriteOutEmBranch) = true := by
    intro s hs
    rcases hs with rfl | rfl | rfl | rfl <;> decide +kernel
  simp only [motlWriteOut, hc ty h, if_true]

/-- `Motl.load(p)` and `Motl.load(p, 'emmotl')` read with the model of `EmMotl.read_in`; another type does not -/
theorem motl_load_em (f : EmFile β) (ty : Option String) (h : ty = none ∨ ty = some "emmotl") :
    motlLoad ty f = readEm f := by
  have hc : ∀ s : Option String, (s = none ∨ s = some "emmotl") →
      (typeIs Gen.C01.motlLoadLowers (s.getD Gen.C01.motlLoadDefault) && Gen.C01.motlLoadEmBranch) = true := by
    intro s hs
    rcases hs with rfl | rfl <;> decide +kernel
  simp only [motlLoad, hc ty h, if_true]

/-- the type string matters: `'relion'` does not reach the EM writer in this model -/
theorem motl_write_out_other (o : NumOps α) (t : Table α) : motlWriteOut (some "relion") o t = none := by
  have hc : (typeIs Gen.C01.motlWriteOutLowers ((some "relion" : Option String).getD Gen.C01.motlWriteOutDefault)
      && Gen.C01.motlWriteOutEmBranch) = false := by decide +kernel
  simp only [motlWriteOut, hc]; rfl

/-! ### the file as bytes -/

/-- **Decoding inverts encoding.** For every float32 volume with non-negative int32 extents whose payload has
x·y·z cells, the decoder returns the volume from the bytes `emfile.write` lays down (512-byte header, little-endian
float32 cells, x fastest). -/
theorem decodeEm_encodeEm (f : EmFile UInt32) (hd : f.dtype = 5)
    (hx : f.dimX < 2147483648) (hy : f.dimY < 2147483648) (hz : f.dimZ < 2147483648)
    (hlen : f.data.length = f.dimX * f.dimY * f.dimZ) :
    decodeEm (encodeEm (f.map Stored.f32)) = some f := by
  have hfm : ∀ l : List UInt32, (l.map Stored.f32).flatMap Stored.bytes = l.flatMap le32 := by
    intro l; induction l with
    | nil => rfl
    | cons a l ih => simp only [List.map_cons, List.flatMap_cons, ih, Stored.bytes]
  have henc : encodeEm (f.map Stored.f32) = emHeader 5 f.dimX f.dimY f.dimZ ++ f.data.flatMap le32 := by
    simp only [encodeEm, EmFile.map, hd, hfm]
  rw [henc]
  have hL : (emHeader 5 f.dimX f.dimY f.dimZ ++ f.data.flatMap le32).length = 512 + 4 * (f.dimX * f.dimY * f.dimZ) := by
    rw [List.length_append, emHeader_length, flatMap_le32_length, hlen]
  simp only [decodeEm, hL, header_machine, header_dtype, header_x _ _ _ _ _ (show f.dimX < 4294967296 by omega),
    header_y _ _ _ _ _ (show f.dimY < 4294967296 by omega), header_z _ _ _ _ _ (show f.dimZ < 4294967296 by omega),
    drop_header, words_flatMap]
  have h1 : ¬ (512 + 4 * (f.dimX * f.dimY * f.dimZ) < 512) := by omega
  have h2 : ¬ (f.dimX ≥ 2147483648 ∨ f.dimY ≥ 2147483648 ∨ f.dimZ ≥ 2147483648) := by omega
  simp only [h1, h2, if_false, ne_eq, not_true_eq_false]
  cases f; simp_all

/-- **What the decoder accepts is a valid float32 EM volume**: full header with machine code 6 and data-type code 5,
and exactly 4·x·y·z payload bytes, which are the decoded cells -/
theorem decodeEm_sound (bs : List UInt8) (f : EmFile UInt32) (h : decodeEm bs = some f) :
    f.dtype = 5 ∧ bs.getD 0 0 = 6 ∧ bs.getD 3 0 = 5 ∧ bs.length = 512 + 4 * (f.dimX * f.dimY * f.dimZ) ∧
    f.dimX = u32At bs 4 ∧ f.dimY = u32At bs 8 ∧ f.dimZ = u32At bs 12 ∧ f.data = words (bs.drop 512) ∧
    f.dimX < 2147483648 ∧ f.dimY < 2147483648 ∧ f.dimZ < 2147483648 := by
  unfold decodeEm at h
  split at h; · cases h
  split at h; · cases h
  split at h; · cases h
  simp only at h
  split at h; · cases h
  split at h; · cases h
  cases h
  simp_all

/-- **The decoder accepts everything that is a valid float32 EM volume** (the converse of `decodeEm_sound`): machine
code 6, data-type code 5, non-negative int32 extents and exactly 4·x·y·z payload bytes suffice. Together:
`decodeEm bs = some f` ⇔ these conditions hold and `f` is the volume they describe — "accepts exactly". -/
theorem decodeEm_complete (bs : List UInt8) (h0 : bs.getD 0 0 = 6) (h3 : bs.getD 3 0 = 5)
    (hx : u32At bs 4 < 2147483648) (hy : u32At bs 8 < 2147483648) (hz : u32At bs 12 < 2147483648)
    (hlen : bs.length = 512 + 4 * (u32At bs 4 * u32At bs 8 * u32At bs 12)) :
    decodeEm bs = some { dtype := 5, dimX := u32At bs 4, dimY := u32At bs 8, dimZ := u32At bs 12,
                         data := words (bs.drop 512) } := by
  have h1 : ¬ (bs.length < 512) := by omega
  have h2 : ¬ (u32At bs 4 ≥ 2147483648 ∨ u32At bs 8 ≥ 2147483648 ∨ u32At bs 12 ≥ 2147483648) := by omega
  unfold decodeEm
  rw [if_neg h1, if_neg (fun h => h h0), if_neg (fun h => h h3)]
  simp only []
  rw [if_neg h2, if_neg (by simpa using hlen)]

/-- **The checker decides the last clause of the property on bytes**: it answers `ok` exactly when the bytes are a
valid float32 EM volume of extents 20 × N × 1 (numpy shape 1 × N × 20) whose cells equal, as numbers, the demanded ones -/
theorem checkFile_ok_iff (spec : List UInt32) (n : Nat) (bs : List UInt8) :
    checkFile spec n bs = Verdict.ok ↔
      ∃ f, decodeEm bs = some f ∧ f.dimX = 20 ∧ f.dimY = n ∧ f.dimZ = 1 ∧ f.data.length = spec.length ∧
        ∀ k (h1 : k < f.data.length) (h2 : k < spec.length), sameNum f.data[k] spec[k] = true := by
  have hfd : ∀ (a b : List UInt32) (i : Nat), firstDiff a b i = none ↔
      (a.length = b.length ∧ ∀ k (h1 : k < a.length) (h2 : k < b.length), sameNum a[k] b[k] = true) := by
    intro a
    induction a with
    | nil => intro b i; cases b <;> simp [firstDiff]
    | cons x xs ih =>
      intro b i
      cases b with
      | nil => simp [firstDiff]
      | cons y ys =>
        simp only [firstDiff, List.length_cons]
        by_cases hs : sameNum x y = true
        · simp only [hs, if_true, ih]
          constructor
          · rintro ⟨hl, hk⟩
            refine ⟨by omega, ?_⟩
            intro k h1 h2
            cases k with
            | zero => simpa using hs
            | succ k => simpa using hk k (by omega) (by omega)
          · rintro ⟨hl, hk⟩
            refine ⟨by omega, ?_⟩
            intro k h1 h2
            have := hk (k + 1) (by omega) (by omega)
            simpa only [List.getElem_cons_succ] using this
        · constructor
          · intro h; simp [hs] at h
          · rintro ⟨_, hk⟩
            exact absurd (by simpa using hk 0 (by omega) (by omega)) hs
  unfold checkFile
  cases hdec : decodeEm bs with
  | none => simp
  | some f =>
    simp only [Option.some.injEq, exists_eq_left']
    by_cases hshape : f.dimX ≠ 20 ∨ f.dimY ≠ n ∨ f.dimZ ≠ 1
    · simp only [hshape, if_true]
      constructor
      · intro h; cases h
      · rintro ⟨h1, h2, h3, _⟩; omega
    · simp only [hshape, if_false]
      have hs : f.dimX = 20 ∧ f.dimY = n ∧ f.dimZ = 1 := by omega
      cases hfdv : firstDiff f.data spec 0 with
      | none =>
        have := (hfd _ _ _).1 hfdv
        simp only [true_iff]
        exact ⟨hs.1, hs.2.1, hs.2.2, this.1, this.2⟩
      | some i =>
        simp only [reduceCtorEq, false_iff]
        rintro ⟨_, _, _, h4, h5⟩
        rw [(hfd _ _ 0).2 ⟨h4, h5⟩] at hfdv; cases hfdv

/-- **Decoding the bytes of the source's writer gives the property's cells** — for every table, every column order
and every N < 2³¹ the decoder accepts `encodeEm (writeGen o t)` as a float32 volume of extents 20 × N × 1 whose
cells are `specWords o t`: particle by particle, the 20 fields in the documented order, each looked up by name,
missing → 0, rounded to single precision. -/
theorem writeGen_bytes_decode (o : NumOps α) (t : Table α) (hN : t.rows.length < 2147483648) :
    decodeEm (encodeEm (writeGen o t))
      = some { dtype := 5, dimX := 20, dimY := t.rows.length, dimZ := 1, data := specWords o t } := by
  have hdata : ∀ rows : List (List α),
      rows.flatMap (fun r => Field.all.map (fun f => specCell o (cell (o.ofInt 0) t.cols r f)))
        = (rows.flatMap (fun r => Field.all.map (fun f =>
            let v := cell (o.ofInt 0) t.cols r f
            if o.isNaN v then o.bits32 (o.ofInt 0) else o.bits32 v))).map Stored.f32 := by
    intro rows
    induction rows with
    | nil => rfl
    | cons r rs ih =>
      simp only [List.flatMap_cons, List.map_append, ih, List.map_map]
      congr 1
      apply List.map_congr_left
      intro f _
      simp only [Function.comp, specCell, conv]
      split <;> rfl
  have hlen : (specWords o t).length = 20 * t.rows.length := by
    unfold specWords
    induction t.rows with
    | nil => rfl
    | cons r rs ih => simp only [List.flatMap_cons, List.length_append, List.length_map, Field.all_length, List.length_cons, ih]; omega
  have hfile : writeGen o t = (EmFile.map Stored.f32
      { dtype := 5, dimX := 20, dimY := t.rows.length, dimZ := 1, data := specWords o t } : EmFile Stored) := by
    rw [writeGen_eq_writeEm]
    simp only [writeEm, em_field_order, Field.all_length, EmFile.map, specWords, hdata]
  have h20 : (20 : Nat) < 2147483648 := by decide
  have h1 : (1 : Nat) < 2147483648 := by decide
  rw [hfile]
  exact decodeEm_encodeEm
    ({ dtype := 5, dimX := 20, dimY := t.rows.length, dimZ := 1, data := specWords o t } : EmFile UInt32)
    rfl h20 hN h1 (by simp only [hlen]; omega)

/-- **The bytes the source's writer produces satisfy the property's last clause**: the checker that judges the real
files answers `ok` on the model's own bytes, for every table, column order and N < 2³¹ (so a `file-vs-model`
agreement of the real bytes with the model's bytes implies the real file satisfies the clause). -/
theorem em_file_bytes_valid (o : NumOps α) (t : Table α) (hN : t.rows.length < 2147483648) :
    checkFile (specWords o t) t.rows.length (encodeEm (writeGen o t)) = Verdict.ok := by
  rw [checkFile_ok_iff]
  refine ⟨_, writeGen_bytes_decode o t hN, rfl, rfl, rfl, rfl, ?_⟩
  intro k h1 h2
  simp [sameNum]

/-- **Round trip through the bytes on disk**, 1 ≤ N < 2³¹, any column order: write with the source's writer, encode,
decode, read with the model of `EmMotl.read_in` — the canonical header and, per particle in order, the float32 bit
patterns of the 20 named values (missing → 0). -/
theorem em_roundtrip_bytes (o : NumOps α) (t : Table α) (hN : t.rows ≠ []) (hN' : t.rows.length < 2147483648) :
    (decodeEm (encodeEm (writeGen o t))).bind readEm
      = some { cols := Field.all,
               rows := t.rows.map (fun r => Field.all.map (fun f =>
                 if o.isNaN (cell (o.ofInt 0) t.cols r f) then o.bits32 (o.ofInt 0)
                 else o.bits32 (cell (o.ofInt 0) t.cols r f))) } := by
  rw [writeGen_bytes_decode o t hN']
  have hlen : t.rows.length ≠ 0 := by simpa using hN
  simp only [Option.bind_some, readEm, read_expects_20, em_field_order, specWords]
  simp only [hlen, if_false, ne_eq, not_true_eq_false]
  rw [rowsOf_flatMap]
  intro r _; simp [Field.all_length]

/-! ### non-vacuity -/
example : accepted ([Field.geom1, Field.score] ++ Field.all.drop 2) = true := by decide
example : checkFile (specWords toyOps { cols := Field.all, rows := [(List.range 20).map some] }) 1
    (encodeEm (writeSrc true (some 0) true toyOps { cols := Field.all, rows := [(List.range 20).map some] })) = Verdict.ok := by decide +kernel
example : checkFile (specWords toyOps { cols := Field.all, rows := [(List.range 19).map some ++ [none]] }) 1
    (encodeEm (writeSrc true (some 1) true toyOps { cols := Field.all, rows := [(List.range 19).map some ++ [none]] })) = Verdict.value 19 := by decide +kernel
example : (readEm (writeEm (fun (v : Nat) => v + 1) 0
    ({ cols := [Field.geom1, Field.score] ++ Field.all.drop 2, rows := [List.range 20, List.range 20] } : Table Nat))).isSome = true := by decide

end CryoCat.C01
