import CryoCat.Model.C01
/-! C01 — property theorems (only theorems and non-vacuity examples; helper lemmas are local). -/
namespace CryoCat.C01
variable {α β : Type}

/-! ### translator obligations -/

theorem anchors_ok : Gen.C01.anchorsOk = true := by decide

/-- the source's `Motl.motl_columns` is the documented TOM/AV3 order score, geom1, …, class -/
theorem em_field_order : genColumns = Field.all := by decide

theorem read_expects_20 : Gen.C01.readExpectedColumns = 20 := by decide

/-- the writer selects the columns by name before `to_numpy()` -/
theorem writer_selects_by_name : Gen.C01.writeSelectsCanonical = true := by decide

/-! ### helper lemmas -/

private theorem rowsOf_flatMap (n : Nat) (g : List α → List β) (rows : List (List α))
    (hg : ∀ r ∈ rows, (g r).length = n) : rowsOf n rows.length (rows.flatMap g) = rows.map g := by
  induction rows with
  | nil => rfl
  | cons r rs ih =>
    have h1 : (g r).length = n := hg r (by simp)
    have ih' := ih (fun r hr => hg r (by simp [hr]))
    subst h1
    simp only [List.length_cons, List.flatMap_cons, rowsOf, List.map_cons]
    rw [List.take_left' rfl, List.drop_left' rfl, ih']

private theorem lookup_zip_map [BEq γ] [LawfulBEq γ] (l : List γ) (g : γ → β) (f : γ) (hf : f ∈ l) :
    ((l.zip (l.map g)).lookup f) = some (g f) := by
  induction l with
  | nil => cases hf
  | cons a l ih =>
    simp only [List.map_cons, List.zip_cons_cons, List.lookup_cons]
    by_cases h : f = a
    · subst h; simp
    · have : (f == a) = false := by simpa using h
      rw [this]
      exact ih (by simpa [h] using hf)

private theorem mem_of_lookup [BEq γ] [LawfulBEq γ] (l : List (γ × β)) (k : γ) (v : β)
    (h : l.lookup k = some v) : (k, v) ∈ l := by
  induction l with
  | nil => simp at h
  | cons a l ih =>
    obtain ⟨a1, a2⟩ := a
    simp only [List.lookup_cons] at h
    by_cases hk : k = a1
    · subst hk; simp at h; subst h; simp
    · have : (k == a1) = false := by simpa using hk
      rw [this] at h
      exact List.mem_cons_of_mem _ (ih h)

private theorem lookup_of_mem [BEq γ] [LawfulBEq γ] (l : List (γ × β)) (k : γ) (v : β)
    (hn : (l.map Prod.fst).Nodup) (h : (k, v) ∈ l) : l.lookup k = some v := by
  induction l with
  | nil => cases h
  | cons a l ih =>
    obtain ⟨a1, a2⟩ := a
    simp only [List.map_cons, List.nodup_cons] at hn
    simp only [List.lookup_cons]
    rcases List.mem_cons.1 h with h1 | h2
    · cases h1; simp
    · have hk : k ≠ a1 := by
        intro e; subst e
        exact hn.1 (List.mem_map.2 ⟨(k, v), h2, rfl⟩)
      have : (k == a1) = false := by simpa using hk
      rw [this]; exact ih hn.2 h2

/-! ### the property -/

/-- **Round trip, any column order.** For every header `cols` (in particular every permutation of
the 20 names — `cols` is not constrained at all here), every N ≥ 1 and every cell values, reading
the written file gives the canonical header and, per particle and in the same order, the 20 named
values converted by `conv` (= NaN→0 then single-precision rounding). -/
theorem em_roundtrip (conv : α → β) (d : α) (t : Table α) (hN : t.rows ≠ []) :
    readEm (writeEm conv d t)
      = some { cols := Field.all,
               rows := t.rows.map (fun r => Field.all.map (fun f => conv (cell d t.cols r f))) } := by
  have hlen : t.rows.length ≠ 0 := by simpa using hN
  simp only [readEm, writeEm, em_field_order, Field.all_length, read_expects_20]
  simp only [hlen, if_false, ne_eq, not_true_eq_false]
  rw [rowsOf_flatMap]
  intro r _; simp [Field.all_length]

/-- after loading, the field *named* `f` of particle `i` is the conversion of the field named `f`
of particle `i` of the original table -/
theorem em_roundtrip_named (conv : α → β) (d : α) (d' : β) (t : Table α) (hN : t.rows ≠ []) :
    (readEm (writeEm conv d t)).map (particles d')
      = some (t.rows.map (fun r => Particle.ofFn (fun f => conv (cell d t.cols r f)))) := by
  rw [em_roundtrip conv d t hN]
  simp only [Option.map_some, particles, List.map_map]
  congr 1

/-- reading a canonical row by name returns the value written for that name -/
theorem cell_canonical (d : β) (g : Field → β) (f : Field) : cell d Field.all (Field.all.map g) f = g f := by
  simp [cell, lookup_zip_map Field.all g f (Field.mem_all f)]

/-- **Column order is irrelevant.** Two tables that hold the same named values (e.g. one is a
column permutation of the other) give byte-identical files. -/
theorem em_write_perm_invariant (d : α) (cols cols' : List Field) (r r' : List α)
    (hn : cols.Nodup) (hl : cols.length = r.length) (hl' : cols'.length = r'.length)
    (hp : (cols'.zip r').Perm (cols.zip r)) (f : Field) :
    cell d cols' r' f = cell d cols r f := by
  have hfst : ((cols.zip r).map Prod.fst) = cols := by
    rw [List.map_fst_zip]; omega
  have hfst' : ((cols'.zip r').map Prod.fst) = cols' := by
    rw [List.map_fst_zip]; omega
  have hn' : cols'.Nodup := by
    have := (hp.map Prod.fst).nodup_iff
    rw [hfst, hfst'] at this; exact this.2 hn
  unfold cell
  cases h : (cols.zip r).lookup f with
  | some v =>
    have hm := mem_of_lookup _ _ _ h
    have hm' := hp.mem_iff.2 hm
    rw [lookup_of_mem _ _ _ (by rw [hfst']; exact hn') hm']
  | none =>
    cases h' : (cols'.zip r').lookup f with
    | none => rfl
    | some v =>
      have hm := hp.mem_iff.1 (mem_of_lookup _ _ _ h')
      rw [lookup_of_mem _ _ _ (by rw [hfst]; exact hn) hm] at h
      cases h

/-- **Layout on disk**: dims 20 × N × 1 (x fastest), payload 20·N, the 20 fields of one particle
contiguous in the documented order. -/
theorem em_layout (conv : α → β) (d : α) (t : Table α) :
    (writeEm conv d t).dimX = 20 ∧ (writeEm conv d t).dimY = t.rows.length ∧
    (writeEm conv d t).dimZ = 1 ∧ (writeEm conv d t).data.length = 20 * t.rows.length := by
  refine ⟨by simp [writeEm, em_field_order, Field.all_length], rfl, rfl, ?_⟩
  simp only [writeEm, em_field_order]
  induction t.rows with
  | nil => rfl
  | cons r rs ih => simp only [List.flatMap_cons, List.length_append, List.length_map, Field.all_length, List.length_cons, ih]; omega

theorem em_offset (conv : α → β) (d : α) (t : Table α) (i : Nat) (hi : i < t.rows.length) (f : Field) :
    (writeEm conv d t).data[20 * i + f.idx]? = some (conv (cell d t.cols (t.rows[i]) f)) := by
  simp only [writeEm, em_field_order]
  generalize t.rows = rows at *
  induction rows generalizing i with
  | nil => simp at hi
  | cons r rs ih =>
    cases i with
    | zero =>
      simp only [List.flatMap_cons, Nat.mul_zero, Nat.zero_add, List.getElem_cons_zero]
      rw [List.getElem?_append_left (by simp [Field.all_length]; cases f <;> decide)]
      cases f <;> rfl
    | succ i =>
      simp only [List.flatMap_cons, List.getElem_cons_succ]
      rw [List.getElem?_append_right (by simp [Field.all_length]; omega)]
      have : 20 * (i + 1) + f.idx - (List.map (fun f => conv (cell d t.cols r f)) Field.all).length = 20 * i + f.idx := by
        simp [Field.all_length]; omega
      rw [this]
      exact ih i (by simpa using hi)

/-- the constructor accepts every permutation of the 20 names and nothing else -/
theorem accepted_iff (cols : List Field) : accepted cols = true ↔ cols.Perm Field.all := by
  simp [accepted, em_field_order, List.isPerm_iff]

/-- **Regression witness (defect D01).** The writer that emits cells in *table* order (the code
before the repair) does not satisfy the round trip once two columns are swapped. -/
theorem em_scrambles_without_reindex :
    let cols := [Field.geom1, Field.score] ++ Field.all.drop 2
    let t : Table Nat := { cols := cols, rows := [List.range 20] }
    writeEmAsIs id t ≠ writeEm id 0 t := by decide

/-! ### non-vacuity -/
example : accepted ([Field.geom1, Field.score] ++ Field.all.drop 2) = true := by decide
example : (readEm (writeEm (fun (v : Nat) => v + 1) 0
    ({ cols := [Field.geom1, Field.score] ++ Field.all.drop 2, rows := [List.range 20, List.range 20] } : Table Nat))).isSome = true := by decide

end CryoCat.C01
