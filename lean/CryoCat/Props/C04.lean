import CryoCat.Lemmas.C04
import CryoCat.Lemmas.C04_Star
import CryoCat.Lemmas.C04_Round
import Mathlib.Algebra.Group.Basic
/-! C04 — STOPGAP ↔ cryoCAT conversion is a lossless renaming with parity half-sets.
Only property theorems and non-vacuity examples; helper lemmas live in `Lemmas/C04.lean`. -/
namespace CryoCat.C04
variable {α β : Type}

/-! ### translator obligations: what the source says today is the documented convention -/

theorem anchors_ok : Gen.C04.anchorsOk = true := by decide

/-- `StopgapMotl.pairs` is the documented renaming, entry by entry (a psi/the swap fails here) -/
theorem pairs_documented : sgPairs = docPairs := by decide

/-- `StopgapMotl.columns` is the documented 16-column STOPGAP header, in order -/
theorem columns_documented : sgColumns = SgField.all := by decide

/-- the zero frame is created with as many columns as the header has -/
theorem zeros_width : Gen.C04.zerosWidth = sgColumns.length := by decide

/-- export assigns `stopgap_df[star_key] = motl_df[em_key]`, import `self.df[em_key] = stopgap_df[star_key]` -/
theorem loops_direction :
    Gen.C04.exportLoopCopiesMotlToSg = true ∧ Gen.C04.importLoopCopiesSgToMotl = true := by decide

/-- export copies by row position, not by DataFrame index label -/
theorem export_positional : Gen.C04.exportLoopPositional = true := by decide

/-- halfset is `np.where(motl_df["subtomo_id"].mod(2).eq(0), "A", "B")` -/
theorem halfset_literals :
    halfsetSrc = .subtomo_id ∧ Gen.C04.halfsetMod = 2 ∧ Gen.C04.halfsetEq = 0 ∧
    Gen.C04.halfsetThen = "A" ∧ Gen.C04.halfsetElse = "B" := by decide

/-- `motl_idx` is copied from `subtomo_num` -/
theorem motl_idx_source : idxSrc = .subtomo_num := by decide

/-- the reset sequence is `range(1, N + 1)` -/
theorem reset_range : Gen.C04.resetStart = 1 ∧ Gen.C04.resetStopOffset = 1 := by decide

/-- writer and reader agree on the data block name; the STAR writer rounds to 6 decimals -/
theorem star_block :
    Gen.C04.writeSpecifier = "data_stopgap_motivelist" ∧ Gen.C04.readSpecifier = Gen.C04.writeSpecifier ∧
    Gen.C04.starFloatPrecision = 6 := by decide

/-- the signature defaults the statement depends on: `motl_idx` is reset only "when a reset is
requested", coordinates are re-centred only when asked, `convert_to_motl` does not renumber by
half-set unless asked — an omitted keyword means `False` in every entry point -/
theorem defaults_documented :
    Gen.C04.convResetDefault = false ∧ Gen.C04.sgResetDefault = false ∧
    Gen.C04.writeUpdateDefault = false ∧ Gen.C04.writeResetDefault = false ∧
    Gen.C04.em2sgUpdateDefault = false ∧ Gen.C04.em2sgResetDefault = false ∧
    Gen.C04.sg2emUpdateDefault = false ∧ Gen.C04.keepHalfsetsDefault = false := by decide

/-- `convert_to_sg_motl` builds the frame, copies the 14 fields, sets halfset, then motl_idx, then
calls the reset with its `reset_index` parameter and returns the frame — in this order (the half-set
is decided before `motl_idx` can be overwritten by a reset) -/
theorem export_order_documented :
    Gen.C04.exportOrder = ["frame", "loop", "halfset", "motl_idx", "reset", "return"] := by decide

/-- the bodies of the entry points (normalised: local names replaced by position, docstrings
dropped) are the documented ones: an added, removed or reordered statement in a branch the
correspondence run never executes (`keep_halfsets`, the `.em` branch of `write_out`, the
`StopgapMotl(StopgapMotl)` branch of the constructor) changes a digest -/
theorem bodies_documented : Gen.C04.bodyDigests = docBodyDigests := by decide

/-! one obligation per entry point, named after it: when a body changes, the failing declaration says
WHICH function it was (the translator anchor `body:<function>` quotes the first statement that differs) -/

/-- body of `StopgapMotl.__init__` (dispatch on StopgapMotl / DataFrame / path; the two independent
initialisers at its top are compared as a set) -/
theorem digest_StopgapMotl_init_documented : bodyDigest "StopgapMotl.__init__" = "6cd60100075c261e" := by decide
/-- body of `StopgapMotl.read_in` (incl. the branch that raises when the block is absent) -/
theorem digest_StopgapMotl_read_in_documented : bodyDigest "StopgapMotl.read_in" = "977330a5ab207af8" := by decide
/-- body of `StopgapMotl.convert_to_motl` (incl. the `keep_halfsets` branch no run executes) -/
theorem digest_StopgapMotl_convert_to_motl_documented : bodyDigest "StopgapMotl.convert_to_motl" = "41bddc0a26f2ac2c" := by decide
/-- body of `StopgapMotl.convert_to_sg_motl` -/
theorem digest_StopgapMotl_convert_to_sg_motl_documented : bodyDigest "StopgapMotl.convert_to_sg_motl" = "bd1b72a459e815c1" := by decide
/-- body of `StopgapMotl.sg_df_reset_index` -/
theorem digest_StopgapMotl_sg_df_reset_index_documented : bodyDigest "StopgapMotl.sg_df_reset_index" = "a328d3752cd8e76f" := by decide
/-- body of `StopgapMotl.write_out` (incl. the `.em` branch no run executes) -/
theorem digest_StopgapMotl_write_out_documented : bodyDigest "StopgapMotl.write_out" = "6150d53d35833acb" := by decide
/-- body of `stopgap2emmotl` -/
theorem digest_stopgap2emmotl_documented : bodyDigest "stopgap2emmotl" = "b93283c9d4d67905" := by decide
/-- body of `emmotl2stopgap` -/
theorem digest_emmotl2stopgap_documented : bodyDigest "emmotl2stopgap" = "43955f188247229d" := by decide

/-- the wrappers other modules call: the "stopgap" branch of `Motl.write_out(path, motl_type)` is
`StopgapMotl(self.df).write_out(path)` (no keyword passed on) and that of `Motl.load(path, motl_type)`
is `return StopgapMotl(path)` -/
theorem wrappers_documented :
    Gen.C04.motlWriteOutStopgap = docMotlWriteOutStopgap ∧ Gen.C04.motlLoadStopgap = docMotlLoadStopgap := by decide

/-! ### the renaming table -/

/-- **pairs_bijective.** The source's table has 14 entries, is injective on both sides, its
cryoCAT side is exactly the 14 fields of the statement and its STOPGAP side is every column except
`motl_idx` and `halfset`. -/
theorem pairs_bijective :
    sgPairs.length = 14 ∧ (sgPairs.map Prod.fst).Nodup ∧ (sgPairs.map Prod.snd).Nodup ∧
    sgPairs.map Prod.fst =
      [.subtomo_id, .tomo_id, .object_id, .x, .y, .z, .score, .shift_x, .shift_y, .shift_z,
       .phi, .psi, .theta, .cls] ∧
    (∀ s : SgField, s ∈ sgPairs.map Prod.snd ↔ (s ≠ .motl_idx ∧ s ≠ .halfset)) := by
  rw [pairs_documented]
  refine ⟨by decide, by decide, by decide, by decide, ?_⟩
  intro s; cases s <;> decide

/-! ### export: `convert_to_sg_motl` -/

/-- one exported row carries the 14 shared fields unchanged under the documented renaming -/
theorem exportRow_field (ops : NumOps α) (p : Particle α) (e : Field) (s : SgField)
    (hm : (e, s) ∈ docPairs) : exportRow ops p s = .num (p.get e) := by
  have h1 : s ≠ .motl_idx := by
    intro h; subst h; revert hm; cases e <;> decide
  have h2 : s ≠ .halfset := by
    intro h; subst h; revert hm; cases e <;> decide
  simp only [exportRow, pairs_documented]
  rw [SgRow.set_other _ _ _ _ h1, SgRow.set_other _ _ _ _ h2]
  exact copyPairs_get docPairs (by decide) p _ e s hm

/-- the halfset cell of one exported row -/
theorem exportRow_halfset (ops : NumOps α) (p : Particle α) :
    exportRow ops p .halfset = .str (if ops.modEq p.subtomo_id 2 0 then "A" else "B") := by
  simp only [exportRow]
  rw [SgRow.set_other _ _ _ _ (by decide), SgRow.set_same]
  simp only [halfsetOf, halfset_literals.1]
  rfl

/-- `motl_idx` of one exported row (before a reset) is the subtomogram number -/
theorem exportRow_motl_idx (ops : NumOps α) (p : Particle α) :
    exportRow ops p .motl_idx = .num p.subtomo_id := by
  simp only [exportRow, motl_idx_source, pairs_documented]
  rw [SgRow.set_same, SgRow.set_other _ _ _ _ (by decide)]
  exact copyPairs_get docPairs (by decide) p _ .subtomo_id .subtomo_num (by decide)

/-- the conversion never rejects: every particle list has a STOPGAP form -/
theorem toSg_total (ops : NumOps α) (reset : Bool) (motl : List (Particle α)) :
    ∃ rows, toSg ops reset motl = some rows ∧ rows.length = motl.length := by
  cases reset with
  | false => exact ⟨_, rfl, by simp⟩
  | true =>
    refine ⟨resetFrom ops 1 (motl.map (exportRow ops)), ?_, by simp [resetFrom_length]⟩
    simp [toSg, resetIdx, reset_range.1, reset_range.2]

/-- **Export, clause by clause, for every particle list, any N, both `reset_index` values.**
Row `i` of the result is made from particle `i` (same order, same count): its 14 documented columns
hold the 14 shared fields unchanged, its halfset is `A`/`B` by `subtomo_id mod 2`, its `motl_idx` is
the subtomogram number, or `i+1` (1..N) when a reset is requested. -/
theorem export_rows (ops : NumOps α) (reset : Bool) (motl : List (Particle α)) (rows : List (SgRow α))
    (h : toSg ops reset motl = some rows) :
    rows.length = motl.length ∧
    ∀ i p, motl[i]? = some p → ∃ r : SgRow α, rows[i]? = some r ∧
      (∀ es ∈ docPairs, r es.2 = .num (p.get es.1)) ∧
      r .halfset = .str (if ops.modEq p.subtomo_id 2 0 then "A" else "B") ∧
      r .motl_idx = .num (if reset then ops.ofNat (i + 1) else p.subtomo_id) := by
  cases reset with
  | false =>
    simp only [toSg, Bool.false_eq_true, if_false, Option.some.injEq] at h
    subst h
    refine ⟨by simp, ?_⟩
    intro i p hp
    refine ⟨exportRow ops p, by simp [hp], ?_, exportRow_halfset ops p, exportRow_motl_idx ops p⟩
    intro es hes; exact exportRow_field ops p es.1 es.2 hes
  | true =>
    have h' : rows = resetFrom ops 1 (motl.map (exportRow ops)) := by
      simp [toSg, resetIdx, reset_range.1, reset_range.2] at h; exact h.symm
    subst h'
    refine ⟨by simp [resetFrom_length], ?_⟩
    intro i p hp
    refine ⟨(exportRow ops p).set .motl_idx (.num (ops.ofNat (1 + i))), ?_, ?_, ?_, ?_⟩
    · rw [resetFrom_getElem?]; simp [hp]
    · intro es hes
      have hne : es.2 ≠ .motl_idx := by
        intro h0
        have := (pairs_bijective.2.2.2.2 es.2).1 (by rw [pairs_documented]; exact List.mem_map.2 ⟨es, hes, rfl⟩)
        exact this.1 h0
      rw [SgRow.set_other _ _ _ _ hne]
      exact exportRow_field ops p es.1 es.2 hes
    · rw [SgRow.set_other _ _ _ _ (by decide)]; exact exportRow_halfset ops p
    · rw [SgRow.set_same, Nat.add_comm]; rfl

/-- **halfset_even_odd.** Over the integers: halfset is `A` for even and `B` for odd subtomogram
numbers (negative numbers included), for every particle of every list. -/
def intOps : NumOps Int := { ofNat := Int.ofNat, modEq := fun x m k => x % (m : Int) == (k : Int) }

theorem halfset_even_odd (reset : Bool) (motl : List (Particle Int)) (rows : List (SgRow Int))
    (h : toSg intOps reset motl = some rows) (i : Nat) (p : Particle Int) (hp : motl[i]? = some p) :
    ∃ r : SgRow Int, rows[i]? = some r ∧
      ((∃ k, p.subtomo_id = 2 * k) → r .halfset = .str "A") ∧
      ((∃ k, p.subtomo_id = 2 * k + 1) → r .halfset = .str "B") := by
  obtain ⟨_, hrows⟩ := export_rows intOps reset motl rows h
  obtain ⟨r, hr, _, hh, _⟩ := hrows i p hp
  refine ⟨r, hr, ?_, ?_⟩
  · rintro ⟨k, hk⟩
    rw [hh]
    have : intOps.modEq p.subtomo_id 2 0 = true := by
      simp only [intOps, beq_iff_eq]; omega
    rw [this]; rfl
  · rintro ⟨k, hk⟩
    rw [hh]
    have : intOps.modEq p.subtomo_id 2 0 = false := by
      simp only [intOps, beq_eq_false_iff_ne]; omega
    rw [this]; rfl

/-- **motl_idx_spec.** `motl_idx` is the subtomogram number, or the 1-based position when a reset
is requested (so it is exactly 1..N in order). (A projection of `export_rows` onto its last conjunct,
kept under the name the statement uses; nothing new is proved here.) -/
theorem motl_idx_spec (ops : NumOps α) (reset : Bool) (motl : List (Particle α)) (rows : List (SgRow α))
    (h : toSg ops reset motl = some rows) (i : Nat) (p : Particle α) (hp : motl[i]? = some p) :
    ∃ r : SgRow α, rows[i]? = some r ∧
      r .motl_idx = .num (if reset then ops.ofNat (i + 1) else p.subtomo_id) := by
  obtain ⟨_, hrows⟩ := export_rows ops reset motl rows h
  obtain ⟨r, hr, _, _, hi⟩ := hrows i p hp
  exact ⟨r, hr, hi⟩

/-- **Omitted keywords.** Calling an entry point without `reset_index` / `update_coord` /
`update_coordinates` is calling it with `False` (the model reads the defaults of the source; the
first three conjuncts hold because of `defaults_documented` and break when a default of the source
changes). The fourth conjunct is no clause of the statement: it only records, by unfolding, that a
given keyword is passed through unchanged (an anchor for the definition of `writeOutOpt`). -/
theorem omitted_keywords [Add α] [Sub α] (ops : NumOps α) (round : α → α) (motl : List (Particle α)) :
    toSgOpt ops none motl = toSg ops false motl ∧
    writeOutOpt ops round none none motl = writeOutTable ops round false false motl ∧
    em2sgOpt ops round none none motl = writeOutTable ops round false false motl ∧
    (∀ u r, writeOutOpt ops round (some u) (some r) motl = writeOutTable ops round u r motl) := by
  refine ⟨rfl, rfl, rfl, fun _ _ => rfl⟩

/-- **halfset_even_odd on IEEE bit patterns.** For subtomogram numbers given as binary64 bit
patterns (what the real DataFrame holds) whose exactly decoded value is the integer `z` — any sign,
any magnitude, in particular beyond 2^53: halfset is `A` when `z` is even and `B` when `z` is odd.
(`intBitOps` is what the driver's checker runs on the real output; no floating-point `mod`.) -/
theorem halfset_even_odd_bits (reset : Bool) (motl : List (Particle Nat)) (rows : List (SgRow Nat))
    (h : toSg intBitOps reset motl = some rows) (i : Nat) (p : Particle Nat) (hp : motl[i]? = some p)
    (z : Int) (hz : decodeInt p.subtomo_id = some z) :
    ∃ r : SgRow Nat, rows[i]? = some r ∧
      ((∃ k, z = 2 * k) → r .halfset = .str "A") ∧
      ((∃ k, z = 2 * k + 1) → r .halfset = .str "B") := by
  obtain ⟨_, hrows⟩ := export_rows intBitOps reset motl rows h
  obtain ⟨r, hr, _, hh, _⟩ := hrows i p hp
  refine ⟨r, hr, ?_, ?_⟩
  · rintro ⟨k, hk⟩
    rw [hh]
    have : intBitOps.modEq p.subtomo_id 2 0 = true := by
      simp only [intBitOps, hz, beq_iff_eq]; omega
    rw [this]; rfl
  · rintro ⟨k, hk⟩
    rw [hh]
    have : intBitOps.modEq p.subtomo_id 2 0 = false := by
      simp only [intBitOps, hz, beq_eq_false_iff_ne]; omega
    rw [this]; rfl

/-- **Exact decoding** (`Lemmas/C04.decodeInt_encodeInt` under the name used in DESIGN; an alias, not a
second proof). The bit pattern of every integer `z` with `|z| < 2^53` (sign bit, exponent =
position of the leading bit, remaining bits as significand — `encodeInt`, cross-checked against the
hardware float by the driver for every number it meets) is decoded to `z` by the checker's
`decodeInt`. -/
theorem decodeInt_exact (z : Int) (hz : z.natAbs < 2 ^ 53) : decodeInt (encodeInt z) = some z :=
  decodeInt_encodeInt z hz

/-- **Parity for integer-valued floats `|x| < 2^53`.** A particle whose subtomogram number is the
float `z` (bit pattern `encodeInt z`), `z` any integer of either sign below 2^53 in magnitude, gets
half-set `A` iff `z` is even and `B` iff `z` is odd — at the representation the real DataFrame
holds and the checker runs on, not only over `Int`.

What this and `halfset_even_odd(_bits)` are NOT: they are theorems about the model instantiated with
`intOps` / `intBitOps` (parity of the exactly decoded integer). The run that is compared with the real
code instantiates the same `toSg` with the driver's `floatOps`, whose `modEq` is floating-point floored
modulo (`pyMod`, the model of `Series.mod(2).eq(0)`); no theorem relates `pyMod` on `Float` to integer
parity (Lean's `Float` is opaque). The link is made at run time only: `intBitOps` is what the verified
checker `checkHalf` runs on the REAL output (`check_parity_sound`), and the driver's `decodeAgrees`
compares `floatOps.modEq x 2 0` with `intBitOps.modEq` for every subtomogram number of every case. -/
theorem halfset_parity_float_ids (reset : Bool) (motl : List (Particle Nat)) (rows : List (SgRow Nat))
    (h : toSg intBitOps reset motl = some rows) (i : Nat) (p : Particle Nat) (hp : motl[i]? = some p)
    (z : Int) (hz : z.natAbs < 2 ^ 53) (hid : p.subtomo_id = encodeInt z) :
    ∃ r : SgRow Nat, rows[i]? = some r ∧ r .halfset = .str (if z % 2 = 0 then "A" else "B") := by
  have hdec : decodeInt p.subtomo_id = some z := by rw [hid]; exact decodeInt_exact z hz
  obtain ⟨r, hr, hA, hB⟩ := halfset_even_odd_bits reset motl rows h i p hp z hdec
  refine ⟨r, hr, ?_⟩
  by_cases h0 : z % 2 = 0
  · rw [if_pos h0]; exact hA ⟨z / 2, by omega⟩
  · rw [if_neg h0]; exact hB ⟨z / 2, by omega⟩

/-! ### the exported DataFrame and the verified checker -/

/-- the property's export clauses for an output table `out` (what `convert_to_sg_motl` must return):
same count and order, and in every row the 14 documented columns, `halfset` and `motl_idx` — looked
up BY NAME — hold what the statement says. The statement does not fix the order of the columns, so
neither does this spec: a lookup that succeeds implies the column is present (the default of the
lookup is a text no clause accepts). That the real header is the documented 16-column one is a
separate fact about the code (`columns_documented`, `model_columns`). -/
def SpecExport (ops : NumOps α) (reset : Bool) (motl : List (Particle α)) (out : SgTable α) : Prop :=
  out.rows.length = motl.length ∧
  ∀ i p cells, motl[i]? = some p → out.rows[i]? = some cells →
    (∀ es ∈ docPairs, rowOfCells (.str "") out.cols cells es.2 = .num (p.get es.1)) ∧
    rowOfCells (.str "") out.cols cells .halfset = .str (if ops.modEq p.subtomo_id 2 0 then "A" else "B") ∧
    rowOfCells (.str "") out.cols cells .motl_idx = .num (if reset then ops.ofNat (i + 1) else p.subtomo_id)

/-- the table the model returns carries the documented header, in the documented order -/
theorem model_columns (ops : NumOps α) (reset : Bool) (motl : List (Particle α)) (t : SgTable α)
    (h : exportTable ops reset motl = some t) : t.cols = SgField.all := by
  unfold exportTable at h
  cases hrows : toSg ops reset motl with
  | none => simp [hrows] at h
  | some rows =>
    simp only [hrows, Option.map_some, Option.some.injEq] at h
    subst h
    exact columns_documented

/-- **model_spec.** The table the model returns satisfies every export clause. -/
theorem model_spec (ops : NumOps α) (reset : Bool) (motl : List (Particle α)) (t : SgTable α)
    (h : exportTable ops reset motl = some t) : SpecExport ops reset motl t := by
  unfold exportTable at h
  cases hrows : toSg ops reset motl with
  | none => simp [hrows] at h
  | some rows =>
    simp only [hrows, Option.map_some, Option.some.injEq] at h
    subst h
    obtain ⟨hlen, hr⟩ := export_rows ops reset motl rows hrows
    refine ⟨by simpa using hlen, ?_⟩
    intro i p cells hp hc
    obtain ⟨r, hri, h1, h2, h3⟩ := hr i p hp
    simp only [List.getElem?_map, hri, Option.map_some, Option.some.injEq] at hc
    subst hc
    simp only [columns_documented]
    refine ⟨?_, ?_, ?_⟩
    · intro es hes; rw [rowOfCells_map _ _ _ _ (SgField.mem_all _)]; exact h1 es hes
    · rw [rowOfCells_map _ _ _ _ (SgField.mem_all _)]; exact h2
    · rw [rowOfCells_map _ _ _ _ (SgField.mem_all _)]; exact h3

/-- **check_sound.** If the three checkers the driver runs on the implementation's output accept, the
output satisfies every export clause (for a header in ANY order: the driver's fourth answer,
`cols = SgField.all`, is about the documented header and is reported as a model disagreement only). -/
theorem check_sound [DecidableEq α] (ops : NumOps α) (reset : Bool) (motl : List (Particle α)) (out : SgTable α)
    (hf : checkFields motl out = true) (hh : checkHalf ops motl out = true)
    (hi : checkIdx ops reset motl out = true) : SpecExport ops reset motl out := by
  simp only [checkFields, checkHalf, checkIdx, checkRows_iff] at hf hh hi
  refine ⟨hf.1.symm, ?_⟩
  intro i p cells hp hcells
  refine ⟨?_, ?_, ?_⟩
  · have := hf.2 i p cells hp hcells
    simp only [fieldsOk, List.all_eq_true, beq_iff_eq] at this
    exact this
  · have := hh.2 i p cells hp hcells
    simpa only [halfOk, beq_iff_eq] using this
  · have := hi.2 i p cells hp hcells
    simpa only [idxOk, beq_iff_eq, Nat.zero_add] using this

/-- the checker is also complete: it accepts every output that satisfies the clauses -/
theorem check_complete [DecidableEq α] (ops : NumOps α) (reset : Bool) (motl : List (Particle α)) (out : SgTable α)
    (h : SpecExport ops reset motl out) :
    checkFields motl out = true ∧ checkHalf ops motl out = true ∧ checkIdx ops reset motl out = true := by
  obtain ⟨hl, hr⟩ := h
  simp only [checkFields, checkHalf, checkIdx, checkRows_iff]
  refine ⟨⟨hl.symm, ?_⟩, ⟨hl.symm, ?_⟩, ⟨hl.symm, ?_⟩⟩
  · intro j p c hp hc
    simp only [fieldsOk, List.all_eq_true, beq_iff_eq]
    exact (hr j p c hp hc).1
  · intro j p c hp hc
    simp only [halfOk, beq_iff_eq]; exact (hr j p c hp hc).2.1
  · intro j p c hp hc
    simp only [idxOk, beq_iff_eq, Nat.zero_add]; exact (hr j p c hp hc).2.2

/-- **check_parity_sound.** When the half-set checker the driver runs (`intBitOps`) accepts the real
output, every row whose subtomogram number decodes to an integer `z` carries `A` iff `z` is even and
`B` iff `z` is odd; a number that is no integer (neither even nor odd) must carry `B`, as
`mod(2).eq(0)` is false for it. -/
theorem check_parity_sound (motl : List (Particle Nat)) (out : SgTable Nat)
    (hh : checkHalf intBitOps motl out = true) (i : Nat) (p : Particle Nat) (cells : List (Cell Nat))
    (hp : motl[i]? = some p) (hc : out.rows[i]? = some cells) :
    (∀ z, decodeInt p.subtomo_id = some z →
      rowOfCells (.str "") out.cols cells .halfset = .str (if z % 2 = 0 then "A" else "B")) ∧
    (decodeInt p.subtomo_id = none → rowOfCells (.str "") out.cols cells .halfset = .str "B") := by
  simp only [checkHalf, checkRows_iff] at hh
  have := hh.2 i p cells hp hc
  simp only [halfOk, beq_iff_eq] at this
  refine ⟨?_, ?_⟩
  · intro z hz
    rw [this]
    simp only [intBitOps, hz]
    by_cases h0 : z % 2 = 0 <;> simp [h0]
  · intro hz
    rw [this]
    simp [intBitOps, hz]

/-- the bit patterns of 1, 2, 3, … the checker compares a reset `motl_idx` with (`encodeNat`) decode
to those integers — checked here on the first values and at run time against the hardware float for
every row count used -/
theorem encodeNat_examples :
    (List.range 64).all (fun n => decodeInt (encodeNat n) == some (n : Int)) = true ∧
    encodeNat 1 = 0x3FF0000000000000 ∧ encodeNat 300 = 0x4072C00000000000 ∧
    decodeInt 0x4340000000000001 = some 9007199254740994 ∧ decodeInt 0xC01C000000000000 = some (-7) ∧
    decodeInt 0x4004000000000000 = none := by decide +kernel

/-! ### import: `convert_to_motl` -/

/-- what makes a STOPGAP table importable: the 14 documented columns exist (else pandas raises
`KeyError`), it is a DataFrame (one cell per header entry in every row) and the 14 columns hold
numbers (the property's quantifier; a text cell there is rejected by the model, never read as `d`) -/
def Importable (t : SgTable α) : Prop :=
  (∀ es ∈ docPairs, es.2 ∈ t.cols) ∧ (∀ cells ∈ t.rows, cells.length = t.cols.length) ∧
  ∀ cells ∈ t.rows, ∀ es ∈ docPairs, ∃ v, rowOfCells (.str "") t.cols cells es.2 = .num v

/-- the import is accepted iff the table is importable -/
theorem importTable_isSome_iff (d : α) (t : SgTable α) :
    (importTable d t).isSome = true ↔ Importable t := by
  have key : (sgPairs.all (fun es => t.cols.contains es.2) && t.rect && t.numericIn d sgPairs) = true ↔ Importable t := by
    simp only [pairs_documented, SgTable.rect, SgTable.numericIn, Bool.and_eq_true, List.all_eq_true,
      List.contains_iff_mem, beq_iff_eq, Cell.isNum_iff, Importable]
    constructor
    · rintro ⟨⟨h1, h2⟩, h3⟩
      refine ⟨h1, h2, ?_⟩
      intro cells hc es hes
      rw [rowOfCells_default _ (.num d) _ _ _ (h1 es hes) (h2 cells hc)]
      exact h3 cells hc es hes
    · rintro ⟨h1, h2, h3⟩
      refine ⟨⟨h1, h2⟩, ?_⟩
      intro cells hc es hes
      rw [rowOfCells_default _ (.str "") _ _ _ (h1 es hes) (h2 cells hc)]
      exact h3 cells hc es hes
  unfold importTable
  split
  · rename_i h; simpa using key.1 h
  · rename_i h
    simp only [Option.isSome_none, Bool.false_eq_true, false_iff]
    exact fun hi => h (key.2 hi)

theorem importTable_eq_some (d : α) (t : SgTable α) (h : Importable t) :
    importTable d t = some (t.rows.map (fun cells => importRow d (rowOfCells (.num d) t.cols cells))) := by
  have := (importTable_isSome_iff d t).2 h
  unfold importTable at this ⊢
  split
  · rfl
  · rename_i h'; rw [if_neg h'] at this; cases this

/-- **Import, for every STOPGAP table in ANY column order, any N, arbitrary numeric cells.**
Particle `i` is made from row `i` (same order, same count) and each of its 14 shared fields is the
number found under the documented column *name* (no fill value is involved: the cell *is* `.num` of
the field). -/
theorem import_rows (d : α) (t : SgTable α) (ps : List (Particle α)) (h : importTable d t = some ps) :
    ps.length = t.rows.length ∧
    ∀ (i : Nat) cells, t.rows[i]? = some cells → ∃ p : Particle α, ps[i]? = some p ∧
      (∀ es ∈ docPairs, rowOfCells (.str "") t.cols cells es.2 = .num (p.get es.1)) ∧
      ∀ es ∈ docPairs, p.get es.1 = (rowOfCells (.num d) t.cols cells es.2).toNum d := by
  have himp : Importable t := (importTable_isSome_iff d t).1 (by rw [h]; rfl)
  rw [importTable_eq_some d t himp, Option.some.injEq] at h
  subst h
  refine ⟨by simp, ?_⟩
  intro i cells hc
  refine ⟨importRow d (rowOfCells (.num d) t.cols cells), by simp [hc], ?_, ?_⟩
  · intro es hes
    have hmem : cells ∈ t.rows := List.mem_of_getElem? hc
    obtain ⟨v, hv⟩ := himp.2.2 cells hmem es hes
    rw [hv]
    simp only [importRow, pairs_documented]
    rw [importFold_get d docPairs (by decide) _ _ es.1 es.2 hes,
      rowOfCells_default _ (.str "") _ _ _ (himp.1 es hes) (himp.2.1 cells hmem), hv]
    rfl
  · intro es hes
    simp only [importRow, pairs_documented]
    exact importFold_get d docPairs (by decide) _ _ es.1 es.2 hes

/-- a text cell in one of the 14 columns is rejected (never read as the fill value) -/
theorem import_rejects_text (d : α) (t : SgTable α) (cells : List (Cell α)) (hc : cells ∈ t.rows)
    (es : Field × SgField) (hes : es ∈ docPairs) (s : String)
    (hs : rowOfCells (.str "") t.cols cells es.2 = .str s) : importTable d t = none := by
  cases h : importTable d t with
  | none => rfl
  | some ps =>
    have himp : Importable t := (importTable_isSome_iff d t).1 (by rw [h]; rfl)
    obtain ⟨v, hv⟩ := himp.2.2 cells hc es hes
    rw [hs] at hv; cases hv

/-- the property's import clause for a particle list `out` made from the STOPGAP table `t`: same
count and order, and each of the 14 shared fields of particle `i` is the number found under the
documented column NAME in row `i` (whatever the order of the columns) -/
def SpecImport (t : SgTable α) (out : List (Particle α)) : Prop :=
  out.length = t.rows.length ∧
  ∀ (i : Nat) (p : Particle α) (cells : List (Cell α)), out[i]? = some p → t.rows[i]? = some cells →
    ∀ es ∈ docPairs, rowOfCells (.str "") t.cols cells es.2 = .num (p.get es.1)

/-- the import checker the driver runs on the list the real `StopgapMotl(sg_df)` / `stopgap2emmotl(sg_df)`
returned accepts exactly the lists that satisfy the import clause -/
theorem checkImport_iff [DecidableEq α] (t : SgTable α) (out : List (Particle α)) :
    checkImport t out = true ↔ SpecImport t out := by
  simp only [checkImport, checkRows_iff, importOk, List.all_eq_true, beq_iff_eq, SpecImport]

/-- **checkImport_sound.** When the driver's import checker accepts, the imported list satisfies the
import clause of the property (this is what stands behind the finding `import-fields-copied(lean-checker)`) -/
theorem checkImport_sound [DecidableEq α] (t : SgTable α) (out : List (Particle α))
    (h : checkImport t out = true) : SpecImport t out := (checkImport_iff t out).1 h

/-- **checkImport_complete.** The import checker accepts every list that satisfies the clause: a
rejection is a violated clause, never an artefact of the checker -/
theorem checkImport_complete [DecidableEq α] (t : SgTable α) (out : List (Particle α))
    (h : SpecImport t out) : checkImport t out = true := (checkImport_iff t out).2 h

/-- the model's import satisfies the import clause (so the checker accepts the model's own output) -/
theorem import_meets_spec (d : α) (t : SgTable α) (ps : List (Particle α)) (h : importTable d t = some ps) :
    SpecImport t ps := by
  obtain ⟨hl, hr⟩ := import_rows d t ps h
  refine ⟨hl, ?_⟩
  intro i p cells hp hc
  obtain ⟨p', hp', h1, _⟩ := hr i cells hc
  rw [hp] at hp'
  cases hp'
  exact h1

/-- the six cryoCAT fields STOPGAP does not have are left at the fill value -/
theorem import_other_fields (d : α) (r : SgRow α) (f : Field) (hf : f ∉ sharedFields) :
    (importRow d r).get f = d := by
  simp only [importRow, pairs_documented]
  rw [importFold_other _ _ _ _ _ hf, Particle.get_ofFn]

/-- a particle restricted to the 14 shared fields (the rest at the fill value) -/
def restrict (d : β) (q : α → β) (p : Particle α) : Particle β :=
  Particle.ofFn (fun f => if f ∈ sharedFields then q (p.get f) else d)

/-- import of one exported row gives back the 14 shared fields -/
theorem importRow_exportRow (d : α) (p : Particle α) (r : SgRow α)
    (hr : ∀ es ∈ docPairs, r es.2 = .num (p.get es.1)) : importRow d r = restrict d id p := by
  apply Particle.ext_get
  intro f
  rw [restrict, Particle.get_ofFn]
  by_cases hf : f ∈ sharedFields
  · rw [if_pos hf]
    obtain ⟨es, hes, rfl⟩ := List.mem_map.1 hf
    simp only [importRow, pairs_documented]
    rw [importFold_get d docPairs (by decide) _ _ es.1 es.2 hes, hr es hes]
    rfl
  · rw [if_neg hf]; exact import_other_fields d r f hf

/-- every row of the DataFrame `convert_to_sg_motl` returns has one cell per header entry -/
theorem exportTable_rect (ops : NumOps α) (reset : Bool) (motl : List (Particle α)) (t : SgTable α)
    (h : exportTable ops reset motl = some t) : ∀ cells ∈ t.rows, cells.length = t.cols.length := by
  unfold exportTable at h
  cases hrows : toSg ops reset motl with
  | none => simp [hrows] at h
  | some rows =>
    simp only [hrows, Option.map_some, Option.some.injEq] at h
    subst h
    intro cells hc
    obtain ⟨r, _, rfl⟩ := List.mem_map.1 hc
    simp

/-- a rectangular table that has the 14 documented columns and satisfies the export clauses can be
imported again (the header may be in any order and may hold further columns) -/
theorem specExport_importable (ops : NumOps α) (reset : Bool) (motl : List (Particle α)) (out : SgTable α)
    (h : SpecExport ops reset motl out) (hcols : ∀ es ∈ docPairs, es.2 ∈ out.cols)
    (hrect : ∀ cells ∈ out.rows, cells.length = out.cols.length) :
    Importable out := by
  obtain ⟨hl, hr⟩ := h
  refine ⟨hcols, hrect, ?_⟩
  intro cells hcells es hes
  obtain ⟨i, hi, hget⟩ := List.getElem_of_mem hcells
  have hi' : i < motl.length := by omega
  exact ⟨_, (hr i motl[i] cells (by simp [hi']) (by simp [hi, hget])).1 es hes⟩

/-- **fromSg_toSg (in memory).** Exporting any particle list and importing the result gives the
same particles in the same order with all 14 shared fields unchanged (both `reset_index` values). -/
theorem fromSg_toSg (ops : NumOps α) (d : α) (reset : Bool) (motl : List (Particle α)) (t : SgTable α)
    (h : exportTable ops reset motl = some t) :
    importTable d t = some (motl.map (restrict d id)) := by
  have hspec := model_spec ops reset motl t h
  have hc := model_columns ops reset motl t h
  have himp := specExport_importable ops reset motl t hspec (fun es _ => by rw [hc]; exact SgField.mem_all _)
    (exportTable_rect ops reset motl t h)
  rw [importTable_eq_some d t himp, Option.some.injEq]
  obtain ⟨hl, hr⟩ := hspec
  apply List.ext_getElem?
  intro i
  simp only [List.getElem?_map]
  cases hp : motl[i]? with
  | none =>
    have : t.rows[i]? = none := by
      rw [List.getElem?_eq_none_iff] at hp ⊢; omega
    simp [this]
  | some p =>
    have hi : i < t.rows.length := by
      have := (List.getElem?_eq_some_iff.1 hp).1; omega
    have hcells : t.rows[i]? = some t.rows[i] := by simp [hi]
    have hmem : t.rows[i] ∈ t.rows := List.getElem_mem hi
    simp only [hcells, Option.map_some, Option.some.injEq]
    apply importRow_exportRow d p
    intro es hes
    rw [rowOfCells_default _ (.str "") _ _ _ (himp.1 es hes) (himp.2.1 _ hmem)]
    exact (hr i p t.rows[i] hp hcells).1 es hes

/-- **toSg_fromSg.** Importing any STOPGAP row and exporting it again reproduces its 14 numeric
columns (the conversion loses nothing in either direction). -/
theorem toSg_fromSg (ops : NumOps α) (d : α) (r : SgRow α) (es : Field × SgField) (hes : es ∈ docPairs)
    (v : α) (hv : r es.2 = .num v) : exportRow ops (importRow d r) es.2 = .num v := by
  rw [exportRow_field ops _ es.1 es.2 hes]
  simp only [importRow, pairs_documented]
  rw [importFold_get d docPairs (by decide) _ _ es.1 es.2 hes, hv]
  rfl

/-! ### `update_coord=True`: the list is re-centred first, then converted -/

/-- `update_coordinates` keeps the complete position `x + shift_x` (same for y, z) — in EXACT
arithmetic (`AddCommGroup`: ℤ, ℚ, ℝ). `Float` is no such group: for binary64 the sum is preserved up
to the one rounding of `x + shift_x` (the subtraction of the integer is exact), which the harness
checks on every case with a slack of one ulp of the sum (validated, not proved). -/
theorem updateCoord_position [AddCommGroup α] (round : α → α) (p : Particle α) :
    (updateCoord round p).x + (updateCoord round p).shift_x = p.x + p.shift_x ∧
    (updateCoord round p).y + (updateCoord round p).shift_y = p.y + p.shift_y ∧
    (updateCoord round p).z + (updateCoord round p).shift_z = p.z + p.shift_z := by
  refine ⟨?_, ?_, ?_⟩ <;> simp [updateCoord]

/-- `update_coordinates` leaves the other 8 shared fields (and every non-position field) alone -/
theorem updateCoord_other [Add α] [Sub α] (round : α → α) (p : Particle α) (f : Field)
    (hf : f ∉ [Field.x, .y, .z, .shift_x, .shift_y, .shift_z]) :
    (updateCoord round p).get f = p.get f := by
  cases f <;> first | rfl | (exfalso; revert hf; decide)

/-- **Export with `update_coord=True`.** The written row holds the re-centred particle: `round` of the
complete position in `orig_x`, the remainder in `x_shift` (for ANY `round`; that the first is an
integer and the second within 1/2 needs `round` to be a rounding to nearest: `updateCoord_recentred`),
and the fields that are no position or shift are those of the input. -/
theorem export_update_coord [Add α] [Sub α] (ops : NumOps α) (round : α → α) (p : Particle α) :
    exportRow ops (updateCoord round p) .orig_x = .num (round (p.x + p.shift_x)) ∧
    exportRow ops (updateCoord round p) .x_shift = .num (p.x + p.shift_x - round (p.x + p.shift_x)) ∧
    (∀ es ∈ docPairs, es.1 ∉ [Field.x, .y, .z, .shift_x, .shift_y, .shift_z] →
      exportRow ops (updateCoord round p) es.2 = .num (p.get es.1)) := by
  refine ⟨exportRow_field ops _ .x .orig_x (by decide), exportRow_field ops _ .shift_x .x_shift (by decide), ?_⟩
  intro es hes hf
  rw [exportRow_field ops _ es.1 es.2 hes, updateCoord_other round p es.1 hf]

/-- **`update_coord=True` with a rounding to a nearest integer** (any ordered field; the hypothesis is
the specification of the rounding, proved for the exact rule in `updateCoord_rat`): on each axis the
new coordinate is an integer and the new shift lies in `[-1/2, 1/2]`. The rounding RULE is the
subject of C05; C04 needs only this much of it. -/
theorem updateCoord_recentred {α : Type} [_root_.Field α] [LinearOrder α] [IsStrictOrderedRing α]
    {r : α → α} (hr : RoundsToNearest r) (p : Particle α) :
    ((∃ z : ℤ, (updateCoord r p).x = (z : α)) ∧ |(updateCoord r p).shift_x| ≤ 1 / 2) ∧
    ((∃ z : ℤ, (updateCoord r p).y = (z : α)) ∧ |(updateCoord r p).shift_y| ≤ 1 / 2) ∧
    ((∃ z : ℤ, (updateCoord r p).z = (z : α)) ∧ |(updateCoord r p).shift_z| ≤ 1 / 2) :=
  ⟨⟨(hr _).1, (hr _).2⟩, ⟨(hr _).1, (hr _).2⟩, ⟨(hr _).1, (hr _).2⟩⟩

/-- **`update_coord=True` over the rationals with the exact ROUND_HALF_UP rule** (`ratRoundAway`:
what `Decimal(v).to_integral_value(ROUND_HALF_UP)` computes on the exact value of a float): integer
coordinates, shifts within 1/2, complete positions preserved — no hypothesis left. -/
theorem updateCoord_rat (p : Particle ℚ) :
    (((∃ z : ℤ, (updateCoord ratRoundAway p).x = (z : ℚ)) ∧ |(updateCoord ratRoundAway p).shift_x| ≤ 1 / 2) ∧
     ((∃ z : ℤ, (updateCoord ratRoundAway p).y = (z : ℚ)) ∧ |(updateCoord ratRoundAway p).shift_y| ≤ 1 / 2) ∧
     ((∃ z : ℤ, (updateCoord ratRoundAway p).z = (z : ℚ)) ∧ |(updateCoord ratRoundAway p).shift_z| ≤ 1 / 2)) ∧
    ((updateCoord ratRoundAway p).x + (updateCoord ratRoundAway p).shift_x = p.x + p.shift_x ∧
     (updateCoord ratRoundAway p).y + (updateCoord ratRoundAway p).shift_y = p.y + p.shift_y ∧
     (updateCoord ratRoundAway p).z + (updateCoord ratRoundAway p).shift_z = p.z + p.shift_z) :=
  ⟨updateCoord_recentred ratRoundAway_nearest p, updateCoord_position ratRoundAway p⟩

/-- an exact NEGATIVE half goes away from zero: a position `x + shift_x = -(k + 1/2)` becomes the
coordinate `-(k + 1)` with the shift `+1/2` (and `k + 1/2` becomes `k + 1` with the shift `-1/2`) -/
theorem updateCoord_rat_ties (p : Particle ℚ) (k : ℕ) :
    (p.x + p.shift_x = -((k : ℚ) + 1 / 2) →
      (updateCoord ratRoundAway p).x = -((k : ℚ) + 1) ∧ (updateCoord ratRoundAway p).shift_x = 1 / 2) ∧
    (p.x + p.shift_x = (k : ℚ) + 1 / 2 →
      (updateCoord ratRoundAway p).x = (k : ℚ) + 1 ∧ (updateCoord ratRoundAway p).shift_x = -(1 / 2)) := by
  constructor
  · intro h
    have hx : (updateCoord ratRoundAway p).x = -((k : ℚ) + 1) := by
      show ratRoundAway (p.x + p.shift_x) = _
      rw [h]; exact (ratRoundAway_ties k).2
    refine ⟨hx, ?_⟩
    show p.x + p.shift_x - ratRoundAway (p.x + p.shift_x) = 1 / 2
    have : ratRoundAway (p.x + p.shift_x) = -((k : ℚ) + 1) := hx
    rw [this, h]; ring
  · intro h
    have hx : (updateCoord ratRoundAway p).x = (k : ℚ) + 1 := by
      show ratRoundAway (p.x + p.shift_x) = _
      rw [h]; exact (ratRoundAway_ties k).1
    refine ⟨hx, ?_⟩
    show p.x + p.shift_x - ratRoundAway (p.x + p.shift_x) = -(1 / 2)
    have : ratRoundAway (p.x + p.shift_x) = (k : ℚ) + 1 := hx
    rw [this, h]; ring

/-- **write_out.** What `write_out(path, update_coord, reset_index)` hands to the STAR writer satisfies
every export clause with respect to the list the object holds afterwards (re-centred iff asked).
(`model_spec` at that list, under the name of the entry point: `writeOutTable` IS `exportTable` of the
possibly re-centred list; no separate proof.) -/
theorem write_out_spec [Add α] [Sub α] (ops : NumOps α) (round : α → α) (update reset : Bool)
    (motl : List (Particle α)) (t : SgTable α) (h : writeOutTable ops round update reset motl = some t) :
    SpecExport ops reset (if update then motl.map (updateCoord round) else motl) t :=
  model_spec ops reset _ t h

/-- **The wrapper `Motl.write_out(path, "stopgap")`** (what `sta.py` / `tmana.py` call; tied to the
source by `wrappers_documented`): no keyword reaches `StopgapMotl.write_out`, so the table handed to
the STAR writer satisfies every export clause for the list AS GIVEN (no re-centring) with
`motl_idx` = subtomogram number (no reset), under the documented header. -/
theorem motlWriteOut_spec [Add α] [Sub α] (ops : NumOps α) (round : α → α) (motl : List (Particle α))
    (t : SgTable α) (h : motlWriteOut ops round motl = some t) :
    SpecExport ops false motl t ∧ t.cols = SgField.all := by
  rw [motlWriteOut, (omitted_keywords ops round motl).2.1] at h
  exact ⟨by simpa using write_out_spec ops round false false motl t h, model_columns ops false motl t h⟩

/-! ### via file: the STAR layer (C02) under `write_out` / `read_in`

`via_file` is stated for an abstract STAR layer that round-trips well-formed tables under the one
block name cryoCAT uses (`StarRoundTripAt`); `star_layer_roundtrip` *proves* that hypothesis for the
concrete layer `starWrite` / `starRead` of `Model/C04_Star.lean` — C02's model of `Starfile.write` /
`Starfile.read` (tokenizer, parser, per-column numeric typing, STOPGAP header variant) — from
`C02.typed_roundtrip`, and `via_file_c02` is `via_file` with the hypothesis discharged.

What these theorems DO say: the same particles come back, in the same order, and each of the 14
shared fields is `q` of the field that was written, where `q v = parse (C02.cellText (ren v))` is
print-then-parse of ONE value — no field is moved, mixed with another, dropped or taken from another
particle. What they do NOT say: anything about `q` itself. `ren` (value ↦ printed digits: pandas
`round(6)` + Python `repr`) and `parse` (digits ↦ value: `pandas.to_numeric`) are arbitrary parameters,
so the clause "reproduces all 14 fields TO STAR PRECISION" of the statement has no theorem: that `q` is
the identity up to 5e-7 is the harness tolerance (5e-7 + 16 ulp on every written file and reload),
validated on every run, not proved.

Hypothesis on the printer: the numbers that occur IN THE TABLE WRITTEN must be printed as well-formed
number cells (`via_file_c02_cells`; `via_file_c02` asks it of every value of the type, which is
convenient for `Int` / `Dec` but cannot hold for a faithful printer of floats: `repr(nan) = "nan"` is
not a number token for the reader). So the theorems speak about tables without NaN. The real
`write_out` calls `fillna(0)` on the table before writing — that line is inside the pinned body
(`digest_StopgapMotl_write_out_documented`) and executed by every run, but it is NOT in the model
`writeOutTable` (for the finite values of the quantifier it is the identity). -/

def SgTable.mapCells (q : α → β) (t : SgTable α) : SgTable β :=
  { cols := t.cols, rows := t.rows.map (fun r => r.map (Cell.map q)) }

/-- converting the numbers of an importable table cell by cell keeps it importable -/
theorem importable_mapCells (q : α → β) (t : SgTable α) (h : Importable t) : Importable (t.mapCells q) := by
  obtain ⟨h1, h2, h3⟩ := h
  refine ⟨h1, ?_, ?_⟩
  · intro cells hc
    obtain ⟨c0, hc0, rfl⟩ := List.mem_map.1 hc
    simpa [SgTable.mapCells] using h2 c0 hc0
  · intro cells hc es hes
    obtain ⟨c0, hc0, rfl⟩ := List.mem_map.1 hc
    obtain ⟨v, hv⟩ := h3 c0 hc0 es hes
    refine ⟨q v, ?_⟩
    have := rowOfCells_map_cells q (Cell.str "" : Cell α) t.cols c0 es.2
    simp only [Cell.map] at this
    simp only [SgTable.mapCells]
    rw [this, hv]

/-- tables the STAR layer is asked to carry here: a duplicate-free, non-empty header, at least one
row, every row as long as the header, text cells taken from `words`, and homogeneous columns: in
every row exactly the `halfset` cell is a text, all other cells are numbers. (The reader types a
column as numeric iff *all* its cells are number tokens; a column mixing numbers and texts would come
back as text, so without homogeneity no reader of this kind could return the table.) -/
def StarWF (words : List String) (t : SgTable α) : Prop :=
  t.cols.Nodup ∧ t.rows ≠ [] ∧ (∀ r ∈ t.rows, r.length = t.cols.length) ∧
  (∀ r ∈ t.rows, ∀ s, Cell.str s ∈ r → s ∈ words) ∧
  t.cols ≠ [] ∧ ∀ r ∈ t.rows, r.map Cell.isNum = t.cols.map (fun f => f != SgField.halfset)

/-- the property of a STAR layer `via_file` needs, for ONE block name `spec`: writing a well-formed
table under that name and reading it back under that name gives the same header and rows, each
number passed through `q`, text cells unchanged. `q` is ANY function here; for the concrete layer it is
print-then-parse (`star_layer_roundtrip`). That `q` is "rounding to the writer's 6 decimals" is not
part of this definition or of any theorem: the value clause is the harness tolerance 5e-7 + 16 ulp. -/
def StarRoundTripAt {F : Type} (words : List String) (q : α → β) (spec : String)
    (write : String → SgTable α → F) (read : String → F → Option (SgTable β)) : Prop :=
  ∀ t : SgTable α, StarWF words t → read spec (write spec t) = some (t.mapCells q)

/-- the same for every block name (stronger than what `via_file` needs; the concrete layer does not
have it: a block name must be a STAR word) -/
def StarRoundTrip {F : Type} (words : List String) (q : α → β)
    (write : String → SgTable α → F) (read : String → F → Option (SgTable β)) : Prop :=
  ∀ spec : String, StarRoundTripAt words q spec write read

/-- what `convert_to_sg_motl` returns is a table the STAR layer accepts (N ≥ 1) -/
theorem exportTable_starWF (ops : NumOps α) (reset : Bool) (motl : List (Particle α)) (t : SgTable α)
    (h : exportTable ops reset motl = some t) (hN : motl ≠ []) : StarWF ["A", "B"] t := by
  unfold exportTable at h
  cases hrows : toSg ops reset motl with
  | none => simp [hrows] at h
  | some rows =>
    simp only [hrows, Option.map_some, Option.some.injEq] at h
    subst h
    obtain ⟨hlen, hrr⟩ := export_rows ops reset motl rows hrows
    -- every exported row: a text from `A`/`B` under `halfset`, a number everywhere else
    have hcell : ∀ r0 ∈ rows, (∃ s ∈ ["A", "B"], r0 SgField.halfset = Cell.str s) ∧
        ∀ c, c ≠ SgField.halfset → ∃ v, r0 c = Cell.num v := by
      intro r0 hr0
      obtain ⟨i, hi, hget⟩ := List.getElem_of_mem hr0
      have hi' : i < motl.length := by omega
      obtain ⟨r, hri, h1, h2, h3⟩ := hrr i motl[i] (by simp [hi'])
      have : r = r0 := by
        have : rows[i]? = some r0 := by simp [hi, hget]
        rw [this] at hri; exact (Option.some.inj hri).symm
      subst this
      refine ⟨?_, ?_⟩
      · rw [h2]
        by_cases hb : ops.modEq motl[i].subtomo_id 2 0 = true <;> simp [hb]
      · intro c hc
        have hcase : c = .halfset ∨ c = .motl_idx ∨ c ∈ docPairs.map Prod.snd := by
          cases c <;> decide
        rcases hcase with rfl | rfl | hc3
        · exact absurd rfl hc
        · exact ⟨_, h3⟩
        · obtain ⟨es, hes, rfl⟩ := List.mem_map.1 hc3
          exact ⟨_, h1 es hes⟩
    refine ⟨by simp only [columns_documented]; decide, ?_, ?_, ?_, by simp only [columns_documented]; decide, ?_⟩
    · intro h0
      simp only [List.map_eq_nil_iff] at h0
      subst h0
      simp at hlen
      exact hN (List.eq_nil_of_length_eq_zero hlen.symm)
    · intro r hr'; obtain ⟨r0, _, rfl⟩ := List.mem_map.1 hr'; simp
    · intro cells hcells s hmem
      obtain ⟨r0, hr0, rfl⟩ := List.mem_map.1 hcells
      obtain ⟨c, _, hcs⟩ := List.mem_map.1 hmem
      by_cases hc : c = .halfset
      · subst hc
        obtain ⟨s', hs', he⟩ := (hcell r0 hr0).1
        rw [he] at hcs; cases hcs; exact hs'
      · obtain ⟨v, hv⟩ := (hcell r0 hr0).2 c hc
        rw [hv] at hcs; cases hcs
    · intro cells hcells
      obtain ⟨r0, hr0, rfl⟩ := List.mem_map.1 hcells
      rw [List.map_map]
      apply List.map_congr_left
      intro c _
      by_cases hc : c = .halfset
      · subst hc
        obtain ⟨s', _, he⟩ := (hcell r0 hr0).1
        simp [he, Cell.isNum]
      · obtain ⟨v, hv⟩ := (hcell r0 hr0).2 c hc
        simp [hv, Cell.isNum, hc]

/-- **via_file_at.** `via_file` with the round trip of the STAR layer asked only for THE table that is
written (`t`), not for every well-formed table. -/
theorem via_file_at {F : Type} [Add α] [Sub α] (q : α → β) (write : String → SgTable α → F)
    (read : String → F → Option (SgTable β))
    (ops : NumOps α) (round : α → α) (update reset : Bool) (d : β) (motl : List (Particle α)) (hN : motl ≠ [])
    (t : SgTable α) (h : writeOutTable ops round update reset motl = some t)
    (hstar : StarWF ["A", "B"] t →
      read Gen.C04.writeSpecifier (write Gen.C04.writeSpecifier t) = some (t.mapCells q)) :
    (read Gen.C04.readSpecifier (write Gen.C04.writeSpecifier t)).bind (importTable d)
      = some ((if update then motl.map (updateCoord round) else motl).map (restrict d q)) := by
  rw [star_block.2.1]
  unfold writeOutTable at h
  generalize hm : (if update then motl.map (updateCoord round) else motl) = m at h ⊢
  have hmN : m ≠ [] := by
    subst hm; cases update <;> simpa using hN
  rw [hstar (exportTable_starWF ops reset m t h hmN)]
  simp only [Option.bind_some]
  obtain ⟨hl, hr⟩ := model_spec ops reset m t h
  have hc := model_columns ops reset m t h
  have himp := importable_mapCells q t
    (specExport_importable ops reset m t ⟨hl, hr⟩ (fun es _ => by rw [hc]; exact SgField.mem_all _)
      (exportTable_rect ops reset m t h))
  rw [importTable_eq_some d _ himp, Option.some.injEq]
  apply List.ext_getElem?
  intro i
  simp only [SgTable.mapCells, List.getElem?_map]
  cases hp : m[i]? with
  | none =>
    have : t.rows[i]? = none := by
      rw [List.getElem?_eq_none_iff] at hp ⊢; omega
    simp [this]
  | some p =>
    have hi : i < t.rows.length := by
      have := (List.getElem?_eq_some_iff.1 hp).1; omega
    have hcells : t.rows[i]? = some t.rows[i] := by simp [hi]
    obtain ⟨h1, _, _⟩ := hr i p t.rows[i] hp hcells
    simp only [hcells, Option.map_some, Option.some.injEq]
    apply Particle.ext_get
    intro f
    rw [restrict, Particle.get_ofFn]
    by_cases hf : f ∈ sharedFields
    · rw [if_pos hf]
      obtain ⟨es, hes, rfl⟩ := List.mem_map.1 hf
      simp only [importRow, pairs_documented]
      rw [importFold_get d docPairs (by decide) _ _ es.1 es.2 hes]
      have h2 := h1 es hes
      have hlook : rowOfCells (.num d) t.cols (t.rows[i].map (Cell.map q)) es.2 = .num (q (p.get es.1)) := by
        have hmem : es.2 ∈ t.cols := by rw [hc]; exact SgField.mem_all _
        -- the lookup finds the column, so the default does not matter
        have e1 : rowOfCells (Cell.str "" : Cell β) t.cols (t.rows[i].map (Cell.map q)) es.2 = .num (q (p.get es.1)) := by
          have := rowOfCells_map_cells q (Cell.str "" : Cell α) t.cols t.rows[i] es.2
          simp only [Cell.map] at this
          rw [this, h2]
        unfold rowOfCells at e1 ⊢
        cases hl' : List.lookup es.2 (t.cols.zip (t.rows[i].map (Cell.map q))) with
        | none => rw [hl'] at e1; simp at e1
        | some c => rw [hl'] at e1; simpa using e1
      rw [hlook]; rfl
    · rw [if_neg hf]; exact import_other_fields d _ f hf

/-- **via_file.** For every STAR layer that round-trips well-formed tables under the block name
cryoCAT writes with a cell conversion `q` (ANY function: nothing here says `q` is close to the
identity — "to STAR precision" is the harness tolerance), every particle list with N ≥ 1, both
`reset_index` values and both `update_coord` values: `write_out` followed by `StopgapMotl(path)`
yields the same particles in the same order, each of the 14 shared fields equal to `q` of the field
of the (re-centred, when asked) input. -/
theorem via_file {F : Type} [Add α] [Sub α] (q : α → β) (write : String → SgTable α → F)
    (read : String → F → Option (SgTable β))
    (hstar : StarRoundTripAt ["A", "B"] q Gen.C04.writeSpecifier write read)
    (ops : NumOps α) (round : α → α) (update reset : Bool) (d : β) (motl : List (Particle α)) (hN : motl ≠ [])
    (t : SgTable α) (h : writeOutTable ops round update reset motl = some t) :
    (read Gen.C04.readSpecifier (write Gen.C04.writeSpecifier t)).bind (importTable d)
      = some ((if update then motl.map (updateCoord round) else motl).map (restrict d q)) :=
  via_file_at q write read ops round update reset d motl hN t h (hstar t)

/-- what the printer `ren` must do for ONE table: print the numbers that occur in it as well-formed
integer/float cells the reader types as numbers (a faithful float printer does so for every table
without NaN) -/
def PrintsNumbersOf (ren : α → C02.Cell) (t : SgTable α) : Prop :=
  ∀ r ∈ t.rows, ∀ v, Cell.num v ∈ r → C02.CellWF (ren v) ∧ (ren v).isNumber = true

/-- **star_layer_roundtrip_cells.** The concrete STAR layer returns the well-formed table `t`, numbers
passed through print-then-parse, as soon as `ren` prints the numbers OF `t` as number cells. -/
theorem star_layer_roundtrip_cells (ren : α → C02.Cell) (parse : C02.Word → β)
    (spec : String) (hspec : C02.CellOk spec.toList) (t : SgTable α) (hren : PrintsNumbersOf ren t)
    (hwf : StarWF ["A", "B"] t) :
    starRead parse spec (starWrite ren spec t) = some (t.mapCells (fun v => parse (C02.cellText (ren v)))) := by
  obtain ⟨_, hrows, hlen, htxt, hcols, hkind⟩ := hwf
  refine starRead_starWrite ren spec t hren hspec hcols hrows hlen ?_ hkind parse
  intro r hr s hs
  have hw := htxt r hr s hs
  simp only [List.mem_cons, List.not_mem_nil, or_false] at hw
  rcases hw with rfl | rfl <;> decide

/-- **star_layer_roundtrip (any block name that is a STAR word).** The concrete STAR layer — C02's
writer on the rendered table, C02's reader, first block of that name, columns by name, per-column
numeric typing — returns every well-formed table, numbers passed through print-then-parse. `ren`
must print every number as a well-formed integer/float cell that the reader types as a number (so no
NaN); `parse` is arbitrary. Consequence of `C02.typed_roundtrip`. -/
theorem star_layer_roundtrip_spec (ren : α → C02.Cell) (parse : C02.Word → β)
    (hren : ∀ v, C02.CellWF (ren v) ∧ (ren v).isNumber = true)
    (spec : String) (hspec : C02.CellOk spec.toList) :
    StarRoundTripAt ["A", "B"] (fun v => parse (C02.cellText (ren v))) spec
      (starWrite ren) (starRead parse) := by
  intro t hwf
  exact star_layer_roundtrip_cells ren parse spec hspec t (fun _ _ v _ => hren v) hwf

/-- **star_layer_roundtrip.** The hypothesis of `via_file` holds for the concrete STAR layer under the
block name `data_stopgap_motivelist`, with words `A`/`B` and cell conversion
`q v = parse (C02.cellText (ren v))`. -/
theorem star_layer_roundtrip (ren : α → C02.Cell) (parse : C02.Word → β)
    (hren : ∀ v, C02.CellWF (ren v) ∧ (ren v).isNumber = true) :
    StarRoundTripAt ["A", "B"] (fun v => parse (C02.cellText (ren v))) Gen.C04.writeSpecifier
      (starWrite ren) (starRead parse) :=
  star_layer_roundtrip_spec ren parse hren _ (by decide)

/-- **via_file_c02.** `via_file` through the C02 model of the STAR file: for every particle list with
N ≥ 1, both `reset_index` and both `update_coord` values, writing the exported table with
`Starfile.write` under `data_stopgap_motivelist`, reading the text with `Starfile.read`, taking the
first block of that name, typing its columns and importing the result yields the same particles in
the same order, each of the 14 shared fields equal to print-then-parse of the (re-centred, when
asked) input field. The remaining hypothesis is on the printer: here that `ren` prints EVERY value of
the type as a number cell — satisfiable for `Int` and `Dec` (examples below), NOT for a faithful
printer of floats (NaN); `via_file_c02_cells` asks it only of the numbers in the table written.
Print-then-parse itself is an arbitrary function here: "to STAR precision" is the harness tolerance. -/
theorem via_file_c02 [Add α] [Sub α] (ren : α → C02.Cell) (parse : C02.Word → β)
    (hren : ∀ v, C02.CellWF (ren v) ∧ (ren v).isNumber = true)
    (ops : NumOps α) (round : α → α) (update reset : Bool) (d : β) (motl : List (Particle α)) (hN : motl ≠ [])
    (t : SgTable α) (h : writeOutTable ops round update reset motl = some t) :
    (starRead parse Gen.C04.readSpecifier (starWrite ren Gen.C04.writeSpecifier t)).bind (importTable d)
      = some ((if update then motl.map (updateCoord round) else motl).map
          (restrict d (fun v => parse (C02.cellText (ren v))))) :=
  via_file _ (starWrite ren) (starRead parse) (star_layer_roundtrip ren parse hren)
    ops round update reset d motl hN t h

/-- **via_file_c02_cells.** `via_file_c02` with the hypothesis on the printer restricted to the numbers
that occur in the table written (`PrintsNumbersOf ren t`): what a faithful printer of floats satisfies
for every list whose exported table holds no NaN (finite field values; the real code also replaces NaN
by 0 before writing, a step the model does not have). -/
theorem via_file_c02_cells [Add α] [Sub α] (ren : α → C02.Cell) (parse : C02.Word → β)
    (ops : NumOps α) (round : α → α) (update reset : Bool) (d : β) (motl : List (Particle α)) (hN : motl ≠ [])
    (t : SgTable α) (h : writeOutTable ops round update reset motl = some t) (hren : PrintsNumbersOf ren t) :
    (starRead parse Gen.C04.readSpecifier (starWrite ren Gen.C04.writeSpecifier t)).bind (importTable d)
      = some ((if update then motl.map (updateCoord round) else motl).map
          (restrict d (fun v => parse (C02.cellText (ren v))))) :=
  via_file_at _ (starWrite ren) (starRead parse) ops round update reset d motl hN t h
    (star_layer_roundtrip_cells ren parse _ (by decide) t hren)

/-- **The wrappers via file**: `Motl(df).write_out(path, "stopgap")` followed by
`Motl.load(path, "stopgap")` (= `StopgapMotl(path)`, `wrappers_documented`) through the C02 model of
the STAR file returns the particles as given, in the same order, each of the 14 shared fields
printed and parsed once (by an arbitrary print-then-parse: the value clause is the harness tolerance).
The printer is asked to print only the numbers of the table written as number cells. -/
theorem via_file_wrappers [Add α] [Sub α] (ren : α → C02.Cell) (parse : C02.Word → β)
    (ops : NumOps α) (round : α → α) (d : β) (motl : List (Particle α)) (hN : motl ≠ [])
    (t : SgTable α) (h : motlWriteOut ops round motl = some t) (hren : PrintsNumbersOf ren t) :
    (starRead parse Gen.C04.readSpecifier (starWrite ren Gen.C04.writeSpecifier t)).bind (importTable d)
      = some (motl.map (restrict d (fun v => parse (C02.cellText (ren v))))) := by
  rw [motlWriteOut, (omitted_keywords ops round motl).2.1] at h
  simpa using via_file_c02_cells ren parse ops round false false d motl hN t h hren

/-! ### P3: the file round trip for DECIMAL field values

`via_file_c02` is polymorphic in the value type; besides the integer instance of the examples below it
is instantiated here at finite decimal numbers — what a float64 field is once `DataFrame.round(6)` and
`repr` have turned it into digits. The theorem then says WHICH text comes back for every field: the
`repr` layout (fixed / exponent form) of its digits, particle by particle, in order. That the digits
are those of the float to within the STAR precision, and that `pandas.to_numeric` maps them back to the
nearest float, stays the harness tolerance (5e-7 + 16 ulp), as stated above. -/

/-- a finite decimal number as Python's `repr` sees a float: sign, digit string, position of the
decimal point (value = ±0.d₁d₂… × 10^decpt); the digit string is non-empty and made of digits -/
structure Dec where
  neg : Bool
  ds : C02.Word
  decpt : Int
  wf : ds ≠ [] ∧ C02.AllDigits ds

/-- the cell `Starfile.write` is handed for a decimal value -/
def Dec.cell (v : Dec) : C02.Cell := .flt (.fin v.neg v.ds v.decpt)
/-- the text `str(value)` prints for it (C02's model of `repr`) -/
def Dec.text (v : Dec) : C02.Word := C02.floatRepr v.neg v.ds v.decpt

/-- every decimal value is printed as a well-formed number cell: the hypothesis of `via_file_c02` holds -/
theorem Dec.cell_ok (v : Dec) : C02.CellWF v.cell ∧ v.cell.isNumber = true := ⟨v.wf, rfl⟩

/-- **via_file_c02 at decimal values** (no hypothesis on the printer left): after `write_out` and
`StopgapMotl(path)` every one of the 14 shared fields of every particle is `parse` of the `repr` text
of its decimal value, same particles, same order, for both `reset_index` and `update_coord` values
(whatever arithmetic `update_coord` uses on the decimals). -/
theorem via_file_c02_decimal [Add Dec] [Sub Dec] (parse : C02.Word → β)
    (ops : NumOps Dec) (round : Dec → Dec) (update reset : Bool) (d : β) (motl : List (Particle Dec)) (hN : motl ≠ [])
    (t : SgTable Dec) (h : writeOutTable ops round update reset motl = some t) :
    (starRead parse Gen.C04.readSpecifier (starWrite Dec.cell Gen.C04.writeSpecifier t)).bind (importTable d)
      = some ((if update then motl.map (updateCoord round) else motl).map (restrict d (fun v => parse v.text))) :=
  via_file_c02 Dec.cell parse Dec.cell_ok ops round update reset d motl hN t h

/-! ### regression witnesses -/

/-- a table with `psi` and `theta` swapped (both angles, both numeric — passes every pinned test)
is not the documented renaming, and exporting with it puts theta into the `psi` column -/
theorem swapped_angles_detected :
    let bad : List (Field × SgField) := docPairs.map (fun es =>
      if es.1 = .psi then (Field.theta, es.2) else if es.1 = .theta then (Field.psi, es.2) else es)
    let p : Particle Nat := Particle.ofList 0 (List.range 20)
    bad ≠ docPairs ∧ copyPairs bad p (fun _ => .num 0) .psi ≠ .num p.psi := by decide

/-! ### non-vacuity -/

/-- a 3-particle list with non-sequential subtomogram numbers 7, 2, 11 -/
def demo : List (Particle Int) :=
  [Particle.ofList 0 [1, 0, 0, 7, 3, 5, 0, 10, 20, 30, 1, 2, 3, 0, 0, 0, 40, 50, 60, 2],
   Particle.ofList 0 [2, 0, 0, 2, 3, 5, 0, 11, 21, 31, 1, 2, 3, 0, 0, 0, 41, 51, 61, 1],
   Particle.ofList 0 [3, 0, 0, 11, 4, 6, 0, 12, 22, 32, 1, 2, 3, 0, 0, 0, 42, 52, 62, 1]]

example : (toSg intOps true demo).isSome = true := by decide
/-- ids -7 (odd) and 9007199254740990 (even, just below 2^53) meet the hypotheses of `halfset_parity_float_ids` -/
example : ((-7 : Int).natAbs < 2 ^ 53 ∧ encodeInt (-7) = 0xC01C000000000000) ∧
    ((9007199254740990 : Int).natAbs < 2 ^ 53 ∧ decodeInt (encodeInt 9007199254740990) = some 9007199254740990) := by decide +kernel
example : (exportTable intOps false demo).map (fun t => t.rows.map (fun r => r.take 5)) =
    some [[.num 7, .num 3, .num 5, .num 7, .str "B"], [.num 2, .num 3, .num 5, .num 2, .str "A"],
          [.num 11, .num 4, .num 6, .num 11, .str "B"]] := by decide
example : (exportTable intOps true demo).map (fun t => t.rows.map (fun r => r.head?)) =
    some [some (.num 1), some (.num 2), some (.num 3)] := by decide
example : ((exportTable intOps true demo).bind (importTable 0)).isSome = true := by decide
example : ∃ t, exportTable intOps true demo = some t ∧ checkFields demo t = true ∧
    checkHalf intOps demo t = true ∧ checkIdx intOps true demo t = true := ⟨_, rfl, by decide, by decide, by decide⟩
/-- the import checker accepts the model's import of the exported demo list and rejects it once two
particles are swapped -/
example : ∃ t ps, exportTable intOps false demo = some t ∧ importTable 0 t = some ps ∧
    checkImport t ps = true ∧ checkImport t ps.reverse = false := ⟨_, _, rfl, rfl, by decide, by decide⟩
/-- the hypotheses of `updateCoord_rat_ties` are met: -2.5 ↦ (-3, +0.5) and 2.5 ↦ (3, -0.5) -/
example : ratRoundAway (-(5 / 2)) = -3 ∧ ratRoundAway (5 / 2) = 3 ∧ ratRoundAway (-(1 / 2)) = -1 ∧
    ratRoundAway (49 / 100) = 0 ∧ ratRoundAway (-7) = -7 := by decide +kernel
/-- exact decoding of floats to rationals (what the driver feeds `ratRoundAway` with): -2.5, 0.1 (not
1/10), the smallest subnormal, 2^53 + 2 -/
example : decodeRat 0xC004000000000000 = some (-(5 / 2)) ∧
    decodeRat 0x3FB999999999999A = some (3602879701896397 / 36028797018963968) ∧
    decodeRat 1 = some (1 / 2 ^ 1074) ∧ decodeRat 0x4340000000000001 = some 9007199254740994 ∧
    decodeRat 0x7FF0000000000000 = none := by decide +kernel
/-- the wrapper on the demo list: `motl_idx` is the subtomogram number (7, 2, 11), never 1..N -/
example : (motlWriteOut intOps id demo).map (fun t => t.rows.map (fun r => r.head?)) =
    some [some (.num 7), some (.num 2), some (.num 11)] := by decide
/-- decimal values for the examples -/
def dec (neg : Bool) (ds : String) (decpt : Int) (h : ds.toList ≠ [] ∧ C02.AllDigits ds.toList := by decide) : Dec :=
  ⟨neg, ds.toList, decpt, h⟩
/-- the texts the writer prints: 0.123457, -12.5, 1e-05, 2048.0 -/
example : (dec false "123457" 0).text = "0.123457".toList ∧ (dec true "125" 2).text = "-12.5".toList ∧
    (dec false "1" (-4)).text = "1e-05".toList ∧ (dec false "2048" 4).text = "2048.0".toList := by decide
/-- executed, not deduced: a 2 × 3 table of decimals is written and read back as the `repr` texts -/
example : starRead id Gen.C04.readSpecifier (starWrite Dec.cell Gen.C04.writeSpecifier
      { cols := [.orig_x, .halfset, .score], rows := [[.num (dec false "2048" 4), .str "A", .num (dec false "123457" 0)],
                                                       [.num (dec true "125" 2), .str "B", .num (dec false "1" (-4))]] })
    = some { cols := [.orig_x, .halfset, .score], rows := [[.num "2048.0".toList, .str "A", .num "0.123457".toList],
                                                            [.num "-12.5".toList, .str "B", .num "1e-05".toList]] } := by decide +kernel
/-- a printer in the manner of a faithful float printer: `none` stands for NaN and is printed as `nan` -/
def renOpt : Option Dec → C02.Cell
  | some v => v.cell
  | none => .flt .nan
/-- for it the hypothesis of `via_file_c02` (every value printed as a number cell) is FALSE, while the
hypothesis of `via_file_c02_cells` holds for a table without NaN -/
example : (¬ ∀ v, C02.CellWF (renOpt v) ∧ (renOpt v).isNumber = true) ∧
    PrintsNumbersOf renOpt { cols := [.orig_x, .halfset], rows := [[.num (some (dec true "125" 2)), .str "B"]] } := by
  refine ⟨fun h => by have := (h none).2; simp [renOpt, C02.Cell.isNumber] at this, ?_⟩
  intro r hr v hv
  simp only [List.mem_singleton] at hr
  subst hr
  simp only [List.mem_cons, Cell.num.injEq, List.not_mem_nil, or_false, reduceCtorEq] at hv
  subst hv
  exact (dec true "125" 2).cell_ok
/-- the STAR-layer assumption is satisfiable: the identity "file" round-trips with `q = id` -/
example : StarRoundTrip (α := Int) ["A", "B"] id (fun _ t => t) (fun _ f => some f) := by
  intro spec t _
  have hc : (Cell.map (id : Int → Int)) = id := by funext c; cases c <;> rfl
  cases t with
  | mk cols rows => simp [SgTable.mapCells, hc]

/-! non-vacuity of the C02 bridge (`star_layer_roundtrip`, `via_file_c02`): α = β = `Int`, numbers
printed as `str(int)`, a concrete decimal parser -/

/-- a concrete `parse` for the examples: decimal integers with an optional `-` -/
def demoParse : C02.Word → Int
  | '-' :: r => -((r.foldl (fun n c => 10 * n + (c.toNat - 48)) 0 : Nat) : Int)
  | r => ((r.foldl (fun n c => 10 * n + (c.toNat - 48)) 0 : Nat) : Int)

/-- the hypothesis on `ren` is satisfiable: every integer cell is well-formed and a number -/
example : ∀ z : Int, C02.CellWF (C02.Cell.int z) ∧ (C02.Cell.int z).isNumber = true := fun _ => ⟨trivial, rfl⟩
/-- the hypotheses of `via_file_c02` are met by the 3-particle list (re-numbered), its exported table
is `StarWF`, and the conclusion holds for it -/
example : ∃ t, writeOutTable intOps id false true demo = some t ∧ StarWF ["A", "B"] t ∧
    (starRead demoParse Gen.C04.readSpecifier (starWrite C02.Cell.int Gen.C04.writeSpecifier t)).bind (importTable 0)
      = some (demo.map (restrict 0 (fun v => demoParse (C02.cellText (C02.Cell.int v))))) :=
  ⟨_, rfl, exportTable_starWF intOps true demo _ rfl (by decide),
    via_file_c02 C02.Cell.int demoParse (fun _ => ⟨trivial, rfl⟩) intOps id false true 0 demo (by decide) _ rfl⟩
/-- executed, not deduced: the text written for the exported 3 × 16 table reads back as that table -/
example : (exportTable intOps true demo).bind (fun t =>
      starRead demoParse Gen.C04.readSpecifier (starWrite C02.Cell.int Gen.C04.writeSpecifier t))
    = exportTable intOps true demo := by decide +kernel
/-- the text of a tiny table: STOPGAP block name, hence un-numbered labels and the extra blank line -/
example : starWrite C02.Cell.int Gen.C04.writeSpecifier { cols := [.motl_idx, .halfset], rows := [[.num (-7), .str "B"]] }
    = "\ndata_stopgap_motivelist\n\nloop_\n_motl_idx\n_halfset\n\n-7        \tB         \n\n".toList := by decide
example : starRead demoParse Gen.C04.readSpecifier "\ndata_stopgap_motivelist\n\nloop_\n_motl_idx\n_halfset\n\n-7        \tB         \n\n".toList
    = some { cols := [.motl_idx, .halfset], rows := [[.num (-7), .str "B"]] } := by decide
/-- no block of the requested name: the `ValueError` of `read_in` -/
example : starRead demoParse "data_other" "\ndata_stopgap_motivelist\n\nloop_\n_motl_idx\n_halfset\n\n-7        \tB         \n\n".toList
    = none := by decide
/-- the homogeneity conjunct of `StarWF` is needed: a column mixing a number and a text comes back
as a text column -/
example : starRead demoParse Gen.C04.readSpecifier (starWrite C02.Cell.int Gen.C04.writeSpecifier
      { cols := [.motl_idx], rows := [[.num 1], [.str "B"]] })
    = some { cols := [.motl_idx], rows := [[.str "1"], [.str "B"]] } := by decide

end CryoCat.C04
