import CryoCat.Lemmas.C04
import Mathlib.Algebra.Group.Basic
/-! C04 — STOPGAP ↔ cryoCAT conversion is a lossless renaming with parity half-sets.
Only property theorems and non-vacuity examples; helper lemmas live in `Lemmas/C04.lean`. -/
namespace CryoCat.C04
variable {α β : Type}

/-! ### translator obligations: what the source says today is the documented convention -/

theorem anchors_ok : Gen.C04.anchorsOk = true := by decide

/-- `StopgapMotl.pairs` is the documented renaming, entry by entry (a psi/the swap fails here) -/
theorem pairs_documented : sgPairs = docPairs := by decide

/-- `StopgapMotl.columns` is the documented 16-column STOPGAP header, in order -/
theorem columns_documented : sgColumns = SgField.all := by decide

/-- the zero frame is created with as many columns as the header has -/
theorem zeros_width : Gen.C04.zerosWidth = sgColumns.length := by decide

/-- export assigns `stopgap_df[star_key] = motl_df[em_key]`, import `self.df[em_key] = stopgap_df[star_key]` -/
theorem loops_direction :
    Gen.C04.exportLoopCopiesMotlToSg = true ∧ Gen.C04.importLoopCopiesSgToMotl = true := by decide

/-- export copies by row position, not by DataFrame index label -/
theorem export_positional : Gen.C04.exportLoopPositional = true := by decide

/-- halfset is `np.where(motl_df["subtomo_id"].mod(2).eq(0), "A", "B")` -/
theorem halfset_literals :
    halfsetSrc = .subtomo_id ∧ Gen.C04.halfsetMod = 2 ∧ Gen.C04.halfsetEq = 0 ∧
    Gen.C04.halfsetThen = "A" ∧ Gen.C04.halfsetElse = "B" := by decide

/-- `motl_idx` is copied from `subtomo_num` -/
theorem motl_idx_source : idxSrc = .subtomo_num := by decide

/-- the reset sequence is `range(1, N + 1)` -/
theorem reset_range : Gen.C04.resetStart = 1 ∧ Gen.C04.resetStopOffset = 1 := by decide

/-- writer and reader agree on the data block name; the STAR writer rounds to 6 decimals -/
theorem star_block :
    Gen.C04.writeSpecifier = "data_stopgap_motivelist" ∧ Gen.C04.readSpecifier = Gen.C04.writeSpecifier ∧
    Gen.C04.starFloatPrecision = 6 := by decide

/-! ### the renaming table -/

/-- **pairs_bijective.** The source's table has 14 entries, is injective on both sides, its
cryoCAT side is exactly the 14 fields of the statement and its STOPGAP side is every column except
`motl_idx` and `halfset`. -/
theorem pairs_bijective :
    sgPairs.length = 14 ∧ (sgPairs.map Prod.fst).Nodup ∧ (sgPairs.map Prod.snd).Nodup ∧
    sgPairs.map Prod.fst =
      [.subtomo_id, .tomo_id, .object_id, .x, .y, .z, .score, .shift_x, .shift_y, .shift_z,
       .phi, .psi, .theta, .cls] ∧
    (∀ s : SgField, s ∈ sgPairs.map Prod.snd ↔ (s ≠ .motl_idx ∧ s ≠ .halfset)) := by
  rw [pairs_documented]
  refine ⟨by decide, by decide, by decide, by decide, ?_⟩
  intro s; cases s <;> decide

/-! ### export: `convert_to_sg_motl` -/

/-- one exported row carries the 14 shared fields unchanged under the documented renaming -/
theorem exportRow_field (ops : NumOps α) (p : Particle α) (e : Field) (s : SgField)
    (hm : (e, s) ∈ docPairs) : exportRow ops p s = .num (p.get e) := by
  have h1 : s ≠ .motl_idx := by
    intro h; subst h; revert hm; cases e <;> decide
  have h2 : s ≠ .halfset := by
    intro h; subst h; revert hm; cases e <;> decide
  simp only [exportRow, pairs_documented]
  rw [SgRow.set_other _ _ _ _ h1, SgRow.set_other _ _ _ _ h2]
  exact copyPairs_get docPairs (by decide) p _ e s hm

/-- the halfset cell of one exported row -/
theorem exportRow_halfset (ops : NumOps α) (p : Particle α) :
    exportRow ops p .halfset = .str (if ops.modEq p.subtomo_id 2 0 then "A" else "B") := by
  simp only [exportRow]
  rw [SgRow.set_other _ _ _ _ (by decide), SgRow.set_same]
  simp only [halfsetOf, halfset_literals.1]
  rfl

/-- `motl_idx` of one exported row (before a reset) is the subtomogram number -/
theorem exportRow_motl_idx (ops : NumOps α) (p : Particle α) :
    exportRow ops p .motl_idx = .num p.subtomo_id := by
  simp only [exportRow, motl_idx_source, pairs_documented]
  rw [SgRow.set_same, SgRow.set_other _ _ _ _ (by decide)]
  exact copyPairs_get docPairs (by decide) p _ .subtomo_id .subtomo_num (by decide)

/-- the conversion never rejects: every particle list has a STOPGAP form -/
theorem toSg_total (ops : NumOps α) (reset : Bool) (motl : List (Particle α)) :
    ∃ rows, toSg ops reset motl = some rows ∧ rows.length = motl.length := by
  cases reset with
  | false => exact ⟨_, rfl, by simp⟩
  | true =>
    refine ⟨resetFrom ops 1 (motl.map (exportRow ops)), ?_, by simp [resetFrom_length]⟩
    simp [toSg, resetIdx, reset_range.1, reset_range.2]

/-- **Export, clause by clause, for every particle list, any N, both `reset_index` values.**
Row `i` of the result is made from particle `i` (same order, same count): its 14 documented columns
hold the 14 shared fields unchanged, its halfset is `A`/`B` by `subtomo_id mod 2`, its `motl_idx` is
the subtomogram number, or `i+1` (1..N) when a reset is requested. -/
theorem export_rows (ops : NumOps α) (reset : Bool) (motl : List (Particle α)) (rows : List (SgRow α))
    (h : toSg ops reset motl = some rows) :
    rows.length = motl.length ∧
    ∀ i p, motl[i]? = some p → ∃ r : SgRow α, rows[i]? = some r ∧
      (∀ es ∈ docPairs, r es.2 = .num (p.get es.1)) ∧
      r .halfset = .str (if ops.modEq p.subtomo_id 2 0 then "A" else "B") ∧
      r .motl_idx = .num (if reset then ops.ofNat (i + 1) else p.subtomo_id) := by
  cases reset with
  | false =>
    simp only [toSg, Bool.false_eq_true, if_false, Option.some.injEq] at h
    subst h
    refine ⟨by simp, ?_⟩
    intro i p hp
    refine ⟨exportRow ops p, by simp [hp], ?_, exportRow_halfset ops p, exportRow_motl_idx ops p⟩
    intro es hes; exact exportRow_field ops p es.1 es.2 hes
  | true =>
    have h' : rows = resetFrom ops 1 (motl.map (exportRow ops)) := by
      simp [toSg, resetIdx, reset_range.1, reset_range.2] at h; exact h.symm
    subst h'
    refine ⟨by simp [resetFrom_length], ?_⟩
    intro i p hp
    refine ⟨(exportRow ops p).set .motl_idx (.num (ops.ofNat (1 + i))), ?_, ?_, ?_, ?_⟩
    · rw [resetFrom_getElem?]; simp [hp]
    · intro es hes
      have hne : es.2 ≠ .motl_idx := by
        intro h0
        have := (pairs_bijective.2.2.2.2 es.2).1 (by rw [pairs_documented]; exact List.mem_map.2 ⟨es, hes, rfl⟩)
        exact this.1 h0
      rw [SgRow.set_other _ _ _ _ hne]
      exact exportRow_field ops p es.1 es.2 hes
    · rw [SgRow.set_other _ _ _ _ (by decide)]; exact exportRow_halfset ops p
    · rw [SgRow.set_same, Nat.add_comm]; rfl

/-- **halfset_even_odd.** Over the integers: halfset is `A` for even and `B` for odd subtomogram
numbers (negative numbers included), for every particle of every list. -/
def intOps : NumOps Int := { ofNat := Int.ofNat, modEq := fun x m k => x % (m : Int) == (k : Int) }

theorem halfset_even_odd (reset : Bool) (motl : List (Particle Int)) (rows : List (SgRow Int))
    (h : toSg intOps reset motl = some rows) (i : Nat) (p : Particle Int) (hp : motl[i]? = some p) :
    ∃ r : SgRow Int, rows[i]? = some r ∧
      ((∃ k, p.subtomo_id = 2 * k) → r .halfset = .str "A") ∧
      ((∃ k, p.subtomo_id = 2 * k + 1) → r .halfset = .str "B") := by
  obtain ⟨_, hrows⟩ := export_rows intOps reset motl rows h
  obtain ⟨r, hr, _, hh, _⟩ := hrows i p hp
  refine ⟨r, hr, ?_, ?_⟩
  · rintro ⟨k, hk⟩
    rw [hh]
    have : intOps.modEq p.subtomo_id 2 0 = true := by
      simp only [intOps, beq_iff_eq]; omega
    rw [this]; rfl
  · rintro ⟨k, hk⟩
    rw [hh]
    have : intOps.modEq p.subtomo_id 2 0 = false := by
      simp only [intOps, beq_eq_false_iff_ne]; omega
    rw [this]; rfl

/-- **motl_idx_spec.** `motl_idx` is the subtomogram number, or the 1-based position when a reset
is requested (so it is exactly 1..N in order). -/
theorem motl_idx_spec (ops : NumOps α) (reset : Bool) (motl : List (Particle α)) (rows : List (SgRow α))
    (h : toSg ops reset motl = some rows) (i : Nat) (p : Particle α) (hp : motl[i]? = some p) :
    ∃ r : SgRow α, rows[i]? = some r ∧
      r .motl_idx = .num (if reset then ops.ofNat (i + 1) else p.subtomo_id) := by
  obtain ⟨_, hrows⟩ := export_rows ops reset motl rows h
  obtain ⟨r, hr, _, _, hi⟩ := hrows i p hp
  exact ⟨r, hr, hi⟩

/-! ### the exported DataFrame and the verified checker -/

/-- the property's export clauses for an output table `out` (what `convert_to_sg_motl` must return) -/
def SpecExport (ops : NumOps α) (reset : Bool) (motl : List (Particle α)) (out : SgTable α) : Prop :=
  out.cols = SgField.all ∧ out.rows.length = motl.length ∧
  ∀ i p cells, motl[i]? = some p → out.rows[i]? = some cells →
    (∀ es ∈ docPairs, rowOfCells (.str "") out.cols cells es.2 = .num (p.get es.1)) ∧
    rowOfCells (.str "") out.cols cells .halfset = .str (if ops.modEq p.subtomo_id 2 0 then "A" else "B") ∧
    rowOfCells (.str "") out.cols cells .motl_idx = .num (if reset then ops.ofNat (i + 1) else p.subtomo_id)

/-- **model_spec.** The table the model returns satisfies every export clause. -/
theorem model_spec (ops : NumOps α) (reset : Bool) (motl : List (Particle α)) (t : SgTable α)
    (h : exportTable ops reset motl = some t) : SpecExport ops reset motl t := by
  unfold exportTable at h
  cases hrows : toSg ops reset motl with
  | none => simp [hrows] at h
  | some rows =>
    simp only [hrows, Option.map_some, Option.some.injEq] at h
    subst h
    obtain ⟨hlen, hr⟩ := export_rows ops reset motl rows hrows
    refine ⟨columns_documented, by simpa using hlen, ?_⟩
    intro i p cells hp hc
    obtain ⟨r, hri, h1, h2, h3⟩ := hr i p hp
    simp only [List.getElem?_map, hri, Option.map_some, Option.some.injEq] at hc
    subst hc
    simp only [columns_documented]
    refine ⟨?_, ?_, ?_⟩
    · intro es hes; rw [rowOfCells_map _ _ _ _ (SgField.mem_all _)]; exact h1 es hes
    · rw [rowOfCells_map _ _ _ _ (SgField.mem_all _)]; exact h2
    · rw [rowOfCells_map _ _ _ _ (SgField.mem_all _)]; exact h3

/-- **check_sound.** If the checker the driver runs on the implementation's output accepts, the
output satisfies every export clause. -/
theorem check_sound [DecidableEq α] (ops : NumOps α) (reset : Bool) (motl : List (Particle α)) (out : SgTable α)
    (hc : out.cols = SgField.all) (hf : checkFields motl out = true) (hh : checkHalf ops motl out = true)
    (hi : checkIdx ops reset motl out = true) : SpecExport ops reset motl out := by
  simp only [checkFields, checkHalf, checkIdx, checkRows_iff] at hf hh hi
  refine ⟨hc, hf.1.symm, ?_⟩
  intro i p cells hp hcells
  refine ⟨?_, ?_, ?_⟩
  · have := hf.2 i p cells hp hcells
    simp only [fieldsOk, List.all_eq_true, beq_iff_eq] at this
    exact this
  · have := hh.2 i p cells hp hcells
    simpa only [halfOk, beq_iff_eq] using this
  · have := hi.2 i p cells hp hcells
    simpa only [idxOk, beq_iff_eq, Nat.zero_add] using this

/-- the checker is also complete: it accepts every output that satisfies the clauses -/
theorem check_complete [DecidableEq α] (ops : NumOps α) (reset : Bool) (motl : List (Particle α)) (out : SgTable α)
    (h : SpecExport ops reset motl out) :
    checkFields motl out = true ∧ checkHalf ops motl out = true ∧ checkIdx ops reset motl out = true := by
  obtain ⟨_, hl, hr⟩ := h
  simp only [checkFields, checkHalf, checkIdx, checkRows_iff]
  refine ⟨⟨hl.symm, ?_⟩, ⟨hl.symm, ?_⟩, ⟨hl.symm, ?_⟩⟩
  · intro j p c hp hc
    simp only [fieldsOk, List.all_eq_true, beq_iff_eq]
    exact (hr j p c hp hc).1
  · intro j p c hp hc
    simp only [halfOk, beq_iff_eq]; exact (hr j p c hp hc).2.1
  · intro j p c hp hc
    simp only [idxOk, beq_iff_eq, Nat.zero_add]; exact (hr j p c hp hc).2.2

/-! ### import: `convert_to_motl` -/

/-- the import is accepted iff the table has the 14 documented columns (else pandas raises `KeyError`) -/
theorem importTable_isSome_iff (d : α) (t : SgTable α) :
    (importTable d t).isSome = true ↔ ∀ es ∈ docPairs, es.2 ∈ t.cols := by
  simp only [importTable, pairs_documented]
  split
  · rename_i h
    simp only [Option.isSome_some, true_iff]
    simpa [List.all_eq_true] using h
  · rename_i h
    simp only [Option.isSome_none, Bool.false_eq_true, false_iff]
    simpa [List.all_eq_true] using h

/-- **Import, for every STOPGAP table in ANY column order, any N, arbitrary cells.** Particle `i`
is made from row `i` (same order, same count) and each of its 14 shared fields is the cell found
under the documented column *name*. -/
theorem import_rows (d : α) (t : SgTable α) (ps : List (Particle α)) (h : importTable d t = some ps) :
    ps.length = t.rows.length ∧
    ∀ (i : Nat) cells, t.rows[i]? = some cells → ∃ p : Particle α, ps[i]? = some p ∧
      ∀ es ∈ docPairs, p.get es.1 = (rowOfCells (.num d) t.cols cells es.2).toNum d := by
  simp only [importTable] at h
  split at h
  · simp only [Option.some.injEq] at h
    subst h
    refine ⟨by simp, ?_⟩
    intro i cells hc
    refine ⟨importRow d (rowOfCells (.num d) t.cols cells), by simp [hc], ?_⟩
    intro es hes
    simp only [importRow, pairs_documented]
    exact importFold_get d docPairs (by decide) _ _ es.1 es.2 hes
  · cases h

/-- the six cryoCAT fields STOPGAP does not have are left at the fill value -/
theorem import_other_fields (d : α) (r : SgRow α) (f : Field) (hf : f ∉ sharedFields) :
    (importRow d r).get f = d := by
  simp only [importRow, pairs_documented]
  rw [importFold_other _ _ _ _ _ hf, Particle.get_ofFn]

/-- a particle restricted to the 14 shared fields (the rest at the fill value) -/
def restrict (d : β) (q : α → β) (p : Particle α) : Particle β :=
  Particle.ofFn (fun f => if f ∈ sharedFields then q (p.get f) else d)

/-- import of one exported row gives back the 14 shared fields -/
theorem importRow_exportRow (d : α) (p : Particle α) (r : SgRow α)
    (hr : ∀ es ∈ docPairs, r es.2 = .num (p.get es.1)) : importRow d r = restrict d id p := by
  apply Particle.ext_get
  intro f
  rw [restrict, Particle.get_ofFn]
  by_cases hf : f ∈ sharedFields
  · rw [if_pos hf]
    obtain ⟨es, hes, rfl⟩ := List.mem_map.1 hf
    simp only [importRow, pairs_documented]
    rw [importFold_get d docPairs (by decide) _ _ es.1 es.2 hes, hr es hes]
    rfl
  · rw [if_neg hf]; exact import_other_fields d r f hf

/-- **fromSg_toSg (in memory).** Exporting any particle list and importing the result gives the
same particles in the same order with all 14 shared fields unchanged (both `reset_index` values). -/
theorem fromSg_toSg (ops : NumOps α) (d : α) (reset : Bool) (motl : List (Particle α)) (t : SgTable α)
    (h : exportTable ops reset motl = some t) :
    importTable d t = some (motl.map (restrict d id)) := by
  unfold exportTable at h
  cases hrows : toSg ops reset motl with
  | none => simp [hrows] at h
  | some rows =>
    simp only [hrows, Option.map_some, Option.some.injEq] at h
    subst h
    obtain ⟨hlen, hr⟩ := export_rows ops reset motl rows hrows
    have hacc : (sgPairs.all fun es => sgColumns.contains es.2) = true := by decide
    simp only [importTable, hacc, if_true, Option.some.injEq, List.map_map]
    apply List.ext_getElem?
    intro i
    simp only [List.getElem?_map]
    cases hp : motl[i]? with
    | none =>
      have : rows[i]? = none := by
        rw [List.getElem?_eq_none_iff] at hp ⊢; omega
      simp [this]
    | some p =>
      obtain ⟨r, hri, h1, _, _⟩ := hr i p hp
      simp only [hri, Option.map_some, Function.comp, Option.some.injEq]
      apply importRow_exportRow d p
      intro es hes
      rw [columns_documented, rowOfCells_map _ _ _ _ (SgField.mem_all _)]
      exact h1 es hes

/-- **toSg_fromSg.** Importing any STOPGAP row and exporting it again reproduces its 14 numeric
columns (the conversion loses nothing in either direction). -/
theorem toSg_fromSg (ops : NumOps α) (d : α) (r : SgRow α) (es : Field × SgField) (hes : es ∈ docPairs)
    (v : α) (hv : r es.2 = .num v) : exportRow ops (importRow d r) es.2 = .num v := by
  rw [exportRow_field ops _ es.1 es.2 hes]
  simp only [importRow, pairs_documented]
  rw [importFold_get d docPairs (by decide) _ _ es.1 es.2 hes, hv]
  rfl

/-! ### `update_coord=True`: the list is re-centred first, then converted -/

/-- `update_coordinates` keeps the complete position `x + shift_x` (same for y, z) -/
theorem updateCoord_position [AddCommGroup α] (round : α → α) (p : Particle α) :
    (updateCoord round p).x + (updateCoord round p).shift_x = p.x + p.shift_x ∧
    (updateCoord round p).y + (updateCoord round p).shift_y = p.y + p.shift_y ∧
    (updateCoord round p).z + (updateCoord round p).shift_z = p.z + p.shift_z := by
  refine ⟨?_, ?_, ?_⟩ <;> simp [updateCoord]

/-- `update_coordinates` leaves the other 8 shared fields (and every non-position field) alone -/
theorem updateCoord_other [Add α] [Sub α] (round : α → α) (p : Particle α) (f : Field)
    (hf : f ∉ [Field.x, .y, .z, .shift_x, .shift_y, .shift_z]) :
    (updateCoord round p).get f = p.get f := by
  cases f <;> first | rfl | (exfalso; revert hf; decide)

/-- **Export with `update_coord=True`.** The written row holds the re-centred particle: the integer
part in `orig_*`, the remainder in `*_shift`, their sum is the complete position of the input. -/
theorem export_update_coord [AddCommGroup α] (ops : NumOps α) (round : α → α) (p : Particle α) :
    exportRow ops (updateCoord round p) .orig_x = .num (round (p.x + p.shift_x)) ∧
    exportRow ops (updateCoord round p) .x_shift = .num (p.x + p.shift_x - round (p.x + p.shift_x)) ∧
    (∀ es ∈ docPairs, es.1 ∉ [Field.x, .y, .z, .shift_x, .shift_y, .shift_z] →
      exportRow ops (updateCoord round p) es.2 = .num (p.get es.1)) := by
  refine ⟨exportRow_field ops _ .x .orig_x (by decide), exportRow_field ops _ .shift_x .x_shift (by decide), ?_⟩
  intro es hes hf
  rw [exportRow_field ops _ es.1 es.2 hes, updateCoord_other round p es.1 hf]

/-- **write_out.** What `write_out(path, update_coord, reset_index)` hands to the STAR writer satisfies
every export clause with respect to the list the object holds afterwards (re-centred iff asked). -/
theorem write_out_spec [Add α] [Sub α] (ops : NumOps α) (round : α → α) (update reset : Bool)
    (motl : List (Particle α)) (t : SgTable α) (h : writeOutTable ops round update reset motl = some t) :
    SpecExport ops reset (if update then motl.map (updateCoord round) else motl) t :=
  model_spec ops reset _ t h

/-! ### via file: corollary of a round-trip property of the STAR layer (C02), taken as a parameter -/

def SgTable.mapCells (q : α → β) (t : SgTable α) : SgTable β :=
  { cols := t.cols, rows := t.rows.map (fun r => r.map (Cell.map q)) }

/-- tables the STAR layer is asked to carry here: a duplicate-free header, at least one row, every
row as long as the header, text cells taken from `words` -/
def StarWF (words : List String) (t : SgTable α) : Prop :=
  t.cols.Nodup ∧ t.rows ≠ [] ∧ (∀ r ∈ t.rows, r.length = t.cols.length) ∧
  ∀ r ∈ t.rows, ∀ s, Cell.str s ∈ r → s ∈ words

/-- the assumption on the STAR layer (property C02, proved elsewhere): writing a well-formed table
under the block name and reading it back gives the same header and rows, each number passed
through `q` (rounding to the writer's 6 decimals, printing, parsing), text cells unchanged -/
def StarRoundTrip {F : Type} (words : List String) (q : α → β)
    (write : String → SgTable α → F) (read : String → F → Option (SgTable β)) : Prop :=
  ∀ (spec : String) (t : SgTable α), StarWF words t → read spec (write spec t) = some (t.mapCells q)

/-- what `convert_to_sg_motl` returns is a table the STAR layer accepts (N ≥ 1) -/
theorem exportTable_starWF (ops : NumOps α) (reset : Bool) (motl : List (Particle α)) (t : SgTable α)
    (h : exportTable ops reset motl = some t) (hN : motl ≠ []) : StarWF ["A", "B"] t := by
  have hs := model_spec ops reset motl t h
  obtain ⟨hc, hl, hr⟩ := hs
  unfold exportTable at h
  cases hrows : toSg ops reset motl with
  | none => simp [hrows] at h
  | some rows =>
    simp only [hrows, Option.map_some, Option.some.injEq] at h
    subst h
    obtain ⟨hlen, hrr⟩ := export_rows ops reset motl rows hrows
    refine ⟨by simp only [columns_documented]; decide, ?_, ?_, ?_⟩
    · intro h0
      simp only [List.map_eq_nil_iff] at h0
      subst h0
      simp at hlen
      exact hN (List.eq_nil_of_length_eq_zero hlen.symm)
    · intro r hr'; obtain ⟨r0, _, rfl⟩ := List.mem_map.1 hr'; simp
    · intro cells hcells s hmem
      obtain ⟨r0, hr0, rfl⟩ := List.mem_map.1 hcells
      obtain ⟨i, hi, hget⟩ := List.getElem_of_mem hr0
      have hi' : i < motl.length := by omega
      obtain ⟨r, hri, h1, h2, h3⟩ := hrr i motl[i] (by simp [hi'])
      have : r = r0 := by
        have : rows[i]? = some r0 := by simp [hi, hget]
        rw [this] at hri; exact (Option.some.inj hri).symm
      subst this
      obtain ⟨c, hc', hcs⟩ := List.mem_map.1 hmem
      rw [columns_documented] at hc'
      have hcase : c = .halfset ∨ c = .motl_idx ∨ c ∈ docPairs.map Prod.snd := by
        cases c <;> decide
      rcases hcase with rfl | rfl | hc3
      · rw [h2] at hcs
        by_cases hb : ops.modEq motl[i].subtomo_id 2 0 = true
        · simp [hb] at hcs; simp [← hcs]
        · simp [hb] at hcs; simp [← hcs]
      · rw [h3] at hcs; cases hcs
      · obtain ⟨es, hes, rfl⟩ := List.mem_map.1 hc3
        rw [h1 es hes] at hcs; cases hcs

/-- **via_file.** For every STAR layer that round-trips well-formed tables (cell conversion `q` =
STAR precision), every particle list with N ≥ 1, both `reset_index` values and both `update_coord`
values: `write_out` followed by `StopgapMotl(path)` yields the same particles in the same order,
each of the 14 shared fields equal to `q` of the field of the (re-centred, when asked) input. -/
theorem via_file {F : Type} [Add α] [Sub α] (q : α → β) (write : String → SgTable α → F)
    (read : String → F → Option (SgTable β)) (hstar : StarRoundTrip ["A", "B"] q write read)
    (ops : NumOps α) (round : α → α) (update reset : Bool) (d : β) (motl : List (Particle α)) (hN : motl ≠ [])
    (t : SgTable α) (h : writeOutTable ops round update reset motl = some t) :
    (read Gen.C04.readSpecifier (write Gen.C04.writeSpecifier t)).bind (importTable d)
      = some ((if update then motl.map (updateCoord round) else motl).map (restrict d q)) := by
  rw [star_block.2.1]
  unfold writeOutTable at h
  generalize hm : (if update then motl.map (updateCoord round) else motl) = m at h ⊢
  have hmN : m ≠ [] := by
    subst hm; cases update <;> simpa using hN
  rw [hstar _ t (exportTable_starWF ops reset m t h hmN)]
  simp only [Option.bind_some]
  obtain ⟨hc, hl, hr⟩ := model_spec ops reset m t h
  have hacc : (sgPairs.all fun es => (t.mapCells q).cols.contains es.2) = true := by
    simp only [SgTable.mapCells, hc]; decide
  simp only [importTable, hacc, if_true, Option.some.injEq]
  apply List.ext_getElem?
  intro i
  simp only [SgTable.mapCells, List.getElem?_map]
  cases hp : m[i]? with
  | none =>
    have : t.rows[i]? = none := by
      rw [List.getElem?_eq_none_iff] at hp ⊢; omega
    simp [this]
  | some p =>
    have hi : i < t.rows.length := by
      have := (List.getElem?_eq_some_iff.1 hp).1; omega
    have hcells : t.rows[i]? = some t.rows[i] := by simp [hi]
    obtain ⟨h1, _, _⟩ := hr i p t.rows[i] hp hcells
    simp only [hcells, Option.map_some, Option.some.injEq]
    apply Particle.ext_get
    intro f
    rw [restrict, Particle.get_ofFn]
    by_cases hf : f ∈ sharedFields
    · rw [if_pos hf]
      obtain ⟨es, hes, rfl⟩ := List.mem_map.1 hf
      simp only [importRow, pairs_documented]
      rw [importFold_get d docPairs (by decide) _ _ es.1 es.2 hes]
      have h2 := h1 es hes
      have hlook : rowOfCells (.num d) t.cols (t.rows[i].map (Cell.map q)) es.2 = .num (q (p.get es.1)) := by
        have hmem : es.2 ∈ t.cols := by rw [hc]; exact SgField.mem_all _
        -- the lookup finds the column, so the default does not matter
        have e1 : rowOfCells (Cell.str "" : Cell β) t.cols (t.rows[i].map (Cell.map q)) es.2 = .num (q (p.get es.1)) := by
          have := rowOfCells_map_cells q (Cell.str "" : Cell α) t.cols t.rows[i] es.2
          simp only [Cell.map] at this
          rw [this, h2]
        unfold rowOfCells at e1 ⊢
        cases hl' : List.lookup es.2 (t.cols.zip (t.rows[i].map (Cell.map q))) with
        | none => rw [hl'] at e1; simp at e1
        | some c => rw [hl'] at e1; simpa using e1
      rw [hlook]; rfl
    · rw [if_neg hf]; exact import_other_fields d _ f hf

/-! ### regression witnesses -/

/-- a table with `psi` and `theta` swapped (both angles, both numeric — passes every pinned test)
is not the documented renaming, and exporting with it puts theta into the `psi` column -/
theorem swapped_angles_detected :
    let bad : List (Field × SgField) := docPairs.map (fun es =>
      if es.1 = .psi then (Field.theta, es.2) else if es.1 = .theta then (Field.psi, es.2) else es)
    let p : Particle Nat := Particle.ofList 0 (List.range 20)
    bad ≠ docPairs ∧ copyPairs bad p (fun _ => .num 0) .psi ≠ .num p.psi := by decide

/-! ### non-vacuity -/

/-- a 3-particle list with non-sequential subtomogram numbers 7, 2, 11 -/
def demo : List (Particle Int) :=
  [Particle.ofList 0 [1, 0, 0, 7, 3, 5, 0, 10, 20, 30, 1, 2, 3, 0, 0, 0, 40, 50, 60, 2],
   Particle.ofList 0 [2, 0, 0, 2, 3, 5, 0, 11, 21, 31, 1, 2, 3, 0, 0, 0, 41, 51, 61, 1],
   Particle.ofList 0 [3, 0, 0, 11, 4, 6, 0, 12, 22, 32, 1, 2, 3, 0, 0, 0, 42, 52, 62, 1]]

example : (toSg intOps true demo).isSome = true := by decide
example : (exportTable intOps false demo).map (fun t => t.rows.map (fun r => r.take 5)) =
    some [[.num 7, .num 3, .num 5, .num 7, .str "B"], [.num 2, .num 3, .num 5, .num 2, .str "A"],
          [.num 11, .num 4, .num 6, .num 11, .str "B"]] := by decide
example : (exportTable intOps true demo).map (fun t => t.rows.map (fun r => r.head?)) =
    some [some (.num 1), some (.num 2), some (.num 3)] := by decide
example : ((exportTable intOps true demo).bind (importTable 0)).isSome = true := by decide
example : ∃ t, exportTable intOps true demo = some t ∧ checkFields demo t = true ∧
    checkHalf intOps demo t = true ∧ checkIdx intOps true demo t = true := ⟨_, rfl, by decide, by decide, by decide⟩
/-- the STAR-layer assumption is satisfiable: the identity "file" round-trips with `q = id` -/
example : StarRoundTrip (α := Int) ["A", "B"] id (fun _ t => t) (fun _ f => some f) := by
  intro spec t _
  have hc : (Cell.map (id : Int → Int)) = id := by funext c; cases c <;> rfl
  cases t with
  | mk cols rows => simp [SgTable.mapCells, hc]

end CryoCat.C04
