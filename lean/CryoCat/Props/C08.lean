import CryoCat.Lemmas.C08
import CryoCat.Lemmas.C08_DropDup
import CryoCat.Lemmas.C08_Objects
import CryoCat.Lemmas.C08_Merge
import CryoCat.Lemmas.C08_History
import CryoCat.Lemmas.C08_Order
import CryoCat.Lemmas.C08_CheckHistory
import CryoCat.Lemmas.C08_MergeAccepts
import CryoCat.Lemmas.C08_Cell
/-! C08 — particle-list set algebra and identifier discipline: property theorems about the
executable model `Model/C08.lean` (the definitions the driver runs). Only theorems and
non-vacuity examples; helper lemmas live in `Lemmas/C08*.lean`. -/
namespace CryoCat.C08
open CryoCat Gen.C08
set_option linter.unusedSectionVars false

/-! ### translator obligations: what the source says today is the documented behaviour -/

theorem anchors_ok : Gen.C08.anchorsOk = true := by decide

/-- the 20 fields, in the documented order -/
theorem columns_documented : motlColumnNames = Field.all.map Field.name := by decide

/-- `check_df_correct_format` accepts exactly the permutations of the 20 names -/
theorem format_check_is_permutation : formatIsPermCheck = true := by decide

/-- `get_motl_subset`: `self.df[feature_id] == i` for `i` in the requested values made 1-d by
`np.atleast_1d(np.asarray(·))`; the parts are APPENDED to an initially empty table
(`concat([acc, part])`), mask and selection use the same frame, `reset_index(drop=True)`.
Structural (ast shapes; local variable names are free): a renamed variable keeps this theorem, a
reordered `concat` (`.prepend`) or a different normalisation (`.wrapInList`, the D20 defect) breaks it. -/
theorem subset_operator : subsetCmp = Cmp.eq
    ∧ subsetLoop = { iter := .requested, norm := .atleast1d, acc := .append, reset := .dropTrue, sameFrame := true } := by
  decide

/-- `remove_feature`: `self.df[feature_id] != value` -/
theorem remove_operator : removeCmp = Cmp.ne := by decide

/-- `remove_feature`: the values are made 1-d by `np.atleast_1d(np.asarray(·))` like in `get_motl_subset` (every
array-like — list, tuple, ndarray, Series, scalar — is a list of values; the former `if not isinstance(v, (list,
np.ndarray)): v = [v]`, `.listOrArrayElseWrap`, compared a tuple with the whole column: D34), then `self.df` is NARROWED
value after value (`self.df = self.df.loc[self.df[f] != value]`, mask / selection / target are the same frame) -/
theorem remove_loop_documented :
    removeLoop = { iter := .requested, norm := .atleast1d, acc := .narrow, reset := .absent, sameFrame := true } := by
  decide

/-- `split_by_feature`: `== value` for value in the column's `Series.unique()` (resolved through the
helper method's return: order of first appearance), each part appended to an initially empty list
which is returned -/
theorem split_operator : splitCmp = Cmp.eq
    ∧ splitLoop = { iter := .uniqueFirst, norm := .none, acc := .append, reset := .absent, sameFrame := true } := by
  decide

/-- `get_motl_intersection`: rows of the first list selected by `isin` of the second's ids; both operands
are re-loaded from their frames (`cls.load(<operand>.df)`, which fills missing values); the selection
is returned re-indexed.  Locals are alpha-normalised (`v0`, `v1` = the two loaded operands, `v2` = the
selection): renaming them keeps this theorem. -/
theorem intersection_operator : intersectKeepsFirstByIsin = true
    ∧ intersectSelection = "v0.df.loc[v0.df[feature_id].isin(v1.df[feature_id])]"
    ∧ intersectOperands = "v0=cls.load(motl1.df);v1=cls.load(motl2.df)" ∧ loadFillValue = 0
    ∧ intersectReturn = "cls(v2.reset_index(drop=True))" := by decide

/-- `drop_duplicates`: id ascending, keep the first, defaults subtomo_id / score / descending -/
theorem dropdup_documented : ddFirstKeyAscending = true ∧ ddKeep = "first" ∧ ddDefaultDuplicates = "subtomo_id"
    ∧ ddDefaultDecision = "score" ∧ ddDefaultAscending = false := by decide

/-- both merging loops: shift iff `feature_min <= feature_add`, by `feature_add - feature_min + 1`
(alpha-normalised locals: `v3` the loaded list, `v4` its smallest object number, `v1` the running
largest one); every input is first LOADED (`cls.load(v2)`: a copy of a `Motl`, a re-load of a frame), so
the shift never touches the caller's own object -/
theorem merge_documented :
    mergeRenumberShiftCmp = Cmp.le ∧ mergeDropDupShiftCmp = Cmp.le
    ∧ mergeRenumberShift = "v3.df.loc[:,'object_id']=v3.df.loc[:,'object_id']+(v1-v4+1)"
    ∧ mergeDropDupShift = mergeRenumberShift
    ∧ mergeRenumberMinMax = "v4=min(v3.df.loc[:,'object_id']);v1=0|max(v3.df.loc[:,'object_id'])"
    ∧ mergeDropDupMinMax = mergeRenumberMinMax
    ∧ mergeRenumberTail = "renumber_particles()" ∧ mergeDropDupTail = "drop_duplicates()"
    ∧ mergeRenumberLoad = "cls.load(v2)" ∧ mergeDropDupLoad = "cls.load(v2)" := by decide

/-- the signature defaults the statement and the adapter rely on (the adapter omits these keywords in a
share of the calls): subset by `tomo_id`, returning a re-indexed `Motl`; intersection on `subtomo_id`;
`drop_duplicates` on `subtomo_id` / `score` / descending; objects renumbered from 1 -/
theorem signatures_documented : signatures =
    ["load(cls,input_motl,motl_type='emmotl')", "get_unique_values(self,feature_id)",
     "get_motl_subset(self,feature_values,feature_id='tomo_id',return_df=False,reset_index=True)",
     "remove_feature(self,feature_id,feature_values)",
     "split_by_feature(self,feature_id,write_out=False,output_prefix='')",
     "get_motl_intersection(cls,motl1,motl2,feature_id='subtomo_id')",
     "drop_duplicates(self,duplicates_column='subtomo_id',decision_column='score',decision_sort_ascending=False)",
     "merge_and_renumber(cls,motl_list)", "merge_and_drop_duplicates(cls,motl_list)", "renumber_particles(self)",
     "renumber_objects_sequentially(self,starting_number=1)"] := by decide

/-- digests of the WHOLE bodies (canonical form: names of locals, comments, docstrings, layout, type annotations,
the text of messages, the condition of an `if` that guards nothing but a message, and the position of independent
constant initialisations are free; every other statement,
expression, keyword and constant counts) of the functions the property is about,
including the branches no generated call executes (`write_out`, the `raise` guards): an added,
removed or changed statement anywhere in them breaks this theorem -/
theorem bodies_documented : bodyDigests =
    ["Motl.__init__:0dac581f53f53068",
     "Motl.create_empty_motl_df:c3586e54117f4b10",
     "Motl.check_df_correct_format:1c05710067fcabf5",
     "Motl.check_df_type:0173ab6026235504",
     "Motl.load:edb38fc7d294ed1f",
     "Motl.get_unique_values:28140647e59a70cb",
     "Motl.get_motl_subset:fe7033c7a5d40c5f",
     "Motl.remove_feature:14b1dd8afbed2e2e",
     "Motl.split_by_feature:e3f12653a2a5cd8d",
     "Motl.get_motl_intersection:6d3f6dce0f2dc40f",
     "Motl.drop_duplicates:1c51d98b933eb2d2",
     "Motl.merge_and_renumber:100e0b30c2873281",
     "Motl.merge_and_drop_duplicates:d401c65488f39abd",
     "Motl.renumber_particles:a0c49ba6c4653385",
     "Motl.renumber_objects_sequentially:3278d3640571aeee",
     "EmMotl.__init__:b84c41fc81e00816"] := by decide

/-! the same digests one function at a time, so that a broken one is NAMED in the list of failing declarations -/
theorem body_Motl_init_documented : "Motl.__init__:0dac581f53f53068" ∈ bodyDigests := by decide
theorem body_Motl_create_empty_motl_df_documented : "Motl.create_empty_motl_df:c3586e54117f4b10" ∈ bodyDigests := by decide
theorem body_Motl_check_df_correct_format_documented : "Motl.check_df_correct_format:1c05710067fcabf5" ∈ bodyDigests := by decide
theorem body_Motl_check_df_type_documented : "Motl.check_df_type:0173ab6026235504" ∈ bodyDigests := by decide
theorem body_Motl_load_documented : "Motl.load:edb38fc7d294ed1f" ∈ bodyDigests := by decide
theorem body_Motl_get_unique_values_documented : "Motl.get_unique_values:28140647e59a70cb" ∈ bodyDigests := by decide
theorem body_Motl_get_motl_subset_documented : "Motl.get_motl_subset:fe7033c7a5d40c5f" ∈ bodyDigests := by decide
theorem body_Motl_remove_feature_documented : "Motl.remove_feature:14b1dd8afbed2e2e" ∈ bodyDigests := by decide
theorem body_Motl_split_by_feature_documented : "Motl.split_by_feature:e3f12653a2a5cd8d" ∈ bodyDigests := by decide
theorem body_Motl_get_motl_intersection_documented : "Motl.get_motl_intersection:6d3f6dce0f2dc40f" ∈ bodyDigests := by decide
theorem body_Motl_drop_duplicates_documented : "Motl.drop_duplicates:1c51d98b933eb2d2" ∈ bodyDigests := by decide
theorem body_Motl_merge_and_renumber_documented : "Motl.merge_and_renumber:100e0b30c2873281" ∈ bodyDigests := by decide
theorem body_Motl_merge_and_drop_duplicates_documented : "Motl.merge_and_drop_duplicates:d401c65488f39abd" ∈ bodyDigests := by decide
theorem body_Motl_renumber_particles_documented : "Motl.renumber_particles:a0c49ba6c4653385" ∈ bodyDigests := by decide
theorem body_Motl_renumber_objects_sequentially_documented : "Motl.renumber_objects_sequentially:3278d3640571aeee" ∈ bodyDigests := by decide
theorem body_EmMotl_init_documented : "EmMotl.__init__:b84c41fc81e00816" ∈ bodyDigests := by decide

/-- no class of `cryomotl.py` other than `Motl` (re)defines one of the anchored methods: the lists users hold are
`EmMotl` / `RelionMotl` / `StopgapMotl` / `DynamoMotl` instances and run the anchored `Motl.<method>` bodies -/
theorem no_subclass_overrides : subclassOverrides = [] := by decide

/-- the class methods return `cls(<frame>)`: every subclass constructor hands a DataFrame to `check_df_type` (a frame
with the 20 columns is taken as it is, row labels reset, missing values filled) -/
theorem subclass_constructors_documented : subclassConstructors =
    ["EmMotl:self.check_df_type(<frame>)", "RelionMotl:self.check_df_type(<frame>)",
     "StopgapMotl:self.check_df_type(<frame>)", "DynamoMotl:self.check_df_type(<frame>)",
     "ModMotl:self.check_df_type(<frame>)"] := by decide

/-- the classes of `cryomotl.py` whose base chain reaches `Motl`, DERIVED from the source: exactly the five the generator
uses as receivers of the class methods and as classes of the starting list (`SUBCLASSES` in `harness/props/c08.py`) and
`subclass_constructors_documented` anchors.  A new list class breaks this theorem until it has a stream. -/
theorem subclasses_documented : motlSubclasses = ["EmMotl", "RelionMotl", "StopgapMotl", "DynamoMotl", "ModMotl"] := by decide

/-- `renumber_particles`: `subtomo_id := 1 .. len` -/
theorem renumber_particles_documented : renumberParticlesFirst = 1
    ∧ renumberParticlesAssign = "self.df.loc[:,'subtomo_id']=list(range(1,len(self.df)+1))" := by decide

/-- `renumber_objects_sequentially`: default start 1; the frame is re-indexed (`reset_index(drop=True)`),
grouped by `tomo_id` in ascending key order, every group gets `factorize()[0] + start` (first
appearance), the running start becomes `max + 1`, groups are written back and the frame is stored -/
theorem renumber_objects_documented : renumberObjectsDefaultStart = 1
    ∧ objLoop = { groupKey := "tomo_id", groupOrder := .uniqueSorted, codes := .factorizeFirst, startUpdate := some 1,
                  reset := .dropTrue, writesBack := true } := by decide

theorem objKeysCfg_eq {α : Type} [BEq α] [LT α] [DecidableLT α] (l : Motl α) : objKeysCfg l = objKeys l := by
  unfold objKeysCfg
  rw [renumber_objects_documented.2]

theorem dd_default_fields : ddDefaultDup = Field.subtomo_id ∧ ddDefaultDec = Field.score := by decide

/-! ### selecting, removing, splitting, intersecting -/
section setops
set_option linter.unusedSectionVars false
variable {α : Type} [DecidableEq α] [LT α] [DecidableLT α]

/-- **Subset.** The subset holds exactly the matching rows, grouped by requested value (in the
order requested, a value requested twice gives its rows twice), original order inside a group.
(Does NOT need reflexivity of `=`: `subset_spec_beq` is the same statement for any `==`.) -/
theorem subset_spec (f : Field) (vs : List α) (l : Motl α) :
    subset f vs l = vs.flatMap (fun v => l.filter (fun p => decide (p.get f = v))) := by
  unfold subset runLoop
  rw [subset_operator.1, subset_operator.2]
  exact foldl_append_flatMap _ vs []

theorem mem_subset (f : Field) (vs : List α) (l : Motl α) (p : Particle α) :
    p ∈ subset f vs l ↔ p ∈ l ∧ p.get f ∈ vs := by
  rw [subset_spec]
  simp only [List.mem_flatMap, List.mem_filter, decide_eq_true_eq]
  constructor
  · rintro ⟨v, hv, hp, rfl⟩; exact ⟨hp, hv⟩
  · rintro ⟨hp, hv⟩; exact ⟨_, hv, hp, rfl⟩

/-- for distinct requested values the subset is a rearrangement of the matching rows -/
theorem subset_perm (f : Field) (vs : List α) (l : Motl α) (hvs : vs.Nodup) :
    (subset f vs l).Perm (l.filter (fun p => decide (p.get f ∈ vs))) := by
  rw [subset_spec]
  have h := flatMap_filter_perm (fun p : Particle α => p.get f) vs (l.filter (fun p => decide (p.get f ∈ vs))) hvs
    (by intro p hp; simpa using (List.mem_filter.1 hp).2)
  refine List.Perm.trans (List.Perm.of_eq ?_) h
  apply flatMap_congr'
  intro v hv
  rw [List.filter_filter]
  apply List.filter_congr
  intro p _
  by_cases h1 : p.get f = v
  · subst h1; simp [hv]
  · simp [h1]

/-- **Removal** keeps exactly the rows whose value is none of the given ones, in order. -/
theorem remove_spec (f : Field) (vs : List α) (l : Motl α) :
    remove f vs l = l.filter (fun p => decide (p.get f ∉ vs)) := by
  unfold remove runLoop
  rw [remove_loop_documented]
  show vs.foldl (fun acc v => acc.filter (fun p => removeCmp.test (p.get f) v)) l = _
  rw [remove_fold, remove_operator]
  apply List.filter_congr
  intro p _
  rw [Bool.eq_iff_iff, List.all_eq_true, decide_eq_true_iff]
  constructor
  · intro hall hm
    have := hall _ hm
    simp [Cmp.test] at this
  · intro hn v hv
    have : p.get f ≠ v := fun e => hn (e ▸ hv)
    simp [Cmp.test, this]

/-- **Removal and selection are complementary**: together they hold every row exactly once, and no
row is in both. -/
theorem remove_subset_complement (f : Field) (vs : List α) (l : Motl α) (hvs : vs.Nodup) :
    (subset f vs l ++ remove f vs l).Perm l := by
  rw [remove_spec]
  refine (List.Perm.append_right _ (subset_perm f vs l hvs)).trans ?_
  have := List.filter_append_perm (fun p : Particle α => decide (p.get f ∈ vs)) l
  simpa using this

theorem remove_subset_disjoint (f : Field) (vs : List α) (l : Motl α) (p : Particle α)
    (h : p ∈ subset f vs l) : p ∉ remove f vs l := by
  rw [remove_spec]
  have := ((mem_subset f vs l p).1 h).2
  simp [this]

/-- **Split.** One part per distinct value, in order of first appearance; each part is the rows
with that value in original order. -/
theorem split_spec (f : Field) (l : Motl α) :
    split f l = (uniq (l.map (·.get f))).map (fun v => l.filter (fun p => decide (p.get f = v))) := by
  unfold split iterValues
  rw [split_operator.1, split_operator.2]
  rfl

/-- **Splitting partitions the list**: the parts together are a rearrangement of the list …
NEEDS `=` to be reflexive on the feature values (`[DecidableEq α]`): see `split_drops_irreflexive_rows`
for what happens to a row whose feature is a missing value under IEEE `==` (open known finding C08-K1). -/
theorem split_partition (f : Field) (l : Motl α) : (split f l).flatten.Perm l := by
  rw [split_spec, ← List.flatMap_def]
  exact flatMap_filter_perm (fun p : Particle α => p.get f) _ l (uniq_nodup _)
    (by intro p hp; exact (uniq_mem _ _).2 (List.mem_map.2 ⟨p, hp, rfl⟩))

/-- … and rows of different parts differ in the field (the parts are pairwise disjoint) … -/
theorem split_disjoint (f : Field) (l : Motl α) :
    (split f l).Pairwise (fun a b => ∀ p ∈ a, ∀ q ∈ b, p.get f ≠ q.get f) := by
  rw [split_spec, List.pairwise_map]
  refine (uniq_nodup (l.map (·.get f))).imp ?_
  intro v w hvw p hp q hq
  have h1 : p.get f = v := by simpa using (List.mem_filter.1 hp).2
  have h2 : q.get f = w := by simpa using (List.mem_filter.1 hq).2
  rw [h1, h2]; exact hvw

/-- … and no part is empty. -/
theorem split_parts_nonempty (f : Field) (l : Motl α) : ∀ part ∈ split f l, part ≠ [] := by
  rw [split_spec]
  intro part hpart
  obtain ⟨v, hv, rfl⟩ := List.mem_map.1 hpart
  obtain ⟨p, hp, hpv⟩ := List.mem_map.1 ((uniq_mem _ _).1 hv)
  intro h
  have : p ∈ l.filter (fun p => decide (p.get f = v)) := List.mem_filter.2 ⟨hp, by simpa using hpv⟩
  rw [h] at this
  cases this

/-- **Intersection.** Exactly the rows of the first list whose id occurs in the second, in the
order and multiplicity of the FIRST list (a repeated id in the second list changes nothing); both
operands pass through `Motl.load`, so ids are compared, and rows returned, after `fill`. -/
theorem intersect_spec (fill : α → α) (f : Field) (l o : Motl α) :
    intersect fill f l o
      = (l.filter (fun p => decide (∃ q ∈ o, fill (q.get f) = fill (p.get f)))).map (fillRow fill) := by
  unfold intersect
  rw [intersection_operator.1]
  simp only [if_true, List.filter_map]
  congr 1
  apply List.filter_congr
  intro p _
  rw [Bool.eq_iff_iff, decide_eq_true_iff]
  simp only [Function.comp, List.any_eq_true, List.mem_map, beq_iff_eq, get_fillRow]
  constructor
  · rintro ⟨q', ⟨q, hq, rfl⟩, e⟩
    exact ⟨q, hq, by rw [get_fillRow] at e; exact e⟩
  · rintro ⟨q, hq, e⟩
    exact ⟨fillRow fill q, ⟨q, hq, rfl⟩, by rw [get_fillRow]; exact e⟩

/-- when no id is missing (`fill` leaves the ids alone) this is membership of the id among the
second list's ids -/
theorem intersect_spec_ids (fill : α → α) (f : Field) (l o : Motl α)
    (hl : ∀ p ∈ l, fill (p.get f) = p.get f) (ho : ∀ q ∈ o, fill (q.get f) = q.get f) :
    intersect fill f l o = (l.filter (fun p => decide (p.get f ∈ o.map (·.get f)))).map (fillRow fill) := by
  rw [intersect_spec]
  congr 1
  apply List.filter_congr
  intro p hp
  rw [hl p hp]
  apply decide_eq_decide.2
  constructor
  · rintro ⟨q, hq, e⟩; exact List.mem_map.2 ⟨q, hq, by rw [← e, ho q hq]⟩
  · intro h; obtain ⟨q, hq, e⟩ := List.mem_map.1 h; exact ⟨q, hq, by rw [ho q hq]; exact e⟩

/-- and when the first list has no missing value at all, its surviving rows come back unchanged -/
theorem intersect_spec_no_missing (fill : α → α) (f : Field) (l o : Motl α)
    (hl : ∀ p ∈ l, ∀ g, fill (p.get g) = p.get g) (ho : ∀ q ∈ o, fill (q.get f) = q.get f) :
    intersect fill f l o = l.filter (fun p => decide (p.get f ∈ o.map (·.get f))) := by
  rw [intersect_spec_ids fill f l o (fun p hp => hl p hp f) ho]
  conv => rhs; rw [← List.map_id (l.filter _)]
  apply List.map_congr_left
  intro p hp
  apply Particle.ext_get
  intro g
  rw [get_fillRow, hl p (List.mem_filter.1 hp).1 g]; rfl

end setops

/-! ### dropping duplicates -/
section dropdup
variable {α : Type} [LinearOrder α]

/-- (NEEDS a linear order with reflexive `=` on ids and decision values: "every id survives" is stated
with `=`; a missing id is outside this theorem — the real code collapses all missing ids into one row,
class C08-K2 reported by the hardening pass.)
**Duplicate dropping keeps exactly one best-scoring row per id**: the surviving ids are
pairwise different; every survivor is a row of the list; every id of the list survives; and the
survivor of an id has the best decision value among all rows of that id (largest when sorting
descending, smallest when ascending). -/
theorem dropDup_spec (dup dec : Field) (asc : Bool) (l : Motl α) :
    ((dropDup dup dec asc l).map (·.get dup)).Nodup
    ∧ (∀ q ∈ dropDup dup dec asc l, q ∈ l)
    ∧ (∀ p ∈ l, ∃ q ∈ dropDup dup dec asc l, q.get dup = p.get dup)
    ∧ (∀ q ∈ dropDup dup dec asc l, ∀ p ∈ l, p.get dup = q.get dup →
        if asc then q.get dec ≤ p.get dec else p.get dec ≤ q.get dec) := by
  have hperm := List.mergeSort_perm l (ddLe dup dec asc)
  refine ⟨firstPer_ids_nodup _ _, ?_, ?_, ?_⟩
  · intro q hq
    exact hperm.mem_iff.1 ((firstPer_sublist dup _).subset hq)
  · intro p hp
    exact firstPer_covers dup _ p (hperm.mem_iff.2 hp)
  · intro q hq p hp hpq
    have hb := firstPer_first dup (Before dup dec asc) _ (sorted_before dropdup_documented.1 dup dec asc l)
      (before_refl dup dec asc) q hq p (hperm.mem_iff.2 hp) hpq
    rcases hb with hlt | ⟨_, hd⟩
    · exact absurd hpq.symm (ne_of_lt hlt)
    · exact hd

/-- the result is ordered by strictly increasing id -/
theorem dropDup_sorted (dup dec : Field) (asc : Bool) (l : Motl α) :
    (dropDup dup dec asc l).Pairwise (fun a b => a.get dup < b.get dup) := by
  have hs := (sorted_before dropdup_documented.1 dup dec asc l).sublist (firstPer_sublist dup _)
  have hn := firstPer_ids_nodup dup (l.mergeSort (ddLe dup dec asc))
  rw [List.Nodup, List.pairwise_map] at hn
  have := hs.and hn
  refine this.imp ?_
  rintro a b ⟨hb, hne⟩
  rcases hb with h | ⟨e, _⟩
  · exact h
  · exact absurd e hne

end dropdup


/-! ### renumbering particles; merging with renumbering -/
section numbering
set_option linter.unusedSectionVars false
variable {α : Type}

/-- **Renumbering particles** gives subtomogram numbers 1..N in row order and touches nothing else. -/
theorem renumberParticles_spec (nat : Nat → α) (l : Motl α) :
    (renumberParticles nat l).map (·.subtomo_id) = (List.range l.length).map (fun i => nat (i + 1))
    ∧ List.Forall₂ (fun p q => ∀ f : Field, f ≠ Field.subtomo_id → q.get f = p.get f) l (renumberParticles nat l) := by
  unfold renumberParticles
  rw [renumber_particles_documented.1]
  refine ⟨?_, numberFrom_others nat 1 l⟩
  rw [numberFrom_ids]
  apply List.map_congr_left
  intro i _
  rw [Nat.add_comm]

end numbering

section merge
variable {α : Type} [CommRing α] [LinearOrder α] [IsStrictOrderedRing α]

/-- **Merging with renumbering yields subtomogram numbers 1..N** (N = total number of rows of all
inputs, empty inputs contribute nothing). -/
theorem mergeRenumber_ids (nat : Nat → α) (ls : List (Motl α)) :
    (mergeRenumber nat ls).map (·.subtomo_id) = (List.range ls.flatten.length).map (fun i => nat (i + 1)) := by
  unfold mergeRenumber
  rw [(renumberParticles_spec nat _).1, mergeBlocks_length]

/-- (NEEDS a linear order on object numbers — `min` / `max` of a column holding a missing value are
order-dependent in the real code: class C08-K3 reported by the hardening pass.)
**Object numbers never collide across inputs and each input keeps its grouping**: the merged
table is the non-empty inputs in order (`blocks`), every object number of a later input is strictly
larger than every object number of an earlier one, and inside one input all object numbers are
moved by ONE offset (so equal stays equal and different stays different). -/
theorem mergeRenumber_objects (nat : Nat → α) (ls : List (Motl α)) :
    (mergeRenumber nat ls).map (·.object_id) = ((mergeBlocks Cmp.le 0 ls).flatten).map (·.object_id)
    ∧ (mergeBlocks Cmp.le 0 ls).Pairwise (fun b c => ∀ p ∈ b, ∀ q ∈ c, p.object_id < q.object_id)
    ∧ List.Forall₂ (fun m b => ∃ c : α, b = shiftObj c m) (ls.filter (fun m => !m.isEmpty)) (mergeBlocks Cmp.le 0 ls) := by
  refine ⟨?_, mergeBlocks_increasing 0 ls, mergeBlocks_offsets 0 ls⟩
  unfold mergeRenumber renumberParticles
  rw [merge_documented.1, numberFrom_objs]

/-- a uniform offset keeps the grouping by object number -/
theorem shiftObj_grouping (c : α) (p q : Particle α) :
    (p.set .object_id (p.object_id + c)).object_id = (q.set .object_id (q.object_id + c)).object_id
      ↔ p.object_id = q.object_id := by
  show p.object_id + c = q.object_id + c ↔ _
  exact add_left_inj c

/-- **Merging and dropping duplicates** is the same shifting of object numbers followed by
`dropDup` (to which `dropDup_spec` applies). -/
theorem mergeDropDup_spec (ls : List (Motl α)) :
    mergeDropDup ddDefaultDup ddDefaultDec ddDefaultAscending ls
      = dropDup Field.subtomo_id Field.score false ((mergeBlocks Cmp.le 0 ls).flatten) := by
  unfold mergeDropDup
  rw [merge_documented.2.1, dd_default_fields.1, dd_default_fields.2, dropdup_documented.2.2.2.2]

end merge

/-! ### sequential object renumbering -/
section objects
variable {α : Type} [LinearOrder α] [Add α]

/-- (NEEDS `=` to be reflexive on `tomo_id` / `object_id` (`[LinearOrder α]`): see
`renumberObjects_irreflexive_rows` for a missing key, open known finding C08-K1.)
**Sequential object renumbering keeps the (tomogram, object) grouping under consecutive
numbers.** Rows keep their place and all other fields; two rows get the same new number exactly
when they had the same (tomogram, object) pair; the numbers handed out are exactly
`start + 0, …, start + (K-1)` where `K` is the number of distinct pairs (`objKeys l` lists each
pair once). `hinj` says that `start + i` are different numbers for different `i`. -/
theorem renumberObjects_spec (nat : Nat → α) (start : α) (l : Motl α)
    (hinj : ∀ i j : Nat, start + nat i = start + nat j → i = j) :
    renumberObjects nat start l = l.map (fun p => p.set .object_id (newObjId nat start l p))
    ∧ (∀ p ∈ l, ∀ q ∈ l, newObjId nat start l p = newObjId nat start l q
          ↔ (p.tomo_id = q.tomo_id ∧ p.object_id = q.object_id))
    ∧ (∀ p ∈ l, ∃ i, i < (objKeys l).length ∧ newObjId nat start l p = start + nat i)
    ∧ (∀ i, i < (objKeys l).length → ∃ p ∈ l, newObjId nat start l p = start + nat i)
    ∧ (objKeys l).Nodup
    ∧ (∀ t o, (t, o) ∈ objKeys l ↔ ∃ p ∈ l, p.tomo_id = t ∧ p.object_id = o) := by
  refine ⟨rfl, ?_, ?_, ?_, objKeys_nodup l, mem_objKeys l⟩
  · intro p hp q hq
    unfold newObjId
    rw [objKeysCfg_eq]
    constructor
    · intro h; exact (keyIdx_eq_iff l p q hp hq).1 (hinj _ _ h)
    · intro h; rw [(keyIdx_eq_iff l p q hp hq).2 h]
  · intro p hp; exact ⟨_, keyIdx_lt l p hp, by unfold newObjId; rw [objKeysCfg_eq]⟩
  · intro i hi
    obtain ⟨p, hp, e⟩ := keyIdx_surj l i hi
    exact ⟨p, hp, by unfold newObjId; rw [objKeysCfg_eq, e]⟩

/-- item "hoisting": `renumberObjects` computes the class list once (`renumberObjectsWith … (objKeysCfg l) l`);
row by row it is the map every theorem of this section is about — the two readings are the same term up to
unfolding (`rfl`), so the optimisation changes the running time of the driver only -/
theorem renumberObjects_eq_map_newObjId (nat : Nat → α) (start : α) (l : Motl α) :
    renumberObjects nat start l = l.map (fun p => p.set .object_id (newObjId nat start l p)) := rfl

/-- numbers are handed out tomogram by tomogram in ascending order, so the objects of one tomogram
receive one block of consecutive numbers -/
theorem renumberObjects_tomo_blocks (l : Motl α) (p q : Particle α) (hp : p ∈ l) (hq : q ∈ l)
    (h : p.tomo_id < q.tomo_id) : keyIdx (objKeys l) p < keyIdx (objKeys l) q :=
  keyIdx_mono_tomo l p q hp hq h

theorem renumberObjects_others (nat : Nat → α) (start : α) (l : Motl α) :
    List.Forall₂ (fun p q => ∀ f : Field, f ≠ Field.object_id → q.get f = p.get f) l (renumberObjects nat start l) := by
  show List.Forall₂ _ l (l.map (fun p => p.set .object_id (newObjId nat start l p)))
  generalize newObjId nat start l = g
  induction l with
  | nil => exact List.Forall₂.nil
  | cons p l ih => exact List.Forall₂.cons (fun f hf => Particle.get_set_other _ _ _ _ hf) ih

end objects

/-! ### histories: after any sequence of operations only the id fields have been rewritten -/
section history
variable {α : Type} [CommRing α] [LinearOrder α] [IsStrictOrderedRing α]

/-- **One operation**: every row of the result is a row of the current list or of a list the
operation brings in, with only id fields rewritten.  A missing value may have been filled ONLY by an
operation that re-loads a frame through `Motl.load` (`Op.mayFill`: intersection; a merge with a bare
DataFrame among its inputs) — for every other operation `opFill fill op` is the identity and the
statement is the literal one (see `step_rows_literal`). -/
theorem step_rows (fill : α → α) (nat : Nat → α) (op : Op α) (l : Motl α) :
    ∀ q ∈ step fill nat op l, ∃ p ∈ l ++ op.sources, Unchanged (opFill fill op) p q := by
  intro q hq
  cases op with
  | subset f vs =>
    exact ⟨q, List.mem_append_left _ ((mem_subset f vs l q).1 hq).1, unchanged_refl _ q⟩
  | remove f vs =>
    simp only [step] at hq
    rw [remove_spec] at hq
    exact ⟨q, List.mem_append_left _ (List.mem_filter.1 hq).1, unchanged_refl _ q⟩
  | splitPick f i =>
    simp only [step, split_spec] at hq
    rw [List.getD_eq_getElem?_getD] at hq
    cases h : ((uniq (l.map (·.get f))).map (fun v => l.filter (fun p => decide (p.get f = v))))[i]? with
    | none => rw [h] at hq; simp at hq
    | some part =>
      rw [h] at hq
      obtain ⟨v, _, rfl⟩ := List.mem_map.1 (List.mem_of_getElem? h)
      exact ⟨q, List.mem_append_left _ (List.mem_filter.1 hq).1, unchanged_refl _ q⟩
  | intersect f o =>
    simp only [step] at hq
    rw [intersect_spec] at hq
    obtain ⟨p, hp, rfl⟩ := List.mem_map.1 hq
    exact ⟨p, List.mem_append_left _ (List.mem_filter.1 hp).1, fun g _ _ => Or.inr (get_fillRow fill p g)⟩
  | dropDup dup dec asc =>
    exact ⟨q, List.mem_append_left _ ((dropDup_spec dup dec asc l).2.1 q hq), unchanged_refl _ q⟩
  | mergeRenumber b a s =>
    simp only [step, mergeRenumber, renumberParticles] at hq
    obtain ⟨p1, hp1, h1⟩ := numberFrom_rows nat _ _ q hq
    obtain ⟨m, hm, p2, hp2, h2⟩ := mergeBlocks_flat_rows _ _ p1 hp1
    obtain ⟨p0, hp0, hu⟩ := mergeInputs_rows fill b a s l m hm p2 hp2
    refine ⟨p0, hp0, ?_⟩
    intro f hf1 hf2
    rw [h1 f hf1, h2 f hf2]
    exact hu f hf1 hf2
  | mergeDropDup b a s =>
    simp only [step, mergeDropDup] at hq
    have hp1 := (dropDup_spec _ _ _ _).2.1 q hq
    obtain ⟨m, hm, p2, hp2, h2⟩ := mergeBlocks_flat_rows _ _ q hp1
    obtain ⟨p0, hp0, hu⟩ := mergeInputs_rows fill b a s l m hm p2 hp2
    refine ⟨p0, hp0, ?_⟩
    intro f hf1 hf2
    rw [h2 f hf2]
    exact hu f hf1 hf2
  | renumberParticles =>
    simp only [step, renumberParticles] at hq
    obtain ⟨p, hp, h⟩ := numberFrom_rows nat _ _ q hq
    exact ⟨p, List.mem_append_left _ hp, fun f hf1 _ => Or.inl (h f hf1)⟩
  | renumberObjects start =>
    simp only [step, renumberObjects] at hq
    obtain ⟨p, hp, rfl⟩ := List.mem_map.1 hq
    exact ⟨p, List.mem_append_left _ hp, fun f _ hf2 => Or.inl (Particle.get_set_other _ _ _ _ hf2)⟩

/-- **One operation that does not re-load a frame** (subset / remove / split / drop-duplicates /
renumber particles / renumber objects / a merge of `Motl` objects only): literally no field other
than the two id fields has changed — a subset that zeroes a missing value does NOT satisfy this. -/
theorem step_rows_literal (fill : α → α) (nat : Nat → α) (op : Op α) (hop : op.mayFill = false) (l : Motl α) :
    ∀ q ∈ step fill nat op l, ∃ p ∈ l ++ op.sources, Literal p q := by
  intro q hq
  obtain ⟨p, hp, hu⟩ := step_rows fill nat op l q hq
  refine ⟨p, hp, (literal_iff_unchanged_id p q).2 ?_⟩
  unfold opFill at hu
  rw [hop] at hu
  exact hu

/-- **After any sequence of operations** (any length, any arguments) every surviving row is one of
the rows that entered the history — of the initial list or of a list merged / intersected in —
and none of its fields other than `subtomo_id` / `object_id` has changed; a missing value may have
been replaced by `fill` (= what `Motl.load` does; idempotent) ONLY if the history contains an
operation that re-loads a frame (`histFill fill ops` is the identity otherwise).
The schema — exactly the 20 fields — is the type `Particle`. -/
theorem history_rows (fill : α → α) (nat : Nat → α) (hfill : ∀ v, fill (fill v) = fill v)
    (ops : List (Op α)) (l : Motl α) :
    ∀ q ∈ run fill nat ops l, ∃ p ∈ l ++ ops.flatMap Op.sources, Unchanged (histFill fill ops) p q := by
  induction ops generalizing l with
  | nil => intro q hq; exact ⟨q, by simpa [run] using hq, unchanged_refl _ q⟩
  | cons op ops ih =>
    intro q hq
    have hq' : q ∈ run fill nat ops (step fill nat op l) := by simpa [run] using hq
    obtain ⟨p1, hp1, hu1⟩ := ih (step fill nat op l) q hq'
    have hu1' := unchanged_hist_cons fill op ops p1 q hu1
    rw [List.flatMap_cons]
    rcases List.mem_append.1 hp1 with h | h
    · obtain ⟨p0, hp0, hu0⟩ := step_rows fill nat op l p1 h
      refine ⟨p0, ?_, unchanged_trans _ (histFill_idem fill hfill _) p0 p1 q
        (unchanged_op_to_hist fill op ops p0 p1 hu0) hu1'⟩
      rcases List.mem_append.1 hp0 with h0 | h0
      · exact List.mem_append_left _ h0
      · exact List.mem_append_right _ (List.mem_append_left _ h0)
    · exact ⟨p1, List.mem_append_right _ (List.mem_append_right _ h), hu1'⟩

/-- the weaker reading used before the hardening pass (a fill permitted everywhere) follows -/
theorem history_rows_modulo_fill (fill : α → α) (nat : Nat → α) (hfill : ∀ v, fill (fill v) = fill v)
    (ops : List (Op α)) (l : Motl α) :
    ∀ q ∈ run fill nat ops l, ∃ p ∈ l ++ ops.flatMap Op.sources, Unchanged fill p q := by
  intro q hq
  obtain ⟨p, hp, hu⟩ := history_rows fill nat hfill ops l q hq
  refine ⟨p, hp, ?_⟩
  unfold histFill at hu
  split at hu
  · exact hu
  · exact unchanged_of_literal fill p q ((literal_iff_unchanged_id p q).2 hu)

/-- **a history without re-loading operations changes literally nothing** but the two id fields -/
theorem history_rows_literal (fill : α → α) (nat : Nat → α) (hfill : ∀ v, fill (fill v) = fill v)
    (ops : List (Op α)) (hops : ops.any Op.mayFill = false) (l : Motl α) :
    ∀ q ∈ run fill nat ops l, ∃ p ∈ l ++ ops.flatMap Op.sources, Literal p q := by
  intro q hq
  obtain ⟨p, hp, hu⟩ := history_rows fill nat hfill ops l q hq
  refine ⟨p, hp, (literal_iff_unchanged_id p q).2 ?_⟩
  rw [histFill_of_no_fill _ _ hops] at hu
  exact hu

/-- a history of pure selections (subset / remove / split / drop-duplicates) returns rows of the
initial list, every field untouched -/
theorem selection_history_rows (fill : α → α) (nat : Nat → α) (ops : List (Op α))
    (hsel : ∀ op ∈ ops, op.isSelection = true) (l : Motl α) :
    ∀ q ∈ run fill nat ops l, q ∈ l := by
  induction ops generalizing l with
  | nil => intro q hq; simpa [run] using hq
  | cons op ops ih =>
    intro q hq
    have hq' : q ∈ run fill nat ops (step fill nat op l) := by simpa [run] using hq
    have h1 := ih (fun o ho => hsel o (List.mem_cons_of_mem _ ho)) (step fill nat op l) q hq'
    have hop := hsel op (by simp)
    obtain ⟨p, hp, hu⟩ := step_rows fill nat op l q h1
    cases op with
    | subset f vs => exact ((mem_subset f vs l q).1 h1).1
    | remove f vs => simp only [step] at h1; rw [remove_spec] at h1; exact (List.mem_filter.1 h1).1
    | splitPick f i =>
      simp only [step, split_spec] at h1
      rw [List.getD_eq_getElem?_getD] at h1
      cases h : ((uniq (l.map (·.get f))).map (fun v => l.filter (fun p => decide (p.get f = v))))[i]? with
      | none => rw [h] at h1; simp at h1
      | some part =>
        rw [h] at h1
        obtain ⟨v, _, rfl⟩ := List.mem_map.1 (List.mem_of_getElem? h)
        exact (List.mem_filter.1 h1).1
    | dropDup dup dec asc => exact (dropDup_spec dup dec asc l).2.1 q h1
    | intersect f o => simp [Op.isSelection] at hop
    | mergeRenumber b a s => simp [Op.isSelection] at hop
    | mergeDropDup b a s => simp [Op.isSelection] at hop
    | renumberParticles => simp [Op.isSelection] at hop
    | renumberObjects start => simp [Op.isSelection] at hop

end history

/-! ### order statements (not only rearrangements) -/
section order
set_option linter.unusedSectionVars false
variable {α : Type} [DecidableEq α] [LT α] [DecidableLT α]

/-- **Split, order.** The parts of a split, concatenated in the order they are returned, ARE the
stable sort of the list by first-appearance rank of the field value: parts come in order of first
appearance and inside a part the rows keep their original order. -/
theorem split_flatten_eq_stable_sort (f : Field) (l : Motl α) :
    (split f l).flatten = l.mergeSort (rankLe (fun p => p.get f) (firstRank f l)) := by
  rw [split_spec, ← List.flatMap_def]
  exact flatMap_filter_eq_mergeSort _ _ _ (nodup_pairwise_idxOf _ (uniq_nodup _)) l
    (by intro p hp; exact (uniq_mem _ _).2 (List.mem_map.2 ⟨p, hp, rfl⟩))

/-- **Subset, order.** For pairwise different requested values the subset IS the stable sort of the
matching rows by the position of their value in the request. -/
theorem subset_eq_stable_sort (f : Field) (vs : List α) (l : Motl α) (hvs : vs.Nodup) :
    subset f vs l
      = (l.filter (fun p => decide (p.get f ∈ vs))).mergeSort (rankLe (fun p => p.get f) (fun v => vs.idxOf v)) := by
  rw [subset_spec]
  rw [← flatMap_filter_eq_mergeSort (fun p : Particle α => p.get f) (fun v => vs.idxOf v) vs
    (nodup_pairwise_idxOf vs hvs) (l.filter (fun p => decide (p.get f ∈ vs)))
    (by intro p hp; simpa using (List.mem_filter.1 hp).2)]
  apply flatMap_congr'
  intro v hv
  rw [List.filter_filter]
  apply List.filter_congr
  intro p _
  by_cases h1 : p.get f = v
  · subst h1; simp [hv]
  · simp [h1]

end order

/-! ### the verified checkers (`Model/C08_Check.lean`): the harness sends the REAL output of every
operation; a `spec` finding is reported exactly when the checker rejects. Soundness = an accepted
output satisfies the clauses of the statement (stated as Props over input and output, not as
"equals the model's output"); completeness = every output satisfying them is accepted.
`eqv` is the cell comparison (`heqv`: it is equality). -/
section checkers
set_option linter.unusedSectionVars false
variable {α : Type} [CommRing α] [LinearOrder α] [IsStrictOrderedRing α]
  (eqv : α → α → Bool) (heqv : ∀ a b, eqv a b = true ↔ a = b)
include heqv

omit heqv in
/-- "the table still has exactly the 20 fields": accepted iff the column names are a rearrangement
of the 20 names the source declares today -/
theorem check_schema_iff (cols : List String) : checkSchema cols = true ↔ cols.Perm motlColumnNames := by
  unfold checkSchema
  rw [columns_documented]
  exact List.isPerm_iff

theorem check_subset_sound (f : Field) (vs : List α) (l out : Motl α) (h : checkSubset eqv f vs l out = true) :
    SubsetOK f vs l out ∧ (∀ p, p ∈ out ↔ p ∈ l ∧ p.get f ∈ vs) := by
  have h1 := (checkSubset_iff eqv heqv f vs l out).1 h
  refine ⟨h1, fun p => ?_⟩
  rw [(subsetOK_iff eqv heqv f vs l out).1 h1, ← subset_spec]
  exact mem_subset f vs l p

theorem check_subset_complete (f : Field) (vs : List α) (l out : Motl α) (h : SubsetOK f vs l out) :
    checkSubset eqv f vs l out = true := (checkSubset_iff eqv heqv f vs l out).2 h

/-- the model's output is accepted (so the clause is satisfiable and agrees with `subset_spec`) -/
theorem check_subset_accepts_model (f : Field) (vs : List α) (l : Motl α) :
    checkSubset eqv f vs l (subset f vs l) = true :=
  (checkSubset_iff eqv heqv f vs l _).2 ((subsetOK_iff eqv heqv f vs l _).2 (subset_spec f vs l))

/-- for the subset the clause pins the table down: accepted exactly when it IS the model's output -/
theorem check_subset_iff_model (f : Field) (vs : List α) (l out : Motl α) :
    checkSubset eqv f vs l out = true ↔ out = subset f vs l := by
  rw [checkSubset_iff eqv heqv, subsetOK_iff eqv heqv, subset_spec]

theorem check_remove_sound (f : Field) (vs : List α) (l out : Motl α) (h : checkRemove eqv f vs l out = true) :
    RemoveOK f vs l out := (checkRemove_iff eqv heqv f vs l out).1 h

theorem check_remove_complete (f : Field) (vs : List α) (l out : Motl α) (h : RemoveOK f vs l out) :
    checkRemove eqv f vs l out = true := (checkRemove_iff eqv heqv f vs l out).2 h

theorem check_remove_accepts_model (f : Field) (vs : List α) (l : Motl α) :
    checkRemove eqv f vs l (remove f vs l) = true := by
  apply check_remove_complete eqv heqv
  rw [remove_spec]
  refine ⟨?_, fun p hp => by simpa using (List.mem_filter.1 hp).2⟩
  have := List.filter_append_perm (fun p : Particle α => decide (p.get f ∈ vs)) l
  refine List.Perm.trans List.perm_append_comm ?_
  simpa using this

theorem check_split_sound (f : Field) (l : Motl α) (parts : List (Motl α)) (h : checkSplit eqv f l parts = true) :
    SplitOK f l parts := (checkSplit_iff eqv heqv f l parts).1 h

theorem check_split_complete (f : Field) (l : Motl α) (parts : List (Motl α)) (h : SplitOK f l parts) :
    checkSplit eqv f l parts = true := (checkSplit_iff eqv heqv f l parts).2 h

theorem check_split_accepts_model (f : Field) (l : Motl α) : checkSplit eqv f l (split f l) = true := by
  apply check_split_complete eqv heqv
  refine ⟨split_partition f l, ?_, split_disjoint f l⟩
  intro part hpart
  refine ⟨split_parts_nonempty f l part hpart, ?_⟩
  rw [split_spec] at hpart
  obtain ⟨v, _, rfl⟩ := List.mem_map.1 hpart
  exact ⟨v, fun p hp => by simpa using (List.mem_filter.1 hp).2⟩

theorem check_intersect_sound (fill : α → α) (f : Field) (l o out : Motl α)
    (h : checkIntersect eqv fill f l o out = true) : IntersectOK fill f l o out :=
  (checkIntersect_iff eqv heqv fill f l o out).1 h

theorem check_intersect_complete (fill : α → α) (f : Field) (l o out : Motl α)
    (h : IntersectOK fill f l o out) : checkIntersect eqv fill f l o out = true :=
  (checkIntersect_iff eqv heqv fill f l o out).2 h

theorem check_intersect_accepts_model (fill : α → α) (hfill : ∀ v, fill (fill v) = fill v) (f : Field) (l o : Motl α) :
    checkIntersect eqv fill f l o (intersect fill f l o) = true := by
  apply check_intersect_complete eqv heqv
  rw [intersect_spec]
  constructor
  · rw [List.map_map]
    apply List.Perm.of_eq
    apply List.map_congr_left
    intro p _
    apply Particle.ext_get
    intro g
    simp only [Function.comp, get_fillRow, hfill]
  · intro q hq
    obtain ⟨p, hp, rfl⟩ := List.mem_map.1 hq
    exact ⟨p, (List.mem_filter.1 hp).1, fun g => Or.inr (get_fillRow fill p g)⟩

/-- **drop_duplicates, checked**: accepted ⇒ ids pairwise different, every output row is an input
row, every id survives, the survivor is a best-scoring row of its id -/
theorem check_dropdup_sound (dup dec : Field) (asc : Bool) (l out : Motl α)
    (h : checkDropDup eqv (fun v => v) dup dec asc l out = true) :
    (out.map (·.get dup)).Nodup ∧ (∀ q ∈ out, q ∈ l) ∧ (∀ p ∈ l, ∃ q ∈ out, q.get dup = p.get dup)
    ∧ (∀ q ∈ out, ∀ p ∈ l, p.get dup = q.get dup → if asc then q.get dec ≤ p.get dec else p.get dec ≤ q.get dec) := by
  obtain ⟨h1, h2, h3, h4⟩ := (checkDropDup_iff eqv heqv _ dup dec asc l out).1 h
  refine ⟨h1, ?_, h3, h4⟩
  intro q hq
  obtain ⟨p, hp, hs⟩ := h2 q hq
  have : q = p := Particle.ext_get (fun g => (hs g).elim id id)
  exact this ▸ hp

theorem check_dropdup_complete (fill : α → α) (dup dec : Field) (asc : Bool) (l out : Motl α)
    (h : DropDupOK fill dup dec asc l out) : checkDropDup eqv fill dup dec asc l out = true :=
  (checkDropDup_iff eqv heqv fill dup dec asc l out).2 h

theorem check_dropdup_accepts_model (dup dec : Field) (asc : Bool) (l : Motl α) :
    checkDropDup eqv (fun v => v) dup dec asc l (dropDup dup dec asc l) = true := by
  apply check_dropdup_complete eqv heqv
  obtain ⟨h1, h2, h3, h4⟩ := dropDup_spec dup dec asc l
  exact ⟨h1, fun q hq => ⟨q, h2 q hq, fun g => Or.inl rfl⟩, h3, h4⟩

theorem check_merge_renumber_sound (fill : α → α) (nat : Nat → α) (ins : List (Bool × Motl α)) (out : Motl α)
    (h : checkMergeRenumber eqv fill nat ins out = true) : MergeRenumberOK fill nat ins out :=
  (checkMergeRenumber_iff eqv heqv fill nat ins out).1 h

theorem check_merge_renumber_complete (fill : α → α) (nat : Nat → α) (ins : List (Bool × Motl α)) (out : Motl α)
    (h : MergeRenumberOK fill nat ins out) : checkMergeRenumber eqv fill nat ins out = true :=
  (checkMergeRenumber_iff eqv heqv fill nat ins out).2 h

/-- **merge_and_renumber: the model's own output is accepted — for EVERY list of tagged inputs**
(empty inputs, inputs handed over as bare DataFrames which `Motl.load` fills, any object numbers):
the output cuts into one block per input, each a faithful copy of its input with ONE object-number
offset, no two blocks share an object number, subtomogram numbers are 1..N.  So the clauses the checker
decides are satisfiable by the documented loop, whatever the inputs. -/
theorem check_merge_renumber_accepts_model (fill : α → α) (nat : Nat → α) (ins : List (Bool × Motl α)) :
    checkMergeRenumber eqv fill nat ins (mergeRenumber nat (ins.map (loaded fill))) = true := by
  apply check_merge_renumber_complete eqv heqv
  obtain ⟨bs, e, hb, hd⟩ := mergeRenumber_blocks fill nat 1 ins
  refine ⟨bs, ?_, hb, hd, ?_⟩
  · unfold mergeRenumber renumberParticles
    rw [merge_documented.1, renumber_particles_documented.1]
    exact e
  · rw [mergeRenumber_ids, loaded_flatten_length]

omit heqv in
/-- hence the clauses of `merge_and_renumber` hold for the model's output, whatever the inputs -/
theorem mergeRenumber_model_ok (fill : α → α) (nat : Nat → α) (ins : List (Bool × Motl α)) :
    MergeRenumberOK fill nat ins (mergeRenumber nat (ins.map (loaded fill))) :=
  check_merge_renumber_sound (fun a b => decide (a = b)) (fun a b => by simp) fill nat ins _
    (check_merge_renumber_accepts_model (fun a b => decide (a = b)) (fun a b => by simp) fill nat ins)

omit heqv in
/-- one offset per block keeps the grouping inside the block (equal stays equal, different stays
different); `g` = what loading did to the input's object numbers (identity for a `Motl` input) -/
theorem blockOK_grouping (g : α → α) (m b : Motl α) (h : BlockOK g m b) :
    ∀ x ∈ m.zip b, ∀ y ∈ m.zip b, x.2.object_id = y.2.object_id ↔ g x.1.object_id = g y.1.object_id := by
  obtain ⟨-, c, hc⟩ := h
  have hz : ∀ x ∈ m.zip b, x.2.object_id = g x.1.object_id + c := by
    induction hc with
    | nil => intro x hx; simp at hx
    | cons e _ ih =>
      intro x hx
      rw [List.zip_cons_cons] at hx
      rcases List.mem_cons.1 hx with rfl | hx'
      · exact e
      · exact ih x hx'
  intro x hx y hy
  rw [hz x hx, hz y hy]
  exact add_left_inj c

omit heqv in
/-- the clause Prop the merge checker decides (`MergeRenumberOK`: one additive offset per input, a fact about the
documented loop) implies what the statement says (`MergeRenumberStatement`: numbers 1..N, no collision across inputs,
grouping kept inside each input); the converse does not hold — an output that regroups nothing but moves the object
numbers of one input non-uniformly meets the statement and is rejected by the checker (then reported as a spec finding
although only the documented offset rule is broken: a known over-approximation, see Appendix C) -/
theorem mergeRenumberOK_statement (fill : α → α) (nat : Nat → α) (ins : List (Bool × Motl α)) (out : Motl α)
    (h : MergeRenumberOK fill nat ins out) : MergeRenumberStatement fill nat ins out := by
  obtain ⟨bs, e, hb, hd, hi⟩ := h
  exact ⟨bs, e, hb.imp (fun x b hxb => ⟨hxb.1, blockOK_grouping _ _ _ hxb⟩), hd, hi⟩

/-- an accepted `merge_and_renumber` step meets the statement's clause -/
theorem check_merge_renumber_statement (fill : α → α) (nat : Nat → α) (ins : List (Bool × Motl α)) (out : Motl α)
    (h : checkMergeRenumber eqv fill nat ins out = true) : MergeRenumberStatement fill nat ins out :=
  mergeRenumberOK_statement fill nat ins out ((checkMergeRenumber_iff eqv heqv fill nat ins out).1 h)

/-- with an offset certificate `cs` (one object-number offset per input) -/
theorem check_merge_dropdup_sound (fill : α → α) (cs : List α) (ins : List (Bool × Motl α)) (out : Motl α)
    (h : checkMergeDropDup eqv fill cs ins out = true) : MergeDropDupOK fill ins out :=
  (checkMergeDropDup_iff eqv heqv fill ins out).1 ⟨cs, h⟩

theorem check_merge_dropdup_complete (fill : α → α) (ins : List (Bool × Motl α)) (out : Motl α)
    (h : MergeDropDupOK fill ins out) : ∃ cs, checkMergeDropDup eqv fill cs ins out = true :=
  (checkMergeDropDup_iff eqv heqv fill ins out).2 h

/-- **merge_and_drop_duplicates: the model's own output is accepted — for EVERY list of tagged inputs**
(empty inputs, bare DataFrames, any object numbers), with the offsets the model's own loop used
(`mergeOffsets`, 0 for an empty or unshifted input) as the certificate. -/
theorem check_merge_dropdup_accepts_model (fill : α → α) (ins : List (Bool × Motl α)) :
    checkMergeDropDup eqv fill (mergeOffsets Cmp.le 0 (ins.map (loaded fill))) ins
      (mergeDropDup ddDefaultDup ddDefaultDec ddDefaultAscending (ins.map (loaded fill))) = true := by
  rw [checkMergeDropDup_cs_iff eqv heqv, mergeDropDup_spec]
  obtain ⟨h1, h2, h3, h4⟩ := dropDup_spec Field.subtomo_id Field.score false
    (mergeBlocks Cmp.le 0 (ins.map (loaded fill))).flatten
  exact mergeDropDup_clauses fill ins _ h1 h2 h3
    (fun q hq p hp e => by have := h4 q hq p hp e; simpa using this)

omit heqv in
/-- hence the clauses of `merge_and_drop_duplicates` hold for the model's output, whatever the inputs -/
theorem mergeDropDup_model_ok (fill : α → α) (ins : List (Bool × Motl α)) :
    MergeDropDupOK fill ins (mergeDropDup ddDefaultDup ddDefaultDec ddDefaultAscending (ins.map (loaded fill))) :=
  check_merge_dropdup_sound (fun a b => decide (a = b)) (fun a b => by simp) fill _ ins _
    (check_merge_dropdup_accepts_model (fun a b => decide (a = b)) (fun a b => by simp) fill ins)

theorem check_renumber_particles_sound (nat : Nat → α) (l out : Motl α)
    (h : checkRenumberParticles eqv nat l out = true) : RenumberParticlesOK nat l out :=
  (checkRenumberParticles_iff eqv heqv nat l out).1 h

theorem check_renumber_particles_complete (nat : Nat → α) (l out : Motl α)
    (h : RenumberParticlesOK nat l out) : checkRenumberParticles eqv nat l out = true :=
  (checkRenumberParticles_iff eqv heqv nat l out).2 h

theorem check_renumber_particles_accepts_model (nat : Nat → α) (l : Motl α) :
    checkRenumberParticles eqv nat l (renumberParticles nat l) = true :=
  check_renumber_particles_complete eqv heqv nat l _ (renumberParticles_spec nat l)

/-- the clauses of `renumber_particles` pin the table down: accepted exactly when it IS the model's output -/
theorem check_renumber_particles_iff_model (nat : Nat → α) (l out : Motl α) :
    checkRenumberParticles eqv nat l out = true ↔ out = renumberParticles nat l := by
  constructor
  · intro h
    obtain ⟨h1, h2⟩ := check_renumber_particles_sound eqv heqv nat l out h
    obtain ⟨m1, m2⟩ := renumberParticles_spec nat l
    exact renumbered_unique l out _ h2 m2 (h1.trans m1.symm)
  · rintro rfl
    exact check_renumber_particles_accepts_model eqv heqv nat l

theorem check_renumber_objects_sound (nat : Nat → α) (start : α) (l out : Motl α)
    (h : checkRenumberObjects eqv nat start l out = true) : RenumberObjectsOK nat start l out :=
  (checkRenumberObjects_iff eqv heqv nat start l out).1 h

theorem check_renumber_objects_complete (nat : Nat → α) (start : α) (l out : Motl α)
    (h : RenumberObjectsOK nat start l out) : checkRenumberObjects eqv nat start l out = true :=
  (checkRenumberObjects_iff eqv heqv nat start l out).2 h

/-- the model's renumbering is accepted (`hinj`: `start + i` are different numbers for different `i`) -/
theorem check_renumber_objects_accepts_model (nat : Nat → α) (start : α) (l : Motl α)
    (hinj : ∀ i j : Nat, start + nat i = start + nat j → i = j) :
    checkRenumberObjects eqv nat start l (renumberObjects nat start l) = true := by
  apply check_renumber_objects_complete eqv heqv
  obtain ⟨_, h2, h3, h4, h5, h6⟩ := renumberObjects_spec nat start l hinj
  have hz : ∀ a ∈ l.zip (renumberObjects nat start l), a.1 ∈ l ∧ a.2.object_id = newObjId nat start l a.1 := by
    intro a ha
    obtain ⟨h1, e⟩ := mem_zip_map_self _ l a ha
    exact ⟨h1, by rw [e]; exact Particle.get_set_same _ Field.object_id _⟩
  refine ⟨renumberObjects_others nat start l, ?_, objKeys l, h5, ?_, ?_, ?_⟩
  · intro a ha b hb
    rw [(hz a ha).2, (hz b hb).2]
    exact h2 _ (hz a ha).1 _ (hz b hb).1
  · intro k
    obtain ⟨t, o⟩ := k
    rw [h6]
    constructor
    · rintro ⟨p, hp, rfl, rfl⟩; exact ⟨p, hp, rfl⟩
    · rintro ⟨p, hp, e⟩; exact ⟨p, hp, (Prod.mk.inj e).1, (Prod.mk.inj e).2⟩
  · intro q hq
    obtain ⟨p, hp, rfl⟩ := List.mem_map.1 hq
    obtain ⟨i, hi, e⟩ := h3 p hp
    exact ⟨i, hi, by rw [← e]; exact Particle.get_set_same _ Field.object_id _⟩
  · intro i hi
    obtain ⟨p, hp, e⟩ := h4 i hi
    exact ⟨_, List.mem_map.2 ⟨p, hp, rfl⟩, by rw [← e]; exact Particle.get_set_same _ Field.object_id _⟩

/-- **one step of the model is accepted**: whatever the operation, its arguments and the current table,
`checkStep` accepts what the model shows (`modelObs`: its table, for a split its parts, for
`merge_and_drop_duplicates` its own offsets as the certificate).  `hfill`: filling is idempotent;
`hnat`: different naturals are different numbers. -/
theorem check_step_accepts_model (fill : α → α) (nat : Nat → α) (hfill : ∀ v, fill (fill v) = fill v)
    (hnat : ∀ i j, nat i = nat j → i = j) (op : Op α) (l : Motl α) :
    checkStep eqv fill nat op l (modelObs fill nat op l) = true := by
  unfold checkStep
  cases op with
  | subset f vs =>
    simp only [stepClauses, modelObs, step, List.all_cons, List.all_nil, Bool.and_true]
    exact check_subset_accepts_model eqv heqv f vs l
  | remove f vs => exact check_remove_accepts_model eqv heqv f vs l
  | splitPick f i =>
    simp only [stepClauses, modelObs, step, List.all_append, Bool.and_eq_true, List.all_cons, List.all_nil, Bool.and_true]
    exact ⟨check_split_accepts_model eqv heqv f l, (listEqB_iff eqv heqv _ _).2 rfl⟩
  | intersect f o => exact check_intersect_accepts_model eqv heqv fill hfill f l o
  | dropDup dup dec asc => exact check_dropdup_accepts_model eqv heqv dup dec asc l
  | mergeRenumber b a s =>
    show checkMergeRenumber eqv fill nat (rawInputs b a s l) (mergeRenumber nat (mergeInputs fill b a s l)) = true
    rw [mergeInputs_eq_map]
    exact check_merge_renumber_accepts_model eqv heqv fill nat _
  | mergeDropDup b a s =>
    have hc : checkMergeDropDup eqv fill (mergeOffsets mergeDropDupShiftCmp 0 (mergeInputs fill b a s l))
        (rawInputs b a s l) (step fill nat (.mergeDropDup b a s) l) = true := by
      simp only [step]
      rw [merge_documented.2.1, mergeInputs_eq_map]
      exact check_merge_dropdup_accepts_model eqv heqv fill _
    simp only [stepClauses, modelObs]
    rw [List.find?_cons_of_pos (p := fun cs => checkMergeDropDup eqv fill cs (rawInputs b a s l)
      (step fill nat (.mergeDropDup b a s) l)) (l := []) hc]
    rfl
  | renumberParticles => exact check_renumber_particles_accepts_model eqv heqv nat l
  | renumberObjects start =>
    exact check_renumber_objects_accepts_model eqv heqv nat start l (fun i j h => hnat i j (add_left_cancel h))

omit heqv in
theorem modelObs_out (fill : α → α) (nat : Nat → α) (op : Op α) (l : Motl α) :
    (modelObs fill nat op l).out = step fill nat op l := by cases op <;> rfl

/-- **`checkRun` accepts the model's whole run**: for every history (any length, any operations and
arguments) and every initial table, the checkers accept the model's own observation chain, every step
judged against the model's previous table. -/
theorem check_run_accepts_model (fill : α → α) (nat : Nat → α) (hfill : ∀ v, fill (fill v) = fill v)
    (hnat : ∀ i j, nat i = nat j → i = j) (ops : List (Op α)) (l : Motl α) :
    checkRun eqv fill nat (modelChain fill nat ops l) l = true := by
  induction ops generalizing l with
  | nil => rfl
  | cons op ops ih =>
    simp only [modelChain, checkRun, Bool.and_eq_true]
    refine ⟨check_step_accepts_model eqv heqv fill nat hfill hnat op l, ?_⟩
    rw [modelObs_out]
    exact ih _

omit heqv in
/-- the model's observation chain ends in the model's run, and records exactly the operations run -/
theorem modelChain_last (fill : α → α) (nat : Nat → α) (ops : List (Op α)) (l : Motl α) :
    lastOut (modelChain fill nat ops l) l = run fill nat ops l
    ∧ (modelChain fill nat ops l).map (·.1) = ops := by
  induction ops generalizing l with
  | nil => exact ⟨rfl, rfl⟩
  | cons op ops ih =>
    obtain ⟨h1, h2⟩ := ih (step fill nat op l)
    refine ⟨?_, ?_⟩
    · simp only [modelChain, lastOut, modelObs_out]
      rw [h1]; rfl
    · simp only [modelChain, List.map_cons, h2]

/-- **one accepted step** establishes the clauses of its operation for the REAL tables … -/
theorem check_step_sound (fill : α → α) (nat : Nat → α) (op : Op α) (l : Motl α) (o : Obs α)
    (h : checkStep eqv fill nat op l o = true) : StepOK fill nat op l o :=
  checkStep_sound eqv heqv fill nat op l o h

/-- **`checkStep` decides exactly the clauses of its operation** — sound AND complete for every operation.  The
right-hand side is made of clause Props only (no checker): `StepOK`, and for `merge_and_drop_duplicates`
`HintCertOK`: one of the OFFERED offset certificates meets the clauses (`MergeDropDupCertOK`, the body of
`MergeDropDupOK`, which only says that some certificate exists). -/
theorem check_step_iff (fill : α → α) (nat : Nat → α) (op : Op α) (l : Motl α) (o : Obs α) :
    checkStep eqv fill nat op l o = true ↔ StepOK fill nat op l o ∧ HintCertOK fill op l o := by
  rw [checkStep_iff eqv heqv, hintOK_iff_cert eqv heqv]

/-- **`checkRun` decides exactly that every step of the observed history meets its clauses**, each
judged against the REAL previous table (`RunCertOK`: clause Props only) — nothing less (soundness), nothing more
(completeness) -/
theorem check_run_iff (fill : α → α) (nat : Nat → α) (steps : List (Op α × Obs α)) (l : Motl α) :
    checkRun eqv fill nat steps l = true ↔ RunCertOK fill nat steps l := by
  rw [checkRun_iff eqv heqv, runOK_iff_cert eqv heqv]

/-- … and **an accepted observed history** (every step judged against the REAL previous table)
establishes the history clause for the REAL last table: each of its rows is a row that entered the
history — of the initial list or of a list merged / intersected in — and no field other than
`subtomo_id` / `object_id` has changed; a missing value may have been filled by `Motl.load` only if
the history contains an intersection or a merge with a bare-DataFrame input (`histFill`). -/
theorem check_history_rows (fill : α → α) (nat : Nat → α) (hfill : ∀ v, fill (fill v) = fill v)
    (steps : List (Op α × Obs α)) (l : Motl α) (h : checkRun eqv fill nat steps l = true) :
    ∀ q ∈ lastOut steps l, ∃ p ∈ l ++ steps.flatMap (fun s => s.1.sources),
      Unchanged (histFill fill (steps.map (·.1))) p q :=
  checkRun_rows eqv heqv fill nat hfill steps l h

/-- an accepted observed history of operations that do not re-load a frame: the REAL last table holds
literal rows (a selection that zeroes a missing value is REJECTED by the checkers) -/
theorem check_history_rows_literal (fill : α → α) (nat : Nat → α) (hfill : ∀ v, fill (fill v) = fill v)
    (steps : List (Op α × Obs α)) (hops : (steps.map (·.1)).any Op.mayFill = false) (l : Motl α)
    (h : checkRun eqv fill nat steps l = true) :
    ∀ q ∈ lastOut steps l, ∃ p ∈ l ++ steps.flatMap (fun s => s.1.sources), Literal p q := by
  intro q hq
  obtain ⟨p, hp, hu⟩ := checkRun_rows eqv heqv fill nat hfill steps l h q hq
  refine ⟨p, hp, (literal_iff_unchanged_id p q).2 ?_⟩
  rw [histFill_of_no_fill _ _ hops] at hu
  exact hu

end checkers

/-! ### the model-level history theorem as a corollary of the CHECKER theorems -/
section viacheckers
variable {α : Type} [CommRing α] [LinearOrder α] [IsStrictOrderedRing α]

/-- `history_rows` obtained WITHOUT the model-level induction `step_rows`: the checkers accept the
model's own observation chain (`check_run_accepts_model`, which rests on the per-operation spec
theorems), and an accepted chain has the history property (`check_history_rows`).  So the clause
Props the checkers decide are at least as strong as the model-level invariant. -/
theorem history_rows_via_checkers (fill : α → α) (nat : Nat → α) (hfill : ∀ v, fill (fill v) = fill v)
    (hnat : ∀ i j, nat i = nat j → i = j) (ops : List (Op α)) (l : Motl α) :
    ∀ q ∈ run fill nat ops l, ∃ p ∈ l ++ ops.flatMap Op.sources, Unchanged (histFill fill ops) p q := by
  have heqv : ∀ a b : α, (fun a b => decide (a = b)) a b = true ↔ a = b := fun a b => by simp
  have h := check_history_rows _ heqv fill nat hfill (modelChain fill nat ops l) l
    (check_run_accepts_model _ heqv fill nat hfill hnat ops l)
  have hm := modelChain_last fill nat ops l
  have hs : (modelChain fill nat ops l).flatMap (fun s => s.1.sources) = ops.flatMap Op.sources := by
    conv => rhs; rw [← hm.2]
    rw [List.flatMap_map]
  rw [hm.1, hm.2, hs] at h
  exact h

end viacheckers

/-! ### identifiers stay duplicate-free after merging with renumbering -/
section nodup
set_option linter.unusedSectionVars false
variable {α : Type} [CommRing α] [LinearOrder α] [IsStrictOrderedRing α]

/-- a selection (`subset` with pairwise different values, `remove`, a split part, `drop_duplicates`)
keeps any duplicate-free column duplicate-free -/
theorem selection_step_keeps_nodup (fill : α → α) (nat : Nat → α) (g : Field) (op : Op α)
    (hop : op.isNodupSelection) (l : Motl α) (hl : (l.map (·.get g)).Nodup) :
    ((step fill nat op l).map (·.get g)).Nodup := by
  cases op with
  | subset f vs =>
    have hp := (subset_perm f vs l hop).map (·.get g)
    exact hp.nodup_iff.2 (hl.sublist (List.filter_sublist.map _))
  | remove f vs =>
    simp only [step]; rw [remove_spec]
    exact hl.sublist (List.filter_sublist.map _)
  | splitPick f i =>
    simp only [step, split_spec]
    rw [List.getD_eq_getElem?_getD]
    cases h : ((uniq (l.map (·.get f))).map (fun v => l.filter (fun p => decide (p.get f = v))))[i]? with
    | none => simp
    | some part =>
      obtain ⟨v, _, rfl⟩ := List.mem_map.1 (List.mem_of_getElem? h)
      exact hl.sublist (List.filter_sublist.map _)
  | dropDup dup dec asc =>
    simp only [step, dropDup]
    have hperm := (List.mergeSort_perm l (ddLe dup dec asc)).map (·.get g)
    exact (hperm.nodup_iff.2 hl).sublist ((firstPer_sublist dup _).map _)
  | intersect f o => exact absurd hop (by simp [Op.isNodupSelection])
  | mergeRenumber b a s => exact absurd hop (by simp [Op.isNodupSelection])
  | mergeDropDup b a s => exact absurd hop (by simp [Op.isNodupSelection])
  | renumberParticles => exact absurd hop (by simp [Op.isNodupSelection])
  | renumberObjects start => exact absurd hop (by simp [Op.isNodupSelection])

theorem selection_history_keeps_nodup (fill : α → α) (nat : Nat → α) (g : Field) (ops : List (Op α))
    (hsel : ∀ op ∈ ops, op.isNodupSelection) (l : Motl α) (hl : (l.map (·.get g)).Nodup) :
    ((run fill nat ops l).map (·.get g)).Nodup := by
  induction ops generalizing l with
  | nil => simpa [run] using hl
  | cons op ops ih =>
    have := ih (fun o ho => hsel o (List.mem_cons_of_mem _ ho)) (step fill nat op l)
      (selection_step_keeps_nodup fill nat g op (hsel op (by simp)) l hl)
    simpa [run] using this

/-- **Subtomogram numbers after `merge_and_renumber` followed by ANY sequence of selections stay
pairwise different** (`hnat`: different naturals are different numbers). -/
theorem mergeRenumber_then_selections_nodup (fill : α → α) (nat : Nat → α) (hnat : ∀ i j, nat i = nat j → i = j)
    (ls : List (Motl α)) (ops : List (Op α)) (hsel : ∀ op ∈ ops, op.isNodupSelection) :
    ((run fill nat ops (mergeRenumber nat ls)).map (·.subtomo_id)).Nodup := by
  apply selection_history_keeps_nodup fill nat Field.subtomo_id ops hsel
  show ((mergeRenumber nat ls).map (·.subtomo_id)).Nodup
  rw [mergeRenumber_ids]
  rw [List.Nodup, List.pairwise_map]
  exact (List.nodup_range).imp (fun {i j} hij e => hij (by have := hnat _ _ e; omega))

/-- NOT the "exactly 20 fields" clause of the statement, only the reason the MODEL cannot violate it: a model row is
a `Particle`, a record type with 20 named cells, so this holds for every row of every type-correct term (the
hypothesis `q ∈ run …` is not used).  For the CODE the clause is decided by `checkSchema` on the real column names
(`check_schema_iff`); a dropped column shows up there. -/
theorem history_schema (fill : α → α) (nat : Nat → α) (ops : List (Op α)) (l : Motl α) :
    ∀ q ∈ run fill nat ops l, q.toList.length = 20 ∧ (Field.all.map (fun f => (f.name, q.get f))).map Prod.fst = motlColumnNames := by
  intro q _
  refine ⟨by simp [Particle.toList, Field.all_length], ?_⟩
  rw [List.map_map, columns_documented]
  rfl

/-! #### the same discipline for the REAL tables: decided by the checkers -/
section checked_nodup
variable (eqv : α → α → Bool) (heqv : ∀ a b, eqv a b = true ↔ a = b)
include heqv

/-- an ACCEPTED selection step (subset with pairwise different values, remove, a split part,
drop_duplicates) keeps any duplicate-free column of the REAL table duplicate-free -/
theorem check_selection_step_keeps_nodup (fill : α → α) (nat : Nat → α) (g : Field) (op : Op α)
    (hop : op.isNodupSelection) (l : Motl α) (o : Obs α) (h : checkStep eqv fill nat op l o = true)
    (hl : (l.map (·.get g)).Nodup) : (o.out.map (·.get g)).Nodup := by
  have hs := check_step_sound eqv heqv fill nat op l o h
  cases op with
  | subset f vs =>
    have hc : checkSubset eqv f vs l o.out = true := by
      simpa only [checkStep, stepClauses, List.all_cons, List.all_nil, Bool.and_true] using h
    rw [(check_subset_iff_model eqv heqv f vs l o.out).1 hc]
    exact selection_step_keeps_nodup fill nat g (.subset f vs) hop l hl
  | remove f vs =>
    have h' : RemoveOK f vs l o.out := hs
    have := (h'.1.map (·.get g)).nodup_iff.2 hl
    rw [List.map_append] at this
    exact (List.nodup_append.1 this).1
  | splitPick f i =>
    have h' : SplitOK f l o.parts ∧ o.out = o.parts.getD i [] := hs
    rw [h'.2, List.getD_eq_getElem?_getD]
    cases hi : o.parts[i]? with
    | none => simp
    | some part =>
      have hflat := (h'.1.1.map (·.get g)).nodup_iff.2 hl
      exact hflat.sublist ((List.sublist_flatten_of_mem (List.mem_of_getElem? hi)).map _)
  | dropDup dup dec asc =>
    have h' : DropDupOK (fun v => v) dup dec asc l o.out := hs
    have hsub : ∀ q ∈ o.out, q ∈ l := by
      intro q hq
      obtain ⟨p, hp, hsame⟩ := h'.2.1 q hq
      have : q = p := Particle.ext_get (fun f => (hsame f).elim id id)
      exact this ▸ hp
    exact nodup_map_of_subset _ _ o.out l h'.1 hsub hl
  | intersect f o => exact absurd hop (by simp [Op.isNodupSelection])
  | mergeRenumber b a s => exact absurd hop (by simp [Op.isNodupSelection])
  | mergeDropDup b a s => exact absurd hop (by simp [Op.isNodupSelection])
  | renumberParticles => exact absurd hop (by simp [Op.isNodupSelection])
  | renumberObjects start => exact absurd hop (by simp [Op.isNodupSelection])

theorem check_selection_history_keeps_nodup (fill : α → α) (nat : Nat → α) (g : Field) (steps : List (Op α × Obs α))
    (hsel : ∀ s ∈ steps, s.1.isNodupSelection) (l : Motl α) (h : checkRun eqv fill nat steps l = true)
    (hl : (l.map (·.get g)).Nodup) : ((lastOut steps l).map (·.get g)).Nodup := by
  induction steps generalizing l with
  | nil => exact hl
  | cons s steps ih =>
    obtain ⟨op, o⟩ := s
    simp only [checkRun, Bool.and_eq_true] at h
    exact ih (fun s' hs' => hsel s' (List.mem_cons_of_mem _ hs')) o.out h.2
      (check_selection_step_keeps_nodup eqv heqv fill nat g op (hsel (op, o) (by simp)) l o h.1 hl)

/-- **For the REAL tables: subtomogram numbers after an accepted `merge_and_renumber` followed by ANY
accepted sequence of selections are pairwise different** — whatever the code did inside, if the
checkers accepted every step then no two surviving rows share a subtomogram number. -/
theorem check_merge_renumber_then_selections_nodup (fill : α → α) (nat : Nat → α) (hnat : ∀ i j, nat i = nat j → i = j)
    (b a : List (Bool × Motl α)) (s : Bool) (o : Obs α) (steps : List (Op α × Obs α))
    (hsel : ∀ s ∈ steps, s.1.isNodupSelection) (l : Motl α)
    (h : checkRun eqv fill nat ((Op.mergeRenumber b a s, o) :: steps) l = true) :
    ((lastOut ((Op.mergeRenumber b a s, o) :: steps) l).map (·.subtomo_id)).Nodup := by
  simp only [checkRun, Bool.and_eq_true] at h
  have hm : MergeRenumberOK fill nat (rawInputs b a s l) o.out := check_step_sound eqv heqv fill nat _ l o h.1
  obtain ⟨_, _, _, _, hids⟩ := hm
  refine check_selection_history_keeps_nodup eqv heqv fill nat Field.subtomo_id steps hsel o.out h.2 ?_
  show (o.out.map (·.subtomo_id)).Nodup
  rw [hids, List.Nodup, List.pairwise_map]
  exact (List.nodup_range).imp (fun {i j} hij e => hij (by have := hnat _ _ e; omega))

end checked_nodup

end nodup

/-! ### missing key values: which statements need `==` to be reflexive on the keys -/
section missing_keys
set_option linter.unusedSectionVars false
variable {α : Type} [BEq α] [LT α] [DecidableLT α]

/-- **Subset needs no reflexivity**: for ANY `==` on the cells (IEEE `==` of doubles included, where a
missing value is not `==` to itself) the subset is the rows `==` to the requested values, grouped by
requested value in the order requested. A missing key matches nothing, a requested NaN selects nothing. -/
theorem subset_spec_beq (f : Field) (vs : List α) (l : Motl α) :
    subset f vs l = vs.flatMap (fun v => l.filter (fun p => p.get f == v)) := by
  unfold subset runLoop
  rw [subset_operator.1, subset_operator.2]
  exact foldl_append_flatMap _ vs []

/-- **Removal needs no reflexivity**: what is left are the rows `==` to none of the values (a row with a
missing key is never removed) -/
theorem remove_spec_beq (f : Field) (vs : List α) (l : Motl α) :
    remove f vs l = l.filter (fun p => vs.all (fun v => !(p.get f == v))) := by
  unfold remove runLoop
  rw [remove_loop_documented]
  show vs.foldl (fun acc v => acc.filter (fun p => removeCmp.test (p.get f) v)) l = _
  have h := foldl_filter_all (fun (v : α) (p : Particle α) => removeCmp.test (p.get f) v) vs l
  rw [remove_operator] at h ⊢
  exact h

/-- **`split_partition` NEEDS reflexivity** (`[DecidableEq α]` there): a row whose feature is `==` to
nothing — a missing value under IEEE `==` — is in NO part of the split, so the parts do not partition
the list. This is the model's rendering of the open known finding C08-K1 for `split_by_feature`. -/
theorem split_drops_irreflexive_rows (f : Field) (l : Motl α) (p : Particle α)
    (hp : ∀ v, (p.get f == v) = false) : p ∉ (split f l).flatten := by
  intro h
  obtain ⟨part, hpart, hpp⟩ := List.mem_flatten.1 h
  unfold split at hpart
  rw [split_operator.1, split_operator.2] at hpart
  simp only [List.mem_map] at hpart
  obtain ⟨v, _, rfl⟩ := hpart
  have := (List.mem_filter.1 hpp).2
  simp only [Cmp.test] at this
  rw [hp v] at this
  cases this

/-- **`renumberObjects_spec` NEEDS reflexivity** — a fact about the MODEL, not a description of the code: a row
whose (tomogram, object) pair is `==` to no pair is not found among the classes and the model gives it `start + K`
(`K` = number of classes listed), one number shared by all such rows, outside the consecutive range.  The CODE
(pandas `factorize` / `groupby`) does something else with such a row — `start - 1` for a missing object number, the
row left un-renumbered for a missing tomogram number; that behaviour is rendered by the harness's
`k1_renumber_objects`, which `classify()` compares the real output with (open known finding C08-K1).  Model and
code agree only in that the clause "consecutive numbers, grouping kept" fails. -/
theorem renumberObjects_irreflexive_rows [Add α] (nat : Nat → α) (start : α) (l : Motl α) (p : Particle α)
    (hp : ∀ k : α × α, (k.1 == p.tomo_id && k.2 == p.object_id) = false) :
    newObjId nat start l p = start + nat (objKeysCfg l).length := by
  unfold newObjId keyIdx
  congr 2
  exact List.findIdx_eq_length.2 (fun k _ => hp k)

end missing_keys

/-! ### the driver's `trace` is the run -/
section trace
variable {α : Type} [BEq α] [LT α] [DecidableLT α] [Add α] [Sub α] [OfNat α 0] [OfNat α 1]

/-- what the driver reports (`trace`: every intermediate table) is the run of the theorems: as many tables as
operations, the k-th one is the run of the first k+1 operations, the last one is `run` -/
theorem trace_eq_run (fill : α → α) (nat : Nat → α) (ops : List (Op α)) (l : Motl α) :
    (trace fill nat ops l).length = ops.length
    ∧ (∀ k, k < ops.length → (trace fill nat ops l)[k]? = some (run fill nat (ops.take (k + 1)) l))
    ∧ (trace fill nat ops l).getLastD l = run fill nat ops l := by
  induction ops generalizing l with
  | nil => exact ⟨rfl, fun k hk => absurd hk (Nat.not_lt_zero k), rfl⟩
  | cons op ops ih =>
    obtain ⟨h1, h2, h3⟩ := ih (step fill nat op l)
    refine ⟨by simp [trace, h1], ?_, ?_⟩
    · intro k hk
      cases k with
      | zero => simp [trace, run]
      | succ k =>
        have := h2 k (by simpa using hk)
        simpa [trace, run] using this
    · show ((step fill nat op l) :: trace fill nat ops (step fill nat op l)).getLastD l = _
      rw [List.getLastD_cons, h3]
      rfl

end trace

/-! ### the EXECUTED instance of the checkers (`Model/C08_Cell.lean`)

The driver decodes every cell into a `Cell` (an exact rational; a missing value is the constant `missingQ`) and runs
`stepClausesQ` / `checkStepQ` / `checkRunQ` = the checkers at `Rat` with `eqvQ` (`==` on `Rat`), `fillQ`, `natQ`.
`Rat` is an ordered commutative ring and `eqvQ` is lawful, so every checker theorem above applies to the very terms
the driver executes — no hypothesis left. -/
section executed

theorem executed_instance_lawful :
    (∀ a b : Cell, eqvQ a b = true ↔ a = b) ∧ (∀ v : Cell, fillQ (fillQ v) = fillQ v) ∧ (∀ i j : Nat, natQ i = natQ j → i = j) :=
  ⟨eqvQ_lawful, fillQ_idem, natQ_inj⟩

/-- the verdict the driver reports for a step (`checkStepQ`, when no key cell is missing) decides exactly the clauses -/
theorem check_step_iff_executed (op : Op Cell) (l : Motl Cell) (o : Obs Cell) :
    checkStepQ op l o = true ↔ StepOK fillQ natQ op l o ∧ HintCertOK fillQ op l o :=
  check_step_iff eqvQ eqvQ_lawful fillQ natQ op l o

/-- every clause the driver lists as failed is a member of the list `checkStepQ` is the conjunction of -/
theorem check_step_executed_eq (op : Op Cell) (l : Motl Cell) (o : Obs Cell) :
    checkStepQ op l o = (stepClausesQ op l o).all (·.2) := rfl

theorem check_run_iff_executed (steps : List (Op Cell × Obs Cell)) (l : Motl Cell) :
    checkRunQ steps l = true ↔ RunCertOK fillQ natQ steps l :=
  check_run_iff eqvQ eqvQ_lawful fillQ natQ steps l

/-- an observed history accepted by the executed instance has the history clause (decoded tables) -/
theorem check_history_rows_executed (steps : List (Op Cell × Obs Cell)) (l : Motl Cell) (h : checkRunQ steps l = true) :
    ∀ q ∈ lastOut steps l, ∃ p ∈ l ++ steps.flatMap (fun s => s.1.sources),
      Unchanged (histFill fillQ (steps.map (·.1))) p q :=
  check_history_rows eqvQ eqvQ_lawful fillQ natQ fillQ_idem steps l h

/-- the executed instance accepts the model's own run, whatever the history (the model run at `Cell`) -/
theorem check_run_accepts_model_executed (ops : List (Op Cell)) (l : Motl Cell) :
    checkRunQ (modelChain fillQ natQ ops l) l = true :=
  check_run_accepts_model eqvQ eqvQ_lawful fillQ natQ fillQ_idem natQ_inj ops l

end executed

/-! ### the missing-value-aware clause lists reduce to the proved ones when nothing is missing -/
section no_missing
variable {α : Type} [BEq α] [LT α] [DecidableLT α] [Add α] [Sub α] [OfNat α 0]

theorem dropDupClausesM_no_missing (eqv : α → α → Bool) (fill : α → α) (dup dec : Field) (asc : Bool) (l out : Motl α) :
    (dropDupClausesM eqv (fun _ => false) fill dup dec asc l out).map (·.2)
      = (dropDupClauses eqv fill dup dec asc l out).map (·.2) := by
  simp [dropDupClausesM, dropDupClauses]

end no_missing

/-! ### witnesses of the open known findings C08-K2 / C08-K3 (concrete lists over `W`: integers plus a missing value
that is `==` to nothing, ordered with nothing, absorbing `+`) -/
section witnesses
open W

/-- **C08-K2, as-is**: pandas' `drop_duplicates` treats two missing ids as one id (`firstPerSame W.same`): of the two
rows without an id only one is left, although under `==` (the model's `firstPer`, the statement's reading) a missing
id duplicates nothing and both stay -/
theorem dropdup_missing_ids_collapse_witness :
    (firstPerSame W.same .subtomo_id [row nan (n 1) (n 5), row nan (n 2) (n 7), row (n 3) (n 1) (n 1)]).length = 2
    ∧ (firstPer .subtomo_id [row nan (n 1) (n 5), row nan (n 2) (n 7), row (n 3) (n 1) (n 1)]).length = 3 := by
  decide

/-- … and the missing-value-aware checker rejects the collapsed output exactly in the clause `dropdup-every-id-survives`
(and accepts the output that keeps both rows) -/
theorem dropdup_missing_ids_checker_witness :
    ((dropDupClausesM W.same W.isNan (fun v => v) .subtomo_id .score false
        [row nan (n 1) (n 5), row nan (n 2) (n 7), row (n 3) (n 1) (n 1)]
        [row (n 3) (n 1) (n 1), row nan (n 2) (n 7)]).filter (fun c => !c.2)).map (·.1) = ["dropdup-every-id-survives"]
    ∧ ((dropDupClausesM W.same W.isNan (fun v => v) .subtomo_id .score false
        [row nan (n 1) (n 5), row nan (n 2) (n 7), row (n 3) (n 1) (n 1)]
        [row (n 3) (n 1) (n 1), row nan (n 1) (n 5), row nan (n 2) (n 7)]).all (·.2)) = true := by
  decide

/-- a survivor WITHOUT a decision value while a row of its id has one is rejected (`dropdup-keeps-best-scoring-row`);
the clause list without `miss` (IEEE `<` only) would accept it (M-4) -/
theorem dropdup_missing_score_checker_witness :
    ((dropDupClausesM W.same W.isNan (fun v => v) .subtomo_id .score false
        [row (n 1) (n 1) nan, row (n 1) (n 1) (n 9), row (n 2) (n 1) (n 3)]
        [row (n 1) (n 1) nan, row (n 2) (n 1) (n 3)]).filter (fun c => !c.2)).map (·.1) = ["dropdup-keeps-best-scoring-row"]
    ∧ ((dropDupClauses W.same (fun v => v) .subtomo_id .score false
        [row (n 1) (n 1) nan, row (n 1) (n 1) (n 9), row (n 2) (n 1) (n 3)]
        [row (n 1) (n 1) nan, row (n 2) (n 1) (n 3)]).all (·.2)) = true := by
  decide

/-- **C08-K3, the model's own loop** (`mergeBlocks` with Python's `min`/`max` = `objMin`/`objMax`): a missing object
number in front poisons minimum and maximum, no offset is applied to either input and object number 2 is used by both -/
theorem merge_missing_object_id_collides_witness :
    (mergeBlocks Gen.C08.Cmp.le (0 : W) [[row (n 1) nan (n 0), row (n 2) (n 2) (n 0)], [row (n 3) (n 2) (n 0), row (n 4) (n 5) (n 0)]]).flatten.map (·.object_id)
      = [nan, n 2, n 2, n 5]
    ∧ mergeOffsets Gen.C08.Cmp.le (0 : W) [[row (n 1) nan (n 0), row (n 2) (n 2) (n 0)], [row (n 3) (n 2) (n 0), row (n 4) (n 5) (n 0)]] = [0, 0] := by
  decide

/-- … while with the missing number LAST nothing goes wrong (no collision): the classification rule must look at the
output, not at the mere presence of a missing object number (L-3) -/
theorem merge_missing_object_id_last_is_fine_witness :
    (mergeBlocks Gen.C08.Cmp.le (0 : W) [[row (n 1) (n 2) (n 0), row (n 2) nan (n 0)], [row (n 3) (n 5) (n 0), row (n 4) (n 6) (n 0)]]).flatten.map (·.object_id)
      = [n 2, nan, n 5, n 6] := by
  decide

end witnesses
/-! ### non-vacuity of the hypotheses used above -/
example : ([2, 1] : List Int).Nodup := by decide
example : (subset .tomo_id [2, 1] [Particle.ofFn (fun _ => (1 : Int)), Particle.ofFn (fun _ => 2), Particle.ofFn (fun _ => 3)]).length = 2 := by decide
example : ∀ i j : Nat, (1 : Int) + (Int.ofNat i) = 1 + Int.ofNat j → i = j := by intro i j h; simp at h; exact h
example : ∀ v : Int, (fun x : Int => if x = -1 then 0 else x) ((fun x : Int => if x = -1 then 0 else x) v) = (fun x : Int => if x = -1 then 0 else x) v := by
  intro v; by_cases h : v = -1 <;> simp [h]
example : (Op.subset Field.tomo_id [(1 : Int)]).isSelection = true := rfl
/-- hypotheses of `intersect_spec_ids` / `intersect_spec_no_missing`: ids (all fields) that `fill` leaves alone -/
example : ∀ p ∈ [Particle.ofFn (fun _ => (2 : Int)), Particle.ofFn (fun _ => 5)],
    ∀ g, (fun x : Int => if x = -1 then 0 else x) (p.get g) = p.get g := by
  intro p hp g
  simp only [List.mem_cons, List.not_mem_nil, or_false] at hp
  rcases hp with rfl | rfl <;> simp [Particle.get_ofFn]

/-- the cell comparison hypothesis `heqv` of the checker theorems is satisfiable -/
example : ∀ a b : Int, ((fun a b : Int => a == b) a b = true ↔ a = b) := by intro a b; simp
/-- `hnat` of `mergeRenumber_then_selections_nodup` -/
example : ∀ i j : Nat, (Int.ofNat i) = Int.ofNat j → i = j := by intro i j h; exact Int.ofNat.inj h
example : (Op.subset Field.tomo_id [(1 : Int), 2]).isNodupSelection := by simp [Op.isNodupSelection]
/-- the checkers discriminate: a correct renumbering is accepted, one that starts at 0 is rejected;
a subset in requested order is accepted, the same rows in the other order are rejected -/
example : checkRenumberParticles (fun a b : Int => a == b) Int.ofNat
    [Particle.ofFn (fun _ => (7 : Int)), Particle.ofFn (fun _ => 9)]
    [(Particle.ofFn (fun _ => (7 : Int))).set .subtomo_id 1, (Particle.ofFn (fun _ => (9 : Int))).set .subtomo_id 2] = true := by decide
example : checkRenumberParticles (fun a b : Int => a == b) Int.ofNat
    [Particle.ofFn (fun _ => (7 : Int)), Particle.ofFn (fun _ => 9)]
    [(Particle.ofFn (fun _ => (7 : Int))).set .subtomo_id 0, (Particle.ofFn (fun _ => (9 : Int))).set .subtomo_id 1] = false := by decide
example : checkSubset (fun a b : Int => a == b) .tomo_id [2, 1]
    [Particle.ofFn (fun _ => (1 : Int)), Particle.ofFn (fun _ => 2), Particle.ofFn (fun _ => 3)]
    [Particle.ofFn (fun _ => (2 : Int)), Particle.ofFn (fun _ => 1)] = true := by decide
example : checkSubset (fun a b : Int => a == b) .tomo_id [2, 1]
    [Particle.ofFn (fun _ => (1 : Int)), Particle.ofFn (fun _ => 2), Particle.ofFn (fun _ => 3)]
    [Particle.ofFn (fun _ => (1 : Int)), Particle.ofFn (fun _ => 2)] = false := by decide
/-- two inputs whose object numbers overlap: accepted only with non-colliding offsets -/
example : checkMergeRenumber (fun a b : Int => a == b) (fun v => v) Int.ofNat
    [(false, [Particle.ofFn (fun _ => (1 : Int))]), (false, [Particle.ofFn (fun _ => (1 : Int))])]
    [(Particle.ofFn (fun _ => (1 : Int))), ((Particle.ofFn (fun _ => (1 : Int))).set .object_id 2).set .subtomo_id 2] = true := by decide
example : checkMergeRenumber (fun a b : Int => a == b) (fun v => v) Int.ofNat
    [(false, [Particle.ofFn (fun _ => (1 : Int))]), (false, [Particle.ofFn (fun _ => (1 : Int))])]
    [(Particle.ofFn (fun _ => (1 : Int))), (Particle.ofFn (fun _ => (1 : Int))).set .subtomo_id 2] = false := by decide
/-- `merge_and_drop_duplicates`, second input a bare DataFrame with a missing object number (−1, filled to 0
on loading): with colliding offsets REJECTED, with the loop's offsets (`mergeOffsets`) accepted -/
example : checkMergeDropDup (fun a b : Int => a == b) exFill [0, 2]
    [(false, [exRow 1 1 1 5, exRow 2 1 2 5]), (true, [exRow 1 1 1 9, exRow 3 1 (-1) 5])]
    [exRow 1 1 3 9, exRow 2 1 2 5, exRow 3 1 2 5] = false := by decide
example : checkMergeDropDup (fun a b : Int => a == b) exFill [0, 3]
    [(false, [exRow 1 1 1 5, exRow 2 1 2 5]), (true, [exRow 1 1 1 9, exRow 3 1 (-1) 5])]
    [exRow 1 1 4 9, exRow 2 1 2 5, exRow 3 1 3 5] = true := by decide
example : mergeOffsets Cmp.le (0 : Int) [[exRow 1 1 1 5, exRow 2 1 2 5], [], [exRow 1 1 1 9, exRow 3 1 0 5]] = [0, 0, 3] := by decide
/-- hypotheses of `check_run_accepts_model` are satisfiable, and its conclusion on a concrete history
(a merge with a DataFrame input and an empty input, subset, split, intersection, removal, renumbering) -/
example : ∀ v : Int, exFill (exFill v) = exFill v := by intro v; unfold exFill; by_cases h : v = -1 <;> simp [h]
example : checkRun (fun a b : Int => a == b) exFill Int.ofNat
    (modelChain exFill Int.ofNat
      [Op.mergeRenumber [(true, [exRow 5 1 1 (-1)])] [(false, [])] false, Op.subset .tomo_id [2, 1], Op.splitPick .tomo_id 1,
       Op.intersect .subtomo_id [exRow 1 2 3 4], Op.remove .tomo_id [3], .renumberParticles]
      [exRow 9 1 1 3, exRow 9 2 1 4])
    [exRow 9 1 1 3, exRow 9 2 1 4] = true := by decide
/-- `hsel` of `check_selection_history_keeps_nodup` -/
example : ∀ s ∈ [((Op.remove Field.tomo_id [(1 : Int)]), ({ out := [] } : Obs Int))], s.1.isNodupSelection := by
  intro s hs; simp only [List.mem_singleton] at hs; subst hs; simp [Op.isNodupSelection]

end CryoCat.C08
