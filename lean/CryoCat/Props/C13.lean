import CryoCat.Lemmas.C13
import CryoCat.Lemmas.C13_Shapes
import CryoCat.Lemmas.C13_Algebra
import CryoCat.Lemmas.C13_Conv
import CryoCat.Lemmas.C13_Blur
import CryoCat.Lemmas.C13_Gauss
import CryoCat.Lemmas.C13_Parse
/-! C13 — property theorems (only theorems, the small definitions their statements need, and
non-vacuity examples; helper lemmas live in `Lemmas/C13*.lean`).

Reading guide.  `hardMask q` is the array a constructor call `q` returns for `gaussian = 0` and the
array it hands to the Gaussian filter otherwise; `render nx ny nz f` is the C-order array whose voxel
`(i,j,k)` holds `f i j k` (`mask_layout`).  Every theorem is for all box sizes, centres and radii. -/
namespace CryoCat.C13

/-! ### translator obligations: the statements of `cryomask.py` the model was written from -/

theorem anchors_ok : Gen.C13.anchorsOk = true := by decide

theorem blur_factor_documented : blurFactor = 5 := blurFactor_eq (by decide) (by decide)

theorem mask_expansion_default : Gen.C13.maskExpansionDefault = 4 := by decide

/-- `preprocess_params`, complete body (locals numbered `v0, v1, …` in order of first binding): `np.ceil(radius + gaussian * 5.0)` only for a non-zero blur applied outwards -/
theorem preprocess_documented :
    Gen.C13.body_preprocess_params = ["v0=5.0", "if:gaussian!=0.0andgaussian_outwards", "v1=np.ceil(radius+gaussian*v0).astype(int)", "else:", "v1=radius", "end",
      "returnv1"] :=
  rfl

/-- sphere, complete body: Euclidean distance, cut with `>` (so `distance <= r` stays), centre voxel forced, then `postprocess` -/
theorem sphere_source_documented :
    Gen.C13.body_spherical_mask = ["mask_size=get_correct_format(mask_size)", "center=get_correct_format(center,reference_size=mask_size)", "if:radiusisNone",
      "radius=np.amin(mask_size)//2", "end", "radius=preprocess_params(radius,gaussian,gaussian_outwards)",
      "v0,v1,v2=np.mgrid[0:mask_size[0]:1,0:mask_size[1]:1,0:mask_size[2]:1]",
      "v3=np.sqrt((v0-center[0])**2+(v1-center[1])**2+(v2-center[2])**2)", "v3[v3>radius]=0", "v3[v3>0]=1",
      "v3[center[0],center[1],center[2]]=1", "v3=postprocess(v3,gaussian,np.asarray([0,0,0]),output_name)", "returnv3"] :=
  rfl

/-- cylinder, complete body: `int(height // 2)`, planar disc cut with `>`, slab clipped to the box -/
theorem cylinder_source_documented :
    Gen.C13.body_cylindrical_mask = ["mask_size=get_correct_format(mask_size)", "center=get_correct_format(center,reference_size=mask_size)", "if:radiusisNone",
      "radius=np.amin(mask_size[:2])//2", "end", "if:heightisNone", "height=mask_size[2]", "end", "height=int(height//2)",
      "radius=preprocess_params(radius,gaussian,gaussian_outwards)", "height=preprocess_params(height,gaussian,gaussian_outwards)",
      "v0,v1=np.mgrid[0:mask_size[0]:1,0:mask_size[1]:1]", "v2=np.sqrt((v0-center[0])**2+(v1-center[1])**2)", "v2[v2>radius]=0",
      "v2[v2>0]=1", "v2[center[0],center[1]]=1", "v3=np.zeros(mask_size)", "v4=max(center[2]-height,0)",
      "v5=min(center[2]+height+1,mask_size[2])", "if:v5>v4", "v3[:,:,v4:v5]=np.tile(v2[:,:,None],(1,1,v5-v4))", "end",
      "v3=postprocess(v3,gaussian,angles,output_name)", "returnv3"] :=
  rfl

/-- ellipsoid, complete body: the grid, the reversal of the point list, `distance <= 1` -/
theorem ellipsoid_source_documented :
    Gen.C13.body_ellipsoid_mask = ["v0=get_correct_format(mask_size)", "center=get_correct_format(center,reference_size=v0)",
      "radii=get_correct_format(radii,reference_size=v0)", "radii=preprocess_params(radii,gaussian,gaussian_outwards)",
      "v1=tuple((np.linspace(1,v2,v2)-np.floor(0.5*v2)forv2inv0))", "v1=np.meshgrid(*v1,indexing='ij')",
      "v3=np.array(v1).reshape(3,-1)[::-1]", "v4=0.5*v0-center", "v4=np.tile(v4.reshape(3,1),(1,v3.shape[1]))", "v3=v3[:,::-1]",
      "v4=v4[::-1]", "radii=radii[::-1]", "radii=np.tile(radii.reshape(3,1),(1,v3.shape[1]))", "v5=(v3-v4)**2", "v5=v5/radii**2",
      "v6=np.sum(v5,axis=0).reshape(v0)", "v7=v6<=1", "v7=postprocess(v7,gaussian,angles,output_name)", "returnv7"] :=
  rfl

/-- shells, complete bodies: half the thickness added / subtracted, outer minus inner (`v0 - v1`, `v0 & ~v1`) -/
theorem shell_source_documented :
    Gen.C13.body_spherical_shell_mask = ["mask_size=get_correct_format(mask_size)", "center=get_correct_format(center,reference_size=mask_size)", "if:radiusisNone",
      "radius=np.amin(mask_size)//2", "end", "shell_thickness=shell_thickness/2",
      "v0=spherical_mask(mask_size,radius=radius+shell_thickness,center=center)",
      "v1=spherical_mask(mask_size,radius=radius-shell_thickness,center=center)", "v2=v0-v1",
      "v2=postprocess(v2,gaussian,np.asarray([0,0,0]),output_name)", "returnv2"] ∧
    Gen.C13.body_ellipsoid_shell_mask = ["mask_size=get_correct_format(mask_size)", "center=get_correct_format(center,reference_size=mask_size)",
      "radii=get_correct_format(radii,reference_size=mask_size)", "shell_thickness=shell_thickness/2",
      "v0=ellipsoid_mask(mask_size,radii=radii+shell_thickness,center=center)",
      "v1=ellipsoid_mask(mask_size,radii=radii-shell_thickness,center=center)", "v2=v0&~v1",
      "v2=postprocess(v2,gaussian,angles,output_name)", "returnv2"] :=
  ⟨rfl, rfl⟩

/-- `get_correct_format`, complete body: integer truncation, default = half the reference size (a `raise` is recorded by its exception type only: message texts are free) -/
theorem format_source_documented :
    Gen.C13.body_get_correct_format = ["def:v0(v1)", "if:isinstance(v1,(tuple,list,np.ndarray))", "if:len(v1)==3", "returnnp.asarray(v1).astype(int)", "else:",
      "if:len(v1)==1", "returnnp.full((3,),v1).astype(int)", "else:",
      "raiseValueError", "end", "end", "else:", "if:isinstance(v1,(float,int,np.integer,np.floating))",
      "returnnp.full((3,),v1).astype(int)", "end", "end", "end", "if:input_valueisnotNone", "v2=v0(input_value)", "else:",
      "if:reference_sizeisnotNone", "v3=v0(reference_size)", "v2=v3//2", "else:",
      "raiseValueError", "end", "end", "returnv2"] :=
  rfl

/-- the four set operations, complete bodies: accumulator (`subtraction`: a float copy of the first mask, fix 35e97b8), operator, clip bounds; `cryomap.read` copies array inputs -/
theorem algebra_source_documented :
    Gen.C13.body_union = ["v0=np.zeros(cryomap.read(mask_list[0]).shape)", "for:v1:mask_list", "v2=cryomap.read(v1)", "v0+=v2", "end",
      "v0=np.clip(v0,0.0,1.0)", "write_out(v0,output_name)", "returnv0"] ∧
    Gen.C13.body_intersection = ["v0=np.ones(cryomap.read(mask_list[0]).shape)", "for:v1:mask_list", "v2=cryomap.read(v1)", "v0*=v2", "end",
      "v0=np.clip(v0,0.0,1.0)", "write_out(v0,output_name)", "returnv0"] ∧
    Gen.C13.body_subtraction = ["v0=cryomap.read(mask_list[0]).astype(float)", "for:v1:mask_list[1:]", "v2=cryomap.read(v1)", "v0-=v2", "end",
      "v0=np.clip(v0,0.0,1.0)", "write_out(v0,output_name)", "returnv0"] ∧
    Gen.C13.body_difference = ["v0=union(mask_list)", "v1=intersection(mask_list)", "v2=v0-v1", "v2=np.clip(v2,0.0,1.0)", "write_out(v2,output_name)", "returnv2"] ∧
    Gen.C13.body_cryomap_read = ["if:isinstance(input_map,str)", "def:v0(v1)", "v2='\\\\.(mrc|ali|rec|st)(\\\\.\\\\d+)?$'", "returnbool(re.search(v2,v1))", "end",
      "if:v0(input_map)", "v3=mrcfile.open(input_map).data", "else:", "if:input_map.endswith('.em')", "v3=emfile.read(input_map)[1]",
      "else:", "raiseValueError", "end", "end", "if:transpose",
      "v3=v3.transpose(2,1,0)", "end", "else:", "if:isinstance(input_map,np.ndarray)", "v3=np.array(input_map)", "else:",
      "raiseValueError", "end", "end", "v3=np.array(v3,copy=True)", "if:data_typeisnotNone",
      "v3=v3.astype(data_type)", "end", "returnv3"] :=
  ⟨rfl, rfl, rfl, rfl, rfl⟩

/-- `write_out` (reached by every constructor and algebra call): nothing happens for `output_name=None`; `cryomap.rotate` (called by `cryomask.rotate` for non-zero angles only, i.e. outside the property's quantifier; anchored so that it cannot be re-bound or wrapped unnoticed) -/
theorem writeout_source_documented :
    Gen.C13.body_write_out = ["if:output_nameisnotNone", "cryomap.write(input_mask,output_name,data_type=np.single)", "end"] ∧
    Gen.C13.body_cryomap_rotate = ["input_map=read(input_map)", "v0=np.eye(4)", "v1=np.asarray(input_map.shape)//2", "v0[:3,-1]=v1", "v2=np.eye(4)",
      "if:rotationisnotNone", "if:transpose_rotation", "v2[0:3,0:3]=rotation.as_matrix().T", "else:", "v2[0:3,0:3]=rotation.as_matrix()", "end", "else:",
      "if:rotation_anglesisnotNone", "v3=srot.from_euler(coord_space,rotation_angles,degrees=degrees)", "v2[0:3,0:3]=v3.as_matrix().T", "else:",
      "raiseValueError", "end", "end", "v4=v0@v2@np.linalg.inv(v0)", "v5=np.empty(input_map.shape)",
      "affine_transform(input=input_map,output=v5,matrix=v4,order=spline_order)", "if:output_nameisnotNone", "write(v5,output_name,data_type=np.single)",
      "end", "returnv5"] :=
  ⟨rfl, rfl⟩

/-- `add_gaussian` / `rotate` / `postprocess`, complete bodies: `sigma == 0` returns the mask itself, otherwise `skimage.filters.gaussian(mask, sigma=sigma)` with the library defaults (mode nearest, truncate 4); no rotation for zero angles -/
theorem gaussian_source_documented :
    Gen.C13.body_add_gaussian = ["if:sigma==0", "returninput_mask", "else:", "returnfilters.gaussian(input_mask,sigma=sigma)", "end"] ∧
    Gen.C13.body_rotate = ["if:anglesisNoneornotnp.any(angles)", "returninput_mask", "else:", "returncryomap.rotate(input_mask,rotation_angles=angles)",
      "end"] ∧
    Gen.C13.body_postprocess = ["v0=add_gaussian(input_mask,gaussian)", "v0=rotate(v0,angles)", "write_out(v0,output_name)", "returnv0"] :=
  ⟨rfl, rfl, rfl⟩

/-- `generate_mask` / `parse_shape_string`, complete bodies: box-size arithmetic, the constructor called per shape name, the patterns -/
theorem generator_source_documented :
    Gen.C13.body_generate_mask = ["v0,v1=parse_shape_string(mask_shape)", "if:mask_sizeisNone", "mask_size=2*np.max(v1)+mask_expansion",
      "mask_size=math.ceil(mask_size/2)*2", "end", "if:v0=='sphere'", "v2=spherical_mask(mask_size=mask_size,radius=v1[0])", "else:",
      "if:v0=='cylinder'", "v2=cylindrical_mask(mask_size=mask_size,radius=v1[0],height=v1[1])", "else:", "if:v0=='s_shell'",
      "mask_size=math.ceil((mask_size+v1[1])/2)*2", "v2=spherical_shell_mask(mask_size=mask_size,shell_thickness=v1[1],radius=v1[0])",
      "else:", "if:v0=='ellipsoid'", "v2=ellipsoid_mask(mask_size=mask_size,radii=v1)", "else:", "if:v0=='e_shell'",
      "v2=ellipsoid_shell_mask(mask_size=mask_size,shell_thickness=v1[3],radii=v1[0:3])", "end", "end", "end", "end", "end", "returnv2"] ∧
    Gen.C13.body_parse_shape_string = ["v0={'sphere':'^sphere_r(\\\\d+)$','cylinder':'^cylinder_r(\\\\d+)_h(\\\\d+)$','s_shell':'^s_shell_r(\\\\d+)_s(\\\\d+)$','ellipsoid':'^ellipsoid_rx(\\\\d+)_ry(\\\\d+)_rz(\\\\d+)$','e_shell':'^e_shell_rx(\\\\d+)_ry(\\\\d+)_rz(\\\\d+)_s(\\\\d+)$'}",
      "for:(v1,v2):v0.items()", "v3=re.match(v2,shape_string)", "if:v3", "v4=[int(v5)forv5inv3.groups()]", "return(v1,v4)", "end", "end",
      "raiseValueError"] ∧
    Gen.C13.parsePatterns = ["sphere", "^sphere_r(\\d+)$", "cylinder", "^cylinder_r(\\d+)_h(\\d+)$", "s_shell", "^s_shell_r(\\d+)_s(\\d+)$", "ellipsoid",
      "^ellipsoid_rx(\\d+)_ry(\\d+)_rz(\\d+)$", "e_shell", "^e_shell_rx(\\d+)_ry(\\d+)_rz(\\d+)_s(\\d+)$"] :=
  ⟨rfl, rfl, rfl⟩

/-- signatures: parameter names, order and DEFAULT values the statement depends on (`gaussian=0`, `gaussian_outwards=True`, `radius/height/radii/center=None`, `mask_size=None`, `mask_expansion=4`, `output_name=None`) -/
theorem defaults_documented :
    Gen.C13.sig_spherical_mask = ["mask_size", "radius=None", "center=None", "gaussian=0.0", "gaussian_outwards=True", "output_name=None"] ∧
    Gen.C13.sig_cylindrical_mask = ["mask_size", "radius=None", "height=None", "center=None", "gaussian=0", "gaussian_outwards=True", "angles=None",
      "output_name=None"] ∧
    Gen.C13.sig_ellipsoid_mask = ["mask_size", "radii=None", "center=None", "gaussian=0", "output_name=None", "angles=None", "gaussian_outwards=True"] ∧
    Gen.C13.sig_spherical_shell_mask = ["mask_size", "shell_thickness", "radius=None", "center=None", "gaussian=0.0", "output_name=None"] ∧
    Gen.C13.sig_ellipsoid_shell_mask = ["mask_size", "shell_thickness", "radii", "center=None", "gaussian=0.0", "angles=None", "output_name=None"] ∧
    Gen.C13.sig_generate_mask = ["mask_shape", "mask_size=None", "mask_expansion=4"] ∧
    Gen.C13.sig_parse_shape_string = ["shape_string"] ∧
    Gen.C13.sig_union = ["mask_list", "output_name=None"] ∧
    Gen.C13.sig_intersection = ["mask_list", "output_name=None"] ∧
    Gen.C13.sig_subtraction = ["mask_list", "output_name=None"] ∧
    Gen.C13.sig_difference = ["mask_list", "output_name=None"] ∧
    Gen.C13.sig_preprocess_params = ["radius", "gaussian", "gaussian_outwards"] ∧
    Gen.C13.sig_get_correct_format = ["input_value", "reference_size=None"] ∧
    Gen.C13.sig_add_gaussian = ["input_mask", "sigma"] ∧
    Gen.C13.sig_rotate = ["input_mask", "angles"] ∧
    Gen.C13.sig_postprocess = ["input_mask", "gaussian", "angles", "output_name"] ∧
    Gen.C13.sig_cryomap_read = ["input_map", "transpose=True", "data_type=None"] ∧
    Gen.C13.sig_write_out = ["input_mask", "output_name"] ∧
    Gen.C13.sig_cryomap_rotate = ["input_map", "rotation=None", "rotation_angles=None", "coord_space='zxz'", "transpose_rotation=False", "degrees=True",
      "spline_order=3", "output_name=None"] :=
  ⟨rfl, rfl, rfl, rfl, rfl, rfl, rfl, rfl, rfl, rfl, rfl, rfl, rfl, rfl, rfl, rfl, rfl, rfl, rfl⟩

/-- the literal pieces of the five patterns `^label(\\d+)label(\\d+)…$`, in the order the source tries them -/
theorem labels_documented :
    Gen.C13.shapeLabels =
     [("sphere", [['s', 'p', 'h', 'e', 'r', 'e', '_', 'r']]),
      ("cylinder", [['c', 'y', 'l', 'i', 'n', 'd', 'e', 'r', '_', 'r'], ['_', 'h']]),
      ("s_shell", [['s', '_', 's', 'h', 'e', 'l', 'l', '_', 'r'], ['_', 's']]),
      ("ellipsoid", [['e', 'l', 'l', 'i', 'p', 's', 'o', 'i', 'd', '_', 'r', 'x'], ['_', 'r', 'y'], ['_', 'r', 'z']]),
      ("e_shell", [['e', '_', 's', 'h', 'e', 'l', 'l', '_', 'r', 'x'], ['_', 'r', 'y'], ['_', 'r', 'z'], ['_', 's']])] := by decide

/-! ### the array layout -/

/-- the mask has `nx·ny·nz` voxels and voxel `(i,j,k)` sits at flat index `(i·ny + j)·nz + k` (C order) -/
theorem mask_layout (q : Req) (f : Int → Int → Int → Int) (h : voxel q = some f) :
    ∃ m, hardMask q = some m ∧ m.length = q.nx * (q.ny * q.nz) ∧
      ∀ i j k : Nat, i < q.nx → j < q.ny → k < q.nz → m[(i * q.ny + j) * q.nz + k]? = some (f i j k) := by
  refine ⟨render q.nx q.ny q.nz (fun i j k => f i j k), by simp [hardMask, h], render_length _ _ _ _, ?_⟩
  intro i j k hi hj hk
  exact render_getElem? _ _ _ _ i j k hi hj hk

/-! ### definitions used in the statements -/

/- `dist2 c i j k = (i-cx)² + (j-cy)² + (k-cz)²` and `dist2xy c i j = (i-cx)² + (j-cy)²` are defined in
`Lemmas/C13_Shapes.lean`. -/

/-- "centres anywhere in the box" -/
def CentreInBox (q : Req) : Prop :=
  0 ≤ q.centre.1 ∧ q.centre.1 < q.nx ∧ 0 ≤ q.centre.2.1 ∧ q.centre.2.1 < q.ny ∧ 0 ≤ q.centre.2.2 ∧ q.centre.2.2 < q.nz

/-! ### sphere: distance ≤ r -/

/-- **Sphere.** For every box, every centre in the box and every drawn radius `R ≥ 0` the mask holds 1
exactly at the voxels with `distance² ≤ R²`, 0 elsewhere. -/
theorem sphere_exact (q : Req) (hk : q.kind = .sphere) (hc : CentreInBox q) (hr : 0 ≤ q.sphereRadius) :
    voxel q = some fun i j k => if (dist2 q.centre i j k : Rat) ≤ q.sphereRadius ^ 2 then 1 else 0 := by
  obtain ⟨h1, h2, h3, h4, h5, h6⟩ := hc
  rcases hcc : q.centre with ⟨cx, cy, cz⟩
  rw [hcc] at h1 h2 h3 h4 h5 h6
  have hv : voxel q = some fun i j k => b2i (sphereVox q.nx q.ny q.nz cx cy cz q.sphereRadius i j k) := by
    simp only [voxel, hcc, hk, idxOk_of_inBox _ _ h1 h2, idxOk_of_inBox _ _ h3 h4, idxOk_of_inBox _ _ h5 h6, Bool.and_self, if_true]
  rw [hv]
  congr 1
  funext i j k
  apply b2i_eq_ite
  rw [sphereVox_inBox _ _ _ _ _ _ _ h1 h3 h5, sphereIn_iff _ _ _ _ hr, sq_sum_eq_dist2, pow_two q.sphereRadius]

/-- the returned array, voxel by voxel: for every `(i,j,k)` of the box the entry at flat index
`(i·ny + j)·nz + k` is 1 if `distance² ≤ R²` and 0 otherwise (`sphere_exact` + `mask_layout`) -/
theorem sphere_array_exact (q : Req) (hk : q.kind = .sphere) (hc : CentreInBox q) (hr : 0 ≤ q.sphereRadius) :
    ∃ m, hardMask q = some m ∧ m.length = q.nx * (q.ny * q.nz) ∧
      ∀ i j k : Nat, i < q.nx → j < q.ny → k < q.nz →
        m[(i * q.ny + j) * q.nz + k]? = some (if (dist2 q.centre i j k : Rat) ≤ q.sphereRadius ^ 2 then 1 else 0) :=
  mask_layout q _ (sphere_exact q hk hc hr)

/-- the same with the Euclidean distance itself, as the code computes it: `√d² ≤ R`
(for any `R`, negative ones included: then only the forced centre voxel is set) -/
theorem sphere_exact_sqrt (cx cy cz : Int) (r : Rat) (i j k : Int) :
    sphereIn cx cy cz r i j k = true ↔
      (i = cx ∧ j = cy ∧ k = cz) ∨ Real.sqrt ((dist2 (cx, cy, cz) i j k : Int) : ℝ) ≤ (r : ℝ) := by
  unfold sphereIn
  rw [Bool.or_eq_true, Bool.not_eq_true', ← Bool.not_eq_true, sqrtGt_iff_real, not_lt, sq_sum_eq_dist2]
  simp only [Bool.and_eq_true, beq_iff_eq, and_assoc]

/-- the radius that is drawn: the requested one for a hard edge or a centred blur … -/
theorem sphere_radius_hard (q : Req) (r : Rat) (hr : q.radius = some r) (hg : q.gauss = 0 ∨ q.outwards = false) :
    q.sphereRadius = r := by
  unfold Req.sphereRadius; rw [hr]
  rcases hg with h | h <;> simp [h, preprocess]

/-- … and `⌈r + 5σ⌉ ≥ r + 5σ` for a blur applied outwards -/
theorem sphere_radius_outwards (q : Req) (r : Rat) (hr : q.radius = some r) (hg : q.gauss ≠ 0) (ho : q.outwards = true) :
    q.sphereRadius = ((r + q.gauss * 5).ceil : Int) ∧ r + q.gauss * 5 ≤ q.sphereRadius := by
  have e : q.sphereRadius = ((r + q.gauss * 5).ceil : Int) := by
    unfold Req.sphereRadius; rw [hr, ho, Option.getD_some, preprocess_outwards _ _ hg, blur_factor_documented]
  exact ⟨e, by rw [e]; exact Rat.le_ceil⟩

/-- default radius: half the smallest box dimension -/
theorem sphere_radius_default (q : Req) (hr : q.radius = none) (hg : q.gauss = 0) :
    q.sphereRadius = ((min (min q.nx q.ny) q.nz / 2 : Nat) : Rat) := by
  unfold Req.sphereRadius; rw [hr, hg]; simp [preprocess]

/-! ### cylinder: planar distance ≤ r and |k − cz| ≤ ⌊h/2⌋ -/

/-- **Cylinder.** For every box, every centre whose `(x,y)` lies in the box, every drawn radius `R ≥ 0`
and every half height `H` (any size, also reaching beyond the box: the slab is clipped) the mask holds
1 exactly at the voxels of the box with planar `distance² ≤ R²` and `|k − cz| ≤ H`. -/
theorem cylinder_exact (q : Req) (hk : q.kind = .cylinder)
    (hc : 0 ≤ q.centre.1 ∧ q.centre.1 < q.nx ∧ 0 ≤ q.centre.2.1 ∧ q.centre.2.1 < q.ny) (hr : 0 ≤ q.cylRadius) :
    ∃ f, voxel q = some f ∧ ∀ i j k : Nat, k < q.nz →
      f i j k = if (dist2xy q.centre i j : Rat) ≤ q.cylRadius ^ 2 ∧ |(k : Int) - q.centre.2.2| ≤ q.cylHalf then 1 else 0 := by
  obtain ⟨h1, h2, h3, h4⟩ := hc
  rcases hcc : q.centre with ⟨cx, cy, cz⟩
  rw [hcc] at h1 h2 h3 h4
  refine ⟨fun i j k => b2i (cylVox q.nx q.ny q.nz cx cy cz q.cylRadius q.cylHalf i j k), ?_, ?_⟩
  · simp only [voxel, hcc, hk, idxOk_of_inBox _ _ h1 h2, idxOk_of_inBox _ _ h3 h4, Bool.and_self, if_true]
  · intro i j k hkz
    apply b2i_eq_ite
    rw [cylVox_inBox _ _ _ _ _ _ _ _ h1 h3]
    unfold cylIn
    rw [Bool.and_eq_true, Bool.and_eq_true, decide_eq_true_iff, decide_eq_true_iff, discIn_iff _ _ _ hr,
      and_assoc, slab_iff q.nz cz q.cylHalf k (by omega) (by exact_mod_cast hkz), sq_sum_eq_dist2xy cx cy cz, pow_two q.cylRadius]

/-- the half height that is drawn is `height // 2 = ⌊height / 2⌋` for a hard edge … -/
theorem cylinder_half_height_hard (q : Req) (h : Int) (hh : q.height = some h) (hg : q.gauss = 0 ∨ q.outwards = false) :
    q.cylHalf = h / 2 ∧ h / 2 = ⌊(h : ℚ) / 2⌋ := by
  constructor
  · unfold Req.cylHalf; rw [hh]
    rcases hg with e | e <;> simp [e, preprocess, trunc_intCast]
  · have := Rat.floor_intCast_div_natCast h 2
    simpa using this.symm

/-- … and `⌈height // 2 + 5σ⌉` for a blur applied outwards; default height = the box's z size -/
theorem cylinder_half_height_outwards (q : Req) (h : Int) (hh : q.height = some h) (hg : q.gauss ≠ 0) (ho : q.outwards = true) :
    q.cylHalf = (((h / 2 : Int) : Rat) + q.gauss * 5).ceil := by
  unfold Req.cylHalf
  rw [hh, ho, Option.getD_some, preprocess_outwards _ _ hg, blur_factor_documented, trunc_intCast]

/-- a height given as a non-integer (`6.0`, `7.5`; `cylindrical_mask` takes `int(height // 2)`, fix D-float-height): the statement's
`⌊h/2⌋` only depends on `⌊h⌋`, and `h = n + 1/2` gives the half height of the integer `n` — the float heights the generator
passes are judged with the integer-height model -/
theorem half_height_of_fractional (h : ℚ) : ⌊h / 2⌋ = ⌊h⌋ / 2 ∧ ∀ n : ℤ, ⌊((n : ℚ) + 1 / 2) / 2⌋ = n / 2 := by
  have key : ∀ x : ℚ, ⌊x / 2⌋ = ⌊x⌋ / 2 := fun x => by
    have := Int.floor_div_natCast x 2
    simpa using this
  refine ⟨key h, fun n => ?_⟩
  rw [key]
  congr 1
  rw [Int.floor_eq_iff]
  constructor <;> norm_num

theorem cylinder_radius_hard (q : Req) (r : Rat) (hr : q.radius = some r) (hg : q.gauss = 0 ∨ q.outwards = false) :
    q.cylRadius = r := by
  unfold Req.cylRadius; rw [hr]
  rcases hg with h | h <;> simp [h, preprocess]

/-! ### ellipsoid on even boxes: Σ((i − c)/r)² ≤ 1 -/

/-- **Ellipsoid.** On boxes with even sizes, for every centre and all non-zero integer radii, the test
the code evaluates on its reversed, half-shifted grid is `((i−cx)/rx)² + ((j−cy)/ry)² + ((k−cz)/rz)² ≤ 1`. -/
theorem ellipsoid_exact_even (nx ny nz : Nat) (hx : nx % 2 = 0) (hy : ny % 2 = 0) (hz : nz % 2 = 0)
    (cx cy cz rx ry rz : Int) (hrx : rx ≠ 0) (hry : ry ≠ 0) (hrz : rz ≠ 0) (i j k : Int) :
    ellipsoidIn nx ny nz cx cy cz rx ry rz i j k = true ↔
      (((i : Rat) - cx) / rx) ^ 2 + (((j : Rat) - cy) / ry) ^ 2 + (((k : Rat) - cz) / rz) ^ 2 ≤ 1 :=
  ellipsoidIn_even nx ny nz hx hy hz cx cy cz rx ry rz hrx hry hrz i j k

/-- the mask returned by `ellipsoid_mask` (any centre, radii given, hard edge): the drawn radii are the
integer parts of the requested ones — for integer radii this is the statement's inequality, for non-integer radii it is NOT
(proposed open finding C13-K3, `ellipsoid_fractional_radii_truncated`) -/
theorem ellipsoid_mask_exact (q : Req) (hk : q.kind = .ellipsoid) (hx : q.nx % 2 = 0) (hy : q.ny % 2 = 0) (hz : q.nz % 2 = 0)
    (a b c : Rat) (hr : q.radii = some (a, b, c)) (hg : q.gauss = 0)
    (ha : trunc a ≠ 0) (hb : trunc b ≠ 0) (hc : trunc c ≠ 0) :
    voxel q = some fun (i j k : Int) =>
      if (((i : Rat) - q.centre.1) / trunc a) ^ 2 + (((j : Rat) - q.centre.2.1) / trunc b) ^ 2
          + (((k : Rat) - q.centre.2.2) / trunc c) ^ 2 ≤ 1 then 1 else 0 := by
  rcases hcc : q.centre with ⟨cx, cy, cz⟩
  have hv : voxel q = some fun i j k => b2i (ellipsoidIn q.nx q.ny q.nz cx cy cz (trunc a) (trunc b) (trunc c) i j k) := by
    simp only [voxel, hcc, hk, Req.radiiInt, hr, ellRadii, hg, preprocess_hard, trunc_intCast]
  rw [hv]
  congr 1
  funext i j k
  apply b2i_eq_ite
  exact ellipsoidIn_even _ _ _ hx hy hz _ _ _ _ _ _ ha hb hc i j k

/-- division-free form of the ellipsoid inequality for positive radii -/
theorem ellipsoid_integer_form (a b c rx ry rz : Int) (hrx : 0 < rx) (hry : 0 < ry) (hrz : 0 < rz) :
    ((a : Rat) / rx) ^ 2 + ((b : Rat) / ry) ^ 2 + ((c : Rat) / rz) ^ 2 ≤ 1 ↔
      a * a * (ry * ry * (rz * rz)) + b * b * (rx * rx * (rz * rz)) + c * c * (rx * rx * (ry * ry))
        ≤ rx * rx * (ry * ry) * (rz * rz) :=
  ellipsoid_int_form a b c rx ry rz hrx hry hrz

/-! ### shells: outer solid minus inner solid -/

/-- **Spherical shell.** For a thickness `t ≥ 0` the float difference `sp1 - sp2` of the two spheres of
radii `r ± t/2` is 0/1-valued and equals "in the outer solid and not in the inner solid". -/
theorem sphere_shell_exact (q : Req) (hk : q.kind = .sshell) (hc : CentreInBox q) (r : Rat) (hr : q.radius = some r)
    (ht : 0 ≤ q.thick) :
    voxel q = some fun i j k =>
      b2i (sphereIn q.centre.1 q.centre.2.1 q.centre.2.2 (r + q.thick / 2) i j k
            && !sphereIn q.centre.1 q.centre.2.1 q.centre.2.2 (r - q.thick / 2) i j k) := by
  obtain ⟨h1, h2, h3, h4, h5, h6⟩ := hc
  rcases hcc : q.centre with ⟨cx, cy, cz⟩
  rw [hcc] at h1 h2 h3 h4 h5 h6
  have hv : voxel q = some fun i j k =>
      b2i (sphereIn cx cy cz (r + q.thick / 2) i j k) - b2i (sphereIn cx cy cz (r - q.thick / 2) i j k) := by
    simp only [voxel, hcc, hk, hr, idxOk_of_inBox _ _ h1 h2, idxOk_of_inBox _ _ h3 h4, idxOk_of_inBox _ _ h5 h6, Bool.and_self, if_true,
      Option.getD_some, sphereVox_inBox _ _ _ _ _ _ _ h1 h3 h5]
  rw [hv]
  congr 1
  funext i j k
  have hmono := sphereIn_mono cx cy cz (r - q.thick / 2) (r + q.thick / 2) (by linarith) i j k
  cases hin : sphereIn cx cy cz (r - q.thick / 2) i j k
  · cases sphereIn cx cy cz (r + q.thick / 2) i j k <;> rfl
  · rw [hmono hin]; rfl

/-- with a non-negative inner radius both solids are the analytic balls:
the shell is `(r − t/2)² < distance² ≤ (r + t/2)²` -/
theorem sphere_shell_analytic (cx cy cz : Int) (r t : Rat) (ht : 0 ≤ t) (hin : 0 ≤ r - t / 2) (i j k : Int) :
    (sphereIn cx cy cz (r + t / 2) i j k && !sphereIn cx cy cz (r - t / 2) i j k) = true ↔
      (r - t / 2) ^ 2 < (dist2 (cx, cy, cz) i j k : Rat) ∧ (dist2 (cx, cy, cz) i j k : Rat) ≤ (r + t / 2) ^ 2 := by
  rw [Bool.and_eq_true, Bool.not_eq_true', ← Bool.not_eq_true, sphereIn_iff _ _ _ _ (by linarith), sphereIn_iff _ _ _ _ hin,
    not_le, sq_sum_eq_dist2, pow_two, pow_two (r + t / 2)]
  exact and_comm

/-- **Ellipsoid shell** `e1 & ~e2`: outer ellipsoid (radii `int(r + t/2)`) and not inner ellipsoid
(radii `int(r − t/2)`), each of them an `ellipsoid_mask` (so `ellipsoid_exact_even` applies to both). -/
theorem ellipsoid_shell_exact (q : Req) (hk : q.kind = .eshell) (a b c : Rat) (hr : q.radii = some (a, b, c)) :
    voxel q = some fun i j k =>
      b2i (ellipsoidIn q.nx q.ny q.nz q.centre.1 q.centre.2.1 q.centre.2.2
              (trunc ((trunc a : Rat) + q.thick / 2)) (trunc ((trunc b : Rat) + q.thick / 2)) (trunc ((trunc c : Rat) + q.thick / 2)) i j k
           && !ellipsoidIn q.nx q.ny q.nz q.centre.1 q.centre.2.1 q.centre.2.2
              (trunc ((trunc a : Rat) - q.thick / 2)) (trunc ((trunc b : Rat) - q.thick / 2)) (trunc ((trunc c : Rat) - q.thick / 2)) i j k) := by
  rcases hcc : q.centre with ⟨cx, cy, cz⟩
  simp only [voxel, hcc, hk, Req.radiiInt, hr, ellRadii, preprocess_hard, trunc_intCast]

/-- **C13-K3 (proposed open finding), witness about the model.**  Non-integer ellipsoid radii are cut to their integer part
(`get_correct_format` ends in `.astype(int)`, modelled by `trunc`): `ellipsoid_mask([12,12,12], radii=[2.5,2.5,2.5])` draws radii
`(2,2,2)`, so voxel `(8,7,7)` (offset `(2,1,1)` from the centre) is left out although `(2/2.5)² + (1/2.5)² + (1/2.5)² = 0.96 ≤ 1`;
`ellipsoid_shell_mask` with radius 5 and the odd thickness 3 draws the radii `int(6.5) = 6` and `int(3.5) = 3`. -/
theorem ellipsoid_fractional_radii_truncated :
    ellRadii ((5 / 2 : Rat), (5 / 2 : Rat), (5 / 2 : Rat)) 0 true = (2, 2, 2) ∧
    ellipsoidIn 12 12 12 6 6 6 2 2 2 8 7 7 = false ∧
    ((((8 : Rat) - 6) / (5 / 2)) ^ 2 + (((7 : Rat) - 6) / (5 / 2)) ^ 2 + (((7 : Rat) - 6) / (5 / 2)) ^ 2 ≤ 1) ∧
    ellRadii ((5 : Rat) + 3 / 2, (5 : Rat) + 3 / 2, (5 : Rat) + 3 / 2) 0 true = (6, 6, 6) ∧
    ellRadii ((5 : Rat) - 3 / 2, (5 : Rat) - 3 / 2, (5 : Rat) - 3 / 2) 0 true = (3, 3, 3) := by decide +kernel

/-! ### the name-based generator builds the same shapes -/

/-- box size when none is given: the smallest even number `≥ 2·max(specs) + expansion` -/
theorem generate_box_size (specs : List Nat) (e : Nat) :
    genSize specs none e % 2 = 0 ∧ 2 * specs.foldl max 0 + e ≤ genSize specs none e ∧
      genSize specs none e ≤ 2 * specs.foldl max 0 + e + 1 ∧ ∀ s, genSize specs (some s) e = s := by
  refine ⟨?_, ?_, ?_, fun s => rfl⟩ <;> simp only [genSize] <;> omega

theorem generate_sphere (r : Nat) (ms : Option Nat) (e : Nat) :
    generate .sphere [r] ms e =
      some { kind := .sphere, nx := genSize [r] ms e, ny := genSize [r] ms e, nz := genSize [r] ms e, radius := some (r : Rat) } := rfl

theorem generate_cylinder (r h : Nat) (ms : Option Nat) (e : Nat) :
    generate .cylinder [r, h] ms e =
      some { kind := .cylinder, nx := genSize [r, h] ms e, ny := genSize [r, h] ms e, nz := genSize [r, h] ms e,
             radius := some (r : Rat), height := some (h : Int) } := rfl

theorem generate_ellipsoid (a b c : Nat) (ms : Option Nat) (e : Nat) :
    generate .ellipsoid [a, b, c] ms e =
      some { kind := .ellipsoid, nx := genSize [a, b, c] ms e, ny := genSize [a, b, c] ms e, nz := genSize [a, b, c] ms e,
             radii := some ((a : Rat), (b : Rat), (c : Rat)) } := rfl

/-- spherical shells get the thickness added to the box size (rounded up to even), also to a given size -/
theorem generate_sphere_shell (r t : Nat) (ms : Option Nat) (e : Nat) :
    ∃ s, generate .sshell [r, t] ms e = some { kind := .sshell, nx := s, ny := s, nz := s, radius := some (r : Rat), thick := (t : Rat) } ∧
      s % 2 = 0 ∧ genSize [r, t] ms e + t ≤ s ∧ s ≤ genSize [r, t] ms e + t + 1 :=
  ⟨_, rfl, by omega, by omega, by omega⟩

theorem generate_ellipsoid_shell (a b c t : Nat) (ms : Option Nat) (e : Nat) :
    generate .eshell [a, b, c, t] ms e =
      some { kind := .eshell, nx := genSize [a, b, c, t] ms e, ny := genSize [a, b, c, t] ms e, nz := genSize [a, b, c, t] ms e,
             radii := some ((a : Rat), (b : Rat), (c : Rat)), thick := (t : Rat) } := rfl

/-- the generated sphere is centred (default centre `size // 2` is in the box) and, by `sphere_exact`,
is exactly the ball of the named radius -/
theorem generate_sphere_exact (r : Nat) (ms : Option Nat) (e : Nat) (hs : 0 < genSize [r] ms e) :
    ∃ q, generate .sphere [r] ms e = some q ∧
      voxel q = some fun i j k => if (dist2 q.centre i j k : Rat) ≤ (r : Rat) ^ 2 then 1 else 0 := by
  refine ⟨_, generate_sphere r ms e, ?_⟩
  have hrad : ∀ q : Req, q.radius = some (r : Rat) → q.gauss = 0 → q.sphereRadius = (r : Rat) :=
    fun q h1 h2 => sphere_radius_hard q r h1 (Or.inl h2)
  set q : Req := { kind := .sphere, nx := genSize [r] ms e, ny := genSize [r] ms e, nz := genSize [r] ms e, radius := some (r : Rat) } with hq
  have h := sphere_exact q rfl (by
    simp only [CentreInBox, Req.centre, hq, Option.getD_none]
    omega) (by rw [hrad q rfl rfl]; exact_mod_cast Nat.zero_le r)
  rw [hrad q rfl rfl] at h
  exact h


/-- the generated cylinder is centred and is exactly the analytic cylinder of the named radius and height:
planar `distance² ≤ r²` and `|k − cz| ≤ ⌊h/2⌋` -/
theorem generate_cylinder_exact (r h : Nat) (ms : Option Nat) (e : Nat) (hs : 0 < genSize [r, h] ms e) :
    ∃ q f, generate .cylinder [r, h] ms e = some q ∧ voxel q = some f ∧ ∀ i j k : Nat, k < q.nz →
      f i j k = if (dist2xy q.centre i j : Rat) ≤ (r : Rat) ^ 2 ∧ |(k : Int) - q.centre.2.2| ≤ (h : Int) / 2 then 1 else 0 := by
  set q : Req := { kind := .cylinder, nx := genSize [r, h] ms e, ny := genSize [r, h] ms e, nz := genSize [r, h] ms e,
                   radius := some (r : Rat), height := some (h : Int) } with hq
  have hrad : q.cylRadius = (r : Rat) := cylinder_radius_hard q r rfl (Or.inl rfl)
  have hhalf : q.cylHalf = (h : Int) / 2 := (cylinder_half_height_hard q h rfl (Or.inl rfl)).1
  obtain ⟨f, hf, hv⟩ := cylinder_exact q rfl (by
    simp only [Req.centre, hq, Option.getD_none]
    omega) (by rw [hrad]; exact_mod_cast Nat.zero_le r)
  refine ⟨q, f, generate_cylinder r h ms e, hf, ?_⟩
  intro i j k hk
  rw [hv i j k hk, hrad, hhalf]

/-- the generated ellipsoid (even box: always so when no size is given) is `Σ((i−c)/r)² ≤ 1` with the named radii -/
theorem generate_ellipsoid_exact (a b c : Nat) (ms : Option Nat) (e : Nat) (ha : a ≠ 0) (hb : b ≠ 0) (hc : c ≠ 0)
    (heven : genSize [a, b, c] ms e % 2 = 0) :
    ∃ q, generate .ellipsoid [a, b, c] ms e = some q ∧
      voxel q = some fun (i j k : Int) =>
        if (((i : Rat) - q.centre.1) / (a : Int)) ^ 2 + (((j : Rat) - q.centre.2.1) / (b : Int)) ^ 2
            + (((k : Rat) - q.centre.2.2) / (c : Int)) ^ 2 ≤ 1 then 1 else 0 := by
  refine ⟨_, generate_ellipsoid a b c ms e, ?_⟩
  have h := ellipsoid_mask_exact { kind := .ellipsoid, nx := genSize [a, b, c] ms e, ny := genSize [a, b, c] ms e, nz := genSize [a, b, c] ms e, radii := some ((a : Rat), (b : Rat), (c : Rat)) } rfl heven heven heven (a : Rat) (b : Rat) (c : Rat) rfl rfl
    (by rw [trunc_natCast]; exact_mod_cast ha) (by rw [trunc_natCast]; exact_mod_cast hb) (by rw [trunc_natCast]; exact_mod_cast hc)
  simp only [trunc_natCast] at h
  exact h

/-- the generated spherical shell: outer ball `r + t/2` and not inner ball `r − t/2`, centred in the enlarged box -/
theorem generate_sphere_shell_exact (r t : Nat) (ms : Option Nat) (e : Nat) :
    ∃ q, generate .sshell [r, t] ms e = some q ∧ (0 < q.nx →
      voxel q = some fun i j k =>
        b2i (sphereIn q.centre.1 q.centre.2.1 q.centre.2.2 ((r : Rat) + (t : Rat) / 2) i j k
              && !sphereIn q.centre.1 q.centre.2.1 q.centre.2.2 ((r : Rat) - (t : Rat) / 2) i j k)) := by
  refine ⟨_, rfl, ?_⟩
  intro hpos
  set q : Req := { kind := .sshell, nx := ((genSize [r, t] ms e + t + 1) / 2) * 2, ny := ((genSize [r, t] ms e + t + 1) / 2) * 2,
                   nz := ((genSize [r, t] ms e + t + 1) / 2) * 2, radius := some (r : Rat), thick := (t : Rat) } with hq
  have hpos' : 0 < ((genSize [r, t] ms e + t + 1) / 2) * 2 := hpos
  exact sphere_shell_exact q rfl (by
    simp only [CentreInBox, Req.centre, hq, Option.getD_none]
    omega) (r : Rat) rfl (by show (0 : Rat) ≤ ((t : Nat) : Rat); exact_mod_cast Nat.zero_le t)

/-- the generated ellipsoid shell: outer ellipsoid `int(r + t/2)` and not inner ellipsoid `int(r − t/2)` -/
theorem generate_ellipsoid_shell_exact (a b c t : Nat) (ms : Option Nat) (e : Nat) :
    ∃ q, generate .eshell [a, b, c, t] ms e = some q ∧
      voxel q = some fun i j k =>
        b2i (ellipsoidIn q.nx q.ny q.nz q.centre.1 q.centre.2.1 q.centre.2.2
                (trunc (((a : Int) : Rat) + (t : Rat) / 2)) (trunc (((b : Int) : Rat) + (t : Rat) / 2)) (trunc (((c : Int) : Rat) + (t : Rat) / 2)) i j k
             && !ellipsoidIn q.nx q.ny q.nz q.centre.1 q.centre.2.1 q.centre.2.2
                (trunc (((a : Int) : Rat) - (t : Rat) / 2)) (trunc (((b : Int) : Rat) - (t : Rat) / 2)) (trunc (((c : Int) : Rat) - (t : Rat) / 2)) i j k) := by
  refine ⟨_, generate_ellipsoid_shell a b c t ms e, ?_⟩
  have h := ellipsoid_shell_exact { kind := .eshell, nx := genSize [a, b, c, t] ms e, ny := genSize [a, b, c, t] ms e, nz := genSize [a, b, c, t] ms e, radii := some ((a : Rat), (b : Rat), (c : Rat)), thick := (t : Rat) } rfl (a : Rat) (b : Rat) (c : Rat) rfl
  simp only [trunc_natCast] at h
  exact h

/-! ### `parse_shape_string`: the name written for a shape parses back to the shape -/

/-- **parse ∘ format = id**: for every shape kind and every list of dimensions of the right length, the name
`label₁ str(n₁) label₂ str(n₂) …` built from the labels found in the source is parsed (first matching pattern, in
the order of the source's table) to exactly that kind and those numbers -/
theorem parse_format (k : Kind) (ns : List Nat) (hn : ns.length = arity k) :
    ∃ s, formatShape k ns = some s ∧ parseShape s = some (k, ns) := by
  have hl : Gen.C13.shapeLabels = docLabels := labels_documented
  have key : ∀ (ls : List (List Char)), labelsOf docLabels k = some ls → ls.length = ns.length →
      GoodLabels ls → (∀ l ∈ ls, '\n' ∉ l) → parseWith docLabels (formatFields ls ns) = some (k, ns) →
      ∃ s, formatShape k ns = some s ∧ parseShape s = some (k, ns) := by
    intro ls h1 _ _ hnl hp
    refine ⟨formatFields ls ns, by simp [formatShape, hl, h1], ?_⟩
    unfold parseShape
    rw [hl]
    have hlast : ¬ (formatFields ls ns).getLast? = some '\n' := by
      intro hc
      have hm : '\n' ∈ formatFields ls ns := List.mem_of_getLast? hc
      rcases mem_formatFields ls ns '\n' hm with ⟨l, hl', hin⟩ | hd
      · exact hnl l hl' hin
      · exact absurd hd (by decide)
    rw [if_neg hlast]
    exact hp
  cases k
  · -- sphere
    obtain ⟨r, rfl⟩ : ∃ r, ns = [r] := by
      match ns, hn with
      | [r], _ => exact ⟨r, rfl⟩
    apply key [['s', 'p', 'h', 'e', 'r', 'e', '_', 'r']] (by decide) rfl (goodLabels_of _ (by decide)) (by decide)
    have := parseFields_formatFields [['s', 'p', 'h', 'e', 'r', 'e', '_', 'r']] [r] (goodLabels_of _ (by decide)) rfl
    exact parseWith_cons_some _ _ _ _ _ _ (by simp [kindOfName]) this
  · -- cylinder
    obtain ⟨r, h, rfl⟩ : ∃ r h, ns = [r, h] := by
      match ns, hn with
      | [r, h], _ => exact ⟨r, h, rfl⟩
    apply key [['c', 'y', 'l', 'i', 'n', 'd', 'e', 'r', '_', 'r'], ['_', 'h']] (by decide) rfl (goodLabels_of _ (by decide)) (by decide)
    have := parseFields_formatFields [['c', 'y', 'l', 'i', 'n', 'd', 'e', 'r', '_', 'r'], ['_', 'h']] [r, h] (goodLabels_of _ (by decide)) rfl
    unfold docLabels
    rw [parseWith_cons_none _ _ _ (parseFields_none_of_prefix _ _ _ (by simp [stripPrefix, formatFields]))]
    exact parseWith_cons_some _ _ _ _ _ _ (by simp [kindOfName]) this
  · -- ellipsoid
    obtain ⟨a, b, c, rfl⟩ : ∃ a b c, ns = [a, b, c] := by
      match ns, hn with
      | [a, b, c], _ => exact ⟨a, b, c, rfl⟩
    apply key [['e', 'l', 'l', 'i', 'p', 's', 'o', 'i', 'd', '_', 'r', 'x'], ['_', 'r', 'y'], ['_', 'r', 'z']] (by decide) rfl
      (goodLabels_of _ (by decide)) (by decide)
    have := parseFields_formatFields [['e', 'l', 'l', 'i', 'p', 's', 'o', 'i', 'd', '_', 'r', 'x'], ['_', 'r', 'y'], ['_', 'r', 'z']] [a, b, c]
      (goodLabels_of _ (by decide)) rfl
    unfold docLabels
    rw [parseWith_cons_none _ _ _ (parseFields_none_of_prefix _ _ _ (by simp [stripPrefix, formatFields]))]
    rw [parseWith_cons_none _ _ _ (parseFields_none_of_prefix _ _ _ (by simp [stripPrefix, formatFields]))]
    rw [parseWith_cons_none _ _ _ (parseFields_none_of_prefix _ _ _ (by simp [stripPrefix, formatFields]))]
    exact parseWith_cons_some _ _ _ _ _ _ (by simp [kindOfName]) this
  · -- spherical shell
    obtain ⟨r, t, rfl⟩ : ∃ r t, ns = [r, t] := by
      match ns, hn with
      | [r, t], _ => exact ⟨r, t, rfl⟩
    apply key [['s', '_', 's', 'h', 'e', 'l', 'l', '_', 'r'], ['_', 's']] (by decide) rfl (goodLabels_of _ (by decide)) (by decide)
    have := parseFields_formatFields [['s', '_', 's', 'h', 'e', 'l', 'l', '_', 'r'], ['_', 's']] [r, t] (goodLabels_of _ (by decide)) rfl
    unfold docLabels
    rw [parseWith_cons_none _ _ _ (parseFields_none_of_prefix _ _ _ (by simp [stripPrefix, formatFields]))]
    rw [parseWith_cons_none _ _ _ (parseFields_none_of_prefix _ _ _ (by simp [stripPrefix, formatFields]))]
    exact parseWith_cons_some _ _ _ _ _ _ (by simp [kindOfName]) this
  · -- ellipsoid shell
    obtain ⟨a, b, c, t, rfl⟩ : ∃ a b c t, ns = [a, b, c, t] := by
      match ns, hn with
      | [a, b, c, t], _ => exact ⟨a, b, c, t, rfl⟩
    apply key [['e', '_', 's', 'h', 'e', 'l', 'l', '_', 'r', 'x'], ['_', 'r', 'y'], ['_', 'r', 'z'], ['_', 's']] (by decide) rfl
      (goodLabels_of _ (by decide)) (by decide)
    have := parseFields_formatFields [['e', '_', 's', 'h', 'e', 'l', 'l', '_', 'r', 'x'], ['_', 'r', 'y'], ['_', 'r', 'z'], ['_', 's']] [a, b, c, t]
      (goodLabels_of _ (by decide)) rfl
    unfold docLabels
    rw [parseWith_cons_none _ _ _ (parseFields_none_of_prefix _ _ _ (by simp [stripPrefix, formatFields]))]
    rw [parseWith_cons_none _ _ _ (parseFields_none_of_prefix _ _ _ (by simp [stripPrefix, formatFields]))]
    rw [parseWith_cons_none _ _ _ (parseFields_none_of_prefix _ _ _ (by simp [stripPrefix, formatFields]))]
    rw [parseWith_cons_none _ _ _ (parseFields_none_of_prefix _ _ _ (by simp [stripPrefix, formatFields]))]
    exact parseWith_cons_some _ _ _ _ _ _ (by simp [kindOfName]) this

/-- what `generate_mask(name)` does with the parsed name: `parse_format` composed with `generate` -/
theorem generate_from_name (k : Kind) (ns : List Nat) (hn : ns.length = arity k) (ms : Option Nat) (e : Nat) :
    ∃ s, formatShape k ns = some s ∧ (parseShape s).bind (fun p => generate p.1 p.2 ms e) = generate k ns ms e := by
  obtain ⟨s, h1, h2⟩ := parse_format k ns hn
  exact ⟨s, h1, by rw [h2]; rfl⟩

/-! ### centres outside the box (outside the property's quantifier; modelled because numpy does not raise) -/

/-- `spherical_mask` raises (`IndexError` at the forced centre voxel) exactly when a centre index is `≥ n` or `< −n` -/
theorem sphere_defined_iff (q : Req) (hk : q.kind = .sphere) :
    (voxel q).isSome = true ↔ (-(q.nx : Int) ≤ q.centre.1 ∧ q.centre.1 < q.nx) ∧ (-(q.ny : Int) ≤ q.centre.2.1 ∧ q.centre.2.1 < q.ny)
      ∧ (-(q.nz : Int) ≤ q.centre.2.2 ∧ q.centre.2.2 < q.nz) := by
  rcases hcc : q.centre with ⟨cx, cy, cz⟩
  simp only [voxel, hcc, hk]
  split
  · rename_i h
    simp only [Bool.and_eq_true, idxOk_iff] at h
    simp [h.1.1, h.1.2, h.2]
  · rename_i h
    simp only [Bool.and_eq_true, idxOk_iff] at h
    simp only [Option.isSome_none, Bool.false_eq_true, false_iff]
    intro hc
    exact h ⟨⟨hc.1, hc.2.1⟩, hc.2.2⟩

/-- a negative centre index wraps: the forced voxel is the one numpy addresses, `index + n` -/
theorem sphere_negative_centre_wraps (nx ny nz : Nat) (cx cy cz : Int) (r : Rat) :
    sphereVox nx ny nz cx cy cz r (wrapIdx nx cx) (wrapIdx ny cy) (wrapIdx nz cz) = true := by
  simp [sphereVox]

/-! ### union, intersection, subtraction, difference -/

section Algebra
set_option linter.unusedSectionVars false
variable {α : Type} [CommRing α] [LinearOrder α] [IsStrictOrderedRing α]

/-- `clip` returns values in [0,1] whatever the inputs are -/
theorem clip_range (x : α) : 0 ≤ clip01 x ∧ clip01 x ≤ 1 := clip01_mem x

/-- every voxel of all four results lies in [0,1], for arbitrary (soft, even out-of-range) inputs -/
theorem algebra_voxel_range (vals : List α) (v0 : α) :
    (0 ≤ unionVox vals ∧ unionVox vals ≤ 1) ∧ (0 ≤ interVox vals ∧ interVox vals ≤ 1) ∧
    (0 ≤ subVox v0 vals ∧ subVox v0 vals ≤ 1) ∧ (0 ≤ diffVox vals ∧ diffVox vals ≤ 1) :=
  ⟨clip01_mem _, clip01_mem _, clip01_mem _, clip01_mem _⟩

/-- **union = OR** for any number of binary masks -/
theorem union_is_or (bs : List Bool) : unionVox (bs.map (b2r : Bool → α)) = b2r (bs.any id) := unionVox_bool bs
/-- **intersection = AND** -/
theorem intersection_is_and (bs : List Bool) : interVox (bs.map (b2r : Bool → α)) = b2r (bs.all id) := interVox_bool bs
/-- **subtraction = first AND NOT (any of the rest)** -/
theorem subtraction_is_andnot (b0 : Bool) (bs : List Bool) :
    subVox (b2r b0 : α) (bs.map b2r) = b2r (b0 && !bs.any id) := subVox_bool b0 bs
/-- **difference = (OR) AND NOT (AND)** for any number of masks … -/
theorem difference_is_or_andnot_and (bs : List Bool) :
    diffVox (bs.map (b2r : Bool → α)) = b2r (bs.any id && !bs.all id) := diffVox_bool bs
/-- … which is **XOR** for two -/
theorem difference_is_xor (a b : Bool) : diffVox [(b2r a : α), b2r b] = b2r (xor a b) := by
  have := diffVox_bool (α := α) [a, b]
  simp only [List.map_cons, List.map_nil] at this
  rw [this]
  cases a <;> cases b <;> rfl

/-- the array functions act voxel by voxel: voxel `p` of `union ms` is `unionVox` of voxel `p` of the masks
(any list length ≥ 1, any common shape) -/
theorem union_voxelwise (ms : List (List α)) (out : List α) (h : union ms = some out) :
    out.length = (ms.headD []).length ∧
    ∀ p, p < (ms.headD []).length → out[p]? = some (unionVox (ms.map fun m => m.getD p 0)) := by
  unfold union at h
  split at h
  · cases h
  · rename_i hc
    simp only [Bool.or_eq_true, Bool.not_eq_true', not_or, Bool.not_eq_true, Bool.not_eq_false] at hc
    have hs := sameShape_spec ms hc.2
    cases h
    have hl : ∀ m ∈ ms, m.length = (List.replicate (ms.headD []).length (0 : α)).length := by simpa using hs
    refine ⟨by rw [List.length_map, accumulate_length _ _ _ hl]; simp, ?_⟩
    intro p hp
    have hinit : (List.replicate (ms.headD []).length (0 : α)).getD p 0 = 0 := by
      rw [List.getD_eq_getElem?_getD, List.getElem?_replicate, if_pos hp]; rfl
    rw [List.getElem?_map, accumulate_getElem? _ 0 _ _ hl p (by simpa using hp), hinit]
    rfl

theorem intersection_voxelwise (ms : List (List α)) (out : List α) (h : intersection ms = some out) :
    out.length = (ms.headD []).length ∧
    ∀ p, p < (ms.headD []).length → out[p]? = some (interVox (ms.map fun m => m.getD p 0)) := by
  unfold intersection at h
  split at h
  · cases h
  · rename_i hc
    simp only [Bool.or_eq_true, Bool.not_eq_true', not_or, Bool.not_eq_true, Bool.not_eq_false] at hc
    have hs := sameShape_spec ms hc.2
    cases h
    have hl : ∀ m ∈ ms, m.length = (List.replicate (ms.headD []).length (1 : α)).length := by simpa using hs
    refine ⟨by rw [List.length_map, accumulate_length _ _ _ hl]; simp, ?_⟩
    intro p hp
    have hinit : (List.replicate (ms.headD []).length (1 : α)).getD p 0 = 1 := by
      rw [List.getD_eq_getElem?_getD, List.getElem?_replicate, if_pos hp]; rfl
    rw [List.getElem?_map, accumulate_getElem? _ 0 _ _ hl p (by simpa using hp), hinit]
    rfl

theorem subtraction_voxelwise (m0 : List α) (rest : List (List α)) (out : List α) (h : subtraction (m0 :: rest) = some out) :
    out.length = m0.length ∧
    ∀ p, p < m0.length → out[p]? = some (subVox (m0.getD p 0) (rest.map fun m => m.getD p 0)) := by
  simp only [subtraction] at h
  split at h
  · cases h
  · rename_i hc
    simp only [Bool.not_eq_true', Bool.not_eq_false] at hc
    have hs := sameShape_spec (m0 :: rest) hc
    cases h
    have hl : ∀ m ∈ rest, m.length = m0.length := fun m hm => by simpa using hs m (by simp [hm])
    refine ⟨by rw [List.length_map, accumulate_length _ _ _ hl], ?_⟩
    intro p hp
    rw [List.getElem?_map, accumulate_getElem? _ 0 _ _ hl p hp]
    simp [subVox]

theorem difference_voxelwise (ms : List (List α)) (out : List α) (h : difference ms = some out) :
    out.length = (ms.headD []).length ∧
    ∀ p, p < (ms.headD []).length → out[p]? = some (diffVox (ms.map fun m => m.getD p 0)) := by
  unfold difference at h
  split at h
  · rename_i u n hu hn
    cases h
    obtain ⟨hul, hup⟩ := union_voxelwise ms u hu
    obtain ⟨hnl, hnp⟩ := intersection_voxelwise ms n hn
    refine ⟨by simp [hul, hnl], ?_⟩
    intro p hp
    rw [List.getElem?_map, List.getElem?_zipWith, hup p hp, hnp p hp]
    rfl
  · cases h

/-- `union` refuses exactly an empty list or masks of different sizes (the real code raises); the other three share the test -/
theorem union_accepts_iff (ms : List (List α)) :
    ((union ms).isSome = true ↔ ms ≠ [] ∧ ∀ m ∈ ms, m.length = (ms.headD []).length) := by
  unfold union
  constructor
  · intro h
    split at h
    · cases h
    · rename_i hc
      simp only [Bool.or_eq_true, Bool.not_eq_true', not_or, Bool.not_eq_true, Bool.not_eq_false] at hc
      exact ⟨by intro e; simp [e] at hc, sameShape_spec ms hc.2⟩
  · rintro ⟨h1, h2⟩
    have : sameShape ms = true := by
      simp only [sameShape, List.all_eq_true]; intro m hm; simpa using h2 m hm
    have h3 : ms.isEmpty = false := by cases ms <;> simp_all
    simp [this, h3]

/-! #### the two readings of "difference … XOR" -/

/-- the XOR of all the masks (parity), for two masks, is the usual XOR -/
theorem xorAll_pair (a b : Bool) : xorAll [a, b] = xor a b := by cases a <;> cases b <;> rfl

/-- the checker the driver runs on every binary algebra case (`specVox`) is the statement's Boolean combination:
OR, AND, AND-NOT and XOR of all the masks -/
theorem specVox_documented (bs : List Bool) (b0 : Bool) :
    specVox "union" bs = some (bs.any id) ∧ specVox "intersection" bs = some (bs.all id) ∧
    specVox "subtraction" (b0 :: bs) = some (b0 && !bs.any id) ∧ specVox "difference" bs = some (xorAll bs) := by
  refine ⟨?_, ?_, ?_, ?_⟩ <;> simp [specVox]

theorem b2r_injective (a b : Bool) (h : (b2r a : α) = b2r b) : a = b := by
  cases a <;> cases b <;> simp [b2r] at h ⊢

/-- `difference` agrees with the XOR of all the masks exactly at the voxels where "some but not all" = "an odd number" -/
theorem difference_eq_xor_iff (bs : List Bool) :
    diffVox (bs.map (b2r : Bool → α)) = b2r (xorAll bs) ↔ (bs.any id && !bs.all id) = xorAll bs := by
  rw [diffVox_bool]
  exact ⟨b2r_injective _ _, fun h => by rw [h]⟩

/-- two masks: the code meets the statement's XOR (`specVox`) -/
theorem difference_meets_spec_two (a b s : Bool) (h : specVox "difference" [a, b] = some s) :
    diffVox [(b2r a : α), b2r b] = b2r s := by
  have hs : s = xor a b := by
    have := (specVox_documented [a, b] false).2.2.2
    rw [this, xorAll_pair] at h
    exact (Option.some.inj h).symm
  rw [hs]; exact difference_is_xor a b

/-- **C13-K1**, one mask: the XOR of a single mask is the mask, the code returns 0 everywhere -/
theorem difference_single_is_empty (b : Bool) : diffVox [(b2r b : α)] = 0 ∧ xorAll [b] = b := by
  constructor
  · have := diffVox_bool (α := α) [b]
    simp only [List.map_cons, List.map_nil] at this
    rw [this]; cases b <;> simp [b2r]
  · cases b <;> rfl

/-- **C13-K1**, three masks: where all three are set the XOR is 1 and the code gives 0; where exactly two are set the
XOR is 0 and the code gives 1 -/
theorem difference_not_xor_of_three :
    diffVox [(b2r true : α), b2r true, b2r true] = 0 ∧ xorAll [true, true, true] = true ∧
    diffVox [(b2r true : α), b2r true, b2r false] = 1 ∧ xorAll [true, true, false] = false := by
  have h1 := diffVox_bool (α := α) [true, true, true]
  have h2 := diffVox_bool (α := α) [true, true, false]
  simp only [List.map_cons, List.map_nil] at h1 h2
  refine ⟨by rw [h1]; simp [b2r], rfl, by rw [h2]; simp [b2r], rfl⟩

/-- hence the statement's "difference = XOR" cannot hold for lists of every length 1..5: there is a list on which the
checker's answer differs from the code (the open finding C13-K1) -/
theorem difference_xor_reading_fails :
    ∃ bs : List Bool, ∀ s, specVox "difference" bs = some s → diffVox (bs.map (b2r : Bool → α)) ≠ b2r s := by
  refine ⟨[true], fun s h => ?_⟩
  have hs : s = true := by
    rw [(specVox_documented [true] false).2.2.2] at h
    exact (Option.some.inj h).symm
  rw [hs]
  have := (difference_single_is_empty (α := α) true).1
  simp only [List.map_cons, List.map_nil]
  rw [this]
  simp [b2r]

/-- an empty list is refused by all four functions (the real code raises `IndexError` at `mask_list[0]`) -/
theorem algebra_empty_rejected :
    union ([] : List (List α)) = none ∧ intersection ([] : List (List α)) = none ∧
    subtraction ([] : List (List α)) = none ∧ difference ([] : List (List α)) = none := by
  refine ⟨rfl, rfl, rfl, rfl⟩

/-- the model speaks about non-empty lists of equally long masks and nothing else (`inDomain`); for masks of
different sizes numpy broadcasts or raises and nothing is claimed -/
theorem inDomain_iff (ms : List (List α)) : inDomain ms = true ↔ (union ms).isSome = true := by
  unfold inDomain union
  cases h1 : ms.isEmpty <;> cases h2 : sameShape ms <;> simp

end Algebra

/-! ### soft edges -/

section Soft
variable {ι α : Type} [Field α] [LinearOrder α] [IsStrictOrderedRing α]
open Finset

/-- **soft masks stay within [0,1]**: a filter with non-negative weights of total 1 applied to a
[0,1]-valued mask gives values in [0,1] (`s` = kernel offsets, `x q` = mask value seen at offset `q`) -/
theorem soft_range (s : Finset ι) (w x : ι → α) (hw : ∀ q ∈ s, 0 ≤ w q) (hsum : ∑ q ∈ s, w q = 1)
    (hx : ∀ q ∈ s, 0 ≤ x q ∧ x q ≤ 1) : 0 ≤ ∑ q ∈ s, w q * x q ∧ ∑ q ∈ s, w q * x q ≤ 1 :=
  ⟨conv_nonneg s w x hw fun q hq => (hx q hq).1, conv_le_one s w x hw hsum fun q hq => (hx q hq).2⟩

/-- **core deviation ≤ kernel tail**: the blurred value falls short of 1 by at most the kernel weight
landing on voxels that are not 1 -/
theorem soft_core_deficit [DecidableEq α] (s : Finset ι) (w x : ι → α) (hw : ∀ q ∈ s, 0 ≤ w q) (hsum : ∑ q ∈ s, w q = 1)
    (hx : ∀ q ∈ s, 0 ≤ x q ∧ x q ≤ 1) : 1 - ∑ q ∈ s, w q * x q ≤ ∑ q ∈ s with x q ≠ 1, w q :=
  conv_deficit s w x hw hsum hx

end Soft

/-- **blurred outwards**: the sphere drawn for an outwards blur (radius `⌈r + 5σ⌉`) contains every voxel
within `5σ` of a voxel of the requested core — so, by `soft_core_deficit`, a core voxel loses at most the
kernel weight lying farther than `5σ` away -/
theorem outwards_sphere_contains_core_neighbourhood (cx cy cz : Int) (r g : Rat) (hr : 0 ≤ r) (hg : 0 < g)
    (i j k u v t : Int)
    (hcore : sphereIn cx cy cz r i j k = true) (hoff : ((u * u + v * v + t * t : Int) : Rat) ≤ (g * 5) * (g * 5)) :
    sphereIn cx cy cz (preprocess r g true) (i + u) (j + v) (k + t) = true := by
  have hR : r + g * 5 ≤ preprocess r g true := by
    rw [preprocess_outwards _ _ (ne_of_gt hg), blur_factor_documented]; exact Rat.le_ceil
  have h5 : 0 ≤ g * 5 := by positivity
  rw [sphereIn_iff _ _ _ _ hr] at hcore
  apply sphereIn_mono cx cy cz (r + g * 5) _ hR
  rw [sphereIn_iff _ _ _ _ (by linarith)]
  have := ball_dilate ((i - cx : Int) : Rat) ((j - cy : Int) : Rat) ((k - cz : Int) : Rat) (u : Rat) (v : Rat) (t : Rat) r (g * 5) hr h5
    (by simpa [sq] using hcore) (by simpa using hoff)
  simp only [sq]
  push_cast at this ⊢
  have e1 : (i : Rat) + u - cx = i - cx + u := by ring
  have e2 : (j : Rat) + v - cy = j - cy + v := by ring
  have e3 : (k : Rat) + t - cz = k - cz + t := by ring
  rw [e1, e2, e3]
  exact this


/-! #### the kernel model `blurAt` and the 1e-3 core bound -/

/-- the constant of the statement: "leave the requested core at 1 within 1e-3" -/
theorem coreTol_documented : coreTol = 1 / 1000 := by decide +kernel

/-- kernel radius `int(4σ + 0.5)` at the half-integer widths 0.5 … 3 (examples; `kernelRadius_bounds` in `Lemmas/C13_Gauss.lean` gives `(2R−1)/8 ≤ σ` for every width) -/
theorem kernel_radius_examples :
    kernelRadius (1 / 2) = 2 ∧ kernelRadius 1 = 4 ∧ kernelRadius (3 / 2) = 6 ∧ kernelRadius 2 = 8 ∧
    kernelRadius (5 / 2) = 10 ∧ kernelRadius 3 = 12 := by decide +kernel

section Blur
variable {α : Type} [Field α] [LinearOrder α] [IsStrictOrderedRing α]

theorem w3_nonneg (w1 : Int → α) (hw : ∀ t, 0 ≤ w1 t) (q : Int × Int × Int) : 0 ≤ w3 w1 q :=
  mul_nonneg (mul_nonneg (hw _) (hw _)) (hw _)

/-- **soft masks stay within [0,1]**, for the kernel model: separable non-negative weights of total 1 over the offsets
`[-R,R]³`, nearest-voxel boundary, applied to any [0,1]-valued mask -/
theorem blur_range (nx ny nz R : Nat) (w1 : Int → α) (x : Int → Int → Int → α) (hw : ∀ t, 0 ≤ w1 t)
    (hsum : ((cube R).map (w3 w1)).sum = 1) (hx : ∀ a b c, 0 ≤ x a b c ∧ x a b c ≤ 1) (i j k : Int) :
    0 ≤ blurAt nx ny nz R w1 x i j k ∧ blurAt nx ny nz R w1 x i j k ≤ 1 := by
  unfold blurAt
  refine ⟨list_conv_nonneg _ _ _ (fun q _ => w3_nonneg w1 hw q) (fun q _ => (hx _ _ _).1), ?_⟩
  rw [← hsum]
  exact list_conv_le _ _ _ (fun q _ => w3_nonneg w1 hw q) (fun q _ => (hx _ _ _).2)

/-- `soft_core_deficit` for the kernel model: the blurred value falls short of 1 by at most the weight of the
offsets flagged `bad`, provided every other offset reads a voxel holding 1 -/
theorem blur_core_deficit (nx ny nz R : Nat) (w1 : Int → α) (x : Int → Int → Int → α) (hw : ∀ t, 0 ≤ w1 t)
    (hsum : ((cube R).map (w3 w1)).sum = 1) (hx : ∀ a b c, 0 ≤ x a b c ∧ x a b c ≤ 1) (bad : Int × Int × Int → Bool) (i j k : Int)
    (hgood : ∀ o ∈ cube R, bad o = false → seen nx ny nz x i j k o = 1) :
    1 - blurAt nx ny nz R w1 x i j k ≤ (((cube R).filter bad).map (w3 w1)).sum := by
  unfold blurAt
  rw [← hsum]
  exact list_deficit (cube R) (w3 w1) (seen nx ny nz x i j k) bad (fun q _ => w3_nonneg w1 hw q) (fun q _ => hx _ _ _) hgood

/-- 1-D weights of the form `e t / Σ e` with `e ≥ 0` and `Σ e > 0` (what `gaussian_filter1d` builds from `exp(-t²/2σ²)`) are
non-negative with total 1 … -/
theorem normalised_weights (R : Nat) (e : Int → α) (he : ∀ t, 0 ≤ e t) (hpos : 0 < ((axis R).map e).sum) :
    (∀ t, 0 ≤ e t / ((axis R).map e).sum) ∧ ((axis R).map fun t => e t / ((axis R).map e).sum).sum = 1 := by
  refine ⟨fun t => div_nonneg (he t) (le_of_lt hpos), ?_⟩
  simp only [div_eq_mul_inv, List.sum_map_mul_right]
  exact mul_inv_cancel₀ (ne_of_gt hpos)

/-- … and a separable kernel built from 1-D weights of total 1 has total weight 1 over `[-R,R]³`: the hypothesis `hsum` of
`blur_range`, `blur_core_deficit` and the two `…_core_within_tol` theorems -/
theorem kernel_total_weight (R : Nat) (w1 : Int → α) (h : ((axis R).map w1).sum = 1) : ((cube R).map (w3 w1)).sum = 1 :=
  cube_weight_sum_one R w1 h

end Blur

/- `farOffset g o` (defined in `Lemmas/C13_Gauss.lean`): the offset `o` is farther than `5σ` from the centre of the kernel,
`(5g)² < o₁² + o₂² + o₃²`. -/

section Core
variable {α : Type} [Field α] [LinearOrder α] [IsStrictOrderedRing α]

theorem b2i_cast_mem (b : Bool) : (0 : α) ≤ ((b2i b : Int) : α) ∧ ((b2i b : Int) : α) ≤ 1 := by
  cases b <;> simp [b2i]

/-- **blurred outwards, sphere: the requested core stays at 1 within the kernel's tail beyond 5σ** — `soft_core_deficit`
instantiated with the model's own pre-blur mask (`voxel q`, radius `⌈r + 5σ⌉`) and the kernel model `blurAt`
(mode nearest), for ANY kernel with non-negative weights of total 1 (`hw`, `hsum`) whose weight beyond `5σ` is at most `tol` (`htail`).
For the model's Gaussian kernel and every width `0 < σ ≤ 3` the three hypotheses are discharged in `soft_sphere_core_gaussian`
(`tol = 1e-3`): that instance is the statement's clause. -/
theorem soft_sphere_core_within_tol (q : Req) (hk : q.kind = .sphere) (hc : CentreInBox q) (r : Rat) (hr : q.radius = some r)
    (hr0 : 0 ≤ r) (hg : 0 < q.gauss) (ho : q.outwards = true)
    (R : Nat) (w1 : Int → α) (hw : ∀ t, 0 ≤ w1 t) (hsum : ((cube R).map (w3 w1)).sum = 1)
    (tol : α) (htail : (((cube R).filter (farOffset q.gauss)).map (w3 w1)).sum ≤ tol) :
    ∃ f, voxel q = some f ∧ ∀ i j k : Nat, i < q.nx → j < q.ny → k < q.nz →
      (dist2 q.centre i j k : Rat) ≤ r ^ 2 →
      1 - blurAt q.nx q.ny q.nz R w1 (fun a b c => ((f a b c : Int) : α)) i j k ≤ tol := by
  obtain ⟨h1, h2, h3, h4, h5, h6⟩ := hc
  rcases hcc : q.centre with ⟨cx, cy, cz⟩
  rw [hcc] at h1 h2 h3 h4 h5 h6
  have hR : q.sphereRadius = preprocess r q.gauss true := by
    unfold Req.sphereRadius; rw [hr, ho]; rfl
  refine ⟨fun i j k => b2i (sphereVox q.nx q.ny q.nz cx cy cz q.sphereRadius i j k), ?_, ?_⟩
  · simp only [voxel, hcc, hk, idxOk_of_inBox _ _ h1 h2, idxOk_of_inBox _ _ h3 h4, idxOk_of_inBox _ _ h5 h6, Bool.and_self, if_true]
  · intro i j k hi hj hk' hcore
    refine le_trans (blur_core_deficit q.nx q.ny q.nz R w1 _ hw hsum (fun a b c => b2i_cast_mem _) (farOffset q.gauss) i j k ?_) htail
    intro o _ hfar
    obtain ⟨t1, e1, s1, _, _⟩ := clampIdx_between q.nx i o.1 (by omega) (by exact_mod_cast hi)
    obtain ⟨t2, e2, s2, _, _⟩ := clampIdx_between q.ny j o.2.1 (by omega) (by exact_mod_cast hj)
    obtain ⟨t3, e3, s3, _, _⟩ := clampIdx_between q.nz k o.2.2 (by omega) (by exact_mod_cast hk')
    have hoff : ((t1 * t1 + t2 * t2 + t3 * t3 : Int) : Rat) ≤ (q.gauss * 5) * (q.gauss * 5) := by
      have hle : ((o.1 * o.1 + o.2.1 * o.2.1 + o.2.2 * o.2.2 : Int) : Rat) ≤ (q.gauss * 5) * (q.gauss * 5) := by
        simpa [farOffset, not_lt] using hfar
      have : ((t1 * t1 + t2 * t2 + t3 * t3 : Int) : Rat) ≤ ((o.1 * o.1 + o.2.1 * o.2.1 + o.2.2 * o.2.2 : Int) : Rat) := by
        exact_mod_cast (by omega : t1 * t1 + t2 * t2 + t3 * t3 ≤ o.1 * o.1 + o.2.1 * o.2.1 + o.2.2 * o.2.2)
      exact le_trans this hle
    have hin : sphereIn cx cy cz r i j k = true := by
      rw [sphereIn_iff _ _ _ _ hr0, sq_sum_eq_dist2, ← pow_two]
      simpa [hcc] using hcore
    have := outwards_sphere_contains_core_neighbourhood cx cy cz r q.gauss hr0 hg i j k t1 t2 t3 hin hoff
    simp only [seen, e1, e2, e3, hR, sphereVox_inBox _ _ _ _ _ _ _ h1 h3 h5, this]
    simp [b2i]

end Core

/-- **cylinder, blurred outwards**: the cylinder drawn (radius `⌈r + 5σ⌉`, half height `⌈h + 5σ⌉`, slab clipped to the box)
contains every voxel of the box within `5σ` of a voxel of the requested core -/
theorem outwards_cylinder_contains_core_neighbourhood (nz : Nat) (cx cy cz : Int) (r g : Rat) (h : Int) (hr : 0 ≤ r) (hg : 0 < g)
    (i j k u v t : Int) (hcore : cylIn nz cx cy cz r h i j k = true)
    (hoff : ((u * u + v * v + t * t : Int) : Rat) ≤ (g * 5) * (g * 5)) (hkb : 0 ≤ k + t ∧ k + t < (nz : Int)) :
    cylIn nz cx cy cz (preprocess r g true) (trunc (preprocess (h : Rat) g true)) (i + u) (j + v) (k + t) = true := by
  have h5 : 0 ≤ g * 5 := by positivity
  have hR : r + g * 5 ≤ preprocess r g true := by
    rw [preprocess_outwards _ _ (ne_of_gt hg), blur_factor_documented]; exact Rat.le_ceil
  have hR0 : 0 ≤ preprocess r g true := by linarith
  have hH : trunc (preprocess (h : Rat) g true) = ((h : Rat) + g * 5).ceil := by
    rw [preprocess_outwards _ _ (ne_of_gt hg), blur_factor_documented, trunc_intCast]
  simp only [cylIn, Bool.and_eq_true, decide_eq_true_iff] at hcore ⊢
  obtain ⟨⟨hd, hlo⟩, hhi⟩ := hcore
  have huv : ((u * u + v * v : Int) : Rat) ≤ (g * 5) * (g * 5) := by
    have : ((u * u + v * v : Int) : Rat) ≤ ((u * u + v * v + t * t : Int) : Rat) := by
      exact_mod_cast (by nlinarith [mul_self_nonneg t] : u * u + v * v ≤ u * u + v * v + t * t)
    exact le_trans this hoff
  have htt : ((t * t : Int) : Rat) ≤ (g * 5) * (g * 5) := by
    have : ((t * t : Int) : Rat) ≤ ((u * u + v * v + t * t : Int) : Rat) := by
      exact_mod_cast (by nlinarith [mul_self_nonneg u, mul_self_nonneg v] : t * t ≤ u * u + v * v + t * t)
    exact le_trans this hoff
  have ht1 : (t : Rat) ≤ g * 5 := by
    by_contra hc; rw [not_le] at hc
    have : (g * 5) * (g * 5) < (t : Rat) * t := by nlinarith
    push_cast at htt; linarith
  have ht2 : -(t : Rat) ≤ g * 5 := by
    by_contra hc; rw [not_le] at hc
    have : (g * 5) * (g * 5) < (t : Rat) * t := by nlinarith
    push_cast at htt; linarith
  have hc1 : h + t ≤ ((h : Rat) + g * 5).ceil := by
    have : ((h + t : Int) : Rat) ≤ (((h : Rat) + g * 5).ceil : Rat) := by
      push_cast; exact le_trans (by linarith) Rat.le_ceil
    exact_mod_cast this
  have hc2 : h - t ≤ ((h : Rat) + g * 5).ceil := by
    have : ((h - t : Int) : Rat) ≤ (((h : Rat) + g * 5).ceil : Rat) := by
      push_cast; exact le_trans (by linarith) Rat.le_ceil
    exact_mod_cast this
  refine ⟨⟨?_, ?_⟩, ?_⟩
  · rw [discIn_iff _ _ _ hr] at hd
    have := ball_dilate ((i - cx : Int) : Rat) ((j - cy : Int) : Rat) 0 (u : Rat) (v : Rat) 0 r (g * 5) hr h5
      (by simpa [sq] using hd) (by simpa using huv)
    have hbig : discIn cx cy (r + g * 5) (i + u) (j + v) = true := by
      rw [discIn_iff _ _ _ (by linarith)]
      simp only [sq]
      push_cast at this ⊢
      have e1 : (i : Rat) + u - cx = i - cx + u := by ring
      have e2 : (j : Rat) + v - cy = j - cy + v := by ring
      rw [e1, e2]
      simpa using this
    -- the disc only grows with its radius
    unfold discIn at hbig ⊢
    rw [Bool.or_eq_true, Bool.not_eq_true', sqrtGt_eq_false] at hbig ⊢
    rcases hbig with hb | ⟨hb0, hb1⟩
    · exact Or.inl hb
    · exact Or.inr ⟨hR0, le_trans hb1 (mul_self_le_mul_self hb0 hR)⟩
  · rw [hH]; omega
  · rw [hH]; omega

/-- **blurred outwards, cylinder: the requested core stays at 1 within the kernel's tail beyond 5σ** (the analogue of
`soft_sphere_core_within_tol`, for any kernel meeting `hw`, `hsum`, `htail`; the core is the hard cylinder of radius `r` and half height
`⌊h/2⌋`, clipped to the box; instance for the model's Gaussian kernel: `soft_cylinder_core_gaussian`) -/
theorem soft_cylinder_core_within_tol {α : Type} [Field α] [LinearOrder α] [IsStrictOrderedRing α]
    (q : Req) (hk : q.kind = .cylinder)
    (hc : 0 ≤ q.centre.1 ∧ q.centre.1 < q.nx ∧ 0 ≤ q.centre.2.1 ∧ q.centre.2.1 < q.ny)
    (r : Rat) (hr : q.radius = some r) (h : Int) (hh : q.height = some h)
    (hr0 : 0 ≤ r) (hg : 0 < q.gauss) (ho : q.outwards = true)
    (R : Nat) (w1 : Int → α) (hw : ∀ t, 0 ≤ w1 t) (hsum : ((cube R).map (w3 w1)).sum = 1)
    (tol : α) (htail : (((cube R).filter (farOffset q.gauss)).map (w3 w1)).sum ≤ tol) :
    ∃ f, voxel q = some f ∧ ∀ i j k : Nat, i < q.nx → j < q.ny → k < q.nz →
      cylIn q.nz q.centre.1 q.centre.2.1 q.centre.2.2 r (h / 2) i j k = true →
      1 - blurAt q.nx q.ny q.nz R w1 (fun a b c => ((f a b c : Int) : α)) i j k ≤ tol := by
  obtain ⟨h1, h2, h3, h4⟩ := hc
  rcases hcc : q.centre with ⟨cx, cy, cz⟩
  rw [hcc] at h1 h2 h3 h4
  have hR : q.cylRadius = preprocess r q.gauss true := by
    unfold Req.cylRadius; rw [hr, ho]; rfl
  have hH : q.cylHalf = trunc (preprocess (((h / 2 : Int)) : Rat) q.gauss true) := by
    unfold Req.cylHalf; rw [hh, ho]; rfl
  refine ⟨fun i j k => b2i (cylVox q.nx q.ny q.nz cx cy cz q.cylRadius q.cylHalf i j k), ?_, ?_⟩
  · simp only [voxel, hcc, hk, idxOk_of_inBox _ _ h1 h2, idxOk_of_inBox _ _ h3 h4, Bool.and_self, if_true]
  · intro i j k hi hj hk' hcore
    refine le_trans (blur_core_deficit q.nx q.ny q.nz R w1 _ hw hsum (fun a b c => b2i_cast_mem _) (farOffset q.gauss) i j k ?_) htail
    intro o _ hfar
    obtain ⟨t1, e1, s1, _, _⟩ := clampIdx_between q.nx i o.1 (by omega) (by exact_mod_cast hi)
    obtain ⟨t2, e2, s2, _, _⟩ := clampIdx_between q.ny j o.2.1 (by omega) (by exact_mod_cast hj)
    obtain ⟨t3, e3, s3, b3, b4⟩ := clampIdx_between q.nz k o.2.2 (by omega) (by exact_mod_cast hk')
    have hoff : ((t1 * t1 + t2 * t2 + t3 * t3 : Int) : Rat) ≤ (q.gauss * 5) * (q.gauss * 5) := by
      have hle : ((o.1 * o.1 + o.2.1 * o.2.1 + o.2.2 * o.2.2 : Int) : Rat) ≤ (q.gauss * 5) * (q.gauss * 5) := by
        simpa [farOffset, not_lt] using hfar
      have : ((t1 * t1 + t2 * t2 + t3 * t3 : Int) : Rat) ≤ ((o.1 * o.1 + o.2.1 * o.2.1 + o.2.2 * o.2.2 : Int) : Rat) := by
        exact_mod_cast (by omega : t1 * t1 + t2 * t2 + t3 * t3 ≤ o.1 * o.1 + o.2.1 * o.2.1 + o.2.2 * o.2.2)
      exact le_trans this hle
    have := outwards_cylinder_contains_core_neighbourhood q.nz cx cy cz r q.gauss (h / 2) hr0 hg i j k t1 t2 t3 hcore hoff ⟨b3, b4⟩
    simp only [seen, e1, e2, e3, hR, hH, cylVox_inBox _ _ _ _ _ _ _ _ h1 h3, this]
    simp [b2i]

/-! #### the model's Gaussian kernel: the hypotheses `hw`, `hsum`, `htail` discharged for every width `0 < σ ≤ 3`

`realW σ R t = gaussW Real.exp (↑) σ R t` is the weight `exp(-0.5/σ²·t²) / Σ_{|u| ≤ R} exp(-0.5/σ²·u²)` of `Model/C13.lean` — the
definition the driver evaluates with `Float.exp` (`Drv.C13.gaussTable`) and compares with `skimage.filters.gaussian` — read
with the real exponential; `R = kernelRadius σ = int(4σ + 0.5)`. -/

/-- the weights the theorems below are about are the model's `gaussW`, with `Real.exp` for the exponential -/
theorem realW_is_model (g : ℝ) (R : ℕ) (t : ℤ) : realW g R t = gaussW Real.exp (fun t : ℤ => (t : ℝ)) g R t := rfl

/-- the Gaussian kernel of the model has non-negative weights of total 1 (1-D and over `[-R,R]³`), for every width and radius -/
theorem gaussian_kernel_weights (g : ℝ) (R : ℕ) :
    (∀ t, 0 ≤ realW g R t) ∧ ((axis R).map (realW g R)).sum = 1 ∧ ((cube R).map (w3 (realW g R))).sum = 1 :=
  ⟨realW_nonneg g R, realW_axis_sum g R, realW_cube_sum g R⟩

/-- **kernel tail.**  For every width `0 < σ ≤ 3` (the quantifier's range) the kernel of radius `int(4σ + 0.5)` puts at most
`1e-3` (`coreTol`) of its weight on offsets farther than `5σ` from its centre -/
theorem gaussian_kernel_tail (g : ℚ) (hg : 0 < g) (hg3 : g ≤ 3) :
    (((cube (kernelRadius g)).filter (farOffset g)).map (w3 (realW (g : ℝ) (kernelRadius g)))).sum ≤ ((coreTol : ℚ) : ℝ) := by
  rw [coreTol_documented]; push_cast
  exact gauss_tail_le g hg hg3

/-- **soft masks stay within [0,1]** under the model's Gaussian kernel: any width, any [0,1]-valued mask, every voxel -/
theorem soft_gaussian_range (nx ny nz : Nat) (g : ℝ) (R : ℕ) (x : Int → Int → Int → ℝ) (hx : ∀ a b c, 0 ≤ x a b c ∧ x a b c ≤ 1)
    (i j k : Int) : 0 ≤ blurAt nx ny nz R (realW g R) x i j k ∧ blurAt nx ny nz R (realW g R) x i j k ≤ 1 :=
  blur_range nx ny nz R (realW g R) x (realW_nonneg g R) (realW_cube_sum g R) hx i j k

/-- **blurred outwards, sphere, no hypothesis left about the kernel**: for every box, centre in the box, radius `r ≥ 0` and width
`0 < σ ≤ 3`, the model's pre-blur sphere (radius `⌈r + 5σ⌉`) filtered with the model's Gaussian kernel (radius `int(4σ + 0.5)`,
nearest-voxel boundary) is within `1e-3` of 1 at every voxel of the requested core `distance ≤ r` -/
theorem soft_sphere_core_gaussian (q : Req) (hk : q.kind = .sphere) (hc : CentreInBox q) (r : Rat) (hr : q.radius = some r)
    (hr0 : 0 ≤ r) (hg : 0 < q.gauss) (hg3 : q.gauss ≤ 3) (ho : q.outwards = true) :
    ∃ f, voxel q = some f ∧ ∀ i j k : Nat, i < q.nx → j < q.ny → k < q.nz →
      (dist2 q.centre i j k : Rat) ≤ r ^ 2 →
      1 - blurAt q.nx q.ny q.nz (kernelRadius q.gauss) (realW (q.gauss : ℝ) (kernelRadius q.gauss))
            (fun a b c => ((f a b c : Int) : ℝ)) i j k ≤ 1 / 1000 :=
  soft_sphere_core_within_tol q hk hc r hr hr0 hg ho (kernelRadius q.gauss) (realW (q.gauss : ℝ) (kernelRadius q.gauss))
    (realW_nonneg _ _) (realW_cube_sum _ _) (1 / 1000) (gauss_tail_le q.gauss hg hg3)

/-- **blurred outwards, cylinder, no hypothesis left about the kernel** (core = the hard cylinder of radius `r` and half height
`⌊h/2⌋`, clipped to the box) -/
theorem soft_cylinder_core_gaussian (q : Req) (hk : q.kind = .cylinder)
    (hc : 0 ≤ q.centre.1 ∧ q.centre.1 < q.nx ∧ 0 ≤ q.centre.2.1 ∧ q.centre.2.1 < q.ny)
    (r : Rat) (hr : q.radius = some r) (h : Int) (hh : q.height = some h)
    (hr0 : 0 ≤ r) (hg : 0 < q.gauss) (hg3 : q.gauss ≤ 3) (ho : q.outwards = true) :
    ∃ f, voxel q = some f ∧ ∀ i j k : Nat, i < q.nx → j < q.ny → k < q.nz →
      cylIn q.nz q.centre.1 q.centre.2.1 q.centre.2.2 r (h / 2) i j k = true →
      1 - blurAt q.nx q.ny q.nz (kernelRadius q.gauss) (realW (q.gauss : ℝ) (kernelRadius q.gauss))
            (fun a b c => ((f a b c : Int) : ℝ)) i j k ≤ 1 / 1000 :=
  soft_cylinder_core_within_tol q hk hc r hr h hh hr0 hg ho (kernelRadius q.gauss) (realW (q.gauss : ℝ) (kernelRadius q.gauss))
    (realW_nonneg _ _) (realW_cube_sum _ _) (1 / 1000) (gauss_tail_le q.gauss hg hg3)

/-- the same for a radius left at its DEFAULT (`radius=None`: half the smallest box dimension) or given: the core is the ball of radius
`q.radius.getD (min(nx,ny,nz) // 2)` -/
theorem soft_sphere_core_gaussian_default (q : Req) (hk : q.kind = .sphere) (hc : CentreInBox q)
    (hr0 : 0 ≤ q.radius.getD (((min (min q.nx q.ny) q.nz : Nat) / 2 : Nat) : Rat))
    (hg : 0 < q.gauss) (hg3 : q.gauss ≤ 3) (ho : q.outwards = true) :
    ∃ f, voxel q = some f ∧ ∀ i j k : Nat, i < q.nx → j < q.ny → k < q.nz →
      (dist2 q.centre i j k : Rat) ≤ (q.radius.getD (((min (min q.nx q.ny) q.nz : Nat) / 2 : Nat) : Rat)) ^ 2 →
      1 - blurAt q.nx q.ny q.nz (kernelRadius q.gauss) (realW (q.gauss : ℝ) (kernelRadius q.gauss))
            (fun a b c => ((f a b c : Int) : ℝ)) i j k ≤ 1 / 1000 := by
  have h := soft_sphere_core_gaussian { q with radius := some (q.radius.getD (((min (min q.nx q.ny) q.nz : Nat) / 2 : Nat) : Rat)) }
    hk hc _ rfl hr0 hg hg3 ho
  have hv : ∀ p : Req, p.kind = .sphere →
      voxel { p with radius := some (p.radius.getD (((min (min p.nx p.ny) p.nz : Nat) / 2 : Nat) : Rat)) } = voxel p := by
    rintro ⟨kind, nx, ny, nz, center, radius, height, radii, thick, gauss, outwards⟩ hp
    simp only at hp
    subst hp
    rfl
  rw [hv q hk] at h
  exact h

/-- the same for radius and / or height left at their DEFAULTS (`radius=None`: half the smaller of the x, y sizes; `height=None`: the z size)
or given -/
theorem soft_cylinder_core_gaussian_default (q : Req) (hk : q.kind = .cylinder)
    (hc : 0 ≤ q.centre.1 ∧ q.centre.1 < q.nx ∧ 0 ≤ q.centre.2.1 ∧ q.centre.2.1 < q.ny)
    (hr0 : 0 ≤ q.radius.getD (((min q.nx q.ny : Nat) / 2 : Nat) : Rat))
    (hg : 0 < q.gauss) (hg3 : q.gauss ≤ 3) (ho : q.outwards = true) :
    ∃ f, voxel q = some f ∧ ∀ i j k : Nat, i < q.nx → j < q.ny → k < q.nz →
      cylIn q.nz q.centre.1 q.centre.2.1 q.centre.2.2 (q.radius.getD (((min q.nx q.ny : Nat) / 2 : Nat) : Rat))
        ((q.height.getD (q.nz : Int)) / 2) i j k = true →
      1 - blurAt q.nx q.ny q.nz (kernelRadius q.gauss) (realW (q.gauss : ℝ) (kernelRadius q.gauss))
            (fun a b c => ((f a b c : Int) : ℝ)) i j k ≤ 1 / 1000 := by
  have h := soft_cylinder_core_gaussian
    { q with radius := some (q.radius.getD (((min q.nx q.ny : Nat) / 2 : Nat) : Rat)), height := some (q.height.getD (q.nz : Int)) }
    hk hc _ rfl _ rfl hr0 hg hg3 ho
  have hv : ∀ p : Req, p.kind = .cylinder →
      voxel { p with radius := some (p.radius.getD (((min p.nx p.ny : Nat) / 2 : Nat) : Rat)),
                     height := some (p.height.getD (p.nz : Int)) } = voxel p := by
    rintro ⟨kind, nx, ny, nz, center, radius, height, radii, thick, gauss, outwards⟩ hp
    simp only at hp
    subst hp
    rfl
  rw [hv q hk] at h
  exact h

/-- **ellipsoid, blurred outwards: the inclusion used for spheres and cylinders is REFUTED** (the geometric half of the open finding
C13-K2; the quantitative half — a core voxel that loses more than `1e-3` — is `ellipsoid_outwards_core_deficit` below).  Radii
`(20,1,1)`, `σ = 1`: the code draws radii `(25,6,6)`; voxel `(44,8,8)` of a `48×16×16` box (centre `(24,8,8)`) belongs to the requested
core, voxel `(44,11,10)` lies within `5σ` of it (offset `(0,3,2)`, length `√13`), and is outside the enlarged ellipsoid:
`(20/25)² + (3/6)² + (2/6)² > 1`.  Enlarging every radius by `5σ` does not cover the `5σ`-neighbourhood of an elongated core. -/
theorem ellipsoid_outwards_not_dilation :
    ellipsoidIn 48 16 16 24 8 8 20 1 1 44 8 8 = true ∧
    (((0 * 0 + 3 * 3 + 2 * 2 : Int)) : Rat) ≤ ((1 : Rat) * 5) * ((1 : Rat) * 5) ∧
    ellRadii ((20 : Rat), (1 : Rat), (1 : Rat)) 1 true = (25, 6, 6) ∧
    ellipsoidIn 48 16 16 24 8 8 25 6 6 (44 + 0) (8 + 3) (8 + 2) = false := by decide +kernel

/-- the witness call of C13-K2: `ellipsoid_mask([48,16,16], radii=[20,1,1], gaussian=1.0)` (default centre `(24,8,8)`, blurred outwards) -/
def k2Req : Req := { kind := .ellipsoid, nx := 48, ny := 16, nz := 16, radii := some (20, 1, 1), gauss := 1, outwards := true }

/-- kernel offsets of squared length `≤ 14` that, from the core voxel `(44,8,8)` (nearest-voxel boundary), read a voxel outside the
enlarged ellipsoid of radii `(25,6,6)` -/
def k2Bad (o : Int × Int × Int) : Bool :=
  decide (o.1 * o.1 + o.2.1 * o.2.1 + o.2.2 * o.2.2 ≤ 14) &&
    !(ellipsoidIn 48 16 16 24 8 8 25 6 6 (clampIdx 48 (44 + o.1)) (clampIdx 16 (8 + o.2.1)) (clampIdx 16 (8 + o.2.2)))

/-- **C13-K2, quantitative witness** (about the model: its pre-blur mask and its Gaussian kernel with the real exponential).  For the
call `k2Req` the model draws the ellipsoid of radii `(25,6,6)`; voxel `(44,8,8)` belongs to the requested core (radii `(20,1,1)`), and its
blurred value falls short of 1 by MORE than `1e-3`: 28 kernel offsets of squared length 13 or 14 read a voxel outside the enlarged
ellipsoid, each carries at least `exp(-7)/S³`, and `28·exp(-7)/S³ > 1e-3` (`S < 2.81`, `exp 7 < 1097`).  So the clause "leave the
requested core at 1 within 1e-3" fails for this input, whatever the floating-point details (measured on the real code: `2.9e-3`). -/
theorem ellipsoid_outwards_core_deficit :
    ∃ f, voxel k2Req = some f ∧
      ellipsoidIn 48 16 16 24 8 8 20 1 1 44 8 8 = true ∧
      (1 : ℝ) / 1000 < 1 - blurAt 48 16 16 (kernelRadius 1) (realW 1 (kernelRadius 1)) (fun a b c => ((f a b c : Int) : ℝ)) 44 8 8 := by
  have hR : kernelRadius 1 = 4 := by decide +kernel
  have hcount : ((cube 4).filter k2Bad).length = 28 := by decide +kernel
  have hrad : ellRadii ((20 : Rat), (1 : Rat), (1 : Rat)) 1 true = (25, 6, 6) := by decide +kernel
  refine ⟨fun i j k => b2i (ellipsoidIn 48 16 16 24 8 8 25 6 6 i j k), ?_, by decide +kernel, ?_⟩
  · have hri : k2Req.radiiInt = (20, 1, 1) := by decide +kernel
    have hce : k2Req.centre = (24, 8, 8) := by decide +kernel
    simp only [voxel, hce, hri]
    have hrad' : ellRadii (((20 : Int) : Rat), ((1 : Int) : Rat), ((1 : Int) : Rat)) k2Req.gauss k2Req.outwards = (25, 6, 6) := by
      simpa [k2Req] using hrad
    simp only [k2Req] at hrad' ⊢
    simp only [hrad']
  · rw [hR]
    have hge := blur_deficit_ge 48 16 16 4 (realW 1 4)
      (fun a b c => ((b2i (ellipsoidIn 48 16 16 24 8 8 25 6 6 a b c) : Int) : ℝ)) (realW_nonneg 1 4) (realW_cube_sum 1 4)
      (fun a b c => b2i_cast_mem _) k2Bad 44 8 8 (by
        intro o _ ho
        simp only [k2Bad, Bool.and_eq_true, Bool.not_eq_true', decide_eq_true_iff] at ho
        simp only [seen, ho.2]
        simp [b2i])
    have hlow := sum_filter_ge_length (cube 4) k2Bad (w3 (realW 1 4)) (Real.exp (-7) / realS 1 4 ^ 3) (by
      intro o _ ho
      simp only [k2Bad, Bool.and_eq_true, decide_eq_true_iff] at ho
      rw [w3_realW]
      apply div_le_div_of_nonneg_right _ (le_of_lt (pow_pos (realS_pos 1 4) 3))
      apply Real.exp_le_exp.mpr
      have h14 : ((o.1 * o.1 + o.2.1 * o.2.1 + o.2.2 * o.2.2 : Int) : ℝ) ≤ 14 := by exact_mod_cast ho.1
      push_cast at h14
      linarith)
    rw [hcount] at hlow
    have hnum := weight_28_offsets_gt
    push_cast at hlow
    linarith

/-! ### non-vacuity: concrete inputs meeting the hypotheses -/

-- an off-centre sphere clipped by the box
example : (voxel { kind := .sphere, nx := 6, ny := 7, nz := 8, center := some (1, 5, 7), radius := some 3 }).isSome = true := by decide
example : CentreInBox { kind := .sphere, nx := 6, ny := 7, nz := 8, center := some (1, 5, 7), radius := some 3 } := by
  simp [CentreInBox, Req.centre]
-- a cylinder taller than the box: voxel (3,3,0) is inside, the slab is clipped
example : (hardMask { kind := .cylinder, nx := 6, ny := 6, nz := 6, radius := some 1, height := some 30 }).map (·[(3 * 6 + 3) * 6 + 0]?) = some (some 1) := by decide
-- an ellipsoid on an even non-cubic box with an off-centre centre
example : ellipsoidIn 6 8 10 2 4 5 2 3 4 2 7 5 = true :=
  (ellipsoid_exact_even 6 8 10 rfl rfl rfl 2 4 5 2 3 4 (by decide) (by decide) (by decide) 2 7 5).2 (by norm_num)
-- a spherical shell of thickness 2 around radius 2: (r−1)² < d² ≤ (r+1)²
example : (sphereIn 4 4 4 (2 + 2 / 2) 4 4 7 && !sphereIn 4 4 4 (2 - 2 / 2) 4 4 7) = true :=
  (sphere_shell_analytic 4 4 4 2 2 (by norm_num) (by norm_num) 4 4 7).2 (by norm_num [dist2])
-- generate_mask("sphere_r5") uses a 14-voxel box; "s_shell_r5_s3" an 18-voxel box
example : genSize [5] none 4 = 14 ∧ (generate .sshell [5, 3] none 4).map (·.nx) = some 18 := by decide
-- three binary masks over ℚ
example : diffVox [(b2r true : ℚ), b2r false, b2r true] = 1 ∧ unionVox [(b2r false : ℚ), b2r false] = 0 := by
  constructor <;> simp [diffVox, unionVox, interVox, clip01, b2r]

-- the name of a shape: format, then parse
example : (formatShape .cylinder [4, 7]).map String.ofList = some "cylinder_r4_h7" ∧
    parseShape "e_shell_rx4_ry05_rz6_s2".toList = some (.eshell, [4, 5, 6, 2]) ∧ parseShape "sphere_r".toList = none := by decide +kernel
-- a negative centre index wraps (numpy), an index beyond the box raises
example : (voxel { kind := .sphere, nx := 6, ny := 7, nz := 8, center := some (-1, 3, 4), radius := some 2 }).isSome = true ∧
    (voxel { kind := .sphere, nx := 6, ny := 7, nz := 8, center := some (6, 3, 4), radius := some 2 }).isSome = false := by decide +kernel
-- a kernel meeting the hypotheses of `blur_range` / `soft_sphere_core_within_tol` (radius 1, weights 1/4, 1/2, 1/4; no offset beyond 5σ)
example : ((cube 1).map (w3 fun t => if t = 0 then (1 / 2 : ℚ) else 1 / 4)).sum = 1 ∧
    (((cube 1).filter (farOffset 1)).map (w3 fun t => if t = 0 then (1 / 2 : ℚ) else 1 / 4)).sum ≤ coreTol := by decide +kernel
-- the default radius of a 10 x 12 x 14 box is 5 (sphere) / 5 (cylinder), the default height 14: hypotheses of the `_default` theorems
example : (0 : Rat) ≤ (none : Option Rat).getD (((min (min 10 12) 14 : Nat) / 2 : Nat) : Rat) ∧
    (none : Option Int).getD ((14 : Nat) : Int) / 2 = 7 := by decide +kernel
-- one mask and three masks: union minus intersection is not XOR (C13-K1)
example : diffVox [(b2r true : ℚ)] = 0 ∧ xorAll [true] = true := by
  constructor
  · simp [diffVox, unionVox, interVox, clip01, b2r]
  · rfl

end CryoCat.C13
