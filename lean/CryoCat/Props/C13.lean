import CryoCat.Lemmas.C13
import CryoCat.Lemmas.C13_Shapes
import CryoCat.Lemmas.C13_Algebra
import CryoCat.Lemmas.C13_Conv
/-! C13 — property theorems (only theorems, the small definitions their statements need, and
non-vacuity examples; helper lemmas live in `Lemmas/C13*.lean`).

Reading guide.  `hardMask q` is the array a constructor call `q` returns for `gaussian = 0` and the
array it hands to the Gaussian filter otherwise; `render nx ny nz f` is the C-order array whose voxel
`(i,j,k)` holds `f i j k` (`mask_layout`).  Every theorem is for all box sizes, centres and radii. -/
namespace CryoCat.C13

/-! ### translator obligations: the statements of `cryomask.py` the model was written from -/

theorem anchors_ok : Gen.C13.anchorsOk = true := by decide

theorem blur_factor_documented : blurFactor = 5 := blurFactor_eq (by decide) (by decide)

theorem mask_expansion_default : Gen.C13.maskExpansionDefault = 4 := by decide

theorem preprocess_documented :
    Gen.C13.preprocessCond = ["if:gaussian!=0.0andgaussian_outwards"] ∧
    Gen.C13.preprocessRadius = ["new_radius=np.ceil(radius+gaussian*blur_factor).astype(int)", "new_radius=radius"] :=
  ⟨rfl, rfl⟩

/-- sphere: Euclidean distance, cut with `>` (so `distance <= r` stays), centre voxel forced -/
theorem sphere_source_documented :
    Gen.C13.sphereDist = ["mask=np.sqrt((x-center[0])**2+(y-center[1])**2+(z-center[2])**2)"] ∧
    Gen.C13.sphereCuts = ["mask[mask>radius]=0", "mask[mask>0]=1", "mask[center[0],center[1],center[2]]=1"] ∧
    Gen.C13.sphereParams = ["radius=np.amin(mask_size)//2", "radius=preprocess_params(radius,gaussian,gaussian_outwards)"] :=
  ⟨rfl, rfl, rfl⟩

/-- cylinder: `height // 2`, planar disc cut with `>`, slab clipped to the box -/
theorem cylinder_source_documented :
    Gen.C13.cylParams = ["radius=np.amin(mask_size[:2])//2", "height=mask_size[2]", "height=height//2",
      "radius=preprocess_params(radius,gaussian,gaussian_outwards)", "height=preprocess_params(height,gaussian,gaussian_outwards)"] ∧
    Gen.C13.cylDisc = ["mask_xy=np.sqrt((x-center[0])**2+(y-center[1])**2)", "mask_xy[mask_xy>radius]=0", "mask_xy[mask_xy>0]=1",
      "mask_xy[center[0],center[1]]=1"] ∧
    Gen.C13.cylSlab = ["z_start=max(center[2]-height,0)", "z_end=min(center[2]+height+1,mask_size[2])", "if:z_end>z_start",
      "mask[:,:,z_start:z_end]=np.tile(mask_xy[:,:,None],(1,1,z_end-z_start))"] :=
  ⟨rfl, rfl, rfl⟩

/-- ellipsoid: the grid, the reversal of the point list, `distance <= 1` -/
theorem ellipsoid_source_documented :
    Gen.C13.ellGrid = ["xi=tuple((np.linspace(1,s,s)-np.floor(0.5*s)forsinmask_shape))", "xi=np.meshgrid(*xi,indexing='ij')",
      "points=np.array(xi).reshape(3,-1)[::-1]", "grid_center=0.5*mask_shape-center",
      "grid_center=np.tile(grid_center.reshape(3,1),(1,points.shape[1]))", "points=points[:,::-1]", "grid_center=grid_center[::-1]"] ∧
    Gen.C13.ellRadii = ["radii=get_correct_format(radii,reference_size=mask_shape)", "radii=preprocess_params(radii,gaussian,gaussian_outwards)",
      "radii=radii[::-1]", "radii=np.tile(radii.reshape(3,1),(1,points.shape[1]))"] ∧
    Gen.C13.ellTest = ["ellipsoid=(points-grid_center)**2", "ellipsoid=ellipsoid/radii**2",
      "distance=np.sum(ellipsoid,axis=0).reshape(mask_shape)", "mask=distance<=1"] :=
  ⟨rfl, rfl, rfl⟩

/-- shells: half the thickness added / subtracted, outer minus inner (`sp1 - sp2`, `e1 & ~e2`) -/
theorem shell_source_documented :
    Gen.C13.sShell = ["radius=np.amin(mask_size)//2", "shell_thickness=shell_thickness/2",
      "sp1=spherical_mask(mask_size,radius=radius+shell_thickness,center=center)",
      "sp2=spherical_mask(mask_size,radius=radius-shell_thickness,center=center)", "shell_mask=sp1-sp2"] ∧
    Gen.C13.eShell = ["radii=get_correct_format(radii,reference_size=mask_size)", "shell_thickness=shell_thickness/2",
      "e1=ellipsoid_mask(mask_size,radii=radii+shell_thickness,center=center)",
      "e2=ellipsoid_mask(mask_size,radii=radii-shell_thickness,center=center)", "shell_mask=e1&~e2"] :=
  ⟨rfl, rfl⟩

/-- `get_correct_format`: integer truncation, default = half the box -/
theorem format_source_documented :
    Gen.C13.formatInt = ["returnnp.asarray(unformatted_value).astype(int)", "returnnp.full((3,),unformatted_value).astype(int)",
      "returnnp.full((3,),unformatted_value).astype(int)"] ∧
    Gen.C13.formatDefault = ["size_correct_format=box_size//2"] :=
  ⟨rfl, rfl⟩

/-- the four set operations: accumulator, operator, clip bounds; `cryomap.read` copies array inputs -/
theorem algebra_source_documented :
    Gen.C13.unionOps = ["final_mask=np.zeros(cryomap.read(mask_list[0]).shape)", "for:mask_list", "mask=cryomap.read(m)",
      "final_mask+=mask", "final_mask=np.clip(final_mask,0.0,1.0)", "returnfinal_mask"] ∧
    Gen.C13.interOps = ["final_mask=np.ones(cryomap.read(mask_list[0]).shape)", "for:mask_list", "mask=cryomap.read(m)",
      "final_mask*=mask", "final_mask=np.clip(final_mask,0.0,1.0)", "returnfinal_mask"] ∧
    Gen.C13.subOps = ["final_mask=cryomap.read(mask_list[0])", "for:mask_list[1:]", "mask=cryomap.read(m)", "final_mask-=mask",
      "final_mask=np.clip(final_mask,0.0,1.0)", "returnfinal_mask"] ∧
    Gen.C13.diffOps = ["union_mask=union(mask_list)", "inter_mask=intersection(mask_list)", "final_mask=union_mask-inter_mask",
      "final_mask=np.clip(final_mask,0.0,1.0)", "returnfinal_mask"] ∧
    Gen.C13.readCopies = ["data=np.array(data,copy=True)"] :=
  ⟨rfl, rfl, rfl, rfl, rfl⟩

theorem gaussian_source_documented :
    Gen.C13.gaussOps = ["if:sigma==0", "returninput_mask", "returnfilters.gaussian(input_mask,sigma=sigma)"] := rfl

/-- `generate_mask`: box-size arithmetic and the constructor called per shape name -/
theorem generator_source_documented :
    Gen.C13.genSize = ["if:mask_sizeisNone", "mask_size=2*np.max(specs)+mask_expansion", "mask_size=math.ceil(mask_size/2)*2",
      "mask_size=math.ceil((mask_size+specs[1])/2)*2"] ∧
    Gen.C13.genCalls = ["if:shape=='sphere'", "mask=spherical_mask(mask_size=mask_size,radius=specs[0])", "if:shape=='cylinder'",
      "mask=cylindrical_mask(mask_size=mask_size,radius=specs[0],height=specs[1])", "if:shape=='s_shell'",
      "mask=spherical_shell_mask(mask_size=mask_size,shell_thickness=specs[1],radius=specs[0])", "if:shape=='ellipsoid'",
      "mask=ellipsoid_mask(mask_size=mask_size,radii=specs)", "if:shape=='e_shell'",
      "mask=ellipsoid_shell_mask(mask_size=mask_size,shell_thickness=specs[3],radii=specs[0:3])"] ∧
    Gen.C13.parsePatterns = ["sphere", "^sphere_r(\\d+)$", "cylinder", "^cylinder_r(\\d+)_h(\\d+)$", "s_shell", "^s_shell_r(\\d+)_s(\\d+)$",
      "ellipsoid", "^ellipsoid_rx(\\d+)_ry(\\d+)_rz(\\d+)$", "e_shell", "^e_shell_rx(\\d+)_ry(\\d+)_rz(\\d+)_s(\\d+)$"] :=
  ⟨rfl, rfl, rfl⟩

/-! ### the array layout -/

/-- the mask has `nx·ny·nz` voxels and voxel `(i,j,k)` sits at flat index `(i·ny + j)·nz + k` (C order) -/
theorem mask_layout (q : Req) (f : Int → Int → Int → Int) (h : voxel q = some f) :
    ∃ m, hardMask q = some m ∧ m.length = q.nx * (q.ny * q.nz) ∧
      ∀ i j k : Nat, i < q.nx → j < q.ny → k < q.nz → m[(i * q.ny + j) * q.nz + k]? = some (f i j k) := by
  refine ⟨render q.nx q.ny q.nz (fun i j k => f i j k), by simp [hardMask, h], render_length _ _ _ _, ?_⟩
  intro i j k hi hj hk
  exact render_getElem? _ _ _ _ i j k hi hj hk

/-! ### definitions used in the statements -/

/- `dist2 c i j k = (i-cx)² + (j-cy)² + (k-cz)²` and `dist2xy c i j = (i-cx)² + (j-cy)²` are defined in
`Lemmas/C13_Shapes.lean`. -/

/-- "centres anywhere in the box" -/
def CentreInBox (q : Req) : Prop :=
  0 ≤ q.centre.1 ∧ q.centre.1 < q.nx ∧ 0 ≤ q.centre.2.1 ∧ q.centre.2.1 < q.ny ∧ 0 ≤ q.centre.2.2 ∧ q.centre.2.2 < q.nz

/-! ### sphere: distance ≤ r -/

/-- **Sphere.** For every box, every centre in the box and every drawn radius `R ≥ 0` the mask holds 1
exactly at the voxels with `distance² ≤ R²`, 0 elsewhere. -/
theorem sphere_exact (q : Req) (hk : q.kind = .sphere) (hc : CentreInBox q) (hr : 0 ≤ q.sphereRadius) :
    voxel q = some fun i j k => if (dist2 q.centre i j k : Rat) ≤ q.sphereRadius ^ 2 then 1 else 0 := by
  obtain ⟨h1, h2, h3, h4, h5, h6⟩ := hc
  rcases hcc : q.centre with ⟨cx, cy, cz⟩
  rw [hcc] at h1 h2 h3 h4 h5 h6
  have hv : voxel q = some fun i j k => b2i (sphereIn cx cy cz q.sphereRadius i j k) := by
    simp only [voxel, hcc, hk, inBox]; simp_all
  rw [hv]
  congr 1
  funext i j k
  apply b2i_eq_ite
  rw [sphereIn_iff _ _ _ _ hr, sq_sum_eq_dist2, pow_two q.sphereRadius]

/-- the returned array, voxel by voxel: for every `(i,j,k)` of the box the entry at flat index
`(i·ny + j)·nz + k` is 1 if `distance² ≤ R²` and 0 otherwise (`sphere_exact` + `mask_layout`) -/
theorem sphere_array_exact (q : Req) (hk : q.kind = .sphere) (hc : CentreInBox q) (hr : 0 ≤ q.sphereRadius) :
    ∃ m, hardMask q = some m ∧ m.length = q.nx * (q.ny * q.nz) ∧
      ∀ i j k : Nat, i < q.nx → j < q.ny → k < q.nz →
        m[(i * q.ny + j) * q.nz + k]? = some (if (dist2 q.centre i j k : Rat) ≤ q.sphereRadius ^ 2 then 1 else 0) :=
  mask_layout q _ (sphere_exact q hk hc hr)

/-- the same with the Euclidean distance itself, as the code computes it: `√d² ≤ R`
(for any `R`, negative ones included: then only the forced centre voxel is set) -/
theorem sphere_exact_sqrt (cx cy cz : Int) (r : Rat) (i j k : Int) :
    sphereIn cx cy cz r i j k = true ↔
      (i = cx ∧ j = cy ∧ k = cz) ∨ Real.sqrt ((dist2 (cx, cy, cz) i j k : Int) : ℝ) ≤ (r : ℝ) := by
  unfold sphereIn
  rw [Bool.or_eq_true, Bool.not_eq_true', ← Bool.not_eq_true, sqrtGt_iff_real, not_lt, sq_sum_eq_dist2]
  simp only [Bool.and_eq_true, beq_iff_eq, and_assoc]

/-- the radius that is drawn: the requested one for a hard edge or a centred blur … -/
theorem sphere_radius_hard (q : Req) (r : Rat) (hr : q.radius = some r) (hg : q.gauss = 0 ∨ q.outwards = false) :
    q.sphereRadius = r := by
  unfold Req.sphereRadius; rw [hr]
  rcases hg with h | h <;> simp [h, preprocess]

/-- … and `⌈r + 5σ⌉ ≥ r + 5σ` for a blur applied outwards -/
theorem sphere_radius_outwards (q : Req) (r : Rat) (hr : q.radius = some r) (hg : q.gauss ≠ 0) (ho : q.outwards = true) :
    q.sphereRadius = ((r + q.gauss * 5).ceil : Int) ∧ r + q.gauss * 5 ≤ q.sphereRadius := by
  have e : q.sphereRadius = ((r + q.gauss * 5).ceil : Int) := by
    unfold Req.sphereRadius; rw [hr, ho, Option.getD_some, preprocess_outwards _ _ hg, blur_factor_documented]
  exact ⟨e, by rw [e]; exact Rat.le_ceil⟩

/-- default radius: half the smallest box dimension -/
theorem sphere_radius_default (q : Req) (hr : q.radius = none) (hg : q.gauss = 0) :
    q.sphereRadius = ((min (min q.nx q.ny) q.nz / 2 : Nat) : Rat) := by
  unfold Req.sphereRadius; rw [hr, hg]; simp [preprocess]

/-! ### cylinder: planar distance ≤ r and |k − cz| ≤ ⌊h/2⌋ -/

/-- **Cylinder.** For every box, every centre whose `(x,y)` lies in the box, every drawn radius `R ≥ 0`
and every half height `H` (any size, also reaching beyond the box: the slab is clipped) the mask holds
1 exactly at the voxels of the box with planar `distance² ≤ R²` and `|k − cz| ≤ H`. -/
theorem cylinder_exact (q : Req) (hk : q.kind = .cylinder)
    (hc : 0 ≤ q.centre.1 ∧ q.centre.1 < q.nx ∧ 0 ≤ q.centre.2.1 ∧ q.centre.2.1 < q.ny) (hr : 0 ≤ q.cylRadius) :
    ∃ f, voxel q = some f ∧ ∀ i j k : Nat, k < q.nz →
      f i j k = if (dist2xy q.centre i j : Rat) ≤ q.cylRadius ^ 2 ∧ |(k : Int) - q.centre.2.2| ≤ q.cylHalf then 1 else 0 := by
  obtain ⟨h1, h2, h3, h4⟩ := hc
  rcases hcc : q.centre with ⟨cx, cy, cz⟩
  rw [hcc] at h1 h2 h3 h4
  refine ⟨fun i j k => b2i (cylIn q.nz cx cy cz q.cylRadius q.cylHalf i j k), ?_, ?_⟩
  · simp only [voxel, hcc, hk, inBox]; simp_all
  · intro i j k hkz
    apply b2i_eq_ite
    unfold cylIn
    rw [Bool.and_eq_true, Bool.and_eq_true, decide_eq_true_iff, decide_eq_true_iff, discIn_iff _ _ _ hr,
      and_assoc, slab_iff q.nz cz q.cylHalf k (by omega) (by exact_mod_cast hkz), sq_sum_eq_dist2xy cx cy cz, pow_two q.cylRadius]

/-- the half height that is drawn is `height // 2 = ⌊height / 2⌋` for a hard edge … -/
theorem cylinder_half_height_hard (q : Req) (h : Int) (hh : q.height = some h) (hg : q.gauss = 0 ∨ q.outwards = false) :
    q.cylHalf = h / 2 ∧ h / 2 = ⌊(h : ℚ) / 2⌋ := by
  constructor
  · unfold Req.cylHalf; rw [hh]
    rcases hg with e | e <;> simp [e, preprocess, trunc_intCast]
  · have := Rat.floor_intCast_div_natCast h 2
    simpa using this.symm

/-- … and `⌈height // 2 + 5σ⌉` for a blur applied outwards; default height = the box's z size -/
theorem cylinder_half_height_outwards (q : Req) (h : Int) (hh : q.height = some h) (hg : q.gauss ≠ 0) (ho : q.outwards = true) :
    q.cylHalf = (((h / 2 : Int) : Rat) + q.gauss * 5).ceil := by
  unfold Req.cylHalf
  rw [hh, ho, Option.getD_some, preprocess_outwards _ _ hg, blur_factor_documented, trunc_intCast]

theorem cylinder_radius_hard (q : Req) (r : Rat) (hr : q.radius = some r) (hg : q.gauss = 0 ∨ q.outwards = false) :
    q.cylRadius = r := by
  unfold Req.cylRadius; rw [hr]
  rcases hg with h | h <;> simp [h, preprocess]

/-! ### ellipsoid on even boxes: Σ((i − c)/r)² ≤ 1 -/

/-- **Ellipsoid.** On boxes with even sizes, for every centre and all non-zero integer radii, the test
the code evaluates on its reversed, half-shifted grid is `((i−cx)/rx)² + ((j−cy)/ry)² + ((k−cz)/rz)² ≤ 1`. -/
theorem ellipsoid_exact_even (nx ny nz : Nat) (hx : nx % 2 = 0) (hy : ny % 2 = 0) (hz : nz % 2 = 0)
    (cx cy cz rx ry rz : Int) (hrx : rx ≠ 0) (hry : ry ≠ 0) (hrz : rz ≠ 0) (i j k : Int) :
    ellipsoidIn nx ny nz cx cy cz rx ry rz i j k = true ↔
      (((i : Rat) - cx) / rx) ^ 2 + (((j : Rat) - cy) / ry) ^ 2 + (((k : Rat) - cz) / rz) ^ 2 ≤ 1 :=
  ellipsoidIn_even nx ny nz hx hy hz cx cy cz rx ry rz hrx hry hrz i j k

/-- the mask returned by `ellipsoid_mask` (any centre, radii given, hard edge): the drawn radii are the
integer parts of the requested ones -/
theorem ellipsoid_mask_exact (q : Req) (hk : q.kind = .ellipsoid) (hx : q.nx % 2 = 0) (hy : q.ny % 2 = 0) (hz : q.nz % 2 = 0)
    (a b c : Rat) (hr : q.radii = some (a, b, c)) (hg : q.gauss = 0)
    (ha : trunc a ≠ 0) (hb : trunc b ≠ 0) (hc : trunc c ≠ 0) :
    voxel q = some fun (i j k : Int) =>
      if (((i : Rat) - q.centre.1) / trunc a) ^ 2 + (((j : Rat) - q.centre.2.1) / trunc b) ^ 2
          + (((k : Rat) - q.centre.2.2) / trunc c) ^ 2 ≤ 1 then 1 else 0 := by
  rcases hcc : q.centre with ⟨cx, cy, cz⟩
  have hv : voxel q = some fun i j k => b2i (ellipsoidIn q.nx q.ny q.nz cx cy cz (trunc a) (trunc b) (trunc c) i j k) := by
    simp only [voxel, hcc, hk, Req.radiiInt, hr, ellRadii, hg, preprocess_hard, trunc_intCast]
  rw [hv]
  congr 1
  funext i j k
  apply b2i_eq_ite
  exact ellipsoidIn_even _ _ _ hx hy hz _ _ _ _ _ _ ha hb hc i j k

/-- division-free form of the ellipsoid inequality for positive radii -/
theorem ellipsoid_integer_form (a b c rx ry rz : Int) (hrx : 0 < rx) (hry : 0 < ry) (hrz : 0 < rz) :
    ((a : Rat) / rx) ^ 2 + ((b : Rat) / ry) ^ 2 + ((c : Rat) / rz) ^ 2 ≤ 1 ↔
      a * a * (ry * ry * (rz * rz)) + b * b * (rx * rx * (rz * rz)) + c * c * (rx * rx * (ry * ry))
        ≤ rx * rx * (ry * ry) * (rz * rz) :=
  ellipsoid_int_form a b c rx ry rz hrx hry hrz

/-! ### shells: outer solid minus inner solid -/

/-- **Spherical shell.** For a thickness `t ≥ 0` the float difference `sp1 - sp2` of the two spheres of
radii `r ± t/2` is 0/1-valued and equals "in the outer solid and not in the inner solid". -/
theorem sphere_shell_exact (q : Req) (hk : q.kind = .sshell) (hc : CentreInBox q) (r : Rat) (hr : q.radius = some r)
    (ht : 0 ≤ q.thick) :
    voxel q = some fun i j k =>
      b2i (sphereIn q.centre.1 q.centre.2.1 q.centre.2.2 (r + q.thick / 2) i j k
            && !sphereIn q.centre.1 q.centre.2.1 q.centre.2.2 (r - q.thick / 2) i j k) := by
  obtain ⟨h1, h2, h3, h4, h5, h6⟩ := hc
  rcases hcc : q.centre with ⟨cx, cy, cz⟩
  rw [hcc] at h1 h2 h3 h4 h5 h6
  have hv : voxel q = some fun i j k =>
      b2i (sphereIn cx cy cz (r + q.thick / 2) i j k) - b2i (sphereIn cx cy cz (r - q.thick / 2) i j k) := by
    simp only [voxel, hcc, hk, inBox, hr]; simp_all
  rw [hv]
  congr 1
  funext i j k
  have hmono := sphereIn_mono cx cy cz (r - q.thick / 2) (r + q.thick / 2) (by linarith) i j k
  cases hin : sphereIn cx cy cz (r - q.thick / 2) i j k
  · cases sphereIn cx cy cz (r + q.thick / 2) i j k <;> rfl
  · rw [hmono hin]; rfl

/-- with a non-negative inner radius both solids are the analytic balls:
the shell is `(r − t/2)² < distance² ≤ (r + t/2)²` -/
theorem sphere_shell_analytic (cx cy cz : Int) (r t : Rat) (ht : 0 ≤ t) (hin : 0 ≤ r - t / 2) (i j k : Int) :
    (sphereIn cx cy cz (r + t / 2) i j k && !sphereIn cx cy cz (r - t / 2) i j k) = true ↔
      (r - t / 2) ^ 2 < (dist2 (cx, cy, cz) i j k : Rat) ∧ (dist2 (cx, cy, cz) i j k : Rat) ≤ (r + t / 2) ^ 2 := by
  rw [Bool.and_eq_true, Bool.not_eq_true', ← Bool.not_eq_true, sphereIn_iff _ _ _ _ (by linarith), sphereIn_iff _ _ _ _ hin,
    not_le, sq_sum_eq_dist2, pow_two, pow_two (r + t / 2)]
  exact and_comm

/-- **Ellipsoid shell** `e1 & ~e2`: outer ellipsoid (radii `int(r + t/2)`) and not inner ellipsoid
(radii `int(r − t/2)`), each of them an `ellipsoid_mask` (so `ellipsoid_exact_even` applies to both). -/
theorem ellipsoid_shell_exact (q : Req) (hk : q.kind = .eshell) (a b c : Rat) (hr : q.radii = some (a, b, c)) :
    voxel q = some fun i j k =>
      b2i (ellipsoidIn q.nx q.ny q.nz q.centre.1 q.centre.2.1 q.centre.2.2
              (trunc ((trunc a : Rat) + q.thick / 2)) (trunc ((trunc b : Rat) + q.thick / 2)) (trunc ((trunc c : Rat) + q.thick / 2)) i j k
           && !ellipsoidIn q.nx q.ny q.nz q.centre.1 q.centre.2.1 q.centre.2.2
              (trunc ((trunc a : Rat) - q.thick / 2)) (trunc ((trunc b : Rat) - q.thick / 2)) (trunc ((trunc c : Rat) - q.thick / 2)) i j k) := by
  rcases hcc : q.centre with ⟨cx, cy, cz⟩
  simp only [voxel, hcc, hk, Req.radiiInt, hr, ellRadii, preprocess_hard, trunc_intCast]

/-! ### the name-based generator builds the same shapes -/

/-- box size when none is given: the smallest even number `≥ 2·max(specs) + expansion` -/
theorem generate_box_size (specs : List Nat) (e : Nat) :
    genSize specs none e % 2 = 0 ∧ 2 * specs.foldl max 0 + e ≤ genSize specs none e ∧
      genSize specs none e ≤ 2 * specs.foldl max 0 + e + 1 ∧ ∀ s, genSize specs (some s) e = s := by
  refine ⟨?_, ?_, ?_, fun s => rfl⟩ <;> simp only [genSize] <;> omega

theorem generate_sphere (r : Nat) (ms : Option Nat) (e : Nat) :
    generate .sphere [r] ms e =
      some { kind := .sphere, nx := genSize [r] ms e, ny := genSize [r] ms e, nz := genSize [r] ms e, radius := some (r : Rat) } := rfl

theorem generate_cylinder (r h : Nat) (ms : Option Nat) (e : Nat) :
    generate .cylinder [r, h] ms e =
      some { kind := .cylinder, nx := genSize [r, h] ms e, ny := genSize [r, h] ms e, nz := genSize [r, h] ms e,
             radius := some (r : Rat), height := some (h : Int) } := rfl

theorem generate_ellipsoid (a b c : Nat) (ms : Option Nat) (e : Nat) :
    generate .ellipsoid [a, b, c] ms e =
      some { kind := .ellipsoid, nx := genSize [a, b, c] ms e, ny := genSize [a, b, c] ms e, nz := genSize [a, b, c] ms e,
             radii := some ((a : Rat), (b : Rat), (c : Rat)) } := rfl

/-- spherical shells get the thickness added to the box size (rounded up to even), also to a given size -/
theorem generate_sphere_shell (r t : Nat) (ms : Option Nat) (e : Nat) :
    ∃ s, generate .sshell [r, t] ms e = some { kind := .sshell, nx := s, ny := s, nz := s, radius := some (r : Rat), thick := (t : Rat) } ∧
      s % 2 = 0 ∧ genSize [r, t] ms e + t ≤ s ∧ s ≤ genSize [r, t] ms e + t + 1 :=
  ⟨_, rfl, by omega, by omega, by omega⟩

theorem generate_ellipsoid_shell (a b c t : Nat) (ms : Option Nat) (e : Nat) :
    generate .eshell [a, b, c, t] ms e =
      some { kind := .eshell, nx := genSize [a, b, c, t] ms e, ny := genSize [a, b, c, t] ms e, nz := genSize [a, b, c, t] ms e,
             radii := some ((a : Rat), (b : Rat), (c : Rat)), thick := (t : Rat) } := rfl

/-- the generated sphere is centred (default centre `size // 2` is in the box) and, by `sphere_exact`,
is exactly the ball of the named radius -/
theorem generate_sphere_exact (r : Nat) (ms : Option Nat) (e : Nat) (hs : 0 < genSize [r] ms e) :
    ∃ q, generate .sphere [r] ms e = some q ∧
      voxel q = some fun i j k => if (dist2 q.centre i j k : Rat) ≤ (r : Rat) ^ 2 then 1 else 0 := by
  refine ⟨_, generate_sphere r ms e, ?_⟩
  have hrad : ∀ q : Req, q.radius = some (r : Rat) → q.gauss = 0 → q.sphereRadius = (r : Rat) :=
    fun q h1 h2 => sphere_radius_hard q r h1 (Or.inl h2)
  set q : Req := { kind := .sphere, nx := genSize [r] ms e, ny := genSize [r] ms e, nz := genSize [r] ms e, radius := some (r : Rat) } with hq
  have h := sphere_exact q rfl (by
    simp only [CentreInBox, Req.centre, hq, Option.getD_none]
    omega) (by rw [hrad q rfl rfl]; exact_mod_cast Nat.zero_le r)
  rw [hrad q rfl rfl] at h
  exact h

/-! ### union, intersection, subtraction, difference -/

section Algebra
set_option linter.unusedSectionVars false
variable {α : Type} [CommRing α] [LinearOrder α] [IsStrictOrderedRing α]

/-- `clip` returns values in [0,1] whatever the inputs are -/
theorem clip_range (x : α) : 0 ≤ clip01 x ∧ clip01 x ≤ 1 := clip01_mem x

/-- every voxel of all four results lies in [0,1], for arbitrary (soft, even out-of-range) inputs -/
theorem algebra_voxel_range (vals : List α) (v0 : α) :
    (0 ≤ unionVox vals ∧ unionVox vals ≤ 1) ∧ (0 ≤ interVox vals ∧ interVox vals ≤ 1) ∧
    (0 ≤ subVox v0 vals ∧ subVox v0 vals ≤ 1) ∧ (0 ≤ diffVox vals ∧ diffVox vals ≤ 1) :=
  ⟨clip01_mem _, clip01_mem _, clip01_mem _, clip01_mem _⟩

/-- **union = OR** for any number of binary masks -/
theorem union_is_or (bs : List Bool) : unionVox (bs.map (b2r : Bool → α)) = b2r (bs.any id) := unionVox_bool bs
/-- **intersection = AND** -/
theorem intersection_is_and (bs : List Bool) : interVox (bs.map (b2r : Bool → α)) = b2r (bs.all id) := interVox_bool bs
/-- **subtraction = first AND NOT (any of the rest)** -/
theorem subtraction_is_andnot (b0 : Bool) (bs : List Bool) :
    subVox (b2r b0 : α) (bs.map b2r) = b2r (b0 && !bs.any id) := subVox_bool b0 bs
/-- **difference = (OR) AND NOT (AND)** for any number of masks … -/
theorem difference_is_or_andnot_and (bs : List Bool) :
    diffVox (bs.map (b2r : Bool → α)) = b2r (bs.any id && !bs.all id) := diffVox_bool bs
/-- … which is **XOR** for two -/
theorem difference_is_xor (a b : Bool) : diffVox [(b2r a : α), b2r b] = b2r (xor a b) := by
  have := diffVox_bool (α := α) [a, b]
  simp only [List.map_cons, List.map_nil] at this
  rw [this]
  cases a <;> cases b <;> rfl

/-- the array functions act voxel by voxel: voxel `p` of `union ms` is `unionVox` of voxel `p` of the masks
(any list length ≥ 1, any common shape) -/
theorem union_voxelwise (ms : List (List α)) (out : List α) (h : union ms = some out) :
    out.length = (ms.headD []).length ∧
    ∀ p, p < (ms.headD []).length → out[p]? = some (unionVox (ms.map fun m => m.getD p 0)) := by
  unfold union at h
  split at h
  · cases h
  · rename_i hc
    simp only [Bool.or_eq_true, Bool.not_eq_true', not_or, Bool.not_eq_true, Bool.not_eq_false] at hc
    have hs := sameShape_spec ms hc.2
    cases h
    have hl : ∀ m ∈ ms, m.length = (List.replicate (ms.headD []).length (0 : α)).length := by simpa using hs
    refine ⟨by rw [List.length_map, accumulate_length _ _ _ hl]; simp, ?_⟩
    intro p hp
    have hinit : (List.replicate (ms.headD []).length (0 : α)).getD p 0 = 0 := by
      rw [List.getD_eq_getElem?_getD, List.getElem?_replicate, if_pos hp]; rfl
    rw [List.getElem?_map, accumulate_getElem? _ 0 _ _ hl p (by simpa using hp), hinit]
    rfl

theorem intersection_voxelwise (ms : List (List α)) (out : List α) (h : intersection ms = some out) :
    out.length = (ms.headD []).length ∧
    ∀ p, p < (ms.headD []).length → out[p]? = some (interVox (ms.map fun m => m.getD p 0)) := by
  unfold intersection at h
  split at h
  · cases h
  · rename_i hc
    simp only [Bool.or_eq_true, Bool.not_eq_true', not_or, Bool.not_eq_true, Bool.not_eq_false] at hc
    have hs := sameShape_spec ms hc.2
    cases h
    have hl : ∀ m ∈ ms, m.length = (List.replicate (ms.headD []).length (1 : α)).length := by simpa using hs
    refine ⟨by rw [List.length_map, accumulate_length _ _ _ hl]; simp, ?_⟩
    intro p hp
    have hinit : (List.replicate (ms.headD []).length (1 : α)).getD p 0 = 1 := by
      rw [List.getD_eq_getElem?_getD, List.getElem?_replicate, if_pos hp]; rfl
    rw [List.getElem?_map, accumulate_getElem? _ 0 _ _ hl p (by simpa using hp), hinit]
    rfl

theorem subtraction_voxelwise (m0 : List α) (rest : List (List α)) (out : List α) (h : subtraction (m0 :: rest) = some out) :
    out.length = m0.length ∧
    ∀ p, p < m0.length → out[p]? = some (subVox (m0.getD p 0) (rest.map fun m => m.getD p 0)) := by
  simp only [subtraction] at h
  split at h
  · cases h
  · rename_i hc
    simp only [Bool.not_eq_true', Bool.not_eq_false] at hc
    have hs := sameShape_spec (m0 :: rest) hc
    cases h
    have hl : ∀ m ∈ rest, m.length = m0.length := fun m hm => by simpa using hs m (by simp [hm])
    refine ⟨by rw [List.length_map, accumulate_length _ _ _ hl], ?_⟩
    intro p hp
    rw [List.getElem?_map, accumulate_getElem? _ 0 _ _ hl p hp]
    simp [subVox]

theorem difference_voxelwise (ms : List (List α)) (out : List α) (h : difference ms = some out) :
    out.length = (ms.headD []).length ∧
    ∀ p, p < (ms.headD []).length → out[p]? = some (diffVox (ms.map fun m => m.getD p 0)) := by
  unfold difference at h
  split at h
  · rename_i u n hu hn
    cases h
    obtain ⟨hul, hup⟩ := union_voxelwise ms u hu
    obtain ⟨hnl, hnp⟩ := intersection_voxelwise ms n hn
    refine ⟨by simp [hul, hnl], ?_⟩
    intro p hp
    rw [List.getElem?_map, List.getElem?_zipWith, hup p hp, hnp p hp]
    rfl
  · cases h

/-- `union` refuses exactly an empty list or masks of different sizes (the real code raises); the other three share the test -/
theorem union_accepts_iff (ms : List (List α)) :
    ((union ms).isSome = true ↔ ms ≠ [] ∧ ∀ m ∈ ms, m.length = (ms.headD []).length) := by
  unfold union
  constructor
  · intro h
    split at h
    · cases h
    · rename_i hc
      simp only [Bool.or_eq_true, Bool.not_eq_true', not_or, Bool.not_eq_true, Bool.not_eq_false] at hc
      exact ⟨by intro e; simp [e] at hc, sameShape_spec ms hc.2⟩
  · rintro ⟨h1, h2⟩
    have : sameShape ms = true := by
      simp only [sameShape, List.all_eq_true]; intro m hm; simpa using h2 m hm
    have h3 : ms.isEmpty = false := by cases ms <;> simp_all
    simp [this, h3]

end Algebra

/-! ### soft edges -/

section Soft
variable {ι α : Type} [Field α] [LinearOrder α] [IsStrictOrderedRing α]
open Finset

/-- **soft masks stay within [0,1]**: a filter with non-negative weights of total 1 applied to a
[0,1]-valued mask gives values in [0,1] (`s` = kernel offsets, `x q` = mask value seen at offset `q`) -/
theorem soft_range (s : Finset ι) (w x : ι → α) (hw : ∀ q ∈ s, 0 ≤ w q) (hsum : ∑ q ∈ s, w q = 1)
    (hx : ∀ q ∈ s, 0 ≤ x q ∧ x q ≤ 1) : 0 ≤ ∑ q ∈ s, w q * x q ∧ ∑ q ∈ s, w q * x q ≤ 1 :=
  ⟨conv_nonneg s w x hw fun q hq => (hx q hq).1, conv_le_one s w x hw hsum fun q hq => (hx q hq).2⟩

/-- **core deviation ≤ kernel tail**: the blurred value falls short of 1 by at most the kernel weight
landing on voxels that are not 1 -/
theorem soft_core_deficit [DecidableEq α] (s : Finset ι) (w x : ι → α) (hw : ∀ q ∈ s, 0 ≤ w q) (hsum : ∑ q ∈ s, w q = 1)
    (hx : ∀ q ∈ s, 0 ≤ x q ∧ x q ≤ 1) : 1 - ∑ q ∈ s, w q * x q ≤ ∑ q ∈ s with x q ≠ 1, w q :=
  conv_deficit s w x hw hsum hx

end Soft

/-- **blurred outwards**: the sphere drawn for an outwards blur (radius `⌈r + 5σ⌉`) contains every voxel
within `5σ` of a voxel of the requested core — so, by `soft_core_deficit`, a core voxel loses at most the
kernel weight lying farther than `5σ` away -/
theorem outwards_sphere_contains_core_neighbourhood (cx cy cz : Int) (r g : Rat) (hr : 0 ≤ r) (hg : 0 < g)
    (i j k u v t : Int)
    (hcore : sphereIn cx cy cz r i j k = true) (hoff : ((u * u + v * v + t * t : Int) : Rat) ≤ (g * 5) * (g * 5)) :
    sphereIn cx cy cz (preprocess r g true) (i + u) (j + v) (k + t) = true := by
  have hR : r + g * 5 ≤ preprocess r g true := by
    rw [preprocess_outwards _ _ (ne_of_gt hg), blur_factor_documented]; exact Rat.le_ceil
  have h5 : 0 ≤ g * 5 := by positivity
  rw [sphereIn_iff _ _ _ _ hr] at hcore
  apply sphereIn_mono cx cy cz (r + g * 5) _ hR
  rw [sphereIn_iff _ _ _ _ (by linarith)]
  have := ball_dilate ((i - cx : Int) : Rat) ((j - cy : Int) : Rat) ((k - cz : Int) : Rat) (u : Rat) (v : Rat) (t : Rat) r (g * 5) hr h5
    (by simpa [sq] using hcore) (by simpa using hoff)
  simp only [sq]
  push_cast at this ⊢
  have e1 : (i : Rat) + u - cx = i - cx + u := by ring
  have e2 : (j : Rat) + v - cy = j - cy + v := by ring
  have e3 : (k : Rat) + t - cz = k - cz + t := by ring
  rw [e1, e2, e3]
  exact this

/-! ### non-vacuity: concrete inputs meeting the hypotheses -/

-- an off-centre sphere clipped by the box
example : (voxel { kind := .sphere, nx := 6, ny := 7, nz := 8, center := some (1, 5, 7), radius := some 3 }).isSome = true := by decide
example : CentreInBox { kind := .sphere, nx := 6, ny := 7, nz := 8, center := some (1, 5, 7), radius := some 3 } := by
  simp [CentreInBox, Req.centre]
-- a cylinder taller than the box: voxel (3,3,0) is inside, the slab is clipped
example : (hardMask { kind := .cylinder, nx := 6, ny := 6, nz := 6, radius := some 1, height := some 30 }).map (·[(3 * 6 + 3) * 6 + 0]?) = some (some 1) := by decide
-- an ellipsoid on an even non-cubic box with an off-centre centre
example : ellipsoidIn 6 8 10 2 4 5 2 3 4 2 7 5 = true :=
  (ellipsoid_exact_even 6 8 10 rfl rfl rfl 2 4 5 2 3 4 (by decide) (by decide) (by decide) 2 7 5).2 (by norm_num)
-- a spherical shell of thickness 2 around radius 2: (r−1)² < d² ≤ (r+1)²
example : (sphereIn 4 4 4 (2 + 2 / 2) 4 4 7 && !sphereIn 4 4 4 (2 - 2 / 2) 4 4 7) = true :=
  (sphere_shell_analytic 4 4 4 2 2 (by norm_num) (by norm_num) 4 4 7).2 (by norm_num [dist2])
-- generate_mask("sphere_r5") uses a 14-voxel box; "s_shell_r5_s3" an 18-voxel box
example : genSize [5] none 4 = 14 ∧ (generate .sshell [5, 3] none 4).map (·.nx) = some 18 := by decide
-- three binary masks over ℚ
example : diffVox [(b2r true : ℚ), b2r false, b2r true] = 1 ∧ unionVox [(b2r false : ℚ), b2r false] = 0 := by
  constructor <;> simp [diffVox, unionVox, interVox, clip01, b2r]

end CryoCat.C13
