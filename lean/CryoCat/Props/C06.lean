import CryoCat.Model.C06
import CryoCat.Lemmas.C06
import CryoCat.Lemmas.C06_Real
import CryoCat.Lemmas.C06_Geom
import CryoCat.Lemmas.C06_Atan2
import CryoCat.Lemmas.C06_Export
/-! C06 — property theorems: rotation geometry primitives agree with SO(3) ground truth.
Only theorems and non-vacuity examples; helper lemmas live in `Lemmas/C06*.lean`.

The pure theorems other properties build on (`trace_rel`, `angDist_range`, `angDist_is_rotation_angle`,
`toM3_qzxz_real`; used by C18) are proved in `Lemmas/C06_Export.lean`, which does not contain (or import) any
translator obligation; here they are re-exported under the same names with the same statements. Other properties
import `Lemmas/C06_Export`, never this file: this file stops building when a regenerated table of `Gen/C06.lean`
changes, and only C06 may fail for that. -/
namespace CryoCat.C06
open Real

/-! ### translator obligations: the anchored source is the documented one

Every function the model stands for is anchored by a normalised dump of its WHOLE body (header with the parameter
defaults, one string per statement in source order, `| ` marks nesting, locals alpha-normalised `v0, v1, …`), so
an inserted statement, a re-assignment, a changed default or a swapped `return` breaks a theorem below, while a
renamed local variable does not. -/

theorem anchors_ok : Gen.C06.anchorsOk = true := by decide

/-- `angular_distance`, TRANSLATED (no statement dump: temporaries, their names and the order of independent statements are
free): signature and defaults; per argument the `isinstance` dispatch (an ndarray goes through `from_euler(convention, ·, degrees)`,
anything else is used as a `Rotation`); the two returned row-level formulas as terms the model evaluates — `2·arccos(min(|dot|, 1))`
in degrees and `1 − dot²` snapped to 0 below 1e-7, `dot` being `np.sum(q1 * q2, axis=1)`, one number per pair —; and the glue:
the shape test that prints and returns `None`, `np.array(as_quat(), ndmin=2)`, the `c_symmetry > 1` block as the only other thing -/
theorem ang_expr_documented :
    Gen.C06.angHeader = "def angular_distance(input_rot1, input_rot2, convention='zxz', degrees=True, c_symmetry=1)"
    ∧ Gen.C06.angInputs = [[("np.ndarray", "srot.from_euler(convention, <arg>, degrees=degrees)"), ("*", "<arg>")],
                           [("np.ndarray", "srot.from_euler(convention, <arg>, degrees=degrees)"), ("*", "<arg>")]]
    ∧ Gen.C06.angExpr = .deg (.mul (.lit 2 1) (.acos (.min (.abs (.var "dot")) (.lit 1 1))))
    ∧ Gen.C06.dist2Expr = .iteLt (.sub (.lit 1 1) (.mul (.var "dot") (.var "dot"))) (.lit 1 10000000) (.lit 0 1)
                            (.sub (.lit 1 1) (.mul (.var "dot") (.var "dot")))
    ∧ Gen.C06.angSkeleton = ["exit: seq(print(<msg>), None) if <Q1>.shape != <Q2>.shape",
      "Q1 = np.array(<R>.as_quat(), ndmin=2)",
      "Q2 = np.array(<R>.as_quat(), ndmin=2)",
      "R = <SYM> if c_symmetry > 1 else <IN>",
      "SYM1 = srot.from_euler(convention, setitem(<IN>.as_euler(convention, degrees=degrees), (:, 0), np.mod(<IN>.as_euler(convention, degrees=degrees)[:, 0], 360.0 / c_symmetry)), degrees=degrees)",
      "SYM2 = srot.from_euler(convention, setitem(<IN>.as_euler(convention, degrees=degrees), (:, 0), np.mod(<IN>.as_euler(convention, degrees=degrees)[:, 0], 360.0 / c_symmetry)), degrees=degrees)",
      "dot = np.sum(<Q1> * <Q2>, axis=1)",
      "return (<E angExpr>, <E dist2Expr>)"] := ⟨rfl, rfl, rfl, rfl, rfl⟩

/-- `cone_distance`: normalised images of (0,0,1), clamped dot product, arccos in degrees — and nothing else -/
theorem cone_expr_documented :
    Gen.C06.bodyCone = ["def cone_distance(input_rot1, input_rot2)",
      "v0 = [0, 0, 1.0]",
      "v1 = np.array(input_rot1.apply(v0), ndmin=2)",
      "v2 = np.array(input_rot2.apply(v0), ndmin=2)",
      "v3 = np.linalg.norm(v1, axis=1)",
      "v1 = v1 / v3[:, np.newaxis]",
      "v4 = np.linalg.norm(v2, axis=1)",
      "v2 = v2 / v4[:, np.newaxis]",
      "v5 = np.degrees(np.arccos(np.maximum(np.minimum(np.sum(v1 * v2, axis=1), 1.0), -1.0)))",
      "return v5"] := by decide

/-- `inplane_distance`: first Euler angle, snapped below `ANGLE_DEGREES_TOL = 1e-11`, shifted by 180, (symmetry
block only for `c_symmetry > 1`), absolute difference folded at 180 -/
theorem inplane_expr_documented :
    Gen.C06.bodyInplane = ["def inplane_distance(input_rot1, input_rot2, convention='zxz', degrees=True, c_symmetry=1)",
      "v0 = np.array(input_rot1.as_euler(convention, degrees=degrees), ndmin=2)[:, 0]",
      "v1 = np.array(input_rot2.as_euler(convention, degrees=degrees), ndmin=2)[:, 0]",
      "v0 = np.where(abs(v0) < ANGLE_DEGREES_TOL, 0.0, v0)",
      "v1 = np.where(abs(v1) < ANGLE_DEGREES_TOL, 0.0, v1)",
      "v0 += 180.0",
      "v1 += 180.0",
      "if c_symmetry > 1:",
      "| v2 = 360.0 / c_symmetry",
      "| v0 = np.mod(v0, v2)",
      "| v1 = np.mod(v1, v2)",
      "v3 = np.abs(v0 - v1)",
      "v3 = np.where(v3 > 180.0, np.abs(v3 - 360.0), v3)",
      "return v3"]
    ∧ Gen.C06.angleTolNum = 1 ∧ Gen.C06.angleTolDen = 100000000000 := by decide

/-- `euler_angles_to_normals`, TRANSLATED: the batch `visualize_angles(angles, plot_rotations=False)` is divided row by row by ITS OWN
norm (mode `"row"`: `np.linalg.norm(…, axis=1, keepdims=True)` or `…axis=1)[:, np.newaxis]`; `"all"` would be the Frobenius norm of defect
D06); `visualize_angles` → `visualize_rotations` compute the image of `(0, 0, radius)` under `from_euler('zxz', degrees=True)` -/
theorem normals_expr_documented :
    Gen.C06.normalsHeader = "def euler_angles_to_normals(angles)"
    ∧ Gen.C06.normalsNormMode = "row"
    ∧ Gen.C06.normalsSkeleton = ["P = visualize_angles(angles, plot_rotations=False)", "return <P> / <norm of P by row>"]
    ∧ Gen.C06.bodyVisAngles = ["def visualize_angles(angles, plot_rotations=True, color_map=None)",
      "v0 = srot.from_euler('zxz', angles=angles, degrees=True)",
      "v1 = visualize_rotations(v0, plot_rotations, color_map)",
      "return v1"]
    ∧ Gen.C06.bodyVisRot = ["def visualize_rotations(rotations, plot_rotations=True, color_map=None, marker_size=20, alpha=1.0, radius=1.0)",
      "v0 = np.array([0.0, 0.0, radius])",
      "v1 = np.array(rotations.apply(v0), ndmin=2)",
      "if plot_rotations: <collapsed: rebinds=[] exits=0>",
      "return v1"] := by decide

/-- `normals_to_euler_angles`, TRANSLATED: DataFrame → its x, y, z columns, ndarray → itself, anything else raises `UserInputError`;
row-wise normalisation; θ = atan2(√(ux²+uy²), uz) and ψ = 90° + atan2(uy, ux), ψ := 0 exactly for ux = uy = 0, both in degrees, as terms
the model evaluates; a random φ; the column order is `n2e_orders_documented` -/
theorem n2e_expr_documented :
    Gen.C06.n2eHeader = "def normals_to_euler_angles(input_normals, output_order='zxz')"
    ∧ Gen.C06.n2eInputs = [("pd.DataFrame", "<arg>.loc[:, ['x', 'y', 'z']].values"), ("np.ndarray", "<arg>"), ("*", "raise UserInputError")]
    ∧ Gen.C06.n2eNormMode = "row"
    ∧ Gen.C06.n2eThetaExpr = .deg (.atan2 (.sqrt (.add (.mul (.var "ux") (.var "ux")) (.mul (.var "uy") (.var "uy")))) (.var "uz"))
    ∧ Gen.C06.n2ePsiExpr = .iteEq (.var "ux") (.lit 0 1)
        (.iteEq (.var "uy") (.lit 0 1) (.lit 0 1) (.add (.lit 90 1) (.deg (.atan2 (.var "uy") (.var "ux")))))
        (.add (.lit 90 1) (.deg (.atan2 (.var "uy") (.var "ux"))))
    ∧ Gen.C06.n2eSkeleton = ["U = <S> / <norm of S by row>", "phi = np.random.rand(<U>.shape[0]) * 360",
      "return np.column_stack(<columns by output_order>)"] := by decide

/-- `compare_rotations` / `cone_inplane_distance` only forward to the three primitives; EVERY `return` of
`compare_rotations` in order -/
theorem compare_expr_documented :
    Gen.C06.bodyCompare = ["def compare_rotations(angles1, angles2, c_symmetry=1, rotation_type='all')",
      "v0 = angular_distance(angles1, angles2, c_symmetry=c_symmetry)[0]",
      "v1, v2 = cone_inplane_distance(angles1, angles2, c_symmetry=c_symmetry)",
      "if rotation_type == 'all':",
      "| return (v0, v1, v2)",
      "elif rotation_type == 'angular_distance':",
      "| return v0",
      "elif rotation_type == 'cone_distance':",
      "| return v1",
      "elif rotation_type == 'in_plane_distance':",
      "| return v2",
      "else:",
      "| raise UserInputError(<msg>)"]
    ∧ Gen.C06.bodyConeInplane = ["def cone_inplane_distance(input_rot1, input_rot2, convention='zxz', degrees=True, c_symmetry=1)",
      "if isinstance(input_rot1, np.ndarray):",
      "| v0 = srot.from_euler(convention, input_rot1, degrees=degrees)",
      "else:",
      "| v0 = input_rot1",
      "if isinstance(input_rot2, np.ndarray):",
      "| v1 = srot.from_euler(convention, input_rot2, degrees=degrees)",
      "else:",
      "| v1 = input_rot2",
      "v2 = cone_distance(v0, v1)",
      "v3 = inplane_distance(v0, v1, convention, degrees, c_symmetry)",
      "return (v2, v3)"] := by decide

/-- which primitive each `rotation_type` returns (resolved through the callee that computed the returned name, not
through the name), the final `else` raises -/
theorem compare_branches_documented :
    Gen.C06.compareBranches = [("all", ["ang", "cone", "inp"]), ("angular_distance", ["ang"]),
      ("cone_distance", ["cone"]), ("in_plane_distance", ["inp"])]
    ∧ Gen.C06.compareElse = "raise UserInputError" := by decide

/-- column order of `normals_to_euler_angles`: "zzx" → (φ, ψ, θ), anything else → (φ, θ, ψ) -/
theorem n2e_orders_documented :
    Gen.C06.n2eOrders = [("zzx", ["phi", "psi", "theta"]), ("*", ["phi", "theta", "psi"])] := by decide

/-- the signature defaults the statement depends on: `rotation_type="all"`, `output_order="zxz"` (the other defaults
— `convention='zxz'`, `degrees=True`, `c_symmetry=1`, `radius=1.0` — are the headers of the body dumps above) -/
theorem defaults_documented :
    Gen.C06.rotationTypeDefault = "all" ∧ Gen.C06.outputOrderDefault = "zxz"
    ∧ Gen.C06.bodyCompare.head? = some "def compare_rotations(angles1, angles2, c_symmetry=1, rotation_type='all')"
    ∧ Gen.C06.angHeader = "def angular_distance(input_rot1, input_rot2, convention='zxz', degrees=True, c_symmetry=1)"
    ∧ Gen.C06.bodyInplane.head? = some "def inplane_distance(input_rot1, input_rot2, convention='zxz', degrees=True, c_symmetry=1)"
    ∧ Gen.C06.bodyConeInplane.head? = some "def cone_inplane_distance(input_rot1, input_rot2, convention='zxz', degrees=True, c_symmetry=1)"
    ∧ Gen.C06.n2eHeader = "def normals_to_euler_angles(input_normals, output_order='zxz')"
    ∧ Gen.C06.bodyVisRot.head? = some "def visualize_rotations(rotations, plot_rotations=True, color_map=None, marker_size=20, alpha=1.0, radius=1.0)" := by decide

/-! ### `compare_rotations`: every `rotation_type` returns the primitive of its name; anything else is rejected -/
section compare
variable {α : Type}

/-- (anchor-level: an `rfl` unfolding of the regenerated table, whose content is `compare_branches_documented`) the model's
`compareRotations`, run on that table, returns for `rotation_type="all"` — also the default — the triple (angular, cone, in-plane) in this order -/
theorem compareRotations_all (v : Prims α) :
    compareRotations Gen.C06.compareBranches "all" v = some [v.ang, v.cone, v.inp]
    ∧ compareRotations Gen.C06.compareBranches Gen.C06.rotationTypeDefault v = some [v.ang, v.cone, v.inp] := ⟨rfl, rfl⟩

/-- (anchor-level, `rfl` on the regenerated table) each single-value branch returns the primitive it is named after -/
theorem compareRotations_single (v : Prims α) :
    compareRotations Gen.C06.compareBranches "angular_distance" v = some [v.ang]
    ∧ compareRotations Gen.C06.compareBranches "cone_distance" v = some [v.cone]
    ∧ compareRotations Gen.C06.compareBranches "in_plane_distance" v = some [v.inp] := ⟨rfl, rfl, rfl⟩

/-- any other `rotation_type` raises `UserInputError` (the model's `none`) -/
theorem compareRotations_unsupported (t : String) (v : Prims α)
    (h : t ∉ ["all", "angular_distance", "cone_distance", "in_plane_distance"]) :
    compareRotations Gen.C06.compareBranches t v = none := by
  simp only [List.mem_cons, List.not_mem_nil, or_false, not_or] at h
  obtain ⟨h1, h2, h3, h4⟩ := h
  have e : ∀ s : String, s ≠ t → (s == t) = false := fun s hs => by simpa using hs
  simp only [compareRotations, Gen.C06.compareBranches, List.find?,
    e "all" (Ne.symm h1), e "angular_distance" (Ne.symm h2), e "cone_distance" (Ne.symm h3), e "in_plane_distance" (Ne.symm h4)]

/-- column order of `normals_to_euler_angles` on the regenerated table: the first two conjuncts are `rfl` anchors (`"zzx"` gives (φ, ψ, θ),
the default (φ, θ, ψ)); the third is the quantified part: EVERY string other than `"zzx"` falls into the `else` branch (φ, θ, ψ) -/
theorem n2eColumns_spec (o : String) :
    n2eColumns Gen.C06.n2eOrders "zzx" = ["phi", "psi", "theta"]
    ∧ n2eColumns Gen.C06.n2eOrders Gen.C06.outputOrderDefault = ["phi", "theta", "psi"]
    ∧ (o ≠ "zzx" → n2eColumns Gen.C06.n2eOrders o = ["phi", "theta", "psi"]) := by
  refine ⟨rfl, rfl, fun h => ?_⟩
  have e : ("zzx" == o) = false := by simpa using Ne.symm h
  by_cases hs : o = "*"
  · subst hs; rfl
  · have e2 : ("*" == o) = false := by simpa using Ne.symm hs
    simp only [n2eColumns, Gen.C06.n2eOrders, List.find?, e, e2]
    rfl
end compare

/-! ### quaternion algebra (any commutative ring): what the distance is a function of -/
section ring
variable {α : Type} [CommRing α]

theorem qdot_comm (p q : Q4 α) : qdot p q = qdot q p := qdot_comm' p q

/-- composing both orientations with a common rotation `g` on the left scales the dot product by `‖g‖²` -/
theorem qdot_mul_left (g p q : Q4 α) : qdot (g * p) (g * q) = qnormSq g * qdot p q := qdot_mul_left' g p q

theorem qdot_mul_right (g p q : Q4 α) : qdot (p * g) (q * g) = qdot p q * qnormSq g := qdot_mul_right' g p q

/-- the quaternion product is the matrix product: `p * q` of the model is the rotation "first q, then p" -/
theorem toM3_mul (p q : Q4 α) : toM3 (p * q) = toM3 p * toM3 q := toM3_mul' p q

/-- a unit quaternion gives an orthogonal matrix -/
theorem toM3_orth (q : Q4 α) (h : qnormSq q = 1) : (toM3 q).Orth := toM3_orth' q h

/-- the quaternion the driver builds from the Euler half angles is a unit quaternion whose matrix is
the shared `zxz` Euler matrix `Rz(ψ)·Rx(θ)·Rz(φ)` of the full angles -/
theorem toM3_qzxz (cp sp ct st cs ss : α) (hp : cp*cp + sp*sp = 1) (ht : ct*ct + st*st = 1) (hs : cs*cs + ss*ss = 1) :
    qnormSq (qzxz cp sp ct st cs ss) = 1 ∧
    toM3 (qzxz cp sp ct st cs ss)
      = zxz (cp*cp - sp*sp) (2*cp*sp) (ct*ct - st*st) (2*ct*st) (cs*cs - ss*ss) (2*cs*ss) :=
  ⟨qnormSq_qzxz cp sp ct st cs ss hp ht hs, toM3_qzxz' cp sp ct st cs ss hp ht hs⟩

/-- trace of the relative rotation `R_pᵀ·R_q` of two unit quaternions is `4(p·q)² − 1`, i.e.
`1 + 2·cos(angle)` with `cos(angle) = 2(p·q)² − 1` -/
theorem trace_rel (p q : Q4 α) (hp : qnormSq p = 1) (hq : qnormSq q = 1) :
    M3.trace ((toM3 p).transpose * toM3 q) = 4 * (qdot p q * qdot p q) - 1 :=
  Export.trace_rel p q hp hq
end ring

/-- two unit quaternions describe the same rotation iff they are equal up to sign, iff `(p·q)² = 1`
(any ordered field) -/
theorem toM3_eq_iff {α : Type} [Field α] [LinearOrder α] [IsStrictOrderedRing α] (p q : Q4 α)
    (hp : qnormSq p = 1) (hq : qnormSq q = 1) :
    (toM3 p = toM3 q ↔ (q = p ∨ q = qneg p)) ∧ (toM3 p = toM3 q ↔ qdot p q * qdot p q = 1) :=
  ⟨toM3_eq_iff' p q hp hq, toM3_eq_iff_dot p q hp hq⟩

/-! ### the angular distance over ℝ (`Real.arccos`), for ALL pairs / triples of unit quaternions -/
section real
variable (at2 : ℝ → ℝ → ℝ)

/-- **what the clamp `np.minimum(|q1·q2|, 1.0)` provides**: the argument handed to `arccos` lies in [0, 1] for ANY two
quaternions — unit or not, exact or rounded — so the range clause [0°, 180°] holds without a hypothesis on the inputs
(and in floating point `arccos` never sees 1 + 2⁻⁵², the NaN of defect D22) -/
theorem absDot_clamp {β : Type} [Field β] [LinearOrder β] [IsStrictOrderedRing β] (p q : Q4 β) :
    0 ≤ absDot p q ∧ absDot p q ≤ 1 ∧ (qdot p q * qdot p q ≤ 1 → absDot p q = |qdot p q|) := by
  simp only [absDot, absv_eq_abs]
  refine ⟨le_min (abs_nonneg _) zero_le_one, min_le_right _ _, fun h => min_eq_left ?_⟩
  have : |qdot p q| * |qdot p q| ≤ 1 := by rw [abs_mul_abs_self]; exact h
  nlinarith [abs_nonneg (qdot p q)]

/-- the shape test OF THE MODEL (an unfolding of `angDistBatch`; what ties it to the source is the `exit:` line of `angSkeleton` in
`ang_expr_documented` and the `mismatch` cases of the correspondence run): two batches of different size give `None`, equal sizes give
one distance per pair, each the distance of that pair -/
theorem angDistBatch_spec (ps qs : List (Q4 ℝ)) :
    (ps.length ≠ qs.length → angDistBatch (realLibm at2) ps qs = none)
    ∧ (ps.length = qs.length → ∃ ds, angDistBatch (realLibm at2) ps qs = some ds ∧ ds.length = ps.length
        ∧ ∀ i (h1 : i < ps.length) (h2 : i < qs.length) (h3 : i < ds.length),
            ds[i] = angDist (realLibm at2) ps[i] qs[i]) := by
  constructor
  · intro h; simp [angDistBatch, h]
  · intro h
    refine ⟨(ps.zip qs).map fun pq => angDist (realLibm at2) pq.1 pq.2, by simp [angDistBatch, h], by simp [h], ?_⟩
    intro i h1 h2 h3
    simp

/-- it lies in [0, 180] degrees (for any two quaternions, unit or not) -/
theorem angDist_range (p q : Q4 ℝ) : 0 ≤ angDist (realLibm at2) p q ∧ angDist (realLibm at2) p q ≤ 180 :=
  Export.angDist_range at2 p q

/-- it is symmetric -/
theorem angDist_symm (p q : Q4 ℝ) : angDist (realLibm at2) p q = angDist (realLibm at2) q p := by
  simp only [angDist, angDistRad, absDot, qdot_comm' p q]

/-- it is zero exactly for equal rotations -/
theorem angDist_eq_zero_iff (p q : Q4 ℝ) (hp : qnormSq p = 1) (hq : qnormSq q = 1) :
    angDist (realLibm at2) p q = 0 ↔ toM3 p = toM3 q := by
  rw [toM3_eq_iff_dot p q hp hq]
  simp only [angDist, angDistRad]
  rw [toDeg_real, deg_eq_zero]
  simp only [realLibm]
  have hle := qdot_sq_le_one p q hp hq
  have : (2 * arccos (absDot p q) = 0) ↔ 1 ≤ absDot p q := by
    rw [← arccos_eq_zero]; constructor <;> intro h <;> linarith
  rw [this]
  simp only [absDot, absv_eq_abs]
  constructor
  · intro h
    have h1 : 1 ≤ |qdot p q| := (le_min_iff.1 h).1
    have : 1 ≤ |qdot p q| * |qdot p q| := by nlinarith
    rw [abs_mul_abs_self] at this
    linarith
  · intro h
    apply le_min _ le_rfl
    have : |qdot p q| * |qdot p q| = 1 := by rw [abs_mul_abs_self]; exact h
    nlinarith [abs_nonneg (qdot p q)]

/-- it is unchanged when both orientations are composed with a common rotation on the left … -/
theorem angDist_left_invariant (g p q : Q4 ℝ) (hg : qnormSq g = 1) :
    angDist (realLibm at2) (g * p) (g * q) = angDist (realLibm at2) p q := by
  simp only [angDist, angDistRad, absDot, qdot_mul_left', hg, one_mul]

/-- … and on the right -/
theorem angDist_right_invariant (g p q : Q4 ℝ) (hg : qnormSq g = 1) :
    angDist (realLibm at2) (p * g) (q * g) = angDist (realLibm at2) p q := by
  simp only [angDist, angDistRad, absDot, qdot_mul_right', hg, mul_one]

/-- it obeys the triangle inequality -/
theorem angDist_triangle (a b c : Q4 ℝ) (ha : qnormSq a = 1) (hb : qnormSq b = 1) (hc : qnormSq c = 1) :
    angDist (realLibm at2) a c ≤ angDist (realLibm at2) a b + angDist (realLibm at2) b c := by
  simp only [angDist, toDeg_real, angDistRad_eq_hd]
  have h := hd_triangle (vec a) (vec b) (vec c) (norm_vec a ha) (norm_vec b hb) (norm_vec c hc)
  have hk : (0 : ℝ) ≤ 180 / π := by positivity
  nlinarith

/-- it equals the rotation angle of the relative rotation `R_pᵀ·R_q`: the angle in [0, π] whose
cosine is `(trace − 1)/2` -/
theorem angDist_is_rotation_angle (p q : Q4 ℝ) (hp : qnormSq p = 1) (hq : qnormSq q = 1) :
    angDistRad (realLibm at2) p q = arccos ((M3.trace ((toM3 p).transpose * toM3 q) - 1) / 2) :=
  Export.angDist_is_rotation_angle at2 p q hp hq

/-- over the reals the clamp is invisible (`Real.arccos` is constant 0 above 1): the unclamped
expression of the pinned commit differs from the repaired one only in floating point, where
`arccos(1 + 2⁻⁵²)` is NaN (witness input in `corpus/C06/`) -/
theorem angDistAsIs_eq (p q : Q4 ℝ) : angDistAsIs (realLibm at2) p q = angDist (realLibm at2) p q := by
  simp only [angDistAsIs, angDist, angDistRad, absDot, realLibm, arccos_min_one]
end real


/-! ### cone distance -/
section cone
variable (at2 : ℝ → ℝ → ℝ)

/-- for rotations (orthogonal matrices) the normalisation and the clamp are the identity: the cosine
the code feeds to `arccos` is the dot product of the two z-axis images -/
theorem coneCos_eq_dot (m1 m2 : M3 ℝ) (h1 : m1.Orth) (h2 : m2.Orth) :
    coneCos (realLibm at2) m1 m2 = V3.dot (m1.apply ⟨0, 0, 1⟩) (m2.apply ⟨0, 0, 1⟩) := by
  have e : V3.normSq (⟨0, 0, 1⟩ : V3 ℝ) = 1 := by simp [V3.normSq, V3.dot]
  have n1 : V3.normSq (m1.apply ⟨0, 0, 1⟩) = 1 := by rw [h1.normSq_apply, e]
  have n2 : V3.normSq (m2.apply ⟨0, 0, 1⟩) = 1 := by rw [h2.normSq_apply, e]
  have hcs := dot_sq_le (m1.apply ⟨0, 0, 1⟩) (m2.apply ⟨0, 0, 1⟩)
  rw [n1, n2] at hcs
  simp only [coneCos, realLibm, n1, n2, Real.sqrt_one, div_one]
  have hb : |V3.dot (m1.apply ⟨0, 0, 1⟩) (m2.apply ⟨0, 0, 1⟩)| ≤ 1 := by
    apply abs_le_one_iff_mul_self_le_one.2; linarith
  obtain ⟨lo, hi⟩ := abs_le.1 hb
  rw [min_eq_left hi, max_eq_left lo]

/-- **the cone distance equals the angle between the two z-axes** (`InnerProductGeometry.angle` in
Euclidean 3-space), in degrees -/
theorem coneDist_eq_angle (m1 m2 : M3 ℝ) (h1 : m1.Orth) (h2 : m2.Orth) :
    coneDist (realLibm at2) m1 m2
      = InnerProductGeometry.angle (vec3 (m1.apply ⟨0, 0, 1⟩)) (vec3 (m2.apply ⟨0, 0, 1⟩)) * (180 / π) := by
  have e : V3.normSq (⟨0, 0, 1⟩ : V3 ℝ) = 1 := by simp [V3.normSq, V3.dot]
  have n1 : V3.normSq (m1.apply ⟨0, 0, 1⟩) = 1 := by rw [h1.normSq_apply, e]
  have n2 : V3.normSq (m2.apply ⟨0, 0, 1⟩) = 1 := by rw [h2.normSq_apply, e]
  simp only [coneDist, toDeg_real, coneCos_eq_dot at2 m1 m2 h1 h2]
  rw [angle_vec3 _ _ n1 n2]; rfl

/-- it lies in [0, 180] degrees -/
theorem coneDist_range (m1 m2 : M3 ℝ) : 0 ≤ coneDist (realLibm at2) m1 m2 ∧ coneDist (realLibm at2) m1 m2 ≤ 180 := by
  simp only [coneDist, toDeg_real]
  exact ⟨mul_nonneg (arccos_nonneg _) (by positivity), deg_le _ (arccos_le_pi _)⟩

/-- the cone distance is symmetric — for ALL matrices (the dot product of the two normalised z-axis images is) -/
theorem coneDist_symm (m1 m2 : M3 ℝ) : coneDist (realLibm at2) m1 m2 = coneDist (realLibm at2) m2 m1 := by
  have h : coneCos (realLibm at2) m1 m2 = coneCos (realLibm at2) m2 m1 := by
    simp only [coneCos, V3.dot]
    congr 2
    ring
  simp only [coneDist, h]

/-- … and vanishes for equal orientations -/
theorem coneDist_self (m : M3 ℝ) (h : m.Orth) : coneDist (realLibm at2) m m = 0 := by
  have e : V3.normSq (⟨0, 0, 1⟩ : V3 ℝ) = 1 := by simp [V3.normSq, V3.dot]
  have n1 : V3.normSq (m.apply ⟨0, 0, 1⟩) = 1 := by rw [h.normSq_apply, e]
  have hc : coneCos (realLibm at2) m m = 1 := by
    rw [coneCos_eq_dot at2 m m h h]; exact n1
  simp only [coneDist, toDeg_real, hc]
  show Real.arccos 1 * (180 / Real.pi) = 0
  rw [Real.arccos_one, zero_mul]
end cone

/-! ### in-plane distance, batches of normals, normals → Euler angles (any ordered field) -/
section field
variable {α : Type} [Field α] [LinearOrder α] [IsStrictOrderedRing α]

/-- the in-plane distance of two first Euler angles in [-180, 180] lies in [0, 180] -/
theorem inplane_range (tol p1 p2 : α) (h1 : -180 ≤ p1 ∧ p1 ≤ 180) (h2 : -180 ≤ p2 ∧ p2 ≤ 180) :
    0 ≤ inplane tol p1 p2 ∧ inplane tol p1 p2 ≤ 180 := by
  have s1 : -180 ≤ snap tol p1 ∧ snap tol p1 ≤ 180 := by
    unfold snap; split <;> [constructor <;> norm_num; exact h1]
  have s2 : -180 ≤ snap tol p2 ∧ snap tol p2 ≤ 180 := by
    unfold snap; split <;> [constructor <;> norm_num; exact h2]
  simp only [inplane, absv_eq_abs]
  have hb : |snap tol p1 + 180 - (snap tol p2 + 180)| ≤ 360 := by
    rw [abs_le]; constructor <;> linarith [s1.1, s1.2, s2.1, s2.2]
  split
  · rename_i h
    rw [abs_of_nonpos (by linarith)]
    constructor <;> linarith
  · rename_i h
    exact ⟨abs_nonneg _, not_lt.1 h⟩

/-- … and is 0 for EQUAL FIRST EULER ANGLES (`|x − x|` folded). This is not yet "vanishes for equal orientations": the step from "the same
orientation" to "the same φ read back by `as_euler`" is a probed library assumption (ASSUMPTIONS of `c06.py`), and φ may come back
differing by rounding — the form of the clause that survives that is `inplane_le_of_close` (distance ≤ e + 2·tol for φ's e apart)
together with `inplane_wrap` (+180 vs −180) -/
theorem inplane_self (tol p : α) : inplane tol p p = 0 := by
  simp only [inplane, absv_eq_abs, sub_self, abs_zero]
  rw [if_neg (by norm_num)]

theorem inplane_symm (tol p1 p2 : α) : inplane tol p1 p2 = inplane tol p2 p1 := by
  simp only [inplane, absv_eq_abs]
  rw [abs_sub_comm]

/-- `as_euler` may write the in-plane angle of one orientation as +180 or as −180: the distance of the two is 0 -/
theorem inplane_wrap (tol : α) (h : tol ≤ 180) : inplane tol 180 (-180) = 0 ∧ inplane tol (-180) 180 = 0 := by
  have s1 : snap tol (180 : α) = 180 := by
    unfold snap; rw [if_neg]; rw [absv_eq_abs, abs_of_nonneg (by norm_num)]; exact not_lt.2 h
  have s2 : snap tol (-180 : α) = -180 := by
    unfold snap; rw [if_neg]; rw [absv_eq_abs, abs_neg, abs_of_nonneg (by norm_num)]; exact not_lt.2 h
  constructor
  · simp only [inplane, s1, s2, absv_eq_abs]
    norm_num
  · simp only [inplane, s1, s2, absv_eq_abs]
    norm_num

/-- **vanishes for equal orientations, robustly**: when the first Euler angles of the two orientations agree up to `e`
(the same rotation read back by `as_euler` from two quaternions that differ by rounding or by sign), the in-plane
distance is at most `e + 2·tol` — the snap moves either angle by less than `tol` -/
theorem inplane_le_of_close (tol p1 p2 e : α) (ht : 0 ≤ tol) (h : |p1 - p2| ≤ e) (he : e + 2 * tol ≤ 180) :
    0 ≤ inplane tol p1 p2 ∧ inplane tol p1 p2 ≤ e + 2 * tol := by
  have sn : ∀ p : α, |snap tol p - p| ≤ tol := by
    intro p; unfold snap; split
    · rename_i hp; rw [absv_eq_abs] at hp; rw [zero_sub, abs_neg]; exact hp.le
    · simpa using ht
  have key : |snap tol p1 + 180 - (snap tol p2 + 180)| ≤ e + 2 * tol := by
    have e1 : snap tol p1 + 180 - (snap tol p2 + 180) = (snap tol p1 - p1) - (snap tol p2 - p2) + (p1 - p2) := by ring
    rw [e1]
    have a1 := abs_le.1 (sn p1); have a2 := abs_le.1 (sn p2); have a3 := abs_le.1 h
    rw [abs_le]; constructor <;> linarith [a1.1, a1.2, a2.1, a2.2, a3.1, a3.2]
  simp only [inplane, absv_eq_abs]
  rw [if_neg (not_lt.2 (le_trans key he))]
  exact ⟨abs_nonneg _, key⟩

/-- **one unit vector per orientation**: the output has as many rows as the input, row `i` is computed from input row `i`
alone (its own norm), and is a unit vector. (False for the Frobenius-norm variant of defect D06, whose rows depend on
the whole batch: `normals_asis_not_unit`.) -/
theorem normals_one_per_orientation (L : Libm α) (hL : SqrtSpec L) (pts : List (V3 α)) (h : ∀ p ∈ pts, V3.normSq p ≠ 0) :
    (normalsRowwise L pts).length = pts.length
    ∧ ∀ i (h1 : i < (normalsRowwise L pts).length) (h2 : i < pts.length),
        (normalsRowwise L pts)[i] = scale pts[i] (L.sqrt (V3.normSq pts[i]))
        ∧ V3.normSq (normalsRowwise L pts)[i] = 1 := by
  refine ⟨by simp [normalsRowwise], fun i h1 h2 => ?_⟩
  have e : (normalsRowwise L pts)[i] = scale pts[i] (L.sqrt (V3.normSq pts[i])) := by simp [normalsRowwise]
  refine ⟨e, ?_⟩
  rw [e]
  exact normSq_scale _ _ (hL.mul_self _ (V3.normSq_nonneg _)) (h _ (List.getElem_mem h2))

/-- every returned row is a unit vector, for batches of ANY size -/
theorem normals_rowwise_unit (L : Libm α) (hL : SqrtSpec L) (pts : List (V3 α))
    (h : ∀ p ∈ pts, V3.normSq p ≠ 0) : ∀ v ∈ normalsRowwise L pts, V3.normSq v = 1 := by
  intro v hv
  simp only [normalsRowwise, List.mem_map] at hv
  obtain ⟨p, hp, rfl⟩ := hv
  exact normSq_scale p _ (hL.mul_self _ (V3.normSq_nonneg p)) (h p hp)

/-- the image of the z-axis under `zxz φ θ ψ` is a unit vector -/
theorem zaxis_unit (cp sp ct st cs ss : α) (ht : ct*ct + st*st = 1) (hs : cs*cs + ss*ss = 1) :
    V3.normSq (zaxisOfEuler cp sp ct st cs ss) = 1 := zaxis_normSq cp sp ct st cs ss ht hs

/-- **Euler angles → normals**: for a batch of any size the result is, row by row, exactly the image
of the z-axis (the third column of the `zxz` matrix) -/
theorem normals_rowwise_is_zaxis (L : Libm α) (hL : SqrtSpec L) (angles : List (α × α × α × α × α × α))
    (h : ∀ a ∈ angles, a.2.2.1 * a.2.2.1 + a.2.2.2.1 * a.2.2.2.1 = 1 ∧ a.2.2.2.2.1 * a.2.2.2.2.1 + a.2.2.2.2.2 * a.2.2.2.2.2 = 1) :
    normalsRowwise L (angles.map fun a => zaxisOfEuler a.1 a.2.1 a.2.2.1 a.2.2.2.1 a.2.2.2.2.1 a.2.2.2.2.2)
      = angles.map fun a => (zxz a.1 a.2.1 a.2.2.1 a.2.2.2.1 a.2.2.2.2.1 a.2.2.2.2.2).col3 := by
  simp only [normalsRowwise, List.map_map]
  apply List.map_congr_left
  intro a ha
  obtain ⟨ht, hs⟩ := h a ha
  simp only [Function.comp]
  rw [zaxis_normSq _ _ _ _ _ _ ht hs, hL.sqrt_one, scale_one, zaxisOfEuler, apply_ez]

/-- **Regression witness (defect D06).** Dividing by the Frobenius norm of the whole batch gives rows of
squared length `1/n`: not unit vectors as soon as the batch holds two orientations. -/
theorem normals_asis_not_unit (L : Libm α) (hL : SqrtSpec L) (pts : List (V3 α))
    (h : ∀ p ∈ pts, V3.normSq p = 1) (hn : 2 ≤ pts.length) :
    ∀ v ∈ normalsAsIs L pts, V3.normSq v * (pts.length : α) = 1 ∧ V3.normSq v ≠ 1 := by
  intro v hv
  simp only [normalsAsIs, List.mem_map] at hv
  obtain ⟨p, hp, rfl⟩ := hv
  rw [sum_normSq_unit pts h]
  have hpos : (0 : α) < (pts.length : α) := by exact_mod_cast (by omega : 0 < pts.length)
  have hs := hL.mul_self (pts.length : α) hpos.le
  have hne := hL.ne_zero hpos.le hpos.ne'
  have e := normSq_scale_gen p (L.sqrt (pts.length : α)) hne
  rw [hs, h p hp] at e
  refine ⟨e, fun h1 => ?_⟩
  rw [h1, one_mul] at e
  have : (2 : α) ≤ (pts.length : α) := by exact_mod_cast hn
  linarith

/-- **normals → Euler angles**: the (cos, sin) pairs of the returned θ and ψ are those of angles, and
for EVERY φ the z-axis of `zxz φ θ ψ` is the normalised input normal `n/|n|` — for normals of any
non-zero length, including the axes and the half-plane `y = 0 < x`. -/
theorem n2e_zaxis (L : Libm α) (hL : SqrtSpec L) (n : V3 α) (hn : V3.normSq n ≠ 0) (cp sp : α) :
    let r := n2eCS L n
    r.1 * r.1 + r.2.1 * r.2.1 = 1 ∧ r.2.2.1 * r.2.2.1 + r.2.2.2 * r.2.2.2 = 1 ∧
    zaxisOfEuler cp sp r.1 r.2.1 r.2.2.1 r.2.2.2 = scale n (L.sqrt (V3.normSq n)) := by
  intro r
  have hu : V3.normSq (scale n (L.sqrt (V3.normSq n))) = 1 :=
    normSq_scale n _ (hL.mul_self _ (V3.normSq_nonneg n)) hn
  generalize hudef : scale n (L.sqrt (V3.normSq n)) = u at hu
  have hrho0 : 0 ≤ u.x * u.x + u.y * u.y := by nlinarith [mul_self_nonneg u.x, mul_self_nonneg u.y]
  have hrho := hL.mul_self _ hrho0
  simp only [V3.normSq, V3.dot] at hu
  by_cases hxy : u.x = 0 ∧ u.y = 0
  · have hr : r = (u.z, L.sqrt (u.x * u.x + u.y * u.y), 1, 0) := by
      simp only [r, n2eCS, hudef]
      rw [if_pos (by simp [hxy.1, hxy.2])]
    have hz : L.sqrt (u.x * u.x + u.y * u.y) = 0 := by
      rw [hxy.1, hxy.2]; simp [hL.eq_zero]
    rw [hr, zaxisOfEuler_eq]
    simp only [hz]
    refine ⟨by rw [hxy.1, hxy.2] at hu; linear_combination hu, by ring, ?_⟩
    ext <;> simp [hxy.1, hxy.2]
  · have hr : r = (u.z, L.sqrt (u.x * u.x + u.y * u.y), -(u.y / L.sqrt (u.x * u.x + u.y * u.y)), u.x / L.sqrt (u.x * u.x + u.y * u.y)) := by
      simp only [r, n2eCS, hudef]
      rw [if_neg]
      simpa using hxy
    have hpos : u.x * u.x + u.y * u.y ≠ 0 := by
      intro e
      apply hxy
      constructor <;> nlinarith [mul_self_nonneg u.x, mul_self_nonneg u.y]
    have hne := hL.ne_zero hrho0 hpos
    rw [hr, zaxisOfEuler_eq]
    generalize L.sqrt (u.x * u.x + u.y * u.y) = rho at hrho hne
    refine ⟨by linear_combination hu + hrho, ?_, ?_⟩
    · field_simp; linear_combination -hrho
    · ext <;> simp <;> field_simp

/-- **normals of ANY length**: the normalised normal — and with it every angle `normals_to_euler_angles` returns — depends
on the direction of the input only: scaling the normal by any `k > 0` changes nothing — over an ordered field. Binary64 is not one:
`n2e_k1_overflow_witness` / `n2e_k1_underflow_witness` below show the same model, evaluated at `Float`, losing the direction of
(1,2,2)·1e160 and (1,2,2)·1e-170 (known finding C06-K1). -/
theorem n2e_scale_invariant (L : Libm α) (hL : SqrtSpec L) (n : V3 α) (hn : V3.normSq n ≠ 0) (k : α) (hk : 0 < k) :
    scale (V3.smul k n) (L.sqrt (V3.normSq (V3.smul k n))) = scale n (L.sqrt (V3.normSq n))
    ∧ n2eCS L (V3.smul k n) = n2eCS L n := by
  have h0 := V3.normSq_nonneg n
  have hr := hL.ne_zero h0 hn
  have hs : L.sqrt (V3.normSq (V3.smul k n)) = k * L.sqrt (V3.normSq n) := by
    have e : V3.normSq (V3.smul k n) = k * k * V3.normSq n := by
      simp only [V3.normSq, V3.dot, V3.smul]; ring
    have h1 : 0 ≤ k * k * V3.normSq n := mul_nonneg (mul_self_nonneg k) h0
    have a := hL.mul_self _ h1
    have b := hL.mul_self _ h0
    have na := hL.nonneg (k * k * V3.normSq n)
    have nb := hL.nonneg (V3.normSq n)
    rw [e]
    have hz : (L.sqrt (k * k * V3.normSq n) - k * L.sqrt (V3.normSq n))
        * (L.sqrt (k * k * V3.normSq n) + k * L.sqrt (V3.normSq n)) = 0 := by
      linear_combination a - k * k * b
    have hp : 0 < k * L.sqrt (V3.normSq n) := mul_pos hk (lt_of_le_of_ne nb (Ne.symm hr))
    rcases mul_eq_zero.1 hz with h | h
    · linarith
    · linarith
  have hu : scale (V3.smul k n) (L.sqrt (V3.normSq (V3.smul k n))) = scale n (L.sqrt (V3.normSq n)) := by
    rw [hs]
    have hk' : k ≠ 0 := hk.ne'
    ext <;> simp only [scale, V3.smul] <;> field_simp
  refine ⟨hu, ?_⟩
  simp only [n2eCS, hu]

/-- verified checker: `checkMetric` answers true on the implementation's numbers EXACTLY when every metric clause holds
for them up to the stated slack: all six distances in [0, 180], symmetry, triangle inequality, left and right invariance -/
theorem checkMetric_sound (o : MetricObs α) :
    checkMetric o = (true, true, true, true, true) ↔
    ((0 ≤ o.dab ∧ o.dab ≤ 180) ∧ (0 ≤ o.dba ∧ o.dba ≤ 180) ∧ (0 ≤ o.dac ∧ o.dac ≤ 180) ∧ (0 ≤ o.dbc ∧ o.dbc ≤ 180)
      ∧ (0 ≤ o.dl ∧ o.dl ≤ 180) ∧ (0 ≤ o.dr ∧ o.dr ≤ 180))
    ∧ |o.dab - o.dba| ≤ o.tol ∧ o.dac ≤ o.dab + o.dbc + o.tol ∧ |o.dl - o.dab| ≤ o.tol ∧ |o.dr - o.dab| ≤ o.tol := by
  simp only [checkMetric, inRange, near, Prod.mk.injEq, Bool.and_eq_true, decide_eq_true_eq, abs_le]
  constructor
  · rintro ⟨⟨⟨⟨⟨⟨a, b⟩, c⟩, d⟩, e⟩, f⟩, s, t, l, r⟩
    exact ⟨⟨a, b, c, d, e, f⟩, ⟨by linarith [s.2], s.1⟩, t, ⟨by linarith [l.2], l.1⟩, ⟨by linarith [r.2], r.1⟩⟩
  · rintro ⟨⟨a, b, c, d, e, f⟩, s, t, l, r⟩
    exact ⟨⟨⟨⟨⟨⟨a, b⟩, c⟩, d⟩, e⟩, f⟩, ⟨s.2, by linarith [s.1]⟩, t, ⟨l.2, by linarith [l.1]⟩, ⟨r.2, by linarith [r.1]⟩⟩

/-- each component of the checker's answer decides its own clause (what `judge` reads off the driver's reply) -/
theorem checkMetric_components (o : MetricObs α) :
    ((checkMetric o).1 = true ↔ ((0 ≤ o.dab ∧ o.dab ≤ 180) ∧ (0 ≤ o.dba ∧ o.dba ≤ 180) ∧ (0 ≤ o.dac ∧ o.dac ≤ 180)
        ∧ (0 ≤ o.dbc ∧ o.dbc ≤ 180) ∧ (0 ≤ o.dl ∧ o.dl ≤ 180) ∧ (0 ≤ o.dr ∧ o.dr ≤ 180)))
    ∧ ((checkMetric o).2.1 = true ↔ |o.dab - o.dba| ≤ o.tol)
    ∧ ((checkMetric o).2.2.1 = true ↔ o.dac ≤ o.dab + o.dbc + o.tol)
    ∧ ((checkMetric o).2.2.2.1 = true ↔ |o.dl - o.dab| ≤ o.tol)
    ∧ ((checkMetric o).2.2.2.2 = true ↔ |o.dr - o.dab| ≤ o.tol) := by
  simp only [checkMetric, inRange, near, Bool.and_eq_true, decide_eq_true_eq, abs_le]
  refine ⟨⟨?_, ?_⟩, ⟨?_, ?_⟩, trivial, ⟨?_, ?_⟩, ⟨?_, ?_⟩⟩
  · rintro ⟨⟨⟨⟨⟨a, b⟩, c⟩, d⟩, e⟩, f⟩; exact ⟨a, b, c, d, e, f⟩
  · rintro ⟨a, b, c, d, e, f⟩; exact ⟨⟨⟨⟨⟨a, b⟩, c⟩, d⟩, e⟩, f⟩
  · rintro ⟨s1, s2⟩; exact ⟨by linarith, s1⟩
  · rintro ⟨s1, s2⟩; exact ⟨s2, by linarith⟩
  · rintro ⟨s1, s2⟩; exact ⟨by linarith, s1⟩
  · rintro ⟨s1, s2⟩; exact ⟨s2, by linarith⟩
  · rintro ⟨s1, s2⟩; exact ⟨by linarith, s1⟩
  · rintro ⟨s1, s2⟩; exact ⟨s2, by linarith⟩
end field


/-! ### the same over ℝ with the real `sqrt`, `atan2`, π (no abstract hypotheses left) -/
section real2

/-- with real angles: the quaternion the driver builds from the HALF angles (`cos(φ/2)`, `sin(φ/2)`, …)
is a unit quaternion whose rotation matrix is `Rz(ψ)·Rx(θ)·Rz(φ)`, scipy's extrinsic "zxz" -/
theorem toM3_qzxz_real (φ θ ψ : ℝ) :
    qnormSq (qzxz (cos (φ/2)) (sin (φ/2)) (cos (θ/2)) (sin (θ/2)) (cos (ψ/2)) (sin (ψ/2))) = 1 ∧
    toM3 (qzxz (cos (φ/2)) (sin (φ/2)) (cos (θ/2)) (sin (θ/2)) (cos (ψ/2)) (sin (ψ/2)))
      = zxz (cos φ) (sin φ) (cos θ) (sin θ) (cos ψ) (sin ψ) :=
  Export.toM3_qzxz_real φ θ ψ

/-- `Real.sqrt` meets the square-root assumptions of the theorems above -/
theorem real_sqrtSpec (at2 : ℝ → ℝ → ℝ) : SqrtSpec (realLibm at2) := realLibm_sqrtSpec at2

/-- the angles (θ, ψ) in degrees that `normals_to_euler_angles` computes through `atan2` have exactly the
cosines and sines of `n2eCS`; so by `n2e_zaxis` the z-axis of `zxz φ θ ψ` is `n/|n|` for every φ -/
theorem n2eAngles_cos_sin (n : V3 ℝ) (hn : V3.normSq n ≠ 0) :
    let a := n2eAngles (realLibm atan2R) n
    let r := n2eCS (realLibm atan2R) n
    cos (a.1 * (π / 180)) = r.1 ∧ sin (a.1 * (π / 180)) = r.2.1 ∧
    cos (a.2 * (π / 180)) = r.2.2.1 ∧ sin (a.2 * (π / 180)) = r.2.2.2 := by
  intro a r
  have hL := realLibm_sqrtSpec atan2R
  have hu : V3.normSq (scale n ((realLibm atan2R).sqrt (V3.normSq n))) = 1 :=
    normSq_scale n _ (hL.mul_self _ (V3.normSq_nonneg n)) hn
  have hpi : π ≠ 0 := pi_ne_zero
  have conv : ∀ t : ℝ, t * (180 / π) * (π / 180) = t := fun t => by field_simp
  simp only [a, r, n2eAngles, n2eCS]
  generalize scale n ((realLibm atan2R).sqrt (V3.normSq n)) = u at hu
  simp only [realLibm]
  simp only [V3.normSq, V3.dot] at hu
  have hrho0 : 0 ≤ u.x * u.x + u.y * u.y := by nlinarith [mul_self_nonneg u.x, mul_self_nonneg u.y]
  have hrr : sqrt (u.x * u.x + u.y * u.y) * sqrt (u.x * u.x + u.y * u.y) = u.x * u.x + u.y * u.y :=
    Real.mul_self_sqrt hrho0
  have hone : u.z * u.z + sqrt (u.x * u.x + u.y * u.y) * sqrt (u.x * u.x + u.y * u.y) = 1 := by
    rw [hrr]; linarith
  have hth1 : cos (atan2R (sqrt (u.x * u.x + u.y * u.y)) u.z) = u.z := by
    rw [cos_atan2R _ _ (by rw [hone]; norm_num), hone, Real.sqrt_one, div_one]
  have hth2 : sin (atan2R (sqrt (u.x * u.x + u.y * u.y)) u.z) = sqrt (u.x * u.x + u.y * u.y) := by
    rw [sin_atan2R, hone, Real.sqrt_one, div_one]
  by_cases hxy : u.x = 0 ∧ u.y = 0
  · have hb : (u.x == 0 && u.y == 0) = true := by simp [hxy.1, hxy.2]
    simp only [hb, if_true, conv, hth1, hth2, zero_mul, cos_zero, sin_zero, and_self]
  · have hb : (u.x == 0 && u.y == 0) = false := by simpa using hxy
    have hpos : u.x * u.x + u.y * u.y ≠ 0 := by
      intro e
      apply hxy
      constructor <;> nlinarith [mul_self_nonneg u.x, mul_self_nonneg u.y]
    have e90 : (90 + atan2R u.y u.x * (180 / π)) * (π / 180) = atan2R u.y u.x + π / 2 := by
      field_simp; ring
    simp only [hb, Bool.false_eq_true, if_false, conv, hth1, hth2, true_and]
    refine ⟨?_, ?_⟩
    · rw [e90, cos_add_pi_div_two, sin_atan2R]
    · rw [e90, sin_add_pi_div_two, cos_atan2R _ _ hpos]

/-- **Regression witness (defect D07).** With the override "ψ := 0 whenever `atan2(y, x) = 0`" of the
pinned commit the normal (1, 0, 0) is sent to angles whose z-axis is (0, −1, 0). -/
theorem n2e_asis_counterexample :
    let r := n2eCSAsIs (realLibm atan2R) ⟨1, 0, 0⟩
    zaxisOfEuler 1 0 r.1 r.2.1 r.2.2.1 r.2.2.2 = ⟨0, -1, 0⟩ ∧
    zaxisOfEuler 1 0 r.1 r.2.1 r.2.2.1 r.2.2.2 ≠ scale ⟨1, 0, 0⟩ ((realLibm atan2R).sqrt (V3.normSq ⟨1, 0, 0⟩)) := by
  intro r
  have hr : r = (0, 1, 1, 0) := by
    simp [r, n2eCSAsIs, realLibm, scale, V3.normSq, V3.dot, atan2R_zero_one]
  rw [hr, zaxisOfEuler_eq]
  refine ⟨by ext <;> simp, fun h => ?_⟩
  have := congrArg V3.x h
  simp [realLibm, scale, V3.normSq, V3.dot] at this
end real2

/-! ### the regenerated row-level formulas ARE the formulas of the theorems above

`Gen.C06.angExpr`, `dist2Expr`, `n2eThetaExpr`, `n2ePsiExpr` and the two normalisation modes are what the translator extracted from the
current source; the driver evaluates them (`evalE`, `normaliseBy`, `n2eBatchE`) at `Float`. The theorems below evaluate the SAME terms over ℝ
and obtain the definitions every metric / normal theorem of this file is about — so those theorems are statements about what the code
computes now, not about a hand-written copy. -/
section translated
variable (at2 : ℝ → ℝ → ℝ)

/-- `angular_distance(...)[0]` as regenerated = `angDist` (range, symmetry, zero ⇔ equal, invariance, triangle, rotation angle) -/
theorem angDistE_eq (p q : Q4 ℝ) :
    angDistE Gen.C06.angExpr (realLibm at2) (fun n => (n : ℝ)) p q = angDist (realLibm at2) p q := by
  simp [angDistE, evalE, Gen.C06.angExpr, angDist, angDistRad, absDot, absv, toDeg]

/-- `angular_distance(...)[1]` as regenerated = `1 − (q1·q2)²`, set to 0 below 1e-7 -/
theorem dist2E_eq (p q : Q4 ℝ) :
    angDistE Gen.C06.dist2Expr (realLibm at2) (fun n => (n : ℝ)) p q
      = if dist2 p q < 1 / 10000000 then 0 else dist2 p q := by
  simp [angDistE, evalE, Gen.C06.dist2Expr, dist2]

/-- the regenerated normalisation mode of `euler_angles_to_normals` (and of `normals_to_euler_angles`) is the row-wise one, for any
number type: `normals_one_per_orientation`, `normals_rowwise_unit`, `normals_rowwise_is_zaxis` are about what the code does -/
theorem normaliseBy_row {β : Type} [Add β] [Mul β] [Div β] [OfNat β 0] (L : Libm β) (pts : List (V3 β)) :
    normaliseBy Gen.C06.normalsNormMode L pts = normalsRowwise L pts
    ∧ normaliseBy Gen.C06.n2eNormMode L pts = normalsRowwise L pts := ⟨rfl, rfl⟩

/-- `normals_to_euler_angles` as regenerated (row-wise normalisation, θ and ψ formulas) = `n2eAngles` on every row of a batch of
ANY size: `n2eAngles_cos_sin` + `n2e_zaxis` are about what the code computes -/
theorem n2eBatchE_eq (ns : List (V3 ℝ)) :
    n2eBatchE Gen.C06.n2eThetaExpr Gen.C06.n2ePsiExpr Gen.C06.n2eNormMode (realLibm atan2R) (fun n => (n : ℝ)) ns
      = ns.map (n2eAngles (realLibm atan2R)) := by
  have hm : normaliseBy Gen.C06.n2eNormMode (realLibm atan2R) ns = normalsRowwise (realLibm atan2R) ns := rfl
  simp only [n2eBatchE, hm, normalsRowwise, List.map_map]
  apply List.map_congr_left
  intro n _
  simp only [Function.comp, evalE, Gen.C06.n2eThetaExpr, Gen.C06.n2ePsiExpr, n2eEnv, n2eAngles]
  generalize scale n ((realLibm atan2R).sqrt (V3.normSq n)) = u
  cases h1 : (u.x == (0 : ℝ)) <;> cases h2 : (u.y == (0 : ℝ)) <;> simp [h1, h2]

/-- the regenerated input dispatch of `angular_distance`, for EVERY python type name: an ndarray is converted with
`from_euler(convention, ·, degrees)`, every other type falls into the `else` branch and is used as it is (both arguments alike) -/
theorem inputConversion_spec (t : String) :
    Gen.C06.angInputs.length = 2
    ∧ ∀ tb ∈ Gen.C06.angInputs,
        inputConversion tb "np.ndarray" = some "srot.from_euler(convention, <arg>, degrees=degrees)"
        ∧ (t ≠ "np.ndarray" → inputConversion tb t = some "<arg>") := by
  refine ⟨rfl, ?_⟩
  intro tb htb
  simp only [Gen.C06.angInputs, List.mem_cons, List.not_mem_nil, or_false, or_self] at htb
  subst htb
  refine ⟨rfl, fun h => ?_⟩
  have e : ("np.ndarray" == t) = false := by simpa using Ne.symm h
  by_cases hs : t = "*"
  · subst hs; rfl
  · have e2 : ("*" == t) = false := by simpa using Ne.symm hs
    simp only [inputConversion, List.find?, e, e2]
    rfl
end translated

/-! ### known finding C06-K1, witnessed on the model at binary64 (kernel arithmetic on `Float`: `decide +kernel`)

`normals_to_euler_angles` — code and model alike — first forms `x² + y² + z²`. For n = (1,2,2)·1e160 that sum is `+inf` in binary64, and
every component divided by an infinite norm is 0: the direction is lost (θ = ψ = 0, the z-axis, instead of (1/3, 2/3, 2/3)). For
n = (1,2,2)·1e-170 the sum underflows to 0 and the quotient is infinite. (`Float.sqrt` is opaque to the kernel; IEEE `sqrt(+inf) = +inf`
and `sqrt(0) = 0`, so dividing by the squared length itself shows the same quotients.) Over an ordered field neither happens:
`n2e_scale_invariant`. -/

theorem n2e_k1_overflow_witness :
    let n : V3 Float := ⟨Float.ofNat (10 ^ 160), 2 * Float.ofNat (10 ^ 160), 2 * Float.ofNat (10 ^ 160)⟩
    (V3.normSq n).isInf = true
    ∧ ((scale n (V3.normSq n)).x == 0 && (scale n (V3.normSq n)).y == 0 && (scale n (V3.normSq n)).z == 0) = true := by
  decide +kernel

theorem n2e_k1_underflow_witness :
    let t : Float := Float.ofNat 1 / Float.ofNat (10 ^ 170)
    let n : V3 Float := ⟨t, 2 * t, 2 * t⟩
    (t == 0) = false ∧ (V3.normSq n == 0) = true ∧ (scale n (V3.normSq n)).z.isInf = true := by
  decide +kernel

/-! ### non-vacuity: the hypotheses of the theorems above are met by concrete non-trivial inputs -/

/-- a non-trivial unit quaternion (the zxz quaternion of half-angle pairs (3/5,4/5), (5/13,12/13), (0,1)) -/
example : qnormSq (qzxz (3/5) (4/5) (5/13) (12/13) 0 1 : Q4 ℝ) = 1 :=
  qnormSq_qzxz _ _ _ _ _ _ (by norm_num) (by norm_num) (by norm_num)
/-- two different rotations at non-zero distance: hypotheses of `angDist_eq_zero_iff` with a false right side -/
example : toM3 (qz (3/5) (4/5) : Q4 ℝ) ≠ toM3 (qz 1 0) := by
  intro h; have := congrArg M3.a11 h; simp [toM3, qz] at this; norm_num at this
example : qnormSq (qz (3/5) (4/5) : Q4 ℝ) = 1 ∧ qnormSq (qx (5/13) (12/13) : Q4 ℝ) = 1 := by
  constructor <;> simp [qnormSq, qdot, qz, qx] <;> norm_num
/-- orthogonal matrices for the cone theorems -/
example : (zxz (3/5) (4/5) (5/13) (12/13) 0 1 : M3 ℝ).Orth :=
  zxz_orth _ _ _ _ _ _ (by norm_num) (by norm_num) (by norm_num)
/-- in-plane range hypotheses -/
example : inplane (1/100000000000 : ℚ) 170 (-170) = 20 := by
  simp only [inplane, snap, absv_eq_abs]; norm_num [abs_of_nonneg, abs_of_nonpos]
/-- a batch of two unit rows (hypotheses of `normals_asis_not_unit`, `normals_rowwise_unit`) -/
example : ∀ p ∈ [(⟨0, 0, 1⟩ : V3 ℝ), ⟨3/5, 4/5, 0⟩], V3.normSq p = 1 := by
  intro p hp; simp at hp; rcases hp with rfl | rfl <;> simp [V3.normSq, V3.dot] <;> norm_num
/-- a normal for `n2e_zaxis` / `n2eAngles_cos_sin` in the repaired half-plane y = 0 < x -/
example : V3.normSq (⟨2, 0, 0⟩ : V3 ℝ) ≠ 0 := by simp [V3.normSq, V3.dot]
/-- the checker accepts a concrete observation -/
example : checkMetric ({ dab := 30, dba := 30, dac := 50, dbc := 40, dl := 30, dr := 30, tol := 0 } : MetricObs ℚ)
    = (true, true, true, true, true) := by
  simp only [checkMetric, inRange, near]; norm_num

/-- an unsupported `rotation_type` (hypothesis of `compareRotations_unsupported`) -/
example : "inplane_distance" ∉ ["all", "angular_distance", "cone_distance", "in_plane_distance"] := by decide
/-- `inplane_le_of_close`: first Euler angles 1e-10 apart, tol = 1e-11 -/
example : |(30 : ℚ) - (30 + 1/10000000000)| ≤ 1/10000000000 ∧ (1/10000000000 : ℚ) + 2 * (1/100000000000) ≤ 180 := by
  constructor
  · rw [abs_le]; constructor <;> norm_num
  · norm_num
/-- `n2e_scale_invariant` / `normals_one_per_orientation`: a normal of non-zero length and a positive factor (1e160 as a rational) -/
example : V3.normSq (⟨1, 2, 2⟩ : V3 ℝ) ≠ 0 ∧ (0 : ℝ) < 10 ^ 160 := by
  constructor
  · simp [V3.normSq, V3.dot]; norm_num
  · positivity
/-- `angDistBatch_spec`: batches of different size -/
example : ([qz (1 : ℝ) 0, qz 1 0] : List (Q4 ℝ)).length ≠ ([qz 1 0] : List (Q4 ℝ)).length := by decide
/-- `absDot_clamp` is not vacuous where it matters: a "unit" quaternion whose rounded dot product exceeds 1 is clamped to 1 -/
example : absDot (⟨0, 0, 0, 1 + 1/4503599627370496⟩ : Q4 ℚ) ⟨0, 0, 0, 1⟩ = 1 := by
  simp only [absDot, absv, qdot]; norm_num

end CryoCat.C06
