import CryoCat.Model.C06
import CryoCat.Lemmas.C06
import CryoCat.Lemmas.C06_Real
import CryoCat.Lemmas.C06_Geom
import CryoCat.Lemmas.C06_Atan2
/-! C06 — property theorems: rotation geometry primitives agree with SO(3) ground truth.
Only theorems and non-vacuity examples; helper lemmas live in `Lemmas/C06*.lean`. -/
namespace CryoCat.C06
open Real

/-! ### translator obligations: the anchored source expressions are the documented ones -/

theorem anchors_ok : Gen.C06.anchorsOk = true := by decide

/-- `angular_distance`: `2·arccos(min(|q1·q2|, 1))` in degrees, on `as_quat()` of both rotations -/
theorem ang_expr_documented :
    Gen.C06.angExpr = "np.degrees(2*np.arccos(np.minimum(np.abs(np.sum(q1*q2,axis=1)),1.0)))"
    ∧ Gen.C06.quatExprs = ["np.array(rot1.as_quat(),ndmin=2)", "np.array(rot2.as_quat(),ndmin=2)"]
    ∧ Gen.C06.dist2Expr = "1-np.power(np.sum(q1*q2,1),2)" := by decide

/-- `cone_distance`: normalised images of (0,0,1), clamped dot product, arccos in degrees -/
theorem cone_expr_documented :
    Gen.C06.coneExpr = "np.degrees(np.arccos(np.maximum(np.minimum(np.sum(vec1*vec2,axis=1),1.0),-1.0)))"
    ∧ Gen.C06.conePoint = "[0,0,1.0]"
    ∧ Gen.C06.coneVec1 = ["np.array(input_rot1.apply(point),ndmin=2)", "vec1/vec1_n[:,np.newaxis]", "np.linalg.norm(vec1,axis=1)"]
    ∧ Gen.C06.coneVec2 = ["np.array(input_rot2.apply(point),ndmin=2)", "vec2/vec2_n[:,np.newaxis]", "np.linalg.norm(vec2,axis=1)"] := by decide

/-- `inplane_distance`: first Euler angle, snapped below `ANGLE_DEGREES_TOL = 1e-11`, shifted by 180,
absolute difference folded at 180 -/
theorem inplane_expr_documented :
    Gen.C06.inplaneExprs = ["np.abs(phi1-phi2)", "np.where(inplane_angle>180.0,np.abs(inplane_angle-360.0),inplane_angle)"]
    ∧ Gen.C06.inplanePhi = ["np.array(input_rot1.as_euler(convention,degrees=degrees),ndmin=2)[:,0]",
        "np.where(abs(phi1)<ANGLE_DEGREES_TOL,0.0,phi1)", "Add:180.0",
        "np.array(input_rot2.as_euler(convention,degrees=degrees),ndmin=2)[:,0]",
        "np.where(abs(phi2)<ANGLE_DEGREES_TOL,0.0,phi2)", "Add:180.0"]
    ∧ Gen.C06.angleTolNum = 1 ∧ Gen.C06.angleTolDen = 100000000000 := by decide

/-- `euler_angles_to_normals` divides every row by ITS OWN norm (`axis=1, keepdims=True`) -/
theorem normals_expr_documented :
    Gen.C06.normalsExprs = ["visualize_angles(angles,plot_rotations=False)",
      "np.linalg.norm(points,axis=1,keepdims=True)", "points/n_length"]
    ∧ Gen.C06.visExprs = ["np.array([0.0,0.0,radius])", "np.array(rotations.apply(starting_point),ndmin=2)",
      "srot.from_euler('zxz',angles=angles,degrees=True)", "visualize_rotations(rotations,plot_rotations,color_map)"] := by decide

/-- `normals_to_euler_angles`: θ = atan2(ρ, z), ψ = 90° + atan2(y, x), ψ := 0 only for x = y = 0 -/
theorem n2e_expr_documented :
    Gen.C06.n2eExprs = ["normals/np.linalg.norm(normals,axis=1)[:,np.newaxis]",
      "np.degrees(np.arctan2(np.sqrt(normals[:,0]**2+normals[:,1]**2),normals[:,2]))",
      "90+np.degrees(np.arctan2(normals[:,1],normals[:,0]))",
      "np.where((normals[:,0]==0)&(normals[:,1]==0))", "0"] := by decide

/-- `compare_rotations` / `cone_inplane_distance` only forward to the three primitives -/
theorem compare_expr_documented :
    Gen.C06.compareExprs = ["angular_distance(angles1,angles2,c_symmetry=c_symmetry)[0]",
      "cone_inplane_distance(angles1,angles2,c_symmetry=c_symmetry)", "cone_distance(rot1,rot2)",
      "inplane_distance(rot1,rot2,convention,degrees,c_symmetry)"]
    ∧ Gen.C06.returnExprs = ["(dist_degrees,dist_degrees_normals,dist_degrees_inplane)",
      "np.column_stack((phi,psi,theta))", "np.column_stack((phi,theta,psi))"] := by decide

/-! ### quaternion algebra (any commutative ring): what the distance is a function of -/
section ring
variable {α : Type} [CommRing α]

theorem qdot_comm (p q : Q4 α) : qdot p q = qdot q p := qdot_comm' p q

/-- composing both orientations with a common rotation `g` on the left scales the dot product by `‖g‖²` -/
theorem qdot_mul_left (g p q : Q4 α) : qdot (g * p) (g * q) = qnormSq g * qdot p q := qdot_mul_left' g p q

theorem qdot_mul_right (g p q : Q4 α) : qdot (p * g) (q * g) = qdot p q * qnormSq g := qdot_mul_right' g p q

/-- the quaternion product is the matrix product: `p * q` of the model is the rotation "first q, then p" -/
theorem toM3_mul (p q : Q4 α) : toM3 (p * q) = toM3 p * toM3 q := toM3_mul' p q

/-- a unit quaternion gives an orthogonal matrix -/
theorem toM3_orth (q : Q4 α) (h : qnormSq q = 1) : (toM3 q).Orth := toM3_orth' q h

/-- the quaternion the driver builds from the Euler half angles is a unit quaternion whose matrix is
the shared `zxz` Euler matrix `Rz(ψ)·Rx(θ)·Rz(φ)` of the full angles -/
theorem toM3_qzxz (cp sp ct st cs ss : α) (hp : cp*cp + sp*sp = 1) (ht : ct*ct + st*st = 1) (hs : cs*cs + ss*ss = 1) :
    qnormSq (qzxz cp sp ct st cs ss) = 1 ∧
    toM3 (qzxz cp sp ct st cs ss)
      = zxz (cp*cp - sp*sp) (2*cp*sp) (ct*ct - st*st) (2*ct*st) (cs*cs - ss*ss) (2*cs*ss) :=
  ⟨qnormSq_qzxz cp sp ct st cs ss hp ht hs, toM3_qzxz' cp sp ct st cs ss hp ht hs⟩

/-- trace of the relative rotation `R_pᵀ·R_q` of two unit quaternions is `4(p·q)² − 1`, i.e.
`1 + 2·cos(angle)` with `cos(angle) = 2(p·q)² − 1` -/
theorem trace_rel (p q : Q4 α) (hp : qnormSq p = 1) (hq : qnormSq q = 1) :
    M3.trace ((toM3 p).transpose * toM3 q) = 4 * (qdot p q * qdot p q) - 1 := by
  rw [trace_rel', hp, hq]; ring
end ring

/-- two unit quaternions describe the same rotation iff they are equal up to sign, iff `(p·q)² = 1`
(any ordered field) -/
theorem toM3_eq_iff {α : Type} [Field α] [LinearOrder α] [IsStrictOrderedRing α] (p q : Q4 α)
    (hp : qnormSq p = 1) (hq : qnormSq q = 1) :
    (toM3 p = toM3 q ↔ (q = p ∨ q = qneg p)) ∧ (toM3 p = toM3 q ↔ qdot p q * qdot p q = 1) :=
  ⟨toM3_eq_iff' p q hp hq, toM3_eq_iff_dot p q hp hq⟩

/-! ### the angular distance over ℝ (`Real.arccos`), for ALL pairs / triples of unit quaternions -/
section real
variable (at2 : ℝ → ℝ → ℝ)

/-- it lies in [0, 180] degrees (for any two quaternions, unit or not) -/
theorem angDist_range (p q : Q4 ℝ) : 0 ≤ angDist (realLibm at2) p q ∧ angDist (realLibm at2) p q ≤ 180 := by
  obtain ⟨h0, h1⟩ := angDistRad_range at2 p q
  simp only [angDist, toDeg_real]
  exact ⟨mul_nonneg h0 (by positivity), deg_le _ h1⟩

/-- it is symmetric -/
theorem angDist_symm (p q : Q4 ℝ) : angDist (realLibm at2) p q = angDist (realLibm at2) q p := by
  simp only [angDist, angDistRad, absDot, qdot_comm' p q]

/-- it is zero exactly for equal rotations -/
theorem angDist_eq_zero_iff (p q : Q4 ℝ) (hp : qnormSq p = 1) (hq : qnormSq q = 1) :
    angDist (realLibm at2) p q = 0 ↔ toM3 p = toM3 q := by
  rw [toM3_eq_iff_dot p q hp hq]
  simp only [angDist, angDistRad]
  rw [toDeg_real, deg_eq_zero]
  simp only [realLibm]
  have hle := qdot_sq_le_one p q hp hq
  have : (2 * arccos (absDot p q) = 0) ↔ 1 ≤ absDot p q := by
    rw [← arccos_eq_zero]; constructor <;> intro h <;> linarith
  rw [this]
  simp only [absDot, absv_eq_abs]
  constructor
  · intro h
    have h1 : 1 ≤ |qdot p q| := (le_min_iff.1 h).1
    have : 1 ≤ |qdot p q| * |qdot p q| := by nlinarith
    rw [abs_mul_abs_self] at this
    linarith
  · intro h
    apply le_min _ le_rfl
    have : |qdot p q| * |qdot p q| = 1 := by rw [abs_mul_abs_self]; exact h
    nlinarith [abs_nonneg (qdot p q)]

/-- it is unchanged when both orientations are composed with a common rotation on the left … -/
theorem angDist_left_invariant (g p q : Q4 ℝ) (hg : qnormSq g = 1) :
    angDist (realLibm at2) (g * p) (g * q) = angDist (realLibm at2) p q := by
  simp only [angDist, angDistRad, absDot, qdot_mul_left', hg, one_mul]

/-- … and on the right -/
theorem angDist_right_invariant (g p q : Q4 ℝ) (hg : qnormSq g = 1) :
    angDist (realLibm at2) (p * g) (q * g) = angDist (realLibm at2) p q := by
  simp only [angDist, angDistRad, absDot, qdot_mul_right', hg, mul_one]

/-- it obeys the triangle inequality -/
theorem angDist_triangle (a b c : Q4 ℝ) (ha : qnormSq a = 1) (hb : qnormSq b = 1) (hc : qnormSq c = 1) :
    angDist (realLibm at2) a c ≤ angDist (realLibm at2) a b + angDist (realLibm at2) b c := by
  simp only [angDist, toDeg_real, angDistRad_eq_hd]
  have h := hd_triangle (vec a) (vec b) (vec c) (norm_vec a ha) (norm_vec b hb) (norm_vec c hc)
  have hk : (0 : ℝ) ≤ 180 / π := by positivity
  nlinarith

/-- it equals the rotation angle of the relative rotation `R_pᵀ·R_q`: the angle in [0, π] whose
cosine is `(trace − 1)/2` -/
theorem angDist_is_rotation_angle (p q : Q4 ℝ) (hp : qnormSq p = 1) (hq : qnormSq q = 1) :
    angDistRad (realLibm at2) p q = arccos ((M3.trace ((toM3 p).transpose * toM3 q) - 1) / 2) := by
  rw [trace_rel p q hp hq]
  obtain ⟨h0, h1⟩ := absDot_mem p q
  have hle := qdot_sq_le_one p q hp hq
  have habs : absDot p q = |qdot p q| := by
    simp only [absDot, absv_eq_abs]
    apply min_eq_left
    have : |qdot p q| * |qdot p q| ≤ 1 := by rw [abs_mul_abs_self]; exact hle
    nlinarith [abs_nonneg (qdot p q)]
  simp only [angDistRad, realLibm]
  rw [two_arccos _ h0 h1, habs, abs_mul_abs_self]
  congr 1; ring

/-- over the reals the clamp is invisible (`Real.arccos` is constant 0 above 1): the unclamped
expression of the pinned commit differs from the repaired one only in floating point, where
`arccos(1 + 2⁻⁵²)` is NaN (witness input in `corpus/C06/`) -/
theorem angDistAsIs_eq (p q : Q4 ℝ) : angDistAsIs (realLibm at2) p q = angDist (realLibm at2) p q := by
  simp only [angDistAsIs, angDist, angDistRad, absDot, realLibm, arccos_min_one]
end real


/-! ### cone distance -/
section cone
variable (at2 : ℝ → ℝ → ℝ)

/-- for rotations (orthogonal matrices) the normalisation and the clamp are the identity: the cosine
the code feeds to `arccos` is the dot product of the two z-axis images -/
theorem coneCos_eq_dot (m1 m2 : M3 ℝ) (h1 : m1.Orth) (h2 : m2.Orth) :
    coneCos (realLibm at2) m1 m2 = V3.dot (m1.apply ⟨0, 0, 1⟩) (m2.apply ⟨0, 0, 1⟩) := by
  have e : V3.normSq (⟨0, 0, 1⟩ : V3 ℝ) = 1 := by simp [V3.normSq, V3.dot]
  have n1 : V3.normSq (m1.apply ⟨0, 0, 1⟩) = 1 := by rw [h1.normSq_apply, e]
  have n2 : V3.normSq (m2.apply ⟨0, 0, 1⟩) = 1 := by rw [h2.normSq_apply, e]
  have hcs := dot_sq_le (m1.apply ⟨0, 0, 1⟩) (m2.apply ⟨0, 0, 1⟩)
  rw [n1, n2] at hcs
  simp only [coneCos, realLibm, n1, n2, Real.sqrt_one, div_one]
  have hb : |V3.dot (m1.apply ⟨0, 0, 1⟩) (m2.apply ⟨0, 0, 1⟩)| ≤ 1 := by
    apply abs_le_one_iff_mul_self_le_one.2; linarith
  obtain ⟨lo, hi⟩ := abs_le.1 hb
  rw [min_eq_left hi, max_eq_left lo]

/-- **the cone distance equals the angle between the two z-axes** (`InnerProductGeometry.angle` in
Euclidean 3-space), in degrees -/
theorem coneDist_eq_angle (m1 m2 : M3 ℝ) (h1 : m1.Orth) (h2 : m2.Orth) :
    coneDist (realLibm at2) m1 m2
      = InnerProductGeometry.angle (vec3 (m1.apply ⟨0, 0, 1⟩)) (vec3 (m2.apply ⟨0, 0, 1⟩)) * (180 / π) := by
  have e : V3.normSq (⟨0, 0, 1⟩ : V3 ℝ) = 1 := by simp [V3.normSq, V3.dot]
  have n1 : V3.normSq (m1.apply ⟨0, 0, 1⟩) = 1 := by rw [h1.normSq_apply, e]
  have n2 : V3.normSq (m2.apply ⟨0, 0, 1⟩) = 1 := by rw [h2.normSq_apply, e]
  simp only [coneDist, toDeg_real, coneCos_eq_dot at2 m1 m2 h1 h2]
  rw [angle_vec3 _ _ n1 n2]; rfl

/-- it lies in [0, 180] degrees -/
theorem coneDist_range (m1 m2 : M3 ℝ) : 0 ≤ coneDist (realLibm at2) m1 m2 ∧ coneDist (realLibm at2) m1 m2 ≤ 180 := by
  simp only [coneDist, toDeg_real]
  exact ⟨mul_nonneg (arccos_nonneg _) (by positivity), deg_le _ (arccos_le_pi _)⟩
end cone

/-! ### in-plane distance, batches of normals, normals → Euler angles (any ordered field) -/
section field
variable {α : Type} [Field α] [LinearOrder α] [IsStrictOrderedRing α]

/-- the in-plane distance of two first Euler angles in [-180, 180] lies in [0, 180] -/
theorem inplane_range (tol p1 p2 : α) (h1 : -180 ≤ p1 ∧ p1 ≤ 180) (h2 : -180 ≤ p2 ∧ p2 ≤ 180) :
    0 ≤ inplane tol p1 p2 ∧ inplane tol p1 p2 ≤ 180 := by
  have s1 : -180 ≤ snap tol p1 ∧ snap tol p1 ≤ 180 := by
    unfold snap; split <;> [constructor <;> norm_num; exact h1]
  have s2 : -180 ≤ snap tol p2 ∧ snap tol p2 ≤ 180 := by
    unfold snap; split <;> [constructor <;> norm_num; exact h2]
  simp only [inplane, absv_eq_abs]
  have hb : |snap tol p1 + 180 - (snap tol p2 + 180)| ≤ 360 := by
    rw [abs_le]; constructor <;> linarith [s1.1, s1.2, s2.1, s2.2]
  split
  · rename_i h
    rw [abs_of_nonpos (by linarith)]
    constructor <;> linarith
  · rename_i h
    exact ⟨abs_nonneg _, not_lt.1 h⟩

/-- … and vanishes for equal orientations (equal first Euler angles) -/
theorem inplane_self (tol p : α) : inplane tol p p = 0 := by
  simp only [inplane, absv_eq_abs, sub_self, abs_zero]
  rw [if_neg (by norm_num)]

theorem inplane_symm (tol p1 p2 : α) : inplane tol p1 p2 = inplane tol p2 p1 := by
  simp only [inplane, absv_eq_abs]
  rw [abs_sub_comm]

/-- one output row per orientation -/
theorem normals_one_per_orientation (L : Libm α) (pts : List (V3 α)) :
    (normalsRowwise L pts).length = pts.length := by
  simp [normalsRowwise]

/-- every returned row is a unit vector, for batches of ANY size -/
theorem normals_rowwise_unit (L : Libm α) (hL : SqrtSpec L) (pts : List (V3 α))
    (h : ∀ p ∈ pts, V3.normSq p ≠ 0) : ∀ v ∈ normalsRowwise L pts, V3.normSq v = 1 := by
  intro v hv
  simp only [normalsRowwise, List.mem_map] at hv
  obtain ⟨p, hp, rfl⟩ := hv
  exact normSq_scale p _ (hL.mul_self _ (V3.normSq_nonneg p)) (h p hp)

/-- the image of the z-axis under `zxz φ θ ψ` is a unit vector -/
theorem zaxis_unit (cp sp ct st cs ss : α) (ht : ct*ct + st*st = 1) (hs : cs*cs + ss*ss = 1) :
    V3.normSq (zaxisOfEuler cp sp ct st cs ss) = 1 := zaxis_normSq cp sp ct st cs ss ht hs

/-- **Euler angles → normals**: for a batch of any size the result is, row by row, exactly the image
of the z-axis (the third column of the `zxz` matrix) -/
theorem normals_rowwise_is_zaxis (L : Libm α) (hL : SqrtSpec L) (angles : List (α × α × α × α × α × α))
    (h : ∀ a ∈ angles, a.2.2.1 * a.2.2.1 + a.2.2.2.1 * a.2.2.2.1 = 1 ∧ a.2.2.2.2.1 * a.2.2.2.2.1 + a.2.2.2.2.2 * a.2.2.2.2.2 = 1) :
    normalsRowwise L (angles.map fun a => zaxisOfEuler a.1 a.2.1 a.2.2.1 a.2.2.2.1 a.2.2.2.2.1 a.2.2.2.2.2)
      = angles.map fun a => (zxz a.1 a.2.1 a.2.2.1 a.2.2.2.1 a.2.2.2.2.1 a.2.2.2.2.2).col3 := by
  simp only [normalsRowwise, List.map_map]
  apply List.map_congr_left
  intro a ha
  obtain ⟨ht, hs⟩ := h a ha
  simp only [Function.comp]
  rw [zaxis_normSq _ _ _ _ _ _ ht hs, hL.sqrt_one, scale_one, zaxisOfEuler, apply_ez]

/-- **Regression witness (defect D06).** Dividing by the Frobenius norm of the whole batch gives rows of
squared length `1/n`: not unit vectors as soon as the batch holds two orientations. -/
theorem normals_asis_not_unit (L : Libm α) (hL : SqrtSpec L) (pts : List (V3 α))
    (h : ∀ p ∈ pts, V3.normSq p = 1) (hn : 2 ≤ pts.length) :
    ∀ v ∈ normalsAsIs L pts, V3.normSq v * (pts.length : α) = 1 ∧ V3.normSq v ≠ 1 := by
  intro v hv
  simp only [normalsAsIs, List.mem_map] at hv
  obtain ⟨p, hp, rfl⟩ := hv
  rw [sum_normSq_unit pts h]
  have hpos : (0 : α) < (pts.length : α) := by exact_mod_cast (by omega : 0 < pts.length)
  have hs := hL.mul_self (pts.length : α) hpos.le
  have hne := hL.ne_zero hpos.le hpos.ne'
  have e := normSq_scale_gen p (L.sqrt (pts.length : α)) hne
  rw [hs, h p hp] at e
  refine ⟨e, fun h1 => ?_⟩
  rw [h1, one_mul] at e
  have : (2 : α) ≤ (pts.length : α) := by exact_mod_cast hn
  linarith

/-- **normals → Euler angles**: the (cos, sin) pairs of the returned θ and ψ are those of angles, and
for EVERY φ the z-axis of `zxz φ θ ψ` is the normalised input normal `n/|n|` — for normals of any
non-zero length, including the axes and the half-plane `y = 0 < x`. -/
theorem n2e_zaxis (L : Libm α) (hL : SqrtSpec L) (n : V3 α) (hn : V3.normSq n ≠ 0) (cp sp : α) :
    let r := n2eCS L n
    r.1 * r.1 + r.2.1 * r.2.1 = 1 ∧ r.2.2.1 * r.2.2.1 + r.2.2.2 * r.2.2.2 = 1 ∧
    zaxisOfEuler cp sp r.1 r.2.1 r.2.2.1 r.2.2.2 = scale n (L.sqrt (V3.normSq n)) := by
  intro r
  have hu : V3.normSq (scale n (L.sqrt (V3.normSq n))) = 1 :=
    normSq_scale n _ (hL.mul_self _ (V3.normSq_nonneg n)) hn
  generalize hudef : scale n (L.sqrt (V3.normSq n)) = u at hu
  have hrho0 : 0 ≤ u.x * u.x + u.y * u.y := by nlinarith [mul_self_nonneg u.x, mul_self_nonneg u.y]
  have hrho := hL.mul_self _ hrho0
  simp only [V3.normSq, V3.dot] at hu
  by_cases hxy : u.x = 0 ∧ u.y = 0
  · have hr : r = (u.z, L.sqrt (u.x * u.x + u.y * u.y), 1, 0) := by
      simp only [r, n2eCS, hudef]
      rw [if_pos (by simp [hxy.1, hxy.2])]
    have hz : L.sqrt (u.x * u.x + u.y * u.y) = 0 := by
      rw [hxy.1, hxy.2]; simp [hL.eq_zero]
    rw [hr, zaxisOfEuler_eq]
    simp only [hz]
    refine ⟨by rw [hxy.1, hxy.2] at hu; linear_combination hu, by ring, ?_⟩
    ext <;> simp [hxy.1, hxy.2]
  · have hr : r = (u.z, L.sqrt (u.x * u.x + u.y * u.y), -(u.y / L.sqrt (u.x * u.x + u.y * u.y)), u.x / L.sqrt (u.x * u.x + u.y * u.y)) := by
      simp only [r, n2eCS, hudef]
      rw [if_neg]
      simpa using hxy
    have hpos : u.x * u.x + u.y * u.y ≠ 0 := by
      intro e
      apply hxy
      constructor <;> nlinarith [mul_self_nonneg u.x, mul_self_nonneg u.y]
    have hne := hL.ne_zero hrho0 hpos
    rw [hr, zaxisOfEuler_eq]
    generalize L.sqrt (u.x * u.x + u.y * u.y) = rho at hrho hne
    refine ⟨by linear_combination hu + hrho, ?_, ?_⟩
    · field_simp; linear_combination -hrho
    · ext <;> simp <;> field_simp

/-- verified checker: when `checkMetric` answers true on the implementation's numbers, the metric
clauses hold for them up to the stated slack -/
theorem checkMetric_sound (o : MetricObs α) (h : checkMetric o = (true, true, true, true, true)) :
    (0 ≤ o.dab ∧ o.dab ≤ 180) ∧ (0 ≤ o.dba ∧ o.dba ≤ 180) ∧ (0 ≤ o.dac ∧ o.dac ≤ 180) ∧ (0 ≤ o.dbc ∧ o.dbc ≤ 180)
    ∧ |o.dab - o.dba| ≤ o.tol ∧ o.dac ≤ o.dab + o.dbc + o.tol ∧ |o.dl - o.dab| ≤ o.tol ∧ |o.dr - o.dab| ≤ o.tol := by
  simp only [checkMetric, inRange, near, Prod.mk.injEq, Bool.and_eq_true, decide_eq_true_eq] at h
  obtain ⟨⟨⟨⟨⟨⟨a, b⟩, c⟩, d⟩, _⟩, _⟩, s, t, l, r⟩ := h
  refine ⟨a, b, c, d, abs_le.2 ⟨by linarith [s.2], s.1⟩, t, abs_le.2 ⟨by linarith [l.2], l.1⟩, abs_le.2 ⟨by linarith [r.2], r.1⟩⟩
end field


/-! ### the same over ℝ with the real `sqrt`, `atan2`, π (no abstract hypotheses left) -/
section real2

/-- with real angles: the quaternion the driver builds from the HALF angles (`cos(φ/2)`, `sin(φ/2)`, …)
is a unit quaternion whose rotation matrix is `Rz(ψ)·Rx(θ)·Rz(φ)`, scipy's extrinsic "zxz" -/
theorem toM3_qzxz_real (φ θ ψ : ℝ) :
    qnormSq (qzxz (cos (φ/2)) (sin (φ/2)) (cos (θ/2)) (sin (θ/2)) (cos (ψ/2)) (sin (ψ/2))) = 1 ∧
    toM3 (qzxz (cos (φ/2)) (sin (φ/2)) (cos (θ/2)) (sin (θ/2)) (cos (ψ/2)) (sin (ψ/2)))
      = zxz (cos φ) (sin φ) (cos θ) (sin θ) (cos ψ) (sin ψ) := by
  have u : ∀ x : ℝ, cos x * cos x + sin x * sin x = 1 := fun x => by
    have := cos_sq_add_sin_sq x; nlinarith
  have c2 : ∀ x : ℝ, cos x = cos (x/2) * cos (x/2) - sin (x/2) * sin (x/2) := fun x => by
    have h := cos_two_mul' (x/2); rw [show 2 * (x/2) = x by ring] at h; rw [h]; ring
  have s2 : ∀ x : ℝ, sin x = 2 * cos (x/2) * sin (x/2) := fun x => by
    have h := sin_two_mul (x/2); rw [show 2 * (x/2) = x by ring] at h; rw [h]; ring
  refine ⟨qnormSq_qzxz _ _ _ _ _ _ (u _) (u _) (u _), ?_⟩
  rw [toM3_qzxz' _ _ _ _ _ _ (u _) (u _) (u _), ← c2, ← c2, ← c2, ← s2, ← s2, ← s2]

/-- `Real.sqrt` meets the square-root assumptions of the theorems above -/
theorem real_sqrtSpec (at2 : ℝ → ℝ → ℝ) : SqrtSpec (realLibm at2) := realLibm_sqrtSpec at2

/-- the angles (θ, ψ) in degrees that `normals_to_euler_angles` computes through `atan2` have exactly the
cosines and sines of `n2eCS`; so by `n2e_zaxis` the z-axis of `zxz φ θ ψ` is `n/|n|` for every φ -/
theorem n2eAngles_cos_sin (n : V3 ℝ) (hn : V3.normSq n ≠ 0) :
    let a := n2eAngles (realLibm atan2R) n
    let r := n2eCS (realLibm atan2R) n
    cos (a.1 * (π / 180)) = r.1 ∧ sin (a.1 * (π / 180)) = r.2.1 ∧
    cos (a.2 * (π / 180)) = r.2.2.1 ∧ sin (a.2 * (π / 180)) = r.2.2.2 := by
  intro a r
  have hL := realLibm_sqrtSpec atan2R
  have hu : V3.normSq (scale n ((realLibm atan2R).sqrt (V3.normSq n))) = 1 :=
    normSq_scale n _ (hL.mul_self _ (V3.normSq_nonneg n)) hn
  have hpi : π ≠ 0 := pi_ne_zero
  have conv : ∀ t : ℝ, t * (180 / π) * (π / 180) = t := fun t => by field_simp
  simp only [a, r, n2eAngles, n2eCS]
  generalize scale n ((realLibm atan2R).sqrt (V3.normSq n)) = u at hu
  simp only [realLibm]
  simp only [V3.normSq, V3.dot] at hu
  have hrho0 : 0 ≤ u.x * u.x + u.y * u.y := by nlinarith [mul_self_nonneg u.x, mul_self_nonneg u.y]
  have hrr : sqrt (u.x * u.x + u.y * u.y) * sqrt (u.x * u.x + u.y * u.y) = u.x * u.x + u.y * u.y :=
    Real.mul_self_sqrt hrho0
  have hone : u.z * u.z + sqrt (u.x * u.x + u.y * u.y) * sqrt (u.x * u.x + u.y * u.y) = 1 := by
    rw [hrr]; linarith
  have hth1 : cos (atan2R (sqrt (u.x * u.x + u.y * u.y)) u.z) = u.z := by
    rw [cos_atan2R _ _ (by rw [hone]; norm_num), hone, Real.sqrt_one, div_one]
  have hth2 : sin (atan2R (sqrt (u.x * u.x + u.y * u.y)) u.z) = sqrt (u.x * u.x + u.y * u.y) := by
    rw [sin_atan2R, hone, Real.sqrt_one, div_one]
  by_cases hxy : u.x = 0 ∧ u.y = 0
  · have hb : (u.x == 0 && u.y == 0) = true := by simp [hxy.1, hxy.2]
    simp only [hb, if_true, conv, hth1, hth2, zero_mul, cos_zero, sin_zero, and_self]
  · have hb : (u.x == 0 && u.y == 0) = false := by simpa using hxy
    have hpos : u.x * u.x + u.y * u.y ≠ 0 := by
      intro e
      apply hxy
      constructor <;> nlinarith [mul_self_nonneg u.x, mul_self_nonneg u.y]
    have e90 : (90 + atan2R u.y u.x * (180 / π)) * (π / 180) = atan2R u.y u.x + π / 2 := by
      field_simp; ring
    simp only [hb, Bool.false_eq_true, if_false, conv, hth1, hth2, true_and]
    refine ⟨?_, ?_⟩
    · rw [e90, cos_add_pi_div_two, sin_atan2R]
    · rw [e90, sin_add_pi_div_two, cos_atan2R _ _ hpos]

/-- **Regression witness (defect D07).** With the override "ψ := 0 whenever `atan2(y, x) = 0`" of the
pinned commit the normal (1, 0, 0) is sent to angles whose z-axis is (0, −1, 0). -/
theorem n2e_asis_counterexample :
    let r := n2eCSAsIs (realLibm atan2R) ⟨1, 0, 0⟩
    zaxisOfEuler 1 0 r.1 r.2.1 r.2.2.1 r.2.2.2 = ⟨0, -1, 0⟩ ∧
    zaxisOfEuler 1 0 r.1 r.2.1 r.2.2.1 r.2.2.2 ≠ scale ⟨1, 0, 0⟩ ((realLibm atan2R).sqrt (V3.normSq ⟨1, 0, 0⟩)) := by
  intro r
  have hr : r = (0, 1, 1, 0) := by
    simp [r, n2eCSAsIs, realLibm, scale, V3.normSq, V3.dot, atan2R_zero_one]
  rw [hr, zaxisOfEuler_eq]
  refine ⟨by ext <;> simp, fun h => ?_⟩
  have := congrArg V3.x h
  simp [realLibm, scale, V3.normSq, V3.dot] at this
end real2

/-! ### non-vacuity: the hypotheses of the theorems above are met by concrete non-trivial inputs -/

/-- a non-trivial unit quaternion (the zxz quaternion of half-angle pairs (3/5,4/5), (5/13,12/13), (0,1)) -/
example : qnormSq (qzxz (3/5) (4/5) (5/13) (12/13) 0 1 : Q4 ℝ) = 1 :=
  qnormSq_qzxz _ _ _ _ _ _ (by norm_num) (by norm_num) (by norm_num)
/-- two different rotations at non-zero distance: hypotheses of `angDist_eq_zero_iff` with a false right side -/
example : toM3 (qz (3/5) (4/5) : Q4 ℝ) ≠ toM3 (qz 1 0) := by
  intro h; have := congrArg M3.a11 h; simp [toM3, qz] at this; norm_num at this
example : qnormSq (qz (3/5) (4/5) : Q4 ℝ) = 1 ∧ qnormSq (qx (5/13) (12/13) : Q4 ℝ) = 1 := by
  constructor <;> simp [qnormSq, qdot, qz, qx] <;> norm_num
/-- orthogonal matrices for the cone theorems -/
example : (zxz (3/5) (4/5) (5/13) (12/13) 0 1 : M3 ℝ).Orth :=
  zxz_orth _ _ _ _ _ _ (by norm_num) (by norm_num) (by norm_num)
/-- in-plane range hypotheses -/
example : inplane (1/100000000000 : ℚ) 170 (-170) = 20 := by
  simp only [inplane, snap, absv_eq_abs]; norm_num [abs_of_nonneg, abs_of_nonpos]
/-- a batch of two unit rows (hypotheses of `normals_asis_not_unit`, `normals_rowwise_unit`) -/
example : ∀ p ∈ [(⟨0, 0, 1⟩ : V3 ℝ), ⟨3/5, 4/5, 0⟩], V3.normSq p = 1 := by
  intro p hp; simp at hp; rcases hp with rfl | rfl <;> simp [V3.normSq, V3.dot] <;> norm_num
/-- a normal for `n2e_zaxis` / `n2eAngles_cos_sin` in the repaired half-plane y = 0 < x -/
example : V3.normSq (⟨2, 0, 0⟩ : V3 ℝ) ≠ 0 := by simp [V3.normSq, V3.dot]
/-- the checker accepts a concrete observation -/
example : checkMetric ({ dab := 30, dba := 30, dac := 50, dbc := 40, dl := 30, dr := 30, tol := 0 } : MetricObs ℚ)
    = (true, true, true, true, true) := by
  simp only [checkMetric, inRange, near]; norm_num

end CryoCat.C06
