import CryoCat.Lemmas.C19
/-! C19 — chain tracing partitions particles into simple, distance-respecting chains.

`Spec` is the statement of properties.jsonl over the output rows `(tomogram, position, object, order,
recorded value)`; distances are squared (`d i j`, `lo = min²`, `hi = max²`), which is the same
interval test because everything is ≥ 0.  What is proved:

* for the MODEL of `trace_chains` (all inputs, all sizes, all distance functions, every choice of the
  comparison operators): clause 1 and "chains never span tomograms" (`trace_partition`,
  `trace_partition_all`, `trace_no_span`), and the order/distance clauses for the chain produced by the
  tracing loop (`trace_links_partial`);
* for the CHECKER that is run on the real output of every generated case: `check_sound`
  (all three clauses);
* regression witnesses for the two repaired defects (`tailcut_roworder_counterexample`,
  `double_cut_shared_id_counterexample`) and that the repaired model passes on the same inputs.

The order and distance clauses of the model THROUGH the merge branches (suffix / prefix / two-sided /
cuts) are stated as `SpecFull` and are not proved; see the builder's report. -/
namespace CryoCat.C19
variable {α : Type} [LE α] [LT α] [DecidableLE α] [DecidableLT α] [DecidableEq α]

/-! ### translator obligations -/

theorem anchors_ok : Gen.C19.anchorsOk = true := by decide

/-- `get_nn_dist` asks for sorted hits with distances and returns the first one left after the
filters -/
theorem nn_sorted_first : Gen.C19.nnSorted = true ∧ Gen.C19.nnTakesFirst = true ∧ Gen.C19.nnMaskCmp = .eq := by decide

/-- the tail cut off by `add_chain_suffix` is renumbered by chain order (`-= order_id`), not by
DataFrame row order (repair 6cbacb0) -/
theorem tail_renumbered_by_chain_order : Gen.C19.tailByChainOrder = true := by decide

/-- a two-sided merge takes a fresh object id for the head it cuts off (repair 2d8b42a) -/
theorem both_sides_fresh_id : Gen.C19.bothSidesFreshId = true := by decide

/-- all thirteen comparison / bookkeeping sites read from the source are the documented ones
(`>` min, `<=` keeps the existing link at both ends, `>`/`<` select tail/head, first order 1, …) -/
theorem opts_documented : Opts.gen = Opts.documented := by decide

/-! ### the statement -/

/-- clause 1: every particle is returned exactly once (and under its own tomogram) -/
def Once (cs : List (Cfg α)) (out : List (ORow α)) : Prop :=
  (out.map (fun r => (r.1, r.2.idx))).Perm (allKeys cs)

/-- clause 2: within each tomogram every chain (object number) carries the order numbers 1..k -/
def Orders (out : List (ORow α)) : Prop :=
  ∀ (t : Nat) (g : Int), ((group out t g).map (·.2.ord)).Perm (oneToK (group out t g).length)

/-- clause 3: for consecutive members of a chain the exit→entry distance lies in (min, max] and is
the value recorded for the former -/
def Dist (cs : List (Cfg α)) (out : List (ORow α)) : Prop :=
  ∀ a ∈ out, ∀ b ∈ out, a.1 = b.1 → a.2.obj = b.2.obj → b.2.ord = a.2.ord + 1 →
    ∃ c, cs[a.1]? = some c ∧ c.lo < c.d a.2.idx b.2.idx ∧ c.d a.2.idx b.2.idx ≤ c.hi ∧
      a.2.dist = c.d a.2.idx b.2.idx

/-- clause 4: chains never span tomograms — a chain is a `(tomogram, object)` group, and every row
filed under tomogram `t` is a particle of tomogram `t` -/
def NoSpan (cs : List (Cfg α)) (out : List (ORow α)) : Prop :=
  ∀ r ∈ out, ∃ c, cs[r.1]? = some c ∧ r.2.idx < c.n

def Spec (cs : List (Cfg α)) (out : List (ORow α)) : Prop :=
  Once cs out ∧ Orders out ∧ Dist cs out ∧ NoSpan cs out

/-- the full statement about the model (tie exclusions of the quantifier as hypotheses: when
`min_distance = 0` no exit site coincides with another particle's entry site). NOT proved for the
merge branches; decided on every generated case by `chainsOk` applied to the real output. -/
def SpecFull (cs : List (Cfg α)) : Prop :=
  (∀ c ∈ cs, ∀ i j, i ≠ j → c.lo < c.d i j ∨ c.zero < c.minD) → Spec cs (runAll Opts.documented cs)

/-! ### clause 1 and clause 4 for the model: all inputs, all operator choices -/

/-- **Every particle exactly once (one tomogram).** For every number of particles, every distance
function, thresholds and operator table: the positions in the traced table are a permutation of
`0..n-1`. -/
theorem trace_partition (o : Opts) (c : Cfg α) :
    ((run o c).nfm.map (·.idx)).Perm (List.range c.n) := run_ids_perm o c

/-- **Every particle exactly once, all tomograms.** -/
theorem trace_partition_all (o : Opts) (cs : List (Cfg α)) : Once cs (runAll o cs) := by
  unfold Once runAll allKeys
  exact runAll_keys_perm o cs 0

/-- clause 1 implies clause 4: a row filed under tomogram `t` is a particle of tomogram `t` -/
theorem once_no_span (cs : List (Cfg α)) (out : List (ORow α)) (h : Once cs out) : NoSpan cs out := by
  intro r hr
  have hm : (r.1, r.2.idx) ∈ allKeys cs :=
    (h.mem_iff).1 (List.mem_map.2 ⟨r, hr, rfl⟩)
  obtain ⟨c, hc, _, hi⟩ := allKeys_mem cs 0 r.1 r.2.idx hm
  exact ⟨c, by simpa using hc, hi⟩

/-- **Chains never span tomograms** (model, all inputs) -/
theorem trace_no_span (o : Opts) (cs : List (Cfg α)) : NoSpan cs (runAll o cs) :=
  once_no_span cs _ (trace_partition_all o cs)

/-! ### clauses 2 and 3 for the chain produced by the tracing loop (partial) -/

/-- **Partial** (what is missing: preservation through `add_chain_suffix`/`add_chain_prefix`):
the chain the `while` loop builds from any start `p` is numbered 1.. in chain order by
`mkChainFrom`, and each stored value is the exit→entry squared distance of that link, which lies in
`(lo, hi]` (`lo <` under the guard `min_distance > 0`, exactly as the code filters). -/
theorem trace_links_partial (c : Cfg α) (traced : List Nat) (fuel p : Nat) (used : List Nat) (cls : Int) :
    Linked Opts.documented c (traceChain Opts.documented c traced fuel p used) ∧
    (∀ x, inWin Opts.documented c x = true → x ≤ c.hi ∧ (c.zero < c.minD → c.lo < x)) ∧
    (mkChainFrom cls 1 (traceChain Opts.documented c traced fuel p used)).map (·.ord)
      = oneToK (traceChain Opts.documented c traced fuel p used).length ∧
    ∀ r ∈ mkChainFrom cls 1 (traceChain Opts.documented c traced fuel p used), r.obj = cls :=
  ⟨traceChain_linked _ c traced fuel p used, fun x h => inWin_documented c x h,
   mkChainFrom_ords cls 1 _, mkChainFrom_objs cls 1 _⟩

/-- `trace_links_partial` is about real links: on D18 the loop started at `P` (position 1) links
`P → S0` with recorded squared distance 400 (2.0 at 1/10 units) -/
example : traceChain Opts.documented (cfgOfPts ptsD18 30 0) [0] 6 1 [] = [(1, 400), (2, 0)] := by decide +kernel

/-! ### the verified checker -/

/-- **Soundness of the checker run on the implementation's output**: if `chainsOk` accepts, all
clauses of the statement hold for that output. -/
theorem check_sound (cs : List (Cfg α)) (out : List (ORow α)) (h : chainsOk cs out = true) : Spec cs out := by
  simp only [chainsOk, Bool.and_eq_true] at h
  obtain ⟨⟨h1, h2⟩, h3⟩ := h
  have hOnce : Once cs out := List.isPerm_iff.1 h1
  refine ⟨hOnce, ?_, ?_, once_no_span cs out hOnce⟩
  · intro t g
    by_cases he : group out t g = []
    · rw [he]; exact List.Perm.refl _
    · obtain ⟨r, hr⟩ := List.exists_mem_of_ne_nil _ he
      have hr' := hr
      simp only [group, List.mem_filter, Bool.and_eq_true, beq_iff_eq] at hr'
      obtain ⟨hro, rfl, rfl⟩ := hr'
      have := (List.all_eq_true.1 h2) r hro
      exact List.isPerm_iff.1 this
  · intro a ha b hb hab hobj hord
    have := (List.all_eq_true.1 ((List.all_eq_true.1 h3) a ha)) b hb
    have hc : (a.1 == b.1 && a.2.obj == b.2.obj && b.2.ord == a.2.ord + 1) = true := by
      simp [hab, hobj, hord]
    rw [if_pos hc] at this
    split at this
    · rename_i c hcs
      simp only [Bool.and_eq_true, decide_eq_true_eq] at this
      exact ⟨c, hcs, this.1.1, this.1.2, this.2⟩
    · exact absurd this (by simp)

/-! ### regression witnesses and non-vacuity -/

/-- D18 (a1, P, S0, L, b1, F; `max_distance = 3`): with the tail renumbered in DataFrame ROW order
(the code before 6cbacb0) the model returns chain `a1 → b1`, whose exit→entry distance is not in the
window and not the recorded value -/
theorem tailcut_roworder_counterexample :
    chkDist [cfgOfPts ptsD18 30 0]
      (runAll { Opts.documented with tailByChainOrder := false } [cfgOfPts ptsD18 30 0]) = false := by
  decide +kernel

/-- the 8-particle double cut: when the two-sided merge reuses `class_c - 1` (the code before
2d8b42a) the cut-off tail and the cut-off head share one object id: order number 1 occurs twice -/
theorem double_cut_shared_id_counterexample :
    chkOrders (runAll { Opts.documented with bothSidesFreshId := false } [cfgOfPts ptsDoubleCut 24 0]) = false := by
  decide +kernel

/-- the repaired code (documented operators) satisfies the whole statement on both arrangements -/
theorem repaired_model_passes_witnesses :
    Spec [cfgOfPts ptsD18 30 0] (runAll Opts.documented [cfgOfPts ptsD18 30 0]) ∧
    Spec [cfgOfPts ptsDoubleCut 24 0] (runAll Opts.documented [cfgOfPts ptsDoubleCut 24 0]) :=
  ⟨check_sound _ _ (by decide +kernel), check_sound _ _ (by decide +kernel)⟩

/-- `check_sound`'s hypothesis is satisfiable by a non-trivial output (three chains, merges, cuts) -/
example : chainsOk [cfgOfPts ptsD18 30 0] (runAll Opts.documented [cfgOfPts ptsD18 30 0]) = true := by
  decide +kernel

/-- the tie-exclusion hypothesis of `SpecFull` holds on the D18 arrangement -/
example : ∀ i ∈ List.range 6, ∀ j ∈ List.range 6, i ≠ j →
    (cfgOfPts ptsD18 30 0).lo < (cfgOfPts ptsD18 30 0).d i j := by decide +kernel

end CryoCat.C19
