import CryoCat.Lemmas.C19_Loop
import CryoCat.Lemmas.C19_Ties
/-! C19 — chain tracing partitions particles into simple, distance-respecting chains.

`Spec` is the statement of properties.jsonl over the output rows `(tomogram, position, object, order,
recorded value)`; distances are squared (`d i j`, `lo = min²`, `hi = max²`), which is the same
interval test because everything is ≥ 0.  What is proved:

* for the MODEL of `trace_chains` (all inputs, all sizes, all distance functions): clause 1 and "chains
  never span tomograms" for every choice of the comparison operators (`trace_partition`,
  `trace_partition_all`, `trace_no_span`); for the documented operators (= the ones read from the
  source, `opts_documented`) the ORDER clause and the DISTANCE clause through all branches — append,
  suffix attach with/without tail cut, prefix attach with/without head cut, two-sided merge with/without
  either cut (`trace_chains_well_numbered`, `trace_orders`, `trace_dist`), hence the whole statement
  (`trace_spec_full`);
* for the CHECKER that is run on the real output of every generated case: `check_sound`
  (all three clauses);
* regression witnesses for the three repaired defects that are visible in the model
  (`tailcut_roworder_counterexample`, `double_cut_shared_id_counterexample`,
  `min_zero_coincidence_counterexample`) and that the repaired model passes on the same inputs.

`SpecFull` is proved (`trace_spec_full`). What ties the model to the code: the operator table
(`opts_documented`), the exact row-by-row comparison of every generated case, and `chainsOk` on the
real output. -/
namespace CryoCat.C19
variable {α : Type} [LE α] [LT α] [DecidableLE α] [DecidableLT α] [DecidableEq α]

/-! ### translator obligations -/

theorem anchors_ok : Gen.C19.anchorsOk = true := by decide

/-- `get_nn_dist` asks for sorted hits with distances and returns the first one left after the
filters -/
theorem nn_sorted_first : Gen.C19.nnSorted = true ∧ Gen.C19.nnTakesFirst = true ∧ Gen.C19.nnMaskCmp = .eq := by decide

/-- the tail cut off by `add_chain_suffix` is renumbered by chain order (`-= order_id`), not by
DataFrame row order (repair 6cbacb0) -/
theorem tail_renumbered_by_chain_order : Gen.C19.tailByChainOrder = true := by decide

/-- a two-sided merge takes a fresh object id for the head it cuts off (repair 2d8b42a) -/
theorem both_sides_fresh_id : Gen.C19.bothSidesFreshId = true := by decide

/-- `get_nn_dist` filters `rp_dist > dist_min` under no test of `dist_min` (repair of the guard
`elif dist_min > 0`, which let a coinciding site pass at distance 0 when `min_distance = 0`) -/
theorem min_bound_unconditional : Gen.C19.nnMinAlways = true := by decide

/-- the per-tomogram working copies are re-labelled 0..n-1 (`reset_index=True`): the code addresses
rows by `df.index[position]`, which names ONE row only when labels do not repeat; the model addresses
rows by position throughout (repair: lists with repeated row labels made the first merge raise) -/
theorem subsets_positional : Gen.C19.subsetsPositional = true := by decide

/-- all thirteen comparison / bookkeeping sites read from the source are the documented ones
(`dist > dist_min` applied to every hit whatever `dist_min` is, `<=` keeps the existing link at both
ends, `>`/`<` select tail/head, first order 1, …) -/
theorem opts_documented : Opts.gen = Opts.documented := by decide

/-- the numbering constants the model hard-codes are the ones in the source: object ids and order
numbers start at 1 and advance by 1 (one `chain_id += 1`; `class_c += 1` after every chain and once
more for a two-sided merge), a two-sided merge needs `cl_max > 1`, the order-number shifts are
`+= chain_max_order` (suffix) and `+= class_max - cut_off_size` (prefix, both forms) with
`cut_off_size` starting at 0, and the temporary id of a head cut off in a two-sided merge is `-1`
(never a real object id, `WN.rng`) -/
theorem numbering_documented :
    Gen.C19.classStart = 1 ∧ Gen.C19.orderStart = 1 ∧ Gen.C19.orderStepSites = 1 ∧ Gen.C19.orderStep = 1 ∧
    Gen.C19.classStepSites = 2 ∧ Gen.C19.classStep = 1 ∧ Gen.C19.bothMinLenCmp = .gt ∧ Gen.C19.bothMinLen = 1 ∧
    Gen.C19.suffixShiftDocumented = true ∧ Gen.C19.prefixShiftDocumented = true ∧ Gen.C19.cutOffInit = 0 ∧
    Gen.C19.headMarker = -1 := by decide

/-- the whole bodies of `get_nn_dist`, `add_chain_suffix`, `add_chain_prefix`, `trace_chains` — with
parameters and local variables renamed to the documented names by binding position; comments,
layout, type annotations, docstrings and the TEXT of exception/log messages ignored; `not (a > b)`
read as `a <= b`; `a > b` written `b < a` and the operands of `==`/`!=` in a fixed order; adjacent independent constant stores into different arrays in a fixed order — are
the documented ones (digest of the syntax tree). Every statement counts, also those in branches no
generated case executes (`output_motl`, the feature-set test): an added, removed or edited statement
breaks this theorem; a renaming of local variables, a type hint or a reworded message does not. -/
theorem bodies_documented :
    Gen.C19.bodyDigests = [1053225336426693692, 797955773933724064, 654672493014163097, 703771148035791459] := by
  decide

/-- the signature defaults the statement and the adapter's omitted keywords depend on:
`min_distance = 0` (the window is `(0, max]`), tomograms are the values of `tomo_id`, and the three
columns written are `object_id`, `geom2`, `geom4` — in `trace_chains` and in both merge helpers -/
theorem defaults_documented :
    Gen.C19.minDistanceDefault = 0 ∧ Gen.C19.featureDefault = "tomo_id" ∧
    Gen.C19.storeDefaults = ["object_id", "geom2", "geom4"] ∧
    Gen.C19.helperStoreDefaults = [["object_id", "geom2", "geom4"], ["object_id", "geom2", "geom4"]] := by decide

/-- the columns the statement observes (object number, order number, recorded distance) are the
default store columns of the signature -/
theorem store_documented : Store.gen = some Store.documented := by decide

/-- how the column names reach the merge helpers, AS OBSERVED in the source today: `store_idx1` and
`store_idx2` are forwarded, `store_dist` is not (the helpers then use their own default `geom4`).
With the default names this is immaterial (`defaults_documented`: both defaults are `geom4`), which
is the configuration the statement is about; a non-default `store_dist` is outside its quantifier
and is exercised as an observation only (see RULE in harness/props/c19.py). -/
theorem merge_calls_as_observed :
    Gen.C19.suffixCall = ["ch_m", "fm_exit", "nfm_df", "first_idx", "first_dist", "store_idx1", "store_idx2"] ∧
    Gen.C19.prefixCall = ["ch_m", "fm_entry", "nfm_df", "nm_idx", "nm_dist", "store_idx1", "store_idx2", "class_max=class_max"] ∧
    Gen.C19.storeDistForwarded = false := by decide

/-! ### the statement -/

/-- clause 1: every particle is returned exactly once (and under its own tomogram) -/
def Once (cs : List (Cfg α)) (out : List (ORow α)) : Prop :=
  (out.map (fun r => (r.1, r.2.idx))).Perm (allKeys cs)

/-- clause 2: within each tomogram every chain (object number) carries the order numbers 1..k -/
def Orders (out : List (ORow α)) : Prop :=
  ∀ (t : Nat) (g : Int), ((group out t g).map (·.2.ord)).Perm (oneToK (group out t g).length)

/-- clause 3: for consecutive members of a chain the exit→entry distance lies in (min, max] and is
the value recorded for the former -/
def Dist (cs : List (Cfg α)) (out : List (ORow α)) : Prop :=
  ∀ a ∈ out, ∀ b ∈ out, a.1 = b.1 → a.2.obj = b.2.obj → b.2.ord = a.2.ord + 1 →
    ∃ c, cs[a.1]? = some c ∧ c.lo < c.d a.2.idx b.2.idx ∧ c.d a.2.idx b.2.idx ≤ c.hi ∧
      a.2.dist = c.d a.2.idx b.2.idx

/-- clause 4: chains never span tomograms — a chain is a `(tomogram, object)` group, and every row
filed under tomogram `t` is a particle of tomogram `t`. Since chains are DEFINED as groups inside one
tomogram, this clause is a corollary of clause 1 (`once_no_span`), not an independent fact; it is kept
as a conjunct because the statement names it. -/
def NoSpan (cs : List (Cfg α)) (out : List (ORow α)) : Prop :=
  ∀ r ∈ out, ∃ c, cs[r.1]? = some c ∧ r.2.idx < c.n

def Spec (cs : List (Cfg α)) (out : List (ORow α)) : Prop :=
  Once cs out ∧ Orders out ∧ Dist cs out ∧ NoSpan cs out

/-- no exit site coincides with another particle's entry site, or `min_distance > 0`. NOT a
hypothesis of any theorem about the documented (= repaired) code: it is what the code BEFORE the
repair of `get_nn_dist` needed (`min_zero_coincidence_counterexample` shows it fails without), kept to
say precisely which inputs were affected. properties.jsonl has no such exclusion. -/
def NoCoincidence (cs : List (Cfg α)) : Prop :=
  ∀ c ∈ cs, ∀ i j, i < c.n → j < c.n → i ≠ j → c.lo < c.d i j ∨ c.zero < c.minD

/-- the full statement about the model: all four clauses for the table the model of `trace_chains`
returns, for every list of tomograms, every distance function and all thresholds — no hypothesis
(in particular none about coincidences or equal distances: the model breaks ties between equally
distant candidates towards the lowest row position, `argmin`, and the clauses hold for that choice;
see `NoTies`/`nearestEntry_order_free` for what the tie exclusion of the GENERATOR is for).
PROVED below (`trace_spec_full`). -/
def SpecFull (cs : List (Cfg α)) : Prop :=
  Spec cs (runAll Opts.documented cs)

/-! ### clause 1 and clause 4 for the model: all inputs, all operator choices -/

/-- **Every particle exactly once (one tomogram).** For every number of particles, every distance
function, thresholds and operator table: the positions in the traced table are a permutation of
`0..n-1`. -/
theorem trace_partition (o : Opts) (c : Cfg α) :
    ((run o c).nfm.map (·.idx)).Perm (List.range c.n) := run_ids_perm o c

/-- **Every particle exactly once, all tomograms.** -/
theorem trace_partition_all (o : Opts) (cs : List (Cfg α)) : Once cs (runAll o cs) := by
  unfold Once runAll allKeys
  exact runAll_keys_perm o cs 0

/-- clause 1 implies clause 4: a row filed under tomogram `t` is a particle of tomogram `t` -/
theorem once_no_span (cs : List (Cfg α)) (out : List (ORow α)) (h : Once cs out) : NoSpan cs out := by
  intro r hr
  have hm : (r.1, r.2.idx) ∈ allKeys cs :=
    (h.mem_iff).1 (List.mem_map.2 ⟨r, hr, rfl⟩)
  obtain ⟨c, hc, _, hi⟩ := allKeys_mem cs 0 r.1 r.2.idx hm
  exact ⟨c, by simpa using hc, hi⟩

/-- **Chains never span tomograms** (model, all inputs) -/
theorem trace_no_span (o : Opts) (cs : List (Cfg α)) : NoSpan cs (runAll o cs) :=
  once_no_span cs _ (trace_partition_all o cs)

/-! ### clause 1, second half: the returned row is the particle (its other 17 fields) -/

/-- every returned row agrees with the entry-list row of its particle in every field that tracing
does not write -/
def Unaltered {β : Type} (st : Store) (entry : Nat → Nat → Particle β) (out : List (PRow β)) : Prop :=
  ∀ r ∈ out, ∀ f : Field, st.writes f = false → r.2.2.get f = (entry r.1 r.2.1).get f

/-- "returns every particle exactly once", both halves: the keys are a permutation of the input keys
and every row carries its particle's other fields -/
def OnceUnaltered {β : Type} (cs : List (Cfg α)) (st : Store) (entry : Nat → Nat → Particle β)
    (out : List (PRow β)) : Prop :=
  (out.map (fun r => (r.1, r.2.1))).Perm (allKeys cs) ∧ Unaltered st entry out

/-- with the documented store columns the fields left alone are the other 17 -/
theorem other_fields_documented :
    otherFields Store.documented =
      [.score, .geom1, .subtomo_id, .tomo_id, .subtomo_mean, .x, .y, .z, .shift_x, .shift_y, .shift_z,
       .geom3, .geom5, .phi, .psi, .theta, .cls] ∧ (otherFields Store.documented).length = 17 := by decide

/-- whatever the three store columns are, a field is either written or listed as "other" -/
theorem otherFields_mem (st : Store) (f : Field) : f ∈ otherFields st ↔ st.writes f = false := by
  simp [otherFields, Field.mem_all]

/-- **Soundness of the field checker run on the implementation's output.** -/
theorem check_fields_sound {β : Type} [DecidableEq β] (st : Store) (entry : Nat → Nat → Particle β)
    (out : List (PRow β)) (h : chkFields st entry out = true) : Unaltered st entry out := by
  intro r hr f hf
  have h1 := (List.all_eq_true.1 h) r hr
  have h2 := (List.all_eq_true.1 h1) f ((otherFields_mem st f).2 hf)
  exact of_decide_eq_true h2

/-- and it is complete: an unaltered output is accepted (the checker asks for nothing more) -/
theorem check_fields_complete {β : Type} [DecidableEq β] (st : Store) (entry : Nat → Nat → Particle β)
    (out : List (PRow β)) (h : Unaltered st entry out) : chkFields st entry out = true := by
  refine List.all_eq_true.2 (fun r hr => List.all_eq_true.2 (fun f hf => decide_eq_true ?_))
  exact h r hr f ((otherFields_mem st f).1 hf)

omit [LE α] [LT α] [DecidableLE α] [DecidableLT α] [DecidableEq α] in
/-- the row the model emits differs from the entry-list row only in the three store columns -/
theorem emit_other_fields {β : Type} (st : Store) (ofInt : Int → β) (ofDist : α → β)
    (entry : Nat → Particle β) (r : Row α) (f : Field) (hf : st.writes f = false) :
    (emit st ofInt ofDist entry r).get f = (entry r.idx).get f := by
  simp only [Store.writes, Bool.or_eq_false_iff, beq_eq_false_iff_ne, ne_eq] at hf
  obtain ⟨⟨h1, h2⟩, h3⟩ := hf
  unfold emit
  rw [Particle.get_set_other _ _ _ _ h3, Particle.get_set_other _ _ _ _ h2, Particle.get_set_other _ _ _ _ h1]

/-- **Every particle is returned exactly once, as itself** (model, all inputs, every operator table,
every choice of the three store columns): the returned keys are a permutation of the input keys and
each returned row equals its entry-list row in all other fields. -/
theorem trace_returns_particles {β : Type} (o : Opts) (cs : List (Cfg α)) (st : Store) (ofInt : Int → β)
    (ofDist : α → β) (entry : Nat → Nat → Particle β) :
    OnceUnaltered cs st entry (emitAll st ofInt ofDist entry (runAll o cs)) := by
  constructor
  · have := trace_partition_all o cs
    unfold Once at this
    simpa [emitAll, List.map_map, Function.comp_def] using this
  · intro r hr f hf
    simp only [emitAll, List.mem_map] at hr
    obtain ⟨a, _, rfl⟩ := hr
    exact emit_other_fields st ofInt ofDist (entry a.1) a.2 f hf

/-- the hypothesis of `check_fields_sound` is satisfiable and the checker discriminates: it accepts
a row that changed only `object_id`/`geom2`/`geom4` and rejects one whose `phi` was zeroed -/
example :
    chkFields Store.documented (fun _ _ => Particle.ofFn (fun f => (f.idx : Int)))
      [(0, 0, (Particle.ofFn (fun f => (f.idx : Int))).set .object_id 7)] = true ∧
    chkFields Store.documented (fun _ _ => Particle.ofFn (fun f => (f.idx : Int)))
      [(0, 0, (Particle.ofFn (fun f => (f.idx : Int))).set .phi 0)] = false := by decide

/-! ### clauses 2 and 3 for the model through ALL branches -/

/-- **`ChainsWellNumbered` is an invariant of the main loop** (one tomogram): after every completed
chain — append-only, suffix attach with and without tail cut, prefix attach with and without head
cut, two-sided merge with and without either cut, rejected attachments — every object of the traced
table carries the order numbers `1..K obj` without duplicates and without gaps. Proof: each branch of
`add_chain_suffix`/`add_chain_prefix` is one relabelling of `nfm ++ chain` that maps numbered
positions one-to-one onto numbered positions (`Lemmas/C19_Suffix`, `C19_Prefix`); induction over the
`for` loop (`Lemmas/C19_Loop`). -/
theorem trace_chains_well_numbered (c : Cfg α) : ChainsWellNumbered (run Opts.documented c).nfm :=
  (run_inv2 c).1

/-- **Orders: within each tomogram every chain carries exactly the order numbers 1..k** — for the
model of `trace_chains` with the documented operators, all inputs, all sizes, all distance functions,
through all branches. (The clause that was false twice in the real code: D18, D21.) -/
theorem trace_orders (cs : List (Cfg α)) : Orders (runAll Opts.documented cs) := by
  intro t g
  have e := group_flatMap (fun c : Cfg α => (run Opts.documented c).nfm) t g cs 0
  dsimp only at e
  unfold runAll
  rw [e]
  simp only [Nat.zero_le, if_true, Nat.sub_zero]
  cases cs[t]? with
  | none => exact List.Perm.refl _
  | some c =>
    obtain ⟨⟨K, cc, hW⟩, _, hnd, _⟩ := run_inv2 c
    have := hW.orders hnd g
    simpa [Function.comp_def] using this

/-- **Distances: for consecutive members of a chain the recorded value on the former is the
exit→entry distance to the latter, and it lies in (min, max]** — model, documented operators, all
inputs, all branches (invariant `DL`: every row's recorded value is the true distance to its
successor whenever it has one; the last member of a chain is unconstrained). -/
theorem trace_dist (cs : List (Cfg α)) : Dist cs (runAll Opts.documented cs) := by
  intro a ha b hb hab hobj hord
  obtain ⟨ta, ra⟩ := a
  obtain ⟨tb, rb⟩ := b
  simp only at hab hobj hord
  subst hab
  obtain ⟨c, _, hc, hra⟩ := mem_flatMap_tomo (fun c : Cfg α => (run Opts.documented c).nfm) ta ra cs 0 ha
  obtain ⟨c', _, hc', hrb⟩ := mem_flatMap_tomo (fun c : Cfg α => (run Opts.documented c).nfm) ta rb cs 0 hb
  rw [hc] at hc'
  simp only [Option.some.injEq] at hc'
  subst hc'
  obtain ⟨_, hD, hnd, hlt⟩ := run_inv2 c
  obtain ⟨h1, h2⟩ := hD ra hra rb hrb hobj hord
  obtain ⟨h3, h4⟩ := inWin_documented c _ h2
  exact ⟨c, by simpa using hc, h4, h3, h1⟩

/-- **The full statement holds for the model**: every particle exactly once, orders 1..k per chain,
consecutive distances in the window and recorded, no chain spans tomograms. -/
theorem trace_spec_full (cs : List (Cfg α)) : SpecFull cs :=
  ⟨trace_partition_all _ cs, trace_orders cs, trace_dist cs, trace_no_span _ cs⟩

/-- **The whole statement, with "returns every particle" read in full**: besides `SpecFull`, the
table the model returns consists of the entry-list rows themselves — every field other than
`object_id`, `geom2`, `geom4` (the documented store columns, `store_documented`) is the input
particle's. -/
theorem trace_spec_full_particles {β : Type} (cs : List (Cfg α)) (ofInt : Int → β) (ofDist : α → β)
    (entry : Nat → Nat → Particle β) :
    SpecFull cs ∧
    OnceUnaltered cs Store.documented entry
      (emitAll Store.documented ofInt ofDist entry (runAll Opts.documented cs)) :=
  ⟨trace_spec_full cs, trace_returns_particles _ cs _ ofInt ofDist entry⟩

/-- the same for the operator table regenerated from the source on every check (what the driver
executes): an edit of any of the thirteen operator sites breaks `opts_documented` and with it this -/
theorem trace_spec_full_gen (cs : List (Cfg α)) : Spec cs (runAll Opts.gen cs) := by
  rw [opts_documented]
  exact trace_spec_full cs

/-- the branches the invariant is carried through are live: the 8-particle double-cut arrangement
goes through prefix cut, suffix attach, two-sided merge, tail cut and two-sided merge with head cut -/
example : (run Opts.documented (cfgOfPts ptsDoubleCut 24 0)).tags =
    [.append, .append, .skip, .prefixCut, .suffixKeep, .both, .append, .skip, .suffixCut, .bothCut] := by
  decide +kernel

/-- `NoCoincidence` (what the code before the repair needed) holds on the D18 arrangement … -/
example : NoCoincidence [cfgOfPts ptsD18 30 0] := by
  intro c hc
  simp only [List.mem_singleton] at hc
  subst hc
  have key : ∀ i, i < 6 → ∀ j, j < 6 → i ≠ j →
      (cfgOfPts ptsD18 30 0).lo < (cfgOfPts ptsD18 30 0).d i j := by decide +kernel
  intro i j hi hj hne
  exact Or.inl (key i hi j hj hne)

/-- … and fails on `ptsCoincide` with `min_distance = 0` (exit site of 0 = entry site of 1) -/
example : ¬ NoCoincidence [cfgOfPts ptsCoincide 3 0] := by
  intro h
  have := h _ (List.mem_singleton.2 rfl) 0 1 (by decide) (by decide) (by decide)
  revert this
  decide

/-! ### clauses 2 and 3 for the chain produced by the tracing loop -/

/-- (kept from the first round; subsumed by `trace_orders`/`trace_dist`) the chain the `while` loop
builds from any start `p`, BEFORE any merge: each stored value is the exit→entry squared distance of
that link and lies in `(lo, hi]` (`LinkedWin`), `mkChainFrom` numbers the members 1.. in chain order
and gives all of them the object id `cls`. Partial: it says nothing about what the suffix/prefix
merges do to the chain afterwards (that is `trace_orders`/`trace_dist`). -/
theorem trace_links_partial (c : Cfg α) (traced : List Nat) (fuel p : Nat) (used : List Nat) (cls : Int) :
    LinkedWin c (traceChain Opts.documented c traced fuel p used) ∧
    (mkChainFrom cls 1 (traceChain Opts.documented c traced fuel p used)).map (·.ord)
      = oneToK (traceChain Opts.documented c traced fuel p used).length ∧
    ∀ r ∈ mkChainFrom cls 1 (traceChain Opts.documented c traced fuel p used), r.obj = cls :=
  ⟨linked_win c _ (traceChain_linked _ c traced fuel p used),
   mkChainFrom_ords cls 1 _, mkChainFrom_objs cls 1 _⟩

/-- `trace_links_partial` is about real links: on D18 the loop started at `P` (position 1) links
`P → S0` with recorded squared distance 400 (2.0 at 1/10 units) -/
example : traceChain Opts.documented (cfgOfPts ptsD18 30 0) [0] 6 1 [] = [(1, 400), (2, 0)] := by decide +kernel

/-! ### the verified checker -/

/-- **Soundness of the checker run on the implementation's output**: if `chainsOk` accepts, all
clauses of the statement hold for that output. -/
theorem check_sound (cs : List (Cfg α)) (out : List (ORow α)) (h : chainsOk cs out = true) : Spec cs out := by
  simp only [chainsOk, Bool.and_eq_true] at h
  obtain ⟨⟨h1, h2⟩, h3⟩ := h
  have hOnce : Once cs out := List.isPerm_iff.1 h1
  refine ⟨hOnce, ?_, ?_, once_no_span cs out hOnce⟩
  · intro t g
    by_cases he : group out t g = []
    · rw [he]; exact List.Perm.refl _
    · obtain ⟨r, hr⟩ := List.exists_mem_of_ne_nil _ he
      have hr' := hr
      simp only [group, List.mem_filter, Bool.and_eq_true, beq_iff_eq] at hr'
      obtain ⟨hro, rfl, rfl⟩ := hr'
      have := (List.all_eq_true.1 h2) r hro
      exact List.isPerm_iff.1 this
  · intro a ha b hb hab hobj hord
    have := (List.all_eq_true.1 ((List.all_eq_true.1 h3) a ha)) b hb
    have hc : (a.1 == b.1 && a.2.obj == b.2.obj && b.2.ord == a.2.ord + 1) = true := by
      simp [hab, hobj, hord]
    rw [if_pos hc] at this
    split at this
    · rename_i c hcs
      simp only [Bool.and_eq_true, decide_eq_true_eq] at this
      exact ⟨c, hcs, this.1.1, this.1.2, this.2⟩
    · exact absurd this (by simp)

/-- **Completeness of the checker**: an output for which all clauses of the statement hold is accepted —
the checker demands nothing beyond the statement, so it cannot raise an alarm on an output that satisfies it. -/
theorem check_complete (cs : List (Cfg α)) (out : List (ORow α)) (h : Spec cs out) : chainsOk cs out = true := by
  obtain ⟨hOnce, hOrd, hDist, _⟩ := h
  simp only [chainsOk, Bool.and_eq_true]
  refine ⟨⟨List.isPerm_iff.2 hOnce, ?_⟩, ?_⟩
  · exact List.all_eq_true.2 (fun r _ => List.isPerm_iff.2 (hOrd r.1 r.2.obj))
  · refine List.all_eq_true.2 (fun a ha => List.all_eq_true.2 (fun b hb => ?_))
    split
    · rename_i hc
      simp only [Bool.and_eq_true, beq_iff_eq] at hc
      obtain ⟨c, hcs, h1, h2, h3⟩ := hDist a ha b hb hc.1.1 hc.1.2 hc.2
      rw [hcs]
      simp only [Bool.and_eq_true, decide_eq_true_eq]
      exact ⟨⟨h1, h2⟩, h3⟩
    · rfl

/-- the checker DECIDES the statement: it accepts an output exactly when the four clauses hold for it -/
theorem check_iff (cs : List (Cfg α)) (out : List (ORow α)) : chainsOk cs out = true ↔ Spec cs out :=
  ⟨check_sound cs out, check_complete cs out⟩

/-- the table the model of the documented `trace_chains` returns is accepted by the checker, for every input
(so a disagreement between checker verdict on the implementation's table and the model is never the checker's doing) -/
theorem model_accepted (cs : List (Cfg α)) : chainsOk cs (runAll Opts.documented cs) = true :=
  check_complete cs _ (trace_spec_full cs)

/-! ### regression witnesses and non-vacuity -/

/-- D18 (a1, P, S0, L, b1, F; `max_distance = 3`): with the tail renumbered in DataFrame ROW order
(the code before 6cbacb0) the model returns chain `a1 → b1`, whose exit→entry distance is not in the
window and not the recorded value -/
theorem tailcut_roworder_counterexample :
    chkDist [cfgOfPts ptsD18 30 0]
      (runAll { Opts.documented with tailByChainOrder := false } [cfgOfPts ptsD18 30 0]) = false := by
  decide +kernel

/-- the 8-particle double cut: when the two-sided merge reuses `class_c - 1` (the code before
2d8b42a) the cut-off tail and the cut-off head share one object id: order number 1 occurs twice -/
theorem double_cut_shared_id_counterexample :
    chkOrders (runAll { Opts.documented with bothSidesFreshId := false } [cfgOfPts ptsDoubleCut 24 0]) = false := by
  decide +kernel

/-- the coincidence at `min_distance = 0` (`ptsCoincide`; `max_distance = 3`): with the lower bound
applied only under `dist_min > 0` (the code before the repair of `get_nn_dist`) the model links
particle 0 → particle 1 at distance 0, which is not in `(0, 3]`: the distance clause fails. The
input is inside the quantifier (`min_distance >= 0`, nothing excludes coinciding sites). -/
theorem min_zero_coincidence_counterexample :
    chkDist [cfgOfPts ptsCoincide 3 0]
      (runAll { Opts.documented with nnMinAlways := false } [cfgOfPts ptsCoincide 3 0]) = false ∧
    (runAll { Opts.documented with nnMinAlways := false } [cfgOfPts ptsCoincide 3 0]).map
      (fun r => (r.2.idx, r.2.obj, r.2.ord, r.2.dist)) = [(0, 1, 1, 0), (1, 1, 2, 0)] := by
  decide +kernel

/-- the repaired model leaves the two particles in two one-member chains and satisfies the statement -/
theorem min_zero_coincidence_repaired :
    (runAll Opts.documented [cfgOfPts ptsCoincide 3 0]).map
      (fun r => (r.2.idx, r.2.obj, r.2.ord)) = [(0, 1, 1), (1, 2, 1)] ∧
    Spec [cfgOfPts ptsCoincide 3 0] (runAll Opts.documented [cfgOfPts ptsCoincide 3 0]) :=
  ⟨by decide +kernel, check_sound _ _ (by decide +kernel)⟩

/-- the repaired code (documented operators) satisfies the whole statement on both arrangements -/
theorem repaired_model_passes_witnesses :
    Spec [cfgOfPts ptsD18 30 0] (runAll Opts.documented [cfgOfPts ptsD18 30 0]) ∧
    Spec [cfgOfPts ptsDoubleCut 24 0] (runAll Opts.documented [cfgOfPts ptsDoubleCut 24 0]) :=
  ⟨check_sound _ _ (by decide +kernel), check_sound _ _ (by decide +kernel)⟩

/-- `check_sound`'s hypothesis is satisfiable by a non-trivial output (three chains, merges, cuts) -/
example : chainsOk [cfgOfPts ptsD18 30 0] (runAll Opts.documented [cfgOfPts ptsD18 30 0]) = true := by
  decide +kernel

/-! ### which ties the generator excludes, and why no theorem above needs the exclusion

`get_nn_dist` returns the FIRST hit of a radius query sorted by ascending distance; the library says
nothing about the order of EQUALLY distant hits. The model's `argmin` takes the one with the lowest
row position, and every theorem above holds for that choice, for all inputs. What the generator
excludes (`NoTies`) is exactly the situation in which the real code's answer is not determined by
its source: two candidates at the same in-window distance from one query site. On every other
input the first hit is the same whatever order the library lists its hits in
(`nearestEntry_order_free`, `nearestExit_order_free`), so model and code must agree row for row. -/

section ties
variable {β : Type} [LinearOrder β]

/-- the ties outside the generated inputs: two ENTRY sites at the same in-window distance from one
EXIT site (forward tracing, prefix search), or two EXIT sites at the same in-window distance from
one ENTRY site (suffix search). Equal distances outside the window, or from different query sites,
are not ties. -/
def NoTies (c : Cfg β) : Prop :=
  (∀ i j k, i < c.n → j < c.n → k < c.n → c.lo < c.d i j → c.d i j ≤ c.hi → c.d i j = c.d i k → j = k) ∧
  (∀ i j k, i < c.n → j < c.n → k < c.n → c.lo < c.d j i → c.d j i ≤ c.hi → c.d j i = c.d k i → j = k)

/-- on a tie-free tomogram the nearest active entry site does not depend on the order in which the
candidates are listed: for EVERY listing `l` of the hits, its least element is the model's answer -/
theorem nearestEntry_order_free (c : Cfg β) (h : NoTies c) (i : Nat) (hi : i < c.n) (ok : Nat → Bool) (l : List Nat)
    (hl : l.Perm ((List.range c.n).filter (fun j => ok j && inWin Opts.documented c (c.d i j)))) :
    argmin (fun j => c.d i j) l = nearestEntry Opts.documented c i ok := by
  unfold nearestEntry
  refine (argmin_perm _ _ _ hl.symm ?_).symm
  intro a ha b hb hab
  simp only [List.mem_filter, List.mem_range, Bool.and_eq_true] at ha hb
  obtain ⟨h1, h2⟩ := (inWin_documented_iff c _).1 ha.2.2
  exact h.1 i a b hi ha.1 hb.1 h2 h1 hab

/-- the same for the nearest traced exit site seen from an entry site (suffix search) -/
theorem nearestExit_order_free (c : Cfg β) (h : NoTies c) (i : Nat) (hi : i < c.n) (ok : Nat → Bool) (l : List Nat)
    (hl : l.Perm ((List.range c.n).filter (fun j => ok j && inWin Opts.documented c (c.d j i)))) :
    argmin (fun j => c.d j i) l = nearestExit Opts.documented c i ok := by
  unfold nearestExit
  refine (argmin_perm _ _ _ hl.symm ?_).symm
  intro a ha b hb hab
  simp only [List.mem_filter, List.mem_range, Bool.and_eq_true] at ha hb
  obtain ⟨h1, h2⟩ := (inWin_documented_iff c _).1 ha.2.2
  exact h.2 i a b hi ha.1 hb.1 h2 h1 hab

/-- and what it returns is a nearest one: no active in-window entry site is closer -/
theorem nearestEntry_is_nearest (c : Cfg β) (i : Nat) (ok : Nat → Bool) (j : Nat) (x : β)
    (h : nearestEntry Opts.documented c i ok = some (j, x)) (k : Nat) (hk : k < c.n) (hok : ok k = true)
    (hw : c.lo < c.d i k ∧ c.d i k ≤ c.hi) : c.d i j ≤ c.d i k := by
  refine argmin_min _ _ j x h k ?_
  simp only [List.mem_filter, List.mem_range, Bool.and_eq_true]
  exact ⟨hk, hok, (inWin_documented_iff c _).2 ⟨hw.2, hw.1⟩⟩

end ties

/-- `NoTies` is satisfiable by a non-trivial arrangement: D18 (all in-window distances distinct) -/
example : NoTies (cfgOfPts ptsD18 30 0) := by
  have k1 : ∀ i, i < 6 → ∀ j, j < 6 → ∀ k, k < 6 →
      ((cfgOfPts ptsD18 30 0).lo < (cfgOfPts ptsD18 30 0).d i j ∧
      (cfgOfPts ptsD18 30 0).d i j ≤ (cfgOfPts ptsD18 30 0).hi ∧
      (cfgOfPts ptsD18 30 0).d i j = (cfgOfPts ptsD18 30 0).d i k) → j = k := by decide +kernel
  have k2 : ∀ i, i < 6 → ∀ j, j < 6 → ∀ k, k < 6 →
      ((cfgOfPts ptsD18 30 0).lo < (cfgOfPts ptsD18 30 0).d j i ∧
      (cfgOfPts ptsD18 30 0).d j i ≤ (cfgOfPts ptsD18 30 0).hi ∧
      (cfgOfPts ptsD18 30 0).d j i = (cfgOfPts ptsD18 30 0).d k i) → j = k := by decide +kernel
  exact ⟨fun i j k hi hj hk a b e => k1 i hi j hj k hk ⟨a, b, e⟩, fun i j k hi hj hk a b e => k2 i hi j hj k hk ⟨a, b, e⟩⟩

/-- and it is violated where it should be: two entry sites at the same distance 1 from one exit site -/
example : ¬ NoTies (cfgOfPts [((5, 0, 0), (0, 0, 0)), ((1, 0, 0), (9, 9, 9)), ((-1, 0, 0), (9, 9, 8))] 3 0) := by
  intro h
  have := h.1 0 1 2 (by decide) (by decide) (by decide) (by decide) (by decide) (by decide)
  exact absurd this (by decide)

end CryoCat.C19
