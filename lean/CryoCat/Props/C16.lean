import CryoCat.Lemmas.C16_Filter
import CryoCat.Lemmas.C16_Dft23
import CryoCat.Lemmas.C16_DftN
import CryoCat.Lemmas.C16_Int
/-! C16 — property theorems (only theorems and non-vacuity examples).

"Dose filtering multiplies every spatial-frequency component f (cycles per Angstrom, from pixel size and image
dimensions) of tilt image i by exp(-dose_i / (2*(0.245*f^-1.665 + 2.81))) and leaves the zero-frequency component,
hence the image mean, unchanged. Consequently zero dose is the identity, the filter is linear, power never increases
at any frequency, more dose attenuates more, and filtering with d1 and then d2 equals filtering once with d1+d2."

The model (`Model/C16`) is instantiated at `ℝ` with `Real.exp`, `Real.rpow`, `Real.sqrt` (`realOps`); the constants
are the ones regenerated from the source (`gg realOps`).  `G W H px d v u` (defined in `Lemmas/C16_Filter`, like `physFreq`, `filt`, `filtStack`) abbreviates the multiplier
the model applies to the raw DFT coefficient `[v, u]` of an `H × W` image. -/
namespace CryoCat.C16

/-! ### translator obligations: what the source says today is what the statement says -/

theorem anchors_ok : Gen.C16.anchorsOk = true := by decide

/-- `a = 0.245`, `b = -1.665`, `c = 2.81` (decimal literals of the source as exact fractions) -/
theorem constants_documented :
    (Gen.C16.ggA.1 * 1000 = 245 * Gen.C16.ggA.2 ∧ 0 < Gen.C16.ggA.2) ∧
    (Gen.C16.ggB.1 * 1000 = -1665 * Gen.C16.ggB.2 ∧ 0 < Gen.C16.ggB.2) ∧
    (Gen.C16.ggC.1 * 100 = 281 * Gen.C16.ggC.2 ∧ 0 < Gen.C16.ggC.2) := by decide

/-- the signatures, in particular the DEFAULT values the statement's call patterns rely on: `output_file=None` (nothing is
written unless asked), `input_order='xyz'`, `output_order='xyz'`, and `sort_mdoc=True` of the dose loader (an `.mdoc` is
re-sorted by tilt angle before doses are paired with images).  The correspondence run omits each keyword in ~30 % of
the calls and expects exactly these values. -/
theorem defaults_documented :
    Gen.C16.stackSig = "dose_filter(tilt_stack,pixel_size,total_dose,output_file=None,input_order='xyz',output_order='xyz')" ∧
    Gen.C16.singleSig = "dose_filter_single_image(image,dose,freq_array)" ∧
    Gen.C16.doseLoadSig = "total_dose_load(input_dose,sort_mdoc=True)" ∧
    Gen.C16.tsInit = "TiltStack(tilt_stack=tilt_stack,input_order=input_order,output_order=output_order)" := by decide

/-- the WHOLE body of `dose_filter_single_image` (statement kinds and expressions, locals renamed to their documented
names by order of first binding, docstring and `print` dropped): no statement besides the ones `doseFilterSingle` models —
in particular no second write to `q`, `ft` (element stores, augmented assignments) -/
theorem single_image_body_documented :
    Gen.C16.singleBody =
      ["a=0.245", "b=-1.665", "c=2.81",
       "ft=np.fft.fftshift(np.fft.fft2(image))",
       "q=np.exp(-dose/(2*(a*freq_array**b+c)))",
       "filtered_image=np.fft.ifft2(np.fft.ifftshift(ft*q))",
       "return filtered_image.real"] := by rfl

/-- the WHOLE body of `dose_filter`: load, frequency array (zeros, centres, steps, double loop with ONE element store), a
private writable copy of the data (`np.array(ts.data, copy=True)`: the caller's stack is never written), the per-tilt
loop, optional write-out, return in the requested order — nothing else -/
theorem dose_filter_body_documented :
    Gen.C16.stackBody =
      ["ts=TiltStack(tilt_stack=tilt_stack,input_order=input_order,output_order=output_order)",
       "pixel_size=float(pixel_size)",
       "total_dose=ioutils.total_dose_load(total_dose)",
       "frequency_array=np.zeros((ts.height,ts.width))",
       "cen_x=ts.width//2",
       "cen_y=ts.height//2",
       "rstep_x=1/(ts.width*pixel_size)",
       "rstep_y=1/(ts.height*pixel_size)",
       "for x in range(ts.width)",
       ".for y in range(ts.height)",
       "..d=np.sqrt((x-cen_x)**2*rstep_x**2+(y-cen_y)**2*rstep_y**2)",
       "..frequency_array[y,x]=d",
       "ts.data=np.array(ts.data,copy=True)",
       "for z in range(ts.n_tilts)",
       ".image=ts.data[z,:,:]",
       ".ts.data[z,:,:]=dose_filter_single_image(image,total_dose[z],frequency_array)",
       "ts.write_out(output_file)",
       "return ts.correct_order()"] := by rfl

/-- the WHOLE body of `ioutils.total_dose_load`, including the branch the correspondence run never executes (Warp `.xml`):
arrays pass through, lists and tuples through `np.asarray`, `.csv` gives `CorrectedDose` of the rows not `Removed`, `.mdoc` is sorted
by tilt angle and gives `ExposureDose + PriorRecordDose` (or `ExposureDose · (rank by DateTime + 1)` restored to tilt
order), any other path is read one value per line -/
theorem total_dose_load_body_documented :
    Gen.C16.doseLoadBody =
      ["if isinstance(input_dose,np.ndarray)",
       ".return input_dose",
       "else",
       ".if isinstance(input_dose,(list,tuple))",
       "..return np.asarray(input_dose)",
       ".else",
       "..if isinstance(input_dose,str)",
       "...if input_dose.endswith('.csv')",
       "....df=pd.read_csv(input_dose,index_col=0)",
       "....if 'CorrectedDose'indf.columns",
       ".....if 'Removed'indf.columns",
       "......return df.loc[df['Removed']==False,'CorrectedDose'].astype(np.single).to_numpy()",
       ".....else",
       "......return df['CorrectedDose'].astype(np.single).to_numpy()",
       "....else",
       ".....raise ValueError",
       "...else",
       "....if input_dose.endswith('.mdoc')",
       ".....mdoc_file=mdoc.Mdoc(input_dose)",
       ".....if sort_mdoc",
       "......mdoc_file.sort_by_tilt(reset_z_value=False)",
       ".....image_dose=mdoc_file.get_image_feature('ExposureDose').values",
       ".....if 'PriorRecordDose'inmdoc_file.imgs",
       "......prior_dose=mdoc_file.get_image_feature('PriorRecordDose').values",
       "......total_dose=image_dose+prior_dose",
       "......return total_dose",
       ".....else",
       "......mdoc_file.imgs['original_order']=range(len(mdoc_file.imgs))",
       "......mdoc_file.imgs['DateTime']=pd.to_datetime(mdoc_file.imgs['DateTime'])",
       "......sorted_df=mdoc_file.imgs.sort_values('DateTime')",
       "......sorted_df.reset_index(drop=True,inplace=True)",
       "......sorted_df['total_dose']=sorted_df['ExposureDose']*(sorted_df.index+1)",
       "......result_df=sorted_df.sort_values('original_order').drop(columns=['original_order'])",
       "......return result_df['total_dose'].values",
       "....else",
       ".....if input_dose.endswith('.xml')",
       "......total_dose=get_data_from_warp_xml(input_dose,'Dose',node_level=1)",
       "......return total_dose",
       ".....else",
       "......total_dose=one_value_per_line_read(input_dose)",
       "......return total_dose",
       "..else",
       "...raise ValueError"] := by rfl

/-- the helpers on the way of the stack: `TiltStack.__init__` (an ndarray is COPIED and brought to z,y,x; a path is read without
transposition; the dtype of the data is remembered), `write_out` (writes only when `output_file` is given, with the remembered dtype),
`correct_order` (casts BACK to the remembered dtype — for an integer stack this is the identity because the filtered images were
already truncated on assignment, C16-K1 — and transposes to the requested order) -/
theorem tiltstack_helpers_documented :
    Gen.C16.tsInitSig = "__init__(self,tilt_stack,input_order='xyz',output_order='xyz')" ∧
    Gen.C16.tsInitBody =
      ["if notisinstance(tilt_stack,np.ndarray)",
       ".self.data=cryomap.read(tilt_stack,transpose=False)",
       ".if self.data.shape==2",
       "..self.data=np.expand_dims(self.data,axis=0)",
       "else",
       ".self.data=tilt_stack.copy()",
       ".if self.data.shape==2",
       "..if input_order=='xyz'",
       "...self.data=np.expand_dims(self.data,axis=2)",
       "..else",
       "...self.data=np.expand_dims(self.data,axis=0)",
       ".if input_order=='xyz'",
       "..self.data=self.data.transpose(2,1,0)",
       "self.data_type=self.data.dtype",
       "self.input_order=input_order",
       "self.current_order='zyx'",
       "self.output_order=output_order",
       "self.n_tilts,self.height,self.width=self.data.shape"] ∧
    Gen.C16.tsWriteOutSig = "write_out(self,output_file,new_data=None)" ∧
    Gen.C16.tsWriteOutBody =
      ["if output_file",
       ".data_to_write=new_dataifnew_dataisnotNoneelseself.data",
       ".cryomap.write(data_to_write,output_file,data_type=self.data_type,transpose=False)"] ∧
    Gen.C16.tsCorrectOrderSig = "correct_order(self,new_data=None)" ∧
    Gen.C16.tsCorrectOrderBody =
      ["return_data=new_dataifnew_dataisnotNoneelseself.data",
       "if return_data.dtype!=self.data_type",
       ".return_data=return_data.astype(self.data_type)",
       "if self.current_order!=self.output_order",
       ".return return_data.transpose(2,1,0)",
       "else",
       ".return return_data"] := by
  refine ⟨by decide, by rfl, by decide, by rfl, by decide, by rfl⟩

/-- the helpers on the way of the doses: `one_value_per_line_read` reads with `dtype=data_type`, whose DEFAULT is `np.float32` (the
recorded assumption `float32-dose-loading`: a dose written as a decimal reaches the filter as its float32 rounding), `Mdoc.__init__`
reads the file through `_read_mdoc`, `sort_by_tilt` sorts the sections by `TiltAngle` and leaves the section ids alone unless asked,
`get_image_feature` is the column of that name -/
theorem dose_helpers_documented :
    Gen.C16.lineReadSig = "one_value_per_line_read(file_path,data_type=np.float32)" ∧
    Gen.C16.lineReadBody =
      ["if notos.path.isfile(file_path)",
       ".raise ValueError",
       "try",
       ".data_df=pd.read_csv(file_path,header=None,dtype=data_type,sep='\\\\s+')",
       ".if data_df.empty",
       "..raise ValueError",
       "except pd.errors.EmptyDataError",
       ".raise ValueError",
       "return data_df.iloc[:,0].values"] ∧
    Gen.C16.mdocInitSig = "__init__(self,file_path=None,titles=None,project_info=None,imgs=None,section_id='ZValue')" ∧
    Gen.C16.mdocInitBody =
      ["if file_pathandpath.isfile(file_path)",
       ".self.file_path=file_path",
       ".self.titles,self.project_info,self.imgs,self.section_id=self._read_mdoc(file_path)",
       "else",
       ".self.titles=titles",
       ".self.project_info=project_info",
       ".self.imgs=imgs",
       ".self.section_id=section_id"] ∧
    Gen.C16.mdocSortSig = "sort_by_tilt(self,reset_z_value=False)" ∧
    Gen.C16.mdocSortBody =
      ["self.imgs=self.imgs.sort_values(by='TiltAngle')",
       "if reset_z_value",
       ".self.imgs[self.section_id]=range(self.imgs.shape[0])"] ∧
    Gen.C16.mdocFeatureSig = "get_image_feature(self,feature)" ∧
    Gen.C16.mdocFeatureBody = ["return self.imgs[feature]"] := by
  refine ⟨by decide, by rfl, by decide, by rfl, by decide, by rfl, by decide, by rfl⟩

/-- Warp `.xml` doses (`total_dose_load`'s `.xml` branch calls `get_data_from_warp_xml(input_dose, "Dose", node_level=1)`): the text of
the first `<Dose>` child of the root, split into lines, every non-blank line through `float` IN FILE ORDER (no sorting, no
de-duplication) — so the i-th line is the dose of the i-th image, the pairing `doseFilter` models.  (`node_level=2`, the `<Node Value=…>`
children, is not on the dose path.) -/
theorem warp_xml_documented :
    Gen.C16.warpXmlSig = "get_data_from_warp_xml(xml_file_path,node_name,node_level=1)" ∧
    Gen.C16.warpXmlBody =
      ["if node_levelnotin[1,2]",
       ".raise ValueError",
       "try",
       ".tree=ET.parse(xml_file_path)",
       ".root=tree.getroot()",
       ".elements=root.findall(node_name)",
       ".if elements",
       "..if node_level==2",
       "...node_elements=elements[0].findall('.//Node')",
       "...data=[float(node.get('Value'))fornodeinnode_elements]",
       "..else",
       "...data_text=elements[0].text.strip()",
       "...data=[float(value)forvalueindata_text.split('\\n')ifvalue.strip()]",
       "..data=np.asarray(data)",
       "..return data",
       ".else",
       "..return None",
       "except Exception",
       ".return None"] := by
  refine ⟨by decide, by rfl⟩

/-- the constants the model computes with, at the reals, are the statement's -/
theorem constants_real : gg realOps = { a := 0.245, b := -1.665, c := 2.81 } := gg_real

/-- the attenuation expression of `dose_filter_single_image` has the skeleton the model `atten` has -/
theorem q_expression_documented : Gen.C16.qExpr = "np.exp(-dose/(2*(a*freq_array**b+c)))" := by decide

/-- `ft = fftshift(fft2(image))`, `ifft2(ifftshift(ft * q))`, `.real` — the pipeline of `doseFilterSingle` -/
theorem single_image_pipeline_documented :
    Gen.C16.ftExpr = "np.fft.fftshift(np.fft.fft2(image))" ∧
    Gen.C16.outExpr = "np.fft.ifft2(np.fft.ifftshift(ft*q))" ∧
    Gen.C16.retExpr = "filtered_image.real" := by decide

/-- centres `n // 2`, reciprocal steps `1/(n*pixel_size)`, `d = sqrt(...)`, stored at `[y, x]`, over the full ranges —
the expressions `cen`, `rstep`, `freqK`, `freqArray` model -/
theorem frequency_array_documented :
    Gen.C16.cenX = "ts.width//2" ∧ Gen.C16.cenY = "ts.height//2" ∧
    Gen.C16.rstepX = "1/(ts.width*pixel_size)" ∧ Gen.C16.rstepY = "1/(ts.height*pixel_size)" ∧
    Gen.C16.freqExpr = "np.sqrt((x-cen_x)**2*rstep_x**2+(y-cen_y)**2*rstep_y**2)" ∧
    Gen.C16.freqStore = "frequency_array[y,x]=d" ∧ Gen.C16.freqInit = "np.zeros((ts.height,ts.width))" ∧
    Gen.C16.loopRangeX = "range(ts.width)" ∧ Gen.C16.loopRangeY = "range(ts.height)" := by decide

/-- image `z` is filtered with `total_dose[z]`, doses given as arrays/lists/tuples pass through `total_dose_load` unchanged —
the pairing `doseFilter` models -/
theorem per_tilt_pairing_documented :
    Gen.C16.loopRangeZ = "range(ts.n_tilts)" ∧ Gen.C16.imageExpr = "ts.data[z,:,:]" ∧
    Gen.C16.pairExpr = "ts.data[z,:,:]=dose_filter_single_image(image,total_dose[z],frequency_array)" ∧
    Gen.C16.doseLoad = "ioutils.total_dose_load(total_dose)" ∧ Gen.C16.pixelCast = "float(pixel_size)" ∧
    Gen.C16.returnExpr = "ts.correct_order()" ∧
    Gen.C16.doseLoadPassthrough
      = "isinstance(input_dose,np.ndarray)->input_dose;isinstance(input_dose,(list,tuple))->np.asarray(input_dose)" := by decide

/-! ### the multiplier: which frequency, which factor -/

/-- **Frequency scaling** (even and odd sizes): the entry of `frequency_array` that meets raw DFT coefficient `[v, u]`
after `fftshift` is the physical frequency of that coefficient. -/
theorem frequency_is_physical {W H : Nat} (px : ℝ) {v u : Nat} (hv : v < H) (hu : u < W) :
    freqArray realOps W H px (ishiftSrc H v) (ishiftSrc W u) = physFreq W H px v u := by
  unfold freqArray
  rw [kOfPos_ishiftSrc hv, kOfPos_ishiftSrc hu, freqK_real]

/-- after `fftshift`, position `x` carries integer frequency `x − ⌊n/2⌋`, and `fftshift`/`ifftshift` undo each other -/
theorem fftshift_index {n : Nat} :
    (∀ k, k < n → kOfPos n (ishiftSrc n k) = sfreq n k) ∧
    (∀ k, k < n → shiftSrc n (ishiftSrc n k) = k) ∧ (∀ x, x < n → ishiftSrc n (shiftSrc n x) = x) :=
  ⟨fun _ h => kOfPos_ishiftSrc h, fun _ h => shiftSrc_ishiftSrc h, fun _ h => ishiftSrc_shiftSrc h⟩

/-- the frequency is zero exactly at the zero-frequency coefficient (justifies the model's case split) -/
theorem frequency_zero_iff_dc {W H : Nat} {px : ℝ} (hpx : 0 < px) {v u : Nat} (hv : v < H) (hu : u < W) :
    physFreq W H px v u = 0 ↔ (sfreq W u = 0 ∧ sfreq H v = 0) := by
  have := freqK_eq_zero_iff (W := W) (H := H) (by omega) (by omega) hpx (sfreq W u) (sfreq H v)
  rwa [freqK_real] at this

/-- **Grant–Grigorieff attenuation at every non-zero frequency**: coefficient `[v, u]` is multiplied by
`exp(−d / (2·(0.245·f^(−1.665) + 2.81)))`, `f` its physical frequency. -/
theorem attenuation_formula {W H : Nat} (px d : ℝ) {v u : Nat} (hv : v < H) (hu : u < W)
    (hnz : ¬ (sfreq W u = 0 ∧ sfreq H v = 0)) :
    G W H px d v u
      = Real.exp (-d / (2 * (0.245 * (physFreq W H px v u) ^ (-1.665 : ℝ) + 2.81))) := by
  unfold G
  rw [mult_eq_gainK _ _ _ _ hv hu, gainK_real_ne _ _ _ _ hnz, freqK_real, gg_real]
  rfl

/-- **zero frequency unchanged**: the factor at DFT coefficient `[0, 0]` is exactly 1, whatever the dose -/
theorem dc_gain_one {W H : Nat} (hW : 0 < W) (hH : 0 < H) (px d : ℝ) : G W H px d 0 0 = 1 := by
  unfold G
  rw [mult_eq_gainK _ _ _ _ hH hW, sfreq_zero hW, sfreq_zero hH, gainK_dc]

/-- zero dose: every factor is 1 -/
theorem gain_zero_dose (W H : Nat) (px : ℝ) (v u : Nat) : G W H px 0 v u = 1 :=
  gainK_zero_dose _ _ _ _ _ _

/-- factors of `d₁` and `d₂` multiply to the factor of `d₁ + d₂` -/
theorem gain_mul (W H : Nat) (px d₁ d₂ : ℝ) (v u : Nat) : G W H px d₁ v u * G W H px d₂ v u = G W H px (d₁ + d₂) v u :=
  gainK_add _ _ _ _ _ _ _ _

/-- every factor lies in `(0, 1]` for a non-negative dose -/
theorem gain_pos_le_one (W H : Nat) (px : ℝ) {d : ℝ} (hd : 0 ≤ d) (v u : Nat) :
    0 < G W H px d v u ∧ G W H px d v u ≤ 1 :=
  ⟨gainK_pos _ _ _ _ _ _ _,
   gainK_le_one _ _ _ _ _ _ (by rw [gg_real]; exact ggDoc_a_nonneg) (by rw [gg_real]; exact ggDoc_c_pos) hd⟩

/-- more dose, smaller factor — at every frequency -/
theorem gain_antitone (W H : Nat) (px : ℝ) {d₁ d₂ : ℝ} (h : d₁ ≤ d₂) (v u : Nat) : G W H px d₂ v u ≤ G W H px d₁ v u :=
  gainK_antitone _ _ _ _ _ _ (by rw [gg_real]; exact ggDoc_a_nonneg) (by rw [gg_real]; exact ggDoc_c_pos) h

/-- the factor is the same for a coefficient and its complex-conjugate partner (so real images stay real) -/
theorem gain_hermitian_even {W H : Nat} (px d : ℝ) (v : Fin H) (u : Fin W) :
    G W H px d (negFin v).val (negFin u).val = G W H px d v.val u.val := mult_even _ _ _ _ _ _

/-! ### image level: for every Fourier service obeying the DFT laws `IsDFT` -/

section image
variable {Img : Type} [Add Img] [SMul ℝ Img] {H W : Nat} {fft : FFT Img ℝ H W}

/-- **every spatial-frequency component is multiplied by the factor `G`** -/
theorem filter_spectrum (hD : IsDFT fft) (px d : ℝ) (x : Img) (v : Fin H) (u : Fin W) :
    fft.fft2 (filt fft px d x) v u = Cx.smul (G W H px d v u) (fft.fft2 x v u) := by
  unfold filt
  rw [doseFilterSingle_eq]
  have := hD.even_mult (fun v u => mult realOps (gg realOps) W H px d v.val u.val)
    (fun v u => mult_even _ _ _ _ _ _) x
  exact congrFun (congrFun this v) u

/-- **zero dose is the identity** -/
theorem filter_zero_dose (hD : IsDFT fft) (px : ℝ) (x : Img) : filt fft px 0 x = x := by
  unfold filt
  rw [doseFilterSingle_eq]
  have : (fun (v : Fin H) (u : Fin W) => Cx.smul (mult realOps (gg realOps) W H px 0 v.val u.val) (fft.fft2 x v u))
      = fft.fft2 x := by
    funext v u; rw [show mult realOps (gg realOps) W H px 0 v.val u.val = 1 from gain_zero_dose W H px _ _, Cx.one_smul]
  rw [this, hD.inv_left]

/-- **linear** (additive) -/
theorem filter_add (hD : IsDFT fft) (px d : ℝ) (x y : Img) : filt fft px d (x + y) = filt fft px d x + filt fft px d y := by
  unfold filt
  simp only [doseFilterSingle_eq]
  rw [← hD.ifft_add, hD.fft_add]
  congr 1; funext v u; rw [Cx.smul_add]

/-- **linear** (homogeneous) -/
theorem filter_smul (hD : IsDFT fft) (px d c : ℝ) (x : Img) : filt fft px d (c • x) = c • filt fft px d x := by
  unfold filt
  simp only [doseFilterSingle_eq]
  rw [← hD.ifft_smul, hD.fft_smul]
  congr 1; funext v u; rw [Cx.smul_comm]

/-- **filtering with `d₁` and then `d₂` equals filtering once with `d₁ + d₂`** -/
theorem filter_compose (hD : IsDFT fft) (px d₁ d₂ : ℝ) (x : Img) :
    filt fft px d₂ (filt fft px d₁ x) = filt fft px (d₁ + d₂) x := by
  have key : (fun (v : Fin H) (u : Fin W) => Cx.smul (mult realOps (gg realOps) W H px d₂ v.val u.val) (fft.fft2 (filt fft px d₁ x) v u))
      = fun v u => Cx.smul (mult realOps (gg realOps) W H px (d₁ + d₂) v.val u.val) (fft.fft2 x v u) := by
    funext v u
    rw [filter_spectrum hD, Cx.smul_smul, mul_comm]
    congr 1
    exact gain_mul W H px d₁ d₂ v u
  show doseFilterSingle realOps (gg realOps) fft px d₂ (filt fft px d₁ x) = doseFilterSingle realOps (gg realOps) fft px (d₁ + d₂) x
  rw [doseFilterSingle_eq, key, ← doseFilterSingle_eq]

/-- **power never increases at any frequency** (non-negative dose) -/
theorem filter_power_le (hD : IsDFT fft) (px : ℝ) {d : ℝ} (hd : 0 ≤ d) (x : Img) (v : Fin H) (u : Fin W) :
    Cx.power (fft.fft2 (filt fft px d x) v u) ≤ Cx.power (fft.fft2 x v u) := by
  rw [filter_spectrum hD, Cx.power_smul]
  obtain ⟨h0, h1⟩ := gain_pos_le_one W H px hd v u
  have hp := Cx.power_nonneg (fft.fft2 x v u)
  have : (G W H px d v u) ^ 2 ≤ 1 := by nlinarith
  nlinarith

/-- **more dose attenuates more**, at every frequency -/
theorem filter_more_dose (hD : IsDFT fft) (px : ℝ) {d₁ d₂ : ℝ} (h : d₁ ≤ d₂) (x : Img) (v : Fin H) (u : Fin W) :
    Cx.power (fft.fft2 (filt fft px d₂ x) v u) ≤ Cx.power (fft.fft2 (filt fft px d₁ x) v u) := by
  rw [filter_spectrum hD, filter_spectrum hD, Cx.power_smul, Cx.power_smul]
  have h2 := gainK_pos (gg realOps) W H px (kOfPos W (ishiftSrc W u)) (kOfPos H (ishiftSrc H v)) d₂
  have h12 := gain_antitone W H px h v u
  have hp := Cx.power_nonneg (fft.fft2 x v u)
  have h2' : 0 < G W H px d₂ v u := h2
  have : (G W H px d₂ v u) ^ 2 ≤ (G W H px d₁ v u) ^ 2 := by nlinarith
  exact mul_le_mul_of_nonneg_right this hp

/-- **the zero-frequency component is unchanged** -/
theorem filter_dc (hD : IsDFT fft) (px d : ℝ) (x : Img) (hH : 0 < H) (hW : 0 < W) :
    fft.fft2 (filt fft px d x) ⟨0, hH⟩ ⟨0, hW⟩ = fft.fft2 x ⟨0, hH⟩ ⟨0, hW⟩ := by
  rw [filter_spectrum hD]
  show Cx.smul (G W H px d 0 0) _ = _
  rw [dc_gain_one hW hH, Cx.one_smul]

/-- **hence the image mean is unchanged** (for any `mean` that is the zero-frequency coefficient over the pixel count,
as the DFT's is) -/
theorem filter_mean (hD : IsDFT fft) (px d : ℝ) (x : Img) (hH : 0 < H) (hW : 0 < W) (mean : Img → ℝ)
    (hmean : ∀ y, mean y = (fft.fft2 y ⟨0, hH⟩ ⟨0, hW⟩).re / ((H : ℝ) * (W : ℝ))) :
    mean (filt fft px d x) = mean x := by
  rw [hmean, hmean, filter_dc hD]

/-! ### the stack: image `z` gets dose `z` -/

omit [Add Img] [SMul ℝ Img] in
/-- a dose list shorter than the stack is rejected (`IndexError`), anything else is accepted -/
theorem stack_rejects_iff (fft : FFT Img ℝ H W) (px : ℝ) (stack : List Img) (doses : List ℝ) :
    filtStack fft px stack doses = none ↔ doses.length < stack.length := by
  unfold filtStack doseFilter; split <;> simp_all

omit [Add Img] [SMul ℝ Img] in
/-- **per-image dose pairing**: the output has one image per input image, and image `i` is image `i` of the input
filtered with `doses[i]` — for every order of the doses -/
theorem stack_pairs_doses (fft : FFT Img ℝ H W) (px : ℝ) (stack : List Img) (doses : List ℝ)
    (h : stack.length ≤ doses.length) :
    ∃ out, filtStack fft px stack doses = some out ∧ out.length = stack.length ∧
      ∀ i (hi : i < stack.length), out[i]? = some (filt fft px (doses[i]'(by omega)) stack[i]) := by
  refine ⟨_, by unfold filtStack doseFilter; rw [if_neg (by omega)], by simp; omega, ?_⟩
  intro i hi
  simp [List.getElem?_zipWith, List.getElem?_eq_getElem hi, List.getElem?_eq_getElem (show i < doses.length by omega)]

omit [Add Img] [SMul ℝ Img] in
/-- the stack filter written out -/
theorem filtStack_eq (px : ℝ) (stack : List Img) (doses : List ℝ) (h : stack.length ≤ doses.length) :
    filtStack fft px stack doses = some (List.zipWith (fun x d => filt fft px d x) stack doses) := by
  unfold filtStack doseFilter; rw [if_neg (by omega)]

/-- **the composition clause for whole stacks**: filtering a stack with the per-image doses `d₁` and the result with `d₂`
equals filtering it once with the image-wise sums `d₁[i] + d₂[i]` — every stack length, any order of the doses
(surplus doses are ignored on both sides) -/
theorem stack_compose (hD : IsDFT fft) (px : ℝ) (stack : List Img) (d₁ d₂ : List ℝ)
    (h₁ : stack.length ≤ d₁.length) (h₂ : stack.length ≤ d₂.length) :
    (filtStack fft px stack d₁).bind (fun s => filtStack fft px s d₂)
      = filtStack fft px stack (List.zipWith (· + ·) d₁ d₂) := by
  rw [filtStack_eq px stack d₁ h₁, Option.bind_some,
    filtStack_eq px _ d₂ (by simp; omega), filtStack_eq px stack _ (by simp; omega)]
  congr 1
  induction stack generalizing d₁ d₂ with
  | nil => simp
  | cons x xs ih =>
    cases d₁ with
    | nil => simp at h₁
    | cons a as =>
      cases d₂ with
      | nil => simp at h₂
      | cons b bs =>
        simp only [List.zipWith_cons_cons, List.cons.injEq]
        refine ⟨filter_compose hD px a b x, ih as bs ?_ ?_⟩
        · simpa using h₁
        · simpa using h₂

/-- **zero dose is the identity on stacks**: an all-zero dose list returns the stack itself, image by image -/
theorem stack_zero_dose (hD : IsDFT fft) (px : ℝ) (stack : List Img) :
    filtStack fft px stack (List.replicate stack.length 0) = some stack := by
  rw [filtStack_eq px stack _ (by simp)]
  congr 1
  induction stack with
  | nil => rfl
  | cons x xs ih => simp only [List.length_cons, List.replicate_succ, List.zipWith_cons_cons, filter_zero_dose hD, ih]

end image

/-! ### every image size: the exact 2-D DFT over ℂ is such a service, so the image-level clauses hold without hypothesis

`dftN H W` (`Lemmas/C16_DftN`) is numpy's `fft2` on real `H × W` images / `ifft2(·).real`, exactly, over ℂ:
`fft2 x [v,u] = Σ_y Σ_i x[y,i] · exp(-2πi (y v / H + i u / W))` (`dftN_fft2_exp`), and `dftN_isDFT` proves the laws `IsDFT` for every
`H, W ≥ 1` (inversion, Hermitian-even multipliers keep real images real, linearity).  Images are functions `Fin H → Fin W → ℝ` with
pointwise `+` and `•`. -/

section everysize
variable {H W : Nat}

/-- **every spatial-frequency component of every `H × W` image is multiplied by `G`** -/
theorem dft_filter_spectrum (hH : 0 < H) (hW : 0 < W) (px d : ℝ) (x : ImgN H W) (v : Fin H) (u : Fin W) :
    (dftN H W).fft2 (filt (dftN H W) px d x) v u = Cx.smul (G W H px d v u) ((dftN H W).fft2 x v u) :=
  filter_spectrum (dftN_isDFT hH hW) px d x v u

/-- **zero dose is the identity**, every size -/
theorem dft_filter_zero_dose (hH : 0 < H) (hW : 0 < W) (px : ℝ) (x : ImgN H W) : filt (dftN H W) px 0 x = x :=
  filter_zero_dose (dftN_isDFT hH hW) px x

/-- **linear**, every size (pointwise sum and scalar multiple of images) -/
theorem dft_filter_linear (hH : 0 < H) (hW : 0 < W) (px d c : ℝ) (x y : ImgN H W) :
    filt (dftN H W) px d (x + y) = filt (dftN H W) px d x + filt (dftN H W) px d y ∧
    filt (dftN H W) px d (c • x) = c • filt (dftN H W) px d x :=
  ⟨filter_add (dftN_isDFT hH hW) px d x y, filter_smul (dftN_isDFT hH hW) px d c x⟩

/-- **`d₁` then `d₂` equals once `d₁ + d₂`**, every size -/
theorem dft_filter_compose (hH : 0 < H) (hW : 0 < W) (px d₁ d₂ : ℝ) (x : ImgN H W) :
    filt (dftN H W) px d₂ (filt (dftN H W) px d₁ x) = filt (dftN H W) px (d₁ + d₂) x :=
  filter_compose (dftN_isDFT hH hW) px d₁ d₂ x

/-- **power never increases** (non-negative dose) and **more dose attenuates more**, at every frequency of every size -/
theorem dft_filter_power (hH : 0 < H) (hW : 0 < W) (px : ℝ) {d₁ d₂ : ℝ} (h0 : 0 ≤ d₁) (h : d₁ ≤ d₂) (x : ImgN H W) (v : Fin H) (u : Fin W) :
    Cx.power ((dftN H W).fft2 (filt (dftN H W) px d₁ x) v u) ≤ Cx.power ((dftN H W).fft2 x v u) ∧
    Cx.power ((dftN H W).fft2 (filt (dftN H W) px d₂ x) v u) ≤ Cx.power ((dftN H W).fft2 (filt (dftN H W) px d₁ x) v u) :=
  ⟨filter_power_le (dftN_isDFT hH hW) px h0 x v u, filter_more_dose (dftN_isDFT hH hW) px h x v u⟩

/-- **the zero-frequency component is unchanged, hence the sum of the pixels, hence the image mean** — every size, every dose -/
theorem dft_filter_mean (hH : 0 < H) (hW : 0 < W) (px d : ℝ) (x : ImgN H W) :
    (dftN H W).fft2 (filt (dftN H W) px d x) ⟨0, hH⟩ ⟨0, hW⟩ = (dftN H W).fft2 x ⟨0, hH⟩ ⟨0, hW⟩ ∧
    (∑ y : Fin H, ∑ i : Fin W, filt (dftN H W) px d x y i) / ((H : ℝ) * (W : ℝ)) = (∑ y : Fin H, ∑ i : Fin W, x y i) / ((H : ℝ) * (W : ℝ)) := by
  have hdc := filter_dc (dftN_isDFT hH hW) px d x hH hW
  refine ⟨hdc, ?_⟩
  rw [← dftN_dc _ hH hW, ← dftN_dc _ hH hW, hdc]

/-- the `mean` hypothesis of `filter_mean` is met by the arithmetic mean of the pixels (instance: every size) -/
example (hH : 0 < H) (hW : 0 < W) (px d : ℝ) (x : ImgN H W) :
    (fun y : ImgN H W => (∑ a : Fin H, ∑ b : Fin W, y a b) / ((H : ℝ) * (W : ℝ))) (filt (dftN H W) px d x)
      = (∑ a : Fin H, ∑ b : Fin W, x a b) / ((H : ℝ) * (W : ℝ)) :=
  filter_mean (dftN_isDFT hH hW) px d x hH hW _ (fun y => by rw [dftN_dc y hH hW])

/-- **stacks of every size**: the composition and zero-dose clauses for stacks of `H × W` images with the exact DFT — no hypothesis -/
theorem dft_stack_compose (hH : 0 < H) (hW : 0 < W) (px : ℝ) (stack : List (ImgN H W)) (d₁ d₂ : List ℝ)
    (h₁ : stack.length ≤ d₁.length) (h₂ : stack.length ≤ d₂.length) :
    (filtStack (dftN H W) px stack d₁).bind (fun s => filtStack (dftN H W) px s d₂)
      = filtStack (dftN H W) px stack (List.zipWith (· + ·) d₁ d₂) :=
  stack_compose (dftN_isDFT hH hW) px stack d₁ d₂ h₁ h₂

theorem dft_stack_zero_dose (hH : 0 < H) (hW : 0 < W) (px : ℝ) (stack : List (ImgN H W)) :
    filtStack (dftN H W) px stack (List.replicate stack.length 0) = some stack :=
  stack_zero_dose (dftN_isDFT hH hW) px stack

end everysize

/-! ### integer-typed stacks: the code as it is (open finding C16-K1)

`doseFilterInt` (Model/C16) is `dose_filter` on an integer array: convert, filter, truncate every pixel toward zero.  In exact arithmetic zero dose IS
the identity there (an integer survives the round trip; numpy's rounding noise breaks even that); the clauses that fail are the ones about a positive dose: the result is not
the filtered image, the zero-frequency component and the mean change. -/

section intstack
variable {Img IntImg : Type} [Add Img] [SMul ℝ Img] {H W : Nat} {fft : FFT Img ℝ H W}

/-- IN EXACT ARITHMETIC zero dose is the identity on integer stacks too, whenever integers survive the conversion to float and back
(so the clause that fails at the reals is not this one: see `int_stack_counterexample`).  In floating point not even this survives: the
FFT returns `4.999…` for a pixel `5`, which truncation turns into `4` (seen on every random int16 stack tried) — part of C16-K1. -/
theorem int_stack_zero_dose_identity (hD : IsDFT fft) (io : IntIO Img IntImg) (hio : ∀ x, io.trunc (io.ofInt x) = x) (px : ℝ)
    (stack : List IntImg) :
    doseFilterInt realOps (gg realOps) fft io px stack (List.replicate stack.length 0) = some stack := by
  unfold doseFilterInt doseFilter
  rw [if_neg (by simp)]
  simp only [Option.map_some, Option.some.injEq]
  induction stack with
  | nil => rfl
  | cons x xs ih =>
    simp only [List.map_cons, List.length_cons, List.replicate_succ, List.zipWith_cons_cons, List.cons.injEq]
    exact ⟨by rw [show doseFilterSingle realOps (gg realOps) fft px 0 (io.ofInt x) = filt fft px 0 (io.ofInt x) from rfl,
      filter_zero_dose hD, hio], ih⟩

end intstack

/-- **C16-K1, witness about the model**: for every pixel size and every POSITIVE dose the 1 × 2 integer image `(1, 0)` comes back as
`(0, 0)` — the filtered image `((1+γ)/2, (1−γ)/2)`, `0 < γ < 1`, is truncated to nothing.  So on integer stacks the output is not the
attenuated image, and its zero-frequency component (1 before, 0 after) and mean are not preserved. -/
theorem int_stack_counterexample (px : ℝ) {d : ℝ} (hd : 0 < d) :
    doseFilterInt realOps (gg realOps) dft12 io12 px [(1, 0)] [d] = some [(0, 0)] ∧
    (dft12.fft2 (io12.ofInt (1, 0)) 0 0).re = 1 ∧ (dft12.fft2 (io12.ofInt (0, 0)) 0 0).re = 0 := by
  obtain ⟨m0, m1p, m1l⟩ := mult12 px hd
  refine ⟨?_, by simp [dft12, io12], by simp [dft12, io12]⟩
  unfold doseFilterInt doseFilter
  rw [if_neg (by simp)]
  simp only [List.map_cons, List.map_nil, List.zipWith_cons_cons, List.zipWith_nil_right, Option.map_some]
  have e : doseFilterSingle realOps (gg realOps) dft12 px d (io12.ofInt (1, 0)) = filt dft12 px d ((1 : ℝ), (0 : ℝ)) := by
    simp [io12]
  rw [e, filt12, m0]
  have h1 : io12.trunc ((1 * ((1 : ℝ) + 0) + mult realOps (gg realOps) 2 1 px d 0 1 * (1 - 0)) / 2,
      (1 * ((1 : ℝ) + 0) - mult realOps (gg realOps) 2 1 px d 0 1 * (1 - 0)) / 2) = (0, 0) := by
    simp only [io12]
    rw [truncR_of_lt_one (by linarith) (by linarith), truncR_of_lt_one (by linarith) (by linarith)]
  rw [h1]

/-- ... while the same image in a floating-point stack keeps its zero-frequency component (`filter_dc` at the 1 × 2 DFT) -/
example (px d : ℝ) : (dft12.fft2 (filt dft12 px d (1, 0)) 0 0) = dft12.fft2 ((1 : ℝ), (0 : ℝ)) 0 0 :=
  filter_dc dft12_isDFT px d (1, 0) (by decide) (by decide)

/-! ### non-vacuity: the hypotheses are satisfiable -/

/-- a Fourier service obeying `IsDFT` exists (the 1 × 2 DFT), so the image-level theorems are not vacuous -/
example : IsDFT dft12 := dft12_isDFT
/-- ... and one with generic content: the exact 2 × 3 DFT of real images (complex coefficients, twiddle `e^{-2πi/3}`, the
Hermitian pair `u = 1 ↔ u = 2`; `Lemmas/C16_Dft23`; probe `dft23-is-numpy-fft2` compares its formula with numpy) -/
example : IsDFT dft23 := dft23_isDFT
/-- the image-level theorems instantiated there: a 2 × 3 image filtered with doses 30 and then 12 at 1.5 Å/pixel -/
example (x : Img23) : filt dft23 1.5 12 (filt dft23 1.5 30 x) = filt dft23 1.5 42 x := by
  have := filter_compose dft23_isDFT 1.5 30 12 x; norm_num at this ⊢; exact this
example (x : Img23) (v : Fin 2) (u : Fin 3) :
    dft23.fft2 (filt dft23 1.5 30 x) v u = Cx.smul (G 3 2 1.5 30 v u) (dft23.fft2 x v u) := filter_spectrum dft23_isDFT 1.5 30 x v u
/-- the twiddle tables of `dft23` are the cosines / sines of the cube roots of unity -/
example : cos3 1 = Real.cos (2 * Real.pi / 3) ∧ sin3 1 = Real.sin (2 * Real.pi / 3) := ⟨cos3_one, sin3_one⟩
example : filt dft12 2 0 (3, 5) = (3, 5) := filter_zero_dose dft12_isDFT 2 (3, 5)
/-- `filter_mean`'s hypothesis `hmean` instantiated: at the 1 × 2 DFT the mean `(a + b)/2` is the zero-frequency coefficient over the
pixel count, so the mean of the filtered image is the mean of the image -/
example (px d : ℝ) (x : ℝ × ℝ) : ((filt dft12 px d x).1 + (filt dft12 px d x).2) / 2 = (x.1 + x.2) / 2 :=
  filter_mean dft12_isDFT px d x (by decide) (by decide) (fun y => (y.1 + y.2) / 2) (fun y => by simp [dft12])
/-- a Fourier service for EVERY size: the exact complex DFT -/
example (H W : Nat) (hH : 0 < H) (hW : 0 < W) : IsDFT (dftN H W) := dftN_isDFT hH hW
/-- the integer conversions of the witness survive the round trip (hypothesis `hio` of `int_stack_zero_dose_identity`) -/
example : doseFilterInt realOps (gg realOps) dft12 io12 1.5 [(3, -5), (0, 7)] (List.replicate 2 0) = some [(3, -5), (0, 7)] :=
  int_stack_zero_dose_identity dft12_isDFT io12 io12_roundtrip 1.5 [(3, -5), (0, 7)]
/-- a non-DC coefficient of a 6 × 5 image (`u = 3` is the Nyquist column, `v = 4` has signed frequency −1) -/
example : (3 < 6 ∧ 4 < 5) ∧ ¬ (sfreq 6 3 = 0 ∧ sfreq 5 4 = 0) ∧ sfreq 6 3 = -3 ∧ sfreq 5 4 = -1 := by decide
example : ∃ out, filtStack dft12 2 [(1, 2), (3, 4)] [30, 10, 20] = some out ∧ out.length = 2 :=
  let ⟨out, h, hl, _⟩ := stack_pairs_doses dft12 2 [(1, 2), (3, 4)] [30, 10, 20] (by decide)
  ⟨out, h, hl⟩

end CryoCat.C16
