import CryoCat.Lemmas.C16_Filter
import CryoCat.Lemmas.C16_Dft23
/-! C16 — property theorems (only theorems and non-vacuity examples).

"Dose filtering multiplies every spatial-frequency component f (cycles per Angstrom, from pixel size and image
dimensions) of tilt image i by exp(-dose_i / (2*(0.245*f^-1.665 + 2.81))) and leaves the zero-frequency component,
hence the image mean, unchanged. Consequently zero dose is the identity, the filter is linear, power never increases
at any frequency, more dose attenuates more, and filtering with d1 and then d2 equals filtering once with d1+d2."

The model (`Model/C16`) is instantiated at `ℝ` with `Real.exp`, `Real.rpow`, `Real.sqrt` (`realOps`); the constants
are the ones regenerated from the source (`gg realOps`).  `G W H px d v u` (defined in `Lemmas/C16_Filter`, like `physFreq`, `filt`, `filtStack`) abbreviates the multiplier
the model applies to the raw DFT coefficient `[v, u]` of an `H × W` image. -/
namespace CryoCat.C16

/-! ### translator obligations: what the source says today is what the statement says -/

theorem anchors_ok : Gen.C16.anchorsOk = true := by decide

/-- `a = 0.245`, `b = -1.665`, `c = 2.81` (decimal literals of the source as exact fractions) -/
theorem constants_documented :
    (Gen.C16.ggA.1 * 1000 = 245 * Gen.C16.ggA.2 ∧ 0 < Gen.C16.ggA.2) ∧
    (Gen.C16.ggB.1 * 1000 = -1665 * Gen.C16.ggB.2 ∧ 0 < Gen.C16.ggB.2) ∧
    (Gen.C16.ggC.1 * 100 = 281 * Gen.C16.ggC.2 ∧ 0 < Gen.C16.ggC.2) := by decide

/-- the signatures, in particular the DEFAULT values the statement's call patterns rely on: `output_file=None` (nothing is
written unless asked), `input_order='xyz'`, `output_order='xyz'`, and `sort_mdoc=True` of the dose loader (an `.mdoc` is
re-sorted by tilt angle before doses are paired with images).  The correspondence run omits each keyword in ~30 % of
the calls and expects exactly these values. -/
theorem defaults_documented :
    Gen.C16.stackSig = "dose_filter(tilt_stack,pixel_size,total_dose,output_file=None,input_order='xyz',output_order='xyz')" ∧
    Gen.C16.singleSig = "dose_filter_single_image(image,dose,freq_array)" ∧
    Gen.C16.doseLoadSig = "total_dose_load(input_dose,sort_mdoc=True)" ∧
    Gen.C16.tsInit = "TiltStack(tilt_stack=tilt_stack,input_order=input_order,output_order=output_order)" := by decide

/-- the WHOLE body of `dose_filter_single_image` (statement kinds and expressions, locals renamed to their documented
names by order of first binding, docstring and `print` dropped): no statement besides the ones `doseFilterSingle` models —
in particular no second write to `q`, `ft` (element stores, augmented assignments) -/
theorem single_image_body_documented :
    Gen.C16.singleBody =
      ["a=0.245", "b=-1.665", "c=2.81",
       "ft=np.fft.fftshift(np.fft.fft2(image))",
       "q=np.exp(-dose/(2*(a*freq_array**b+c)))",
       "filtered_image=np.fft.ifft2(np.fft.ifftshift(ft*q))",
       "return filtered_image.real"] := by rfl

/-- the WHOLE body of `dose_filter`: load, frequency array (zeros, centres, steps, double loop with ONE element store), a
private writable copy of the data (`np.array(ts.data, copy=True)`: the caller's stack is never written), the per-tilt
loop, optional write-out, return in the requested order — nothing else -/
theorem dose_filter_body_documented :
    Gen.C16.stackBody =
      ["ts=TiltStack(tilt_stack=tilt_stack,input_order=input_order,output_order=output_order)",
       "pixel_size=float(pixel_size)",
       "total_dose=ioutils.total_dose_load(total_dose)",
       "frequency_array=np.zeros((ts.height,ts.width))",
       "cen_x=ts.width//2",
       "cen_y=ts.height//2",
       "rstep_x=1/(ts.width*pixel_size)",
       "rstep_y=1/(ts.height*pixel_size)",
       "for x in range(ts.width)",
       ".for y in range(ts.height)",
       "..d=np.sqrt((x-cen_x)**2*rstep_x**2+(y-cen_y)**2*rstep_y**2)",
       "..frequency_array[y,x]=d",
       "ts.data=np.array(ts.data,copy=True)",
       "for z in range(ts.n_tilts)",
       ".image=ts.data[z,:,:]",
       ".ts.data[z,:,:]=dose_filter_single_image(image,total_dose[z],frequency_array)",
       "ts.write_out(output_file)",
       "return ts.correct_order()"] := by rfl

/-- the WHOLE body of `ioutils.total_dose_load`, including the branch the correspondence run never executes (Warp `.xml`):
arrays pass through, lists through `np.asarray`, `.csv` gives `CorrectedDose` of the rows not `Removed`, `.mdoc` is sorted
by tilt angle and gives `ExposureDose + PriorRecordDose` (or `ExposureDose · (rank by DateTime + 1)` restored to tilt
order), any other path is read one value per line -/
theorem total_dose_load_body_documented :
    Gen.C16.doseLoadBody =
      ["if isinstance(input_dose,np.ndarray)",
       ".return input_dose",
       "else",
       ".if isinstance(input_dose,list)",
       "..return np.asarray(input_dose)",
       ".else",
       "..if isinstance(input_dose,str)",
       "...if input_dose.endswith('.csv')",
       "....df=pd.read_csv(input_dose,index_col=0)",
       "....if 'CorrectedDose'indf.columns",
       ".....if 'Removed'indf.columns",
       "......return df.loc[df['Removed']==False,'CorrectedDose'].astype(np.single).to_numpy()",
       ".....else",
       "......return df['CorrectedDose'].astype(np.single).to_numpy()",
       "....else",
       ".....raise ValueError",
       "...else",
       "....if input_dose.endswith('.mdoc')",
       ".....mdoc_file=mdoc.Mdoc(input_dose)",
       ".....if sort_mdoc",
       "......mdoc_file.sort_by_tilt(reset_z_value=False)",
       ".....image_dose=mdoc_file.get_image_feature('ExposureDose').values",
       ".....if 'PriorRecordDose'inmdoc_file.imgs",
       "......prior_dose=mdoc_file.get_image_feature('PriorRecordDose').values",
       "......total_dose=image_dose+prior_dose",
       "......return total_dose",
       ".....else",
       "......mdoc_file.imgs['original_order']=range(len(mdoc_file.imgs))",
       "......mdoc_file.imgs['DateTime']=pd.to_datetime(mdoc_file.imgs['DateTime'])",
       "......sorted_df=mdoc_file.imgs.sort_values('DateTime')",
       "......sorted_df.reset_index(drop=True,inplace=True)",
       "......sorted_df['total_dose']=sorted_df['ExposureDose']*(sorted_df.index+1)",
       "......result_df=sorted_df.sort_values('original_order').drop(columns=['original_order'])",
       "......return result_df['total_dose'].values",
       "....else",
       ".....if input_dose.endswith('.xml')",
       "......total_dose=get_data_from_warp_xml(input_dose,'Dose',node_level=1)",
       "......return total_dose",
       ".....else",
       "......total_dose=one_value_per_line_read(input_dose)",
       "......return total_dose",
       "..else",
       "...raise ValueError"] := by rfl

/-- the constants the model computes with, at the reals, are the statement's -/
theorem constants_real : gg realOps = { a := 0.245, b := -1.665, c := 2.81 } := gg_real

/-- the attenuation expression of `dose_filter_single_image` has the skeleton the model `atten` has -/
theorem q_expression_documented : Gen.C16.qExpr = "np.exp(-dose/(2*(a*freq_array**b+c)))" := by decide

/-- `ft = fftshift(fft2(image))`, `ifft2(ifftshift(ft * q))`, `.real` — the pipeline of `doseFilterSingle` -/
theorem single_image_pipeline_documented :
    Gen.C16.ftExpr = "np.fft.fftshift(np.fft.fft2(image))" ∧
    Gen.C16.outExpr = "np.fft.ifft2(np.fft.ifftshift(ft*q))" ∧
    Gen.C16.retExpr = "filtered_image.real" := by decide

/-- centres `n // 2`, reciprocal steps `1/(n*pixel_size)`, `d = sqrt(...)`, stored at `[y, x]`, over the full ranges —
the expressions `cen`, `rstep`, `freqK`, `freqArray` model -/
theorem frequency_array_documented :
    Gen.C16.cenX = "ts.width//2" ∧ Gen.C16.cenY = "ts.height//2" ∧
    Gen.C16.rstepX = "1/(ts.width*pixel_size)" ∧ Gen.C16.rstepY = "1/(ts.height*pixel_size)" ∧
    Gen.C16.freqExpr = "np.sqrt((x-cen_x)**2*rstep_x**2+(y-cen_y)**2*rstep_y**2)" ∧
    Gen.C16.freqStore = "frequency_array[y,x]=d" ∧ Gen.C16.freqInit = "np.zeros((ts.height,ts.width))" ∧
    Gen.C16.loopRangeX = "range(ts.width)" ∧ Gen.C16.loopRangeY = "range(ts.height)" := by decide

/-- image `z` is filtered with `total_dose[z]`, doses given as arrays/lists pass through `total_dose_load` unchanged —
the pairing `doseFilter` models -/
theorem per_tilt_pairing_documented :
    Gen.C16.loopRangeZ = "range(ts.n_tilts)" ∧ Gen.C16.imageExpr = "ts.data[z,:,:]" ∧
    Gen.C16.pairExpr = "ts.data[z,:,:]=dose_filter_single_image(image,total_dose[z],frequency_array)" ∧
    Gen.C16.doseLoad = "ioutils.total_dose_load(total_dose)" ∧ Gen.C16.pixelCast = "float(pixel_size)" ∧
    Gen.C16.returnExpr = "ts.correct_order()" ∧
    Gen.C16.doseLoadPassthrough
      = "isinstance(input_dose,np.ndarray)->input_dose;isinstance(input_dose,list)->np.asarray(input_dose)" := by decide

/-! ### the multiplier: which frequency, which factor -/

/-- **Frequency scaling** (even and odd sizes): the entry of `frequency_array` that meets raw DFT coefficient `[v, u]`
after `fftshift` is the physical frequency of that coefficient. -/
theorem frequency_is_physical {W H : Nat} (px : ℝ) {v u : Nat} (hv : v < H) (hu : u < W) :
    freqArray realOps W H px (ishiftSrc H v) (ishiftSrc W u) = physFreq W H px v u := by
  unfold freqArray
  rw [kOfPos_ishiftSrc hv, kOfPos_ishiftSrc hu, freqK_real]

/-- after `fftshift`, position `x` carries integer frequency `x − ⌊n/2⌋`, and `fftshift`/`ifftshift` undo each other -/
theorem fftshift_index {n : Nat} :
    (∀ k, k < n → kOfPos n (ishiftSrc n k) = sfreq n k) ∧
    (∀ k, k < n → shiftSrc n (ishiftSrc n k) = k) ∧ (∀ x, x < n → ishiftSrc n (shiftSrc n x) = x) :=
  ⟨fun _ h => kOfPos_ishiftSrc h, fun _ h => shiftSrc_ishiftSrc h, fun _ h => ishiftSrc_shiftSrc h⟩

/-- the frequency is zero exactly at the zero-frequency coefficient (justifies the model's case split) -/
theorem frequency_zero_iff_dc {W H : Nat} {px : ℝ} (hpx : 0 < px) {v u : Nat} (hv : v < H) (hu : u < W) :
    physFreq W H px v u = 0 ↔ (sfreq W u = 0 ∧ sfreq H v = 0) := by
  have := freqK_eq_zero_iff (W := W) (H := H) (by omega) (by omega) hpx (sfreq W u) (sfreq H v)
  rwa [freqK_real] at this

/-- **Grant–Grigorieff attenuation at every non-zero frequency**: coefficient `[v, u]` is multiplied by
`exp(−d / (2·(0.245·f^(−1.665) + 2.81)))`, `f` its physical frequency. -/
theorem attenuation_formula {W H : Nat} (px d : ℝ) {v u : Nat} (hv : v < H) (hu : u < W)
    (hnz : ¬ (sfreq W u = 0 ∧ sfreq H v = 0)) :
    G W H px d v u
      = Real.exp (-d / (2 * (0.245 * (physFreq W H px v u) ^ (-1.665 : ℝ) + 2.81))) := by
  unfold G
  rw [mult_eq_gainK _ _ _ _ hv hu, gainK_real_ne _ _ _ _ hnz, freqK_real, gg_real]
  rfl

/-- **zero frequency unchanged**: the factor at DFT coefficient `[0, 0]` is exactly 1, whatever the dose -/
theorem dc_gain_one {W H : Nat} (hW : 0 < W) (hH : 0 < H) (px d : ℝ) : G W H px d 0 0 = 1 := by
  unfold G
  rw [mult_eq_gainK _ _ _ _ hH hW, sfreq_zero hW, sfreq_zero hH, gainK_dc]

/-- zero dose: every factor is 1 -/
theorem gain_zero_dose (W H : Nat) (px : ℝ) (v u : Nat) : G W H px 0 v u = 1 :=
  gainK_zero_dose _ _ _ _ _ _

/-- factors of `d₁` and `d₂` multiply to the factor of `d₁ + d₂` -/
theorem gain_mul (W H : Nat) (px d₁ d₂ : ℝ) (v u : Nat) : G W H px d₁ v u * G W H px d₂ v u = G W H px (d₁ + d₂) v u :=
  gainK_add _ _ _ _ _ _ _ _

/-- every factor lies in `(0, 1]` for a non-negative dose -/
theorem gain_pos_le_one (W H : Nat) (px : ℝ) {d : ℝ} (hd : 0 ≤ d) (v u : Nat) :
    0 < G W H px d v u ∧ G W H px d v u ≤ 1 :=
  ⟨gainK_pos _ _ _ _ _ _ _,
   gainK_le_one _ _ _ _ _ _ (by rw [gg_real]; exact ggDoc_a_nonneg) (by rw [gg_real]; exact ggDoc_c_pos) hd⟩

/-- more dose, smaller factor — at every frequency -/
theorem gain_antitone (W H : Nat) (px : ℝ) {d₁ d₂ : ℝ} (h : d₁ ≤ d₂) (v u : Nat) : G W H px d₂ v u ≤ G W H px d₁ v u :=
  gainK_antitone _ _ _ _ _ _ (by rw [gg_real]; exact ggDoc_a_nonneg) (by rw [gg_real]; exact ggDoc_c_pos) h

/-- the factor is the same for a coefficient and its complex-conjugate partner (so real images stay real) -/
theorem gain_hermitian_even {W H : Nat} (px d : ℝ) (v : Fin H) (u : Fin W) :
    G W H px d (negFin v).val (negFin u).val = G W H px d v.val u.val := mult_even _ _ _ _ _ _

/-! ### image level: for every Fourier service obeying the DFT laws `IsDFT` -/

section image
variable {Img : Type} [Add Img] [SMul ℝ Img] {H W : Nat} {fft : FFT Img ℝ H W}

/-- **every spatial-frequency component is multiplied by the factor `G`** -/
theorem filter_spectrum (hD : IsDFT fft) (px d : ℝ) (x : Img) (v : Fin H) (u : Fin W) :
    fft.fft2 (filt fft px d x) v u = Cx.smul (G W H px d v u) (fft.fft2 x v u) := by
  unfold filt
  rw [doseFilterSingle_eq]
  have := hD.even_mult (fun v u => mult realOps (gg realOps) W H px d v.val u.val)
    (fun v u => mult_even _ _ _ _ _ _) x
  exact congrFun (congrFun this v) u

/-- **zero dose is the identity** -/
theorem filter_zero_dose (hD : IsDFT fft) (px : ℝ) (x : Img) : filt fft px 0 x = x := by
  unfold filt
  rw [doseFilterSingle_eq]
  have : (fun (v : Fin H) (u : Fin W) => Cx.smul (mult realOps (gg realOps) W H px 0 v.val u.val) (fft.fft2 x v u))
      = fft.fft2 x := by
    funext v u; rw [show mult realOps (gg realOps) W H px 0 v.val u.val = 1 from gain_zero_dose W H px _ _, Cx.one_smul]
  rw [this, hD.inv_left]

/-- **linear** (additive) -/
theorem filter_add (hD : IsDFT fft) (px d : ℝ) (x y : Img) : filt fft px d (x + y) = filt fft px d x + filt fft px d y := by
  unfold filt
  simp only [doseFilterSingle_eq]
  rw [← hD.ifft_add, hD.fft_add]
  congr 1; funext v u; rw [Cx.smul_add]

/-- **linear** (homogeneous) -/
theorem filter_smul (hD : IsDFT fft) (px d c : ℝ) (x : Img) : filt fft px d (c • x) = c • filt fft px d x := by
  unfold filt
  simp only [doseFilterSingle_eq]
  rw [← hD.ifft_smul, hD.fft_smul]
  congr 1; funext v u; rw [Cx.smul_comm]

/-- **filtering with `d₁` and then `d₂` equals filtering once with `d₁ + d₂`** -/
theorem filter_compose (hD : IsDFT fft) (px d₁ d₂ : ℝ) (x : Img) :
    filt fft px d₂ (filt fft px d₁ x) = filt fft px (d₁ + d₂) x := by
  have key : (fun (v : Fin H) (u : Fin W) => Cx.smul (mult realOps (gg realOps) W H px d₂ v.val u.val) (fft.fft2 (filt fft px d₁ x) v u))
      = fun v u => Cx.smul (mult realOps (gg realOps) W H px (d₁ + d₂) v.val u.val) (fft.fft2 x v u) := by
    funext v u
    rw [filter_spectrum hD, Cx.smul_smul, mul_comm]
    congr 1
    exact gain_mul W H px d₁ d₂ v u
  show doseFilterSingle realOps (gg realOps) fft px d₂ (filt fft px d₁ x) = doseFilterSingle realOps (gg realOps) fft px (d₁ + d₂) x
  rw [doseFilterSingle_eq, key, ← doseFilterSingle_eq]

/-- **power never increases at any frequency** (non-negative dose) -/
theorem filter_power_le (hD : IsDFT fft) (px : ℝ) {d : ℝ} (hd : 0 ≤ d) (x : Img) (v : Fin H) (u : Fin W) :
    Cx.power (fft.fft2 (filt fft px d x) v u) ≤ Cx.power (fft.fft2 x v u) := by
  rw [filter_spectrum hD, Cx.power_smul]
  obtain ⟨h0, h1⟩ := gain_pos_le_one W H px hd v u
  have hp := Cx.power_nonneg (fft.fft2 x v u)
  have : (G W H px d v u) ^ 2 ≤ 1 := by nlinarith
  nlinarith

/-- **more dose attenuates more**, at every frequency -/
theorem filter_more_dose (hD : IsDFT fft) (px : ℝ) {d₁ d₂ : ℝ} (h : d₁ ≤ d₂) (x : Img) (v : Fin H) (u : Fin W) :
    Cx.power (fft.fft2 (filt fft px d₂ x) v u) ≤ Cx.power (fft.fft2 (filt fft px d₁ x) v u) := by
  rw [filter_spectrum hD, filter_spectrum hD, Cx.power_smul, Cx.power_smul]
  have h2 := gainK_pos (gg realOps) W H px (kOfPos W (ishiftSrc W u)) (kOfPos H (ishiftSrc H v)) d₂
  have h12 := gain_antitone W H px h v u
  have hp := Cx.power_nonneg (fft.fft2 x v u)
  have h2' : 0 < G W H px d₂ v u := h2
  have : (G W H px d₂ v u) ^ 2 ≤ (G W H px d₁ v u) ^ 2 := by nlinarith
  exact mul_le_mul_of_nonneg_right this hp

/-- **the zero-frequency component is unchanged** -/
theorem filter_dc (hD : IsDFT fft) (px d : ℝ) (x : Img) (hH : 0 < H) (hW : 0 < W) :
    fft.fft2 (filt fft px d x) ⟨0, hH⟩ ⟨0, hW⟩ = fft.fft2 x ⟨0, hH⟩ ⟨0, hW⟩ := by
  rw [filter_spectrum hD]
  show Cx.smul (G W H px d 0 0) _ = _
  rw [dc_gain_one hW hH, Cx.one_smul]

/-- **hence the image mean is unchanged** (for any `mean` that is the zero-frequency coefficient over the pixel count,
as the DFT's is) -/
theorem filter_mean (hD : IsDFT fft) (px d : ℝ) (x : Img) (hH : 0 < H) (hW : 0 < W) (mean : Img → ℝ)
    (hmean : ∀ y, mean y = (fft.fft2 y ⟨0, hH⟩ ⟨0, hW⟩).re / ((H : ℝ) * (W : ℝ))) :
    mean (filt fft px d x) = mean x := by
  rw [hmean, hmean, filter_dc hD]

/-! ### the stack: image `z` gets dose `z` -/

omit [Add Img] [SMul ℝ Img] in
/-- a dose list shorter than the stack is rejected (`IndexError`), anything else is accepted -/
theorem stack_rejects_iff (fft : FFT Img ℝ H W) (px : ℝ) (stack : List Img) (doses : List ℝ) :
    filtStack fft px stack doses = none ↔ doses.length < stack.length := by
  unfold filtStack doseFilter; split <;> simp_all

omit [Add Img] [SMul ℝ Img] in
/-- **per-image dose pairing**: the output has one image per input image, and image `i` is image `i` of the input
filtered with `doses[i]` — for every order of the doses -/
theorem stack_pairs_doses (fft : FFT Img ℝ H W) (px : ℝ) (stack : List Img) (doses : List ℝ)
    (h : stack.length ≤ doses.length) :
    ∃ out, filtStack fft px stack doses = some out ∧ out.length = stack.length ∧
      ∀ i (hi : i < stack.length), out[i]? = some (filt fft px (doses[i]'(by omega)) stack[i]) := by
  refine ⟨_, by unfold filtStack doseFilter; rw [if_neg (by omega)], by simp; omega, ?_⟩
  intro i hi
  simp [List.getElem?_zipWith, List.getElem?_eq_getElem hi, List.getElem?_eq_getElem (show i < doses.length by omega)]

end image

/-! ### non-vacuity: the hypotheses are satisfiable -/

/-- a Fourier service obeying `IsDFT` exists (the 1 × 2 DFT), so the image-level theorems are not vacuous -/
example : IsDFT dft12 := dft12_isDFT
/-- ... and one with generic content: the exact 2 × 3 DFT of real images (complex coefficients, twiddle `e^{-2πi/3}`, the
Hermitian pair `u = 1 ↔ u = 2`; `Lemmas/C16_Dft23`; probe `dft23-is-numpy-fft2` compares its formula with numpy) -/
example : IsDFT dft23 := dft23_isDFT
/-- the image-level theorems instantiated there: a 2 × 3 image filtered with doses 30 and then 12 at 1.5 Å/pixel -/
example (x : Img23) : filt dft23 1.5 12 (filt dft23 1.5 30 x) = filt dft23 1.5 42 x := by
  have := filter_compose dft23_isDFT 1.5 30 12 x; norm_num at this ⊢; exact this
example (x : Img23) (v : Fin 2) (u : Fin 3) :
    dft23.fft2 (filt dft23 1.5 30 x) v u = Cx.smul (G 3 2 1.5 30 v u) (dft23.fft2 x v u) := filter_spectrum dft23_isDFT 1.5 30 x v u
/-- the twiddle tables of `dft23` are the cosines / sines of the cube roots of unity -/
example : cos3 1 = Real.cos (2 * Real.pi / 3) ∧ sin3 1 = Real.sin (2 * Real.pi / 3) := ⟨cos3_one, sin3_one⟩
example : filt dft12 2 0 (3, 5) = (3, 5) := filter_zero_dose dft12_isDFT 2 (3, 5)
/-- a non-DC coefficient of a 6 × 5 image (`u = 3` is the Nyquist column, `v = 4` has signed frequency −1) -/
example : (3 < 6 ∧ 4 < 5) ∧ ¬ (sfreq 6 3 = 0 ∧ sfreq 5 4 = 0) ∧ sfreq 6 3 = -3 ∧ sfreq 5 4 = -1 := by decide
example : ∃ out, filtStack dft12 2 [(1, 2), (3, 4)] [30, 10, 20] = some out ∧ out.length = 2 :=
  let ⟨out, h, hl, _⟩ := stack_pairs_doses dft12 2 [(1, 2), (3, 4)] [30, 10, 20] (by decide)
  ⟨out, h, hl⟩

end CryoCat.C16
