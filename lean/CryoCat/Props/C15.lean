import CryoCat.Lemmas.C15_ops
import CryoCat.Lemmas.C15_bin
import CryoCat.Lemmas.C15_hard
import CryoCat.Lemmas.C15_angles
/-! C15 — property theorems: tilt-stack operations are lossless selections / permutations of tilt images.

Only theorems and non-vacuity examples; helper lemmas live in `Lemmas/C15*.lean`. Conventions of the model
(`Model/C15.lean`): a loaded stack is `zyx` (`d0` tilts × `d1` rows × `d2` columns); images `ι` and voxels `α` are
opaque type parameters wherever the operation only moves data. -/
namespace CryoCat.C15
variable {α ι κ : Type}

/-! ### translator obligations: what the source says today is the documented convention

The generated file holds, for every function the property is about, a normalised dump of its WHOLE body (local variables
alpha-renamed `v0, v1, …` in the order of their first binding, so a rename of a local changes nothing; docstrings, `print`
calls and exception messages dropped). The literals below were written from the pinned source; an added, removed, reordered
or edited statement breaks the corresponding theorem. -/

theorem anchors_ok : Gen.C15.anchorsOk = true := by decide

/-- `flip_along_axes`: `'x'` reverses the rows (numpy axis 1 of the `zyx` data, IMOD `clip flipx`), `'y'` the columns
(axis 2), `'z'` the order of the tilts (axis 0) — each branch reverses exactly one axis -/
theorem flip_table_documented : Gen.C15.flipTable = [("x", 1), ("y", 2), ("z", 0)] := by decide

/-- `indices_load`: `indices = indices - 1` (a fresh array) under `if numbered_from_1`, then `return indices` -/
theorem index_shift_documented : Gen.C15.indexShift = 1 ∧ Gen.C15.indexShiftGuard = "numbered_from_1" := by decide

/-- `split_stack_even_odd`: `i % 2 == 0` goes to the stack that is written to `_even.mrc` and returned first -/
theorem even_rule_documented : Gen.C15.evenRemainder = 0 := by decide

/-- `TiltStack.__init__` / `correct_order` / `write_out`: arrays are transposed by `(2,1,0)` iff `input_order == "xyz"`,
files are read and written untransposed, the working order is `zyx`, the result is transposed by `(2,1,0)` iff the
output order differs from it -/
theorem order_handling_documented :
    Gen.C15.inTransposeAxes = [2, 1, 0] ∧ Gen.C15.inTransposeWhen = "input_order == 'xyz'"
    ∧ Gen.C15.outTransposeAxes = [2, 1, 0] ∧ Gen.C15.outTransposeWhen = "self.current_order != self.output_order"
    ∧ Gen.C15.currentOrder = "zyx" ∧ Gen.C15.readTranspose = false ∧ Gen.C15.writeTranspose = false := by decide

/-- `self.n_tilts, self.height, self.width = self.data.shape` -/
theorem shape_unpack_documented : Gen.C15.shapeUnpack = ["n_tilts", "height", "width"] := by decide

/-- **Signature defaults the statement depends on**: indices are 1-based unless the caller says otherwise, arrays come in
and go out as `x,y,n` unless the caller says otherwise; no output file, no crop size by default -/
theorem defaults_documented :
    Gen.C15.defaultNumberedFrom1 = true ∧ Gen.C15.defaultInputOrder = "xyz" ∧ Gen.C15.defaultOutputOrder = "xyz"
    ∧ Gen.C15.signatures = 
      [("crop", "tilt_stack, new_width, new_height, output_file, input_order, output_order"),
          ("crop.new_width", "None"),
          ("crop.new_height", "None"),
          ("crop.output_file", "None"),
          ("crop.input_order", "'xyz'"),
          ("crop.output_order", "'xyz'"),
          ("sort_tilts_by_angle", "tilt_stack, input_tilts, output_file, input_order, output_order"),
          ("sort_tilts_by_angle.output_file", "None"),
          ("sort_tilts_by_angle.input_order", "'xyz'"),
          ("sort_tilts_by_angle.output_order", "'xyz'"),
          ("remove_tilts", "tilt_stack, idx_to_remove, numbered_from_1, output_file, input_order, output_order"),
          ("remove_tilts.numbered_from_1", "True"),
          ("remove_tilts.output_file", "None"),
          ("remove_tilts.input_order", "'xyz'"),
          ("remove_tilts.output_order", "'xyz'"),
          ("bin", "tilt_stack, binning_factor, output_file, input_order, output_order"),
          ("bin.output_file", "None"),
          ("bin.input_order", "'xyz'"),
          ("bin.output_order", "'xyz'"),
          ("split_stack_even_odd", "tilt_stack, output_file_prefix, input_order, output_order"),
          ("split_stack_even_odd.output_file_prefix", "None"),
          ("split_stack_even_odd.input_order", "'xyz'"),
          ("split_stack_even_odd.output_order", "'xyz'"),
          ("flip_along_axes", "tilt_stack, axes, output_file, input_order, output_order"),
          ("flip_along_axes.output_file", "None"),
          ("flip_along_axes.input_order", "'xyz'"),
          ("flip_along_axes.output_order", "'xyz'"),
          ("TiltStack.__init__", "self, tilt_stack, input_order, output_order"),
          ("TiltStack.__init__.input_order", "'xyz'"),
          ("TiltStack.__init__.output_order", "'xyz'"),
          ("indices_load", "input_data, numbered_from_1"),
          ("indices_load.numbered_from_1", "True"),
          ("tlt_load", "input_tlt, sort_angles"),
          ("tlt_load.sort_angles", "True"),
          ("one_value_per_line_read", "file_path, data_type"),
          ("one_value_per_line_read.data_type", "np.float32"),
          ("Mdoc.__init__", "self, file_path, titles, project_info, imgs, section_id"),
          ("Mdoc.__init__.file_path", "None"),
          ("Mdoc.__init__.titles", "None"),
          ("Mdoc.__init__.project_info", "None"),
          ("Mdoc.__init__.imgs", "None"),
          ("Mdoc.__init__.section_id", "'ZValue'"),
          ("Mdoc.get_image_feature", "self, feature"),
          ("read", "input_map, transpose, data_type"),
          ("read.transpose", "True"),
          ("read.data_type", "None"),
          ("write", "data_to_write, file_name, transpose, data_type, overwrite"),
          ("write.transpose", "True"),
          ("write.data_type", "None"),
          ("write.overwrite", "True")] := ⟨rfl, rfl, rfl, rfl⟩

/-- what an omitted keyword means in the model the driver executes -/
theorem defaults_resolve :
    base1Of none = true ∧ inXyzOf none = true ∧ outZyxOf none = false
    ∧ (∀ b, base1Of (some b) = b) ∧ (∀ b, inXyzOf (some b) = b) ∧ (∀ b, outZyxOf (some b) = b) := by
  refine ⟨by decide, by decide, by decide, fun _ => rfl, fun _ => rfl, fun _ => rfl⟩

/-- **Each of the six functions is `TiltStack(...)` → operation → `write_out(output_file)` → `return correct_order()`**:
the constructor statement (all three arguments forwarded by keyword), every `write_out` statement, the return
statement, and the order facts (constructor before every other use of the stack, every update of `ts.data` before the
first `write_out`, the last `write_out` before the return, the return last). This is what makes `pipeline … op …`
(about which `order_naturality`, `output_order_only_transposes`, `written_file_holds_result` speak) the shape of the
real functions. -/
theorem wrappers_documented : Gen.C15.wrappers = 
      [("crop", ["v0 = TiltStack(tilt_stack=tilt_stack, input_order=input_order, output_order=output_order)", "v0.write_out(output_file)", "return v0.correct_order()", "order:construct<data-updates<write_out<return"]),
          ("sort_tilts_by_angle", ["v0 = TiltStack(tilt_stack=tilt_stack, input_order=input_order, output_order=output_order)", "v0.write_out(output_file)", "return v0.correct_order()", "order:construct<data-updates<write_out<return"]),
          ("remove_tilts", ["v0 = TiltStack(tilt_stack=tilt_stack, input_order=input_order, output_order=output_order)", "v0.write_out(output_file)", "return v0.correct_order()", "order:construct<data-updates<write_out<return"]),
          ("bin", ["v0 = TiltStack(tilt_stack=tilt_stack, input_order=input_order, output_order=output_order)", "v0.write_out(output_file)", "return v0.correct_order()", "order:construct<data-updates<write_out<return"]),
          ("split_stack_even_odd", ["v0 = TiltStack(tilt_stack=tilt_stack, input_order=input_order, output_order=output_order)", "v0.write_out(output_file_prefix + '_even.mrc', new_data=v1)", "v0.write_out(output_file_prefix + '_odd.mrc', new_data=v2)", "return (v0.correct_order(v1), v0.correct_order(v2))", "order:construct<data-updates<write_out<return"]),
          ("flip_along_axes", ["v0 = TiltStack(tilt_stack=tilt_stack, input_order=input_order, output_order=output_order)", "v0.write_out(output_file)", "return v0.correct_order()", "order:construct<data-updates<write_out<return"])] := rfl

/-- `crop`: sizes through `int(...)`, larger-than-stack requests refused, centre `size // 2`, start `centre - new // 2`,
end `start + new`, rows sliced by the height window and columns by the width window -/
theorem crop_expressions_documented : Gen.C15.cropBody = 
      ["v0 = TiltStack(tilt_stack=tilt_stack, input_order=input_order, output_order=output_order)",
      "if new_width is not None:",
      "  new_width = int(new_width)",
      "  if new_width > v0.width:",
      "    raise ValueError",
      "else:",
      "  new_width = v0.width",
      "if new_height is not None:",
      "  new_height = int(new_height)",
      "  if new_height > v0.height:",
      "    raise ValueError",
      "else:",
      "  new_height = v0.height",
      "v1, v2 = (v0.width // 2, v0.height // 2)",
      "v3 = int(v1 - int(new_width) // 2)",
      "v4 = int(v3 + int(new_width))",
      "v5 = int(v2 - int(new_height) // 2)",
      "v6 = int(v5 + int(new_height))",
      "v0.data = v0.data[:, v5:v6, v3:v4]",
      "v0.write_out(output_file)",
      "return v0.correct_order()"] := rfl

/-- `sort_tilts_by_angle`: angles loaded WITHOUT sorting, `np.argsort`, fancy-index on axis 0 -/
theorem sort_expressions_documented : Gen.C15.sortBody = 
      ["v0 = TiltStack(tilt_stack=tilt_stack, input_order=input_order, output_order=output_order)",
      "v1 = ioutils.tlt_load(input_tilts, sort_angles=False)",
      "v2 = np.argsort(v1)",
      "v0.data = v0.data[v2, :, :]",
      "v0.write_out(output_file)",
      "return v0.correct_order()"] := rfl

/-- `remove_tilts`: `indices_load` with the caller's `numbered_from_1`, bounds check `idx < 0 or idx >= n`, `np.delete` on axis 0 -/
theorem remove_expressions_documented : Gen.C15.removeBody = 
      ["v0 = TiltStack(tilt_stack=tilt_stack, input_order=input_order, output_order=output_order)",
      "v1 = ioutils.indices_load(idx_to_remove, numbered_from_1=numbered_from_1)",
      "v2 = v0.data.shape[0]",
      "if any((v3 < 0 or v3 >= v2 for v3 in v1)):",
      "  raise IndexError",
      "v0.data = np.delete(v0.data, v1, axis=0)",
      "v0.write_out(output_file)",
      "return v0.correct_order()"] := rfl

theorem bin_expression_documented : Gen.C15.binBody = 
      ["binning_factor = int(binning_factor)",
      "v0 = TiltStack(tilt_stack=tilt_stack, input_order=input_order, output_order=output_order)",
      "v0.data = downscale_local_mean(v0.data, (1, binning_factor, binning_factor))",
      "v0.write_out(output_file)",
      "return v0.correct_order()"] := rfl

theorem split_outputs_documented : Gen.C15.splitBody = 
      ["v0 = TiltStack(tilt_stack=tilt_stack, input_order=input_order, output_order=output_order)",
      "v1 = []",
      "v2 = []",
      "if not v0.n_tilts == 1:",
      "  for v3 in range(v0.n_tilts):",
      "    if v3 % 2 == 0:",
      "      v1.append(v0.data[v3, :, :])",
      "    else:",
      "      v2.append(v0.data[v3, :, :])",
      "  v1 = np.stack(v1, axis=0)",
      "  v2 = np.stack(v2, axis=0)",
      "  if output_file_prefix:",
      "    v0.write_out(output_file_prefix + '_even.mrc', new_data=v1)",
      "    v0.write_out(output_file_prefix + '_odd.mrc', new_data=v2)",
      "  return (v0.correct_order(v1), v0.correct_order(v2))",
      "else:",
      "  raise ValueError"] := rfl

theorem flip_body_documented : Gen.C15.flipBody = 
      ["v0 = TiltStack(tilt_stack=tilt_stack, input_order=input_order, output_order=output_order)",
      "if not isinstance(axes, list):",
      "  axes = [axes]",
      "for v1 in axes:",
      "  if v1 == 'x':",
      "    v0.data = v0.data[:, ::-1, :]",
      "  else:",
      "    if v1 == 'y':",
      "      v0.data = v0.data[:, :, ::-1]",
      "    else:",
      "      if v1 == 'z':",
      "        v0.data = v0.data[::-1, :, :]",
      "      else:",
      "        raise ValueError",
      "v0.write_out(output_file)",
      "return v0.correct_order()"] := rfl

/-- `TiltStack`: arrays are COPIED (`tilt_stack.copy()`), files read untransposed; `write_out` casts to the dtype of the
loaded stack and writes untransposed; `correct_order` casts to the same dtype, then transposes -/
theorem tiltstack_class_documented :
    Gen.C15.initBody = 
      ["if not isinstance(tilt_stack, np.ndarray):",
      "  self.data = cryomap.read(tilt_stack, transpose=False)",
      "  if self.data.shape == 2:",
      "    self.data = np.expand_dims(self.data, axis=0)",
      "else:",
      "  self.data = tilt_stack.copy()",
      "  if self.data.shape == 2:",
      "    if input_order == 'xyz':",
      "      self.data = np.expand_dims(self.data, axis=2)",
      "    else:",
      "      self.data = np.expand_dims(self.data, axis=0)",
      "  if input_order == 'xyz':",
      "    self.data = self.data.transpose(2, 1, 0)",
      "self.data_type = self.data.dtype",
      "self.input_order = input_order",
      "self.current_order = 'zyx'",
      "self.output_order = output_order",
      "self.n_tilts, self.height, self.width = self.data.shape"]
    ∧ Gen.C15.writeOutBody = 
      ["if output_file:",
      "  v0 = new_data if new_data is not None else self.data",
      "  cryomap.write(v0, output_file, data_type=self.data_type, transpose=False)"]
    ∧ Gen.C15.correctOrderBody = 
      ["v0 = new_data if new_data is not None else self.data",
      "if v0.dtype != self.data_type:",
      "  v0 = v0.astype(self.data_type)",
      "if self.current_order != self.output_order:",
      "  return v0.transpose(2, 1, 0)",
      "else:",
      "  return v0"] := ⟨rfl, rfl, rfl⟩

/-- `ioutils.indices_load` (csv: positions of the `True` cells, always 0-based; text file: `np.atleast_1d(np.loadtxt(...))`, so one entry is a one-element array; list/array:
`np.asarray`, refused when empty) and `ioutils.tlt_load` (arrays and lists pass through, files are sorted only on request) -/
theorem loaders_documented :
    Gen.C15.indicesLoadBody = 
      ["if isinstance(input_data, str):",
      "  if input_data.endswith('.csv'):",
      "    v0 = pd.read_csv(input_data)",
      "    if 'Removed' in v0.columns:",
      "      v0 = v0[~v0['Removed']]",
      "    v1 = v0['ToBeRemoved'].to_numpy().nonzero()[0]",
      "    numbered_from_1 = False",
      "  else:",
      "    v1 = np.atleast_1d(np.loadtxt(input_data, dtype=int))",
      "else:",
      "  if isinstance(input_data, list) or isinstance(input_data, np.ndarray):",
      "    v1 = np.asarray(input_data)",
      "    if len(v1) == 0:",
      "      raise ValueError",
      "  else:",
      "    raise ValueError",
      "if numbered_from_1:",
      "  v1 = v1 - 1",
      "return v1"]
    ∧ Gen.C15.tltLoadBody = 
      ["if isinstance(input_tlt, np.ndarray):",
      "  if input_tlt.size == 0:",
      "    raise ValueError",
      "  else:",
      "    return input_tlt",
      "else:",
      "  if isinstance(input_tlt, list):",
      "    if len(input_tlt) == 0:",
      "      raise ValueError",
      "    else:",
      "      return np.asarray(input_tlt)",
      "  else:",
      "    if isinstance(input_tlt, str):",
      "      if input_tlt.endswith('.mdoc'):",
      "        v0 = mdoc.Mdoc(input_tlt)",
      "        v1 = v0.get_image_feature('TiltAngle').values",
      "      else:",
      "        if input_tlt.endswith('.xml'):",
      "          v1 = get_data_from_warp_xml(input_tlt, 'Angles', node_level=1)",
      "        else:",
      "          v1 = one_value_per_line_read(input_tlt)",
      "      if sort_angles:",
      "        v1 = np.sort(v1)",
      "      return v1",
      "    else:",
      "      raise ValueError"] := ⟨rfl, rfl⟩

/-- **The readers the tilt angles pass through.** `one_value_per_line_read`: whitespace-separated `pd.read_csv` without header,
first column, dtype = the `data_type` parameter whose default is `np.float32` (`defaults_documented`) — so a `.tlt`/`.rawtlt`
angle is the written decimal rounded to float32, nothing else (no `np.round`, no sorting). The mdoc path: `Mdoc(path)` →
`_read_mdoc` → `_parse_images` (`_format_value` per entry, then `TiltAngle` → `astype(float)`: the written decimal rounded to
float64) → `get_image_feature` returns the column as is; `_parse_header` (last conjunct, round 7) takes a header line that starts
with `[` as a title WITHOUT splitting it — a real SerialEM title holds several `=` — and splits only key lines on `=`. This is what ties `parseDec` (the exact written value) to the key the
code sorts by; the correspondence run generates decimal angles as close as 1e-4° to check it. -/
theorem angle_readers_documented :
    Gen.C15.oneValuePerLineBody = 
      ["if not os.path.isfile(file_path):",
      "  raise ValueError",
      "try:",
      "  v0 = pd.read_csv(file_path, header=None, dtype=data_type, sep='\\\\s+')",
      "  if v0.empty:",
      "    raise ValueError",
      "except pd.errors.EmptyDataError:",
      "  raise ValueError",
      "return v0.iloc[:, 0].values"]
    ∧ Gen.C15.mdocInitBody = 
      ["if file_path and path.isfile(file_path):",
      "  self.file_path = file_path",
      "  self.titles, self.project_info, self.imgs, self.section_id = self._read_mdoc(file_path)",
      "else:",
      "  self.titles = titles",
      "  self.project_info = project_info",
      "  self.imgs = imgs",
      "  self.section_id = section_id"]
    ∧ Gen.C15.mdocReadBody = 
      ["with open(file_path, 'r') as v0:",
      "  v1 = v0.readlines()",
      "  v2 = []",
      "  for v3 in v1:",
      "    if v3.startswith('[ZValue'):",
      "      v4 = 'ZValue'",
      "      break",
      "    else:",
      "      if v3.startswith('[FrameSet'):",
      "        v4 = 'FrameSet'",
      "        break",
      "    if v3.strip():",
      "      v2.append(v3.strip())",
      "  v5, v6 = Mdoc._parse_header(v2)",
      "  v7 = v1[v1.index(v3):]",
      "  v8 = Mdoc._parse_images(v7, v4)",
      "  return (v5, v6, v8, v4)"]
    ∧ Gen.C15.mdocParseImagesBody = 
      ["v0 = []",
      "v1 = []",
      "for v2 in data:",
      "  if v2.startswith('[' + section_id) and v1:",
      "    v0.append(v1)",
      "    v1 = []",
      "  if v2.strip():",
      "    v1.append(v2)",
      "v0.append(v1)",
      "v3 = [section_id]",
      "v3.extend([v2.split('=')[0].strip() for v2 in v0[0][1:]])",
      "v4 = pd.DataFrame(columns=v3)",
      "for v1 in v0:",
      "  v5 = {}",
      "  for v2 in v1:",
      "    if v2.startswith('['):",
      "      v5[section_id] = v2.split('=')[1].strip().strip(']').strip()",
      "    else:",
      "      v6, v7 = v2.split('=')",
      "      v5[v6.strip()] = Mdoc._format_value(v7)",
      "  v4 = pd.concat([v4, pd.DataFrame(v5, index=[0], dtype=object)], ignore_index=True)",
      "v4['Removed'] = False",
      "v8 = v4.astype({section_id: int})",
      "v4[section_id] = v8[section_id]",
      "v4['TiltAngle'] = v4['TiltAngle'].astype(float)",
      "return v4"]
    ∧ Gen.C15.mdocFormatValueBody = 
      ["if value.strip().isdigit():",
      "  v0 = int(value.strip())",
      "else:",
      "  if value.strip().replace('.', '', 1).isdigit():",
      "    v0 = float(value.strip())",
      "  else:",
      "    v0 = value.strip()",
      "return v0"]
    ∧ Gen.C15.mdocFeatureBody = 
      ["return self.imgs[feature]"]
    ∧ Gen.C15.mdocParseHeaderBody = 
      ["v0 = []",
      "v1 = {}",
      "for v2 in header:",
      "  if v2.startswith('['):",
      "    v3 = v2.strip('[').strip(']').strip()",
      "    v0.append(v3)",
      "  else:",
      "    v4, v5 = v2.split('=')",
      "    v1[v4.strip()] = Mdoc._format_value(v5)",
      "return (v0, v1)"] := ⟨rfl, rfl, rfl, rfl, rfl, rfl, rfl⟩

/-- **The MRC reader and writer every operation passes through** (`cryomap.read` / `cryomap.write`, whole bodies — not only the
`transpose=` keyword of the two call sites): `read` returns a copy of `mrcfile.open(...).data`, transposed only on request, cast
only on request; `write` casts to `data_type`, converts big-endian data to little-endian (value-preserving `astype` to the same dtype in the
other byte order; repository fix ee78eb9 — the stacks of this property are native little-endian, for which the branch is not
taken), transposes only on request, stores float64 as float32 and hands the array to `mrcfile.write`. -/
theorem mrc_io_documented :
    Gen.C15.cryomapReadBody = 
      ["if isinstance(input_map, str):",
      "  def v0(filename):",
      "    v1 = '\\\\.(mrc|ali|rec|st)(\\\\.\\\\d+)?$'",
      "    return bool(re.search(v1, filename))",
      "  if v0(input_map):",
      "    v2 = mrcfile.open(input_map).data",
      "  else:",
      "    if input_map.endswith('.em'):",
      "      v2 = emfile.read(input_map)[1]",
      "    else:",
      "      raise ValueError",
      "  if transpose:",
      "    v2 = v2.transpose(2, 1, 0)",
      "else:",
      "  if isinstance(input_map, np.ndarray):",
      "    v2 = np.array(input_map)",
      "  else:",
      "    raise ValueError",
      "v2 = np.array(v2, copy=True)",
      "if data_type is not None:",
      "  v2 = v2.astype(data_type)",
      "return v2"]
    ∧ Gen.C15.cryomapWriteBody = 
      ["if data_type is not None:",
      "  data_to_write = data_to_write.astype(data_type)",
      "if data_to_write.dtype.byteorder == '>':",
      "  data_to_write = data_to_write.astype(data_to_write.dtype.newbyteorder('<'))",
      "if transpose and data_to_write.ndim == 3:",
      "  data_to_write = data_to_write.transpose(2, 1, 0)",
      "if data_to_write.dtype == np.float64:",
      "  data_to_write = data_to_write.astype(np.float32)",
      "if file_name.endswith('.mrc') or file_name.endswith('.rec'):",
      "  mrcfile.write(name=file_name, data=data_to_write, overwrite=overwrite)",
      "else:",
      "  if file_name.endswith('.em'):",
      "    emfile.write(file_name, data=data_to_write, overwrite=overwrite)",
      "  else:",
      "    raise ValueError"] := ⟨rfl, rfl⟩

/-! ### sorting by tilt angle -/

/-- **Sorting returns the same images reordered by ascending angle.** For every comparison `le` that is transitive and
TOTAL (hypotheses `htrans`, `htotal`), every list of angles (one per image; ties allowed here) and every stack: the result
is the second components of a list `ps` of (angle, image) pairs that is a permutation of the input pairs — every image
keeps its own angle, nothing is lost or duplicated — and is ascending in the angle.
The totality hypothesis is essential: IEEE `≤` on floats with a NaN is not total, so NaN angles are outside this theorem
(and outside the quantifier of the property; they are never generated). The model the driver executes sorts by the exact
rational value of the written angle, for which both hypotheses are proved: `sort_by_written_angles` is hypothesis-free. -/
theorem sort_perm_sorted (le : κ → κ → Bool)
    (htrans : ∀ a b c, le a b = true → le b c = true → le a c = true) (htotal : ∀ a b, (le a b || le b a) = true)
    (angles : List κ) (imgs : List ι) (hlen : angles.length = imgs.length) :
    ∃ ps : List (κ × ι), sortTilts le angles imgs = .ok (ps.map (·.2))
      ∧ ps.Perm (angles.zip imgs) ∧ ps.Pairwise (fun p q => le p.1 q.1 = true) := by
  obtain ⟨ps, hperm, hsorted, hres⟩ := sortTilts_spec le angles imgs hlen
  exact ⟨ps, hres, hperm, hsorted htrans htotal⟩

/-- in particular the sorted stack is a permutation of the input stack -/
theorem sort_is_permutation (le : κ → κ → Bool) (angles : List κ) (imgs r : List ι)
    (hlen : angles.length = imgs.length) (h : sortTilts le angles imgs = .ok r) : r.Perm imgs := by
  obtain ⟨ps, hperm, _, hres⟩ := sortTilts_spec le angles imgs hlen
  rw [hres] at h
  cases h
  have := hperm.map (·.2)
  rwa [List.map_snd_zip (by omega)] at this

/-- without ties (and with an antisymmetric comparison, hypothesis `hanti`) the ascending arrangement is unique: whatever
sorting algorithm numpy uses returns this list -/
theorem sort_unique_without_ties (le : κ → κ → Bool)
    (hanti : ∀ a b, le a b = true → le b a = true → a = b) (angles : List κ) (hnodup : angles.Nodup)
    (imgs : List ι) (hlen : angles.length = imgs.length) (ps qs : List (κ × ι))
    (hp : ps.Perm (angles.zip imgs)) (hq : qs.Perm (angles.zip imgs))
    (hps : ps.Pairwise (fun p q => le p.1 q.1 = true)) (hqs : qs.Pairwise (fun p q => le p.1 q.1 = true)) : ps = qs := by
  have hfst : ((angles.zip imgs).map (·.1)).Nodup := by rw [List.map_fst_zip (by omega)]; exact hnodup
  have hpq : ps.Perm qs := hp.trans hq.symm
  refine hpq.eq_of_pairwise (le := fun p q => le p.1 q.1 = true) ?_ hps hqs
  intro a b ha hb hab hba
  have hfe : a.1 = b.1 := hanti _ _ hab hba
  have ha' := hp.mem_iff.1 ha
  have hb' := hp.mem_iff.1 (hpq.mem_iff.2 hb)
  exact List.inj_on_of_nodup_map hfst ha' hb' hfe

/-! ### removing tilts -/

/-- **Removing tilts returns exactly the other images in their original order**, for 1-based (`base1`) and 0-based
indices, any order of the index list, repeated indices allowed: there is a strictly increasing list `keep` of
positions, consisting of exactly the positions `i < n` whose number `i + base` is not listed, and the result is the
images at those positions (none missing: the lengths agree). The code's refusals are part of the statement: the index
list is non-empty and every index denotes an existing image. -/
theorem remove_spec (base1 : Bool) (idxs : List Int) (imgs r : List ι) (h : removeTilts base1 idxs imgs = .ok r) :
    ∃ keep : List Nat, keep.Pairwise (· < ·)
      ∧ (∀ i, i ∈ keep ↔ i < imgs.length ∧ ((i : Int) + (if base1 then 1 else 0)) ∉ idxs)
      ∧ r = keep.filterMap (imgs[·]?) ∧ r.length = keep.length ∧ r.Sublist imgs
      ∧ idxs ≠ [] ∧ ∀ i ∈ idxs, (if base1 then 1 else 0) ≤ i ∧ i < (imgs.length : Int) + (if base1 then 1 else 0) := by
  obtain ⟨hne, hrange, hr⟩ := removeTilts_ok base1 idxs imgs r index_shift_documented.1 h
  let s := imgs.zipIdx.filter (fun p => !(idxs.contains ((p.2 : Int) + (if base1 then 1 else 0))))
  have hsub : s.Sublist imgs.zipIdx := List.filter_sublist
  refine ⟨s.map (·.2), ?_, ?_, ?_, ?_, ?_, hne, hrange⟩
  · have h1 : (s.map (·.2)).Sublist (imgs.zipIdx.map (·.2)) := hsub.map _
    rw [List.zipIdx_map_snd] at h1
    exact List.Pairwise.sublist h1 List.pairwise_lt_range'
  · intro i
    simp only [s, List.mem_map, List.mem_filter, Bool.not_eq_true', List.contains_eq_mem, decide_eq_false_iff_not]
    constructor
    · rintro ⟨p, ⟨hp, hnot⟩, rfl⟩
      have := List.snd_lt_of_mem_zipIdx hp
      exact ⟨by omega, hnot⟩
    · rintro ⟨hi, hnot⟩
      exact ⟨(imgs[i], i), ⟨List.mem_zipIdx_iff_getElem?.2 (by simp [hi]), hnot⟩, rfl⟩
  · rw [hr]; exact (filterMap_get_zipIdx_sub imgs s (fun p hp => hsub.subset hp)).symm
  · rw [hr]; simp [s]
  · rw [hr]
    have := hsub.map (·.1)
    rwa [List.zipIdx_map_fst] at this

/-- the refusal is exact: the call succeeds iff the index list is non-empty and every index denotes an image -/
theorem remove_accepts_iff (base1 : Bool) (idxs : List Int) (imgs : List ι) :
    (∃ r, removeTilts base1 idxs imgs = .ok r) ↔
      idxs ≠ [] ∧ ∀ i ∈ idxs, (if base1 then 1 else 0) ≤ i ∧ i < (imgs.length : Int) + (if base1 then 1 else 0) := by
  constructor
  · rintro ⟨r, h⟩
    obtain ⟨hne, hrange, _⟩ := removeTilts_ok base1 idxs imgs r index_shift_documented.1 h
    exact ⟨hne, hrange⟩
  · rintro ⟨hne, hrange⟩
    have he : idxs.isEmpty = false := by simpa using hne
    unfold removeTilts indicesLoad
    simp only [he, Bool.false_eq_true, if_false, index_shift_documented.1]
    rw [if_neg]
    · exact ⟨_, rfl⟩
    · simp only [List.any_eq_true, not_exists, not_and, Bool.or_eq_true, decide_eq_true_eq]
      intro i hi
      cases base1
      · have := hrange i (by simpa using hi); simp at this; omega
      · simp only [if_true, List.mem_map] at hi
        obtain ⟨x, hx, rfl⟩ := hi
        have := hrange x hx; simp at this; omega

/-! ### even / odd split -/

/-- **Even/odd splitting interleaves back to the input**, for every stack -/
theorem interleave_evens_odds (imgs : List ι) : interleave (evens imgs) (odds imgs) = imgs := by
  simp only [evens, odds, even_rule_documented, if_true]
  exact interleave_sel imgs

/-- the even stack holds the images at positions 0, 2, 4, …, the odd stack those at 1, 3, 5, … -/
theorem evens_odds_positions (imgs : List ι) (k : Nat) :
    (evens imgs)[k]? = imgs[2 * k]? ∧ (odds imgs)[k]? = imgs[2 * k + 1]? := by
  simp only [evens, odds, even_rule_documented, if_true]
  exact ⟨(sel_getElem? imgs).1 k, (sel_getElem? imgs).2 k⟩

theorem split_spec (imgs e o : List ι) (h : splitTilts imgs = .ok (e, o)) :
    interleave e o = imgs ∧ e.length = (imgs.length + 1) / 2 ∧ o.length = imgs.length / 2 ∧ 2 ≤ imgs.length := by
  unfold splitTilts at h
  split at h
  · cases h
  · split at h
    · cases h
    · cases h
      refine ⟨interleave_evens_odds imgs, ?_, ?_, by omega⟩
      · simp only [evens, even_rule_documented, if_true]; exact (sel_length imgs).1
      · simp only [odds, even_rule_documented, if_true]; exact (sel_length imgs).2

/-! ### flips -/

/-- **Flipping along an axis twice is the identity** (each of the three numpy axes) -/
theorem flip_flip (k : Nat) (v : L3 α) : flipAxis k (flipAxis k v) = v := flipAxis_flipAxis k v

/-- the same for the call as the user makes it: any list of valid axis names (`'x'`, `'y'`, `'z'`, repetitions and any
order allowed), applied twice, gives the input back; and the first call does not fail -/
theorem flip_names_resolve (axes : List String) (hvalid : ∀ a ∈ axes, a = "x" ∨ a = "y" ∨ a = "z") :
    ∃ ks : List Nat, axes.map flipNamed = ks.map some := by
  induction axes with
  | nil => exact ⟨[], rfl⟩
  | cons a as ih =>
    obtain ⟨ks, hks⟩ := ih (fun a ha => hvalid a (by simp [ha]))
    rcases hvalid a (by simp) with rfl | rfl | rfl
    · exact ⟨1 :: ks, by simp only [List.map_cons, hks]; rfl⟩
    · exact ⟨2 :: ks, by simp only [List.map_cons, hks]; rfl⟩
    · exact ⟨0 :: ks, by simp only [List.map_cons, hks]; rfl⟩

theorem flip_twice_identity (axes : List String) (v : L3 α) (hvalid : ∀ a ∈ axes, a = "x" ∨ a = "y" ∨ a = "z") :
    ∃ w, flipAll axes v = .ok w ∧ flipAll axes w = .ok v := by
  obtain ⟨ks, hks⟩ := flip_names_resolve axes hvalid
  exact ⟨flipKs ks v, flipAll_eq axes ks v hks, by rw [flipAll_eq axes ks _ hks, flipKs_flipKs]⟩

/-- any other axis name is refused -/
theorem flip_rejects_unknown_axis (a : String) (v : L3 α) (h : a ≠ "x" ∧ a ≠ "y" ∧ a ≠ "z") :
    flipAll [a] v = .error .axis := by
  have : flipNamed a = none := by
    simp only [flipNamed, flip_table_documented, List.lookup]
    have h1 : (a == "x") = false := by simpa using h.1
    have h2 : (a == "y") = false := by simpa using h.2.1
    have h3 : (a == "z") = false := by simpa using h.2.2
    simp [h1, h2, h3]
  simp [flipAll, this]

/-! ### centred crop -/

/-- **Centred cropping returns the central window.** For a request that fits (`h ≤ H`, `w ≤ W`; anything larger is
refused, see `crop_rejects`): voxel `(z, j, i)` of the result is voxel `(z, H/2 - h/2 + j, W/2 - w/2 + i)` of the input,
the window lies inside the image and the margins left on the two sides differ by at most one pixel. -/
theorem crop_window (d : α) (newW newH : Option Nat) (a r : A3 α) (h : crop newW newH a = .ok r) :
    r.d0 = a.d0 ∧ r.d1 = newH.getD a.d1 ∧ r.d2 = newW.getD a.d2 ∧ r.d1 ≤ a.d1 ∧ r.d2 ≤ a.d2
    ∧ (∀ z j i, j < r.d1 → i < r.d2 →
        get3 d r.v z j i = get3 d a.v z (a.d1 / 2 - r.d1 / 2 + j) (a.d2 / 2 - r.d2 / 2 + i))
    ∧ (a.d1 / 2 - r.d1 / 2) + r.d1 ≤ a.d1 ∧ (a.d2 / 2 - r.d2 / 2) + r.d2 ≤ a.d2 := by
  unfold crop at h
  simp only at h
  split at h
  · cases h
  · split at h
    · cases h
    · cases h
      rename_i hw hh
      refine ⟨rfl, rfl, rfl, by simp only; omega, by simp only; omega, ?_, by simp only; omega, by simp only; omega⟩
      intro z j i hj hi
      exact get3_cropV d _ _ _ _ a.v hj hi

/-- the window is centred: left and right (top and bottom) margins differ by at most one pixel -/
theorem crop_centred (full new : Nat) (h : new ≤ full) :
    let left := cropStart full new
    let right := full - (left + new)
    left + new + right = full ∧ left ≤ right + 1 ∧ right ≤ left + 1 := by
  simp only [cropStart]; omega

theorem crop_rejects (newW newH : Option Nat) (a : A3 α) :
    (newW.getD a.d2 > a.d2 → crop newW newH a = .error .cropWidth)
    ∧ (newW.getD a.d2 ≤ a.d2 → newH.getD a.d1 > a.d1 → crop newW newH a = .error .cropHeight) := by
  unfold crop
  refine ⟨fun h => by simp [h], fun h1 h2 => by simp [Nat.not_lt.2 h1, h2]⟩

/-! ### binning -/

/-- **Binning returns block means** (exact arithmetic over any field): for the stack whose voxel `(z,y,x)` is `f z y x`
(every rectangular stack is of this form, `tab3_get3`) and every block that lies completely inside the image, the
binned voxel is the sum of the `b × b` block divided by `b * b`. -/
theorem bin_blockmean {F : Type} [Field F] (f : Nat → Nat → Nat → F) (n H W b : Nat) (hb : 0 < b) (r : A3 F)
    (h : bin b { d0 := n, d1 := H, d2 := W, v := tab3 n H W f } = .ok r)
    (z J I : Nat) (hz : z < n) (hJ : (J + 1) * b ≤ H) (hI : (I + 1) * b ≤ W) :
    get3 0 r.v z J I = (∑ j ∈ Finset.range b, ∑ i ∈ Finset.range b, f z (J * b + j) (I * b + i)) / ((b * b : Nat) : F) := by
  unfold bin at h
  rw [if_neg (by omega)] at h
  cases h
  simp only
  rw [get3_binV b n H W _ hz (ceilDiv_full hJ hb) (ceilDiv_full hI hb)]
  congr 1
  apply Finset.sum_congr rfl; intro j hj
  apply Finset.sum_congr rfl; intro i hi
  have hj' := Finset.mem_range.1 hj
  have hi' := Finset.mem_range.1 hi
  have e1 : (J + 1) * b = J * b + b := by rw [Nat.add_mul, Nat.one_mul]
  have e2 : (I + 1) * b = I * b + b := by rw [Nat.add_mul, Nat.one_mul]
  exact get3_tab3 0 f hz (by omega) (by omega)

/-- what the code does with a trailing partial block (outside the statement, recorded for the correspondence):
`downscale_local_mean` pads with zeros, the divisor stays `b * b` -/
theorem bin_zero_padded {F : Type} [Field F] (f : Nat → Nat → Nat → F) (n H W b : Nat) (hb : 0 < b) (r : A3 F)
    (h : bin b { d0 := n, d1 := H, d2 := W, v := tab3 n H W f } = .ok r)
    (z J I : Nat) (hz : z < n) (hJ : J < (H + b - 1) / b) (hI : I < (W + b - 1) / b) :
    get3 0 r.v z J I = (∑ j ∈ Finset.range b, ∑ i ∈ Finset.range b,
        if J * b + j < H ∧ I * b + i < W then f z (J * b + j) (I * b + i) else 0) / ((b * b : Nat) : F) := by
  unfold bin at h
  rw [if_neg (by omega)] at h
  cases h
  simp only
  rw [get3_binV b n H W _ hz hJ hI]
  congr 1
  apply Finset.sum_congr rfl; intro j _
  apply Finset.sum_congr rfl; intro i _
  rw [get3_tab3_total]
  simp [hz]

/-- shape of the binned stack: `⌈H/b⌉ × ⌈W/b⌉` images, same number of tilts -/
theorem bin_shape {F : Type} [Field F] (b : Nat) (a r : A3 F) (h : bin b a = .ok r) :
    r.d0 = a.d0 ∧ r.d1 = (a.d1 + b - 1) / b ∧ r.d2 = (a.d2 + b - 1) / b ∧ r.WF := by
  unfold bin at h
  split at h
  · cases h
  · cases h; exact ⟨rfl, rfl, rfl, rect_tab3 _ _ _ _⟩

/-! ### x,y,n versus n,y,x, array versus file, and the written file -/

/-- `transpose(2,1,0)` moves voxel `(k,j,i)` to `(i,j,k)` and is an involution on rectangular arrays -/
theorem transpose_spec (d : α) (a : A3 α) :
    (∀ i j k, i < a.d2 → j < a.d1 → k < a.d0 → get3 d (transpose3 d a).v i j k = get3 d a.v k j i)
    ∧ (transpose3 d a).WF ∧ (a.WF → transpose3 d (transpose3 d a) = a) :=
  ⟨fun _ _ _ hi hj hk => transpose3_get d a hi hj hk, transpose3_wf d a, transpose3_transpose3 d a⟩

/-- an MRC file written from a stack and read back is that stack (header `nx,ny,nz = width,height,tilts`, x fastest).
Only the first conjunct has content (`readMrc_writeMrc`); the three header equations are `rfl` restatements of the
definition of `writeMrc` — they are tied to the code by the `transpose=False` anchors and by the harness's own MRC parser. -/
theorem file_roundtrip (a : A3 α) (h : a.WF) :
    readMrc (writeMrc a) = a ∧ (writeMrc a).nx = a.d2 ∧ (writeMrc a).ny = a.d1 ∧ (writeMrc a).nz = a.d0 :=
  ⟨readMrc_writeMrc a h, rfl, rfl, rfl⟩

/-- **Same result for x,y,n and n,y,x input, and for array and file input.** For every operation `op` on the loaded
stack (all six are instances), every output order and file switch, and every rectangular stack `a` (in `n,y,x`):
passing `a` with `input_order="zyx"`, passing its `(2,1,0)` transpose with `input_order="xyz"`, and passing the MRC
file that holds `a` (with either `input_order`) are the same computation.
Proof-wise this is one `simp` over `pipeline := op (load inp)` using the two round-trip lemmas (`transpose3_transpose3`,
`readMrc_writeMrc`): it is a statement about the MODEL's wrapper. That the real six functions have this wrapper shape
(constructor → operation → `write_out` → `correct_order`, files read untransposed, arrays transposed iff `xyz`) is what
`wrappers_documented`, `order_handling_documented` and `tiltstack_class_documented` pin, and what the 16-configuration run checks. -/
theorem order_naturality (d : α) (outZyx wr inXyz : Bool) (op : A3 α → Except Err (List (A3 α))) (a : A3 α) (h : a.WF) :
    pipeline d true outZyx wr op (.arr (transpose3 d a)) = pipeline d false outZyx wr op (.arr a)
    ∧ pipeline d inXyz outZyx wr op (.file (writeMrc a)) = pipeline d false outZyx wr op (.arr a) := by
  simp only [pipeline, load, if_true, transpose3_transpose3 d a h, readMrc_writeMrc a h, Bool.false_eq_true, if_false, and_self]

/-- **The output order only transposes the returned array and does not touch the file**: the `xyz` answer is the
`(2,1,0)` transpose of the `zyx` answer, the files written are identical.
Definitional in the model (`present` is the only place `outZyx` is used); honest only through the `correct_order` /
`write_out` anchors (`order_handling_documented`, `tiltstack_class_documented`) and the differential run. -/
theorem output_order_only_transposes (d : α) (inXyz wr : Bool) (op : A3 α → Except Err (List (A3 α))) (inp : Input α) :
    pipeline d inXyz false wr op inp
      = (pipeline d inXyz true wr op inp).map (fun o => { o with returned := o.returned.map (transpose3 d) }) := by
  simp only [pipeline]
  cases op (load d inXyz inp) with
  | error e => rfl
  | ok rs => simp [Except.map, present]

/-- **The file it writes holds that result.** If the operation returns rectangular stacks (all six do, see the
`*_wf` theorems), the files written, read back, are exactly the stacks returned in `zyx` order — and the `(2,1,0)`
transposes of the stacks returned in `xyz` order. -/
theorem written_file_holds_result (d : α) (inXyz outZyx : Bool) (op : A3 α → Except Err (List (A3 α))) (inp : Input α)
    (o : Out α) (hop : ∀ rs, op (load d inXyz inp) = .ok rs → ∀ r ∈ rs, r.WF)
    (h : pipeline d inXyz outZyx true op inp = .ok o) :
    (outZyx = true → o.written.map readMrc = o.returned)
    ∧ (outZyx = false → o.written.map (fun f => transpose3 d (readMrc f)) = o.returned) := by
  simp only [pipeline, if_true] at h
  cases hrs : op (load d inXyz inp) with
  | error e => rw [hrs] at h; cases h
  | ok rs =>
    rw [hrs] at h
    cases h
    have hwf := hop rs hrs
    constructor
    · intro ho
      subst ho
      rw [List.map_map]
      apply List.map_congr_left
      intro r hr
      show readMrc (writeMrc r) = present d true r
      rw [readMrc_writeMrc r (hwf r hr)]; simp [present]
    · intro ho
      subst ho
      rw [List.map_map]
      apply List.map_congr_left
      intro r hr
      show transpose3 d (readMrc (writeMrc r)) = present d false r
      rw [readMrc_writeMrc r (hwf r hr)]; simp [present]

/-! ### every operation keeps the stack rectangular (so `written_file_holds_result` applies to all six) -/

theorem ops_wf (a : A3 α) (h : a.WF) :
    (∀ (le : κ → κ → Bool) angles rs, opSort le angles a = .ok rs → ∀ r ∈ rs, r.WF)
    ∧ (∀ base1 idxs rs, opRemove base1 idxs a = .ok rs → ∀ r ∈ rs, r.WF)
    ∧ (∀ rs, opSplit a = .ok rs → ∀ r ∈ rs, r.WF)
    ∧ (∀ axes rs, (∀ x ∈ axes, x = "x" ∨ x = "y" ∨ x = "z") → opFlip axes a = .ok rs → ∀ r ∈ rs, r.WF)
    ∧ (∀ newW newH rs, opCrop newW newH a = .ok rs → ∀ r ∈ rs, r.WF) := by
  refine ⟨?_, ?_, ?_, ?_, ?_⟩
  · intro le angles rs hrs r hr
    unfold opSort at hrs
    cases hs : sortTilts le angles a.v with
    | error e => rw [hs] at hrs; cases hrs
    | ok v =>
      rw [hs] at hrs; cases hrs
      simp only [List.mem_singleton] at hr; subst hr
      exact rect_of_mem h (sortTilts_mem le angles a.v v hs)
  · intro base1 idxs rs hrs r hr
    unfold opRemove at hrs
    cases hs : removeTilts base1 idxs a.v with
    | error e => rw [hs] at hrs; cases hrs
    | ok v =>
      rw [hs] at hrs; cases hrs
      simp only [List.mem_singleton] at hr; subst hr
      obtain ⟨_, _, _, _, _, hsub, _⟩ := remove_spec base1 idxs a.v v hs
      exact rect_of_mem h (fun x hx => hsub.subset hx)
  · intro rs hrs r hr
    unfold opSplit at hrs
    cases hs : splitTilts a.v with
    | error e => rw [hs] at hrs; cases hrs
    | ok p =>
      rw [hs] at hrs; cases hrs
      unfold splitTilts at hs
      split at hs
      · cases hs
      · split at hs
        · cases hs
        · cases hs
          simp only [evens, odds, even_rule_documented, if_true, List.mem_cons, List.not_mem_nil, or_false] at hr
          rcases hr with rfl | rfl
          · exact rect_of_mem h (fun x hx => (sel_sublist a.v).1.subset hx)
          · exact rect_of_mem h (fun x hx => (sel_sublist a.v).2.subset hx)
  · intro axes rs hvalid hrs r hr
    unfold opFlip at hrs
    obtain ⟨ks, hks⟩ := flip_names_resolve axes hvalid
    rw [flipAll_eq axes ks a.v hks] at hrs; cases hrs
    simp only [List.mem_singleton] at hr; subst hr
    exact flipKs_rect ks h
  · intro newW newH rs hrs r hr
    unfold opCrop at hrs
    cases hs : crop newW newH a with
    | error e => rw [hs] at hrs; cases hrs
    | ok c =>
      rw [hs] at hrs; cases hrs
      simp only [List.mem_singleton] at hr; subst hr
      unfold crop at hs
      simp only at hs
      split at hs
      · cases hs
      · split at hs
        · cases hs
        · cases hs
          show Rect a.d0 (newH.getD a.d1) (newW.getD a.d2) _
          exact cropV_rect h (by omega) (by omega)

/-! ### hardening pass: angle lists of another length, index sources, which axis a flip reverses, casts, the six functions -/

/-- **An angle list of another length than the stack is outside the statement — this is what the code does with it.**
Whenever the call returns, it returns exactly one image per ANGLE (not per image) and there are at most as many angles as
images; so the result has all the images iff there is one angle per image: fewer angles silently drop images. -/
theorem sort_length_iff (le : κ → κ → Bool) (angles : List κ) (imgs r : List ι) (h : sortTilts le angles imgs = .ok r) :
    r.length = angles.length ∧ angles.length ≤ imgs.length ∧ (r.length = imgs.length ↔ angles.length = imgs.length) := by
  unfold sortTilts at h
  simp only at h
  split at h
  · rename_i hall
    cases h
    have hle := (argsort_all_lt le angles imgs.length).1 hall
    have hlen : ((argsort le angles).filterMap (imgs[·]?)).length = angles.length := by
      rw [filterMap_get_length imgs _ (by simpa using hall), argsort_length]
    exact ⟨hlen, hle, by rw [hlen]⟩
  · cases h

/-- the two branches: more angles than images raise (numpy's `IndexError`), fewer return a shorter stack -/
theorem sort_length_mismatch (le : κ → κ → Bool) (angles : List κ) (imgs : List ι) :
    (imgs.length < angles.length → sortTilts le angles imgs = .error .angleIndex)
    ∧ (angles.length ≤ imgs.length → ∃ r, sortTilts le angles imgs = .ok r ∧ r.length = angles.length) := by
  constructor
  · intro hlt
    unfold sortTilts
    simp only
    rw [if_neg]
    intro hall
    have := (argsort_all_lt le angles imgs.length).1 hall
    omega
  · intro hle
    have hall := (argsort_all_lt le angles imgs.length).2 hle
    refine ⟨_, by unfold sortTilts; simp only; rw [if_pos hall], ?_⟩
    rw [filterMap_get_length imgs _ (by simpa using hall), argsort_length]

/-- **Index sources.** A list/array goes through `remove_spec` as is; a csv file forces 0-based numbering whatever the
caller passes and is not refused when nothing is flagged (nothing is removed); a text file with one or more entries behaves
like the list (a single entry included: `indices_load` makes the loaded array 1-D, repository fix 068f224 of the former
finding C15-K1), an empty one removes nothing; anything that is neither a path, a list nor an ndarray (a tuple) is refused. -/
theorem remove_sources (base1 : Bool) (idxs : List Int) (imgs : List ι) :
    removeTiltsSrc .list base1 idxs imgs = removeTilts base1 idxs imgs
    ∧ (idxs ≠ [] → removeTiltsSrc .csv base1 idxs imgs = removeTilts false idxs imgs)
    ∧ removeTiltsSrc .csv base1 [] imgs = .ok imgs
    ∧ (idxs ≠ [] → removeTiltsSrc .txt base1 idxs imgs = removeTilts base1 idxs imgs)
    ∧ removeTiltsSrc .txt base1 [] imgs = .ok imgs
    ∧ removeTiltsSrc .other base1 idxs imgs = .error .argType := by
  refine ⟨rfl, ?_, rfl, ?_, rfl, rfl⟩
  · intro hne
    have : idxs.isEmpty = false := by simpa using hne
    simp [removeTiltsSrc, this]
  · intro hne
    have : idxs.isEmpty = false := by simpa using hne
    simp [removeTiltsSrc, this]

/-- a text index file with a single entry removes exactly that image (1-based by default) -/
theorem remove_single_entry_file (base1 : Bool) (i : Int) (imgs : List ι) :
    removeTiltsSrc .txt base1 [i] imgs = removeTilts base1 [i] imgs := rfl

/-- an omitted `numbered_from_1` means 1-based: index `k` removes the `k`-th image counted from 1 -/
theorem remove_default_is_one_based (idxs : List Int) (imgs : List ι) :
    removeTilts (base1Of none) idxs imgs = removeTilts true idxs imgs := by
  rw [defaults_resolve.1]

/-- **Which axis a flip reverses** (the involution alone is also satisfied by the identity): on a rectangular
`n × H × W` stack, numpy axis 0 maps tilt `z` to `n-1-z`, axis 1 maps row `j` to `H-1-j`, axis 2 maps column `i` to `W-1-i`;
with `flip_table_documented`: `'x'` reverses the rows (IMOD `clip flipx`), `'y'` the columns, `'z'` the tilt order. -/
theorem flip_reverses (d : α) {n H W : Nat} {v : L3 α} (h : Rect n H W v) {z j i : Nat} (hz : z < n) (hj : j < H) (hi : i < W) :
    get3 d (flipAxis 0 v) z j i = get3 d v (n - 1 - z) j i
    ∧ get3 d (flipAxis 1 v) z j i = get3 d v z (H - 1 - j) i
    ∧ get3 d (flipAxis 2 v) z j i = get3 d v z j (W - 1 - i) := by
  rcases get3_flipAxis d h hz hj (i := i) with h' | h'
  · exact h'
  · omega

/-- anchor-level restatement (`rfl` through the regenerated `Gen.C15.flipTable`): which list operation each axis NAME
denotes in the model. It is not a clause of the property by itself — the content is `flip_reverses` (which voxel moves
where) together with `flip_table_documented` (the table in the source is the documented one); if the source table
changes, this `rfl` stops type-checking. -/
theorem flip_named_convention (v : L3 α) :
    flipAll ["x"] v = .ok (v.map List.reverse) ∧ flipAll ["y"] v = .ok (v.map (fun img => img.map List.reverse))
    ∧ flipAll ["z"] v = .ok v.reverse := ⟨rfl, rfl, rfl⟩

/-- the `axes` argument: a single string is one axis, a list is applied left to right, anything else (a tuple) is refused.
An `rfl` restatement of the definition of `flipArg` (an anchor for the reader, not a clause of the property); the tie to
the code is the `if not isinstance(axes, list): axes = [axes]` statement in `flip_body_documented`. -/
theorem flip_argument_kinds (v : L3 α) :
    (∀ a, flipArg (.one a) v = flipAll [a] v) ∧ (∀ as, flipArg (.list as) v = flipAll as v) ∧ flipArg .other v = .error .axis :=
  ⟨fun _ => rfl, fun _ => rfl, rfl⟩

/-- **`astype(int16)` truncates toward zero**: for a block mean `num/den`, the stored integer `t` has the sign of the mean,
`|t| ≤ |mean| < |t| + 1`; an integral mean is stored exactly. -/
theorem trunc_toward_zero (q : Rat) :
    (0 ≤ q.num → 0 ≤ truncI q ∧ truncI q * q.den ≤ q.num ∧ q.num < (truncI q + 1) * q.den)
    ∧ (q.num ≤ 0 → truncI q ≤ 0 ∧ q.num ≤ truncI q * q.den ∧ (truncI q - 1) * q.den < q.num) :=
  tdiv_toward_zero q.num q.den q.den_pos

theorem trunc_of_int (n : Int) : truncI (n : Rat) = n := by
  simp [truncI]

/-- **The file holds the result also through the dtype cast**: `write_out` and `correct_order` apply the same cast `c`
(the dtype of the loaded stack), and the cast commutes with file I/O and transposition. -/
theorem written_file_holds_result_cast {β : Type} (c : α → β) (d : α) (inXyz outZyx : Bool)
    (op : A3 α → Except Err (List (A3 α))) (inp : Input α)
    (o : Out α) (hop : ∀ rs, op (load d inXyz inp) = .ok rs → ∀ r ∈ rs, r.WF)
    (h : pipeline d inXyz outZyx true op inp = .ok o) :
    (outZyx = true → (o.cast c).written.map readMrc = (o.cast c).returned)
    ∧ (outZyx = false → (o.cast c).written.map (fun f => transpose3 (c d) (readMrc f)) = (o.cast c).returned) := by
  obtain ⟨h1, h2⟩ := written_file_holds_result d inXyz outZyx op inp o hop h
  constructor
  · intro ho
    have := h1 ho
    simp only [Out.cast, List.map_map]
    rw [← this, List.map_map]
    apply List.map_congr_left
    intro f _
    exact readMrc_map c f
  · intro ho
    have := h2 ho
    simp only [Out.cast, List.map_map]
    rw [← this, List.map_map]
    apply List.map_congr_left
    intro f _
    show transpose3 (c d) (readMrc (Mrc.map c f)) = A3.map c (transpose3 d (readMrc f))
    rw [readMrc_map, transpose3_map]

/-- **The written file holds the result for the real functions** (not only for an abstract `op`): sorting, removing (any
index source), splitting, flipping (any argument kind) and cropping, on every input whose loaded stack is rectangular. -/
theorem file_holds_result_for_each_function (d : α) (inXyz outZyx : Bool) (inp : Input α) (hin : (load d inXyz inp).WF) (o : Out α) :
    let holds := (outZyx = true → o.written.map readMrc = o.returned)
      ∧ (outZyx = false → o.written.map (fun f => transpose3 d (readMrc f)) = o.returned)
    (∀ (le : κ → κ → Bool) angles, pipeline d inXyz outZyx true (opSort le angles) inp = .ok o → holds)
    ∧ (∀ src base1 idxs, pipeline d inXyz outZyx true (opRemoveSrc src base1 idxs) inp = .ok o → holds)
    ∧ (pipeline d inXyz outZyx true opSplit inp = .ok o → holds)
    ∧ (∀ arg, pipeline d inXyz outZyx true (opFlipArg arg) inp = .ok o → holds)
    ∧ (∀ newW newH, pipeline d inXyz outZyx true (opCrop newW newH) inp = .ok o → holds) := by
  intro holds
  obtain ⟨wsort, wremove, wsplit, wflip, wcrop⟩ := ops_wf (κ := κ) (load d inXyz inp) hin
  refine ⟨?_, ?_, ?_, ?_, ?_⟩
  · intro le angles h
    exact written_file_holds_result d inXyz outZyx _ inp o (fun rs hrs => wsort le angles rs hrs) h
  · intro src base1 idxs h
    refine written_file_holds_result d inXyz outZyx _ inp o ?_ h
    intro rs hrs
    -- every source reduces to `removeTilts` or returns the stack unchanged
    unfold opRemoveSrc at hrs
    cases hs : removeTiltsSrc src base1 idxs (load d inXyz inp).v with
    | error e => rw [hs] at hrs; cases hrs
    | ok v =>
      rw [hs] at hrs; cases hrs
      intro r hr
      simp only [List.mem_singleton] at hr; subst hr
      have hmem : ∀ x ∈ v, x ∈ (load d inXyz inp).v := by
        cases src with
        | list =>
          obtain ⟨_, _, _, _, _, hsub, _⟩ := remove_spec base1 idxs _ v hs
          exact fun x hx => hsub.subset hx
        | txt =>
          simp only [removeTiltsSrc] at hs
          split at hs
          · cases hs; exact fun x hx => hx
          · obtain ⟨_, _, _, _, _, hsub, _⟩ := remove_spec base1 idxs _ v hs
            exact fun x hx => hsub.subset hx
        | csv =>
          simp only [removeTiltsSrc] at hs
          split at hs
          · cases hs; exact fun x hx => hx
          · obtain ⟨_, _, _, _, _, hsub, _⟩ := remove_spec false idxs _ v hs
            exact fun x hx => hsub.subset hx
        | other => simp [removeTiltsSrc] at hs
      exact rect_of_mem hin hmem
  · intro h
    exact written_file_holds_result d inXyz outZyx _ inp o (fun rs hrs => wsplit rs hrs) h
  · intro arg h
    refine written_file_holds_result d inXyz outZyx _ inp o ?_ h
    intro rs hrs
    cases arg with
    | one a =>
      by_cases hv : a = "x" ∨ a = "y" ∨ a = "z"
      · exact wflip [a] rs (by intro x hx; simp at hx; subst hx; exact hv) hrs
      · have := flip_rejects_unknown_axis a (load d inXyz inp).v (by
          refine ⟨fun e => hv (Or.inl e), fun e => hv (Or.inr (Or.inl e)), fun e => hv (Or.inr (Or.inr e))⟩)
        simp [opFlipArg, flipArg, this, Except.map] at hrs
    | list as =>
      by_cases hv : ∀ x ∈ as, x = "x" ∨ x = "y" ∨ x = "z"
      · exact wflip as rs hv hrs
      · -- an unknown name somewhere in the list: the call raises, nothing is returned
        exfalso
        have hnone : ∃ x ∈ as, flipNamed x = none := by
          simp only [not_forall] at hv
          obtain ⟨x, hx, hnot⟩ := hv
          refine ⟨x, hx, ?_⟩
          simp only [flipNamed, flip_table_documented, List.lookup]
          have h1 : (x == "x") = false := by simpa using fun e => hnot (Or.inl e)
          have h2 : (x == "y") = false := by simpa using fun e => hnot (Or.inr (Or.inl e))
          have h3 : (x == "z") = false := by simpa using fun e => hnot (Or.inr (Or.inr e))
          simp [h1, h2, h3]
        have herr : ∀ (l : List String) (w : L3 α), (∃ x ∈ l, flipNamed x = none) → flipAll l w = .error .axis := by
          intro l
          induction l with
          | nil => intro w ⟨x, hx, _⟩; simp at hx
          | cons a t ih =>
            intro w ⟨x, hx, hn⟩
            simp only [flipAll]
            cases hfa : flipNamed a with
            | none => rfl
            | some k =>
              simp only
              apply ih
              rcases List.mem_cons.1 hx with rfl | hx'
              · rw [hfa] at hn; cases hn
              · exact ⟨x, hx', hn⟩
        simp [opFlipArg, flipArg, herr as _ hnone, Except.map] at hrs
    | other => simp [opFlipArg, flipArg, Except.map] at hrs
  · intro newW newH h
    exact written_file_holds_result d inXyz outZyx _ inp o (fun rs hrs => wcrop newW newH rs hrs) h


/-! ### the tilt-angle sources: sorting is judged on the angles AS WRITTEN (exact decimal → `Rat`)

`sort_tilts_by_angle` takes its angles from a text file with one decimal number per line (`one_value_per_line_read`,
float32), from the `TiltAngle` entries of an mdoc file (float64) or from a list / ndarray. The model parses the decimal
TEXT exactly (`parseDec`) and sorts by that rational number, so the theorems below are about the very key written in the
file. The code's key is this number rounded to float32 / float64: rounding is monotone, hence the order is the same
unless two different written angles round to the same float (the harness computes this for every case and counts such
cases as outside — they need ≥ 7 significant digits). -/

/-- **What a decimal text denotes**: `ddd.ddd` is the integer part plus the fractional digits over `10 ^ (their number)`,
a leading `-` negates, a text without a decimal point is the integer. (Every all-digit `ip ≠ []`, every all-digit `fp`.) -/
theorem angle_text_value (ip fp : List Char) (hip : ∀ c ∈ ip, c.isDigit = true) (hfp : ∀ c ∈ fp, c.isDigit = true) (hne : ip ≠ []) :
    parseDecChars (ip ++ '.' :: fp) = some ((natOfDigits ip : Rat) + (natOfDigits fp : Rat) / (10 : Rat) ^ fp.length)
    ∧ parseDecChars ('-' :: (ip ++ '.' :: fp)) = some (-((natOfDigits ip : Rat) + (natOfDigits fp : Rat) / (10 : Rat) ^ fp.length))
    ∧ parseDecChars ip = some (natOfDigits ip : Rat)
    ∧ parseDecChars ('-' :: ip) = some (-(natOfDigits ip : Rat)) := by
  obtain ⟨d, t, rfl⟩ : ∃ d t, ip = d :: t := by cases ip with | nil => exact absurd rfl hne | cons d t => exact ⟨d, t, rfl⟩
  have hd : d.isDigit = true := hip d (by simp)
  have hm : d ≠ '-' := by rintro rfl; exact absurd hd (by decide)
  have hp : d ≠ '+' := by rintro rfl; exact absurd hd (by decide)
  have huns : ∀ rest, parseDecChars (d :: rest) = parseUnsigned (d :: rest) := by
    intro rest
    unfold parseDecChars
    split
    · rename_i h; exact absurd (List.cons.inj h).1 hm
    · rename_i h; exact absurd (List.cons.inj h).1 hp
    · rfl
  have h1 := parseUnsigned_decimal (d :: t) fp hip hfp hne
  have h2 := parseUnsigned_integer (d :: t) hip hne
  refine ⟨by rw [List.cons_append, huns, ← List.cons_append]; exact h1, ?_, by rw [huns]; exact h2, ?_⟩
  · show (parseUnsigned (d :: t ++ '.' :: fp)).map (fun q => -q) = _
    rw [h1]; rfl
  · show (parseUnsigned (d :: t)).map (fun q => -q) = _
    rw [h2]; rfl

/-- **Sorting by the written angles** (hypothesis-free about the order: `≤` on `Rat` is total and transitive): if every
line parses (`keys` are the exact values, one per image), the result is a permutation of the (angle, image) pairs,
ascending in the written angle. -/
theorem sort_by_written_angles (lines : List String) (keys : List Rat) (imgs : List ι)
    (hparse : List.Forall₂ (fun s q => parseDec s = some q) lines keys) (hlen : lines.length = imgs.length) :
    ∃ ps : List (Rat × ι), sortTiltsLines lines imgs = .ok (ps.map (·.2))
      ∧ ps.Perm (keys.zip imgs) ∧ ps.Pairwise (fun p q => p.1 ≤ q.1) := by
  have hk : keys.length = imgs.length := by rw [← hlen]; exact hparse.length_eq.symm
  obtain ⟨ps, hres, hperm, hsorted⟩ := sort_perm_sorted ratLe ratLe_trans ratLe_total keys imgs hk
  refine ⟨ps, ?_, hperm, hsorted.imp (fun h => by simpa [ratLe] using h)⟩
  simp only [sortTiltsLines, parseAll_of_forall₂ lines keys hparse]
  exact hres

/-- written angles without ties: the ascending arrangement is unique — any correct sorting routine returns the model's list -/
theorem sort_by_written_angles_unique (keys : List Rat) (hnodup : keys.Nodup) (imgs : List ι) (hlen : keys.length = imgs.length)
    (ps qs : List (Rat × ι)) (hp : ps.Perm (keys.zip imgs)) (hq : qs.Perm (keys.zip imgs))
    (hps : ps.Pairwise (fun p q => p.1 ≤ q.1)) (hqs : qs.Pairwise (fun p q => p.1 ≤ q.1)) : ps = qs :=
  sort_unique_without_ties ratLe ratLe_antisymm keys hnodup imgs hlen ps qs hp hq
    (hps.imp (fun h => by simpa [ratLe] using h)) (hqs.imp (fun h => by simpa [ratLe] using h))

/-- **Ties (outside the property; recorded).** The MODEL's sort is stable: whenever image `i` comes before image `j` in the
input and its angle is `≤` the angle of `j` (in particular: equal), `i` comes before `j` in the result. The real code calls
`np.argsort(tilt_angles)` with numpy's default `kind="quicksort"` (`sort_expressions_documented`), which numpy does not
promise to be stable; so for tied angles the harness only checks that the result is SOME ascending arrangement of the images
that have an angle, and does not compare the positions of tied images with the model. The tie class is decided before the
length class: an angle list SHORTER than the stack that holds a tie is judged the same way (up to the order inside tie
groups); until round 7 such lists were compared position by position with this stable model, which produced a false alarm
(seed 1069) — a correction of the harness, never a finding. -/
theorem sort_ties_keep_input_order (le : κ → κ → Bool)
    (htrans : ∀ a b c, le a b = true → le b c = true → le a c = true) (htotal : ∀ a b, (le a b || le b a) = true)
    (angles : List κ) (imgs : List ι) (hlen : angles.length = imgs.length) (i j : Nat) (hij : i < j) (hj : j < angles.length)
    (hle : le (angles[i]'(by omega)) angles[j] = true) :
    ∃ r, sortTilts le angles imgs = .ok r ∧ [imgs[i]'(by omega), imgs[j]'(by omega)].Sublist r := by
  have hall := (argsort_all_lt le angles imgs.length).2 (by omega)
  refine ⟨_, by unfold sortTilts; simp only; rw [if_pos hall], ?_⟩
  have hs := (argsort_stable le htrans htotal angles i j hij hj hle).filterMap (imgs[·]?)
  have hi' : i < imgs.length := by omega
  have hj' : j < imgs.length := by omega
  simpa [List.filterMap_cons, List.getElem?_eq_getElem hi', List.getElem?_eq_getElem hj'] using hs

/-- the same for the written angles: two images with the same written angle keep their input order in the model -/
theorem sort_written_ties_keep_input_order (keys : List Rat) (imgs : List ι) (hlen : keys.length = imgs.length)
    (i j : Nat) (hij : i < j) (hj : j < keys.length) (heq : keys[i]'(by omega) = keys[j]) :
    ∃ r, sortTilts ratLe keys imgs = .ok r ∧ [imgs[i]'(by omega), imgs[j]'(by omega)].Sublist r :=
  sort_ties_keep_input_order ratLe ratLe_trans ratLe_total keys imgs hlen i j hij hj (by simp [ratLe, heq])

/-- **From the text of the file to the column of angles** (what `AngArg.tltFile` / `AngArg.mdocFile` sort by). Both extractions
are compositional over the lines of the file (`…_append`), so these per-line facts describe whole files:
a one-value-per-line file contributes, per non-blank line, its first whitespace-separated field (leading blanks as IMOD writes
them in `.rawtlt`, trailing blanks / `\r` dropped), blank lines nothing; an mdoc file contributes, per `TiltAngle = v` line,
the stripped `v`, and nothing for section headers `[ZValue = k]`, other keys or blank lines. -/
theorem angle_file_columns :
    (∀ a b, tltColumn (a ++ b) = tltColumn a ++ tltColumn b)
    ∧ (∀ l, (∀ c ∈ l, isWs c = true) → tltColumn [l] = [])
    ∧ (∀ pre tok post, (∀ c ∈ pre, isWs c = true) → (∀ c ∈ tok, isWs c = false) → tok ≠ [] →
        (post = [] ∨ ∃ w rest, post = w :: rest ∧ isWs w = true) → tltColumn [pre ++ tok ++ post] = [tok])
    ∧ (∀ a b, mdocColumn (a ++ b) = mdocColumn a ++ mdocColumn b)
    ∧ (∀ k v, (∀ c ∈ k, c ≠ '=') → trimChars k = "TiltAngle".toList → (k ++ '=' :: v).head? ≠ some '[' →
        mdocColumn [k ++ '=' :: v] = [trimChars v])
    ∧ (∀ l, (l.head? = some '[' ∨ keyOf l ≠ "TiltAngle".toList) → mdocColumn [l] = []) :=
  ⟨tltColumn_append, tltColumn_blank, tltColumn_line, mdocColumn_append, mdocColumn_line, mdocColumn_skip⟩

/-- what the model does with each kind of `input_tilts` (definitional unfoldings — anchors, not clauses): an argument that is
neither a path, a list nor an ndarray is refused like `tlt_load`'s final `raise ValueError` (`loaders_documented`); a cell that
is not a plain decimal number puts the case outside the model (`angleText`); otherwise the call IS `opSort` on the exact values
of the cells — so `sort_by_written_angles`, `sort_by_written_angles_unique`, `ops_wf` apply to what the driver executes. -/
theorem sort_argument_kinds (arg : AngArg) (a : A3 α) :
    (arg.cells = none → opSortArg arg a = .error .argType)
    ∧ (∀ cells, arg.cells = some cells → parseAll cells = none → opSortArg arg a = .error .angleText)
    ∧ (∀ cells keys, arg.cells = some cells → parseAll cells = some keys → opSortArg arg a = opSort ratLe keys a)
    ∧ AngArg.other.cells = none ∧ (∀ lines, (AngArg.seq lines).cells = some lines) := by
  refine ⟨fun h => ?_, fun cells hc h => ?_, fun cells keys hc h => ?_, rfl, fun _ => rfl⟩
  · simp [opSortArg, h]
  · simp [opSortArg, hc, sortTiltsLines, h, Except.map]
  · simp [opSortArg, hc, sortTiltsLines, h, opSort]

/-- **The written file holds the result for sorting by a file / list of written angles** (the operation the driver executes) -/
theorem file_holds_result_sort_lines (d : α) (inXyz outZyx : Bool) (inp : Input α) (hin : (load d inXyz inp).WF) (o : Out α)
    (arg : AngArg) (h : pipeline d inXyz outZyx true (opSortArg arg) inp = .ok o) :
    (outZyx = true → o.written.map readMrc = o.returned)
    ∧ (outZyx = false → o.written.map (fun f => transpose3 d (readMrc f)) = o.returned) := by
  refine written_file_holds_result d inXyz outZyx _ inp o ?_ h
  intro rs hrs
  cases hc : arg.cells with
  | none => rw [(sort_argument_kinds arg _).1 hc] at hrs; cases hrs
  | some cells =>
    cases hk : parseAll cells with
    | none => rw [(sort_argument_kinds arg _).2.1 cells hc hk] at hrs; cases hrs
    | some keys =>
      rw [(sort_argument_kinds arg _).2.2.1 cells keys hc hk] at hrs
      exact (ops_wf (κ := Rat) (load d inXyz inp) hin).1 ratLe keys rs hrs

/-- **The written file holds the result for binning too** (the sixth function; `file_holds_result_for_each_function` lists the five
that only move voxels): over any field, for every binning factor, also through the cast back to the stack's dtype (`c`, e.g.
`truncI` for int16 stacks — `write_out` and `correct_order` apply the same cast). -/
theorem file_holds_result_bin {F β : Type} [Field F] (c : F → β) (d : F) (inXyz outZyx : Bool) (inp : Input F) (o : Out F) (b : Nat)
    (h : pipeline d inXyz outZyx true (opBin b) inp = .ok o) :
    ((outZyx = true → o.written.map readMrc = o.returned)
      ∧ (outZyx = false → o.written.map (fun f => transpose3 d (readMrc f)) = o.returned))
    ∧ ((outZyx = true → (o.cast c).written.map readMrc = (o.cast c).returned)
      ∧ (outZyx = false → (o.cast c).written.map (fun f => transpose3 (c d) (readMrc f)) = (o.cast c).returned)) := by
  have hop : ∀ rs, opBin b (load d inXyz inp) = .ok rs → ∀ r ∈ rs, r.WF := by
    intro rs hrs r hr
    unfold opBin at hrs
    cases hb : bin b (load d inXyz inp) with
    | error e => rw [hb] at hrs; cases hrs
    | ok r' =>
      rw [hb] at hrs; cases hrs
      simp only [List.mem_singleton] at hr; subst hr
      exact (bin_shape b _ _ hb).2.2.2
  exact ⟨written_file_holds_result d inXyz outZyx _ inp o hop h, written_file_holds_result_cast c d inXyz outZyx _ inp o hop h⟩

/-! ### non-vacuity: concrete inputs meeting the hypotheses -/

example := sort_perm_sorted (fun (a b : Int) => decide (a ≤ b)) (by intro a b c; simp; omega) (by intro a b; simp; omega)
  [30, -10, 20] ["a", "b", "c"] rfl
example := sort_unique_without_ties (ι := String) (fun (a b : Int) => decide (a ≤ b)) (by intro a b; simp; omega) [30, -10, 20] (by decide)
example : removeTilts true [3, 1] ["a", "b", "c", "d"] = .ok ["b", "d"] := by decide
example : removeTilts false [3, 1] ["a", "b", "c", "d"] = .ok ["a", "c"] := by decide
example : removeTilts true [0] ["a", "b"] = .error .index := by decide
example : splitTilts [1, 2, 3, 4, 5] = .ok ([1, 3, 5], [2, 4]) := by decide
example : flipAll ["x", "z"] [[[1, 2], [3, 4]], [[5, 6], [7, 8]]] = .ok [[[7, 8], [5, 6]], [[3, 4], [1, 2]]] := by decide
example : (crop (some 2) (some 1) (ofFlat 1 3 5 (List.range 15))).toOption.map (·.v) = some [[[6, 7]]] := by decide
example : (bin 2 (ofFlat 1 2 4 [(1 : Rat), 2, 3, 4, 5, 6, 7, 8])).toOption.map (·.v) = some [[[(7 : Rat) / 2, 11 / 2]]] := by decide +kernel
example : (ofFlat 2 3 4 (List.range 24)).WF := by unfold A3.WF Rect; decide
example : (transpose3 0 (ofFlat 1 2 3 [1, 2, 3, 4, 5, 6])).v = [[[1], [4]], [[2], [5]], [[3], [6]]] := by decide

example : ∃ r, sortTilts (fun (a b : Int) => decide (a ≤ b)) [30, -10] ["a", "b", "c"] = .ok r ∧ r.length = 2 :=
  (sort_length_mismatch _ [30, -10] ["a", "b", "c"]).2 (by decide)
example : sortTilts (fun (a b : Int) => decide (a ≤ b)) [3, 1, 2, 0] ["a", "b", "c"] = .error .angleIndex :=
  (sort_length_mismatch _ [3, 1, 2, 0] ["a", "b", "c"]).1 (by decide)
example : removeTiltsSrc .csv true [1, 3] ["a", "b", "c", "d"] = .ok ["a", "c"] := by decide
example : removeTiltsSrc .txt true [2] ["a", "b", "c", "d"] = .ok ["a", "c", "d"] := by decide
example : removeTiltsSrc .txt true [2, 4] ["a", "b", "c", "d"] = .ok ["a", "c"] := by decide
example : flipArg (.one "x") [[[1, 2], [3, 4]]] = .ok [[[3, 4], [1, 2]]] := by decide
example : flipArg .other [[[1, 2], [3, 4]]] = .error .axis := by decide
example : truncI ((-7 : Rat) / 2) = -3 ∧ truncI ((7 : Rat) / 2) = 3 ∧ truncI (-(1 : Rat) / 4) = 0 := by decide +kernel
example : Rect 2 2 2 [[[1, 2], [3, 4]], [[5, 6], [7, 8]]] := by unfold Rect; decide
example : parseDec " -60.00" = some (-60) ∧ parseDec "10.34" = some (517 / 50) ∧ parseDec "10.26\r" = some (513 / 50)
    ∧ parseDec "12" = some 12 ∧ parseDec ".5" = some (1 / 2) ∧ parseDec "1e1" = none ∧ parseDec "" = none := by decide +kernel
/-- the audit's example: 10.34, 10.26, -3.0 sort to positions [2, 1, 0] (rounding the angles to one decimal would give
[2, 0, 1]); derived from the two theorems above, not by evaluating the sort -/
example : sortTiltsLines ["10.34", "10.26", "-3.0"] ["a", "b", "c"] = .ok ["c", "b", "a"] := by
  obtain ⟨ps, hres, hperm, hsorted⟩ := sort_by_written_angles ["10.34", "10.26", "-3.0"] [517 / 50, 513 / 50, -3] ["a", "b", "c"]
    (.cons (by decide +kernel) (.cons (by decide +kernel) (.cons (by decide +kernel) .nil))) rfl
  have := sort_by_written_angles_unique [517 / 50, 513 / 50, -3] (by decide +kernel) ["a", "b", "c"] rfl ps
    [(-3, "c"), (513 / 50, "b"), (517 / 50, "a")] hperm (List.reverse_perm [(517 / 50, "a"), (513 / 50, "b"), (-3, "c")])
    hsorted (by decide +kernel)
  rw [hres, this]; rfl
example := sort_by_written_angles ["10.34", "10.26", "-3.0"] [517 / 50, 513 / 50, -3] ["a", "b", "c"]
  (.cons (by decide +kernel) (.cons (by decide +kernel) (.cons (by decide +kernel) .nil))) rfl
example := angle_text_value ['1', '0'] ['3', '4'] (by decide) (by decide) (by decide)
example : removeTiltsSrc .other true [1] ["a", "b"] = .error .argType := rfl
example : (AngArg.tltFile [" -60.00", "  -57.00\r", "", "3.5 7"]).cells = some ["-60.00", "-57.00", "3.5"] := by decide
example : (AngArg.mdocFile ["PixelSpacing = 1.35", "[T = x]", "[ZValue = 0]", "TiltAngle = -0.01", "ExposureDose = 3.0", "",
    "[ZValue = 1]", "TiltAngle = 59.98"]).cells = some ["-0.01", "59.98"] := by decide

end CryoCat.C15
